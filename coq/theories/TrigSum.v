(* Discrete Fourier orthogonality on the uniform periodic grid.

   [rsum n f] is the sum of f over 0..n-1 (it coincides with the project's [gsum], lemma [rsum_gsum]).

   T1  sum_cos_uniform / sum_sin_uniform (nat frequency) and sum_cos_uniformZ / sum_sin_uniformZ (integer frequency):
         sum_{k<N} cos(2 pi p k / N) = N if N | p, else 0;      sum_{k<N} sin(2 pi p k / N) = 0.
   T2  sum_coscos / sum_sinsin / sum_cossin : the product forms for 0 <= p, q <= N/2 (real DFT orthogonality), with the
       values N (p = q = 0 or p = q = Nyquist), N/2 (other p = q) and 0.
   Dirichlet kernel  (dirichlet, dirichlet_diff): sum_{m=0}^{N/2} w_m cos(m (theta_j - theta_j')) = N [j = j'] with
       w_0 = 1, w_m = 2, w_{N/2} = 1 for even N -- the dual orthogonality that a real DFT round trip needs. *)
From Coq Require Import Reals List ZArith Lra Lia Arith Bool.
From QSC Require Import Expr.
Open Scope R_scope.

(* ------------------------------------------------------------------ *)
(* finite sums                                                         *)
Fixpoint rsum (n : nat) (f : nat -> R) : R :=
  match n with O => 0 | S n' => rsum n' f + f n' end.

Lemma rsum_ext n f g : (forall k, (k < n)%nat -> f k = g k) -> rsum n f = rsum n g.
Proof.
  induction n; intros H; simpl; [reflexivity|].
  rewrite IHn by (intros; apply H; lia). rewrite H by lia. reflexivity.
Qed.

Lemma rsum_plus n f g : rsum n (fun k => f k + g k) = rsum n f + rsum n g.
Proof. induction n; simpl; [lra|]. rewrite IHn. lra. Qed.

Lemma rsum_scal n c f : rsum n (fun k => c * f k) = c * rsum n f.
Proof. induction n; simpl; [lra|]. rewrite IHn. lra. Qed.

Lemma rsum_scal_r n c f : rsum n (fun k => f k * c) = rsum n f * c.
Proof. induction n; simpl; [lra|]. rewrite IHn. lra. Qed.

Lemma rsum_zero n f : (forall k, (k < n)%nat -> f k = 0) -> rsum n f = 0.
Proof.
  induction n; intros H; simpl; [reflexivity|].
  rewrite IHn by (intros; apply H; lia). rewrite H by lia. lra.
Qed.

Lemma rsum_const n c : rsum n (fun _ => c) = INR n * c.
Proof. induction n; [simpl; lra|]. cbn [rsum]. rewrite IHn, S_INR. lra. Qed.

Lemma rsum_S_head n f : rsum (S n) f = f O + rsum n (fun k => f (S k)).
Proof. induction n; [simpl; lra|]. cbn [rsum] in *. rewrite IHn. lra. Qed.

Lemma rsum_split a b f : rsum (a + b) f = rsum a f + rsum b (fun k => f (a + k)%nat).
Proof.
  induction b; [rewrite Nat.add_0_r; simpl; lra|].
  rewrite Nat.add_succ_r. cbn [rsum]. rewrite IHb. lra.
Qed.

Lemma rsum_rev n f : rsum n f = rsum n (fun k => f (n - 1 - k)%nat).
Proof.
  revert f. induction n; intros f; [reflexivity|].
  rewrite rsum_S_head. cbn [rsum]. rewrite (IHn (fun k => f (S k))).
  replace (S n - 1 - n)%nat with O by lia.
  rewrite Rplus_comm. f_equal. apply rsum_ext. intros k Hk. f_equal. lia.
Qed.

Lemma rsum_swap n m (F : nat -> nat -> R) :
  rsum n (fun j => rsum m (fun k => F j k)) = rsum m (fun k => rsum n (fun j => F j k)).
Proof.
  induction n; simpl.
  - symmetry. apply rsum_zero. reflexivity.
  - rewrite IHn. rewrite <- rsum_plus. reflexivity.
Qed.

Lemma rsum_delta n j f : (j < n)%nat -> rsum n (fun k => if (k =? j)%nat then f k else 0) = f j.
Proof.
  induction n; intros Hj; [lia|]. cbn [rsum].
  destruct (Nat.eq_dec j n) as [->|Hne].
  - rewrite Nat.eqb_refl. rewrite rsum_zero; [lra|].
    intros k Hk. destruct (Nat.eqb_spec k n); [lia|reflexivity].
  - rewrite IHn by lia. destruct (Nat.eqb_spec n j); [lia|lra].
Qed.

Lemma lsum_app l1 l2 : lsum (l1 ++ l2) = lsum l1 + lsum l2.
Proof. unfold lsum. induction l1; simpl; [lra|]. rewrite IHl1. lra. Qed.

Lemma rsum_gsum n f : rsum n f = gsum n f.
Proof.
  unfold gsum, grid. induction n; [reflexivity|].
  rewrite seq_S, map_app, lsum_app. cbn [rsum]. rewrite IHn. simpl. unfold lsum. simpl. lra.
Qed.

(* ------------------------------------------------------------------ *)
(* T1: telescoping                                                     *)
Lemma tele_cos x n :
  2 * sin (x / 2) * rsum n (fun k => cos (INR k * x)) = sin ((INR n - / 2) * x) + sin (x / 2).
Proof.
  induction n.
  - simpl. replace ((0 - / 2) * x) with (- (x / 2)) by lra. rewrite sin_neg. lra.
  - cbn [rsum]. rewrite Rmult_plus_distr_l, IHn. rewrite S_INR.
    replace ((INR n + 1 - / 2) * x) with (INR n * x + x / 2) by lra.
    replace ((INR n - / 2) * x) with (INR n * x - x / 2) by lra.
    rewrite sin_plus, sin_minus. ring.
Qed.

Lemma tele_sin x n :
  2 * sin (x / 2) * rsum n (fun k => sin (INR k * x)) = cos (x / 2) - cos ((INR n - / 2) * x).
Proof.
  induction n.
  - simpl. replace ((0 - / 2) * x) with (- (x / 2)) by lra. rewrite cos_neg. lra.
  - cbn [rsum]. rewrite Rmult_plus_distr_l, IHn. rewrite S_INR.
    replace ((INR n + 1 - / 2) * x) with (INR n * x + x / 2) by lra.
    replace ((INR n - / 2) * x) with (INR n * x - x / 2) by lra.
    rewrite cos_plus, cos_minus. ring.
Qed.

Lemma INR_pos_neq0 N : (1 <= N)%nat -> INR N <> 0.
Proof. intros H. apply not_0_INR. lia. Qed.

(* sin(pi p/N) = 0 only if N | p *)
Lemma sin_half_neq0 N p : (1 <= N)%nat -> (p mod N <> 0)%nat -> sin (2 * PI * INR p / INR N / 2) <> 0.
Proof.
  intros HN Hp Hs. apply sin_eq_0_0 in Hs. destruct Hs as [k Hk].
  assert (HN0 := INR_pos_neq0 N HN). assert (Hpi := PI_neq0).
  assert (E : INR p = IZR k * INR N).
  { assert (E1 : 2 * PI * INR p / INR N / 2 = PI * (INR p / INR N)) by (field; exact HN0).
    rewrite E1 in Hk. assert (E2 : INR p / INR N = IZR k).
    { apply (Rmult_eq_reg_l PI); [|exact Hpi]. lra. }
    rewrite <- E2. field. exact HN0. }
  rewrite !INR_IZR_INZ, <- mult_IZR in E. apply eq_IZR in E.
  apply Hp. apply Nat2Z.inj. rewrite Nat2Z.inj_mod. rewrite E. simpl. apply Z_mod_mult.
Qed.

Lemma cos_2PI_nat k : cos (2 * PI * INR k) = 1.
Proof.
  replace (2 * PI * INR k) with (0 + 2 * INR k * PI) by ring. rewrite cos_period. apply cos_0.
Qed.

Lemma sin_2PI_nat k : sin (2 * PI * INR k) = 0.
Proof.
  replace (2 * PI * INR k) with (0 + 2 * INR k * PI) by ring. rewrite sin_period. apply sin_0.
Qed.

Theorem sum_cos_uniform N p : (1 <= N)%nat ->
  rsum N (fun k => cos (2 * PI * INR p * INR k / INR N)) = if (p mod N =? 0)%nat then INR N else 0.
Proof.
  intros HN. assert (HN0 := INR_pos_neq0 N HN).
  destruct (Nat.eqb_spec (p mod N) 0) as [Hd|Hd].
  - apply Nat.mod_divides in Hd; [|lia]. destruct Hd as [q ->].
    rewrite (rsum_ext _ _ (fun _ => 1)); [rewrite rsum_const; lra|].
    intros k _. rewrite mult_INR.
    replace (2 * PI * (INR N * INR q) * INR k / INR N) with (2 * PI * INR (q * k)).
    + apply cos_2PI_nat.
    + rewrite mult_INR. field. exact HN0.
  - set (x := 2 * PI * INR p / INR N).
    rewrite (rsum_ext _ _ (fun k => cos (INR k * x))).
    2:{ intros k _. f_equal. unfold x. field. exact HN0. }
    assert (Hs : sin (x / 2) <> 0) by (apply sin_half_neq0; assumption).
    assert (T := tele_cos x N).
    replace ((INR N - / 2) * x) with (- (x / 2) + 2 * INR p * PI) in T
      by (unfold x; field; exact HN0).
    rewrite sin_period, sin_neg in T.
    apply (Rmult_eq_reg_l (2 * sin (x / 2))); [lra|].
    intros H0. apply Hs. lra.
Qed.

Theorem sum_sin_uniform N p : (1 <= N)%nat ->
  rsum N (fun k => sin (2 * PI * INR p * INR k / INR N)) = 0.
Proof.
  intros HN. assert (HN0 := INR_pos_neq0 N HN).
  destruct (Nat.eqb_spec (p mod N) 0) as [Hd|Hd].
  - apply Nat.mod_divides in Hd; [|lia]. destruct Hd as [q ->].
    apply rsum_zero. intros k _. rewrite mult_INR.
    replace (2 * PI * (INR N * INR q) * INR k / INR N) with (2 * PI * INR (q * k)).
    + apply sin_2PI_nat.
    + rewrite mult_INR. field. exact HN0.
  - set (x := 2 * PI * INR p / INR N).
    rewrite (rsum_ext _ _ (fun k => sin (INR k * x))).
    2:{ intros k _. f_equal. unfold x. field. exact HN0. }
    assert (Hs : sin (x / 2) <> 0) by (apply sin_half_neq0; assumption).
    assert (T := tele_sin x N).
    replace ((INR N - / 2) * x) with (- (x / 2) + 2 * INR p * PI) in T
      by (unfold x; field; exact HN0).
    rewrite cos_period, cos_neg in T.
    apply (Rmult_eq_reg_l (2 * sin (x / 2))); [lra|].
    intros H0. apply Hs. lra.
Qed.

(* ------------------------------------------------------------------ *)
(* T1 for integer frequency                                            *)
Lemma Zmod0_abs_nat (p : Z) N : (1 <= N)%nat ->
  (p mod Z.of_nat N =? 0)%Z = (Z.abs_nat p mod N =? 0)%nat.
Proof.
  intros HN.
  destruct (Z.eqb_spec (p mod Z.of_nat N) 0) as [H|H];
    destruct (Nat.eqb_spec (Z.abs_nat p mod N) 0) as [H'|H']; try reflexivity; exfalso.
  - apply H'. apply Z.mod_divide in H; [|lia].
    apply Nat2Z.inj. rewrite Nat2Z.inj_mod, Zabs2Nat.id_abs. apply Z.mod_divide; [lia|].
    apply Z.divide_abs_r. exact H.
  - apply H. apply Z.mod_divide; [lia|]. apply Z.divide_abs_r. rewrite <- Zabs2Nat.id_abs.
    apply Z.mod_divide; [lia|]. rewrite <- Nat2Z.inj_mod. rewrite H'. reflexivity.
Qed.

Lemma IZR_abs_cases p : IZR p = INR (Z.abs_nat p) \/ IZR p = - INR (Z.abs_nat p).
Proof.
  rewrite INR_IZR_INZ, Zabs2Nat.id_abs.
  destruct (Z.abs_eq_or_opp p) as [->| ->]; [left; reflexivity|right].
  rewrite opp_IZR. lra.
Qed.

Theorem sum_cos_uniformZ N (p : Z) : (1 <= N)%nat ->
  rsum N (fun k => cos (2 * PI * IZR p * INR k / INR N))
  = if (p mod Z.of_nat N =? 0)%Z then INR N else 0.
Proof.
  intros HN. rewrite Zmod0_abs_nat by exact HN. rewrite <- sum_cos_uniform by exact HN.
  apply rsum_ext. intros k _. destruct (IZR_abs_cases p) as [-> | ->]; [reflexivity|].
  replace (2 * PI * - INR (Z.abs_nat p) * INR k / INR N)
    with (- (2 * PI * INR (Z.abs_nat p) * INR k / INR N)) by (unfold Rdiv; ring).
  apply cos_neg.
Qed.

Theorem sum_sin_uniformZ N (p : Z) : (1 <= N)%nat ->
  rsum N (fun k => sin (2 * PI * IZR p * INR k / INR N)) = 0.
Proof.
  intros HN. destruct (IZR_abs_cases p) as [E | E].
  - rewrite <- (sum_sin_uniform N (Z.abs_nat p) HN). apply rsum_ext. intros k _. rewrite E. reflexivity.
  - rewrite (rsum_ext _ _ (fun k => -1 * sin (2 * PI * INR (Z.abs_nat p) * INR k / INR N))).
    + rewrite rsum_scal, sum_sin_uniform by exact HN. lra.
    + intros k _. rewrite E.
      replace (2 * PI * - INR (Z.abs_nat p) * INR k / INR N)
        with (- (2 * PI * INR (Z.abs_nat p) * INR k / INR N)) by (unfold Rdiv; ring).
      rewrite sin_neg. lra.
Qed.

(* ------------------------------------------------------------------ *)
(* T2: product forms                                                   *)
Definition ang (N p k : nat) : R := 2 * PI * INR p * INR k / INR N.

Lemma ang_diff N p q k :
  ang N p k - ang N q k = 2 * PI * IZR (Z.of_nat p - Z.of_nat q) * INR k / INR N.
Proof. unfold ang. rewrite minus_IZR, <- !INR_IZR_INZ. unfold Rdiv. ring. Qed.

Lemma ang_sum N p q k : ang N p k + ang N q k = 2 * PI * INR (p + q) * INR k / INR N.
Proof. unfold ang. rewrite plus_INR. unfold Rdiv. ring. Qed.

Lemma sum_coscos_gen N p q : (1 <= N)%nat ->
  rsum N (fun k => cos (ang N p k) * cos (ang N q k))
  = ((if ((Z.of_nat p - Z.of_nat q) mod Z.of_nat N =? 0)%Z then INR N else 0)
     + (if ((p + q) mod N =? 0)%nat then INR N else 0)) / 2.
Proof.
  intros HN. rewrite <- sum_cos_uniformZ, <- sum_cos_uniform by exact HN.
  rewrite <- rsum_plus. unfold Rdiv at 1. rewrite <- rsum_scal_r. apply rsum_ext. intros k _.
  rewrite <- ang_diff, <- ang_sum, cos_minus, cos_plus. field.
Qed.

Lemma sum_sinsin_gen N p q : (1 <= N)%nat ->
  rsum N (fun k => sin (ang N p k) * sin (ang N q k))
  = ((if ((Z.of_nat p - Z.of_nat q) mod Z.of_nat N =? 0)%Z then INR N else 0)
     - (if ((p + q) mod N =? 0)%nat then INR N else 0)) / 2.
Proof.
  intros HN. rewrite <- sum_cos_uniformZ, <- sum_cos_uniform by exact HN.
  unfold Rminus. rewrite <- (Rmult_1_l (rsum N (fun k => cos (2 * PI * INR (p + q) * INR k / INR N)))) at 1.
  rewrite Ropp_mult_distr_l, <- rsum_scal.
  rewrite <- rsum_plus. unfold Rdiv at 1. rewrite <- rsum_scal_r. apply rsum_ext. intros k _.
  rewrite <- ang_diff, <- ang_sum, cos_minus, cos_plus. field.
Qed.

Lemma sum_cossin_gen N p q : (1 <= N)%nat ->
  rsum N (fun k => cos (ang N p k) * sin (ang N q k)) = 0.
Proof.
  intros HN.
  rewrite (rsum_ext _ _ (fun k => / 2 * sin (2 * PI * INR (p + q) * INR k / INR N)
                                  + - / 2 * sin (2 * PI * IZR (Z.of_nat p - Z.of_nat q) * INR k / INR N))).
  - rewrite rsum_plus, !rsum_scal, sum_sin_uniform, sum_sin_uniformZ by exact HN. lra.
  - intros k _. rewrite <- ang_diff, <- ang_sum, sin_minus, sin_plus. field.
Qed.

Lemma modZ_diff N p q : (1 <= N)%nat -> (2 * p <= N)%nat -> (2 * q <= N)%nat ->
  ((Z.of_nat p - Z.of_nat q) mod Z.of_nat N =? 0)%Z = (p =? q)%nat.
Proof.
  intros HN Hp Hq.
  destruct (Nat.eqb_spec p q) as [->|Hne].
  - rewrite Z.sub_diag, Z.mod_0_l by lia. reflexivity.
  - destruct (Z.eqb_spec ((Z.of_nat p - Z.of_nat q) mod Z.of_nat N) 0) as [H|H]; [exfalso|reflexivity].
    apply Z.mod_divide in H; [|lia]. destruct H as [c Hc].
    assert (Hc3 : (c = 0 \/ c >= 1 \/ c <= -1)%Z) by lia. destruct Hc3 as [->|[Hc3|Hc3]]; [lia|nia|nia].
Qed.

Lemma mod_sum N p q : (1 <= N)%nat -> (2 * p <= N)%nat -> (2 * q <= N)%nat ->
  ((p + q) mod N =? 0)%nat = (p =? q)%nat && ((p =? 0)%nat || (2 * p =? N)%nat).
Proof.
  intros HN Hp Hq.
  destruct (Nat.eq_dec (p + q) N) as [E|E].
  - rewrite E, Nat.mod_same by lia.
    destruct (Nat.eqb_spec p q); [|lia]. destruct (Nat.eqb_spec (2 * p) N); [|lia].
    rewrite orb_true_r. reflexivity.
  - rewrite Nat.mod_small by lia.
    destruct (Nat.eqb_spec (p + q) 0) as [E0|E0].
    + assert (p = 0)%nat by lia. assert (q = 0)%nat by lia. subst. reflexivity.
    + destruct (Nat.eqb_spec p q) as [->|]; [|reflexivity].
      destruct (Nat.eqb_spec q 0); [lia|]. destruct (Nat.eqb_spec (2 * q) N); [lia|]. reflexivity.
Qed.

(* real-DFT orthogonality, 0 <= p, q <= N/2 *)
Theorem sum_coscos N p q : (1 <= N)%nat -> (2 * p <= N)%nat -> (2 * q <= N)%nat ->
  rsum N (fun k => cos (ang N p k) * cos (ang N q k))
  = if (p =? q)%nat then (if (p =? 0)%nat || (2 * p =? N)%nat then INR N else INR N / 2) else 0.
Proof.
  intros HN Hp Hq. rewrite sum_coscos_gen, modZ_diff, mod_sum by assumption.
  destruct (p =? q)%nat; cbn [andb]; [|lra]. destruct ((p =? 0)%nat || (2 * p =? N)%nat); lra.
Qed.

Theorem sum_sinsin N p q : (1 <= N)%nat -> (2 * p <= N)%nat -> (2 * q <= N)%nat ->
  rsum N (fun k => sin (ang N p k) * sin (ang N q k))
  = if (p =? q)%nat then (if (p =? 0)%nat || (2 * p =? N)%nat then 0 else INR N / 2) else 0.
Proof.
  intros HN Hp Hq. rewrite sum_sinsin_gen, modZ_diff, mod_sum by assumption.
  destruct (p =? q)%nat; cbn [andb]; [|lra]. destruct ((p =? 0)%nat || (2 * p =? N)%nat); lra.
Qed.

Theorem sum_cossin N p q : (1 <= N)%nat ->
  rsum N (fun k => cos (ang N p k) * sin (ang N q k)) = 0.
Proof. apply sum_cossin_gen. Qed.

(* ------------------------------------------------------------------ *)
(* folding a reflection-symmetric sum onto 0..N/2, and the Dirichlet kernel *)
Definition wgt (N m : nat) : R :=
  if (m =? 0)%nat then 1 else if (2 * m =? N)%nat then 1 else 2.

Lemma fold_sym N g : (1 <= N)%nat ->
  (forall k, (1 <= k < N)%nat -> g (N - k)%nat = g k) ->
  rsum (S (N / 2)) (fun m => wgt N m * g m) = rsum N g.
Proof.
  intros HN Hsym.
  destruct (Nat.Even_or_Odd N) as [[M EM]|[M EM]].
  - destruct M as [|M']; [lia|].
    assert (Ediv : (N / 2 = S M')%nat).
    { symmetry. apply (Nat.div_unique N 2 (S M') 0); lia. }
    rewrite Ediv.
    assert (A1 : rsum (S (S M')) (fun m => wgt N m * g m)
                 = g O + 2 * rsum M' (fun k => g (S k)) + g (S M')).
    { rewrite rsum_S_head. cbn [rsum]. unfold wgt at 1. simpl (0 =? 0)%nat. cbv iota.
      rewrite (rsum_ext _ _ (fun k => 2 * g (S k))).
      - rewrite rsum_scal. unfold wgt. simpl (S M' =? 0)%nat. cbv iota.
        replace (2 * S M' =? N)%nat with true by (symmetry; apply Nat.eqb_eq; lia). lra.
      - intros k Hk. unfold wgt. simpl (S k =? 0)%nat. cbv iota.
        destruct (Nat.eqb_spec (2 * S k) N); [lia|reflexivity]. }
    assert (A2 : rsum N g = g O + 2 * rsum M' (fun k => g (S k)) + g (S M')).
    { replace N with (S (S M') + M')%nat at 1 by lia. rewrite rsum_split.
      rewrite rsum_S_head. cbn [rsum].
      rewrite (rsum_rev M' (fun k => g (S (S M') + k)%nat)).
      rewrite (rsum_ext M' (fun k => g (S (S M') + (M' - 1 - k))%nat) (fun k => g (S k))).
      - lra.
      - intros k Hk. rewrite <- (Hsym (S k)) by lia. f_equal. lia. }
    rewrite A1, A2. reflexivity.
  - assert (Ediv : (N / 2 = M)%nat).
    { symmetry. apply (Nat.div_unique N 2 M 1); lia. }
    rewrite Ediv.
    assert (A1 : rsum (S M) (fun m => wgt N m * g m) = g O + 2 * rsum M (fun k => g (S k))).
    { rewrite rsum_S_head. unfold wgt at 1. simpl (0 =? 0)%nat. cbv iota.
      rewrite (rsum_ext _ _ (fun k => 2 * g (S k))).
      - rewrite rsum_scal. lra.
      - intros k Hk. unfold wgt. simpl (S k =? 0)%nat. cbv iota.
        destruct (Nat.eqb_spec (2 * S k) N); [lia|reflexivity]. }
    assert (A2 : rsum N g = g O + 2 * rsum M (fun k => g (S k))).
    { replace N with (S M + M)%nat at 1 by lia. rewrite rsum_split.
      rewrite rsum_S_head.
      rewrite (rsum_rev M (fun k => g (S M + k)%nat)).
      rewrite (rsum_ext M (fun k => g (S M + (M - 1 - k))%nat) (fun k => g (S k))).
      - lra.
      - intros k Hk. rewrite <- (Hsym (S k)) by lia. f_equal. lia. }
    rewrite A1, A2. reflexivity.
Qed.

(* sum_{m=0}^{N/2} w_m cos(2 pi m d / N) = N [N | d] *)
Theorem dirichlet N d : (1 <= N)%nat ->
  rsum (S (N / 2)) (fun m => wgt N m * cos (2 * PI * INR d * INR m / INR N))
  = if (d mod N =? 0)%nat then INR N else 0.
Proof.
  intros HN. assert (HN0 := INR_pos_neq0 N HN).
  rewrite <- sum_cos_uniform by exact HN.
  apply (fold_sym N (fun m => cos (2 * PI * INR d * INR m / INR N))); [exact HN|].
  intros k Hk. rewrite minus_INR by lia.
  replace (2 * PI * INR d * (INR N - INR k) / INR N)
    with (- (2 * PI * INR d * INR k / INR N) + 2 * INR d * PI) by (field; exact HN0).
  rewrite cos_period. apply cos_neg.
Qed.

(* the same at the difference of two grid angles theta_j = 2 pi j / N *)
Theorem dirichlet_diff N j j' : (j < N)%nat -> (j' < N)%nat ->
  rsum (S (N / 2)) (fun m => wgt N m * cos (INR m * (2 * PI * INR j / INR N - 2 * PI * INR j' / INR N)))
  = if (j =? j')%nat then INR N else 0.
Proof.
  intros Hj Hj'. assert (HN : (1 <= N)%nat) by lia. assert (HN0 := INR_pos_neq0 N HN).
  destruct (le_lt_dec j' j) as [Hle|Hlt].
  - rewrite (rsum_ext _ _ (fun m => wgt N m * cos (2 * PI * INR (j - j') * INR m / INR N))).
    + rewrite dirichlet by exact HN.
      destruct (Nat.eqb_spec j j') as [->|Hne].
      * rewrite Nat.sub_diag, Nat.mod_0_l by lia. reflexivity.
      * rewrite Nat.mod_small by lia. destruct (Nat.eqb_spec (j - j') 0); [lia|reflexivity].
    + intros m _. f_equal. f_equal. rewrite minus_INR by lia. field. exact HN0.
  - rewrite (rsum_ext _ _ (fun m => wgt N m * cos (2 * PI * INR (j' - j) * INR m / INR N))).
    + rewrite dirichlet by exact HN.
      destruct (Nat.eqb_spec j j') as [->|Hne]; [lia|].
      rewrite Nat.mod_small by lia. destruct (Nat.eqb_spec (j' - j) 0); [lia|reflexivity].
    + intros m _. f_equal. rewrite <- cos_neg. f_equal. rewrite minus_INR by lia. field. exact HN0.
Qed.

(* ------------------------------------------------------------------ *)
(* sums over a symmetric integer range stored with an offset: i = n + K, n = -K..K *)
Lemma rsum_Zsym K (g : Z -> R) :
  rsum (2 * K + 1) (fun i => g (Z.of_nat i - Z.of_nat K)%Z)
  = g 0%Z + rsum K (fun n => g (Z.of_nat (S n)) + g (- Z.of_nat (S n))%Z).
Proof.
  replace (2 * K + 1)%nat with (K + S K)%nat by lia. rewrite rsum_split.
  rewrite (rsum_rev K). rewrite rsum_S_head.
  rewrite rsum_plus.
  rewrite (rsum_ext K (fun k => g (Z.of_nat (K - 1 - k) - Z.of_nat K)%Z) (fun n => g (- Z.of_nat (S n))%Z)).
  2:{ intros k Hk. f_equal. lia. }
  rewrite (rsum_ext K (fun k => g (Z.of_nat (K + S k) - Z.of_nat K)%Z) (fun n => g (Z.of_nat (S n)))).
  2:{ intros k Hk. f_equal. lia. }
  replace (Z.of_nat (K + 0) - Z.of_nat K)%Z with 0%Z by lia. ring.
Qed.

(* the code's Nyquist test  "N even and m == N/2"  is  2 m = N *)
Lemma nyquist_test N m : Nat.even N && (m =? N / 2)%nat = (2 * m =? N)%nat.
Proof.
  destruct (Nat.Even_or_Odd N) as [[M EM]|[M EM]].
  - assert (Ediv : (N / 2 = M)%nat) by (symmetry; apply (Nat.div_unique N 2 M 0); lia).
    assert (Ev : Nat.even N = true) by (apply Nat.even_spec; exists M; exact EM).
    rewrite Ev, Ediv. cbn [andb]. destruct (Nat.eqb_spec m M), (Nat.eqb_spec (2 * m) N); try reflexivity; lia.
  - assert (Ev : Nat.even N = false).
    { destruct (Nat.even N) eqn:E; [|reflexivity]. apply Nat.even_spec in E. destruct E as [M' EM']. lia. }
    rewrite Ev. cbn [andb]. destruct (Nat.eqb_spec (2 * m) N); [lia|reflexivity].
Qed.

(* reflection j -> (N - j) mod N of the periodic grid *)
Lemma rsum_flip N g : rsum N g = rsum N (fun j => g ((N - j) mod N)%nat).
Proof.
  destruct N as [|n]; [reflexivity|].
  rewrite !rsum_S_head. rewrite Nat.sub_0_r, Nat.mod_same by lia. f_equal.
  rewrite (rsum_rev n). apply rsum_ext. intros k Hk. f_equal.
  rewrite Nat.mod_small by lia. lia.
Qed.

(* periodicity with an integer number of turns *)
Lemma sin_periodZ x (z : Z) : sin (x + 2 * IZR z * PI) = sin x.
Proof.
  destruct (Z_le_gt_dec 0 z) as [H|H].
  - rewrite <- (Z2Nat.id z H), <- INR_IZR_INZ. apply sin_period.
  - rewrite <- (sin_period (x + 2 * IZR z * PI) (Z.to_nat (- z))).
    rewrite INR_IZR_INZ, Z2Nat.id by lia. rewrite opp_IZR. f_equal. ring.
Qed.

Lemma cos_periodZ x (z : Z) : cos (x + 2 * IZR z * PI) = cos x.
Proof.
  destruct (Z_le_gt_dec 0 z) as [H|H].
  - rewrite <- (Z2Nat.id z H), <- INR_IZR_INZ. apply cos_period.
  - rewrite <- (cos_period (x + 2 * IZR z * PI) (Z.to_nat (- z))).
    rewrite INR_IZR_INZ, Z2Nat.id by lia. rewrite opp_IZR. f_equal. ring.
Qed.

(* grid angle of the reflected index *)
Lemma grid_angle_flip N j : (j < N)%nat ->
  exists z : Z, 2 * PI * INR ((N - j) mod N) / INR N = - (2 * PI * INR j / INR N) + 2 * IZR z * PI.
Proof.
  intros Hj. assert (HN0 : INR N <> 0) by (apply INR_pos_neq0; lia).
  destruct j as [|j'].
  - exists 0%Z. rewrite Nat.sub_0_r, Nat.mod_same by lia. simpl (INR 0). simpl (IZR 0). field. exact HN0.
  - exists 1%Z. rewrite Nat.mod_small by lia. rewrite minus_INR by lia. field. exact HN0.
Qed.
