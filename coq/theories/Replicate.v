(* Instance 4: field-period re-declaration (property C06).
   A configuration declared with nfp field periods on a grid of n points per
   period is re-declared with nfp/k periods on a grid of n' = k*n points:
   every profile becomes its k-fold repetition  v'(j) = v(j mod n), times a
   power of kappa = INR k for a few quantities.  A type is ONE integer, the
   "k-exponent" e:   v'(j) = kappa^e * v(j mod n).
   Here the transformed problem differs from the original one (longer grid,
   another differentiation matrix, another spectral-minimum oracle); a grid
   sum over the longer grid picks up one factor kappa (sigma = kappa). *)
From Coq Require Import Reals String List ZArith QArith Lra Lia Permutation Bool.
From QSC Require Import Expr Equiv.
Import ListNotations.
Open Scope R_scope.

(* ---------- 1. replication laws of grid sums / extrema ---------- *)
Lemma lsum_app l1 l2 : lsum (l1 ++ l2) = lsum l1 + lsum l2.
Proof. induction l1 as [|x l IH]; simpl; [lra|rewrite IH; lra]. Qed.

Lemma seq_add_map len : forall s a, seq (a + s) len = map (fun i => (a + i)%nat) (seq s len).
Proof.
  induction len as [|len IH]; intros s a; simpl; [reflexivity|].
  f_equal. rewrite <- IH. f_equal. lia.
Qed.

Lemma mod_block n k i : (i < n)%nat -> ((k * n + i) mod n = i)%nat.
Proof.
  intros Hi. rewrite Nat.add_comm. rewrite Nat.mod_add by lia. apply Nat.mod_small. exact Hi.
Qed.

Lemma gsum_replicate n k : (0 < n)%nat ->
  forall f, gsum (k * n) (fun j => f (j mod n)%nat) = INR k * gsum n f.
Proof.
  intros Hn f. induction k as [|k IH].
  - simpl. unfold gsum, grid. simpl. lra.
  - rewrite S_INR. unfold gsum, grid in *.
    replace (S k * n)%nat with (k * n + n)%nat by lia.
    rewrite seq_app, map_app, lsum_app, IH. simpl.
    replace (k * n)%nat with (k * n + 0)%nat at 1 by lia.
    rewrite seq_add_map, map_map.
    rewrite (lsum_ext (fun x => f ((k * n + x) mod n)%nat) f).
    + lra.
    + intros x Hx. apply in_seq in Hx. rewrite mod_block by lia. reflexivity.
Qed.

Lemma gmax_replicate n k : (0 < n)%nat -> (0 < k)%nat ->
  forall f, gmax (k * n) (fun j => f (j mod n)%nat) = gmax n f.
Proof.
  intros Hn Hk f. unfold gmax, grid.
  assert (Hne : map f (seq 0 n) <> []) by (destruct n; [lia|simpl; congruence]).
  destruct (lmax_spec _ Hne) as [Hin Hub].
  apply lmax_unique.
  - apply in_map_iff in Hin. destruct Hin as [i [Hi Hi']]. apply in_seq in Hi'.
    apply in_map_iff. exists i. split.
    + rewrite Nat.mod_small by lia. exact Hi.
    + apply in_seq. nia.
  - intros y Hy. apply in_map_iff in Hy. destruct Hy as [j [<- Hj]].
    apply Hub. apply in_map. apply in_seq.
    pose proof (Nat.mod_upper_bound j n ltac:(lia)). lia.
Qed.

Lemma gmin_as_gmax n f : gmin n f = - gmax n (fun j => - f j).
Proof. unfold gmin, gmax. rewrite lmin_neg, map_map. reflexivity. Qed.

Lemma gmin_replicate n k : (0 < n)%nat -> (0 < k)%nat ->
  forall f, gmin (k * n) (fun j => f (j mod n)%nat) = gmin n f.
Proof.
  intros Hn Hk f. rewrite !gmin_as_gmax.
  rewrite (gmax_replicate n k Hn Hk (fun i => - f i)). reflexivity.
Qed.

(* ---------- 2. the type system and its soundness conditions ---------- *)
Section Rep.
  Variable n : nat.
  Variable k : nat.
  Variable Dm : nat -> nat -> R.
  Variable fmin : (nat -> R) -> R.
  Variable Dm' : nat -> nat -> R.
  Variable fmin' : (nat -> R) -> R.
  Variable kappa : R.
  Hypothesis Hn : (0 < n)%nat.
  Hypothesis Hk : (0 < k)%nat.
  Hypothesis Hkappa : kappa = INR k.
  (* the differentiation matrix of the long grid applied to a replicated profile is the
     replication of the short-grid derivative (a cosecant partial-fraction identity,
     not proved here: an explicit premise of the closed theorem) *)
  Hypothesis rep_D : forall (v : nat -> R) j, (j < k * n)%nat ->
    gsum (k * n) (fun q => Dm' j q * v (q mod n)%nat) = gsum n (fun q => Dm (j mod n)%nat q * v q).
  (* assumed of the two spectral-minimum oracles *)
  Hypothesis rep_fmin : forall c v v', 0 < c ->
    (forall j, (j < k * n)%nat -> v' j = c * v (j mod n)%nat) -> fmin' v' = c * fmin v.
  Hypothesis fmin_zero : forall v, (forall j, v j = 0) -> fmin v = 0.
  Hypothesis fmin'_zero : forall v, (forall j, v j = 0) -> fmin' v = 0.

  Definition rchi (e : Z) : R := powerRZ kappa e.

  Definition r_div (d : Z) (a : Z) : option Z :=
    if Z.eqb (a mod d) 0 then Some (a / d)%Z else None.
  Definition r_zero_only (a : Z) : option Z :=
    if Z.eqb a 0 then Some 0%Z else None.

  Definition RepT : tysys := {|
    ty := Z;
    chi := rchi;
    t_eqb := Z.eqb;
    t_one := 0%Z;
    t_mul := Z.add;
    t_inv := Z.opp;
    t_sqrt := r_div 2;
    t_root4 := r_div 4;
    t_abs := fun a => Some a;
    t_sin := r_zero_only;
    t_cos := r_zero_only;
    t_exp := r_zero_only;
    t_ext := fun a => Some a;
    t_dphi := fun a => Some a;
    t_sum := fun a => Some (a + 1)%Z;
    t_at := fun i a => match i with O => Some a | S _ => None end;
    t_pin := fun _ => None;
    t_fmin := fun a => Some a
  |}.

  Lemma kappa_pos : 0 < kappa.
  Proof. rewrite Hkappa. apply lt_0_INR. exact Hk. Qed.

  Lemma rchi_pos e : 0 < rchi e.
  Proof. unfold rchi. apply powerRZ_lt. apply kappa_pos. Qed.

  Lemma rchi_mul a b : rchi (a + b) = rchi a * rchi b.
  Proof. unfold rchi. pose proof kappa_pos. apply powerRZ_add. lra. Qed.

  Lemma rchi_inv a : rchi (- a) = / rchi a.
  Proof. unfold rchi. apply powerRZ_neg'. Qed.

  Lemma rchi_zero : rchi 0 = 1.
  Proof. reflexivity. Qed.

  Lemma rchi_one : rchi 1 = kappa.
  Proof. unfold rchi. apply powerRZ_1. Qed.

  Lemma r_div2_sq a b : r_div 2 a = Some b -> rchi a = rchi b * rchi b.
  Proof.
    unfold r_div. destruct (Z.eqb (a mod 2) 0) eqn:E; [|discriminate].
    intros H; injection H as <-. apply Z.eqb_eq in E.
    rewrite <- rchi_mul. f_equal.
    pose proof (Z.div_mod a 2 ltac:(lia)). lia.
  Qed.

  Lemma r_div4_sq a b : r_div 4 a = Some b -> rchi a = (rchi b * rchi b) * (rchi b * rchi b).
  Proof.
    unfold r_div. destruct (Z.eqb (a mod 4) 0) eqn:E; [|discriminate].
    intros H; injection H as <-. apply Z.eqb_eq in E.
    rewrite <- !rchi_mul. f_equal.
    pose proof (Z.div_mod a 4 ltac:(lia)). lia.
  Qed.

  Lemma rsqrt_scal c x : 0 < c -> sqrt (c * c * x) = c * sqrt x.
  Proof.
    intros Hc. rewrite sqrt_mult_alt by nra. rewrite sqrt_square by lra. reflexivity.
  Qed.

  Lemma r_zero_only_spec a b : r_zero_only a = Some b -> rchi a = 1 /\ rchi b = 1.
  Proof.
    unfold r_zero_only. destruct (Z.eqb a 0) eqn:E; [|discriminate].
    intros H; injection H as <-. apply Z.eqb_eq in E. subst. split; apply rchi_zero.
  Qed.

  Lemma RepT_ok : tysys_ok n Dm fmin (k * n) Dm' fmin' RepT (fun j => (j mod n)%nat) kappa.
  Proof.
    constructor; simpl.
    - intros j _. apply Nat.mod_upper_bound. lia.
    - intros f. rewrite Hkappa. apply gsum_replicate. exact Hn.
    - intros f. apply gmax_replicate; assumption.
    - intros f. apply gmin_replicate; assumption.
    - intros a b H. apply Z.eqb_eq in H. subst; reflexivity.
    - apply rchi_zero.
    - apply rchi_mul.
    - apply rchi_inv.
    - intros a b H x. rewrite (r_div2_sq _ _ H). apply rsqrt_scal. apply rchi_pos.
    - intros a b H x. rewrite (r_div4_sq _ _ H).
      pose proof (rchi_pos b) as Hb.
      rewrite rsqrt_scal by nra. apply rsqrt_scal. exact Hb.
    - intros a b H x. injection H as <-. rewrite Rabs_mult. rewrite (Rabs_right (rchi a)); [reflexivity|].
      left. apply rchi_pos.
    - intros a b H x. destruct (r_zero_only_spec _ _ H) as [-> ->]. rewrite !Rmult_1_l. reflexivity.
    - intros a b H x. destruct (r_zero_only_spec _ _ H) as [-> ->]. rewrite !Rmult_1_l. reflexivity.
    - intros a b H x. destruct (r_zero_only_spec _ _ H) as [-> ->]. rewrite !Rmult_1_l. reflexivity.
    - intros a b H. injection H as <-. split; [reflexivity|apply rchi_pos].
    - intros a b H v j Hj. injection H as <-.
      rewrite <- (rep_D v j Hj). rewrite <- gsum_scal. apply gsum_ext. intros; ring.
    - intros a b H. injection H as <-. rewrite rchi_mul, rchi_one. reflexivity.
    - intros i a b H. destruct i; [|discriminate]. injection H as <-.
      split; [nia|]. split; [apply Nat.mod_0_l; lia|reflexivity].
    - intros a b H. discriminate.
    - intros a b H v v' Hv. injection H as <-. apply (rep_fmin (rchi a)); [apply rchi_pos|exact Hv].
    - split; assumption.
    - split; intros H; nia.
  Qed.
End Rep.

(* ---------- 3. closed form of the C06 statement for one program ----------
   Gin : k-exponents of the inputs (None = identically zero input), outs :
   expected k-exponents of the outputs, eqs : residuals that must be preserved.
   If the checker accepts, then for EVERY base grid size n, replication factor
   k, pair of differentiation matrices / spectral-minimum oracles related as
   below, and environment, the outputs computed on the long grid from the
   replicated inputs are kappa^e times the replicated outputs. *)
Definition replicated_env (k n : nat) (G : string -> option (option Z)) (rho : env) : env :=
  fun x j => match G x with
             | Some (Some e) => powerRZ (INR k) e * rho x (j mod n)%nat
             | _ => rho x (j mod n)%nat
             end.

Definition rep_zero_ok (G : string -> option (option Z)) (rho : env) : Prop :=
  forall x, G x = Some None -> forall j, rho x j = 0.

(* premise on the two differentiation matrices (cosecant partial-fraction identity;
   validated numerically by the harness, never an axiom) *)
Definition diffmat_replicates (n k : nat) (Dm Dm' : nat -> nat -> R) : Prop :=
  forall (v : nat -> R) j, (j < k * n)%nat ->
    gsum (k * n) (fun q => Dm' j q * v (q mod n)%nat) = gsum n (fun q => Dm (j mod n)%nat q * v q).

(* premise on the two spectral-minimum oracles *)
Definition fmin_replicates (n k : nat) (fmin fmin' : (nat -> R) -> R) : Prop :=
  (forall c v v', 0 < c -> (forall j, (j < k * n)%nat -> v' j = c * v (j mod n)%nat) -> fmin' v' = c * fmin v) /\
  (forall v, (forall j, v j = 0) -> fmin v = 0) /\
  (forall v, (forall j, v j = 0) -> fmin' v = 0).

Definition rep_check (Gin : list (string * option Z)) (p : prog)
           (outs : list (string * Z)) (eqs : list string) : bool :=
  let G := infer_prog (RepT 1) (assoc_env Gin) p in
  check_outputs (RepT 1) G outs && check_typed (RepT 1) G eqs.

Definition rep_failures (Gin : list (string * option Z)) (p : prog)
           (outs : list (string * Z)) (eqs : list string) : list string :=
  let G := infer_prog (RepT 1) (assoc_env Gin) p in
  failing_outputs (RepT 1) G outs ++ untyped_names (RepT 1) G eqs.

(* The C06 law of one program, in full *)
Definition rep_law (Gin : list (string * option Z)) (p : prog)
           (outs : list (string * Z)) (eqs : list string) : Prop :=
  forall (n k : nat) (Dm Dm' : nat -> nat -> R) (fmin fmin' : (nat -> R) -> R) (rho : env),
    (0 < n)%nat -> (0 < k)%nat -> rep_zero_ok (assoc_env Gin) rho ->
    diffmat_replicates n k Dm Dm' -> fmin_replicates n k fmin fmin' ->
    let rho' := replicated_env k n (assoc_env Gin) rho in
    (forall x e, In (x, e) outs -> forall j, (j < k * n)%nat ->
       run (k * n) Dm' fmin' p rho' x j = powerRZ (INR k) e * run n Dm fmin p rho x (j mod n)%nat)
    /\
    (forall x, In x eqs -> (forall j, (j < n)%nat -> run n Dm fmin p rho x j = 0) ->
       forall j, (j < k * n)%nat -> run (k * n) Dm' fmin' p rho' x j = 0).

Theorem rep_check_sound Gin p outs eqs : rep_check Gin p outs eqs = true -> rep_law Gin p outs eqs.
Proof.
  unfold rep_check. intros Hc. apply andb_true_iff in Hc. destruct Hc as [Hc1 Hc2].
  intros n k Dm Dm' fmin fmin' rho Hn Hk Hz HD [Hf1 [Hf0 Hf0']] rho'.
  (* the checker does not depend on kappa: types are syntactic *)
  assert (Hc1' : check_outputs (RepT (INR k)) (infer_prog (RepT (INR k)) (assoc_env Gin) p) outs = true) by exact Hc1.
  assert (Hc2' : check_typed (RepT (INR k)) (infer_prog (RepT (INR k)) (assoc_env Gin) p) eqs = true) by exact Hc2.
  pose proof (RepT_ok n k Dm fmin Dm' fmin' (INR k) Hn Hk eq_refl HD Hf1 Hf0 Hf0') as OK.
  assert (HG : env_rel (k * n) (RepT (INR k)) (fun j => (j mod n)%nat) (assoc_env Gin) rho rho').
  { intros y t Hy. unfold rho', replicated_env. destruct t as [dy|]; simpl.
    - intros q _. rewrite Hy. reflexivity.
    - split; intros q; rewrite ?Hy; apply (Hz y Hy). }
  split.
  - intros x e Hin j Hj.
    apply (check_outputs_sound n Dm fmin (k * n) Dm' fmin' (RepT (INR k)) (fun j => (j mod n)%nat) (INR k) OK
             (assoc_env Gin) p outs rho rho' HG Hc1' x e Hin j Hj).
  - intros x Hin H0 j Hj.
    apply (check_typed_sound n Dm fmin (k * n) Dm' fmin' (RepT (INR k)) (fun j => (j mod n)%nat) (INR k) OK
             (assoc_env Gin) p eqs rho rho' HG Hc2' x Hin H0 j Hj).
Qed.

Print Assumptions rep_check_sound.
