(* Instance 1: physical dimensions (property C08, scaling clauses of C19).
   A type is a pair of integer exponents (a,b) counted in QUARTER units:
   a length has (4,0), a field strength (0,4); this keeps sqrt and the fourth
   root (B0**0.25 in calculate_shear, L_grad_grad_B) integral.
   The transformation multiplies a value of type (a,b) by mu^a * nu^b where
   lambda = mu^4 is the length factor and c = nu^4 the field factor. *)
From Coq Require Import Reals String List ZArith QArith Lra Lia Permutation Bool.
From QSC Require Import Expr Equiv.
Import ListNotations.
Open Scope R_scope.

Section Dim.
  Variable n : nat.
  Variable Dm : nat -> nat -> R.
  Variable fmin : (nat -> R) -> R.
  Variables mu nu : R.
  Hypothesis Hmu : 0 < mu.
  Hypothesis Hnu : 0 < nu.
  Hypothesis Hn : (0 < n)%nat.
  (* assumed of the spectral-minimum oracle: positive homogeneity on the grid data *)
  Hypothesis fmin_hom : forall c v v', 0 < c -> (forall j, (j < n)%nat -> v' j = c * v j) -> fmin v' = c * fmin v.
  Hypothesis fmin_zero : forall v, (forall j, v j = 0) -> fmin v = 0.

  Definition dchi (d : Z * Z) : R := powerRZ mu (fst d) * powerRZ nu (snd d).

  Definition d_eqb (a b : Z * Z) : bool := Z.eqb (fst a) (fst b) && Z.eqb (snd a) (snd b).
  Definition d_mul (a b : Z * Z) : Z * Z := (fst a + fst b, snd a + snd b)%Z.
  Definition d_inv (a : Z * Z) : Z * Z := (- fst a, - snd a)%Z.
  Definition d_div (k : Z) (a : Z * Z) : option (Z * Z) :=
    if Z.eqb (fst a mod k) 0 && Z.eqb (snd a mod k) 0 then Some (fst a / k, snd a / k)%Z else None.
  Definition d_zero_only (a : Z * Z) : option (Z * Z) :=
    if d_eqb a (0, 0)%Z then Some (0, 0)%Z else None.

  Definition DimT : tysys := {|
    ty := Z * Z;
    chi := dchi;
    t_eqb := d_eqb;
    t_one := (0, 0)%Z;
    t_mul := d_mul;
    t_inv := d_inv;
    t_sqrt := d_div 2;
    t_root4 := d_div 4;
    t_abs := fun a => Some a;
    t_sin := d_zero_only;
    t_cos := d_zero_only;
    t_exp := d_zero_only;
    t_ext := fun a => Some a;
    t_dphi := fun a => Some a;
    t_sum := fun a => Some a;
    t_at := fun i a => match i with O => Some a | S _ => None end;
    t_pin := fun a => Some a;
    t_fmin := fun a => Some a
  |}.

  Lemma dchi_pos d : 0 < dchi d.
  Proof. unfold dchi. apply Rmult_lt_0_compat; apply powerRZ_lt; assumption. Qed.

  Lemma d_eqb_eq a b : d_eqb a b = true -> a = b.
  Proof.
    unfold d_eqb. destruct a, b; simpl. intros H. apply andb_true_iff in H.
    destruct H as [H1 H2]. apply Z.eqb_eq in H1, H2. congruence.
  Qed.

  Lemma dchi_mul a b : dchi (d_mul a b) = dchi a * dchi b.
  Proof.
    unfold dchi, d_mul; simpl. rewrite !powerRZ_add by lra. ring.
  Qed.

  Lemma dchi_inv a : dchi (d_inv a) = / dchi a.
  Proof.
    unfold dchi, d_inv; simpl. rewrite !powerRZ_neg'. rewrite Rinv_mult. reflexivity.
  Qed.

  Lemma dchi_zero : dchi (0, 0)%Z = 1.
  Proof. unfold dchi; simpl. lra. Qed.

  Lemma d_div2_sq a b : d_div 2 a = Some b -> dchi a = dchi b * dchi b.
  Proof.
    unfold d_div. destruct (Z.eqb (fst a mod 2) 0) eqn:E1; [|discriminate].
    destruct (Z.eqb (snd a mod 2) 0) eqn:E2; [|discriminate]. simpl.
    intros H; injection H as <-. apply Z.eqb_eq in E1, E2.
    rewrite <- dchi_mul. unfold d_mul; simpl. f_equal.
    destruct a as [x y]; simpl in *. f_equal.
    - pose proof (Z.div_mod x 2 ltac:(lia)). lia.
    - pose proof (Z.div_mod y 2 ltac:(lia)). lia.
  Qed.

  Lemma sqrt_scal c x : 0 < c -> sqrt (c * c * x) = c * sqrt x.
  Proof.
    intros Hc. rewrite sqrt_mult_alt by nra. rewrite sqrt_square by lra. reflexivity.
  Qed.

  Lemma d_div4_sq a b : d_div 4 a = Some b -> dchi a = (dchi b * dchi b) * (dchi b * dchi b).
  Proof.
    unfold d_div. destruct (Z.eqb (fst a mod 4) 0) eqn:E1; [|discriminate].
    destruct (Z.eqb (snd a mod 4) 0) eqn:E2; [|discriminate]. cbn [andb].
    intros H; injection H as <-. apply Z.eqb_eq in E1, E2.
    rewrite <- !dchi_mul. unfold d_mul; cbn [fst snd]. f_equal.
    destruct a as [x y]; cbn [fst snd] in *. f_equal.
    - pose proof (Z.div_mod x 4 ltac:(lia)). lia.
    - pose proof (Z.div_mod y 4 ltac:(lia)). lia.
  Qed.

  Lemma grid_perm_id : grid_perm n (fun j => j).
  Proof. unfold grid_perm. rewrite map_id. apply Permutation_refl. Qed.

  Lemma DimT_ok : tysys_ok n Dm fmin n Dm fmin DimT (fun j => j) 1.
  Proof.
    constructor; simpl.
    - intros j Hj; exact Hj.
    - apply (perm_sumlaw n _ grid_perm_id).
    - apply (perm_maxlaw n _ grid_perm_id).
    - apply (perm_minlaw n _ grid_perm_id).
    - intros a b H. apply d_eqb_eq in H. subst; reflexivity.
    - apply dchi_zero.
    - apply dchi_mul.
    - apply dchi_inv.
    - intros a b H x. rewrite (d_div2_sq _ _ H). apply sqrt_scal. apply dchi_pos.
    - intros a b H x. rewrite (d_div4_sq _ _ H).
      pose proof (dchi_pos b) as Hb.
      rewrite sqrt_scal by nra. apply sqrt_scal. exact Hb.
    - intros a b H x. injection H as <-. rewrite Rabs_mult. rewrite (Rabs_right (dchi a)); [reflexivity|].
      left. apply dchi_pos.
    - intros a b H x. unfold d_zero_only in H. destruct (d_eqb a (0,0)%Z) eqn:E; [|discriminate].
      injection H as <-. apply d_eqb_eq in E. subst. rewrite dchi_zero, !Rmult_1_l. reflexivity.
    - intros a b H x. unfold d_zero_only in H. destruct (d_eqb a (0,0)%Z) eqn:E; [|discriminate].
      injection H as <-. apply d_eqb_eq in E. subst. rewrite dchi_zero, !Rmult_1_l. reflexivity.
    - intros a b H x. unfold d_zero_only in H. destruct (d_eqb a (0,0)%Z) eqn:E; [|discriminate].
      injection H as <-. apply d_eqb_eq in E. subst. rewrite dchi_zero, !Rmult_1_l. reflexivity.
    - intros a b H. injection H as <-. split; [reflexivity|apply dchi_pos].
    - intros a b H v j Hj. injection H as <-. rewrite <- gsum_scal. apply gsum_ext. intros; ring.
    - intros a b H. injection H as <-. ring.
    - intros i a b H. destruct i; [|discriminate]. injection H as <-. auto.
    - intros a b H. injection H as <-. auto.
    - intros a b H v v' Hv. injection H as <-. apply fmin_hom; [apply dchi_pos|exact Hv].
    - split; exact fmin_zero.
    - tauto.
  Qed.
End Dim.

(* Closed form of the C08 statement for one program.
   Gin : dimensions of the inputs (from the property text), outs : expected
   dimensions of the outputs.  If the checker accepts, then for EVERY grid
   size, differentiation matrix, environment and positive scale factors the
   outputs computed from the scaled inputs are the scaled outputs. *)
Definition scaled_env (mu nu : R) (G : string -> option (option (Z * Z))) (rho : env) : env :=
  fun x j => match G x with
             | Some (Some d) => dchi mu nu d * rho x j
             | _ => rho x j
             end.

Definition zero_ok (G : string -> option (option (Z * Z))) (rho : env) : Prop :=
  forall x, G x = Some None -> forall j, rho x j = 0.

(* what the spectral-minimum oracle is assumed to satisfy (validated against
   scipy on every run by the harness; never an axiom) *)
Definition fmin_homogeneous (n : nat) (fmin : (nat -> R) -> R) : Prop :=
  (forall c v v', 0 < c -> (forall j, (j < n)%nat -> v' j = c * v j) -> fmin v' = c * fmin v) /\
  (forall v, (forall j, v j = 0) -> fmin v = 0).

Definition dim_check (Gin : list (string * option (Z * Z))) (p : prog)
           (outs : list (string * (Z * Z))) (eqs : list string) : bool :=
  let G := infer_prog (DimT 1 1) (assoc_env Gin) p in
  check_outputs (DimT 1 1) G outs && check_typed (DimT 1 1) G eqs.

Definition dim_failures (Gin : list (string * option (Z * Z))) (p : prog)
           (outs : list (string * (Z * Z))) (eqs : list string) : list string :=
  let G := infer_prog (DimT 1 1) (assoc_env Gin) p in
  failing_outputs (DimT 1 1) G outs ++ untyped_names (DimT 1 1) G eqs.

(* The C08 law of one program, in full *)
Definition dim_law (Gin : list (string * option (Z * Z))) (p : prog)
           (outs : list (string * (Z * Z))) (eqs : list string) : Prop :=
  forall (n : nat) (Dm : nat -> nat -> R) (fmin : (nat -> R) -> R) (mu nu : R) (rho : env),
    (0 < n)%nat -> 0 < mu -> 0 < nu -> zero_ok (assoc_env Gin) rho -> fmin_homogeneous n fmin ->
    let rho' := scaled_env mu nu (assoc_env Gin) rho in
    (forall x d, In (x, d) outs -> forall j, (j < n)%nat ->
       run n Dm fmin p rho' x j = powerRZ mu (fst d) * powerRZ nu (snd d) * run n Dm fmin p rho x j)
    /\
    (forall x, In x eqs -> (forall j, (j < n)%nat -> run n Dm fmin p rho x j = 0) ->
       forall j, (j < n)%nat -> run n Dm fmin p rho' x j = 0).

Theorem dim_check_sound Gin p outs eqs : dim_check Gin p outs eqs = true -> dim_law Gin p outs eqs.
Proof.
  unfold dim_check. intros Hc. apply andb_true_iff in Hc. destruct Hc as [Hc1 Hc2].
  intros n Dm fmin mu nu rho Hn Hmu Hnu Hz [Hf1 Hf0] rho'.
  (* the checker does not depend on mu, nu: types are syntactic *)
  assert (Hc1' : check_outputs (DimT mu nu) (infer_prog (DimT mu nu) (assoc_env Gin) p) outs = true) by exact Hc1.
  assert (Hc2' : check_typed (DimT mu nu) (infer_prog (DimT mu nu) (assoc_env Gin) p) eqs = true) by exact Hc2.
  pose proof (DimT_ok n Dm fmin mu nu Hmu Hnu Hn Hf1 Hf0) as OK.
  assert (HG : env_rel n (DimT mu nu) (fun j => j) (assoc_env Gin) rho rho').
  { intros y t Hy. unfold rho', scaled_env. destruct t as [dy|]; simpl.
    - intros k _. rewrite Hy. reflexivity.
    - split; intros k; rewrite ?Hy; apply (Hz y Hy). }
  split.
  - intros x d Hin j Hj.
    apply (check_outputs_sound n Dm fmin n Dm fmin (DimT mu nu) (fun j => j) 1 OK (assoc_env Gin) p outs rho rho' HG Hc1' x d Hin j Hj).
  - intros x Hin H0 j Hj.
    apply (check_typed_sound n Dm fmin n Dm fmin (DimT mu nu) (fun j => j) 1 OK (assoc_env Gin) p eqs rho rho' HG Hc2' x Hin H0 j Hj).
Qed.
