(* EVEN grid sizes N = 2M: the spectral differentiation matrix (qsc/spectral_diff_matrix.py) and the barycentric
   trigonometric interpolant (qsc/fourier_interpolation.py) of pyQSC, analytically.  Companion of DiffKernel.v and
   InterpKernel.v, which treat odd N.

   E1  inv_tan, cot_PI2, cot_nyquist, colR_even_spec, Dspec_even_diag, Dspec_even_entry
                         closed form of the entries,  s/2 (-1)^(i-j) cos(pi (i-j)/n) / sin(pi (i-j)/n)
                         (the Nyquist entry 1/tan(pi/2) is 0 over R, so the matrix is an exact circulant)
   E2  kernel_sum_grid_even, Dspec_even_kernel, Dspec_even_kernel_nyq
                         the matrix is the derivative at x_i of the even-N cardinal kernel
                         K(x) = (1/N)(1 + 2 sum_{m=1}^{M-1} cos(m (x - x_j)) + cos(M (x - x_j)))
   E3  Dspec_even_exact_cos (p <= M, Nyquist included), Dspec_even_exact_sin (p <= M-1), Dspec_even_nyquist_cos,
       Dspec_even_nyquist_sin, Dspec_even_exact_trigpoly (degree <= M-1), Dspec_even_exact_trigpoly_nyq
   E4  Keven_closed, bary_weight_even, interp_even_is_kernel, interp_even_exact_cos (p <= M), interp_even_exact_sin
       (p <= M-1), interp_even_nyquist_sin, interp_even_exact_trigpoly, kinterp_even_node, kinterp_even_continuous

   [Dspec_even n s] is DiffMat.DR (the model of the numpy code) instantiated with the cotangent list 1/tan(k h/2),
   k = 1..n/2, h = 2 pi/n. *)
From Coq Require Import Reals String List ZArith Lra Lia Arith Bool.
From QSC Require Import Expr Equiv DiffMat TrigSum DiffKernel Bracket InterpKernel.
Import ListNotations.
Open Scope R_scope.

(* ------------------------------------------------------------------ *)
(* definitions                                                         *)
Definition cot_list (n : nat) : list R :=
  map (fun k => / tan (INR k * (2 * PI / INR n) / 2)) (seq 1 (n / 2)).
Definition Dspec_even (n : nat) (s : R) : nat -> nat -> R := DR n (cot_list n) s.

Lemma cot_length n : length (cot_list n) = (n / 2)%nat.
Proof. unfold cot_list. rewrite map_length, seq_length. reflexivity. Qed.

Lemma cot_nth n m : (m < n / 2)%nat ->
  nth m (cot_list n) 0 = / tan (INR (S m) * (2 * PI / INR n) / 2).
Proof.
  intros Hm. unfold cot_list.
  set (f := fun k : nat => / tan (INR k * (2 * PI / INR n) / 2)).
  rewrite (nth_indep _ 0 (f O)) by (rewrite map_length, seq_length; exact Hm).
  rewrite map_nth. rewrite seq_nth by exact Hm. reflexivity.
Qed.

Lemma even_half n : Nat.even n = true -> exists M, (n = 2 * M /\ n / 2 = M)%nat.
Proof.
  intros He. apply Nat.even_spec in He. destruct He as [M EM]. exists M. split; [exact EM|].
  symmetry. apply (Nat.div_unique n 2 M 0); lia.
Qed.

(* ------------------------------------------------------------------ *)
(* E1: 1/tan in Coq's total arithmetic                                 *)

(* with / 0 = 0 this holds at EVERY x: both sides are 0 where sin x = 0 or cos x = 0 *)
Lemma inv_tan x : / tan x = cos x / sin x.
Proof.
  unfold tan, Rdiv.
  destruct (Req_dec (cos x) 0) as [Hc|Hc].
  - rewrite Hc, Rinv_0, Rmult_0_r, Rinv_0. ring.
  - destruct (Req_dec (sin x) 0) as [Hs|Hs].
    + rewrite Hs, Rmult_0_l, Rinv_0. ring.
    + field. split; assumption.
Qed.

(* the evaluation asked for in the task sheet:  / tan (PI/2) = / (1 * / 0) = / (1 * 0) = / 0 = 0 *)
Lemma cot_PI2 : / tan (PI / 2) = 0.
Proof. rewrite inv_tan, cos_PI2. unfold Rdiv. ring. Qed.

Lemma cos_PI_minus x : cos (PI - x) = - cos x.
Proof. rewrite cos_minus, cos_PI, sin_PI. ring. Qed.

(* the Nyquist entry of the cotangent list is exactly 0: the premise of DiffMat's even-n theorems *)
Lemma cot_nyquist n : Nat.even n = true -> (2 <= n)%nat -> nth (n / 2 - 1) (cot_list n) 0 = 0.
Proof.
  intros He Hn. destruct (even_half n He) as [M [EM Eh]].
  assert (Hn0 : INR n <> 0) by (apply INR_pos_neq0; lia).
  rewrite cot_nth by lia. replace (S (n / 2 - 1)) with M by lia.
  replace (INR M * (2 * PI / INR n) / 2) with (PI / 2).
  - apply cot_PI2.
  - rewrite EM, mult_INR. simpl (INR 2). field.
    intros H. apply Hn0. rewrite EM, mult_INR, H. ring.
Qed.

(* closed form of the first column *)
Lemma colR_even_spec n k : Nat.even n = true -> (1 <= k <= n - 1)%nat ->
  colR n (cot_list n) k = alt k * / 2 * (cos (PI * INR k / INR n) / sin (PI * INR k / INR n)).
Proof.
  intros He Hk. destruct (even_half n He) as [M [EM Eh]].
  assert (Hn0 : INR n <> 0) by (apply INR_pos_neq0; lia).
  destruct k as [|k]; [lia|].
  rewrite colR_S by (try apply cot_length; lia).
  rewrite sgn_alt. rewrite Rmult_assoc. f_equal. f_equal.
  destruct (le_lt_dec (n / 2) k) as [Hhi|Hlo].
  - rewrite tmpR_hi by (try apply cot_length; lia).
    rewrite He.
    rewrite cot_nth by lia. rewrite inv_tan.
    replace (S (n - 2 - k)) with (n - S k)%nat by lia.
    rewrite minus_INR by lia.
    replace ((INR n - INR (S k)) * (2 * PI / INR n) / 2) with (PI - PI * INR (S k) / INR n)
      by (field; exact Hn0).
    rewrite sin_PI_x, cos_PI_minus. unfold Rdiv. ring.
  - rewrite tmpR_lo by (try apply cot_length; lia).
    rewrite cot_nth by lia. rewrite inv_tan.
    replace (INR (S k) * (2 * PI / INR n) / 2) with (PI * INR (S k) / INR n) by (field; exact Hn0).
    reflexivity.
Qed.

(* the reflection law of DiffMat holds for the cotangent list, the centre included *)
Lemma cot_refl n : Nat.even n = true ->
  forall k, (1 <= k <= n - 1)%nat -> colR n (cot_list n) (n - k) = - colR n (cot_list n) k.
Proof.
  intros He k Hk. apply colR_refl_even_central; [apply cot_length|exact He| |exact Hk].
  apply cot_nyquist; [exact He|lia].
Qed.

Theorem Dspec_even_diag n s i : Dspec_even n s i i = 0.
Proof.
  unfold Dspec_even. rewrite DR_unfold. rewrite Nat.leb_refl, Nat.sub_diag, colR_0. lra.
Qed.

Theorem Dspec_even_entry n s i j : Nat.even n = true -> (i < n)%nat -> (j < n)%nat -> i <> j ->
  let d := (Z.of_nat i - Z.of_nat j)%Z in
  Dspec_even n s i j = s * / 2 * altZ d * cos (PI * IZR d / INR n) / sin (PI * IZR d / INR n).
Proof.
  intros He Hi Hj Hne d. unfold Dspec_even. rewrite DR_unfold.
  assert (Hn0 : INR n <> 0) by (apply INR_pos_neq0; lia).
  destruct (Nat.leb_spec j i) as [H|H].
  - rewrite colR_even_spec by (try assumption; lia).
    assert (Ed : d = Z.of_nat (i - j)) by (unfold d; lia).
    rewrite Ed, altZ_abs, Zabs2Nat.id, <- INR_IZR_INZ. unfold Rdiv. ring.
  - rewrite colR_even_spec by (try assumption; lia).
    assert (Ed : d = (- Z.of_nat (j - i))%Z) by (unfold d; lia).
    rewrite Ed, altZ_opp, altZ_abs, Zabs2Nat.id, opp_IZR, <- INR_IZR_INZ.
    replace (PI * - INR (j - i) / INR n) with (- (PI * INR (j - i) / INR n)) by (unfold Rdiv; ring).
    rewrite sin_neg, cos_neg.
    assert (Hs : sin (PI * INR (j - i) / INR n) <> 0).
    { replace (PI * INR (j - i) / INR n) with (2 * PI * INR (j - i) / INR n / 2) by (field; exact Hn0).
      apply sin_half_neq0; [lia|]. rewrite Nat.mod_small by lia. lia. }
    field. exact Hs.
Qed.

Corollary Dspec_even_entry_powerRZ n s i j : Nat.even n = true -> (i < n)%nat -> (j < n)%nat -> i <> j ->
  let d := (Z.of_nat i - Z.of_nat j)%Z in
  Dspec_even n s i j = s * / 2 * powerRZ (-1) d * cos (PI * IZR d / INR n) / sin (PI * IZR d / INR n).
Proof. intros He Hi Hj Hne d. rewrite <- altZ_powerRZ. apply Dspec_even_entry; assumption. Qed.

(* the entries on the Nyquist diagonals |i - j| = n/2 are exactly 0 *)
Corollary Dspec_even_nyquist_entry n s i j : Nat.even n = true -> (i < n)%nat -> (j < n)%nat ->
  (i = j + n / 2 \/ j = i + n / 2)%nat -> Dspec_even n s i j = 0.
Proof.
  intros He Hi Hj Hd. destruct (even_half n He) as [M [EM Eh]].
  assert (Hn0 : INR n <> 0) by (apply INR_pos_neq0; lia).
  assert (HM : INR n = 2 * INR M) by (rewrite EM, mult_INR; simpl (INR 2); ring).
  assert (HM0 : INR M <> 0) by (intros H; apply Hn0; rewrite HM, H; ring).
  unfold Dspec_even. rewrite DR_unfold.
  assert (C : colR n (cot_list n) M = 0).
  { rewrite colR_even_spec by (try assumption; lia).
    replace (PI * INR M / INR n) with (PI / 2) by (rewrite HM; field; exact HM0).
    rewrite cos_PI2. unfold Rdiv. ring. }
  destruct (Nat.leb_spec j i) as [H|H].
  - replace (i - j)%nat with M by lia. rewrite C. ring.
  - replace (j - i)%nat with M by lia. rewrite C. ring.
Qed.

(* DiffMat's even-n structure theorems, with their Nyquist premise discharged *)
Theorem Dspec_even_circulant n s : Nat.even n = true -> (2 <= n)%nat ->
  forall i j i' j', (i < n)%nat -> (j < n)%nat -> (i' < n)%nat -> (j' < n)%nat ->
    ((i + n - j) mod n = (i' + n - j') mod n)%nat -> Dspec_even n s i j = Dspec_even n s i' j'.
Proof.
  intros He Hn. apply DR_circulant_even; [apply cot_length|exact He|apply cot_nyquist; assumption].
Qed.

Theorem Dspec_even_rowsum n s : Nat.even n = true -> (2 <= n)%nat ->
  forall i, (i < n)%nat -> gsum n (fun j => Dspec_even n s i j) = 0.
Proof.
  intros He Hn. apply DR_rowsum_even; [apply cot_length|exact He|apply cot_nyquist; assumption].
Qed.

Print Assumptions inv_tan.
Print Assumptions cot_nyquist.
Print Assumptions Dspec_even_entry.
Print Assumptions Dspec_even_nyquist_entry.
Print Assumptions Dspec_even_circulant.
Print Assumptions Dspec_even_rowsum.

(* ------------------------------------------------------------------ *)
(* E2: the kernel sum  sum_{m=1}^{M-1} m sin(m x)  at the grid angles  *)

Lemma INR_even_half n M : (n = 2 * M)%nat -> INR n = 2 * INR M.
Proof. intros ->. rewrite mult_INR. simpl (INR 2). ring. Qed.

(* at a grid angle x = 2 pi e / n, n = 2 M, e not a multiple of n *)
Theorem kernel_sum_grid_even n e : Nat.even n = true -> (0 < n)%nat -> (e mod n <> 0)%nat ->
  rsum (n / 2 - 1) (fun k => INR (S k) * sin (INR (S k) * (2 * PI * INR e / INR n)))
  = - alt e * INR n / 4 * (cos (PI * INR e / INR n) / sin (PI * INR e / INR n)).
Proof.
  intros He Hn Hm. destruct (even_half n He) as [M [EM Eh]]. rewrite Eh.
  assert (Hn0 : INR n <> 0) by (apply INR_pos_neq0; lia).
  assert (En : INR n = 2 * INR M) by (apply INR_even_half; exact EM).
  assert (EP : INR (M - 1) = INR M - 1) by (rewrite minus_INR by lia; reflexivity).
  set (x := 2 * PI * INR e / INR n).
  assert (Ex2 : x / 2 = PI * INR e / INR n) by (unfold x; field; exact Hn0).
  assert (Hs : sin (x / 2) <> 0) by (apply sin_half_neq0; [lia|exact Hm]).
  rewrite kernel_sum by exact Hs.
  assert (E0 : INR M * x = PI * INR e).
  { unfold x. rewrite En. field. intros H. apply Hn0. rewrite En, H. ring. }
  assert (E1 : (INR (M - 1) + / 2) * x = PI * INR e - x / 2) by (rewrite EP, <- E0; lra).
  assert (E2 : INR (M - 1) * x = PI * INR e - 2 * (x / 2)) by (rewrite EP, <- E0; lra).
  rewrite E1, E2, sin_minus, cos_minus, cos_nat_PI, sin_nat_PI, sin_2a, EP. rewrite <- Ex2. rewrite En.
  field. exact Hs.
Qed.

(* the first column in kernel form (valid at 0 and at the Nyquist index as well) *)
Lemma colR_even_kernel n e : Nat.even n = true -> (e < n)%nat ->
  colR n (cot_list n) e
  = - (2 / INR n) * rsum (n / 2 - 1) (fun k => INR (S k) * sin (INR (S k) * (2 * PI * INR e / INR n))).
Proof.
  intros He Hlt.
  assert (Hn0 : INR n <> 0) by (apply INR_pos_neq0; lia).
  destruct (Nat.eq_dec e 0) as [->|Hne].
  - rewrite colR_0. rewrite rsum_zero; [lra|].
    intros k _. simpl (INR 0). replace (2 * PI * 0 / INR n) with 0 by (field; exact Hn0).
    rewrite Rmult_0_r, sin_0. lra.
  - rewrite colR_even_spec by (try assumption; lia).
    rewrite kernel_sum_grid_even; [|exact He|lia|rewrite Nat.mod_small by lia; exact Hne].
    assert (Hs : sin (PI * INR e / INR n) <> 0).
    { replace (PI * INR e / INR n) with (2 * PI * INR e / INR n / 2) by (field; exact Hn0).
      apply sin_half_neq0; [lia|]. rewrite Nat.mod_small by lia. exact Hne. }
    field. split; assumption.
Qed.

(* E2, main statement: D_ij = s * d/dx [ (1/n)(1 + 2 sum_{m=1}^{M-1} cos(m (x - x_j)) + cos(M (x - x_j))) ] at x = x_i;
   first without the Nyquist term (which vanishes at the nodes, lemma nyquist_sin_diff below) *)
Theorem Dspec_even_kernel n s i j : Nat.even n = true -> (i < n)%nat -> (j < n)%nat ->
  Dspec_even n s i j
  = s * (/ INR n * rsum (n / 2 - 1) (fun k => 2 * INR (S k) * - sin (INR (S k) * (xg n i - xg n j)))).
Proof.
  intros He Hi Hj. unfold Dspec_even.
  rewrite (DR_mod n (cot_list n) s (cot_refl n He)) by assumption.
  f_equal.
  rewrite colR_even_kernel by (try assumption; apply Nat.mod_upper_bound; lia).
  destruct (xg_diff_mod n i j Hi Hj) as [z Hz]. rewrite Hz.
  assert (Hn0 : INR n <> 0) by (apply INR_pos_neq0; lia).
  rewrite (rsum_ext _ (fun k => INR (S k) * sin (INR (S k) * (xg n i - xg n j + 2 * INR z * PI)))
                      (fun k => INR (S k) * sin (INR (S k) * (xg n i - xg n j)))).
  2:{ intros k _. f_equal.
      replace (INR (S k) * (xg n i - xg n j + 2 * INR z * PI))
        with (INR (S k) * (xg n i - xg n j) + 2 * INR (S k * z) * PI) by (rewrite mult_INR; ring).
      apply sin_period. }
  rewrite (rsum_ext _ (fun k => 2 * INR (S k) * - sin (INR (S k) * (xg n i - xg n j)))
                      (fun k => -2 * (INR (S k) * sin (INR (S k) * (xg n i - xg n j))))).
  2:{ intros k _. ring. }
  rewrite rsum_scal. field. exact Hn0.
Qed.

(* the Nyquist mode on the grid *)
Lemma nyquist_ang n i : Nat.even n = true -> (0 < n)%nat -> INR (n / 2) * xg n i = PI * INR i.
Proof.
  intros He Hn. destruct (even_half n He) as [M [EM Eh]]. rewrite Eh.
  assert (Hn0 : INR n <> 0) by (apply INR_pos_neq0; lia).
  assert (En : INR n = 2 * INR M) by (apply INR_even_half; exact EM).
  unfold xg. rewrite En. field. intros H. apply Hn0. rewrite En, H. ring.
Qed.

Lemma nyquist_cos_grid n i : Nat.even n = true -> (0 < n)%nat -> cos (INR (n / 2) * xg n i) = alt i.
Proof. intros He Hn. rewrite nyquist_ang by assumption. apply cos_nat_PI. Qed.

Lemma nyquist_sin_grid n i : Nat.even n = true -> (0 < n)%nat -> sin (INR (n / 2) * xg n i) = 0.
Proof. intros He Hn. rewrite nyquist_ang by assumption. apply sin_nat_PI. Qed.

Lemma nyquist_sin_diff n i j : Nat.even n = true -> (0 < n)%nat ->
  sin (INR (n / 2) * (xg n i - xg n j)) = 0.
Proof.
  intros He Hn. rewrite Rmult_minus_distr_l, sin_minus, !nyquist_sin_grid by assumption. ring.
Qed.

(* ... and with the Nyquist term: the full derivative of the even-N cardinal kernel *)
Theorem Dspec_even_kernel_nyq n s i j : Nat.even n = true -> (i < n)%nat -> (j < n)%nat ->
  Dspec_even n s i j
  = s * (/ INR n * (rsum (n / 2 - 1) (fun k => 2 * INR (S k) * - sin (INR (S k) * (xg n i - xg n j)))
                    + INR (n / 2) * - sin (INR (n / 2) * (xg n i - xg n j)))).
Proof.
  intros He Hi Hj. rewrite Dspec_even_kernel by assumption.
  rewrite nyquist_sin_diff by (try assumption; lia). f_equal. f_equal. ring.
Qed.

(* the same with the sum starting at m = 0 (the m = 0 term vanishes): m = 0 .. M-1 *)
Corollary Dspec_even_kernel0 n s i j : Nat.even n = true -> (i < n)%nat -> (j < n)%nat ->
  Dspec_even n s i j
  = s * (/ INR n * rsum (n / 2) (fun m => 2 * INR m * - sin (INR m * (xg n i - xg n j)))).
Proof.
  intros He Hi Hj. rewrite Dspec_even_kernel by assumption.
  destruct (even_half n He) as [M [EM Eh]]. rewrite Eh.
  destruct M as [|M']; [lia|]. replace (S M' - 1)%nat with M' by lia.
  rewrite (rsum_S_head M'). simpl (INR 0). lra.
Qed.

Print Assumptions kernel_sum_grid_even.
Print Assumptions Dspec_even_kernel.
Print Assumptions Dspec_even_kernel_nyq.

(* ------------------------------------------------------------------ *)
(* E3: exact differentiation of the resolvable modes                   *)

(* a row of the matrix applied to an arbitrary grid vector, in terms of its cos/sin grid moments m = 0..M-1 *)
Lemma Dspec_even_apply n s i (v : nat -> R) : Nat.even n = true -> (i < n)%nat ->
  rsum n (fun j => Dspec_even n s i j * v j)
  = s * / INR n * rsum (n / 2) (fun m =>
      -2 * INR m * (sin (INR m * xg n i) * rsum n (fun j => cos (ang n m j) * v j)
                    - cos (INR m * xg n i) * rsum n (fun j => sin (ang n m j) * v j))).
Proof.
  intros He Hi.
  set (F := fun j m => (s * / INR n * (-2 * INR m) * sin (INR m * xg n i)) * (cos (ang n m j) * v j)
                       + (- (s * / INR n * (-2 * INR m) * cos (INR m * xg n i))) * (sin (ang n m j) * v j)).
  rewrite (rsum_ext n _ (fun j => rsum (n / 2) (fun m => F j m))).
  2:{ intros j Hj. rewrite Dspec_even_kernel0 by assumption.
      rewrite (rsum_ext _ (fun m => F j m)
                (fun m => (2 * INR m * - sin (INR m * (xg n i - xg n j))) * (s * / INR n * v j))).
      - rewrite rsum_scal_r. ring.
      - intros m _. unfold F.
        replace (INR m * (xg n i - xg n j)) with (INR m * xg n i - ang n m j)
          by (rewrite <- xg_ang; ring).
        rewrite sin_minus. ring. }
  rewrite rsum_swap. rewrite <- rsum_scal. apply rsum_ext. intros m _.
  unfold F. rewrite rsum_plus, !rsum_scal. ring.
Qed.

(* cosines: every p <= M, the Nyquist mode p = M INCLUDED (its derivative -M sin(M x) vanishes at the nodes) *)
Theorem Dspec_even_exact_cos n s p i : Nat.even n = true -> (p <= n / 2)%nat -> (i < n)%nat ->
  gsum n (fun j => Dspec_even n s i j * cos (INR p * xg n j)) = - s * INR p * sin (INR p * xg n i).
Proof.
  intros He Hp Hi. destruct (even_half n He) as [M [EM Eh]].
  assert (Hn0 : INR n <> 0) by (apply INR_pos_neq0; lia).
  rewrite <- rsum_gsum. rewrite Dspec_even_apply by assumption.
  rewrite (rsum_ext _ _ (fun m => if (m =? p)%nat
                                  then -2 * INR m * (sin (INR m * xg n i) * (INR n / 2)) else 0)).
  - destruct (Nat.eq_dec p (n / 2)) as [Ep|Ep].
    + rewrite rsum_zero.
      * rewrite Ep, nyquist_sin_grid by (try assumption; lia). ring.
      * intros m Hm. destruct (Nat.eqb_spec m p); [lia|reflexivity].
    + rewrite rsum_delta by lia. field. exact Hn0.
  - intros m Hm.
    rewrite (rsum_ext n (fun j => cos (ang n m j) * cos (INR p * xg n j))
                        (fun j => cos (ang n m j) * cos (ang n p j)))
      by (intros j _; rewrite xg_ang; reflexivity).
    rewrite (rsum_ext n (fun j => sin (ang n m j) * cos (INR p * xg n j))
                        (fun j => cos (ang n p j) * sin (ang n m j)))
      by (intros j _; rewrite xg_ang; ring).
    rewrite sum_coscos, sum_cossin by lia.
    destruct (Nat.eqb_spec m p) as [->|Hne]; [|ring].
    destruct (Nat.eqb_spec p 0) as [->|Hp0]; [simpl; ring|].
    destruct (Nat.eqb_spec (2 * p) n); [lia|]. simpl. ring.
Qed.

(* sines: strictly below Nyquist *)
Theorem Dspec_even_exact_sin n s p i : Nat.even n = true -> (p < n / 2)%nat -> (i < n)%nat ->
  gsum n (fun j => Dspec_even n s i j * sin (INR p * xg n j)) = s * INR p * cos (INR p * xg n i).
Proof.
  intros He Hp Hi. destruct (even_half n He) as [M [EM Eh]].
  assert (Hn0 : INR n <> 0) by (apply INR_pos_neq0; lia).
  rewrite <- rsum_gsum. rewrite Dspec_even_apply by assumption.
  rewrite (rsum_ext _ _ (fun m => if (m =? p)%nat
                                  then 2 * INR m * (cos (INR m * xg n i) * (INR n / 2)) else 0)).
  - rewrite rsum_delta by lia. field. exact Hn0.
  - intros m Hm.
    rewrite (rsum_ext n (fun j => cos (ang n m j) * sin (INR p * xg n j))
                        (fun j => cos (ang n m j) * sin (ang n p j)))
      by (intros j _; rewrite xg_ang; reflexivity).
    rewrite (rsum_ext n (fun j => sin (ang n m j) * sin (INR p * xg n j))
                        (fun j => sin (ang n m j) * sin (ang n p j)))
      by (intros j _; rewrite xg_ang; reflexivity).
    rewrite sum_sinsin, sum_cossin by lia.
    destruct (Nat.eqb_spec m p) as [->|Hne]; [|ring].
    destruct (Nat.eqb_spec p 0) as [->|Hp0]; [simpl; ring|].
    destruct (Nat.eqb_spec (2 * p) n); [lia|]. simpl. ring.
Qed.

(* the Nyquist mode, spelled out: cos(M x_j) = (-1)^j is annihilated, which IS its derivative at the nodes *)
Theorem Dspec_even_nyquist_cos n s i : Nat.even n = true -> (i < n)%nat ->
  gsum n (fun j => Dspec_even n s i j * cos (INR (n / 2) * xg n j)) = 0.
Proof.
  intros He Hi. rewrite Dspec_even_exact_cos by (try assumption; lia).
  rewrite nyquist_sin_grid by (try assumption; lia). ring.
Qed.

Corollary Dspec_even_nyquist_alt n s i : Nat.even n = true -> (i < n)%nat ->
  gsum n (fun j => Dspec_even n s i j * (-1) ^ j) = 0.
Proof.
  intros He Hi. rewrite <- (Dspec_even_nyquist_cos n s i He Hi).
  rewrite <- !rsum_gsum. apply rsum_ext. intros j _.
  rewrite nyquist_cos_grid by (try assumption; lia). rewrite alt_pow. reflexivity.
Qed.

(* sin(M x) is identically 0 on the grid, so the matrix returns 0, NOT its derivative M cos(M x_i) = M (-1)^i *)
Theorem Dspec_even_nyquist_sin n s i : Nat.even n = true -> (i < n)%nat ->
  (forall j, sin (INR (n / 2) * xg n j) = 0) /\
  gsum n (fun j => Dspec_even n s i j * sin (INR (n / 2) * xg n j)) = 0 /\
  s * INR (n / 2) * cos (INR (n / 2) * xg n i) = s * INR (n / 2) * alt i.
Proof.
  intros He Hi. assert (Hn : (0 < n)%nat) by lia. split; [|split].
  - intros j. apply nyquist_sin_grid; assumption.
  - rewrite <- rsum_gsum. apply rsum_zero. intros j _. rewrite nyquist_sin_grid by assumption. ring.
  - rewrite nyquist_cos_grid by assumption. reflexivity.
Qed.

(* trigonometric polynomials: degree <= M, with no sin(M x) component *)
Theorem Dspec_even_exact_trigpoly_nyq n s deg a b i : Nat.even n = true -> (deg <= n / 2)%nat -> (i < n)%nat ->
  (forall p, (n / 2 <= p)%nat -> b p = 0) ->
  gsum n (fun j => Dspec_even n s i j * trigpoly deg a b (xg n j)) = s * trigpoly' deg a b (xg n i).
Proof.
  intros He Hd Hi Hb. rewrite <- rsum_gsum. unfold trigpoly, trigpoly'.
  rewrite (rsum_ext n _ (fun j => rsum (S deg) (fun p =>
             a p * (Dspec_even n s i j * cos (INR p * xg n j))
             + b p * (Dspec_even n s i j * sin (INR p * xg n j))))).
  2:{ intros j _. rewrite <- rsum_scal. apply rsum_ext. intros p _. ring. }
  rewrite rsum_swap. rewrite <- rsum_scal. apply rsum_ext. intros p Hp.
  rewrite rsum_plus, !rsum_scal, !rsum_gsum.
  rewrite Dspec_even_exact_cos by (try assumption; lia).
  destruct (le_lt_dec (n / 2) p) as [Hge|Hlt].
  - rewrite (Hb p Hge). ring.
  - rewrite Dspec_even_exact_sin by assumption. ring.
Qed.

(* degree <= M - 1 *)
Corollary Dspec_even_exact_trigpoly n s deg a b i : Nat.even n = true -> (deg < n / 2)%nat -> (i < n)%nat ->
  gsum n (fun j => Dspec_even n s i j * trigpoly deg a b (xg n j)) = s * trigpoly' deg a b (xg n i).
Proof.
  intros He Hd Hi. rewrite <- rsum_gsum. unfold trigpoly, trigpoly'.
  rewrite (rsum_ext n _ (fun j => rsum (S deg) (fun p =>
             a p * (Dspec_even n s i j * cos (INR p * xg n j))
             + b p * (Dspec_even n s i j * sin (INR p * xg n j))))).
  2:{ intros j _. rewrite <- rsum_scal. apply rsum_ext. intros p _. ring. }
  rewrite rsum_swap. rewrite <- rsum_scal. apply rsum_ext. intros p Hp.
  rewrite rsum_plus, !rsum_scal, !rsum_gsum.
  rewrite Dspec_even_exact_cos, Dspec_even_exact_sin by (try assumption; lia). ring.
Qed.

Print Assumptions Dspec_even_exact_cos.
Print Assumptions Dspec_even_exact_sin.
Print Assumptions Dspec_even_nyquist_cos.
Print Assumptions Dspec_even_nyquist_alt.
Print Assumptions Dspec_even_nyquist_sin.
Print Assumptions Dspec_even_exact_trigpoly_nyq.
Print Assumptions Dspec_even_exact_trigpoly.

(* ------------------------------------------------------------------ *)
(* E4: the barycentric interpolant for even N                          *)

(* the even-N cardinal kernel  K(u) = (1/N)(1 + 2 sum_{m=1}^{M-1} cos(m u) + cos(M u)) *)
Definition Keven (n : nat) (u : R) : R :=
  / INR n * (1 + 2 * rsum (n / 2 - 1) (fun m => cos (INR (S m) * u)) + cos (INR (n / 2) * u)).

(* the kernel (cardinal-function) form of the interpolant on the n-point grid *)
Definition kinterp_even (n : nat) (f : nat -> R) (x : R) : R :=
  rsum n (fun k => f k * Keven n (x - xg n k)).

(* closed form *)
Lemma Keven_mul n u : Nat.even n = true -> (0 < n)%nat ->
  sin (u / 2) * (INR n * Keven n u) = sin (INR (n / 2) * u) * cos (u / 2).
Proof.
  intros He Hn. destruct (even_half n He) as [M [EM Eh]].
  assert (Hn0 : INR n <> 0) by (apply INR_pos_neq0; lia).
  assert (EP : INR (M - 1) = INR M - 1) by (rewrite minus_INR by lia; reflexivity).
  unfold Keven. rewrite Eh. fold (Dker (M - 1) u).
  replace (INR n * (/ INR n * (Dker (M - 1) u + cos (INR M * u)))) with (Dker (M - 1) u + cos (INR M * u))
    by (field; exact Hn0).
  rewrite Rmult_plus_distr_l, dirichlet_mul, EP.
  replace ((INR M - 1 + / 2) * u) with (INR M * u - u / 2) by lra.
  rewrite sin_minus. ring.
Qed.

Theorem Keven_closed n u : Nat.even n = true -> (0 < n)%nat -> sin (u / 2) <> 0 ->
  Keven n u = sin (INR n * u / 2) * cos (u / 2) / (INR n * sin (u / 2)).
Proof.
  intros He Hn Hs. destruct (even_half n He) as [M [EM Eh]].
  assert (Hn0 : INR n <> 0) by (apply INR_pos_neq0; lia).
  assert (En : INR n = 2 * INR M) by (apply INR_even_half; exact EM).
  replace (INR n * u / 2) with (INR (n / 2) * u) by (rewrite Eh, En; field).
  rewrite <- Keven_mul by assumption. field. split; assumption.
Qed.

(* the barycentric weights are the kernel values, up to a common factor *)
Theorem bary_weight_even n x k : Nat.even n = true -> (0 < n)%nat -> sin (INR n * x / 2) <> 0 ->
  (-1) ^ k * / tan ((x - xg n k) / 2) = INR n / sin (INR n * x / 2) * Keven n (x - xg n k).
Proof.
  intros He Hn Hx. destruct (even_half n He) as [M [EM Eh]].
  assert (Hn0 : INR n <> 0) by (apply INR_pos_neq0; lia).
  assert (En : INR n = 2 * INR M) by (apply INR_even_half; exact EM).
  assert (Hs := nonnode n x k Hn Hx).
  rewrite inv_tan, Keven_closed by assumption.
  replace (INR n * (x - xg n k) / 2) with (INR n * x / 2 - PI * INR k) by (unfold xg; field; exact Hn0).
  rewrite sin_shift_nat_PI, <- alt_pow.
  assert (A := alt_sq k).
  apply (Rmult_eq_reg_l (alt k)).
  2:{ intros H. rewrite H in A. lra. }
  transitivity ((alt k * alt k) * (cos ((x - xg n k) / 2) / sin ((x - xg n k) / 2))); [ring|].
  transitivity ((alt k * alt k) * (INR n / sin (INR n * x / 2)
     * (sin (INR n * x / 2) * cos ((x - xg n k) / 2) / (INR n * sin ((x - xg n k) / 2))))).
  - rewrite A. field. repeat split; assumption.
  - field. repeat split; assumption.
Qed.

(* the same in cos/sin form *)
Corollary bary_weight_even_cs n x k : Nat.even n = true -> (0 < n)%nat -> sin (INR n * x / 2) <> 0 ->
  (-1) ^ k * (cos ((x - xg n k) / 2) / sin ((x - xg n k) / 2))
  = INR n / sin (INR n * x / 2) * Keven n (x - xg n k).
Proof. intros He Hn Hx. rewrite <- inv_tan. apply bary_weight_even; assumption. Qed.

(* ------------------------------------------------------------------ *)
(* the kernel as a weighted cosine sum m = 0..M with the real-DFT weights 1, 2, .., 2, 1 *)
Lemma Keven_wgt n u : Nat.even n = true -> (0 < n)%nat ->
  Keven n u = / INR n * rsum (S (n / 2)) (fun m => wgt n m * cos (INR m * u)).
Proof.
  intros He Hn. destruct (even_half n He) as [M [EM Eh]]. unfold Keven. rewrite Eh. f_equal.
  destruct M as [|M']; [lia|]. replace (S M' - 1)%nat with M' by lia.
  rewrite rsum_S_head. cbn [rsum]. unfold wgt at 1. simpl (0 =? 0)%nat. cbv iota.
  simpl (INR 0). rewrite Rmult_0_l, cos_0.
  rewrite (rsum_ext M' (fun k => wgt n (S k) * cos (INR (S k) * u)) (fun k => 2 * cos (INR (S k) * u))).
  - rewrite rsum_scal. unfold wgt. simpl (S M' =? 0)%nat. cbv iota.
    replace (2 * S M' =? n)%nat with true by (symmetry; apply Nat.eqb_eq; lia). ring.
  - intros k Hk. unfold wgt. simpl (S k =? 0)%nat. cbv iota.
    destruct (Nat.eqb_spec (2 * S k) n); [lia|reflexivity].
Qed.

(* a weighted cosine kernel applied to a grid vector, in terms of its cos/sin grid moments *)
Lemma wkernel_apply N L (w : nat -> R) x (v : nat -> R) :
  rsum N (fun k => v k * rsum L (fun m => w m * cos (INR m * (x - xg N k))))
  = rsum L (fun m => w m * (cos (INR m * x) * rsum N (fun k => cos (ang N m k) * v k)
                            + sin (INR m * x) * rsum N (fun k => sin (ang N m k) * v k))).
Proof.
  set (F := fun k m => (w m * cos (INR m * x)) * (cos (ang N m k) * v k)
                       + (w m * sin (INR m * x)) * (sin (ang N m k) * v k)).
  rewrite (rsum_ext N _ (fun k => rsum L (fun m => F k m))).
  2:{ intros k Hk.
      rewrite (rsum_ext _ (fun m => F k m) (fun m => (w m * cos (INR m * (x - xg N k))) * v k)).
      - rewrite rsum_scal_r. ring.
      - intros m _. unfold F.
        replace (INR m * (x - xg N k)) with (INR m * x - ang N m k) by (rewrite <- xg_ang; ring).
        rewrite cos_minus. ring. }
  rewrite rsum_swap. apply rsum_ext. intros m _.
  unfold F. rewrite rsum_plus, !rsum_scal. ring.
Qed.

Lemma kinterp_even_apply n f x : Nat.even n = true -> (0 < n)%nat ->
  kinterp_even n f x
  = / INR n * rsum (S (n / 2)) (fun m =>
      wgt n m * (cos (INR m * x) * rsum n (fun k => cos (ang n m k) * f k)
                 + sin (INR m * x) * rsum n (fun k => sin (ang n m k) * f k))).
Proof.
  intros He Hn. unfold kinterp_even. rewrite <- wkernel_apply. rewrite <- rsum_scal.
  apply rsum_ext. intros k _. rewrite Keven_wgt by assumption. ring.
Qed.

(* exactness of the kernel form: cosines up to AND INCLUDING Nyquist, sines strictly below *)
Theorem kinterp_even_exact_cos n p x : Nat.even n = true -> (0 < n)%nat -> (p <= n / 2)%nat ->
  kinterp_even n (fun k => cos (INR p * xg n k)) x = cos (INR p * x).
Proof.
  intros He Hn Hp. destruct (even_half n He) as [M [EM Eh]].
  assert (Hn0 : INR n <> 0) by (apply INR_pos_neq0; lia).
  rewrite kinterp_even_apply by assumption.
  rewrite (rsum_ext _ _ (fun m => if (m =? p)%nat then INR n * cos (INR m * x) else 0)).
  - rewrite rsum_delta by lia. field. exact Hn0.
  - intros m Hm.
    rewrite (rsum_ext n (fun k => cos (ang n m k) * cos (INR p * xg n k))
                        (fun k => cos (ang n m k) * cos (ang n p k)))
      by (intros k _; rewrite xg_ang; reflexivity).
    rewrite (rsum_ext n (fun k => sin (ang n m k) * cos (INR p * xg n k))
                        (fun k => cos (ang n p k) * sin (ang n m k)))
      by (intros k _; rewrite xg_ang; ring).
    rewrite sum_coscos, sum_cossin by lia.
    destruct (Nat.eqb_spec m p) as [->|Hne]; [|ring].
    unfold wgt. destruct (Nat.eqb_spec p 0) as [->|Hp0]; [simpl; ring|].
    destruct (Nat.eqb_spec (2 * p) n); simpl; field.
Qed.

Theorem kinterp_even_exact_sin n p x : Nat.even n = true -> (0 < n)%nat -> (p < n / 2)%nat ->
  kinterp_even n (fun k => sin (INR p * xg n k)) x = sin (INR p * x).
Proof.
  intros He Hn Hp. destruct (even_half n He) as [M [EM Eh]].
  assert (Hn0 : INR n <> 0) by (apply INR_pos_neq0; lia).
  rewrite kinterp_even_apply by assumption.
  rewrite (rsum_ext _ _ (fun m => if (m =? p)%nat then INR n * sin (INR m * x) else 0)).
  - rewrite rsum_delta by lia. field. exact Hn0.
  - intros m Hm.
    rewrite (rsum_ext n (fun k => cos (ang n m k) * sin (INR p * xg n k))
                        (fun k => cos (ang n m k) * sin (ang n p k)))
      by (intros k _; rewrite xg_ang; reflexivity).
    rewrite (rsum_ext n (fun k => sin (ang n m k) * sin (INR p * xg n k))
                        (fun k => sin (ang n m k) * sin (ang n p k)))
      by (intros k _; rewrite xg_ang; reflexivity).
    rewrite sum_sinsin, sum_cossin by lia.
    destruct (Nat.eqb_spec m p) as [->|Hne]; [|ring].
    unfold wgt. destruct (Nat.eqb_spec p 0) as [->|Hp0].
    + simpl. rewrite Rmult_0_l, sin_0. ring.
    + destruct (Nat.eqb_spec (2 * p) n); [lia|]. simpl. field.
Qed.

Lemma kinterp_even_linear n f g a b x :
  kinterp_even n (fun k => a * f k + b * g k) x = a * kinterp_even n f x + b * kinterp_even n g x.
Proof.
  unfold kinterp_even.
  rewrite (rsum_ext n _ (fun k => a * (f k * Keven n (x - xg n k)) + b * (g k * Keven n (x - xg n k))))
    by (intros; ring).
  rewrite rsum_plus, !rsum_scal. ring.
Qed.

Lemma kinterp_even_ext n f g x : (forall k, (k < n)%nat -> f k = g k) -> kinterp_even n f x = kinterp_even n g x.
Proof. intros H. unfold kinterp_even. apply rsum_ext. intros k Hk. rewrite H by exact Hk. reflexivity. Qed.

(* the Nyquist sine is invisible on the grid: its samples vanish, and so does the interpolant (NOT sin(M x)) *)
Theorem kinterp_even_nyquist_sin n x : Nat.even n = true -> (0 < n)%nat ->
  kinterp_even n (fun k => sin (INR (n / 2) * xg n k)) x = 0.
Proof.
  intros He Hn. unfold kinterp_even. apply rsum_zero. intros k _.
  rewrite nyquist_sin_grid by assumption. ring.
Qed.

(* trigonometric polynomials of degree <= M without sin(M x) component *)
Theorem kinterp_even_exact_trigpoly_nyq n deg a b x : Nat.even n = true -> (0 < n)%nat -> (deg <= n / 2)%nat ->
  (forall p, (n / 2 <= p)%nat -> b p = 0) ->
  kinterp_even n (fun k => trigpoly deg a b (xg n k)) x = trigpoly deg a b x.
Proof.
  intros He Hn Hd Hb. unfold trigpoly. generalize (S deg), (le_n_S _ _ Hd). intros d Hle.
  induction d.
  - simpl. unfold kinterp_even. rewrite rsum_zero by (intros; ring). ring.
  - cbn [rsum].
    rewrite (kinterp_even_ext n _
               (fun k => 1 * rsum d (fun p => a p * cos (INR p * xg n k) + b p * sin (INR p * xg n k))
                         + 1 * (a d * cos (INR d * xg n k) + b d * sin (INR d * xg n k))))
      by (intros; ring).
    rewrite kinterp_even_linear, IHd by lia. rewrite kinterp_even_linear.
    rewrite kinterp_even_exact_cos by (try assumption; lia).
    destruct (le_lt_dec (n / 2) d) as [Hge|Hlt].
    + rewrite (Hb d Hge). ring.
    + rewrite kinterp_even_exact_sin by assumption. ring.
Qed.

Corollary kinterp_even_exact_trigpoly n deg a b x : Nat.even n = true -> (0 < n)%nat -> (deg < n / 2)%nat ->
  kinterp_even n (fun k => trigpoly deg a b (xg n k)) x = trigpoly deg a b x.
Proof.
  intros He Hn Hd.
  set (b' := fun p => if le_lt_dec (n / 2) p then 0 else b p).
  assert (E : forall y, trigpoly deg a b y = trigpoly deg a b' y).
  { intros y. unfold trigpoly. apply rsum_ext. intros p Hp. unfold b'.
    destruct (le_lt_dec (n / 2) p); [lia|reflexivity]. }
  rewrite E. rewrite (kinterp_even_ext n _ (fun k => trigpoly deg a b' (xg n k))) by (intros; apply E).
  apply kinterp_even_exact_trigpoly_nyq; try assumption; [lia|].
  intros p Hp. unfold b'. destruct (le_lt_dec (n / 2) p); [reflexivity|lia].
Qed.

(* the kernel values sum to 1 *)
Lemma Keven_sum n x : Nat.even n = true -> (0 < n)%nat -> rsum n (fun k => Keven n (x - xg n k)) = 1.
Proof.
  intros He Hn.
  assert (E := kinterp_even_exact_cos n 0 x He Hn (Nat.le_0_l _)).
  simpl (INR 0) in E. rewrite Rmult_0_l, cos_0 in E. unfold kinterp_even in E.
  rewrite <- E. apply rsum_ext. intros k _. rewrite Rmult_0_l, cos_0. ring.
Qed.

(* ------------------------------------------------------------------ *)
(* the barycentric formula of the code is the kernel interpolant       *)

(* the code's D-row at a non-node point: the guard is inactive *)
Lemma D_even_nonnode n eps x k : (1 <= n)%nat -> sin (INR n * x / 2) <> 0 ->
  D_even eps ((x - xg n k) / 2) = / tan ((x - xg n k) / 2).
Proof.
  intros Hn Hx. unfold D_even. rewrite guard_inactive; [unfold Rdiv; ring|].
  intros H0. apply (nonnode n x k Hn Hx). rewrite H0. apply sin_0.
Qed.

Lemma D_even_weight n eps x k : Nat.even n = true -> (0 < n)%nat -> sin (INR n * x / 2) <> 0 ->
  D_even eps ((x - xg n k) / 2) * w_alt k = INR n / sin (INR n * x / 2) * Keven n (x - xg n k).
Proof.
  intros He Hn Hx. rewrite D_even_nonnode by (try assumption; lia). unfold w_alt.
  rewrite <- bary_weight_even by assumption. ring.
Qed.

Theorem interp_even_den_kernel n eps x : Nat.even n = true -> (0 < n)%nat -> sin (INR n * x / 2) <> 0 ->
  interp_den n (fun k => D_even eps ((x - xg n k) / 2)) w_alt = INR n / sin (INR n * x / 2).
Proof.
  intros He Hn Hx. unfold interp_den. rewrite sumR_rsum.
  rewrite (rsum_ext n _ (fun k => INR n / sin (INR n * x / 2) * Keven n (x - xg n k)))
    by (intros k _; apply D_even_weight; assumption).
  rewrite rsum_scal, Keven_sum by assumption. ring.
Qed.

Corollary interp_even_den_neq0 n eps x : Nat.even n = true -> (0 < n)%nat -> sin (INR n * x / 2) <> 0 ->
  interp_den n (fun k => D_even eps ((x - xg n k) / 2)) w_alt <> 0.
Proof.
  intros He Hn Hx. rewrite interp_even_den_kernel by assumption.
  assert (Hn0 : INR n <> 0) by (apply INR_pos_neq0; lia).
  unfold Rdiv. apply Rmult_integral_contrapositive_currified; [exact Hn0|].
  apply Rinv_neq_0_compat. exact Hx.
Qed.

Theorem interp_even_is_kernel n eps x f : Nat.even n = true -> (0 < n)%nat -> sin (INR n * x / 2) <> 0 ->
  interp n (fun k => D_even eps ((x - xg n k) / 2)) w_alt f = kinterp_even n f x.
Proof.
  intros He Hn Hx. assert (Hn0 : INR n <> 0) by (apply INR_pos_neq0; lia).
  unfold interp. rewrite interp_even_den_kernel by assumption.
  unfold interp_num, kinterp_even. rewrite sumR_rsum.
  rewrite (rsum_ext n _ (fun k => INR n / sin (INR n * x / 2) * (f k * Keven n (x - xg n k)))).
  - rewrite rsum_scal. field. split; assumption.
  - intros k _. rewrite <- Rmult_assoc, D_even_weight by assumption. ring.
Qed.

(* the same with every definition of this file unfolded, in Bracket.v's vocabulary *)
Corollary interp_even_is_kernel_explicit M eps x f : (1 <= M)%nat -> let N := (2 * M)%nat in
  sin (INR N * x / 2) <> 0 ->
  interp N (fun k => D_even eps ((x - 2 * PI * INR k / INR N) / 2)) w_alt f
  = sumR N (fun k => f k * (/ INR N * (1 + 2 * sumR (M - 1) (fun m => cos (INR (S m) * (x - 2 * PI * INR k / INR N)))
                                        + cos (INR M * (x - 2 * PI * INR k / INR N))))).
Proof.
  intros HM N Hx.
  assert (He : Nat.even N = true) by (apply Nat.even_spec; exists M; reflexivity).
  assert (Eh : (N / 2 = M)%nat) by (symmetry; apply (Nat.div_unique N 2 M 0); unfold N; lia).
  assert (HN : (0 < N)%nat) by (unfold N; lia).
  assert (E := interp_even_is_kernel N eps x f He HN Hx). unfold xg, kinterp_even, Keven in E. rewrite Eh in E.
  rewrite E. reflexivity.   (* sumR and rsum are convertible *)
Qed.

(* exactness of the code's formula *)
Theorem interp_even_exact_cos n eps p x : Nat.even n = true -> (0 < n)%nat -> (p <= n / 2)%nat ->
  sin (INR n * x / 2) <> 0 ->
  interp n (fun k => D_even eps ((x - xg n k) / 2)) w_alt (fun k => cos (INR p * xg n k)) = cos (INR p * x).
Proof. intros He Hn Hp Hx. rewrite interp_even_is_kernel by assumption. apply kinterp_even_exact_cos; assumption. Qed.

Theorem interp_even_exact_sin n eps p x : Nat.even n = true -> (0 < n)%nat -> (p < n / 2)%nat ->
  sin (INR n * x / 2) <> 0 ->
  interp n (fun k => D_even eps ((x - xg n k) / 2)) w_alt (fun k => sin (INR p * xg n k)) = sin (INR p * x).
Proof. intros He Hn Hp Hx. rewrite interp_even_is_kernel by assumption. apply kinterp_even_exact_sin; assumption. Qed.

(* Nyquist: cos(M x) is reproduced (previous theorem with p = n/2; its samples are (-1)^k) ... *)
Corollary interp_even_nyquist_cos n eps x : Nat.even n = true -> (0 < n)%nat -> sin (INR n * x / 2) <> 0 ->
  interp n (fun k => D_even eps ((x - xg n k) / 2)) w_alt (fun k => (-1) ^ k) = cos (INR (n / 2) * x).
Proof.
  intros He Hn Hx. rewrite <- (interp_even_exact_cos n eps (n / 2) x He Hn (le_n _) Hx).
  rewrite !interp_even_is_kernel by assumption. apply kinterp_even_ext. intros k _.
  rewrite nyquist_cos_grid by assumption. rewrite alt_pow. reflexivity.
Qed.

(* ... whereas sin(M x) is NOT: its samples vanish and the interpolant is 0, while sin(M x) <> 0 off the nodes *)
Theorem interp_even_nyquist_sin n eps x : Nat.even n = true -> (0 < n)%nat -> sin (INR n * x / 2) <> 0 ->
  interp n (fun k => D_even eps ((x - xg n k) / 2)) w_alt (fun k => sin (INR (n / 2) * xg n k)) = 0
  /\ sin (INR (n / 2) * x) <> 0.
Proof.
  intros He Hn Hx. split.
  - rewrite interp_even_is_kernel by assumption. apply kinterp_even_nyquist_sin; assumption.
  - destruct (even_half n He) as [M [EM Eh]].
    assert (En : INR n = 2 * INR M) by (apply INR_even_half; exact EM).
    replace (INR (n / 2) * x) with (INR n * x / 2) by (rewrite Eh, En; field). exact Hx.
Qed.

Theorem interp_even_exact_trigpoly_nyq n eps deg a b x : Nat.even n = true -> (0 < n)%nat -> (deg <= n / 2)%nat ->
  (forall p, (n / 2 <= p)%nat -> b p = 0) -> sin (INR n * x / 2) <> 0 ->
  interp n (fun k => D_even eps ((x - xg n k) / 2)) w_alt (fun k => trigpoly deg a b (xg n k)) = trigpoly deg a b x.
Proof.
  intros He Hn Hd Hb Hx. rewrite interp_even_is_kernel by assumption.
  apply kinterp_even_exact_trigpoly_nyq; assumption.
Qed.

Theorem interp_even_exact_trigpoly n eps deg a b x : Nat.even n = true -> (0 < n)%nat -> (deg < n / 2)%nat ->
  sin (INR n * x / 2) <> 0 ->
  interp n (fun k => D_even eps ((x - xg n k) / 2)) w_alt (fun k => trigpoly deg a b (xg n k)) = trigpoly deg a b x.
Proof.
  intros He Hn Hd Hx. rewrite interp_even_is_kernel by assumption.
  apply kinterp_even_exact_trigpoly; assumption.
Qed.

(* ------------------------------------------------------------------ *)
(* the kernel form at the nodes, and its continuity                    *)
Theorem kinterp_even_node n f j : Nat.even n = true -> (j < n)%nat -> kinterp_even n f (xg n j) = f j.
Proof.
  intros He Hj. assert (Hn0 : INR n <> 0) by (apply INR_pos_neq0; lia).
  unfold kinterp_even.
  rewrite (rsum_ext n _ (fun k => if (k =? j)%nat then f k else 0)).
  - rewrite rsum_delta by exact Hj. reflexivity.
  - intros k Hk. rewrite Keven_wgt by (try assumption; lia). unfold xg.
    rewrite dirichlet_diff by assumption.
    rewrite (Nat.eqb_sym k j). destruct (j =? k)%nat; [field; exact Hn0|ring].
Qed.

Lemma Keven_shift_continuity_pt n c x : continuity_pt (fun y => Keven n (y - c)) x.
Proof.
  unfold Keven.
  apply (continuity_pt_scal
           (fun y => 1 + 2 * rsum (n / 2 - 1) (fun m => cos (INR (S m) * (y - c))) + cos (INR (n / 2) * (y - c)))
           (/ INR n)).
  apply (continuity_pt_plus (fun y => Dker (n / 2 - 1) (y - c)) (fun y => cos (INR (n / 2) * (y - c)))).
  - apply Dker_shift_continuity_pt.
  - apply (continuity_pt_comp (fun y => INR (n / 2) * (y - c)) cos); [|apply continuity_cos].
    apply (continuity_pt_scal (fun y => y - c) (INR (n / 2))).
    apply (continuity_pt_minus id (fun _ => c)).
    + apply derivable_continuous_pt. apply derivable_pt_id.
    + apply continuity_pt_const. intros a b. reflexivity.
Qed.

Theorem kinterp_even_continuous n f : continuity (kinterp_even n f).
Proof.
  intros x. unfold kinterp_even.
  apply (rsum_continuity_pt n (fun k y => f k * Keven n (y - xg n k))). intros k _.
  apply (continuity_pt_scal (fun y => Keven n (y - xg n k)) (f k)).
  apply Keven_shift_continuity_pt.
Qed.

(* the code's value at non-node points extends continuously to the nodes, with value f j there *)
Corollary interp_even_extends n eps f : Nat.even n = true -> (0 < n)%nat ->
  continuity (kinterp_even n f) /\
  (forall x, sin (INR n * x / 2) <> 0 ->
     interp n (fun k => D_even eps ((x - xg n k) / 2)) w_alt f = kinterp_even n f x) /\
  (forall j, (j < n)%nat -> kinterp_even n f (xg n j) = f j).
Proof.
  intros He Hn. split; [apply kinterp_even_continuous|]. split.
  - intros x Hx. apply interp_even_is_kernel; assumption.
  - intros j Hj. apply kinterp_even_node; assumption.
Qed.

Print Assumptions Keven_closed.
Print Assumptions bary_weight_even.
Print Assumptions kinterp_even_exact_cos.
Print Assumptions kinterp_even_exact_sin.
Print Assumptions kinterp_even_exact_trigpoly_nyq.
Print Assumptions kinterp_even_exact_trigpoly.
Print Assumptions interp_even_den_neq0.
Print Assumptions interp_even_is_kernel.
Print Assumptions interp_even_is_kernel_explicit.
Print Assumptions interp_even_exact_cos.
Print Assumptions interp_even_exact_sin.
Print Assumptions interp_even_nyquist_cos.
Print Assumptions interp_even_nyquist_sin.
Print Assumptions interp_even_exact_trigpoly_nyq.
Print Assumptions interp_even_exact_trigpoly.
Print Assumptions kinterp_even_node.
Print Assumptions kinterp_even_continuous.
Print Assumptions interp_even_extends.

(* ------------------------------------------------------------------ *)
(* E2, closing the loop: the matrix entry IS s times the derivative of the cardinal kernel of node j at node i *)
Definition Keven' (n : nat) (u : R) : R :=
  / INR n * (rsum (n / 2 - 1) (fun k => 2 * INR (S k) * - sin (INR (S k) * u))
             + INR (n / 2) * - sin (INR (n / 2) * u)).

Lemma cos_lin_derive a c x : derivable_pt_lim (fun y => cos (a * (y - c))) x (a * - sin (a * (x - c))).
Proof.
  assert (L : derivable_pt_lim (fun y => a * (y - c)) x a).
  { assert (L0 : derivable_pt_lim (fun y => y - c) x (1 - 0)).
    { apply (derivable_pt_lim_minus id (fun _ => c)); [apply derivable_pt_lim_id|apply derivable_pt_lim_const]. }
    assert (L' : derivable_pt_lim (fun y => a * (y - c)) x (a * (1 - 0)))
      by (apply (derivable_pt_lim_scal (fun y => y - c) a x (1 - 0)); exact L0).
    replace (a * (1 - 0)) with a in L' by ring. exact L'. }
  replace (a * - sin (a * (x - c))) with (- sin (a * (x - c)) * a) by ring.
  apply (derivable_pt_lim_comp (fun y => a * (y - c)) cos); [exact L|apply derivable_pt_lim_cos].
Qed.

Theorem Keven_derive n c x : derivable_pt_lim (fun y => Keven n (y - c)) x (Keven' n (x - c)).
Proof.
  unfold Keven, Keven'.
  apply (derivable_pt_lim_scal
           (fun y => 1 + 2 * rsum (n / 2 - 1) (fun m => cos (INR (S m) * (y - c))) + cos (INR (n / 2) * (y - c)))
           (/ INR n)).
  apply (derivable_pt_lim_plus (fun y => 1 + 2 * rsum (n / 2 - 1) (fun m => cos (INR (S m) * (y - c))))
                               (fun y => cos (INR (n / 2) * (y - c)))); [|apply cos_lin_derive].
  replace (rsum (n / 2 - 1) (fun k => 2 * INR (S k) * - sin (INR (S k) * (x - c))))
    with (0 + 2 * rsum (n / 2 - 1) (fun k => INR (S k) * - sin (INR (S k) * (x - c)))).
  2:{ rewrite <- rsum_scal, Rplus_0_l. apply rsum_ext. intros k _. ring. }
  apply (derivable_pt_lim_plus (fun _ => 1) (fun y => 2 * rsum (n / 2 - 1) (fun m => cos (INR (S m) * (y - c))))).
  - apply derivable_pt_lim_const.
  - apply (derivable_pt_lim_scal (fun y => rsum (n / 2 - 1) (fun m => cos (INR (S m) * (y - c)))) 2).
    apply (rsum_derivable_pt_lim (n / 2 - 1) (fun m y => cos (INR (S m) * (y - c)))
             (fun m y => INR (S m) * - sin (INR (S m) * (y - c)))).
    intros k _. apply cos_lin_derive.
Qed.

Theorem Dspec_even_is_kernel_derivative n s i j : Nat.even n = true -> (i < n)%nat -> (j < n)%nat ->
  derivable_pt_lim (fun y => Keven n (y - xg n j)) (xg n i) (Keven' n (xg n i - xg n j)) /\
  Dspec_even n s i j = s * Keven' n (xg n i - xg n j).
Proof.
  intros He Hi Hj. split; [apply Keven_derive|].
  unfold Keven'. apply Dspec_even_kernel_nyq; assumption.
Qed.

Print Assumptions Keven_derive.
Print Assumptions Dspec_even_is_kernel_derivative.
