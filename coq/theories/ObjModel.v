(* ObjModel.v -- object model of pyQSC's Qsc DOF / resize / recalculation API.

   Mirrors /repo/qsc/qsc.py: __init__, change_nfourier, calculate, get_dofs,
   set_dofs (with np.copy of the slices, i.e. value semantics), _set_names.

   The model is generic in the entry type A (with a distinguished zero), in the
   type C of the remaining constructor arguments (nfp, sG, spsi, nphi, order)
   and in the type Out of "everything calculate() computes"; calculate() is an
   arbitrary function  calc : params -> Out  of the parameters only.

   No axioms: only List Arith Lia Bool String ZArith are used.               *)

From Coq Require Import Arith Lia Bool String ZArith List.
Import ListNotations.

Set Implicit Arguments.

(* ------------------------------------------------------------------------- *)
(** * 0. List lemmas                                                          *)
(* ------------------------------------------------------------------------- *)

Section ListLemmas.
  Variable T : Type.

  Lemma skipn_add : forall (a b : nat) (l : list T),
      skipn (a + b) l = skipn b (skipn a l).
  Proof.
    induction a as [|a IH]; intros b l; simpl.
    - reflexivity.
    - destruct l as [|x l].
      + now rewrite skipn_nil.
      + apply IH.
  Qed.

  Lemma firstn_app_exact : forall (n : nat) (l r : list T),
      length l = n -> firstn n (l ++ r) = l.
  Proof.
    intros n l r H. rewrite firstn_app, H, Nat.sub_diag. simpl.
    rewrite app_nil_r. apply firstn_all2. lia.
  Qed.

  Lemma skipn_app_exact : forall (n : nat) (l r : list T),
      length l = n -> skipn n (l ++ r) = r.
  Proof.
    intros n l r H. rewrite skipn_app, H, Nat.sub_diag. simpl.
    rewrite skipn_all2 by lia. reflexivity.
  Qed.

  Lemma nth_skipn_add : forall (k i : nat) (l : list T) (d : T),
      nth i (skipn k l) d = nth (k + i) l d.
  Proof.
    induction k as [|k IH]; intros i l d; simpl.
    - reflexivity.
    - destruct l as [|x l].
      + now destruct i.
      + apply IH.
  Qed.

  Lemma list7 : forall (l : list T) (d : T),
      length l = 7 ->
      l = [nth 0 l d; nth 1 l d; nth 2 l d; nth 3 l d; nth 4 l d; nth 5 l d; nth 6 l d].
  Proof.
    intros l d H.
    do 7 (destruct l as [|? l]; [discriminate H|]).
    destruct l; [reflexivity|discriminate H].
  Qed.

  Lemma nth_app_at : forall (l r : list T) (n k : nat) (d : T),
      length l = n -> nth (n + k) (l ++ r) d = nth k r d.
  Proof. intros l r n k d <-. apply app_nth2_plus. Qed.
End ListLemmas.

(* ------------------------------------------------------------------------- *)
(** * 1. Decimal rendering of naturals and the DOF names                      *)
(* ------------------------------------------------------------------------- *)

Definition digit (d : nat) : Ascii.ascii := Ascii.ascii_of_nat (48 + d).

(** [nat_to_string_fuel fuel n] is the usual decimal rendering of [n] (most
    significant digit first, no leading zeros, "0" for 0) whenever n < fuel. *)
Fixpoint nat_to_string_fuel (fuel n : nat) : string :=
  match fuel with
  | 0 => EmptyString
  | S f =>
      if n <? 10 then String (digit n) EmptyString
      else String.append (nat_to_string_fuel f (n / 10))
                         (String (digit (n mod 10)) EmptyString)
  end.

Definition nat_to_string (n : nat) : string := nat_to_string_fuel (S n) n.

(** 'pre(j)' -- Python's  '{pre}({})'.format(j) *)
Definition idx_name (pre : string) (j : nat) : string :=
  String.append pre (String.append "(" (String.append (nat_to_string j) ")")).

Definition idx_names (pre : string) (n : nat) : list string :=
  map (idx_name pre) (seq 0 n).

Definition scalar_names : list string :=
  ["etabar"; "sigma0"; "B2s"; "B2c"; "p2"; "I2"; "B0"]%string.

(** _set_names *)
Definition set_names (n : nat) : list string :=
  idx_names "rc" n ++ idx_names "zs" n ++ idx_names "rs" n ++ idx_names "zc" n
            ++ scalar_names.

Example set_names_2 :
  set_names 2 = ["rc(0)"; "rc(1)"; "zs(0)"; "zs(1)"; "rs(0)"; "rs(1)"; "zc(0)"; "zc(1)";
                 "etabar"; "sigma0"; "B2s"; "B2c"; "p2"; "I2"; "B0"]%string.
Proof. reflexivity. Qed.

Example nat_to_string_examples :
  map nat_to_string [0; 7; 10; 42; 100; 1234]
  = ["0"; "7"; "10"; "42"; "100"; "1234"]%string.
Proof. reflexivity. Qed.

Lemma idx_names_length : forall pre n, length (idx_names pre n) = n.
Proof. intros. unfold idx_names. now rewrite map_length, seq_length. Qed.

Lemma set_names_length : forall n, length (set_names n) = 4 * n + 7.
Proof.
  intros n. unfold set_names. rewrite !app_length, !idx_names_length.
  simpl. lia.
Qed.

Lemma idx_names_nth : forall pre n k d,
    k < n -> nth k (idx_names pre n) d = idx_name pre k.
Proof.
  intros pre n k d H. unfold idx_names.
  rewrite nth_indep with (d' := idx_name pre 0) by (now rewrite map_length, seq_length).
  rewrite map_nth, seq_nth by assumption. reflexivity.
Qed.

(** ** Injectivity of the decimal rendering (so the names are pairwise distinct) *)

Fixpoint sval (s : string) (a : nat) : nat :=
  match s with
  | EmptyString => a
  | String c r => sval r (a * 10 + (Ascii.nat_of_ascii c - 48))
  end.

Lemma sval_append : forall s t a, sval (String.append s t) a = sval t (sval s a).
Proof. induction s as [|c s IH]; intros t a; simpl; [reflexivity|apply IH]. Qed.

Lemma digit_val : forall d, d < 10 -> Ascii.nat_of_ascii (digit d) - 48 = d.
Proof.
  intros d H. unfold digit. rewrite Ascii.nat_ascii_embedding by lia. lia.
Qed.

Lemma sval_nat_to_string_fuel : forall fuel n,
    n < fuel -> sval (nat_to_string_fuel fuel n) 0 = n.
Proof.
  induction fuel as [|f IH]; intros n H; [lia|].
  cbn [nat_to_string_fuel].
  destruct (Nat.ltb_spec n 10) as [Hlt|Hge].
  - cbn [sval]. rewrite digit_val by assumption. lia.
  - rewrite sval_append. rewrite IH.
    + cbn [sval]. rewrite digit_val by (apply Nat.mod_upper_bound; lia).
      pose proof (Nat.div_mod n 10). lia.
    + assert (n / 10 < n) by (apply Nat.div_lt; lia). lia.
Qed.

Lemma nat_to_string_inj : forall m n, nat_to_string m = nat_to_string n -> m = n.
Proof.
  intros m n H.
  rewrite <- (sval_nat_to_string_fuel (fuel := S m) (n := m)) by lia.
  rewrite <- (sval_nat_to_string_fuel (fuel := S n) (n := n)) by lia.
  unfold nat_to_string in H. now rewrite H.
Qed.

Lemma string_append_inv_head : forall p s t,
    String.append p s = String.append p t -> s = t.
Proof.
  induction p as [|c p IH]; intros s t H; simpl in H; [assumption|].
  injection H as H. now apply IH.
Qed.

Lemma idx_name_inj : forall pre i j, idx_name pre i = idx_name pre j -> i = j.
Proof.
  intros pre i j H. unfold idx_name in H.
  apply string_append_inv_head in H. apply string_append_inv_head in H.
  apply nat_to_string_inj.
  (* right-cancel the trailing ")" *)
  revert H. generalize (nat_to_string i) (nat_to_string j).
  induction s as [|c s IH]; intros [|c' s'] H; simpl in H.
  - reflexivity.
  - injection H as _ H. destruct s'; discriminate H.
  - injection H as _ H. destruct s; discriminate H.
  - injection H as -> H. f_equal. now apply IH.
Qed.

(** ** The names are pairwise distinct *)

Lemma NoDup_map_inj : forall (X Y : Type) (f : X -> Y) (l : list X),
    (forall a b, f a = f b -> a = b) -> NoDup l -> NoDup (map f l).
Proof.
  intros X Y f l Hf H. induction H as [|a l Hn Hd IH]; cbn; constructor.
  - intros Hin. apply in_map_iff in Hin. destruct Hin as (b & E & Hb).
    apply Hf in E. now subst b.
  - exact IH.
Qed.

Lemma NoDup_app_intro : forall (X : Type) (l1 l2 : list X),
    NoDup l1 -> NoDup l2 -> (forall x, In x l1 -> In x l2 -> False) ->
    NoDup (l1 ++ l2).
Proof.
  intros X l1 l2 H1 H2 D. induction H1 as [|a l Hn Hd IH]; cbn; [assumption|].
  constructor.
  - intros Hin. apply in_app_or in Hin. destruct Hin as [Hin|Hin]; [now apply Hn|].
    apply (D a); [now left|assumption].
  - apply IH. intros x Hx. apply D. now right.
Qed.

Lemma NoDup_idx_names : forall pre n, NoDup (idx_names pre n).
Proof.
  intros pre n. unfold idx_names. apply NoDup_map_inj.
  - apply idx_name_inj.
  - apply seq_NoDup.
Qed.

Lemma in_idx_names : forall pre n x,
    In x (idx_names pre n) -> exists j, x = idx_name pre j.
Proof.
  intros pre n x H. unfold idx_names in H. apply in_map_iff in H.
  destruct H as (j & E & _). now exists j.
Qed.

Lemma NoDup_scalar_names : NoDup scalar_names.
Proof.
  unfold scalar_names.
  repeat (constructor; [cbn; intuition discriminate|]). constructor.
Qed.

Ltac names_clash :=
  repeat match goal with
         | H : In _ (_ ++ _) |- _ => apply in_app_or in H; destruct H as [H|H]
         | H : In _ (idx_names _ _) |- _ =>
             apply in_idx_names in H; destruct H as (? & H)
         end;
  try match goal with
      | H : In _ scalar_names |- _ =>
          cbn in H; repeat (destruct H as [H|H]; [|idtac]); try contradiction
      end;
  subst; unfold idx_name in *; cbn [String.append] in *;
  try discriminate; try congruence.

Theorem set_names_NoDup : forall n, NoDup (set_names n).
Proof.
  intros n. unfold set_names.
  repeat (apply NoDup_app_intro;
          [apply NoDup_idx_names| |intros x Hx Hy; names_clash]).
  apply NoDup_scalar_names.
Qed.
(* ------------------------------------------------------------------------- *)
(** * 2. The object model                                                     *)
(* ------------------------------------------------------------------------- *)

Section Obj.
  Variable A : Type.
  Variable zero : A.
  Variable Out : Type.        (* everything calculate() computes *)
  Variable C : Type.          (* remaining ctor args: nfp, sG, spsi, nphi, order *)

  Record params := mkParams {
    nf : nat;
    rc : list A; zs : list A; rs : list A; zc : list A;
    etabar : A; sigma0 : A; B2s : A; B2c : A; p2 : A; I2 : A; B0 : A;
    cfg : C }.

  Variable calc : params -> Out.     (* calculate(): a function of the parameters only *)

  Record state := mkState { par : params; out : Out; names : list string }.

  (** ** Operations *)

  (** z = np.zeros(n); z[:k] = l[:k]  with k = min n (len l) *)
  Definition pad_to (n : nat) (l : list A) : list A :=
    firstn n l ++ repeat zero (n - length l).

  (** Python slice x[a:b] *)
  Definition slice (a b : nat) (x : list A) : list A := firstn (b - a) (skipn a x).

  (** [resize p n]: pad/truncate the four coefficient arrays to length n. *)
  Definition resize (p : params) (n : nat) : params :=
    {| nf := n;
       rc := pad_to n (rc p); zs := pad_to n (zs p);
       rs := pad_to n (rs p); zc := pad_to n (zc p);
       etabar := etabar p; sigma0 := sigma0 p; B2s := B2s p; B2c := B2c p;
       p2 := p2 p; I2 := I2 p; B0 := B0 p; cfg := cfg p |}.

  Definition max4 (a b c d : nat) : nat := Nat.max (Nat.max a b) (Nat.max c d).

  (** Qsc.__init__ *)
  Definition init (rc0 zs0 rs0 zc0 : list A)
             (etabar0 sigma00 B2s0 B2c0 p20 I20 B00 : A) (cfg0 : C) : state :=
    let n := max4 (length rc0) (length zs0) (length rs0) (length zc0) in
    let p := {| nf := n;
                rc := pad_to n rc0; zs := pad_to n zs0;
                rs := pad_to n rs0; zc := pad_to n zc0;
                etabar := etabar0; sigma0 := sigma00; B2s := B2s0; B2c := B2c0;
                p2 := p20; I2 := I20; B0 := B00; cfg := cfg0 |} in
    {| par := p; out := calc p; names := set_names n |}.

  (** Qsc.get_dofs *)
  Definition get_dofs (s : state) : list A :=
    let p := par s in
    rc p ++ zs p ++ rs p ++ zc p
       ++ [etabar p; sigma0 p; B2s p; B2c p; p2 p; I2 p; B0 p].

  (** Qsc.set_dofs; None = the AssertionError *)
  Definition set_dofs (s : state) (x : list A) : option state :=
    let p := par s in
    let n := nf p in
    if length x =? n * 4 + 7 then
      let p' := {| nf := n;
                   rc := slice (n * 0) (n * 1) x;
                   zs := slice (n * 1) (n * 2) x;
                   rs := slice (n * 2) (n * 3) x;
                   zc := slice (n * 3) (n * 4) x;
                   etabar := nth (n * 4 + 0) x zero;
                   sigma0 := nth (n * 4 + 1) x zero;
                   B2s := nth (n * 4 + 2) x zero;
                   B2c := nth (n * 4 + 3) x zero;
                   p2 := nth (n * 4 + 4) x zero;
                   I2 := nth (n * 4 + 5) x zero;
                   B0 := nth (n * 4 + 6) x zero;
                   cfg := cfg p |} in
      Some {| par := p'; out := calc p'; names := names s |}
    else None.

  (** Qsc.change_nfourier: recalculates ONLY IF the resolution decreased *)
  Definition change_nfourier (s : state) (n : nat) : state :=
    let p' := resize (par s) n in
    {| par := p';
       out := if n <? nf (par s) then calc p' else out s;
       names := set_names n |}.

  (** Qsc.calculate *)
  Definition calculate (s : state) : state :=
    {| par := par s; out := calc (par s); names := names s |}.

  Inductive op := SetDofs (x : list A) | ChangeNf (n : nat) | Calculate | GetDofs.

  Definition step (s : state) (o : op) : state :=
    match o with
    | SetDofs x => match set_dofs s x with Some s' => s' | None => s end
    | ChangeNf n => change_nfourier s n
    | Calculate => calculate s
    | GetDofs => s
    end.

  Definition run_ops (s : state) (ops : list op) : state := fold_left step ops s.

  (** ** Basic facts on pad_to / slice *)

  Lemma pad_to_length : forall n l, length (pad_to n l) = n.
  Proof.
    intros n l. unfold pad_to. rewrite app_length, firstn_length, repeat_length. lia.
  Qed.

  Lemma pad_to_id : forall n l, length l = n -> pad_to n l = l.
  Proof.
    intros n l H. unfold pad_to. rewrite H, Nat.sub_diag. simpl.
    rewrite app_nil_r. apply firstn_all2. lia.
  Qed.

  Lemma pad_to_ge : forall n l,
      length l <= n -> pad_to n l = l ++ repeat zero (n - length l).
  Proof. intros n l H. unfold pad_to. now rewrite firstn_all2. Qed.

  Lemma pad_to_le : forall n l, n <= length l -> pad_to n l = firstn n l.
  Proof.
    intros n l H. unfold pad_to. replace (n - length l) with 0 by lia.
    simpl. apply app_nil_r.
  Qed.

  (** The literal form used in change_nfourier:
        index = min(nfourier, n); z = zeros(n); z[:index] = old[:index]      *)
  Lemma pad_to_min : forall m n l,
      length l = m ->
      pad_to n l = firstn (Nat.min m n) l ++ repeat zero (n - Nat.min m n).
  Proof.
    intros m n l H. unfold pad_to. rewrite H.
    destruct (Nat.le_ge_cases m n) as [L|L].
    - rewrite Nat.min_l by assumption.
      rewrite !firstn_all2 by lia. reflexivity.
    - rewrite Nat.min_r by assumption. replace (n - m) with 0 by lia.
      now rewrite Nat.sub_diag.
  Qed.

  Lemma slice_length : forall a b x,
      b <= length x -> length (slice a b x) = b - a.
  Proof.
    intros a b x H. unfold slice. rewrite firstn_length, skipn_length. lia.
  Qed.

  (** ** The invariant *)

  Definition wf (s : state) : Prop :=
    length (rc (par s)) = nf (par s) /\
    length (zs (par s)) = nf (par s) /\
    length (rs (par s)) = nf (par s) /\
    length (zc (par s)) = nf (par s) /\
    names s = set_names (nf (par s)).

  (** ** O1 *)

  Lemma wf_init : forall rc0 zs0 rs0 zc0 e s0 b2s b2c p i b c,
      wf (init rc0 zs0 rs0 zc0 e s0 b2s b2c p i b c).
  Proof.
    intros. unfold wf, init. cbn. rewrite !pad_to_length. auto.
  Qed.

  Lemma wf_set_dofs : forall s x s', wf s -> set_dofs s x = Some s' -> wf s'.
  Proof.
    intros s x s' (H1 & H2 & H3 & H4 & H5) H. unfold set_dofs in H.
    destruct (Nat.eqb_spec (length x) (nf (par s) * 4 + 7)) as [L|L]; [|discriminate].
    injection H as <-. unfold wf. cbn.
    rewrite !slice_length by lia. repeat split; try lia. assumption.
  Qed.

  Lemma wf_change_nfourier : forall s n, wf (change_nfourier s n).
  Proof.
    intros s n. unfold wf, change_nfourier. cbn. rewrite !pad_to_length. auto.
  Qed.

  Lemma wf_step : forall s o, wf s -> wf (step s o).
  Proof.
    intros s [x|n| |] H; cbn.
    - destruct (set_dofs s x) as [s'|] eqn:E; [eapply wf_set_dofs; eauto|assumption].
    - apply wf_change_nfourier.
    - exact H.
    - exact H.
  Qed.

  Lemma wf_run_ops : forall ops s, wf s -> wf (run_ops s ops).
  Proof.
    induction ops as [|o ops IH]; intros s H; cbn; [assumption|].
    apply IH, wf_step, H.
  Qed.

  Theorem wf_preserved :
    (forall rc0 zs0 rs0 zc0 e s0 b2s b2c p i b c,
        wf (init rc0 zs0 rs0 zc0 e s0 b2s b2c p i b c)) /\
    (forall s o, wf s -> wf (step s o)) /\
    (forall s ops, wf s -> wf (run_ops s ops)) /\
    (forall rc0 zs0 rs0 zc0 e s0 b2s b2c p i b c ops,
        wf (run_ops (init rc0 zs0 rs0 zc0 e s0 b2s b2c p i b c) ops)).
  Proof.
    split; [|split; [|split]].
    - apply wf_init.
    - apply wf_step.
    - intros; now apply wf_run_ops.
    - intros; apply wf_run_ops, wf_init.
  Qed.

  (** ** O2 *)

  Lemma get_dofs_length : forall s, wf s -> length (get_dofs s) = 4 * nf (par s) + 7.
  Proof.
    intros s (H1 & H2 & H3 & H4 & _). unfold get_dofs. cbn zeta.
    rewrite !app_length. cbn [length]. lia.
  Qed.

  (** Position-wise name of a DOF, as a function of (nf, position). *)
  Definition dof_name (n k : nat) : string :=
    if k <? n then idx_name "rc" k
    else if k <? 2 * n then idx_name "zs" (k - n)
    else if k <? 3 * n then idx_name "rs" (k - 2 * n)
    else if k <? 4 * n then idx_name "zc" (k - 3 * n)
    else nth (k - 4 * n) scalar_names EmptyString.

  (** Position-wise value of a DOF. *)
  Definition dof_value (p : params) (k : nat) : A :=
    let n := nf p in
    if k <? n then nth k (rc p) zero
    else if k <? 2 * n then nth (k - n) (zs p) zero
    else if k <? 3 * n then nth (k - 2 * n) (rs p) zero
    else if k <? 4 * n then nth (k - 3 * n) (zc p) zero
    else nth (k - 4 * n)
             [etabar p; sigma0 p; B2s p; B2c p; p2 p; I2 p; B0 p] zero.

  Lemma set_names_nth : forall n k,
      k < 4 * n + 7 -> nth k (set_names n) EmptyString = dof_name n k.
  Proof.
    intros n k Hk. unfold set_names, dof_name.
    destruct (Nat.ltb_spec k n) as [L1|L1].
    { rewrite app_nth1 by (now rewrite idx_names_length). now apply idx_names_nth. }
    replace k with (n + (k - n)) at 1 by lia.
    rewrite nth_app_at by apply idx_names_length.
    destruct (Nat.ltb_spec k (2 * n)) as [L2|L2].
    { rewrite app_nth1 by (rewrite idx_names_length; lia). apply idx_names_nth. lia. }
    replace (k - n) with (n + (k - 2 * n)) by lia.
    rewrite nth_app_at by apply idx_names_length.
    destruct (Nat.ltb_spec k (3 * n)) as [L3|L3].
    { rewrite app_nth1 by (rewrite idx_names_length; lia). apply idx_names_nth. lia. }
    replace (k - 2 * n) with (n + (k - 3 * n)) by lia.
    rewrite nth_app_at by apply idx_names_length.
    destruct (Nat.ltb_spec k (4 * n)) as [L4|L4].
    { rewrite app_nth1 by (rewrite idx_names_length; lia). apply idx_names_nth. lia. }
    replace (k - 3 * n) with (n + (k - 4 * n)) by lia.
    rewrite nth_app_at by apply idx_names_length.
    reflexivity.
  Qed.

  Lemma get_dofs_nth : forall s k,
      wf s -> nth k (get_dofs s) zero = dof_value (par s) k.
  Proof.
    intros s k (H1 & H2 & H3 & H4 & _). unfold get_dofs, dof_value. cbn zeta.
    set (n := nf (par s)) in *.
    destruct (Nat.ltb_spec k n) as [L1|L1].
    { now rewrite app_nth1 by lia. }
    replace k with (n + (k - n)) at 1 by lia.
    rewrite nth_app_at by assumption.
    destruct (Nat.ltb_spec k (2 * n)) as [L2|L2].
    { now rewrite app_nth1 by lia. }
    replace (k - n) with (n + (k - 2 * n)) by lia.
    rewrite nth_app_at by assumption.
    destruct (Nat.ltb_spec k (3 * n)) as [L3|L3].
    { now rewrite app_nth1 by lia. }
    replace (k - 2 * n) with (n + (k - 3 * n)) by lia.
    rewrite nth_app_at by assumption.
    destruct (Nat.ltb_spec k (4 * n)) as [L4|L4].
    { now rewrite app_nth1 by lia. }
    replace (k - 3 * n) with (n + (k - 4 * n)) by lia.
    rewrite nth_app_at by assumption.
    reflexivity.
  Qed.

  (** O2: names and DOF vector have the same length 4*nf+7, the k-th name is
      [dof_name nf k] and the k-th DOF is [dof_value par k]; spelled out:
      block j in {rc,zs,rs,zc} occupies positions j*nf .. j*nf+nf-1 in BOTH
      lists and the last seven positions are the scalars in the same order.  *)
  Theorem names_dofs_aligned : forall s, wf s ->
      let n := nf (par s) in let p := par s in
      length (names s) = 4 * n + 7 /\
      length (get_dofs s) = 4 * n + 7 /\
      names s = map (dof_name n) (seq 0 (4 * n + 7)) /\
      get_dofs s = map (dof_value p) (seq 0 (4 * n + 7)) /\
      (forall k, k < n ->
         nth k (names s) EmptyString = idx_name "rc" k /\
         nth k (get_dofs s) zero = nth k (rc p) zero) /\
      (forall k, k < n ->
         nth (n + k) (names s) EmptyString = idx_name "zs" k /\
         nth (n + k) (get_dofs s) zero = nth k (zs p) zero) /\
      (forall k, k < n ->
         nth (2 * n + k) (names s) EmptyString = idx_name "rs" k /\
         nth (2 * n + k) (get_dofs s) zero = nth k (rs p) zero) /\
      (forall k, k < n ->
         nth (3 * n + k) (names s) EmptyString = idx_name "zc" k /\
         nth (3 * n + k) (get_dofs s) zero = nth k (zc p) zero) /\
      skipn (4 * n) (names s)
        = ["etabar"; "sigma0"; "B2s"; "B2c"; "p2"; "I2"; "B0"]%string /\
      skipn (4 * n) (get_dofs s)
        = [etabar p; sigma0 p; B2s p; B2c p; p2 p; I2 p; B0 p].
  Proof.
    intros s W n p. pose proof W as (H1 & H2 & H3 & H4 & H5).
    fold n in H1, H2, H3, H4, H5. fold p in H1, H2, H3, H4.
    assert (Ln : length (names s) = 4 * n + 7) by (rewrite H5; apply set_names_length).
    assert (Ld : length (get_dofs s) = 4 * n + 7) by (now apply get_dofs_length).
    assert (Nn : forall k, k < 4 * n + 7 -> nth k (names s) EmptyString = dof_name n k).
    { intros k Hk. rewrite H5. now apply set_names_nth. }
    assert (Nd : forall k, nth k (get_dofs s) zero = dof_value p k).
    { intros k. now apply get_dofs_nth. }
    split; [exact Ln|]. split; [exact Ld|].
    split.
    { apply nth_ext with (d := EmptyString) (d' := dof_name n 0).
      - now rewrite map_length, seq_length.
      - intros k Hk. rewrite Ln in Hk. rewrite map_nth, seq_nth by assumption.
        now apply Nn. }
    split.
    { apply nth_ext with (d := zero) (d' := dof_value p 0).
      - now rewrite map_length, seq_length.
      - intros k Hk. rewrite Ld in Hk. rewrite map_nth, seq_nth by assumption.
        apply Nd. }
    split.
    { intros k Hk. rewrite Nn, Nd by lia. unfold dof_name, dof_value. cbn zeta. change (nf p) with n.
      destruct (Nat.ltb_spec k n); [auto|lia]. }
    split.
    { intros k Hk. rewrite Nn, Nd by lia. unfold dof_name, dof_value. cbn zeta. change (nf p) with n.
      destruct (Nat.ltb_spec (n + k) n); [lia|].
      destruct (Nat.ltb_spec (n + k) (2 * n)); [|lia].
      replace (n + k - n) with k by lia. auto. }
    split.
    { intros k Hk. rewrite Nn, Nd by lia. unfold dof_name, dof_value. cbn zeta. change (nf p) with n.
      destruct (Nat.ltb_spec (2 * n + k) n); [lia|].
      destruct (Nat.ltb_spec (2 * n + k) (2 * n)); [lia|].
      destruct (Nat.ltb_spec (2 * n + k) (3 * n)); [|lia].
      replace (2 * n + k - 2 * n) with k by lia. auto. }
    split.
    { intros k Hk. rewrite Nn, Nd by lia. unfold dof_name, dof_value. cbn zeta. change (nf p) with n.
      destruct (Nat.ltb_spec (3 * n + k) n); [lia|].
      destruct (Nat.ltb_spec (3 * n + k) (2 * n)); [lia|].
      destruct (Nat.ltb_spec (3 * n + k) (3 * n)); [lia|].
      destruct (Nat.ltb_spec (3 * n + k) (4 * n)); [|lia].
      replace (3 * n + k - 3 * n) with k by lia. auto. }
    split.
    { rewrite H5. unfold set_names.
      replace (4 * n) with (n + (n + (n + n))) by lia.
      rewrite !skipn_add.
      rewrite !skipn_app_exact by apply idx_names_length. reflexivity. }
    { unfold get_dofs. cbn zeta. fold p.
      replace (4 * n) with (n + (n + (n + n))) by lia.
      rewrite !skipn_add.
      rewrite !skipn_app_exact by assumption. reflexivity. }
  Qed.

  (** ** O3 *)

  Theorem set_get_id : forall s, wf s ->
      exists s', set_dofs s (get_dofs s) = Some s' /\
                 par s' = par s /\ out s' = calc (par s) /\ names s' = names s.
  Proof.
    intros s W. pose proof (get_dofs_length W) as L.
    destruct W as (H1 & H2 & H3 & H4 & H5).
    unfold set_dofs.
    replace (length (get_dofs s) =? nf (par s) * 4 + 7) with true
      by (symmetry; apply Nat.eqb_eq; lia).
    eexists. split; [reflexivity|].
    cbn [par out names].
    set (n := nf (par s)) in *.
    match goal with |- ?P = _ /\ _ => assert (E : P = par s) end.
    { unfold slice, get_dofs. cbn zeta.
      replace (n * 0) with 0 by lia.
      replace (n * 1 - 0) with n by lia.
      replace (n * 2 - n * 1) with n by lia.
      replace (n * 3 - n * 2) with n by lia.
      replace (n * 4 - n * 3) with n by lia.
      replace (n * 1) with n by lia.
      replace (n * 2) with (n + n) by lia.
      replace (n * 3) with (n + (n + n)) by lia.
      replace (n * 4) with (n + (n + (n + n))) by lia.
      rewrite <- !Nat.add_assoc.
      rewrite !skipn_add. cbn [skipn].
      rewrite !nth_app_at by assumption.
      rewrite !skipn_app_exact by assumption.
      rewrite !firstn_app_exact by assumption.
      cbn [nth Nat.add].
      subst n. destruct (par s). cbn in *. subst. reflexivity. }
    rewrite E. auto.
  Qed.

  (** ** O4 *)

  Lemma split_dofs : forall n (x : list A),
      length x = n * 4 + 7 ->
      x = slice (n * 0) (n * 1) x ++ slice (n * 1) (n * 2) x
          ++ slice (n * 2) (n * 3) x ++ slice (n * 3) (n * 4) x
          ++ [nth (n * 4 + 0) x zero; nth (n * 4 + 1) x zero; nth (n * 4 + 2) x zero;
              nth (n * 4 + 3) x zero; nth (n * 4 + 4) x zero; nth (n * 4 + 5) x zero;
              nth (n * 4 + 6) x zero].
  Proof.
    intros n x L. unfold slice.
    replace (n * 0) with 0 by lia.
    replace (n * 1 - 0) with n by lia.
    replace (n * 2 - n * 1) with n by lia.
    replace (n * 3 - n * 2) with n by lia.
    replace (n * 4 - n * 3) with n by lia.
    replace (n * 1) with n by lia.
    replace (n * 2) with (n + n) by lia.
    replace (n * 3) with (n + n + n) by lia.
    replace (n * 4) with (n + n + n + n) by lia.
    rewrite <- !nth_skipn_add.
    rewrite !skipn_add. cbn [skipn].
    set (x1 := skipn n x). set (x2 := skipn n x1). set (x3 := skipn n x2).
    set (x4 := skipn n x3).
    assert (L4 : length x4 = 7).
    { subst x4 x3 x2 x1. rewrite !skipn_length. lia. }
    rewrite <- (list7 x4 zero L4).
    subst x4. rewrite firstn_skipn.
    subst x3. rewrite firstn_skipn.
    subst x2. rewrite firstn_skipn.
    subst x1. now rewrite firstn_skipn.
  Qed.

  Theorem get_set_id : forall s x s',
      length x = 4 * nf (par s) + 7 -> set_dofs s x = Some s' -> get_dofs s' = x.
  Proof.
    intros s x s' L H. unfold set_dofs in H.
    destruct (Nat.eqb_spec (length x) (nf (par s) * 4 + 7)) as [L'|L']; [|discriminate].
    injection H as <-. unfold get_dofs. cbn.
    symmetry. now apply split_dofs.
  Qed.

  (** set_dofs succeeds exactly when the length is right (the assert). *)
  Lemma set_dofs_some_iff : forall s x,
      (exists s', set_dofs s x = Some s') <-> length x = 4 * nf (par s) + 7.
  Proof.
    intros s x. unfold set_dofs.
    destruct (Nat.eqb_spec (length x) (nf (par s) * 4 + 7)) as [L|L]; split.
    - intros _. lia.
    - intros _. eexists. reflexivity.
    - intros [s' H]. discriminate.
    - intros H. lia.
  Qed.

  (** ** O6 *)

  Theorem init_pads : forall rc0 zs0 rs0 zc0 e s0 b2s b2c p i b c,
      let s := init rc0 zs0 rs0 zc0 e s0 b2s b2c p i b c in
      let n := max4 (length rc0) (length zs0) (length rs0) (length zc0) in
      nf (par s) = n /\
      rc (par s) = rc0 ++ repeat zero (n - length rc0) /\
      zs (par s) = zs0 ++ repeat zero (n - length zs0) /\
      rs (par s) = rs0 ++ repeat zero (n - length rs0) /\
      zc (par s) = zc0 ++ repeat zero (n - length zc0) /\
      etabar (par s) = e /\ sigma0 (par s) = s0 /\ B2s (par s) = b2s /\
      B2c (par s) = b2c /\ p2 (par s) = p /\ I2 (par s) = i /\ B0 (par s) = b /\
      cfg (par s) = c /\
      names s = set_names n /\ out s = calc (par s).
  Proof.
    intros. subst s. unfold init. cbn. fold n.
    assert (length rc0 <= n /\ length zs0 <= n /\ length rs0 <= n /\ length zc0 <= n)
      as (G1 & G2 & G3 & G4) by (unfold n, max4; lia).
    rewrite !pad_to_ge by assumption.
    repeat split; reflexivity.
  Qed.

  (** ** O5 *)

  (** The state a freshly constructed object with parameters p would have. *)
  Definition fresh (p : params) : state :=
    init (rc p) (zs p) (rs p) (zc p)
         (etabar p) (sigma0 p) (B2s p) (B2c p) (p2 p) (I2 p) (B0 p) (cfg p).

  Definition wfp (p : params) : Prop :=
    length (rc p) = nf p /\ length (zs p) = nf p /\
    length (rs p) = nf p /\ length (zc p) = nf p.

  Lemma wf_wfp : forall s, wf s -> wfp (par s).
  Proof. intros s (H1 & H2 & H3 & H4 & _). repeat split; assumption. Qed.

  Lemma resize_id : forall p, wfp p -> resize p (nf p) = p.
  Proof.
    intros p (H1 & H2 & H3 & H4). unfold resize.
    rewrite !pad_to_id by assumption. destruct p; reflexivity.
  Qed.

  Lemma fresh_par : forall p, wfp p -> par (fresh p) = p.
  Proof.
    intros p (H1 & H2 & H3 & H4). unfold fresh, init. cbn [par].
    rewrite H1, H2, H3, H4. unfold max4. rewrite !Nat.max_id.
    rewrite <- H1 at 2. rewrite <- H2 at 2. rewrite <- H3 at 2. rewrite <- H4 at 2.
    rewrite !pad_to_id by reflexivity.
    destruct p; cbn in *. reflexivity.
  Qed.

  (** A well-formed state whose outputs are up to date IS the fresh state. *)
  Lemma fresh_eq : forall s, wf s -> out s = calc (par s) -> s = fresh (par s).
  Proof.
    intros s W O. pose proof (fresh_par (wf_wfp W)) as P.
    destruct W as (H1 & H2 & H3 & H4 & H5).
    destruct s as [p o nm]. cbn in *. subst o nm.
    unfold fresh, init in *. cbn [par] in P.
    rewrite P.
    rewrite H1, H2, H3, H4. unfold max4. rewrite !Nat.max_id. reflexivity.
  Qed.

  (** Up-to-date-ness of the outputs. *)
  Definition synced (s : state) : Prop := out s = calc (par s).

  Lemma synced_init : forall rc0 zs0 rs0 zc0 e s0 b2s b2c p i b c,
      synced (init rc0 zs0 rs0 zc0 e s0 b2s b2c p i b c).
  Proof. intros. reflexivity. Qed.

  Section WithPaddingInvariance.
    (** Zero-padding the four coefficient arrays does not change the outputs.
        (Only needed for well-formed p; the unrestricted form asked for in the
        brief implies this one, see [history_fresh] below.) *)
    Hypothesis calc_pad_wf :
      forall p n, wfp p -> nf p <= n -> calc (resize p n) = calc p.

    Lemma synced_step : forall s o, wf s -> synced s -> synced (step s o).
    Proof.
      intros s [x|n| |] W S; cbn.
      - unfold set_dofs.
        destruct (length x =? nf (par s) * 4 + 7); [reflexivity|assumption].
      - unfold synced, change_nfourier. cbn [out par].
        destruct (Nat.ltb_spec n (nf (par s))) as [L|L]; [reflexivity|].
        rewrite S. symmetry. apply calc_pad_wf; [now apply wf_wfp|assumption].
      - reflexivity.
      - assumption.
    Qed.

    Lemma synced_run_ops : forall ops s, wf s -> synced s -> synced (run_ops s ops).
    Proof.
      induction ops as [|o ops IH]; intros s W S; cbn; [assumption|].
      apply IH; [now apply wf_step|now apply synced_step].
    Qed.

    Theorem history_fresh_wf :
      forall rc0 zs0 rs0 zc0 e s0 b2s b2c p i b c (ops : list op),
        let s := run_ops (init rc0 zs0 rs0 zc0 e s0 b2s b2c p i b c) ops in
        out s = calc (par s) /\ s = fresh (par s).
    Proof.
      intros.
      assert (W : wf s) by (apply wf_run_ops, wf_init).
      assert (S : synced s) by (apply synced_run_ops; [apply wf_init|apply synced_init]).
      split; [exact S|now apply fresh_eq].
    Qed.
  End WithPaddingInvariance.

  (** O5, in the form of the brief. *)
  Theorem history_fresh :
    (forall p n, nf p <= n -> calc (resize p n) = calc p) ->
    forall rc0 zs0 rs0 zc0 e s0 b2s b2c p i b c (ops : list op),
      let s := run_ops (init rc0 zs0 rs0 zc0 e s0 b2s b2c p i b c) ops in
      out s = calc (par s) /\ s = fresh (par s).
  Proof.
    intros calc_pad. apply history_fresh_wf. intros p n _ L. now apply calc_pad.
  Qed.

  (** Variant WITHOUT padding invariance: histories in which no ChangeNf
      strictly increases the current nfourier. *)
  Fixpoint no_grow (s : state) (ops : list op) : Prop :=
    match ops with
    | [] => True
    | o :: r =>
        match o with ChangeNf n => n <= nf (par s) | _ => True end
        /\ no_grow (step s o) r
    end.

  Lemma synced_step_no_grow : forall s o,
      wf s -> synced s ->
      match o with ChangeNf n => n <= nf (par s) | _ => True end ->
      synced (step s o).
  Proof.
    intros s [x|n| |] W S G; cbn.
    - unfold set_dofs.
      destruct (length x =? nf (par s) * 4 + 7); [reflexivity|assumption].
    - unfold synced, change_nfourier. cbn [out par].
      destruct (Nat.ltb_spec n (nf (par s))) as [L|L]; [reflexivity|].
      assert (n = nf (par s)) by lia. subst n.
      rewrite resize_id by (now apply wf_wfp). exact S.
    - reflexivity.
    - assumption.
  Qed.

  Theorem history_fresh_no_grow :
    forall rc0 zs0 rs0 zc0 e s0 b2s b2c p i b c (ops : list op),
      let s0' := init rc0 zs0 rs0 zc0 e s0 b2s b2c p i b c in
      no_grow s0' ops ->
      let s := run_ops s0' ops in
      out s = calc (par s) /\ s = fresh (par s).
  Proof.
    intros until ops. intros s0' G s.
    assert (W0 : wf s0') by apply wf_init.
    assert (S0 : synced s0') by apply synced_init.
    assert (W : wf s) by (now apply wf_run_ops).
    assert (S : synced s).
    { subst s. clearbody s0'. revert s0' G W0 S0 W.
      induction ops as [|o ops IH]; intros s1 G W1 S1 W; cbn in *; [assumption|].
      destruct G as [G1 G2].
      apply IH; [assumption|now apply wf_step|now apply synced_step_no_grow|assumption]. }
    split; [exact S|now apply fresh_eq].
  Qed.

  (** Names of a well-formed state are pairwise distinct. *)
  Corollary names_NoDup : forall s, wf s -> NoDup (names s).
  Proof. intros s (_ & _ & _ & _ & H). rewrite H. apply set_names_NoDup. Qed.

  Lemma pad_to_pad_to : forall m n l,
      length l <= m -> m <= n -> pad_to n (pad_to m l) = pad_to n l.
  Proof.
    intros m n l H1 H2.
    rewrite (@pad_to_ge m l) by assumption.
    rewrite (@pad_to_ge n l) by lia.
    rewrite pad_to_ge by (rewrite app_length, repeat_length; lia).
    rewrite app_length, repeat_length, <- app_assoc, <- repeat_app.
    f_equal. f_equal. lia.
  Qed.

  Lemma resize_resize_grow : forall p m n,
      wfp p -> nf p <= m -> m <= n -> resize (resize p m) n = resize p n.
  Proof.
    intros p m n (H1 & H2 & H3 & H4) L1 L2. unfold resize. cbn.
    rewrite !pad_to_pad_to by lia. reflexivity.
  Qed.

  Lemma wfp_resize : forall p n, wfp (resize p n).
  Proof. intros p n. unfold wfp, resize. cbn. rewrite !pad_to_length. auto. Qed.

  (** Converse: if the outputs are up to date after EVERY history, then calc
      is invariant under zero-padding of well-formed parameters.  Hence the
      "no need to recalculate if we increased" shortcut of change_nfourier is
      sound EXACTLY when calculate() is padding-invariant.                    *)
  Theorem calc_pad_necessary :
    (forall rc0 zs0 rs0 zc0 e s0 b2s b2c p i b c (ops : list op),
        let s := run_ops (init rc0 zs0 rs0 zc0 e s0 b2s b2c p i b c) ops in
        out s = calc (par s)) ->
    forall p n, wfp p -> nf p <= n -> calc (resize p n) = calc p.
  Proof.
    intros H p n W L.
    specialize (H (rc p) (zs p) (rs p) (zc p) (etabar p) (sigma0 p) (B2s p) (B2c p)
                  (p2 p) (I2 p) (B0 p) (cfg p) [ChangeNf n]).
    fold (fresh p) in H. cbn [run_ops fold_left step] in H.
    unfold change_nfourier in H. cbn [out par] in H.
    rewrite (fresh_par W) in H.
    destruct (Nat.ltb_spec n (nf p)) as [L'|L']; [lia|].
    rewrite <- H. unfold fresh, init. cbn [out]. fold (fresh p).
    change (calc (par (fresh p)) = calc p). now rewrite fresh_par.
  Qed.

End Obj.

Print Assumptions wf_preserved.
Print Assumptions names_dofs_aligned.
Print Assumptions set_get_id.
Print Assumptions get_set_id.
Print Assumptions init_pads.
Print Assumptions history_fresh_wf.
Print Assumptions history_fresh.
Print Assumptions history_fresh_no_grow.
Print Assumptions nat_to_string_inj.
Print Assumptions idx_name_inj.
Print Assumptions set_names_NoDup.
Print Assumptions names_NoDup.
Print Assumptions calc_pad_necessary.

(* ------------------------------------------------------------------------- *)
(** * 3. Padding invariance is really needed                                  *)
(* ------------------------------------------------------------------------- *)

(** A calc that looks at nfourier is NOT padding invariant, and then the
    "no need to recalculate if we increased" shortcut leaves stale outputs.  *)
Definition calc_nf (p : params nat unit) : nat := nf p.

Definition cex_state : state nat nat unit :=
  run_ops 0 calc_nf (init 0 calc_nf [1] [] [] [] 0 0 0 0 0 0 0 tt) [ChangeNf nat 2].

Example calc_pad_needed :
  out cex_state = 1 /\
  calc_nf (par cex_state) = 2 /\
  out cex_state <> calc_nf (par cex_state) /\
  ~ (forall p n, nf p <= n -> calc_nf (resize 0 p n) = calc_nf p) /\
  (* an explicit calculate() repairs it *)
  (let s := step 0 calc_nf cex_state (Calculate nat) in out s = calc_nf (par s)).
Proof.
  split; [reflexivity|]. split; [reflexivity|]. split; [discriminate|].
  split; [|reflexivity].
  intros H.
  specialize (H (par (init 0 calc_nf [1] [] [] [] 0 0 0 0 0 0 0 tt)) 2).
  cbn in H. specialize (H ltac:(lia)). discriminate H.
Qed.
Print Assumptions calc_pad_needed.

(* ------------------------------------------------------------------------- *)
(** * 4. Executable instance for the correspondence check (O7)                *)
(* ------------------------------------------------------------------------- *)

(** A := Z, zero := 0, C := unit, Out := params and calc := identity, so that
    [out s] records WHICH PARAMETERS THE LAST calculate() SAW.               *)

Definition paramsZ := params Z unit.
Definition calcZ (p : paramsZ) : paramsZ := p.
Definition stateZ := state Z paramsZ unit.
Definition opZ := op Z.

(** [scal] = the seven scalars in get_dofs order:
      [etabar; sigma0; B2s; B2c; p2; I2; B0]   (missing entries default to 0). *)
Definition initZ (rc0 zs0 rs0 zc0 : list Z) (scal : list Z) : stateZ :=
  init 0%Z calcZ rc0 zs0 rs0 zc0
       (nth 0 scal 0%Z) (nth 1 scal 0%Z) (nth 2 scal 0%Z) (nth 3 scal 0%Z)
       (nth 4 scal 0%Z) (nth 5 scal 0%Z) (nth 6 scal 0%Z) tt.

Fixpoint listZ_eqb (a b : list Z) : bool :=
  match a, b with
  | [], [] => true
  | x :: a', y :: b' => Z.eqb x y && listZ_eqb a' b'
  | _, _ => false
  end.

Definition paramsZ_eqb (p q : paramsZ) : bool :=
  (nf p =? nf q) && listZ_eqb (rc p) (rc q) && listZ_eqb (zs p) (zs q)
  && listZ_eqb (rs p) (rs q) && listZ_eqb (zc p) (zc q)
  && Z.eqb (etabar p) (etabar q) && Z.eqb (sigma0 p) (sigma0 q)
  && Z.eqb (B2s p) (B2s q) && Z.eqb (B2c p) (B2c q) && Z.eqb (p2 p) (p2 q)
  && Z.eqb (I2 p) (I2 q) && Z.eqb (B0 p) (B0 q).

(** "out = calc par up to padding": the parameters seen by the last
    calculate() were no longer than the current ones, and zero-padding them
    to the current nfourier gives exactly the current parameters.            *)
Definition synced_up_to_padding (s : stateZ) : bool :=
  (nf (out s) <=? nf (par s))
  && paramsZ_eqb (resize 0%Z (out s) (nf (par s))) (par s).

(** States after each op (excluding the initial one). *)
Fixpoint states_after (s : stateZ) (ops : list opZ) : list stateZ :=
  match ops with
  | [] => []
  | o :: r => let s' := step 0%Z calcZ s o in s' :: states_after s' r
  end.

Definition observe (s : stateZ) : nat * list Z * bool :=
  (nf (par s), get_dofs s, synced_up_to_padding s).

(** Observation right after __init__. *)
Definition init_trace (rc0 zs0 rs0 zc0 scal : list Z) : nat * list Z * bool :=
  observe (initZ rc0 zs0 rs0 zc0 scal).

(** After each op: (nfourier, get_dofs(), out-in-sync-up-to-padding flag).
    Replay in Python:  q = Qsc(rc, zs, rs, zc, etabar=scal[0], sigma0=scal[1],
    B2s=scal[2], B2c=scal[3], p2=scal[4], I2=scal[5], B0=scal[6], ...), then for
    each op: SetDofs x -> q.set_dofs(x) (AssertionError expected and state
    unchanged iff len(x) != 4*nfourier+7, see [run_trace_accepted]);
    ChangeNf n -> q.change_nfourier(n); Calculate -> q.calculate();
    GetDofs -> q.get_dofs();  and compare (q.nfourier, q.get_dofs()).          *)
Definition run_trace (rc0 zs0 rs0 zc0 : list Z) (scal : list Z) (ops : list opZ)
  : list (nat * list Z * bool) :=
  map observe (states_after (initZ rc0 zs0 rs0 zc0 scal) ops).

(** q.names after each op. *)
Definition run_trace_names (rc0 zs0 rs0 zc0 : list Z) (scal : list Z) (ops : list opZ)
  : list (list string) :=
  map (fun s : stateZ => names s) (states_after (initZ rc0 zs0 rs0 zc0 scal) ops).

(** For each op, whether it is accepted (false = set_dofs' AssertionError). *)
Fixpoint accepted_from (s : stateZ) (ops : list opZ) : list bool :=
  match ops with
  | [] => []
  | o :: r =>
      (match o with
       | SetDofs x => match set_dofs 0%Z calcZ s x with Some _ => true | None => false end
       | _ => true
       end) :: accepted_from (step 0%Z calcZ s o) r
  end.

Definition run_trace_accepted (rc0 zs0 rs0 zc0 : list Z) (scal : list Z) (ops : list opZ)
  : list bool :=
  accepted_from (initZ rc0 zs0 rs0 zc0 scal) ops.

(** ** The flag is always true (for calc := id the shortcut is sound "up to padding") *)

Lemma listZ_eqb_refl : forall a, listZ_eqb a a = true.
Proof. induction a as [|x a IH]; cbn; [reflexivity|]. now rewrite Z.eqb_refl, IH. Qed.

Lemma paramsZ_eqb_refl : forall p, paramsZ_eqb p p = true.
Proof.
  intros p. unfold paramsZ_eqb.
  now rewrite Nat.eqb_refl, !listZ_eqb_refl, !Z.eqb_refl.
Qed.

Definition invZ (s : stateZ) : Prop :=
  wf s /\ wfp (out s) /\ nf (out s) <= nf (par s) /\
  resize 0%Z (out s) (nf (par s)) = par s.

Lemma invZ_fresh_out : forall s : stateZ, wf s -> out s = par s -> invZ s.
Proof.
  intros s W E. unfold invZ. rewrite E.
  pose proof (wf_wfp W) as Wp.
  split; [exact W|]. split; [exact Wp|]. split; [lia|].
  now apply resize_id.
Qed.

Lemma invZ_init : forall rc0 zs0 rs0 zc0 scal, invZ (initZ rc0 zs0 rs0 zc0 scal).
Proof. intros. apply invZ_fresh_out; [apply wf_init|reflexivity]. Qed.

Lemma invZ_step : forall (s : stateZ) (o : opZ), invZ s -> invZ (step 0%Z calcZ s o).
Proof.
  intros s o I. pose proof I as (W & Wo & L & E).
  assert (W' : wf (step 0%Z calcZ s o)) by (now apply wf_step).
  destruct o as [x|n| |]; cbn [step] in *.
  - destruct (set_dofs 0%Z calcZ s x) as [s'|] eqn:Es; [|exact I].
    apply invZ_fresh_out; [assumption|].
    unfold set_dofs in Es.
    destruct (length x =? nf (par s) * 4 + 7); [|discriminate].
    injection Es as <-. reflexivity.
  - destruct (Nat.ltb_spec n (nf (par s))) as [Ln|Ln].
    + apply invZ_fresh_out; [assumption|].
      unfold change_nfourier. cbn [out par].
      destruct (Nat.ltb_spec n (nf (par s))); [reflexivity|lia].
    + unfold invZ. split; [assumption|].
      unfold change_nfourier in *. cbn [out par] in *.
      destruct (Nat.ltb_spec n (nf (par s))); [lia|].
      split; [assumption|]. split; [cbn; lia|].
      cbn [nf resize]. rewrite <- E.
      symmetry. apply resize_resize_grow; [assumption|lia|lia].
  - apply invZ_fresh_out; [assumption|reflexivity].
  - exact I.
Qed.

Lemma invZ_flag : forall s, invZ s -> synced_up_to_padding s = true.
Proof.
  intros s (_ & _ & L & E). unfold synced_up_to_padding.
  rewrite E, paramsZ_eqb_refl. apply Nat.leb_le in L. now rewrite L.
Qed.

Theorem run_trace_flags_true : forall rc0 zs0 rs0 zc0 scal ops,
    Forall (fun t : nat * list Z * bool => snd t = true)
           (run_trace rc0 zs0 rs0 zc0 scal ops).
Proof.
  intros. unfold run_trace.
  pose proof (invZ_init rc0 zs0 rs0 zc0 scal) as I.
  generalize dependent (initZ rc0 zs0 rs0 zc0 scal).
  induction ops as [|o ops IH]; intros s I; cbn; constructor.
  - cbn. apply invZ_flag, invZ_step, I.
  - apply IH, invZ_step, I.
Qed.
Print Assumptions run_trace_flags_true.

(** The trace agrees with the generic semantics. *)
Lemma last_cons_default : forall (T : Type) (l : list T) (a d : T),
    last (a :: l) d = last l a.
Proof.
  induction l as [|b l IH]; intros a d; [reflexivity|].
  change (last (a :: b :: l) d) with (last (b :: l) d).
  now rewrite !IH.
Qed.

Lemma last_map : forall (T U : Type) (f : T -> U) (l : list T) (d : T),
    last (map f l) (f d) = f (last l d).
Proof.
  induction l as [|a l IH]; intros d; [reflexivity|].
  cbn [map]. now rewrite !last_cons_default, IH.
Qed.

Lemma states_after_last : forall ops s,
    last (states_after s ops) s = run_ops 0%Z calcZ s ops.
Proof.
  induction ops as [|o ops IH]; intros s; [reflexivity|].
  cbn [states_after run_ops fold_left]. rewrite last_cons_default. apply IH.
Qed.

Lemma run_trace_last : forall rc0 zs0 rs0 zc0 scal ops,
    last (run_trace rc0 zs0 rs0 zc0 scal ops) (init_trace rc0 zs0 rs0 zc0 scal)
    = observe (run_ops 0%Z calcZ (initZ rc0 zs0 rs0 zc0 scal) ops).
Proof.
  intros. unfold run_trace, init_trace. now rewrite last_map, states_after_last.
Qed.
Print Assumptions run_trace_last.

(** ** Smoke test *)

Definition demo_ops : list opZ :=
  [ GetDofs Z;
    ChangeNf Z 3;                                  (* grow: no recalculation *)
    SetDofs [1;2;3; 4;5;6; 7;8;9; 10;11;12; 13;14;15;16;17;18;19]%Z;
    SetDofs [1;2;3]%Z;                             (* AssertionError: ignored *)
    ChangeNf Z 1;                                  (* shrink: recalculation  *)
    Calculate Z;
    ChangeNf Z 2 ].

Eval vm_compute in init_trace [1; 5]%Z [0; 7]%Z [] [9]%Z [11;12;13;14;15;16;17]%Z.
Eval vm_compute in run_trace [1; 5]%Z [0; 7]%Z [] [9]%Z [11;12;13;14;15;16;17]%Z demo_ops.
Eval vm_compute in run_trace_accepted [1; 5]%Z [0; 7]%Z [] [9]%Z [11;12;13;14;15;16;17]%Z demo_ops.
Eval vm_compute in run_trace_names [1; 5]%Z [0; 7]%Z [] [9]%Z [11;12;13;14;15;16;17]%Z
                                   [ChangeNf Z 1; ChangeNf Z 11].

Example demo_trace_check :
  run_trace [1; 5]%Z [0; 7]%Z [] [9]%Z [11;12;13;14;15;16;17]%Z demo_ops
  = [ (2%nat, [1;5; 0;7; 0;0; 9;0; 11;12;13;14;15;16;17], true);
      (3%nat, [1;5;0; 0;7;0; 0;0;0; 9;0;0; 11;12;13;14;15;16;17], true);
      (3%nat, [1;2;3; 4;5;6; 7;8;9; 10;11;12; 13;14;15;16;17;18;19], true);
      (3%nat, [1;2;3; 4;5;6; 7;8;9; 10;11;12; 13;14;15;16;17;18;19], true);
      (1%nat, [1; 4; 7; 10; 13;14;15;16;17;18;19], true);
      (1%nat, [1; 4; 7; 10; 13;14;15;16;17;18;19], true);
      (2%nat, [1;0; 4;0; 7;0; 10;0; 13;14;15;16;17;18;19], true) ]%Z.
Proof. vm_compute. reflexivity. Qed.
