(* ====================================================================== *)
(*  Newton.v -- control-logic model of  qsc/newton.py : newton()          *)
(*                                                                        *)
(*  The control flow of newton() depends only on                          *)
(*     - niter, nlinesearch, tol                                          *)
(*     - the SEQUENCE of residual norms produced by successive calls of f *)
(*  Calls of f are numbered 0,1,2,...  (call 0 is f(x0)).  The model      *)
(*  consumes a stream  norms : nat -> N  and says which evaluation's      *)
(*  argument is returned as x_best.                                       *)
(*                                                                        *)
(*  Python (line numbers of /repo/qsc/newton.py):                         *)
(*   25-27  residual_norm = |f(x0)|                       (evaluation 0)  *)
(*   31     for jnewton in range(niter):                                  *)
(*   32       last_residual_norm = residual_norm                          *)
(*   33-35    if residual_norm < tol: achieved = True; break              *)
(*   43       for jlinesearch in range(nlinesearch):                      *)
(*   45-46      residual_norm = |f(x)|                    (evaluation k)  *)
(*   48-50      if residual_norm < last_residual_norm: x_best = x; break  *)
(*   54-56    if not residual_norm < last_residual_norm: break            *)
(*   58     if not last_residual_norm <= tol*1e4: logger.warning(...)     *)
(*   62     return x_best                                                 *)
(*                                                                        *)
(*  This is newton.py AFTER the repair commit 80a62e6 (newton() stops and  *)
(*  warns when the residual norm is NaN).  Before it, line 54 was          *)
(*  `if residual_norm >= last_residual_norm` and line 58 was               *)
(*  `if last_residual_norm > tol*1e4`; with a NaN norm both are False, so  *)
(*  the loop went on and x0 could be returned silently.  The old control   *)
(*  function is kept as [Before_fix.newton_ctl_before_fix] with the        *)
(*  examples that document the defect.                                     *)
(*                                                                        *)
(*  N is the type of norms.  [ltb a b] is Python's  a < b  and [leb a b]   *)
(*  is Python's  a <= b : two SEPARATE booleans, because with a NaN        *)
(*  operand both are False (so  not a <= b  is not  b < a).                *)
(*                                                                        *)
(*  niter = 0 : Python raises UnboundLocalError at line 58                *)
(*  (last_residual_norm unbound).  The model returns last := norms 0 in   *)
(*  that case, by convention.  The model is faithful only for             *)
(*  1 <= niter, and ALL THEOREMS BELOW ARE TO BE READ UNDER 1 <= niter    *)
(*  (they happen to be provable for the niter = 0 convention too, so the  *)
(*  hypothesis is not carried around).                                    *)
(* ====================================================================== *)

From Coq Require Import List Arith Bool Lia Sorted.
Import ListNotations.

Set Implicit Arguments.

Section Ctl.

Variable N : Type.
Variable ltb : N -> N -> bool.     (* Python  a <  b *)
Variable leb : N -> N -> bool.     (* Python  a <= b   (NOT negb (ltb b a) when NaN is around) *)
Variable tol tol4 : N.             (* tol  and  tol*1e4 *)

Record result := {
  best     : nat;    (* index of the f-evaluation whose argument is returned as x_best; 0 = x0 *)
  warned   : bool;   (* logger.warning issued *)
  evals    : nat;    (* number of f evaluations performed *)
  achieved : bool;   (* newton_tolerance_achieved *)
  last     : N       (* last_residual_norm at exit *)
}.

(* ---------------------------------------------------------------------- *)
(*  The model                                                             *)
(* ---------------------------------------------------------------------- *)

Section Model.

Variable nls : nat.            (* nlinesearch *)
Variable norms : nat -> N.     (* norms k = residual norm of the k-th evaluation of f *)

(* Line search  (Python lines 43-52).
     n     remaining iterations of range(nlinesearch)
     lst   last_residual_norm (constant during the line search)
     cur   residual_norm on entry
     k     index of the next evaluation of f
   returns (Some i if evaluation i was accepted (line 48) | None,
            residual_norm on exit,  index of the next evaluation).
   With n = 0 residual_norm is unchanged; after a failed search it is the
   norm of the LAST trial.                                                 *)
Fixpoint linesearch (n : nat) (lst cur : N) (k : nat) : option nat * N * nat :=
  match n with
  | 0 => (None, cur, k)
  | S n' =>
      let c := norms k in                          (* lines 45-46 *)
      if ltb c lst then (Some k, c, S k)           (* lines 48-50 *)
      else linesearch n' lst c (S k)
  end.

(* Lines 58-62. *)
Definition finish (bst : nat) (lst : N) (k : nat) (ach : bool) : result :=
  {| best := bst; warned := negb (leb lst tol4); evals := k; achieved := ach; last := lst |}.

(* Outer loop (Python lines 31-56).
     n     remaining iterations of range(niter)
     bst   index of the evaluation whose argument is x_best
     cur   residual_norm
     lst   last_residual_norm (from the previous outer iteration)
     k     index of the next evaluation of f
   The second component is GHOST state: the chronological list of
   (accepted evaluation index, value of last_residual_norm at that moment). *)
Fixpoint outer (n : nat) (bst : nat) (cur lst : N) (k : nat)
  : result * list (nat * N) :=
  match n with
  | 0 => (finish bst lst k false, [])                        (* range exhausted *)
  | S n' =>
      let lst' := cur in                                      (* line 32 *)
      if ltb cur tol then (finish bst lst' k true, [])        (* lines 33-35 *)
      else
        let '(acc, cur', k') := linesearch nls lst' cur k in  (* lines 43-52 *)
        let bst' := match acc with Some i => i | None => bst end in
        let tr   := match acc with Some i => [(i, lst')] | None => [] end in
        if negb (ltb cur' lst')                               (* lines 54-56 *)
        then (finish bst' lst' k' false, tr)
        else let (r, t) := outer n' bst' cur' lst' k' in (r, tr ++ t)
  end.

Definition newton_run (niter : nat) : result * list (nat * N) :=
  outer niter 0 (norms 0) (norms 0) 1.

(* THE MODEL. *)
Definition newton_ctl (niter : nat) : result := fst (newton_run niter).

(* Ghost trace: chronological list of (accepted index, last_residual_norm then). *)
Definition accepted (niter : nat) : list (nat * N) := snd (newton_run niter).

(* ---------------------------------------------------------------------- *)
(*  Order hypotheses (each theorem says with [Proof using] what it uses)   *)
(* ---------------------------------------------------------------------- *)

(* All three hold for IEEE floats INCLUDING NaN (and for any preorder/strict
   order pair with NaN-like elements on which every comparison is false). *)
Hypothesis ltb_trans     : forall a b c, ltb a b = true -> ltb b c = true -> ltb a c = true.
Hypothesis ltb_irrefl    : forall a, ltb a a = false.
Hypothesis ltb_leb_trans : forall a b c, ltb a b = true -> leb b c = true -> leb a c = true.

(* ---------------------------------------------------------------------- *)
(*  Line-search specification                                             *)
(* ---------------------------------------------------------------------- *)

Lemma linesearch_spec : forall n lst cur k acc cur' k',
  linesearch n lst cur k = (acc, cur', k') ->
  k <= k' <= k + n /\
  (cur' = cur /\ k' = k \/ k < k' /\ cur' = norms (k' - 1)) /\
  match acc with
  | Some i => k' = S i /\ k <= i /\ cur' = norms i /\ ltb (norms i) lst = true
  | None   => k' = k + n /\ (n = 0 \/ ltb cur' lst = false)
  end.
Proof using.
  induction n as [|n IH]; intros lst cur k acc cur' k' H; simpl in H.
  - inversion H; subst. repeat split; try lia; auto.
  - destruct (ltb (norms k) lst) eqn:E.
    + inversion H; subst. repeat split; try lia; auto.
      right. split; [lia|]. f_equal. lia.
    + apply IH in H. destruct H as (Hk & Hc & Ha).
      split; [lia|]. split.
      * right. destruct Hc as [[-> ->] | [Hlt ->]].
        -- split; [lia|]. f_equal. lia.
        -- split; [lia|]. reflexivity.
      * destruct acc as [i|].
        -- destruct Ha as (-> & Hi & -> & Hl). repeat split; auto. lia.
        -- destruct Ha as (-> & Hz). split; [lia|]. right.
           destruct Hz as [-> | Hz]; auto.
           simpl in Hc. destruct Hc as [[-> _] | [Hlt _]]; [assumption | lia].
  Qed.

(* ---------------------------------------------------------------------- *)
(*  Unconditional invariants of the outer loop                            *)
(* ---------------------------------------------------------------------- *)

(* What an entry (i, l) of the ghost trace means, relative to the interval
   [k, e) of evaluation indices consumed by the loop. *)
Definition entry_ok (k e : nat) (p : nat * N) : Prop :=
  let (i, l) := p in
  k <= i < e /\ ltb (norms i) l = true /\ exists q, q < i /\ k - 1 <= q /\ l = norms q.

Lemma entry_ok_weaken : forall k k' e p, k <= k' -> entry_ok k' e p -> entry_ok k e p.
Proof using.
  intros k k' e [i l] Hk (Hi & Hl & q & Hq & Hq' & ->).
  repeat split; try lia; auto. exists q. repeat split; auto; lia.
Qed.

Lemma last_cons_default : forall (A : Type) (l : list A) (a d d' : A),
  List.last (a :: l) d = List.last (a :: l) d'.
Proof using.
  induction l as [|b l IH]; intros a d d'; [reflexivity|].
  change (List.last (b :: l) d = List.last (b :: l) d'). apply IH.
Qed.

Lemma outer_basic : forall n bst cur lst k r t,
  1 <= k -> cur = norms (k - 1) ->
  outer n bst cur lst k = (r, t) ->
  k <= evals r /\
  Forall (entry_ok k (evals r)) t /\
  best r = List.last (map fst t) bst /\
  warned r = negb (leb (last r) tol4) /\
  (achieved r = true -> ltb (last r) tol = true).
Proof using.
  induction n as [|n IH]; intros bst cur lst k r t Hk1 Hcur H; simpl in H.
  - inversion H; subst; simpl. repeat split; auto. discriminate.
  - destruct (ltb cur tol) eqn:Etol.
    { inversion H; subst r t; simpl. repeat split; auto. }
    destruct (linesearch nls cur cur k) as [[acc cur'] k'] eqn:Els.
    apply linesearch_spec in Els. destruct Els as (Hkk & Hc & Ha).
    assert (Hcur' : cur' = norms (k' - 1)).
    { destruct Hc as [[-> ->] | [_ ->]]; auto. }
    destruct (negb (ltb cur' cur)) eqn:Egeb.
    + inversion H; subst r t; simpl. split; [lia|].
      destruct acc as [i|]; simpl.
      * destruct Ha as (-> & Hi & -> & Hl).
        repeat split; auto; try discriminate.
        constructor; [|constructor]. simpl. repeat split; try lia; auto.
        exists (k - 1). repeat split; auto; lia.
      * repeat split; auto; discriminate.
    + destruct (outer n (match acc with Some i => i | None => bst end) cur' cur k')
        as [r0 t0] eqn:Eo.
      inversion H; subst r t; clear H.
      apply IH in Eo; [|lia|assumption].
      destruct Eo as (He & Hf & Hb & Hw & Hach).
      split; [lia|]. split; [|split; [|split; assumption]].
      * apply Forall_app. split.
        -- destruct acc as [i|]; [|constructor].
           destruct Ha as (-> & Hi & -> & Hl).
           constructor; [|constructor]. simpl. repeat split; try lia; auto.
           exists (k - 1). repeat split; auto; lia.
        -- eapply Forall_impl; [|exact Hf]. intros p. apply entry_ok_weaken. lia.
      * rewrite Hb. destruct acc as [i|]; [|reflexivity].
        destruct t0 as [|p t0]; [reflexivity|].
        change (List.last (fst p :: map fst t0) i = List.last (fst p :: map fst t0) bst).
        apply last_cons_default.
  Qed.

(* ---------------------------------------------------------------------- *)
(*  The chain invariant (unconditional for the repaired code)             *)
(* ---------------------------------------------------------------------- *)

(* chain a t : the entries of t are linked: each was accepted against the
   norm of the previously accepted evaluation (a for the first one). *)
Fixpoint chain (a : N) (t : list (nat * N)) : Prop :=
  match t with
  | [] => True
  | (i, l) :: t' => l = a /\ ltb (norms i) l = true /\ chain (norms i) t'
  end.

Lemma outer_chain :
  forall n bst lst k r t,
  (lst = norms bst \/ ltb (norms bst) lst = true) ->
  outer n bst (norms bst) lst k = (r, t) ->
  chain (norms bst) t /\
  (last r = norms (best r) \/ ltb (norms (best r)) (last r) = true).
Proof using.
  induction n as [|n IH]; intros bst lst k r t Hlst H; simpl in H.
  - inversion H; subst; simpl. auto.
  - destruct (ltb (norms bst) tol) eqn:Etol.
    { inversion H; subst r t; simpl. auto. }
    destruct (linesearch nls (norms bst) (norms bst) k) as [[acc cur'] k'] eqn:Els.
    apply linesearch_spec in Els. destruct Els as (Hkk & Hc & Ha).
    destruct acc as [i|].
    + destruct Ha as (-> & Hi & -> & Hl).
      destruct (negb (ltb (norms i) (norms bst))) eqn:Egeb.
      * inversion H; subst r t; simpl. auto.
      * destruct (outer n i (norms i) (norms bst) (S i)) as [r0 t0] eqn:Eo.
        inversion H; subst r t; clear H.
        apply IH in Eo; [|auto]. destruct Eo as (Hch & Hlast).
        simpl. auto.
    + destruct Ha as (-> & Hz).
      destruct (negb (ltb cur' (norms bst))) eqn:Egeb.
      * inversion H; subst r t; simpl. auto.
      * (* the loop continues without an acceptance: only possible when the
           line search did not evaluate anything (nls = 0) *)
        assert (Hcc : cur' = norms bst).
        { destruct Hc as [[-> _] | [Hlt ->]]; auto.
          destruct Hz as [-> | Hz]; [lia|].
          apply negb_false_iff in Egeb. congruence. }
        subst cur'.
        destruct (outer n bst (norms bst) (norms bst) (k + nls)) as [r0 t0] eqn:Eo.
        inversion H; subst r t; clear H.
        apply IH in Eo; auto.
  Qed.

(* Relation "b is strictly better than a". *)
Definition better (a b : nat) : Prop := ltb (norms b) (norms a) = true.

Lemma chain_sorted : forall t p,
  chain (norms p) t -> StronglySorted better (p :: map fst t).
Proof using ltb_trans.
  induction t as [|[i l] t IH]; intros p Hc; simpl in *.
  - constructor; constructor.
  - destruct Hc as (-> & Hl & Hc). specialize (IH i Hc).
    constructor; [assumption|].
    constructor; [exact Hl|].
    apply StronglySorted_inv in IH. destruct IH as [_ Hf].
    eapply Forall_impl; [|exact Hf]. intros a Ha. unfold better in *.
    eapply ltb_trans; eassumption.
  Qed.

Lemma StronglySorted_nth : forall (A : Type) (R : A -> A -> Prop) (l : list A),
  StronglySorted R l ->
  forall (d : A) (i j : nat), i < j < length l -> R (nth i l d) (nth j l d).
Proof using.
  induction 1 as [|a l Hs IH Hf]; intros d i j Hij; simpl in Hij; [lia|].
  destruct j as [|j]; [lia|]. destruct i as [|i]; simpl.
  - rewrite Forall_forall in Hf. apply Hf. apply nth_In. lia.
  - apply IH. lia.
Qed.

Lemma last_in_cons : forall (A : Type) (l : list A) (d : A), l = [] \/ In (List.last l d) l.
Proof using.
  induction l as [|a l IH]; intros d; [left; reflexivity|right].
  destruct l as [|b l]; [left; reflexivity|].
  destruct (IH d) as [Hn | Hin]; [discriminate|]. right. exact Hin.
Qed.

(* ---------------------------------------------------------------------- *)
(*  THEOREMS                                                              *)
(* ---------------------------------------------------------------------- *)

Variable niter : nat.   (* read: 1 <= niter, see header *)

Lemma run_eq : newton_run niter = (newton_ctl niter, accepted niter).
Proof using. unfold newton_ctl, accepted. destruct (newton_run niter); reflexivity. Qed.

Lemma run_basic :
  let r := newton_ctl niter in let t := accepted niter in
  1 <= evals r /\
  Forall (entry_ok 1 (evals r)) t /\
  best r = List.last (map fst t) 0 /\
  warned r = negb (leb (last r) tol4) /\
  (achieved r = true -> ltb (last r) tol = true).
Proof using.
  intros r t. apply (@outer_basic niter 0 (norms 0) (norms 0) 1 r t); auto.
  apply run_eq.
Qed.

(* The ghost trace means what it says: every recorded (i, l) is an evaluation
   1 <= i < evals that passed the test  norms i < l  (line 48), where l, the value
   of last_residual_norm at that moment, is the norm of an earlier evaluation. *)
Theorem accepted_trace_sound :
  Forall (fun p => 1 <= fst p < evals (newton_ctl niter) /\
                   ltb (norms (fst p)) (snd p) = true /\
                   exists q, q < fst p /\ snd p = norms q)
         (accepted niter).
Proof using.
  destruct run_basic as (_ & Hf & _).
  eapply Forall_impl; [|exact Hf]. intros [i l] (Hi & Hl & q & Hq & _ & ->); simpl.
  repeat split; try lia; auto. exists q; auto.
Qed.

(* best is the index of the LAST accepted evaluation (0 if there is none). *)
Theorem best_is_last_accepted :
  best (newton_ctl niter) = List.last (map fst (accepted niter)) 0.
Proof using. apply run_basic. Qed.

(* N1 *)
Theorem best_is_x0_or_accepted :
  let r := newton_ctl niter in
  best r = 0 \/
  exists lastv,                                  (* last_residual_norm at that moment *)
    In (best r, lastv) (accepted niter) /\
    1 <= best r < evals r /\
    ltb (norms (best r)) lastv = true.
Proof using.
  intros r. destruct run_basic as (_ & Hf & Hb & _). fold r in Hf, Hb.
  destruct (last_in_cons (map fst (accepted niter)) 0) as [Hnil | Hin].
  - left. rewrite Hb, Hnil. reflexivity.
  - right. rewrite <- Hb in Hin. apply in_map_iff in Hin.
    destruct Hin as ([i l] & Hi & Hin). simpl in Hi. subst i.
    exists l. split; [exact Hin|].
    rewrite Forall_forall in Hf. specialize (Hf _ Hin). simpl in Hf.
    destruct Hf as (H1 & H2 & _). split; [lia|exact H2].
Qed.

(* N6 *)
Theorem achieved_means_below_tol :
  let r := newton_ctl niter in
  achieved r = true -> ltb (last r) tol = true.
Proof using. apply run_basic. Qed.

(* Line 58. *)
Theorem warned_iff_not_last_le_tol4 :
  let r := newton_ctl niter in warned r = negb (leb (last r) tol4).
Proof using. apply run_basic. Qed.

(* (c)  A NaN-like last_residual_norm (one for which  last <= tol4  is False, as it is
   for NaN) always produces the warning.  Immediate from line 58 as repaired; it was
   FALSE before the repair (see NanExample.nan_boundary). *)
Theorem nan_always_warns :
  let r := newton_ctl niter in
  leb (last r) tol4 = false -> warned r = true.
Proof using.
  intros r H. unfold r. rewrite warned_iff_not_last_le_tol4. fold r. rewrite H. reflexivity.
Qed.

(* N3, invariant form; NO hypothesis at all:  the first accepted evaluation
   was accepted against norms 0, each later one against the norm of the
   previously accepted evaluation.  (Before the repair: only for NaN-free streams.) *)
Theorem accepted_chain_linked :
  chain (norms 0) (accepted niter).
Proof using.
  eapply (@outer_chain niter 0 (norms 0) 1); [left; reflexivity | apply run_eq].
Qed.

(* N3 :  along  0 :: accepted indices  every later evaluation has a strictly
   smaller norm than every earlier one.  For EVERY stream, NaNs included. *)
Theorem accepted_chain_decreasing :
  StronglySorted better (0 :: map fst (accepted niter)).
Proof using ltb_trans.
  apply chain_sorted. apply accepted_chain_linked.
Qed.

(* N3, index form of the same statement. *)
Theorem accepted_pairwise_decreasing :
  let l := 0 :: map fst (accepted niter) in
  forall i j, i < j < length l ->
  ltb (norms (nth j l 0)) (norms (nth i l 0)) = true.
Proof using ltb_trans.
  intros l i j Hij.
  exact (StronglySorted_nth accepted_chain_decreasing 0 Hij).
Qed.

(* N2 (a).  For EVERY stream, NaNs included; only ltb_trans.  (Before the repair
   this was false on streams with NaN: NanExample.never_worse_needs_no_nan.) *)
Theorem never_worse_than_initial :
  let r := newton_ctl niter in
  best r = 0 \/ ltb (norms (best r)) (norms 0) = true.
Proof using ltb_trans.
  intros r. pose proof accepted_chain_decreasing as Hs.
  apply StronglySorted_inv in Hs. destruct Hs as [_ Hf].
  unfold r. rewrite best_is_last_accepted.
  destruct (last_in_cons (map fst (accepted niter)) 0) as [Hnil | Hin].
  - left. rewrite Hnil. reflexivity.
  - right. rewrite Forall_forall in Hf. apply (Hf _ Hin).
Qed.

(* Core of N4: at exit, last_residual_norm is the norm of the returned point,
   or strictly larger.  No hypothesis. *)
Theorem last_bounds_best :
  let r := newton_ctl niter in
  last r = norms (best r) \/ ltb (norms (best r)) (last r) = true.
Proof using.
  intros r.
  eapply (@outer_chain niter 0 (norms 0) 1); [left; reflexivity | apply run_eq].
Qed.

(* N4, first part. *)
Theorem no_warning_means_small :
  let r := newton_ctl niter in
  warned r = false ->
  leb (last r) tol4 = true /\
  (last r = norms (best r) \/ ltb (norms (best r)) (last r) = true).
Proof using.
  intros r Hw. split; [|apply last_bounds_best].
  unfold r in Hw. rewrite warned_iff_not_last_le_tol4 in Hw.
  apply negb_false_iff in Hw. exact Hw.
Qed.

(* ... in the form "last is not below the returned point's norm". *)
Theorem no_warning_last_not_below_best :
  let r := newton_ctl niter in
  ltb (last r) (norms (best r)) = false.
Proof using ltb_trans ltb_irrefl.
  intros r. destruct last_bounds_best as [He | Hl]; fold r in He || fold r in Hl.
  - rewrite He. apply ltb_irrefl.
  - destruct (ltb (last r) (norms (best r))) eqn:E; [|reflexivity].
    pose proof (ltb_trans E Hl) as Hc. rewrite ltb_irrefl in Hc. discriminate.
Qed.

(* N4 (b), conclusion: no warning ==> the returned point's residual norm is <= tol4,
   positively ([leb ... = true], so in particular it is not NaN).  For EVERY stream;
   the only order fact used is  a < b -> b <= c -> a <= c, true of IEEE floats with NaN. *)
Theorem no_warning_means_best_small :
  let r := newton_ctl niter in
  warned r = false -> leb (norms (best r)) tol4 = true.
Proof using ltb_leb_trans.
  intros r Hw. destruct (no_warning_means_small Hw) as [Hl [He | Hb]];
    fold r in Hl; fold r in He || fold r in Hb.
  - rewrite <- He. exact Hl.
  - exact (ltb_leb_trans Hb Hl).
Qed.

(* If the INITIAL norm is NaN-like (not < tol, and nothing is < it) the repaired code
   does one line search, stops, and returns x0 ... *)
Lemma linesearch_all_fail : forall n lst cur k,
  (forall j, ltb (norms j) lst = false) ->
  exists c, linesearch n lst cur k = (None, c, k + n) /\ (c = cur \/ exists j, c = norms j).
Proof using.
  induction n as [|n IH]; intros lst cur k Hall; simpl.
  - exists cur. rewrite Nat.add_0_r. auto.
  - rewrite Hall. destruct (IH lst (norms k) (S k) Hall) as (c & -> & Hc).
    exists c. split; [f_equal; lia|]. right. destruct Hc as [-> | Hc]; eauto.
Qed.

Theorem nan_initial_stops :
  1 <= niter ->
  ltb (norms 0) tol = false ->
  (forall j, ltb (norms j) (norms 0) = false) ->
  let r := newton_ctl niter in
  best r = 0 /\ evals r = 1 + nls /\ last r = norms 0 /\ achieved r = false /\
  accepted niter = [].
Proof using.
  intros Hn Htol Hall. unfold newton_ctl, accepted, newton_run.
  destruct niter as [|n]; [lia|]. simpl. rewrite Htol.
  destruct (@linesearch_all_fail nls (norms 0) (norms 0) 1 Hall) as (c & -> & Hc).
  assert (Hcl : ltb c (norms 0) = false).
  { destruct Hc as [-> | [j ->]]; apply Hall. }
  rewrite Hcl. simpl. repeat split.
Qed.

(* ... with the warning, when moreover  norms 0 <= tol4  is False (as for NaN). *)
Theorem nan_initial_warns :
  1 <= niter ->
  ltb (norms 0) tol = false ->
  (forall j, ltb (norms j) (norms 0) = false) ->
  leb (norms 0) tol4 = false ->
  warned (newton_ctl niter) = true.
Proof using.
  intros Hn Htol Hall Hle. apply nan_always_warns.
  destruct (nan_initial_stops Hn Htol Hall) as (_ & _ & -> & _). exact Hle.
Qed.

End Model.
End Ctl.

Arguments best {N} _.
Arguments warned {N} _.
Arguments evals {N} _.
Arguments achieved {N} _.
Arguments last {N} _.

(* What each theorem needs, after closing the sections. *)
Check best_is_x0_or_accepted.
Check accepted_trace_sound.
Check best_is_last_accepted.
Check never_worse_than_initial.
Check accepted_chain_linked.
Check accepted_chain_decreasing.
Check accepted_pairwise_decreasing.
Check last_bounds_best.
Check no_warning_means_small.
Check no_warning_last_not_below_best.
Check no_warning_means_best_small.
Check achieved_means_below_tol.
Check warned_iff_not_last_le_tol4.
Check nan_always_warns.
Check nan_initial_stops.
Check nan_initial_warns.

Print Assumptions best_is_x0_or_accepted.
Print Assumptions accepted_trace_sound.
Print Assumptions best_is_last_accepted.
Print Assumptions never_worse_than_initial.
Print Assumptions accepted_chain_linked.
Print Assumptions accepted_chain_decreasing.
Print Assumptions accepted_pairwise_decreasing.
Print Assumptions last_bounds_best.
Print Assumptions no_warning_means_small.
Print Assumptions no_warning_last_not_below_best.
Print Assumptions no_warning_means_best_small.
Print Assumptions achieved_means_below_tol.
Print Assumptions warned_iff_not_last_le_tol4.
Print Assumptions nan_always_warns.
Print Assumptions nan_initial_stops.
Print Assumptions nan_initial_warns.

(* ====================================================================== *)
(*  The control function BEFORE the repair (newton.py up to cdfd08f):     *)
(*    line 54  if residual_norm >= last_residual_norm: break              *)
(*    line 58  if last_residual_norm > tol*1e4: warn                      *)
(*  kept only to document the defect (examples in NanExample / PyTrace).  *)
(*  [geb a b] is Python's a >= b, a separate boolean.                     *)
(* ====================================================================== *)

Module Before_fix.
Section Old.

Variable N : Type.
Variable ltb geb : N -> N -> bool.
Variable tol tol4 : N.
Variable nls : nat.
Variable norms : nat -> N.

Definition finish_before_fix (bst : nat) (lst : N) (k : nat) (ach : bool) : result N :=
  {| best := bst; warned := ltb tol4 lst; evals := k; achieved := ach; last := lst |}.

Fixpoint outer_before_fix (n : nat) (bst : nat) (cur lst : N) (k : nat) : result N :=
  match n with
  | 0 => finish_before_fix bst lst k false
  | S n' =>
      let lst' := cur in
      if ltb cur tol then finish_before_fix bst lst' k true
      else
        let '(acc, cur', k') := linesearch ltb norms nls lst' cur k in
        let bst' := match acc with Some i => i | None => bst end in
        if geb cur' lst' then finish_before_fix bst' lst' k' false   (* old line 54 *)
        else outer_before_fix n' bst' cur' lst' k'
  end.

Definition newton_ctl_before_fix (niter : nat) : result N :=
  outer_before_fix niter 0 (norms 0) (norms 0) 1.

End Old.
End Before_fix.

(* ====================================================================== *)
(*  Concrete instance  N := option nat,  None behaves like NaN            *)
(*  (every comparison with None is false).                                *)
(* ====================================================================== *)

Module NanExample.
Import Before_fix.

Definition oltb (a b : option nat) : bool :=
  match a, b with Some x, Some y => Nat.ltb x y | _, _ => false end.
Definition oleb (a b : option nat) : bool :=
  match a, b with Some x, Some y => Nat.leb x y | _, _ => false end.
Definition ogeb (a b : option nat) : bool :=
  match a, b with Some x, Some y => Nat.leb y x | _, _ => false end.

(* The order hypotheses of the generic theorems hold for this instance, NaN included. *)
Lemma oltb_trans : forall a b c, oltb a b = true -> oltb b c = true -> oltb a c = true.
Proof.
  intros [x|] [y|] [z|]; simpl; try discriminate.
  rewrite !Nat.ltb_lt. lia.
Qed.
Lemma oltb_irrefl : forall a, oltb a a = false.
Proof. intros [x|]; simpl; [apply Nat.ltb_irrefl | reflexivity]. Qed.
Lemma oltb_oleb_trans : forall a b c, oltb a b = true -> oleb b c = true -> oleb a c = true.
Proof.
  intros [x|] [y|] [z|]; simpl; try discriminate.
  rewrite Nat.ltb_lt, !Nat.leb_le. lia.
Qed.

Definition otol  : option nat := Some 1.
Definition otol4 : option nat := Some 10.

(* Initial norm 100 (> tol4 = 10); every later evaluation gives NaN.
   (f = log, x0 = 20 does this in the real newton(): see PyTrace.py_lognan.) *)
Definition nan_stream (k : nat) : option nat :=
  match k with 0 => Some 100 | _ => None end.

(* ---- the defect, on the OLD control function ---- *)

(* N5 (old code): the NaN path returns x0 silently: best = 0, NO warning, although the
   norm at x0 exceeds tol4; all niter*nls = 6 line-search evaluations are wasted, and
   last_residual_norm = NaN at exit (NaN > tol4 is False). *)
Example nan_boundary :
  let r := newton_ctl_before_fix oltb ogeb otol otol4 2 nan_stream 3 in
  best r = 0 /\ warned r = false /\ achieved r = false /\ evals r = 7 /\
  last r = None /\
  oltb otol4 (nan_stream (best r)) = true.     (* norms(best) > tol4 *)
Proof. vm_compute. repeat split. Qed.

(* Old code: N2/N3 failed too.  After a line search whose LAST trial is NaN the old
   test of line 54 (NaN >= last) is False, the loop went on with
   last_residual_norm = NaN, the next failed trial (norm 50) became the new reference,
   and then an evaluation with norm 30 was accepted although the initial norm was 20:
   the returned point is WORSE than x0.  (Model-level statement about streams; in an
   actual run, once a residual is NaN the later iterates are NaN as well unless f/jac
   swallow NaNs.) *)
Definition worse_stream (k : nat) : option nat :=
  match k with 0 => Some 20 | 1 => None | 2 => Some 50 | 3 => Some 30 | _ => None end.

Example never_worse_needs_no_nan :
  let r := newton_ctl_before_fix oltb ogeb otol otol4 1 worse_stream 3 in
  best r = 3 /\ evals r = 4 /\
  oltb (worse_stream (best r)) (worse_stream 0) = false /\
  oltb (worse_stream 0) (worse_stream (best r)) = true.
Proof. vm_compute. repeat split. Qed.

(* ---- the same streams on the REPAIRED control function ---- *)

(* The line search fails on NaN, line 54 breaks at once (3 evaluations instead of 7),
   last_residual_norm stays 100 and the warning is issued. *)
Example nan_stream_now_warns :
  let r := newton_ctl oltb oleb otol otol4 2 nan_stream 3 in
  best r = 0 /\ warned r = true /\ achieved r = false /\ evals r = 3 /\
  last r = Some 100.
Proof. vm_compute. repeat split. Qed.

(* NaN already at x0: last_residual_norm = NaN, and `not NaN <= tol4` warns. *)
Example nan_initial_now_warns :
  let r := newton_ctl oltb oleb otol otol4 2 (fun _ => None) 3 in
  best r = 0 /\ warned r = true /\ achieved r = false /\ evals r = 3 /\ last r = None.
Proof. vm_compute. repeat split. Qed.

(* The "worse than x0" stream: the loop now stops after the NaN trial, x0 is returned. *)
Example worse_stream_now_stops :
  let r := newton_ctl oltb oleb otol otol4 1 worse_stream 3 in
  best r = 0 /\ warned r = true /\ evals r = 2 /\ last r = Some 20 /\
  accepted oltb oleb otol otol4 1 worse_stream 3 = [].
Proof. vm_compute. repeat split. Qed.

(* A NaN trial in the MIDDLE of a line search is harmless: the next (halved) step is
   accepted and the iteration converges, without warning. *)
Definition mid_nan_stream (k : nat) : option nat :=
  match k with 0 => Some 100 | 1 => None | 2 => Some 40 | 3 => Some 0 | _ => None end.
Example mid_nan_run :
  let r := newton_ctl oltb oleb otol otol4 4 mid_nan_stream 20 in
  best r = 3 /\ warned r = false /\ achieved r = true /\ evals r = 4 /\ last r = Some 0 /\
  accepted oltb oleb otol otol4 4 mid_nan_stream 20 = [(2, Some 100); (3, Some 40)].
Proof. vm_compute. repeat split. Qed.

(* ---- sanity checks of the repaired model on NaN-free streams ---- *)
Definition of_list (l : list nat) (k : nat) : option nat := nth_error l k.

(* two accepted full steps, then below tol *)
Example ok_run :
  let r := newton_ctl oltb oleb otol otol4 4 (of_list [100; 40; 0]) 20 in
  best r = 2 /\ warned r = false /\ achieved r = true /\ evals r = 3 /\ last r = Some 0.
Proof. vm_compute. repeat split. Qed.

(* line search: 2 rejected trials, third accepted; next line search fails (nls = 3) *)
Example linesearch_run :
  let r := newton_ctl oltb oleb otol otol4 3 (of_list [100; 300; 100; 60; 70; 60; 65]) 20 in
  best r = 3 /\ warned r = true /\ achieved r = false /\ evals r = 7 /\ last r = Some 60 /\
  accepted oltb oleb otol otol4 3 (of_list [100; 300; 100; 60; 70; 60; 65]) 20 = [(3, Some 100)].
Proof. vm_compute. repeat split. Qed.

(* niter exhausted: last_residual_norm is the norm BEFORE the last accepted step *)
Example exhausted_run :
  let r := newton_ctl oltb oleb otol otol4 4 (of_list [100; 40; 5]) 2 in
  best r = 2 /\ warned r = true /\ evals r = 3 /\ last r = Some 40.
Proof. vm_compute. repeat split. Qed.

(* nlinesearch = 0: residual_norm stays equal to last_residual_norm, line 54 breaks *)
Example nls0_run :
  let r := newton_ctl oltb oleb otol otol4 0 (of_list [100]) 5 in
  best r = 0 /\ warned r = true /\ evals r = 1 /\ last r = Some 100.
Proof. vm_compute. repeat split. Qed.

(* last_residual_norm exactly tol4: `not last <= tol4` does not warn *)
Example boundary_tol4_run :
  let r := newton_ctl oltb oleb otol otol4 4 (of_list [100; 10; 20; 20; 20; 20]) 20 in
  best r = 1 /\ warned r = false /\ achieved r = false /\ evals r = 6 /\ last r = Some 10.
Proof. vm_compute. repeat split. Qed.

End NanExample.

Print Assumptions NanExample.nan_boundary.
Print Assumptions NanExample.never_worse_needs_no_nan.
Print Assumptions NanExample.nan_stream_now_warns.

(* ====================================================================== *)
(*  Float instance, for the correspondence check against Python           *)
(* ====================================================================== *)

From Coq Require Import Floats.PrimFloat.

(* stream = fun k => nth k norms nan ; a < b = PrimFloat.ltb a b ; a <= b = PrimFloat.leb a b.
   Returns (best, warned, evals, achieved). *)
Definition newton_ctl_float (niter nls : nat) (tol tol4 : float) (norms : list float)
  : (nat * bool * nat * bool) :=
  let r := newton_ctl PrimFloat.ltb PrimFloat.leb tol tol4 nls
                      (fun k => nth k norms nan) niter in
  (best r, warned r, evals r, achieved r).

(* The pre-repair control function on floats:  a >= b  is  PrimFloat.leb b a. *)
Definition newton_ctl_float_before_fix (niter nls : nat) (tol tol4 : float) (norms : list float)
  : (nat * bool * nat * bool) :=
  let r := Before_fix.newton_ctl_before_fix PrimFloat.ltb (fun a b => PrimFloat.leb b a)
             tol tol4 nls (fun k => nth k norms nan) niter in
  (best r, warned r, evals r, achieved r).

Module PyTrace.
Local Open Scope float_scope.

(* The three order hypotheses of the generic theorems (ltb_trans, ltb_irrefl,
   ltb_leb_trans) are facts of IEEE-754 comparison, NaN included.  They are not proved
   here for PrimFloat (that would need the SpecFloat specification of the primitives); as a
   sanity check they are evaluated exhaustively on a sample containing NaN, both
   infinities and both zeros. *)
Definition sample : list float :=
  [nan; neg_infinity; -0x1p+0; -0x0p+0; 0x0p+0; 0x1p-1074; 0x1.c25c268497682p-44; 0x1p+0; infinity].
Definition implb3 (a b c : bool) : bool := if a then (if b then c else true) else true.
Example float_order_hypotheses_on_sample :
  forallb (fun a => negb (PrimFloat.ltb a a) &&
    forallb (fun b => forallb (fun c =>
      implb3 (PrimFloat.ltb a b) (PrimFloat.ltb b c) (PrimFloat.ltb a c) &&
      implb3 (PrimFloat.ltb a b) (PrimFloat.leb b c) (PrimFloat.leb a c)) sample) sample) sample
  = true.
Proof. vm_compute. reflexivity. Qed.

(* Norm sequences below were recorded by wrapping f in /repo/qsc/newton.py:newton()
   AT COMMIT 80a62e6 (the repaired code) (float.hex() of sqrt(sum(r*r)) at every call of
   f); `best` was obtained by matching the returned x_best against the recorded arguments
   of f, `warned` with a logging handler, `achieved` by reading the local
   newton_tolerance_achieved at return.  tol = 1e-13, tol4 = 1e-13*1e4 computed in Python. *)
Definition tol  : float := 0x1.c25c268497682p-44.
Definition tol4 : float := 0x1.12e0be826d695p-30.

(* f(x) = x^2 - 2, x0 = 3, niter=20, nlinesearch=10.
   Python: best 5, warned False, evals 6, achieved True *)
Example py_sqrt2 :
  newton_ctl_float 20 10 tol tol4
    [0x1.c000000000000p+2; 0x1.5c71c71c71c70p+0; 0x1.1a36116551930p-3;
     0x1.230d83fe21800p-9; 0x1.4a89c7c800000p-21; 0x1.ac00000000000p-45]
  = (5, false, 6, true)%nat.
Proof. vm_compute. reflexivity. Qed.

(* f(x) = atan x, x0 = 3, niter=20, nlinesearch=10 (first two trials rejected).
   Python: best 6, warned False, evals 7, achieved True *)
Example py_atan :
  newton_ctl_float 20 10 tol tol4
    [0x1.3fc176b7a8560p+0; 0x1.773fa2068aedbp+0; 0x1.459a33fc83d2bp+0;
     0x1.f3bbfa35c85b6p-4; 0x1.4132dc6f698eap-10; 0x1.5117f97100000p-30; 0x0.0p+0]
  = (6, false, 7, true)%nat.
Proof. vm_compute. reflexivity. Qed.

(* f(x) = log x, x0 = 20, niter=3, nlinesearch=2: every trial is NaN.
   Python (repaired): the first line search fails, line 54 breaks: best 0, warned TRUE
   (last_residual_norm = 2.9957 > tol4), evals 3, achieved False. *)
Example py_lognan :
  newton_ctl_float 3 2 tol tol4
    [0x1.7f7427b73e391p+1; nan; nan]
  = (0, true, 3, false)%nat.
Proof. vm_compute. reflexivity. Qed.

(* The same system on the code BEFORE the repair (recorded at commit cdfd08f):
   norms [2.9957, nan x 6], x_best = x0 = 20, warned False, evals 7, last = nan:
   x0 returned SILENTLY.  This is the defect that the repair removes. *)
Example py_lognan_before_fix :
  newton_ctl_float_before_fix 3 2 tol tol4
    [0x1.7f7427b73e391p+1; nan; nan; nan; nan; nan; nan]
  = (0, false, 7, false)%nat.
Proof. vm_compute. reflexivity. Qed.

(* f(x) = log x, x0 = -1 (residual NaN already at x0), niter=3, nlinesearch=2.
   Python (repaired): norms [nan, nan, nan], best 0, warned True (not nan <= tol4),
   evals 3, achieved False, last_residual_norm = nan. *)
Example py_nan_initial :
  newton_ctl_float 3 2 tol tol4 [nan; nan; nan] = (0, true, 3, false)%nat.
Proof. vm_compute. reflexivity. Qed.

(* f(x) = x^2 + 1 (no root), x0 = 3, niter=20, nlinesearch=4.
   Python: best 5, warned True, evals 10, achieved False *)
Example py_nosol :
  newton_ctl_float 20 4 tol tol4
    [0x1.4000000000000p+3; 0x1.638e38e38e38ep+1; 0x1.15c71c71c71c7p+0;
     0x1.bae2af4f87421p+1; 0x1.6854e5e0a72f4p+0; 0x1.07b1ab3f463d9p+0;
     0x1.1a6bd482287a2p+3; 0x1.5c583f51fa09ap+1; 0x1.52fb2ab088eb4p+0;
     0x1.0a08f067a2852p+0]
  = (5, true, 10, false)%nat.
Proof. vm_compute. reflexivity. Qed.

(* f(x) = x^2 - 2, x0 = 3, niter=2 (exhausted), nlinesearch=10.
   Python: best 2, warned True (last_residual_norm = 1.36, the norm BEFORE the last
   accepted step), evals 3, achieved False *)
Example py_exhausted :
  newton_ctl_float 2 10 tol tol4
    [0x1.c000000000000p+2; 0x1.5c71c71c71c70p+0; 0x1.1a36116551930p-3]
  = (2, true, 3, false)%nat.
Proof. vm_compute. reflexivity. Qed.

(* 2-D: f(x,y) = (x^2+y^2-4, exp x + y - 1), x0 = (1,-1), niter=20, nlinesearch=10.
   Python: best 5, warned False, evals 6, achieved True *)
Example py_2d :
  newton_ctl_float 20 10 tol tol4
    [0x1.100257991225ap+1; 0x1.b8502ec080275p-1; 0x1.44bc06c48836fp-5;
     0x1.ad8224ef78df5p-14; 0x1.ceba098c20c48p-31; 0x0.0p+0]
  = (5, false, 6, true)%nat.
Proof. vm_compute. reflexivity. Qed.

(* same system, niter=5, nlinesearch=0.  Python: best 0, warned True, evals 1, achieved False *)
Example py_2d_nls0 :
  newton_ctl_float 5 0 tol tol4 [0x1.100257991225ap+1] = (0, true, 1, false)%nat.
Proof. vm_compute. reflexivity. Qed.

End PyTrace.
