(* ====================================================================== *)
(*  Newton.v -- control-logic model of  qsc/newton.py : newton()          *)
(*                                                                        *)
(*  The control flow of newton() depends only on                          *)
(*     - niter, nlinesearch, tol                                          *)
(*     - the SEQUENCE of residual norms produced by successive calls of f *)
(*  Calls of f are numbered 0,1,2,...  (call 0 is f(x0)).  The model      *)
(*  consumes a stream  norms : nat -> N  and says which evaluation's      *)
(*  argument is returned as x_best.                                       *)
(*                                                                        *)
(*  Python (line numbers of /repo/qsc/newton.py):                         *)
(*   25-27  residual_norm = |f(x0)|                       (evaluation 0)  *)
(*   31     for jnewton in range(niter):                                  *)
(*   32       last_residual_norm = residual_norm                          *)
(*   33-35    if residual_norm < tol: achieved = True; break              *)
(*   43       for jlinesearch in range(nlinesearch):                      *)
(*   45-46      residual_norm = |f(x)|                    (evaluation k)  *)
(*   48-50      if residual_norm < last_residual_norm: x_best = x; break  *)
(*   54-56    if residual_norm >= last_residual_norm: break               *)
(*   58     if last_residual_norm > tol*1e4: logger.warning(...)          *)
(*   62     return x_best                                                 *)
(*                                                                        *)
(*  N is the type of norms.  [ltb a b] is Python's  a < b ;  a > b  is    *)
(*  [ltb b a];  a >= b  is a SEPARATE boolean [geb a b], because with a   *)
(*  NaN operand both  a < b  and  a >= b  are False.                      *)
(*                                                                        *)
(*  niter = 0 : Python raises UnboundLocalError at line 58                *)
(*  (last_residual_norm unbound).  The model returns last := norms 0 in   *)
(*  that case, by convention.  The model is faithful only for             *)
(*  1 <= niter, and ALL THEOREMS BELOW ARE TO BE READ UNDER 1 <= niter    *)
(*  (they happen to be provable for the niter = 0 convention too, so the  *)
(*  hypothesis is not carried around).                                    *)
(* ====================================================================== *)

From Coq Require Import List Arith Bool Lia Sorted.
Import ListNotations.

Set Implicit Arguments.

Section Ctl.

Variable N : Type.
Variable ltb : N -> N -> bool.     (* Python  a <  b *)
Variable geb : N -> N -> bool.     (* Python  a >= b   (NOT negb ltb when NaN is around) *)
Variable tol tol4 : N.             (* tol  and  tol*1e4 *)

Record result := {
  best     : nat;    (* index of the f-evaluation whose argument is returned as x_best; 0 = x0 *)
  warned   : bool;   (* logger.warning issued *)
  evals    : nat;    (* number of f evaluations performed *)
  achieved : bool;   (* newton_tolerance_achieved *)
  last     : N       (* last_residual_norm at exit *)
}.

(* ---------------------------------------------------------------------- *)
(*  The model                                                             *)
(* ---------------------------------------------------------------------- *)

Section Model.

Variable nls : nat.            (* nlinesearch *)
Variable norms : nat -> N.     (* norms k = residual norm of the k-th evaluation of f *)

(* Line search  (Python lines 43-52).
     n     remaining iterations of range(nlinesearch)
     lst   last_residual_norm (constant during the line search)
     cur   residual_norm on entry
     k     index of the next evaluation of f
   returns (Some i if evaluation i was accepted (line 48) | None,
            residual_norm on exit,  index of the next evaluation).
   With n = 0 residual_norm is unchanged; after a failed search it is the
   norm of the LAST trial.                                                 *)
Fixpoint linesearch (n : nat) (lst cur : N) (k : nat) : option nat * N * nat :=
  match n with
  | 0 => (None, cur, k)
  | S n' =>
      let c := norms k in                          (* lines 45-46 *)
      if ltb c lst then (Some k, c, S k)           (* lines 48-50 *)
      else linesearch n' lst c (S k)
  end.

(* Lines 58-62. *)
Definition finish (bst : nat) (lst : N) (k : nat) (ach : bool) : result :=
  {| best := bst; warned := ltb tol4 lst; evals := k; achieved := ach; last := lst |}.

(* Outer loop (Python lines 31-56).
     n     remaining iterations of range(niter)
     bst   index of the evaluation whose argument is x_best
     cur   residual_norm
     lst   last_residual_norm (from the previous outer iteration)
     k     index of the next evaluation of f
   The second component is GHOST state: the chronological list of
   (accepted evaluation index, value of last_residual_norm at that moment). *)
Fixpoint outer (n : nat) (bst : nat) (cur lst : N) (k : nat)
  : result * list (nat * N) :=
  match n with
  | 0 => (finish bst lst k false, [])                        (* range exhausted *)
  | S n' =>
      let lst' := cur in                                      (* line 32 *)
      if ltb cur tol then (finish bst lst' k true, [])        (* lines 33-35 *)
      else
        let '(acc, cur', k') := linesearch nls lst' cur k in  (* lines 43-52 *)
        let bst' := match acc with Some i => i | None => bst end in
        let tr   := match acc with Some i => [(i, lst')] | None => [] end in
        if geb cur' lst' then (finish bst' lst' k' false, tr) (* lines 54-56 *)
        else let (r, t) := outer n' bst' cur' lst' k' in (r, tr ++ t)
  end.

Definition newton_run (niter : nat) : result * list (nat * N) :=
  outer niter 0 (norms 0) (norms 0) 1.

(* THE MODEL. *)
Definition newton_ctl (niter : nat) : result := fst (newton_run niter).

(* Ghost trace: chronological list of (accepted index, last_residual_norm then). *)
Definition accepted (niter : nat) : list (nat * N) := snd (newton_run niter).

(* ---------------------------------------------------------------------- *)
(*  Order hypotheses (each theorem says with [Proof using] what it uses)   *)
(* ---------------------------------------------------------------------- *)

Hypothesis ltb_trans  : forall a b c, ltb a b = true -> ltb b c = true -> ltb a c = true.
Hypothesis ltb_irrefl : forall a, ltb a a = false.

(* "No NaN in the stream": on norms, >= is exactly the negation of <. *)
Definition no_nan : Prop :=
  forall i j, geb (norms i) (norms j) = negb (ltb (norms i) (norms j)).

(* The only consequence of [no_nan] that is ever used. *)
Definition geb_or_ltb : Prop :=
  forall i j, geb (norms i) (norms j) = false -> ltb (norms i) (norms j) = true.

Lemma no_nan_geb_or_ltb : no_nan -> geb_or_ltb.
Proof using.
  intros H i j Hg. rewrite H in Hg. now apply negb_false_iff in Hg.
Qed.

(* ---------------------------------------------------------------------- *)
(*  Line-search specification                                             *)
(* ---------------------------------------------------------------------- *)

Lemma linesearch_spec : forall n lst cur k acc cur' k',
  linesearch n lst cur k = (acc, cur', k') ->
  k <= k' <= k + n /\
  (cur' = cur /\ k' = k \/ k < k' /\ cur' = norms (k' - 1)) /\
  match acc with
  | Some i => k' = S i /\ k <= i /\ cur' = norms i /\ ltb (norms i) lst = true
  | None   => k' = k + n /\ (n = 0 \/ ltb cur' lst = false)
  end.
Proof using.
  induction n as [|n IH]; intros lst cur k acc cur' k' H; simpl in H.
  - inversion H; subst. repeat split; try lia; auto.
  - destruct (ltb (norms k) lst) eqn:E.
    + inversion H; subst. repeat split; try lia; auto.
      right. split; [lia|]. f_equal. lia.
    + apply IH in H. destruct H as (Hk & Hc & Ha).
      split; [lia|]. split.
      * right. destruct Hc as [[-> ->] | [Hlt ->]].
        -- split; [lia|]. f_equal. lia.
        -- split; [lia|]. reflexivity.
      * destruct acc as [i|].
        -- destruct Ha as (-> & Hi & -> & Hl). repeat split; auto. lia.
        -- destruct Ha as (-> & Hz). split; [lia|]. right.
           destruct Hz as [-> | Hz]; auto.
           simpl in Hc. destruct Hc as [[-> _] | [Hlt _]]; [assumption | lia].
  Qed.

(* ---------------------------------------------------------------------- *)
(*  Unconditional invariants of the outer loop                            *)
(* ---------------------------------------------------------------------- *)

(* What an entry (i, l) of the ghost trace means, relative to the interval
   [k, e) of evaluation indices consumed by the loop. *)
Definition entry_ok (k e : nat) (p : nat * N) : Prop :=
  let (i, l) := p in
  k <= i < e /\ ltb (norms i) l = true /\ exists q, q < i /\ k - 1 <= q /\ l = norms q.

Lemma entry_ok_weaken : forall k k' e p, k <= k' -> entry_ok k' e p -> entry_ok k e p.
Proof using.
  intros k k' e [i l] Hk (Hi & Hl & q & Hq & Hq' & ->).
  repeat split; try lia; auto. exists q. repeat split; auto; lia.
Qed.

Lemma last_cons_default : forall (A : Type) (l : list A) (a d d' : A),
  List.last (a :: l) d = List.last (a :: l) d'.
Proof using.
  induction l as [|b l IH]; intros a d d'; [reflexivity|].
  change (List.last (b :: l) d = List.last (b :: l) d'). apply IH.
Qed.

Lemma outer_basic : forall n bst cur lst k r t,
  1 <= k -> cur = norms (k - 1) ->
  outer n bst cur lst k = (r, t) ->
  k <= evals r /\
  Forall (entry_ok k (evals r)) t /\
  best r = List.last (map fst t) bst /\
  warned r = ltb tol4 (last r) /\
  (achieved r = true -> ltb (last r) tol = true).
Proof using.
  induction n as [|n IH]; intros bst cur lst k r t Hk1 Hcur H; simpl in H.
  - inversion H; subst; simpl. repeat split; auto. discriminate.
  - destruct (ltb cur tol) eqn:Etol.
    { inversion H; subst r t; simpl. repeat split; auto. }
    destruct (linesearch nls cur cur k) as [[acc cur'] k'] eqn:Els.
    apply linesearch_spec in Els. destruct Els as (Hkk & Hc & Ha).
    assert (Hcur' : cur' = norms (k' - 1)).
    { destruct Hc as [[-> ->] | [_ ->]]; auto. }
    destruct (geb cur' cur) eqn:Egeb.
    + inversion H; subst r t; simpl. split; [lia|].
      destruct acc as [i|]; simpl.
      * destruct Ha as (-> & Hi & -> & Hl).
        repeat split; auto; try discriminate.
        constructor; [|constructor]. simpl. repeat split; try lia; auto.
        exists (k - 1). repeat split; auto; lia.
      * repeat split; auto; discriminate.
    + destruct (outer n (match acc with Some i => i | None => bst end) cur' cur k')
        as [r0 t0] eqn:Eo.
      inversion H; subst r t; clear H.
      apply IH in Eo; [|lia|assumption].
      destruct Eo as (He & Hf & Hb & Hw & Hach).
      split; [lia|]. split; [|split; [|split; assumption]].
      * apply Forall_app. split.
        -- destruct acc as [i|]; [|constructor].
           destruct Ha as (-> & Hi & -> & Hl).
           constructor; [|constructor]. simpl. repeat split; try lia; auto.
           exists (k - 1). repeat split; auto; lia.
        -- eapply Forall_impl; [|exact Hf]. intros p. apply entry_ok_weaken. lia.
      * rewrite Hb. destruct acc as [i|]; [|reflexivity].
        destruct t0 as [|p t0]; [reflexivity|].
        change (List.last (fst p :: map fst t0) i = List.last (fst p :: map fst t0) bst).
        apply last_cons_default.
  Qed.

(* ---------------------------------------------------------------------- *)
(*  Invariants that need "no NaN" (in the weak form geb_or_ltb)            *)
(* ---------------------------------------------------------------------- *)

(* chain a t : the entries of t are linked: each was accepted against the
   norm of the previously accepted evaluation (a for the first one). *)
Fixpoint chain (a : N) (t : list (nat * N)) : Prop :=
  match t with
  | [] => True
  | (i, l) :: t' => l = a /\ ltb (norms i) l = true /\ chain (norms i) t'
  end.

Lemma outer_chain : geb_or_ltb ->
  forall n bst lst k r t,
  (lst = norms bst \/ ltb (norms bst) lst = true) ->
  outer n bst (norms bst) lst k = (r, t) ->
  chain (norms bst) t /\
  (last r = norms (best r) \/ ltb (norms (best r)) (last r) = true).
Proof using.
  intros Hgl.
  induction n as [|n IH]; intros bst lst k r t Hlst H; simpl in H.
  - inversion H; subst; simpl. auto.
  - destruct (ltb (norms bst) tol) eqn:Etol.
    { inversion H; subst r t; simpl. auto. }
    destruct (linesearch nls (norms bst) (norms bst) k) as [[acc cur'] k'] eqn:Els.
    apply linesearch_spec in Els. destruct Els as (Hkk & Hc & Ha).
    destruct acc as [i|].
    + destruct Ha as (-> & Hi & -> & Hl).
      destruct (geb (norms i) (norms bst)) eqn:Egeb.
      * inversion H; subst r t; simpl. auto.
      * destruct (outer n i (norms i) (norms bst) (S i)) as [r0 t0] eqn:Eo.
        inversion H; subst r t; clear H.
        apply IH in Eo; [|auto]. destruct Eo as (Hch & Hlast).
        simpl. auto.
    + destruct Ha as (-> & Hz).
      destruct (geb cur' (norms bst)) eqn:Egeb.
      * inversion H; subst r t; simpl. auto.
      * (* the loop continues without an acceptance: only possible when the
           line search did not evaluate anything (nls = 0) *)
        assert (Hcc : cur' = norms bst).
        { destruct Hc as [[-> _] | [Hlt ->]]; auto.
          destruct Hz as [-> | Hz]; [lia|].
          apply Hgl in Egeb. congruence. }
        subst cur'.
        destruct (outer n bst (norms bst) (norms bst) (k + nls)) as [r0 t0] eqn:Eo.
        inversion H; subst r t; clear H.
        apply IH in Eo; auto.
  Qed.

(* Relation "b is strictly better than a". *)
Definition better (a b : nat) : Prop := ltb (norms b) (norms a) = true.

Lemma chain_sorted : forall t p,
  chain (norms p) t -> StronglySorted better (p :: map fst t).
Proof using ltb_trans.
  induction t as [|[i l] t IH]; intros p Hc; simpl in *.
  - constructor; constructor.
  - destruct Hc as (-> & Hl & Hc). specialize (IH i Hc).
    constructor; [assumption|].
    constructor; [exact Hl|].
    apply StronglySorted_inv in IH. destruct IH as [_ Hf].
    eapply Forall_impl; [|exact Hf]. intros a Ha. unfold better in *.
    eapply ltb_trans; eassumption.
  Qed.

Lemma StronglySorted_nth : forall (A : Type) (R : A -> A -> Prop) (l : list A),
  StronglySorted R l ->
  forall (d : A) (i j : nat), i < j < length l -> R (nth i l d) (nth j l d).
Proof using.
  induction 1 as [|a l Hs IH Hf]; intros d i j Hij; simpl in Hij; [lia|].
  destruct j as [|j]; [lia|]. destruct i as [|i]; simpl.
  - rewrite Forall_forall in Hf. apply Hf. apply nth_In. lia.
  - apply IH. lia.
Qed.

Lemma last_in_cons : forall (A : Type) (l : list A) (d : A), l = [] \/ In (List.last l d) l.
Proof using.
  induction l as [|a l IH]; intros d; [left; reflexivity|right].
  destruct l as [|b l]; [left; reflexivity|].
  destruct (IH d) as [Hn | Hin]; [discriminate|]. right. exact Hin.
Qed.

(* ---------------------------------------------------------------------- *)
(*  THEOREMS                                                              *)
(* ---------------------------------------------------------------------- *)

Variable niter : nat.   (* read: 1 <= niter, see header *)

Lemma run_eq : newton_run niter = (newton_ctl niter, accepted niter).
Proof using. unfold newton_ctl, accepted. destruct (newton_run niter); reflexivity. Qed.

Lemma run_basic :
  let r := newton_ctl niter in let t := accepted niter in
  1 <= evals r /\
  Forall (entry_ok 1 (evals r)) t /\
  best r = List.last (map fst t) 0 /\
  warned r = ltb tol4 (last r) /\
  (achieved r = true -> ltb (last r) tol = true).
Proof using.
  intros r t. apply (@outer_basic niter 0 (norms 0) (norms 0) 1 r t); auto.
  apply run_eq.
Qed.

(* The ghost trace means what it says: every recorded (i, l) is an evaluation
   1 <= i < evals that passed the test  norms i < l  (line 48), where l, the value
   of last_residual_norm at that moment, is the norm of an earlier evaluation. *)
Theorem accepted_trace_sound :
  Forall (fun p => 1 <= fst p < evals (newton_ctl niter) /\
                   ltb (norms (fst p)) (snd p) = true /\
                   exists q, q < fst p /\ snd p = norms q)
         (accepted niter).
Proof using.
  destruct run_basic as (_ & Hf & _).
  eapply Forall_impl; [|exact Hf]. intros [i l] (Hi & Hl & q & Hq & _ & ->); simpl.
  repeat split; try lia; auto. exists q; auto.
Qed.

(* best is the index of the LAST accepted evaluation (0 if there is none). *)
Theorem best_is_last_accepted :
  best (newton_ctl niter) = List.last (map fst (accepted niter)) 0.
Proof using. apply run_basic. Qed.

(* N1 *)
Theorem best_is_x0_or_accepted :
  let r := newton_ctl niter in
  best r = 0 \/
  exists lastv,                                  (* last_residual_norm at that moment *)
    In (best r, lastv) (accepted niter) /\
    1 <= best r < evals r /\
    ltb (norms (best r)) lastv = true.
Proof using.
  intros r. destruct run_basic as (_ & Hf & Hb & _). fold r in Hf, Hb.
  destruct (last_in_cons (map fst (accepted niter)) 0) as [Hnil | Hin].
  - left. rewrite Hb, Hnil. reflexivity.
  - right. rewrite <- Hb in Hin. apply in_map_iff in Hin.
    destruct Hin as ([i l] & Hi & Hin). simpl in Hi. subst i.
    exists l. split; [exact Hin|].
    rewrite Forall_forall in Hf. specialize (Hf _ Hin). simpl in Hf.
    destruct Hf as (H1 & H2 & _). split; [lia|exact H2].
Qed.

(* N6 *)
Theorem achieved_means_below_tol :
  let r := newton_ctl niter in
  achieved r = true -> ltb (last r) tol = true.
Proof using. apply run_basic. Qed.

Theorem warned_iff_last_gt_tol4 :
  let r := newton_ctl niter in warned r = ltb tol4 (last r).
Proof using. apply run_basic. Qed.

(* N3, invariant form; no transitivity needed:  the first accepted evaluation
   was accepted against norms 0, each later one against the norm of the
   previously accepted evaluation. *)
Theorem accepted_chain_linked :
  no_nan -> chain (norms 0) (accepted niter).
Proof using.
  intros Hnn. apply no_nan_geb_or_ltb in Hnn.
  eapply (@outer_chain Hnn niter 0 (norms 0) 1); [left; reflexivity | apply run_eq].
Qed.

(* N3 :  along  0 :: accepted indices  every later evaluation has a strictly
   smaller norm than every earlier one. *)
Theorem accepted_chain_decreasing :
  no_nan -> StronglySorted better (0 :: map fst (accepted niter)).
Proof using ltb_trans.
  intros Hnn. apply chain_sorted. apply accepted_chain_linked. exact Hnn.
Qed.

(* N3, index form of the same statement. *)
Theorem accepted_pairwise_decreasing :
  no_nan ->
  let l := 0 :: map fst (accepted niter) in
  forall i j, i < j < length l ->
  ltb (norms (nth j l 0)) (norms (nth i l 0)) = true.
Proof using ltb_trans.
  intros Hnn l i j Hij.
  exact (StronglySorted_nth (accepted_chain_decreasing Hnn) 0 Hij).
Qed.

(* N2.  NOTE: needs no_nan in addition to ltb_trans; see the counterexample
   [never_worse_needs_no_nan] below. *)
Theorem never_worse_than_initial :
  no_nan ->
  let r := newton_ctl niter in
  best r = 0 \/ ltb (norms (best r)) (norms 0) = true.
Proof using ltb_trans.
  intros Hnn r. pose proof (accepted_chain_decreasing Hnn) as Hs.
  apply StronglySorted_inv in Hs. destruct Hs as [_ Hf].
  unfold r. rewrite best_is_last_accepted.
  destruct (last_in_cons (map fst (accepted niter)) 0) as [Hnil | Hin].
  - left. rewrite Hnil. reflexivity.
  - right. rewrite Forall_forall in Hf. apply (Hf _ Hin).
Qed.

(* Core of N4: at exit, last_residual_norm is the norm of the returned point,
   or strictly larger. *)
Theorem last_bounds_best :
  no_nan ->
  let r := newton_ctl niter in
  last r = norms (best r) \/ ltb (norms (best r)) (last r) = true.
Proof using.
  intros Hnn r. apply no_nan_geb_or_ltb in Hnn.
  eapply (@outer_chain Hnn niter 0 (norms 0) 1); [left; reflexivity | apply run_eq].
Qed.

(* N4, first part (stronger than requested: no "best r = 0 \/" escape). *)
Theorem no_warning_means_small :
  no_nan ->
  let r := newton_ctl niter in
  warned r = false ->
  ltb tol4 (last r) = false /\
  ltb (last r) (norms (best r)) = false.
Proof using ltb_trans ltb_irrefl.
  intros Hnn r Hw. split.
  - rewrite <- Hw. symmetry. apply warned_iff_last_gt_tol4.
  - destruct (last_bounds_best Hnn) as [He | Hl]; fold r in He || fold r in Hl.
    + rewrite He. apply ltb_irrefl.
    + destruct (ltb (last r) (norms (best r))) eqn:E; [|reflexivity].
      pose proof (ltb_trans E Hl) as Hc. rewrite ltb_irrefl in Hc. discriminate.
Qed.

(* N4, conclusion: no warning ==> the returned point's residual norm is <= tol4.
   Transitivity suffices (no totality needed). *)
Theorem no_warning_means_best_small :
  no_nan ->
  let r := newton_ctl niter in
  warned r = false -> ltb tol4 (norms (best r)) = false.
Proof using ltb_trans.
  intros Hnn r Hw.
  assert (Hl : ltb tol4 (last r) = false).
  { rewrite <- Hw. symmetry. apply warned_iff_last_gt_tol4. }
  destruct (last_bounds_best Hnn) as [He | Hb]; fold r in He || fold r in Hb.
  - rewrite <- He. exact Hl.
  - destruct (ltb tol4 (norms (best r))) eqn:E; [|reflexivity].
    rewrite (ltb_trans E Hb) in Hl. discriminate.
Qed.

End Model.
End Ctl.

Arguments best {N} _.
Arguments warned {N} _.
Arguments evals {N} _.
Arguments achieved {N} _.
Arguments last {N} _.

(* What each theorem needs, after closing the sections. *)
Check best_is_x0_or_accepted.
Check accepted_trace_sound.
Check best_is_last_accepted.
Check never_worse_than_initial.
Check accepted_chain_linked.
Check accepted_chain_decreasing.
Check accepted_pairwise_decreasing.
Check last_bounds_best.
Check no_warning_means_small.
Check no_warning_means_best_small.
Check achieved_means_below_tol.
Check warned_iff_last_gt_tol4.

Print Assumptions best_is_x0_or_accepted.
Print Assumptions accepted_trace_sound.
Print Assumptions best_is_last_accepted.
Print Assumptions never_worse_than_initial.
Print Assumptions accepted_chain_linked.
Print Assumptions accepted_chain_decreasing.
Print Assumptions accepted_pairwise_decreasing.
Print Assumptions last_bounds_best.
Print Assumptions no_warning_means_small.
Print Assumptions no_warning_means_best_small.
Print Assumptions achieved_means_below_tol.
Print Assumptions warned_iff_last_gt_tol4.

(* ====================================================================== *)
(*  N5: the NaN boundary, on a concrete instance                          *)
(*      N := option nat,  None behaves like NaN: every comparison false.  *)
(* ====================================================================== *)

Module NanExample.

Definition oltb (a b : option nat) : bool :=
  match a, b with Some x, Some y => Nat.ltb x y | _, _ => false end.
Definition ogeb (a b : option nat) : bool :=
  match a, b with Some x, Some y => Nat.leb y x | _, _ => false end.

(* The order hypotheses of the generic theorems DO hold for this instance ... *)
Lemma oltb_trans : forall a b c, oltb a b = true -> oltb b c = true -> oltb a c = true.
Proof.
  intros [x|] [y|] [z|]; simpl; try discriminate.
  rewrite !Nat.ltb_lt. lia.
Qed.
Lemma oltb_irrefl : forall a, oltb a a = false.
Proof. intros [x|]; simpl; [apply Nat.ltb_irrefl | reflexivity]. Qed.

Definition otol  : option nat := Some 1.
Definition otol4 : option nat := Some 10.

(* Initial norm 100 (> tol4 = 10); every later evaluation gives NaN.
   This is what  f = log, x0 = 20, niter = 3, nlinesearch = 2  does in the real
   newton(): norms = [2.9957, nan, nan, nan, nan, nan, nan], x_best = x0, no warning
   (see the float example [py_lognan] at the end of the file). *)
Definition nan_stream (k : nat) : option nat :=
  match k with 0 => Some 100 | _ => None end.

(* ... only no_nan fails. *)
Lemma nan_stream_not_no_nan : ~ no_nan oltb ogeb nan_stream.
Proof. intros H. specialize (H 1 0). discriminate H. Qed.

(* N5: the NaN path returns x0 silently: best = 0, no warning, tolerance not
   achieved, although the norm at x0 exceeds tol4.  (last_residual_norm = NaN at
   exit, and NaN > tol4 is False.) *)
Example nan_boundary :
  let r := newton_ctl oltb ogeb otol otol4 2 nan_stream 3 in
  best r = 0 /\ warned r = false /\ achieved r = false /\ evals r = 7 /\
  last r = None /\
  oltb otol4 (nan_stream (best r)) = true.     (* norms(best) > tol4 *)
Proof. vm_compute. repeat split. Qed.

(* Hence the conclusion of [no_warning_means_best_small] fails without no_nan. *)
Example no_warning_needs_no_nan :
  let r := newton_ctl oltb ogeb otol otol4 2 nan_stream 3 in
  warned r = false /\ oltb otol4 (nan_stream (best r)) <> false.
Proof. vm_compute. split; [reflexivity | discriminate]. Qed.

(* N2 / N3 also need no_nan.  After a line search whose LAST trial is NaN the test
   of line 54 (NaN >= last) is False, the loop goes on with
   last_residual_norm = NaN, the next failed trial (norm 50) becomes the new
   reference, and then an evaluation with norm 30 is accepted although the
   initial norm was 20: the returned point is WORSE than x0.
   (Model-level statement about streams.  In an actual run, once a residual is NaN
   the Newton step and all later iterates are NaN as well unless f/jac swallow
   NaNs, so such a stream needs an unusual f; the model does not exclude it.) *)
Definition worse_stream (k : nat) : option nat :=
  match k with 0 => Some 20 | 1 => None | 2 => Some 50 | 3 => Some 30 | _ => None end.

Example never_worse_needs_no_nan :
  let r := newton_ctl oltb ogeb otol otol4 1 worse_stream 3 in
  best r = 3 /\ evals r = 4 /\
  oltb (worse_stream (best r)) (worse_stream 0) = false /\
  oltb (worse_stream 0) (worse_stream (best r)) = true /\
  accepted oltb ogeb otol otol4 1 worse_stream 3 = [(3, Some 50)].
Proof. vm_compute. repeat split. Qed.

(* Sanity checks of the model on NaN-free streams. *)
Definition of_list (l : list nat) (k : nat) : option nat := nth_error l k.

(* two accepted full steps, then below tol *)
Example ok_run :
  let r := newton_ctl oltb ogeb otol otol4 4 (of_list [100; 40; 0]) 20 in
  best r = 2 /\ warned r = false /\ achieved r = true /\ evals r = 3 /\ last r = Some 0.
Proof. vm_compute. repeat split. Qed.

(* line search: 2 rejected trials, third accepted; next line search fails (nls = 3) *)
Example linesearch_run :
  let r := newton_ctl oltb ogeb otol otol4 3 (of_list [100; 300; 100; 60; 70; 60; 65]) 20 in
  best r = 3 /\ warned r = true /\ achieved r = false /\ evals r = 7 /\ last r = Some 60 /\
  accepted oltb ogeb otol otol4 3 (of_list [100; 300; 100; 60; 70; 60; 65]) 20 = [(3, Some 100)].
Proof. vm_compute. repeat split. Qed.

(* niter exhausted: last_residual_norm is the norm BEFORE the last accepted step *)
Example exhausted_run :
  let r := newton_ctl oltb ogeb otol otol4 4 (of_list [100; 40; 5]) 2 in
  best r = 2 /\ warned r = true /\ evals r = 3 /\ last r = Some 40.
Proof. vm_compute. repeat split. Qed.

(* nlinesearch = 0: residual_norm stays equal to last_residual_norm, line 54 breaks *)
Example nls0_run :
  let r := newton_ctl oltb ogeb otol otol4 0 (of_list [100]) 5 in
  best r = 0 /\ warned r = true /\ evals r = 1 /\ last r = Some 100.
Proof. vm_compute. repeat split. Qed.

End NanExample.

Print Assumptions NanExample.nan_boundary.
Print Assumptions NanExample.never_worse_needs_no_nan.

(* ====================================================================== *)
(*  Float instance, for the correspondence check against Python           *)
(* ====================================================================== *)

From Coq Require Import Floats.PrimFloat.

(* stream = fun k => nth k norms nan ; a < b = PrimFloat.ltb a b ; a >= b = PrimFloat.leb b a.
   Returns (best, warned, evals, achieved). *)
Definition newton_ctl_float (niter nls : nat) (tol tol4 : float) (norms : list float)
  : (nat * bool * nat * bool) :=
  let r := newton_ctl PrimFloat.ltb (fun a b => PrimFloat.leb b a) tol tol4 nls
                      (fun k => nth k norms nan) niter in
  (best r, warned r, evals r, achieved r).

Module PyTrace.
Local Open Scope float_scope.

(* Norm sequences below were recorded by wrapping f in /repo/qsc/newton.py:newton()
   (float.hex() of sqrt(sum(r*r)) at every call of f); `best` was obtained by matching
   the returned x_best against the recorded arguments of f, `warned` with a logging
   handler, `achieved` by reading the local newton_tolerance_achieved at return.
   tol = 1e-13, tol4 = 1e-13*1e4 computed in Python. *)
Definition tol  : float := 0x1.c25c268497682p-44.
Definition tol4 : float := 0x1.12e0be826d695p-30.

(* f(x) = x^2 - 2, x0 = 3, niter=20, nlinesearch=10.
   Python: best 5, warned False, evals 6, achieved True *)
Example py_sqrt2 :
  newton_ctl_float 20 10 tol tol4
    [0x1.c000000000000p+2; 0x1.5c71c71c71c70p+0; 0x1.1a36116551930p-3;
     0x1.230d83fe21800p-9; 0x1.4a89c7c800000p-21; 0x1.ac00000000000p-45]
  = (5, false, 6, true)%nat.
Proof. vm_compute. reflexivity. Qed.

(* f(x) = atan x, x0 = 3, niter=20, nlinesearch=10 (first two trials rejected).
   Python: best 6, warned False, evals 7, achieved True *)
Example py_atan :
  newton_ctl_float 20 10 tol tol4
    [0x1.3fc176b7a8560p+0; 0x1.773fa2068aedbp+0; 0x1.459a33fc83d2bp+0;
     0x1.f3bbfa35c85b6p-4; 0x1.4132dc6f698eap-10; 0x1.5117f97100000p-30; 0x0.0p+0]
  = (6, false, 7, true)%nat.
Proof. vm_compute. reflexivity. Qed.

(* f(x) = log x, x0 = 20, niter=3, nlinesearch=2: every trial is NaN.
   Python: best 0 (x_best = x0 = 20, residual 2.9957 >> tol4), warned False,
   evals 7, achieved False, last_residual_norm = nan.   THE NaN BOUNDARY, for real. *)
Example py_lognan :
  newton_ctl_float 3 2 tol tol4
    [0x1.7f7427b73e391p+1; nan; nan; nan; nan; nan; nan]
  = (0, false, 7, false)%nat.
Proof. vm_compute. reflexivity. Qed.

(* f(x) = x^2 + 1 (no root), x0 = 3, niter=20, nlinesearch=4.
   Python: best 5, warned True, evals 10, achieved False *)
Example py_nosol :
  newton_ctl_float 20 4 tol tol4
    [0x1.4000000000000p+3; 0x1.638e38e38e38ep+1; 0x1.15c71c71c71c7p+0;
     0x1.bae2af4f87421p+1; 0x1.6854e5e0a72f4p+0; 0x1.07b1ab3f463d9p+0;
     0x1.1a6bd482287a2p+3; 0x1.5c583f51fa09ap+1; 0x1.52fb2ab088eb4p+0;
     0x1.0a08f067a2852p+0]
  = (5, true, 10, false)%nat.
Proof. vm_compute. reflexivity. Qed.

(* f(x) = x^2 - 2, x0 = 3, niter=2 (exhausted), nlinesearch=10.
   Python: best 2, warned True (last_residual_norm = 1.36, the norm BEFORE the last
   accepted step), evals 3, achieved False *)
Example py_exhausted :
  newton_ctl_float 2 10 tol tol4
    [0x1.c000000000000p+2; 0x1.5c71c71c71c70p+0; 0x1.1a36116551930p-3]
  = (2, true, 3, false)%nat.
Proof. vm_compute. reflexivity. Qed.

(* 2-D: f(x,y) = (x^2+y^2-4, exp x + y - 1), x0 = (1,-1), niter=20, nlinesearch=10.
   Python: best 5, warned False, evals 6, achieved True *)
Example py_2d :
  newton_ctl_float 20 10 tol tol4
    [0x1.100257991225ap+1; 0x1.b8502ec080275p-1; 0x1.44bc06c48836fp-5;
     0x1.ad8224ef78df5p-14; 0x1.ceba098c20c48p-31; 0x0.0p+0]
  = (5, false, 6, true)%nat.
Proof. vm_compute. reflexivity. Qed.

(* same system, niter=5, nlinesearch=0.  Python: best 0, warned True, evals 1, achieved False *)
Example py_2d_nls0 :
  newton_ctl_float 5 0 tol tol4 [0x1.100257991225ap+1] = (0, true, 1, false)%nat.
Proof. vm_compute. reflexivity. Qed.

End PyTrace.
