(* The barycentric trigonometric interpolant of pyQSC (qsc/fourier_interpolation.py, odd N), analytically.

   The code evaluates, for data f_k on x_k = 2 pi k/N and an evaluation point x,
        sum_k D_k w_k f_k / sum_k D_k w_k,     D_k = 1/sin((x - x_k)/2 + eps*[..==0]),   w_k = (-1)^k
   (model over R: Bracket.v Part B, [interp], [D_odd], [w_alt], [sumR]).  Here, for N = 2M+1 and x not a node:

   I1  dirichlet_closed        1 + 2 sum_{m=1}^{M} cos(m u) = sin((M+1/2) u)/sin(u/2)
   I2  nonnode, bary_weight    (-1)^k / sin((x - x_k)/2) = (1/sin(N x/2)) (1 + 2 sum_{m=1}^{M} cos(m (x - x_k)))
   I3  interp_is_kernel        interp = (1/N) sum_k f_k (1 + 2 sum_{m=1}^{M} cos(m (x - x_k)))  =: kinterp N f x
   I4  interp_exact_cos/sin/trigpoly   exact on trigonometric polynomials of degree <= M
   I5  kinterp_replicates, interp_replicates, interp_same_range
                               replicated data on the k*n grid at x  =  data on the n grid at k*x  (odd n, odd k)
   I6  kinterp_node, kinterp_continuous   the kernel form is continuous everywhere and equals f_k at the nodes. *)
From Coq Require Import Reals List ZArith Lra Lia Arith Bool.
From QSC Require Import Expr DiffMat TrigSum DiffKernel Bracket.
Open Scope R_scope.

(* ------------------------------------------------------------------ *)
(* the periodic Dirichlet kernel  1 + 2 sum_{m=1}^{M} cos(m u)         *)
Definition Dker (M : nat) (u : R) : R := 1 + 2 * rsum M (fun m => cos (INR (S m) * u)).

(* the kernel (cardinal-function) form of the interpolant on the n-point grid, M = n/2 *)
Definition kinterp (n : nat) (f : nat -> R) (x : R) : R :=
  / INR n * rsum n (fun k => f k * Dker (n / 2) (x - xg n k)).

(* ------------------------------------------------------------------ *)
(* I1 *)
Lemma dirichlet_mul u M : sin (u / 2) * Dker M u = sin ((INR M + / 2) * u).
Proof.
  unfold Dker. assert (T := tele_cos u (S M)). rewrite rsum_S_head in T.
  simpl (INR 0) in T. rewrite Rmult_0_l, cos_0 in T. rewrite S_INR in T.
  replace ((INR M + 1 - / 2) * u) with ((INR M + / 2) * u) in T by lra.
  lra.
Qed.

Theorem dirichlet_closed u M : sin (u / 2) <> 0 ->
  1 + 2 * rsum M (fun m => cos (INR (S m) * u)) = sin ((INR M + / 2) * u) / sin (u / 2).
Proof.
  intros Hs. fold (Dker M u). rewrite <- dirichlet_mul. field. exact Hs.
Qed.

(* ------------------------------------------------------------------ *)
(* I2 *)
Lemma INR_odd M : INR (2 * M + 1) = 2 * INR M + 1.
Proof. rewrite plus_INR, mult_INR. simpl. lra. Qed.

(* x is not a node of the N-grid  ==>  no x - x_k is a multiple of 2 pi *)
Lemma nonnode N x k : (1 <= N)%nat -> sin (INR N * x / 2) <> 0 -> sin ((x - xg N k) / 2) <> 0.
Proof.
  intros HN Hx Hs. apply Hx. assert (HN0 := INR_pos_neq0 N HN).
  apply sin_eq_0_0 in Hs. destruct Hs as [z Hz].
  apply sin_eq_0_1. exists (Z.of_nat N * z + Z.of_nat k)%Z.
  rewrite plus_IZR, mult_IZR, <- !INR_IZR_INZ.
  replace (INR N * x / 2) with (INR N * ((x - xg N k) / 2) + INR N * xg N k / 2) by lra.
  rewrite Hz. unfold xg. field. exact HN0.
Qed.

Lemma sin_shift_nat_PI a k : sin (a - PI * INR k) = alt k * sin a.
Proof. rewrite sin_minus, cos_nat_PI, sin_nat_PI. ring. Qed.

Theorem bary_weight M x k : sin (INR (2 * M + 1) * x / 2) <> 0 ->
  (-1) ^ k / sin ((x - xg (2 * M + 1) k) / 2)
  = / sin (INR (2 * M + 1) * x / 2) * (1 + 2 * rsum M (fun m => cos (INR (S m) * (x - xg (2 * M + 1) k)))).
Proof.
  intros Hx. set (N := (2 * M + 1)%nat) in *.
  assert (HN : (1 <= N)%nat) by (unfold N; lia). assert (HN0 := INR_pos_neq0 N HN).
  assert (Hs := nonnode N x k HN Hx).
  rewrite dirichlet_closed by exact Hs.
  replace ((INR M + / 2) * (x - xg N k)) with (INR N * x / 2 - PI * INR k).
  2:{ unfold xg. replace (INR M + / 2) with (INR N / 2) by (unfold N; rewrite INR_odd; lra).
      field. exact HN0. }
  rewrite sin_shift_nat_PI, <- alt_pow. field. split; assumption.
Qed.

(* ------------------------------------------------------------------ *)
(* the kernel applied to a grid vector, in terms of its cos/sin grid moments *)
Definition w0 (m : nat) : R := if (m =? 0)%nat then 1 else 2.

Lemma Dker_w0 M u : Dker M u = rsum (S M) (fun m => w0 m * cos (INR m * u)).
Proof.
  unfold Dker. rewrite rsum_S_head. unfold w0 at 1. simpl (0 =? 0)%nat. cbv iota.
  simpl (INR 0). rewrite Rmult_0_l, cos_0.
  rewrite (rsum_ext M (fun k => w0 (S k) * cos (INR (S k) * u)) (fun k => 2 * cos (INR (S k) * u)))
    by (intros k _; reflexivity).
  rewrite rsum_scal. ring.
Qed.

Lemma kernel_apply N M x (v : nat -> R) :
  rsum N (fun k => v k * Dker M (x - xg N k))
  = rsum (S M) (fun m => w0 m * (cos (INR m * x) * rsum N (fun k => cos (ang N m k) * v k)
                                 + sin (INR m * x) * rsum N (fun k => sin (ang N m k) * v k))).
Proof.
  set (F := fun k m => (w0 m * cos (INR m * x)) * (cos (ang N m k) * v k)
                       + (w0 m * sin (INR m * x)) * (sin (ang N m k) * v k)).
  rewrite (rsum_ext N _ (fun k => rsum (S M) (fun m => F k m))).
  2:{ intros k Hk. rewrite Dker_w0.
      rewrite (rsum_ext _ (fun m => F k m) (fun m => (w0 m * cos (INR m * (x - xg N k))) * v k)).
      - rewrite rsum_scal_r. ring.
      - intros m _. unfold F.
        replace (INR m * (x - xg N k)) with (INR m * x - ang N m k) by (rewrite <- xg_ang; ring).
        rewrite cos_minus. ring. }
  rewrite rsum_swap. apply rsum_ext. intros m _.
  unfold F. rewrite rsum_plus, !rsum_scal. ring.
Qed.

(* exactness of the kernel form on the resolvable modes *)
Theorem kinterp_exact_cos n p x : Nat.odd n = true -> (p <= n / 2)%nat ->
  kinterp n (fun k => cos (INR p * xg n k)) x = cos (INR p * x).
Proof.
  intros Ho Hp. destruct (odd_half n Ho) as [M [EM Eh]].
  assert (Hn0 : INR n <> 0) by (apply INR_pos_neq0; lia).
  unfold kinterp. rewrite kernel_apply.
  rewrite (rsum_ext _ _ (fun m => if (m =? p)%nat then INR n * cos (INR m * x) else 0)).
  - rewrite rsum_delta by lia. field. exact Hn0.
  - intros m Hm.
    rewrite (rsum_ext n (fun k => cos (ang n m k) * cos (INR p * xg n k))
                        (fun k => cos (ang n m k) * cos (ang n p k)))
      by (intros k _; rewrite xg_ang; reflexivity).
    rewrite (rsum_ext n (fun k => sin (ang n m k) * cos (INR p * xg n k))
                        (fun k => cos (ang n p k) * sin (ang n m k)))
      by (intros k _; rewrite xg_ang; ring).
    rewrite sum_coscos, sum_cossin by lia.
    destruct (Nat.eqb_spec m p) as [->|Hne]; [|ring].
    unfold w0. destruct (Nat.eqb_spec p 0) as [->|Hp0]; [simpl; ring|].
    destruct (Nat.eqb_spec (2 * p) n); [lia|]. simpl. field.
Qed.

Theorem kinterp_exact_sin n p x : Nat.odd n = true -> (p <= n / 2)%nat ->
  kinterp n (fun k => sin (INR p * xg n k)) x = sin (INR p * x).
Proof.
  intros Ho Hp. destruct (odd_half n Ho) as [M [EM Eh]].
  assert (Hn0 : INR n <> 0) by (apply INR_pos_neq0; lia).
  unfold kinterp. rewrite kernel_apply.
  rewrite (rsum_ext _ _ (fun m => if (m =? p)%nat then INR n * sin (INR m * x) else 0)).
  - rewrite rsum_delta by lia. field. exact Hn0.
  - intros m Hm.
    rewrite (rsum_ext n (fun k => cos (ang n m k) * sin (INR p * xg n k))
                        (fun k => cos (ang n m k) * sin (ang n p k)))
      by (intros k _; rewrite xg_ang; reflexivity).
    rewrite (rsum_ext n (fun k => sin (ang n m k) * sin (INR p * xg n k))
                        (fun k => sin (ang n m k) * sin (ang n p k)))
      by (intros k _; rewrite xg_ang; reflexivity).
    rewrite sum_sinsin, sum_cossin by lia.
    destruct (Nat.eqb_spec m p) as [->|Hne]; [|ring].
    unfold w0. destruct (Nat.eqb_spec p 0) as [->|Hp0].
    + simpl. rewrite Rmult_0_l, sin_0. ring.
    + destruct (Nat.eqb_spec (2 * p) n); [lia|]. simpl. field.
Qed.

Lemma kinterp_linear n f g a b x :
  kinterp n (fun k => a * f k + b * g k) x = a * kinterp n f x + b * kinterp n g x.
Proof.
  unfold kinterp.
  rewrite (rsum_ext n _ (fun k => a * (f k * Dker (n / 2) (x - xg n k)) + b * (g k * Dker (n / 2) (x - xg n k))))
    by (intros; ring).
  rewrite rsum_plus, !rsum_scal. ring.
Qed.

Lemma kinterp_ext n f g x : (forall k, (k < n)%nat -> f k = g k) -> kinterp n f x = kinterp n g x.
Proof. intros H. unfold kinterp. f_equal. apply rsum_ext. intros k Hk. rewrite H by exact Hk. reflexivity. Qed.

Theorem kinterp_exact_trigpoly n deg a b x : Nat.odd n = true -> (deg <= n / 2)%nat ->
  kinterp n (fun k => trigpoly deg a b (xg n k)) x = trigpoly deg a b x.
Proof.
  intros Ho Hd. unfold trigpoly. generalize (S deg), (le_n_S _ _ Hd). intros d Hle.
  induction d.
  - simpl. unfold kinterp. rewrite rsum_zero by (intros; ring). ring.
  - cbn [rsum].
    rewrite (kinterp_ext n _ (fun k => 1 * rsum d (fun p => a p * cos (INR p * xg n k) + b p * sin (INR p * xg n k))
                                     + 1 * (a d * cos (INR d * xg n k) + b d * sin (INR d * xg n k))))
      by (intros; ring).
    rewrite kinterp_linear, IHd by lia. rewrite kinterp_linear.
    rewrite kinterp_exact_cos, kinterp_exact_sin by (try assumption; lia). ring.
Qed.

(* the kernel values sum to N *)
Lemma Dker_sum n x : Nat.odd n = true -> rsum n (fun k => Dker (n / 2) (x - xg n k)) = INR n.
Proof.
  intros Ho. assert (Hn0 : INR n <> 0) by (apply INR_pos_neq0; apply odd_pos; exact Ho).
  assert (E := kinterp_exact_cos n 0 x Ho (Nat.le_0_l _)).
  simpl (INR 0) in E. rewrite Rmult_0_l, cos_0 in E. unfold kinterp in E.
  rewrite (rsum_ext n (fun k => Dker (n / 2) (x - xg n k))
                      (fun k => cos (0 * xg n k) * Dker (n / 2) (x - xg n k)))
    by (intros k _; rewrite Rmult_0_l, cos_0; ring).
  apply (Rmult_eq_reg_l (/ INR n)); [|apply Rinv_neq_0_compat; exact Hn0].
  rewrite E. field. exact Hn0.
Qed.

(* ------------------------------------------------------------------ *)
(* I3: the barycentric formula of the code is the kernel interpolant   *)
Lemma sumR_rsum n g : sumR n g = rsum n g.
Proof. induction n; [reflexivity|]. simpl. rewrite IHn. reflexivity. Qed.

Lemma guard_inactive eps a : a <> 0 -> guard eps a = a.
Proof. intros Ha. unfold guard. destruct (Req_EM_T a 0); [contradiction|reflexivity]. Qed.

(* the code's D-row at a non-node point: the guard is inactive *)
Lemma D_odd_nonnode n eps x k : (1 <= n)%nat -> sin (INR n * x / 2) <> 0 ->
  D_odd eps ((x - xg n k) / 2) = 1 / sin ((x - xg n k) / 2).
Proof.
  intros Hn Hx. unfold D_odd. rewrite guard_inactive; [reflexivity|].
  intros H0. apply (nonnode n x k Hn Hx). rewrite H0. apply sin_0.
Qed.

Lemma D_odd_weight n eps x k : Nat.odd n = true -> sin (INR n * x / 2) <> 0 ->
  D_odd eps ((x - xg n k) / 2) * w_alt k = / sin (INR n * x / 2) * Dker (n / 2) (x - xg n k).
Proof.
  intros Ho Hx. destruct (odd_half n Ho) as [M [EM Eh]]. rewrite Eh.
  rewrite D_odd_nonnode by (try assumption; lia). unfold w_alt, Dker.
  subst n. rewrite <- bary_weight by exact Hx. unfold Rdiv. ring.
Qed.

Theorem interp_den_kernel n eps x : Nat.odd n = true -> sin (INR n * x / 2) <> 0 ->
  interp_den n (fun k => D_odd eps ((x - xg n k) / 2)) w_alt = INR n / sin (INR n * x / 2).
Proof.
  intros Ho Hx. unfold interp_den. rewrite sumR_rsum.
  rewrite (rsum_ext n _ (fun k => / sin (INR n * x / 2) * Dker (n / 2) (x - xg n k)))
    by (intros k _; apply D_odd_weight; assumption).
  rewrite rsum_scal, Dker_sum by exact Ho. unfold Rdiv. ring.
Qed.

Corollary interp_den_neq0 n eps x : Nat.odd n = true -> sin (INR n * x / 2) <> 0 ->
  interp_den n (fun k => D_odd eps ((x - xg n k) / 2)) w_alt <> 0.
Proof.
  intros Ho Hx. rewrite interp_den_kernel by assumption.
  assert (Hn0 : INR n <> 0) by (apply INR_pos_neq0; apply odd_pos; exact Ho).
  unfold Rdiv. apply Rmult_integral_contrapositive_currified; [exact Hn0|].
  apply Rinv_neq_0_compat. exact Hx.
Qed.

Theorem interp_is_kernel n eps x f : Nat.odd n = true -> sin (INR n * x / 2) <> 0 ->
  interp n (fun k => D_odd eps ((x - xg n k) / 2)) w_alt f = kinterp n f x.
Proof.
  intros Ho Hx. assert (Hn0 : INR n <> 0) by (apply INR_pos_neq0; apply odd_pos; exact Ho).
  unfold interp. rewrite interp_den_kernel by assumption.
  unfold interp_num, kinterp. rewrite sumR_rsum.
  rewrite (rsum_ext n _ (fun k => / sin (INR n * x / 2) * (f k * Dker (n / 2) (x - xg n k)))).
  - rewrite rsum_scal. field. split; assumption.
  - intros k _. rewrite <- Rmult_assoc, D_odd_weight by assumption. ring.
Qed.

(* the same with every definition of this file unfolded, in Bracket.v's vocabulary *)
Corollary interp_is_kernel_explicit M eps x f : let N := (2 * M + 1)%nat in
  sin (INR N * x / 2) <> 0 ->
  interp N (fun k => D_odd eps ((x - 2 * PI * INR k / INR N) / 2)) w_alt f
  = 1 / INR N * sumR N (fun k => f k * (1 + 2 * sumR M (fun m => cos (INR (S m) * (x - 2 * PI * INR k / INR N))))).
Proof.
  intros N Hx.
  assert (Ho : Nat.odd N = true) by (apply Nat.odd_spec; exists M; reflexivity).
  assert (Eh : (N / 2 = M)%nat) by (symmetry; apply (Nat.div_unique N 2 M 1); unfold N; lia).
  assert (E := interp_is_kernel N eps x f Ho Hx). unfold xg, kinterp, Dker in E. rewrite Eh in E.
  rewrite E. unfold Rdiv. rewrite Rmult_1_l. reflexivity.   (* sumR and rsum are convertible *)
Qed.

(* ------------------------------------------------------------------ *)
(* I4: exactness of the code's formula on the resolvable modes         *)
Theorem interp_exact_cos n eps p x : Nat.odd n = true -> (p <= n / 2)%nat -> sin (INR n * x / 2) <> 0 ->
  interp n (fun k => D_odd eps ((x - xg n k) / 2)) w_alt (fun k => cos (INR p * xg n k)) = cos (INR p * x).
Proof. intros Ho Hp Hx. rewrite interp_is_kernel by assumption. apply kinterp_exact_cos; assumption. Qed.

Theorem interp_exact_sin n eps p x : Nat.odd n = true -> (p <= n / 2)%nat -> sin (INR n * x / 2) <> 0 ->
  interp n (fun k => D_odd eps ((x - xg n k) / 2)) w_alt (fun k => sin (INR p * xg n k)) = sin (INR p * x).
Proof. intros Ho Hp Hx. rewrite interp_is_kernel by assumption. apply kinterp_exact_sin; assumption. Qed.

Theorem interp_exact_trigpoly n eps deg a b x : Nat.odd n = true -> (deg <= n / 2)%nat ->
  sin (INR n * x / 2) <> 0 ->
  interp n (fun k => D_odd eps ((x - xg n k) / 2)) w_alt (fun k => trigpoly deg a b (xg n k)) = trigpoly deg a b x.
Proof. intros Ho Hd Hx. rewrite interp_is_kernel by assumption. apply kinterp_exact_trigpoly; assumption. Qed.

(* ------------------------------------------------------------------ *)
(* I5: replication across field-period declarations                    *)
Lemma w0_mul m k : (1 <= k)%nat -> w0 (m * k) = w0 m.
Proof.
  intros Hk. unfold w0. destruct (Nat.eqb_spec m 0) as [->|Hm]; [reflexivity|].
  destruct (Nat.eqb_spec (m * k) 0); [nia|reflexivity].
Qed.

(* the kernel values of the long grid in one residue class sum to k times the kernel value of the short grid at k x *)
Lemma Dker_block_sum n k x q0 : Nat.odd n = true -> Nat.odd k = true ->
  rsum k (fun c => Dker ((k * n) / 2) (x - xg (k * n) (c * n + q0)))
  = INR k * Dker (n / 2) (INR k * x - xg n q0).
Proof.
  intros Hon Hok.
  destruct (odd_mul_half k n Hok Hon) as [K [M [EK [EM [Eh Eh']]]]]. rewrite Eh, Eh'.
  assert (Hk0 : INR k <> 0) by (apply INR_pos_neq0; lia).
  assert (Hn0 : INR n <> 0) by (apply INR_pos_neq0; lia).
  set (A := fun m : nat => INR m * (x - xg (k * n) q0)).
  rewrite (rsum_ext k _ (fun c => rsum (S (M * k + K)) (fun m =>
     (w0 m * cos (A m)) * cos (2 * PI * INR m * INR c / INR k)
     + (w0 m * sin (A m)) * sin (2 * PI * INR m * INR c / INR k)))).
  2:{ intros c Hc. rewrite Dker_w0. apply rsum_ext. intros m _.
      replace (INR m * (x - xg (k * n) (c * n + q0)))
        with (A m - 2 * PI * INR m * INR c / INR k)
        by (unfold A, xg; rewrite plus_INR, !mult_INR; field; split; assumption).
      rewrite cos_minus. ring. }
  rewrite rsum_swap.
  rewrite (rsum_ext _ _ (fun m => if (m mod k =? 0)%nat then w0 m * cos (A m) * INR k else 0)).
  2:{ intros m _. rewrite rsum_plus, !rsum_scal, sum_cos_uniform, sum_sin_uniform by lia.
      destruct (m mod k =? 0)%nat; ring. }
  replace (S (M * k + K)) with (M * k + S K)%nat by lia.
  rewrite (rsum_multiples k M K (fun m => w0 m * cos (A m) * INR k)) by lia.
  rewrite Dker_w0, <- rsum_scal. apply rsum_ext. intros m _.
  rewrite w0_mul by lia.
  replace (A (m * k)%nat) with (INR m * (INR k * x - xg n q0))
    by (unfold A, xg; rewrite !mult_INR; field; split; assumption).
  ring.
Qed.

(* kernel form: holds at EVERY x (nodes included) *)
Theorem kinterp_replicates n k (v : nat -> R) x : Nat.odd n = true -> Nat.odd k = true ->
  kinterp (k * n) (fun q => v (q mod n)%nat) x = kinterp n v (INR k * x).
Proof.
  intros Hon Hok.
  assert (Hn : (0 < n)%nat) by (apply odd_pos; exact Hon).
  assert (Hk : (0 < k)%nat) by (apply odd_pos; exact Hok).
  assert (Hk0 : INR k <> 0) by (apply INR_pos_neq0; lia).
  assert (Hn0 : INR n <> 0) by (apply INR_pos_neq0; lia).
  unfold kinterp. rewrite rsum_blocks, rsum_swap.
  rewrite (rsum_ext n _ (fun q => INR k * (v q * Dker (n / 2) (INR k * x - xg n q)))).
  - rewrite rsum_scal, mult_INR. field. split; assumption.
  - intros q Hq.
    rewrite (rsum_ext k _ (fun c => v q * Dker ((k * n) / 2) (x - xg (k * n) (c * n + q)))).
    2:{ intros c _. f_equal. f_equal. rewrite Nat.add_comm, Nat.mod_add, Nat.mod_small by lia. reflexivity. }
    rewrite rsum_scal, Dker_block_sum by assumption. ring.
Qed.

(* the explicit statement of the task sheet *)
Corollary kinterp_replicates_explicit n k (v : nat -> R) x : Nat.odd n = true -> Nat.odd k = true ->
  / INR (k * n) * rsum (k * n) (fun q => v (q mod n)%nat *
       (1 + 2 * rsum ((k * n - 1) / 2) (fun m => cos (INR (S m) * (x - 2 * PI * INR q / INR (k * n))))))
  = / INR n * rsum n (fun q0 => v q0 *
       (1 + 2 * rsum ((n - 1) / 2) (fun m => cos (INR (S m) * (INR k * x - 2 * PI * INR q0 / INR n))))).
Proof.
  intros Hon Hok.
  destruct (odd_mul_half k n Hok Hon) as [K [M [EK [EM [Eh Eh']]]]].
  assert (E1 : ((k * n - 1) / 2 = (k * n) / 2)%nat).
  { rewrite Eh'. symmetry. apply (Nat.div_unique (k * n - 1) 2 (M * k + K) 0); [lia|]. subst k n. lia. }
  assert (E2 : ((n - 1) / 2 = n / 2)%nat).
  { rewrite Eh. symmetry. apply (Nat.div_unique (n - 1) 2 M 0); lia. }
  rewrite E1, E2. exact (kinterp_replicates n k v x Hon Hok).
Qed.

Lemma nonnode_scale n k x : INR n * (INR k * x) / 2 = INR (k * n) * x / 2.
Proof. rewrite mult_INR. lra. Qed.

(* the code's formula *)
Theorem interp_replicates n k eps eps' (v : nat -> R) x : Nat.odd n = true -> Nat.odd k = true ->
  sin (INR (k * n) * x / 2) <> 0 ->
  interp (k * n) (fun q => D_odd eps ((x - xg (k * n) q) / 2)) w_alt (fun q => v (q mod n)%nat)
  = interp n (fun q => D_odd eps' ((INR k * x - xg n q) / 2)) w_alt v.
Proof.
  intros Hon Hok Hx.
  assert (Hokn : Nat.odd (k * n) = true) by (rewrite Nat.odd_mul, Hok, Hon; reflexivity).
  rewrite !interp_is_kernel; try assumption.
  - apply kinterp_replicates; assumption.
  - rewrite nonnode_scale. exact Hx.
Qed.

(* the two interpolants take the same set of values on their non-node points *)
Corollary interp_same_range n k eps eps' (v : nat -> R) : Nat.odd n = true -> Nat.odd k = true ->
  let I' := fun x => interp (k * n) (fun q => D_odd eps ((x - xg (k * n) q) / 2)) w_alt (fun q => v (q mod n)%nat) in
  let I  := fun y => interp n (fun q => D_odd eps' ((y - xg n q) / 2)) w_alt v in
  (forall x, sin (INR (k * n) * x / 2) <> 0 -> exists y, sin (INR n * y / 2) <> 0 /\ I y = I' x) /\
  (forall y, sin (INR n * y / 2) <> 0 -> exists x, sin (INR (k * n) * x / 2) <> 0 /\ I' x = I y).
Proof.
  intros Hon Hok I' I.
  assert (Hk0 : INR k <> 0) by (apply INR_pos_neq0; apply odd_pos; exact Hok).
  split.
  - intros x Hx. exists (INR k * x). split.
    + rewrite nonnode_scale. exact Hx.
    + unfold I, I'. symmetry. apply interp_replicates; assumption.
  - intros y Hy. exists (y / INR k).
    assert (Ey : INR k * (y / INR k) = y) by (field; exact Hk0).
    assert (Hx : sin (INR (k * n) * (y / INR k) / 2) <> 0).
    { rewrite <- nonnode_scale, Ey. exact Hy. }
    split; [exact Hx|].
    unfold I, I'. rewrite (interp_replicates n k eps eps' v (y / INR k) Hon Hok Hx). rewrite Ey. reflexivity.
Qed.

(* hence the same lower bounds (and so the same infimum / minimum over the non-node points) *)
Corollary interp_same_lower_bounds n k eps eps' (v : nat -> R) b : Nat.odd n = true -> Nat.odd k = true ->
  (forall x, sin (INR (k * n) * x / 2) <> 0 ->
     b <= interp (k * n) (fun q => D_odd eps ((x - xg (k * n) q) / 2)) w_alt (fun q => v (q mod n)%nat))
  <->
  (forall y, sin (INR n * y / 2) <> 0 ->
     b <= interp n (fun q => D_odd eps' ((y - xg n q) / 2)) w_alt v).
Proof.
  intros Hon Hok. destruct (interp_same_range n k eps eps' v Hon Hok) as [R1 R2]. cbv zeta in R1, R2.
  split.
  - intros H y Hy. destruct (R2 y Hy) as [x [Hx E]]. rewrite <- E. apply H. exact Hx.
  - intros H x Hx. destruct (R1 x Hx) as [y [Hy E]]. rewrite <- E. apply H. exact Hy.
Qed.

(* ------------------------------------------------------------------ *)
(* I6: the kernel form at the nodes, and its continuity                *)
Lemma w0_wgt n m : Nat.odd n = true -> w0 m = wgt n m.
Proof.
  intros Ho. unfold w0, wgt. destruct (m =? 0)%nat; [reflexivity|].
  destruct (Nat.eqb_spec (2 * m) n) as [E|E]; [|reflexivity].
  exfalso. apply Nat.odd_spec in Ho. destruct Ho as [M EM]. lia.
Qed.

Theorem kinterp_node n f j : Nat.odd n = true -> (j < n)%nat -> kinterp n f (xg n j) = f j.
Proof.
  intros Ho Hj. assert (Hn0 : INR n <> 0) by (apply INR_pos_neq0; lia).
  unfold kinterp.
  rewrite (rsum_ext n _ (fun k => if (k =? j)%nat then f k * INR n else 0)).
  - rewrite rsum_delta by exact Hj. field. exact Hn0.
  - intros k Hk. rewrite Dker_w0.
    rewrite (rsum_ext _ _ (fun m => wgt n m * cos (INR m * (2 * PI * INR j / INR n - 2 * PI * INR k / INR n))))
      by (intros m _; rewrite (w0_wgt n m Ho); reflexivity).
    rewrite dirichlet_diff by assumption.
    rewrite (Nat.eqb_sym k j). destruct (j =? k)%nat; ring.
Qed.

Lemma rsum_continuity_pt N (F : nat -> R -> R) x :
  (forall k, (k < N)%nat -> continuity_pt (F k) x) ->
  continuity_pt (fun y => rsum N (fun k => F k y)) x.
Proof.
  induction N; intros H; cbn [rsum].
  - apply continuity_pt_const. intros a b. reflexivity.
  - apply (continuity_pt_plus (fun y => rsum N (fun k => F k y)) (F N)).
    + apply IHN. intros k Hk. apply H. lia.
    + apply H. lia.
Qed.

Lemma Dker_shift_continuity_pt M c x : continuity_pt (fun y => Dker M (y - c)) x.
Proof.
  unfold Dker.
  apply (continuity_pt_plus (fun _ => 1) (fun y => 2 * rsum M (fun m => cos (INR (S m) * (y - c))))).
  - apply continuity_pt_const. intros a b. reflexivity.
  - apply (continuity_pt_scal (fun y => rsum M (fun m => cos (INR (S m) * (y - c)))) 2).
    apply (rsum_continuity_pt M (fun m y => cos (INR (S m) * (y - c)))). intros m _.
    apply (continuity_pt_comp (fun y => INR (S m) * (y - c)) cos); [|apply continuity_cos].
    apply (continuity_pt_scal (fun y => y - c) (INR (S m))).
    apply (continuity_pt_minus id (fun _ => c)).
    + apply derivable_continuous_pt. apply derivable_pt_id.
    + apply continuity_pt_const. intros a b. reflexivity.
Qed.

Theorem kinterp_continuous n f : continuity (kinterp n f).
Proof.
  intros x. unfold kinterp.
  apply (continuity_pt_scal (fun y => rsum n (fun k => f k * Dker (n / 2) (y - xg n k))) (/ INR n)).
  apply (rsum_continuity_pt n (fun k y => f k * Dker (n / 2) (y - xg n k))). intros k _.
  apply (continuity_pt_scal (fun y => Dker (n / 2) (y - xg n k)) (f k)).
  apply Dker_shift_continuity_pt.
Qed.

(* so the code's value at non-node points extends continuously to the nodes, with value f j there:
   this is what the eps-guard (D + eps*(D==0)) approximates *)
Corollary interp_extends n eps f : Nat.odd n = true ->
  continuity (kinterp n f) /\
  (forall x, sin (INR n * x / 2) <> 0 ->
     interp n (fun k => D_odd eps ((x - xg n k) / 2)) w_alt f = kinterp n f x) /\
  (forall j, (j < n)%nat -> kinterp n f (xg n j) = f j).
Proof.
  intros Ho. split; [apply kinterp_continuous|]. split.
  - intros x Hx. apply interp_is_kernel; assumption.
  - intros j Hj. apply kinterp_node; assumption.
Qed.

Print Assumptions dirichlet_closed.
Print Assumptions nonnode.
Print Assumptions bary_weight.
Print Assumptions interp_den_neq0.
Print Assumptions interp_is_kernel.
Print Assumptions interp_is_kernel_explicit.
Print Assumptions interp_exact_cos.
Print Assumptions interp_exact_sin.
Print Assumptions interp_exact_trigpoly.
Print Assumptions kinterp_replicates.
Print Assumptions kinterp_replicates_explicit.
Print Assumptions interp_replicates.
Print Assumptions interp_same_range.
Print Assumptions interp_same_lower_bounds.
Print Assumptions kinterp_node.
Print Assumptions kinterp_continuous.
Print Assumptions interp_extends.
