(* Instance 3: cyclic shift of the toroidal grid (property C05, shift clause of C19).
   The type system is trivial (one type, factor 1); what it tracks is which
   expressions are EQUIVARIANT: any use of a fixed grid index ([At], [Pin0])
   has no type.  pi j = (j + k) mod n. *)
From Coq Require Import Reals String List ZArith QArith Lra Lia Permutation Bool.
From QSC Require Import Expr Equiv.
Import ListNotations.
Open Scope R_scope.

Definition ShiftT : tysys := {|
  ty := unit;
  chi := fun _ => 1;
  t_eqb := fun _ _ => true;
  t_one := tt;
  t_mul := fun _ _ => tt;
  t_inv := fun _ => tt;
  t_sqrt := fun _ => Some tt;
  t_root4 := fun _ => Some tt;
  t_abs := fun _ => Some tt;
  t_sin := fun _ => Some tt;
  t_cos := fun _ => Some tt;
  t_exp := fun _ => Some tt;
  t_ext := fun _ => Some tt;
  t_dphi := fun _ => Some tt;
  t_sum := fun _ => Some tt;
  t_at := fun _ _ => None;
  t_pin := fun _ => None;
  t_fmin := fun _ => Some tt
|}.

Record shift_action_ok (n : nat) (Dm : nat -> nat -> R) (fmin : (nat -> R) -> R) (pi : nat -> nat) : Prop := {
  sh_perm : grid_perm n pi;
  sh_D : forall j k, (j < n)%nat -> (k < n)%nat -> Dm (pi j) (pi k) = Dm j k;
  sh_fmin : forall v v', (forall j, (j < n)%nat -> v' j = v (pi j)) -> fmin v' = fmin v;
  sh_fmin0 : forall v, (forall j, v j = 0) -> fmin v = 0
}.

Lemma ShiftT_ok n Dm fmin pi : shift_action_ok n Dm fmin pi -> tysys_ok n Dm fmin n Dm fmin ShiftT pi 1.
Proof.
  intros [Hperm HD Hf Hf0]. constructor; simpl; try discriminate.
  - apply (perm_range n _ Hperm).
  - apply (perm_sumlaw n _ Hperm).
  - apply (perm_maxlaw n _ Hperm).
  - apply (perm_minlaw n _ Hperm).
  - reflexivity.
  - reflexivity.
  - intros; lra.
  - intros; rewrite Rinv_1; reflexivity.
  - intros a b _ x. rewrite !Rmult_1_l. reflexivity.
  - intros a b _ x. rewrite !Rmult_1_l. reflexivity.
  - intros a b _ x. rewrite !Rmult_1_l. reflexivity.
  - intros a b _ x. rewrite !Rmult_1_l. reflexivity.
  - intros a b _ x. rewrite !Rmult_1_l. reflexivity.
  - intros a b _ x. rewrite !Rmult_1_l. reflexivity.
  - intros a b _. split; lra.
  - intros a b _. apply (perm_dphi n Dm pi Hperm). intros j k Hj Hk. rewrite (HD j k Hj Hk). ring.
  - intros a b _. ring.
  - intros a b _ v v' Hv. rewrite Rmult_1_l. apply Hf. intros j Hj. rewrite Hv by exact Hj. lra.
  - split; exact Hf0.
  - tauto.
Qed.

Definition shift_check (Gin : list (string * option unit)) (p : prog)
           (outs : list (string * unit)) (eqs : list string) : bool :=
  let G := infer_prog ShiftT (assoc_env Gin) p in
  check_outputs ShiftT G outs && check_typed ShiftT G eqs.

Definition shift_failures (Gin : list (string * option unit)) (p : prog)
           (outs : list (string * unit)) (eqs : list string) : list string :=
  let G := infer_prog ShiftT (assoc_env Gin) p in
  failing_outputs ShiftT G outs ++ untyped_names ShiftT G eqs.

Definition shifted_env (pi : nat -> nat) (rho : env) : env := fun x j => rho x (pi j).

Definition zero_ok_u (G : string -> option (option unit)) (rho : env) : Prop :=
  forall x, G x = Some None -> forall j, rho x j = 0.

(* The C05 law of one program: if every EQUIVARIANT input is replaced by its cyclic shift,
   every listed output is the cyclic shift of the original output, and listed residual
   equations that held still hold. *)
Definition shift_law (Gin : list (string * option unit)) (p : prog)
           (outs : list (string * unit)) (eqs : list string) : Prop :=
  forall (n : nat) (Dm : nat -> nat -> R) (fmin : (nat -> R) -> R) (pi : nat -> nat) (rho : env),
    shift_action_ok n Dm fmin pi -> zero_ok_u (assoc_env Gin) rho ->
    let rho' := shifted_env pi rho in
    (forall x u, In (x, u) outs -> forall j, (j < n)%nat ->
       run n Dm fmin p rho' x j = run n Dm fmin p rho x (pi j))
    /\
    (forall x, In x eqs -> (forall j, (j < n)%nat -> run n Dm fmin p rho x j = 0) ->
       forall j, (j < n)%nat -> run n Dm fmin p rho' x j = 0).

Theorem shift_check_sound Gin p outs eqs :
  shift_check Gin p outs eqs = true -> shift_law Gin p outs eqs.
Proof.
  unfold shift_check. intros Hc. apply andb_true_iff in Hc. destruct Hc as [Hc1 Hc2].
  intros n Dm fmin pi rho Hact Hz rho'.
  pose proof (ShiftT_ok n Dm fmin pi Hact) as OK.
  assert (HG : env_rel n ShiftT pi (assoc_env Gin) rho rho').
  { intros y t Hy. unfold rho', shifted_env. destruct t as [u|]; simpl.
    - intros k _. lra.
    - split; intros k; apply (Hz y Hy). }
  split.
  - intros x u Hin j Hj.
    pose proof (check_outputs_sound n Dm fmin n Dm fmin ShiftT pi 1 OK (assoc_env Gin) p outs rho rho' HG Hc1 x u Hin j Hj) as H.
    simpl in H. rewrite H. lra.
  - intros x Hin H0 j Hj.
    apply (check_typed_sound n Dm fmin n Dm fmin ShiftT pi 1 OK (assoc_env Gin) p eqs rho rho' HG Hc2 x Hin H0 j Hj).
Qed.
