(* Deep embedding of the straight-line numpy formula language used by pyQSC,
   with its real-number semantics on a periodic grid of n points.
   Every value is a function  grid-index -> R ; a scalar is a constant function.
   [Dphi] is the application of the periodic differentiation matrix [Dm]. *)
From Coq Require Import Reals String List ZArith QArith Qreals Lra Lia Permutation.
Import ListNotations.
Open Scope R_scope.

Inductive expr : Type :=
| Cst (q : Q)
| CPi
| CMu0
| Var (x : string)
| Neg (a : expr)
| Add (a b : expr)
| Sub (a b : expr)
| Mul (a b : expr)
| Div (a b : expr)
| Pow (a : expr) (k : nat)
| Sqrt (a : expr)
| Root4 (a : expr)
| Abs (a : expr)
| Sin (a : expr)
| Cos (a : expr)
| Exp (a : expr)
| Dphi (a : expr)
| Sum (a : expr)
| MaxG (a : expr)
| MinG (a : expr)
| At (a : expr) (i : nat)
| Pin0 (a b : expr)      (* a with element 0 replaced by (scalar) b *)
| FMin (a : expr).       (* util.fourier_minimum: oracle, see [fmin] *)

Definition env := string -> nat -> R.
Definition prog := list (string * expr).

(* ---------- finite sums / extrema over the grid ---------- *)
Definition lsum (l : list R) : R := fold_right Rplus 0 l.
Definition lmax (l : list R) : R :=
  match l with [] => 0 | x :: xs => fold_right Rmax x xs end.
Definition lmin (l : list R) : R :=
  match l with [] => 0 | x :: xs => fold_right Rmin x xs end.

Lemma lsum_perm l l' : Permutation l l' -> lsum l = lsum l'.
Proof.
  induction 1; unfold lsum in *; simpl; lra.
Qed.

Lemma lsum_scal c l : lsum (map (fun x => c * x) l) = c * lsum l.
Proof. induction l as [|x l IH]; simpl; [lra|rewrite IH; lra]. Qed.

Lemma lsum_ext {A} (f g : A -> R) l :
  (forall x, In x l -> f x = g x) -> lsum (map f l) = lsum (map g l).
Proof.
  induction l as [|x l IH]; simpl; intros H; [reflexivity|].
  rewrite (H x) by (left; reflexivity). rewrite IH; [reflexivity|].
  intros y Hy; apply H; right; exact Hy.
Qed.

Lemma lsum_zero {A} (f : A -> R) l :
  (forall x, In x l -> f x = 0) -> lsum (map f l) = 0.
Proof.
  induction l as [|x l IH]; simpl; intros H; [reflexivity|].
  rewrite (H x) by (left; reflexivity). rewrite IH; [lra|].
  intros y Hy; apply H; right; exact Hy.
Qed.

Lemma lsum_plus {A} (f g : A -> R) l :
  lsum (map (fun x => f x + g x) l) = lsum (map f l) + lsum (map g l).
Proof. induction l as [|x l IH]; simpl; [lra|rewrite IH; lra]. Qed.

(* characterisation of lmax of a non-empty list *)
Lemma foldmax_spec xs : forall x,
  (In (fold_right Rmax x xs) (x :: xs)) /\
  (forall y, In y (x :: xs) -> y <= fold_right Rmax x xs).
Proof.
  induction xs as [|z zs IH]; intros x; simpl.
  - split; [left; reflexivity|]. intros y [<-|[]]; lra.
  - destruct (IH x) as [Hin Hub]. split.
    + destruct (Rle_dec z (fold_right Rmax x zs)) as [Hle|Hnle].
      * rewrite Rmax_right by exact Hle.
        simpl in Hin. destruct Hin as [Hin|Hin]; [left; exact Hin|right; right; exact Hin].
      * rewrite Rmax_left by lra. right; left; reflexivity.
    + intros y [<-|[<-|Hy]].
      * eapply Rle_trans; [apply Hub; left; reflexivity|apply Rmax_r].
      * apply Rmax_l.
      * eapply Rle_trans; [apply Hub; right; exact Hy|apply Rmax_r].
Qed.

Lemma lmax_spec l : l <> [] ->
  In (lmax l) l /\ (forall y, In y l -> y <= lmax l).
Proof. destruct l as [|x xs]; [congruence|]. intros _. apply foldmax_spec. Qed.

Lemma lmax_unique l m : In m l -> (forall y, In y l -> y <= m) -> lmax l = m.
Proof.
  intros Hin Hub. assert (Hne : l <> []) by (destruct l; [destruct Hin|congruence]).
  destruct (lmax_spec l Hne) as [Hin' Hub']. apply Rle_antisym; auto.
Qed.

Lemma lmax_perm l l' : Permutation l l' -> lmax l = lmax l'.
Proof.
  intros HP. destruct l as [|x xs].
  - apply Permutation_nil in HP; subst; reflexivity.
  - assert (Hne : x :: xs <> []) by congruence.
    destruct (lmax_spec _ Hne) as [Hin Hub]. symmetry. apply lmax_unique.
    + eapply Permutation_in; eauto.
    + intros y Hy. apply Hub. eapply Permutation_in; [apply Permutation_sym|]; eauto.
Qed.

Lemma lmax_scal c l : 0 < c -> lmax (map (fun x => c * x) l) = c * lmax l.
Proof.
  intros Hc. destruct l as [|x xs]; [simpl; lra|].
  assert (Hne : x :: xs <> []) by congruence.
  destruct (lmax_spec _ Hne) as [Hin Hub]. apply lmax_unique.
  - apply in_map_iff. exists (lmax (x :: xs)); split; auto.
  - intros y Hy. apply in_map_iff in Hy. destruct Hy as [z [<- Hz]].
    apply Rmult_le_compat_l; [lra|auto].
Qed.

Lemma lmin_neg l : lmin l = - lmax (map Ropp l).
Proof.
  destruct l as [|x xs]; [simpl; lra|]. simpl.
  induction xs as [|z zs IH]; simpl; [lra|].
  rewrite IH. set (m := fold_right Rmax (- x) (map Ropp zs)).
  destruct (Rle_dec z (- m)) as [H|H].
  - rewrite Rmin_left by exact H. destruct (Rle_dec (- z) m) as [H'|H'].
    + rewrite Rmax_right by exact H'. lra.
    + rewrite Rmax_left by lra. lra.
  - rewrite Rmin_right by lra. rewrite Rmax_right by lra. lra.
Qed.

Lemma lmin_perm l l' : Permutation l l' -> lmin l = lmin l'.
Proof. intros HP. rewrite !lmin_neg. f_equal. apply lmax_perm. apply Permutation_map; exact HP. Qed.

Lemma lmin_scal c l : 0 < c -> lmin (map (fun x => c * x) l) = c * lmin l.
Proof.
  intros Hc. rewrite !lmin_neg. rewrite map_map.
  replace (map (fun x => - (c * x)) l) with (map (fun x => c * x) (map Ropp l)).
  - rewrite lmax_scal by exact Hc. lra.
  - rewrite map_map. apply map_ext. intros; lra.
Qed.

Lemma lmax_ext {A} (f g : A -> R) l :
  (forall x, In x l -> f x = g x) -> lmax (map f l) = lmax (map g l).
Proof. intros H. f_equal. apply map_ext_in. exact H. Qed.

Section Eval.
  Variable n : nat.
  Variable Dm : nat -> nat -> R.
  (* the spectral-minimum oracle (scipy's Brent search on the trigonometric
     interpolant); only the laws listed as hypotheses of the instance theorems
     are assumed of it *)
  Variable fmin : (nat -> R) -> R.

  Definition grid : list nat := seq 0 n.
  Definition gsum (f : nat -> R) : R := lsum (map f grid).
  Definition gmax (f : nat -> R) : R := lmax (map f grid).
  Definition gmin (f : nat -> R) : R := lmin (map f grid).

  Definition mu0R : R := 4 * PI * / 10000000.

  Fixpoint eval (rho : env) (e : expr) (j : nat) {struct e} : R :=
    match e with
    | Cst q => Q2R q
    | CPi => PI
    | CMu0 => mu0R
    | Var x => rho x j
    | Neg a => - eval rho a j
    | Add a b => eval rho a j + eval rho b j
    | Sub a b => eval rho a j - eval rho b j
    | Mul a b => eval rho a j * eval rho b j
    | Div a b => eval rho a j / eval rho b j
    | Pow a k => (eval rho a j) ^ k
    | Sqrt a => sqrt (eval rho a j)
    | Root4 a => sqrt (sqrt (eval rho a j))
    | Abs a => Rabs (eval rho a j)
    | Sin a => sin (eval rho a j)
    | Cos a => cos (eval rho a j)
    | Exp a => exp (eval rho a j)
    | Dphi a => gsum (fun k => Dm j k * eval rho a k)
    | Sum a => gsum (fun k => eval rho a k)
    | MaxG a => gmax (fun k => eval rho a k)
    | MinG a => gmin (fun k => eval rho a k)
    | At a i => eval rho a i
    | Pin0 a b => if Nat.eqb j 0 then eval rho b j else eval rho a j
    | FMin a => fmin (fun k => eval rho a k)
    end.

  Definition upd (rho : env) (x : string) (v : nat -> R) : env :=
    fun y => if String.eqb y x then v else rho y.

  Fixpoint run (p : prog) (rho : env) : env :=
    match p with
    | [] => rho
    | (x, e) :: p' => run p' (upd rho x (eval rho e))
    end.

  (* re-indexing of grid sums / extrema by a permutation of the grid *)
  Definition grid_perm (pi : nat -> nat) : Prop := Permutation (map pi grid) grid.

  Lemma gsum_reindex pi f : grid_perm pi -> gsum (fun k => f (pi k)) = gsum f.
  Proof.
    intros HP. unfold gsum. rewrite <- (map_map pi f). apply lsum_perm.
    apply Permutation_map. exact HP.
  Qed.
  Lemma gmax_reindex pi f : grid_perm pi -> gmax (fun k => f (pi k)) = gmax f.
  Proof.
    intros HP. unfold gmax. rewrite <- (map_map pi f). apply lmax_perm.
    apply Permutation_map. exact HP.
  Qed.
  Lemma gmin_reindex pi f : grid_perm pi -> gmin (fun k => f (pi k)) = gmin f.
  Proof.
    intros HP. unfold gmin. rewrite <- (map_map pi f). apply lmin_perm.
    apply Permutation_map. exact HP.
  Qed.

  Lemma gsum_ext f g : (forall k, (k < n)%nat -> f k = g k) -> gsum f = gsum g.
  Proof. intros H. apply lsum_ext. intros k Hk. apply in_seq in Hk. apply H. lia. Qed.
  Lemma gmax_ext f g : (forall k, (k < n)%nat -> f k = g k) -> gmax f = gmax g.
  Proof. intros H. apply lmax_ext. intros k Hk. apply in_seq in Hk. apply H. lia. Qed.
  Lemma gmin_ext f g : (forall k, (k < n)%nat -> f k = g k) -> gmin f = gmin g.
  Proof. intros H. unfold gmin. f_equal. apply map_ext_in. intros k Hk. apply in_seq in Hk. apply H. lia. Qed.
  Lemma gsum_scal c f : gsum (fun k => c * f k) = c * gsum f.
  Proof. unfold gsum. rewrite <- (map_map f (fun x => c * x)). apply lsum_scal. Qed.
  Lemma gmax_scal c f : 0 < c -> gmax (fun k => c * f k) = c * gmax f.
  Proof. intros Hc. unfold gmax. rewrite <- (map_map f (fun x => c * x)). apply lmax_scal; exact Hc. Qed.
  Lemma gmin_scal c f : 0 < c -> gmin (fun k => c * f k) = c * gmin f.
  Proof. intros Hc. unfold gmin. rewrite <- (map_map f (fun x => c * x)). apply lmin_scal; exact Hc. Qed.
  Lemma gsum_zero f : (forall k, (k < n)%nat -> f k = 0) -> gsum f = 0.
  Proof. intros H. apply lsum_zero. intros k Hk. apply in_seq in Hk. apply H. lia. Qed.
  Lemma gsum_plus f g : gsum (fun k => f k + g k) = gsum f + gsum g.
  Proof. apply lsum_plus. Qed.
  Lemma pi_in_grid pi : grid_perm pi -> forall j, (j < n)%nat -> (pi j < n)%nat.
  Proof.
    intros HP j Hj. assert (In (pi j) grid).
    { eapply Permutation_in; [exact HP|]. apply in_map. apply in_seq. lia. }
    apply in_seq in H. lia.
  Qed.
End Eval.
