(* The [stage] hypotheses of the multi-program theorems are realised by an actual
   sequential run.

   Many theorems have the form
       stage O P1 S V1 -> stage O P2 S V2 -> ... -> <identity about the object state S>
   where S gives the value of every attribute (names starting with "s.") and Vk is a model
   of program Pk agreeing with S on attributes.  Here the programs are simply run one after
   the other on one environment, as [Qsc.calculate()] does, and the hypotheses are shown to
   hold for  S := the final environment,  Vk := (S on attributes, the environment right after
   program k on every other name)  -- provided no later program re-binds an attribute that an
   earlier program binds or reads ([pipeline_ok], a computable check). *)
From Coq Require Import Reals String List Bool QArith FunctionalExtensionality.
From QSC Require Import Expr Shallow.
Import ListNotations.
Open Scope R_scope.

Fixpoint run_all {I} (O : ops I) (ps : list prog) (rho : envG) : envG :=
  match ps with [] => rho | p :: ps' => run_all O ps' (runG O p rho) end.

(* environment right after the k-th program *)
Definition env_after {I} (O : ops I) (ps : list prog) (k : nat) (rho : envG) : envG :=
  run_all O (firstn (S k) ps) rho.

(* attributes a program touches: attribute names it binds or reads *)
Definition touched (p : prog) : list string :=
  filter is_attr (names p ++ flat_map (fun xe => vars (snd xe)) p).

(* no later program re-binds an attribute an earlier program touches *)
Fixpoint pipeline_ok (ps : list prog) : bool :=
  match ps with
  | [] => true
  | p :: ps' =>
      ssa p
      && forallb (fun q => forallb (fun a => negb (memb a (names q))) (touched p)) ps'
      && pipeline_ok ps'
  end.

Definition model_of {I} (S envk : string -> I -> R) : string -> I -> R :=
  fun x => if is_attr x then S x else envk x.

(* ---- run_all: elementary facts ---- *)
Lemma run_all_app {I} (O : ops I) (ps qs : list prog) (rho : @envG I) :
  run_all O (ps ++ qs) rho = run_all O qs (run_all O ps rho).
Proof.
  revert rho. induction ps as [|p ps IH]; intros rho; simpl; [reflexivity|]. apply IH.
Qed.

(* a name bound by none of the programs is left unchanged by the whole run *)
Lemma run_all_unbound {I} (O : ops I) (ps : list prog) :
  forall (rho : @envG I) y, (forall q, In q ps -> ~ In y (names q)) -> run_all O ps rho y = rho y.
Proof.
  induction ps as [|p ps IH]; intros rho y H; simpl; [reflexivity|].
  rewrite IH by (intros q Hq; apply H; right; exact Hq).
  apply runG_unbound. apply H. left; reflexivity.
Qed.

Lemma run_all_input {I} (O : ops I) (ps : list prog) (rho : @envG I) y :
  forallb (fun q => negb (memb y (names q))) ps = true -> run_all O ps rho y = rho y.
Proof.
  intros H. apply run_all_unbound. intros q Hq.
  rewrite forallb_forall in H. specialize (H q Hq).
  apply negb_true_iff in H. apply memb_false. exact H.
Qed.

(* the whole run = the run up to (and including) program k, then the rest *)
Lemma run_all_split {I} (O : ops I) (ps : list prog) (k : nat) (rho : @envG I) :
  run_all O ps rho = run_all O (skipn (S k) ps) (env_after O ps k rho).
Proof.
  unfold env_after. rewrite <- run_all_app. rewrite firstn_skipn. reflexivity.
Qed.

(* the environment after program k is the result of running p on some environment *)
Lemma env_after_runG {I} (O : ops I) (ps : list prog) :
  forall k (rho : @envG I) p, nth_error ps k = Some p ->
    env_after O ps k rho = runG O p (run_all O (firstn k ps) rho).
Proof.
  unfold env_after. induction ps as [|q ps IH]; intros k rho p Hk.
  - destruct k; discriminate.
  - destruct k as [|k].
    + simpl in Hk. injection Hk as ->. reflexivity.
    + simpl in Hk. change (firstn (S (S k)) (q :: ps)) with (q :: firstn (S k) ps).
      change (firstn (S k) (q :: ps)) with (q :: firstn k ps).
      cbn [run_all]. apply IH. exact Hk.
Qed.

(* ---- what pipeline_ok gives for the k-th program ---- *)
Lemma pipeline_ok_nth (ps : list prog) :
  pipeline_ok ps = true -> forall k p, nth_error ps k = Some p ->
    ssa p = true /\
    forall q, In q (skipn (S k) ps) -> forall a, In a (touched p) -> ~ In a (names q).
Proof.
  induction ps as [|p0 ps IH]; intros Hok k p Hk.
  - destruct k; discriminate.
  - cbn [pipeline_ok] in Hok.
    apply andb_true_iff in Hok. destruct Hok as [Hok H3].
    apply andb_true_iff in Hok. destruct Hok as [H1 H2].
    destruct k as [|k].
    + simpl in Hk. injection Hk as ->. split; [exact H1|].
      intros q Hq a Ha. simpl in Hq.
      rewrite forallb_forall in H2. specialize (H2 q Hq).
      rewrite forallb_forall in H2. specialize (H2 a Ha).
      apply negb_true_iff in H2. apply memb_false. exact H2.
    + simpl in Hk. change (skipn (S (S k)) (p0 :: ps)) with (skipn (S k) ps).
      apply IH; assumption.
Qed.

Lemma pipeline_ok_ssa (ps : list prog) k p :
  pipeline_ok ps = true -> nth_error ps k = Some p -> ssa p = true.
Proof. intros Hok Hk. exact (proj1 (pipeline_ok_nth ps Hok k p Hk)). Qed.

(* ---- names / vars of a program ---- *)
Lemma defn_In (p : prog) x e : defn p x = Some e -> In (x, e) p.
Proof.
  induction p as [|[y e'] p IH]; intros H; [discriminate|].
  cbn [defn] in H. destruct (String.eqb x y) eqn:E.
  - injection H as ->. apply String.eqb_eq in E. subst. left; reflexivity.
  - right. apply IH. exact H.
Qed.

Lemma touched_name (p : prog) x e :
  defn p x = Some e -> is_attr x = true -> In x (touched p).
Proof.
  intros Hd Ha. unfold touched. apply filter_In. split; [|exact Ha].
  apply in_or_app. left. unfold names.
  apply defn_In in Hd. exact (in_map fst p (x, e) Hd).
Qed.

Lemma touched_var (p : prog) x e y :
  defn p x = Some e -> In y (vars e) -> is_attr y = true -> In y (touched p).
Proof.
  intros Hd Hy Ha. unfold touched. apply filter_In. split; [|exact Ha].
  apply in_or_app. right. apply in_flat_map. exists (x, e). split; [|exact Hy].
  apply defn_In. exact Hd.
Qed.

(* ---- the final state agrees with the environment after program k on touched p ---- *)
Lemma final_agrees_touched {I} (O : ops I) (ps : list prog) :
  pipeline_ok ps = true -> forall (rho : @envG I) k p, nth_error ps k = Some p ->
    forall a, In a (touched p) -> run_all O ps rho a = env_after O ps k rho a.
Proof.
  intros Hok rho k p Hk a Ha.
  rewrite (run_all_split O ps k rho). apply run_all_unbound.
  intros q Hq. exact (proj2 (pipeline_ok_nth ps Hok k p Hk) q Hq a Ha).
Qed.

(* model_of S E coincides with E on every name p binds or reads *)
Lemma model_of_touched {I} (S E : string -> I -> R) (p : prog) :
  (forall a, In a (touched p) -> S a = E a) ->
  forall x e, defn p x = Some e ->
    model_of S E x = E x /\ forall y, In y (vars e) -> model_of S E y = E y.
Proof.
  intros HSE x e Hd. unfold model_of. split.
  - destruct (is_attr x) eqn:Ex; [|reflexivity]. apply HSE. exact (touched_name p x e Hd Ex).
  - intros y Hy. destruct (is_attr y) eqn:Ey; [|reflexivity].
    apply HSE. exact (touched_var p x e y Hd Hy Ey).
Qed.

(* ---- main theorem ---- *)
Theorem pipeline_stage {I} (O : ops I) (ps : list prog) :
  pipeline_ok ps = true -> forall (rho : @envG I) k p, nth_error ps k = Some p ->
    let S := run_all O ps rho in stage O p S (model_of S (env_after O ps k rho)).
Proof.
  intros Hok rho k p Hk S. split.
  - intros x e Hd.
    destruct (model_of_touched S (env_after O ps k rho) p
                (final_agrees_touched O ps Hok rho k p Hk) x e Hd) as [Hx Hv].
    rewrite Hx. rewrite (evalG_ext O _ _ e Hv).
    rewrite (env_after_runG O ps k rho p Hk).
    apply runG_is_fix; [|exact Hd]. exact (pipeline_ok_ssa ps k p Hok Hk).
  - intros x Hx. unfold model_of. rewrite Hx. reflexivity.
Qed.

(* ---- corollaries: a predicate of the object state that follows from stage hypotheses
   holds of the final state of the run ---- *)
Section Apply.
  Context {I : Type} (O : ops I) (ps : list prog) (rho : @envG I).
  Local Notation state := (string -> I -> R).

  Theorem pipeline_apply1 (k1 : nat) (p1 : prog) (Q : state -> Prop) :
    pipeline_ok ps = true ->
    nth_error ps k1 = Some p1 ->
    (forall S V1, stage O p1 S V1 -> Q S) ->
    Q (run_all O ps rho).
  Proof.
    intros Hok H1 HQ.
    exact (HQ _ _ (pipeline_stage O ps Hok rho k1 p1 H1)).
  Qed.

  Theorem pipeline_apply2 (k1 k2 : nat) (p1 p2 : prog) (Q : state -> Prop) :
    pipeline_ok ps = true ->
    nth_error ps k1 = Some p1 -> nth_error ps k2 = Some p2 ->
    (forall S V1 V2, stage O p1 S V1 -> stage O p2 S V2 -> Q S) ->
    Q (run_all O ps rho).
  Proof.
    intros Hok H1 H2 HQ.
    exact (HQ _ _ _ (pipeline_stage O ps Hok rho k1 p1 H1) (pipeline_stage O ps Hok rho k2 p2 H2)).
  Qed.

  Theorem pipeline_apply3 (k1 k2 k3 : nat) (p1 p2 p3 : prog) (Q : state -> Prop) :
    pipeline_ok ps = true ->
    nth_error ps k1 = Some p1 -> nth_error ps k2 = Some p2 -> nth_error ps k3 = Some p3 ->
    (forall S V1 V2 V3, stage O p1 S V1 -> stage O p2 S V2 -> stage O p3 S V3 -> Q S) ->
    Q (run_all O ps rho).
  Proof.
    intros Hok H1 H2 H3 HQ.
    exact (HQ _ _ _ _ (pipeline_stage O ps Hok rho k1 p1 H1) (pipeline_stage O ps Hok rho k2 p2 H2)
              (pipeline_stage O ps Hok rho k3 p3 H3)).
  Qed.

  Theorem pipeline_apply4 (k1 k2 k3 k4 : nat) (p1 p2 p3 p4 : prog) (Q : state -> Prop) :
    pipeline_ok ps = true ->
    nth_error ps k1 = Some p1 -> nth_error ps k2 = Some p2 ->
    nth_error ps k3 = Some p3 -> nth_error ps k4 = Some p4 ->
    (forall S V1 V2 V3 V4,
        stage O p1 S V1 -> stage O p2 S V2 -> stage O p3 S V3 -> stage O p4 S V4 -> Q S) ->
    Q (run_all O ps rho).
  Proof.
    intros Hok H1 H2 H3 H4 HQ.
    exact (HQ _ _ _ _ _ (pipeline_stage O ps Hok rho k1 p1 H1) (pipeline_stage O ps Hok rho k2 p2 H2)
              (pipeline_stage O ps Hok rho k3 p3 H3) (pipeline_stage O ps Hok rho k4 p4 H4)).
  Qed.
End Apply.

(* ---- example: two tiny programs sharing the local name "t" ---- *)
Module PipelineExample.
  Open Scope string_scope.
  Definition p1 : prog :=
    [ ("t", Add (Var "x") (Cst 1%Q));
      ("s.a", Var "t") ].
  Definition p2 : prog :=
    [ ("t", Cst 2%Q);
      ("s.b", Mul (Var "s.a") (Var "t")) ].

  Example ex_ok : pipeline_ok [p1; p2] = true.
  Proof. vm_compute. reflexivity. Qed.

  (* the order matters: p2 reads "s.a", which the later p1 would re-bind *)
  Example ex_not_ok : pipeline_ok [p2; p1] = false.
  Proof. vm_compute. reflexivity. Qed.

  (* the theorem instantiates *)
  Example ex_stage1 {I} (O : ops I) (rho : @envG I) :
    let S := run_all O [p1; p2] rho in stage O p1 S (model_of S (env_after O [p1; p2] 0 rho)).
  Proof. exact (pipeline_stage O [p1; p2] ex_ok rho 0%nat p1 eq_refl). Qed.

  Example ex_stage2 {I} (O : ops I) (rho : @envG I) :
    let S := run_all O [p1; p2] rho in stage O p2 S (model_of S (env_after O [p1; p2] 1 rho)).
  Proof. exact (pipeline_stage O [p1; p2] ex_ok rho 1%nat p2 eq_refl). Qed.

  (* a two-stage identity about the object state, stated as the project's theorems are ... *)
  Lemma ex_identity {I} (O : ops I) (S V1 V2 : string -> I -> R) :
    stage O p1 S V1 -> stage O p2 S V2 ->
    forall i, S "s.b" i = S "s.a" i * 2 /\ S "s.a" i = V1 "x" i + 1.
  Proof.
    intros H1 H2 i. split.
    - rewrite <- (st_agree _ _ _ _ H2 "s.b" eq_refl).
      rewrite (st_fix _ _ _ _ H2 "s.b" _ eq_refl). cbn [evalG].
      rewrite (st_fix _ _ _ _ H2 "t" _ eq_refl). cbn [evalG].
      rewrite (st_agree _ _ _ _ H2 "s.a" eq_refl).
      unfold Q2R; simpl. rewrite Rinv_1, Rmult_1_r. reflexivity.
    - rewrite <- (st_agree _ _ _ _ H1 "s.a" eq_refl).
      rewrite (st_fix _ _ _ _ H1 "s.a" _ eq_refl). cbn [evalG].
      rewrite (st_fix _ _ _ _ H1 "t" _ eq_refl). cbn [evalG].
      unfold Q2R; simpl. rewrite Rinv_1, Rmult_1_r. reflexivity.
  Qed.

  (* ... and discharged for the actual sequential run by pipeline_apply2 *)
  Example ex_run {I} (O : ops I) (rho : @envG I) :
    forall i, run_all O [p1; p2] rho "s.b" i = run_all O [p1; p2] rho "s.a" i * 2.
  Proof.
    apply (pipeline_apply2 O [p1; p2] rho 0 1 p1 p2
             (fun S => forall i, S "s.b" i = S "s.a" i * 2) ex_ok eq_refl eq_refl).
    intros S V1 V2 H1 H2 i. exact (proj1 (ex_identity O S V1 V2 H1 H2 i)).
  Qed.
End PipelineExample.

Print Assumptions pipeline_stage.
Print Assumptions pipeline_apply4.
Print Assumptions PipelineExample.ex_run.
