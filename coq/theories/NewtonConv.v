(* ====================================================================== *)
(*  NewtonConv.v -- CONVERGENCE of the control model of qsc/newton.py     *)
(*                                                                        *)
(*  Newton.v proves SAFETY laws of the control model  newton_ctl  (never  *)
(*  worse than x0, no warning => small residual, ...).  This file adds    *)
(*  the missing LIVENESS half of the property text                        *)
(*     the Newton solver ... converges to tolerance on smooth             *)
(*     well-posed systems.                                                *)
(*                                                                        *)
(*  PART A  (control model, N := R).  If the stream of residual norms     *)
(*     contracts with a factor q < 1 as long as the tolerance is not met  *)
(*     ([contracts]), then every iteration accepts its FIRST line-search  *)
(*     trial (A1), norms k <= q^k * norms 0 (A2), and as soon as          *)
(*     q^m * norms 0 < tol for some m < niter the run ends with           *)
(*     achieved = true, warned = false, best = first index below tol (A3).*)
(*     The corner  (tolerance first met at evaluation niter)  is          *)
(*     characterised exactly too (achieved = false, warning decided by    *)
(*     the norm BEFORE the last step), with a concrete spurious-warning   *)
(*     example.                                                           *)
(*                                                                        *)
(*  PART B  (why smooth well-posed scalar systems contract).  Order-2     *)
(*     Taylor-Lagrange on a closed interval, either orientation, proved   *)
(*     from the stdlib mean value theorem; the one-dimensional            *)
(*     Newton-Kantorovich step  |f x'| <= M/(2 m^2) (f x)^2 ; the scalar  *)
(*     Newton iteration; and the headline  newton_converges_scalar .      *)
(*                                                                        *)
(*  Index conventions (as in Newton.v): evaluation 0 is f(x0); when every *)
(*  first trial is accepted, evaluation k is f at the k-th Newton iterate *)
(*  and python iteration jnewton = k starts with residual_norm = norms k. *)
(* ====================================================================== *)

From Coq Require Import List Arith Bool Lia Reals Lra.
From Coquelicot Require Import Coquelicot.
From QSC Require Import Newton.
Import ListNotations.

Local Open Scope R_scope.

(* ---------------------------------------------------------------------- *)
(*  The comparisons on R                                                  *)
(* ---------------------------------------------------------------------- *)

Definition Rltb (a b : R) : bool := if Rlt_dec a b then true else false.
Definition Rleb (a b : R) : bool := if Rle_dec a b then true else false.

Lemma Rltb_true : forall a b, Rltb a b = true <-> a < b.
Proof. intros a b. unfold Rltb. destruct (Rlt_dec a b); split; auto; discriminate. Qed.

Lemma Rltb_false : forall a b, Rltb a b = false <-> b <= a.
Proof.
  intros a b. unfold Rltb. destruct (Rlt_dec a b); split; auto; try discriminate; lra.
Qed.

Lemma Rleb_true : forall a b, Rleb a b = true <-> a <= b.
Proof. intros a b. unfold Rleb. destruct (Rle_dec a b); split; auto; discriminate. Qed.

Lemma Rleb_false : forall a b, Rleb a b = false <-> b < a.
Proof.
  intros a b. unfold Rleb. destruct (Rle_dec a b); split; auto; try discriminate; lra.
Qed.

(* The three order hypotheses of Newton.v hold for this instance, so every
   safety theorem of Newton.v applies to it. *)
Lemma Rltb_trans : forall a b c, Rltb a b = true -> Rltb b c = true -> Rltb a c = true.
Proof. intros a b c. rewrite !Rltb_true. lra. Qed.
Lemma Rltb_irrefl : forall a, Rltb a a = false.
Proof. intros a. apply Rltb_false. lra. Qed.
Lemma Rltb_Rleb_trans : forall a b c, Rltb a b = true -> Rleb b c = true -> Rleb a c = true.
Proof. intros a b c. rewrite Rltb_true, !Rleb_true. lra. Qed.

(* A line search whose first trial decreases the norm accepts it at once:
   exactly one evaluation. *)
Lemma linesearch_first : forall (norms : nat -> R) nls lst cur k,
  (1 <= nls)%nat -> norms k < lst ->
  linesearch Rltb norms nls lst cur k = (Some k, norms k, S k).
Proof.
  intros norms nls lst cur k Hn Hlt. destruct nls as [|n]; [lia|].
  simpl. apply Rltb_true in Hlt. rewrite Hlt. reflexivity.
Qed.

(* ====================================================================== *)
(*  PART A                                                                *)
(* ====================================================================== *)

Section PartA.

Variables tol tol4 : R.
Variable nls : nat.
Variable norms : nat -> R.
Variable q : R.

Notation outerR  := (outer Rltb Rleb tol tol4 nls norms).
Notation finishR := (finish Rleb tol4).
Notation ctl     := (newton_ctl Rltb Rleb tol tol4 nls norms).
Notation acc     := (accepted Rltb Rleb tol tol4 nls norms).

(* The contraction hypothesis on the evaluations lo <= k < hi :
   when evaluation k has not met the tolerance, its norm is positive and the
   NEXT evaluation (the full Newton step from it) is smaller by the factor q.
   (With 0 < tol the positivity is automatic: [contracts_of_pos_tol].) *)
Definition contracts (lo hi : nat) : Prop :=
  forall k, (lo <= k < hi)%nat -> tol <= norms k ->
            0 < norms k /\ norms (S k) <= q * norms k.

Lemma contracts_of_pos_tol : forall lo hi,
  0 < tol ->
  (forall k, (lo <= k < hi)%nat -> tol <= norms k -> norms (S k) <= q * norms k) ->
  contracts lo hi.
Proof. intros lo hi Ht H k Hk Hn. split; [lra | auto]. Qed.

Lemma contracts_weaken : forall lo hi lo' hi',
  (lo <= lo')%nat -> (hi' <= hi)%nat -> contracts lo hi -> contracts lo' hi'.
Proof. intros lo hi lo' hi' H1 H2 H k Hk. apply H. lia. Qed.

(* The ghost trace of a run in which every first trial is accepted:
   (j+1, norms j), (j+2, norms (j+1)), ..., (j+d, norms (j+d-1)). *)
Definition trace (j d : nat) : list (nat * R) :=
  map (fun i => (S i, norms i)) (seq j d).

Lemma trace_fst : forall j d, map fst (trace j d) = seq (S j) d.
Proof.
  intros j d. unfold trace. rewrite map_map. simpl. rewrite <- seq_shift.
  reflexivity.
Qed.

Lemma trace_length : forall j d, length (trace j d) = d.
Proof. intros. unfold trace. rewrite map_length, seq_length. reflexivity. Qed.

Hypothesis Hq   : 0 <= q < 1.
Hypothesis Hnls : (1 <= nls)%nat.

(* One python iteration, from an accepted point j whose norm has not met the
   tolerance: the first trial S j is accepted, nothing else is evaluated. *)
Lemma outer_step : forall n j lst,
  tol <= norms j -> 0 < norms j -> norms (S j) <= q * norms j ->
  outerR (S n) j (norms j) lst (S j) =
    (fst (outerR n (S j) (norms (S j)) (norms j) (S (S j))),
     (S j, norms j) :: snd (outerR n (S j) (norms (S j)) (norms j) (S (S j)))).
Proof using Hq Hnls.
  intros n j lst Ht Hp Hc.
  assert (Hlt : norms (S j) < norms j) by nra.
  cbn [outer].
  assert (E1 : Rltb (norms j) tol = false) by (apply Rltb_false; exact Ht).
  rewrite E1.
  rewrite (linesearch_first norms nls (norms j) (norms j) (S j) Hnls Hlt).
  apply Rltb_true in Hlt. rewrite Hlt. cbn [negb].
  destruct (outerR n (S j) (norms (S j)) (norms j) (S (S j))) as [r t].
  reflexivity.
Qed.

(* The tolerance is first met at evaluation j+d, and iterations remain:
   exit through line 33-35 at python iteration j+d. *)
Lemma outer_first_hit : forall d n j lst,
  (d < n)%nat ->
  contracts j (j + d) ->
  (forall i, (j <= i < j + d)%nat -> tol <= norms i) ->
  norms (j + d) < tol ->
  outerR n j (norms j) lst (S j) =
    (finishR (j + d)%nat (norms (j + d)) (S (j + d)) true, trace j d).
Proof using Hq Hnls.
  induction d as [|d IH]; intros n j lst Hn Hc Hge Hlt.
  - destruct n as [|n]; [lia|]. rewrite Nat.add_0_r in *.
    cbn [outer]. apply Rltb_true in Hlt. rewrite Hlt. reflexivity.
  - destruct n as [|n]; [lia|].
    assert (Hj : tol <= norms j) by (apply Hge; lia).
    destruct (Hc j ltac:(lia) Hj) as [Hp Hs].
    rewrite (outer_step n j lst Hj Hp Hs).
    replace (j + S d)%nat with (S j + d)%nat in * by lia.
    rewrite (IH n (S j) (norms j)); try lia.
    + reflexivity.
    + eapply contracts_weaken; [| |exact Hc]; lia.
    + intros i Hi. apply Hge. lia.
    + exact Hlt.
Qed.

(* The tolerance is not met at any of the evaluations j .. j+n-1 : range(niter) is
   exhausted; last_residual_norm is the norm BEFORE the last step. *)
Lemma outer_no_hit : forall n j lst,
  contracts j (j + n) ->
  (forall i, (j <= i < j + n)%nat -> tol <= norms i) ->
  outerR n j (norms j) lst (S j) =
    (finishR (j + n)%nat (match n with O => lst | S n' => norms (j + n') end)
             (S (j + n)) false,
     trace j n).
Proof using Hq Hnls.
  induction n as [|n IH]; intros j lst Hc Hge.
  - rewrite Nat.add_0_r. reflexivity.
  - assert (Hj : tol <= norms j) by (apply Hge; lia).
    destruct (Hc j ltac:(lia) Hj) as [Hp Hs].
    rewrite (outer_step n j lst Hj Hp Hs).
    rewrite (IH (S j) (norms j)).
    + replace (S j + n)%nat with (j + S n)%nat by lia.
      cbn [fst snd]. f_equal. f_equal.
      destruct n as [|n']; [rewrite Nat.add_0_r; reflexivity | f_equal; lia].
    + eapply contracts_weaken; [| |exact Hc]; lia.
    + intros i Hi. apply Hge. lia.
Qed.

(* ---- (A2) geometric decay along the performed iterations ---- *)
Lemma geometric_decay : forall hi k,
  contracts 0 hi -> (k <= hi)%nat ->
  (forall i, (i < k)%nat -> tol <= norms i) ->
  norms k <= q ^ k * norms 0.
Proof using Hq.
  clear Hnls. intros hi. induction k as [|k IH]; intros Hc Hk Hge.
  - simpl. lra.
  - assert (Hk' : tol <= norms k) by (apply Hge; lia).
    destruct (Hc k ltac:(lia) Hk') as [_ Hs].
    assert (IH' : norms k <= q ^ k * norms 0).
    { apply IH; auto; try lia. }
    simpl. apply Rle_trans with (q * norms k); [exact Hs|].
    rewrite Rmult_assoc. apply Rmult_le_compat_l; lra.
Qed.

(* Least index below tol (constructive: Rlt is decidable as a sumbool). *)
Lemma first_below_or_none : forall n,
  (forall i, (i < n)%nat -> tol <= norms i) \/
  exists d, (d < n)%nat /\ norms d < tol /\ forall i, (i < d)%nat -> tol <= norms i.
Proof using.
  clear Hnls Hq. induction n as [|n [IH | (d & Hd & Hlt & Hmin)]].
  - left. intros i Hi. lia.
  - destruct (Rlt_dec (norms n) tol) as [H|H].
    + right. exists n. repeat split; auto.
    + left. intros i Hi. destruct (Nat.eq_dec i n) as [->|Hne]; [lra|].
      apply IH. lia.
  - right. exists d. repeat split; auto.
Qed.

Lemma first_below : forall m, norms m < tol ->
  exists d, (d <= m)%nat /\ norms d < tol /\ forall i, (i < d)%nat -> tol <= norms i.
Proof using.
  clear Hnls Hq. intros m Hm.
  destruct (first_below_or_none (S m)) as [H | (d & Hd & H)].
  - specialize (H m (le_n (S m))). lra.
  - exists d. split; [lia | exact H].
Qed.

(* ---------------------------------------------------------------------- *)
(*  THEOREMS OF PART A                                                    *)
(* ---------------------------------------------------------------------- *)

Variable niter : nat.

(* Exact outcome when the tolerance is FIRST met at evaluation d < niter.
   (A1) accepted = [(1,norms 0); ...; (d, norms (d-1))], evals = d + 1: every iteration
        accepted its first trial, no evaluation is wasted;
   (A3) achieved, no warning (uses only tol <= tol4), best = d, norm of best < tol. *)
Theorem first_hit_run : forall d,
  (d < niter)%nat ->
  contracts 0 d ->
  (forall i, (i < d)%nat -> tol <= norms i) ->
  norms d < tol ->
  newton_run Rltb Rleb tol tol4 nls norms niter =
    (finishR d (norms d) (S d) true, trace 0 d).
Proof using Hq Hnls.
  intros d Hd Hc Hge Hlt. unfold newton_run.
  apply (outer_first_hit d niter 0%nat (norms 0%nat)); auto.
  intros i Hi. apply Hge. lia.
Qed.

Theorem first_hit_result : forall d,
  (d < niter)%nat ->
  contracts 0 d ->
  (forall i, (i < d)%nat -> tol <= norms i) ->
  norms d < tol ->
  tol <= tol4 ->
  let r := ctl niter in
  achieved r = true /\ warned r = false /\ best r = d /\ evals r = S d /\
  last r = norms d /\ norms (best r) < tol /\
  acc niter = trace 0 d /\ map fst (acc niter) = seq 1 d.
Proof using Hq Hnls.
  intros d Hd Hc Hge Hlt Ht4 r.
  pose proof (first_hit_run d Hd Hc Hge Hlt) as E.
  unfold r, newton_ctl, accepted. rewrite E. cbn [fst snd finish best warned evals achieved last].
  repeat split; auto.
  - assert (H : Rleb (norms d) tol4 = true) by (apply Rleb_true; lra).
    rewrite H. reflexivity.
  - apply trace_fst.
Qed.

(* Exact outcome when the tolerance is NOT met at any of the evaluations 0..niter-1
   (whatever happens at evaluation niter): range(niter) is exhausted, all niter first
   trials are accepted, best = niter, achieved = FALSE, and the warning is decided by
   norms (niter-1), the norm BEFORE the last step. *)
Theorem exhausted_run :
  contracts 0 niter ->
  (forall i, (i < niter)%nat -> tol <= norms i) ->
  newton_run Rltb Rleb tol tol4 nls norms niter =
    (finishR niter (norms (niter - 1)) (S niter) false, trace 0 niter).
Proof using Hq Hnls.
  intros Hc Hge. unfold newton_run.
  rewrite (outer_no_hit niter 0%nat (norms 0%nat)); auto.
  - cbn [Nat.add]. do 2 f_equal.
    destruct niter as [|n]; [reflexivity|]. f_equal. lia.
  - intros i Hi. apply Hge. lia.
Qed.

Theorem exhausted_result :
  contracts 0 niter ->
  (forall i, (i < niter)%nat -> tol <= norms i) ->
  let r := ctl niter in
  achieved r = false /\ best r = niter /\ evals r = S niter /\
  last r = norms (niter - 1) /\
  warned r = negb (Rleb (norms (niter - 1)) tol4) /\
  acc niter = trace 0 niter.
Proof using Hq Hnls.
  intros Hc Hge r. pose proof (exhausted_run Hc Hge) as E.
  unfold r, newton_ctl, accepted. rewrite E. cbn. repeat split.
Qed.

(* (A1), flag-free form: under the contraction hypothesis the number of evaluations is
   the number of iterations performed + 1 and the accepted indices are 1,2,...,best,
   whichever way the run ends. *)
Theorem every_first_trial_accepted :
  contracts 0 niter ->
  let r := ctl niter in
  evals r = S (best r) /\ (best r <= niter)%nat /\
  acc niter = trace 0 (best r) /\
  map fst (acc niter) = seq 1 (best r) /\
  (forall i, (i < best r)%nat -> tol <= norms i) /\
  (forall k, (k <= best r)%nat -> norms k <= q ^ k * norms 0).
Proof using Hq Hnls.
  intros Hc r.
  assert (Hdecay : forall b, (b <= niter)%nat ->
            (forall i, (i < b)%nat -> tol <= norms i) ->
            forall k, (k <= b)%nat -> norms k <= q ^ k * norms 0).
  { intros b Hb Hge k Hk.
    apply (geometric_decay niter); [exact Hc | lia | intros i Hi; apply Hge; lia]. }
  destruct (first_below_or_none niter) as [Hge | (d & Hdn & Hlt & Hmin)].
  - pose proof (exhausted_run Hc Hge) as E.
    unfold r, newton_ctl, accepted. rewrite E. cbn [fst snd finish best evals].
    repeat split; auto. apply trace_fst. apply Hdecay; auto.
  - assert (Hc' : contracts 0 d) by (eapply contracts_weaken; [| |exact Hc]; lia).
    pose proof (first_hit_run d Hdn Hc' Hmin Hlt) as E.
    unfold r, newton_ctl, accepted. rewrite E. cbn [fst snd finish best evals].
    repeat split; auto; try lia. apply trace_fst. apply Hdecay; auto; lia.
Qed.

(* (A3) THE CONVERGENCE THEOREM OF THE CONTROL MODEL.
   If the geometric bound q^m * norms 0 drops below tol for some m < niter (i.e. m <=
   niter-1: the test `residual_norm < tol` is made only at the TOP of an iteration),
   the run ends with tolerance achieved and NO warning, after d <= m Newton steps and
   d+1 evaluations; the returned point has residual norm < tol. *)
Theorem newton_converges_ctl : forall m,
  tol <= tol4 ->
  contracts 0 niter ->
  (m < niter)%nat ->
  q ^ m * norms 0 < tol ->
  exists d, (d <= m)%nat /\
    (forall i, (i < d)%nat -> tol <= norms i) /\ norms d < tol /\
    let r := ctl niter in
    achieved r = true /\ warned r = false /\ best r = d /\ evals r = S d /\
    last r = norms d /\ norms (best r) < tol /\
    acc niter = trace 0 d /\ map fst (acc niter) = seq 1 d /\
    (forall k, (k <= d)%nat -> norms k <= q ^ k * norms 0).
Proof using Hq Hnls.
  intros m Ht4 Hc Hm Hpow.
  assert (Hex : exists d, (d <= m)%nat /\ norms d < tol /\
                          forall i, (i < d)%nat -> tol <= norms i).
  { destruct (first_below_or_none (S m)) as [Hnone | (d & Hd & H)].
    - exfalso.
      assert (Hdec : norms m <= q ^ m * norms 0).
      { apply (geometric_decay niter); [exact Hc | lia | intros i Hi; apply Hnone; lia]. }
      specialize (Hnone m (le_n (S m))). lra.
    - exists d. split; [lia | exact H]. }
  destruct Hex as (d & Hd & Hlt & Hmin).
  exists d. split; [exact Hd|]. split; [exact Hmin|]. split; [exact Hlt|].
  assert (Hdn : (d < niter)%nat) by lia.
  assert (Hc' : contracts 0 d) by (eapply contracts_weaken; [| |exact Hc]; lia).
  destruct (first_hit_result d Hdn Hc' Hmin Hlt Ht4) as (H1 & H2 & H3 & H4 & H5 & H6 & H7 & H8).
  cbv zeta. repeat split; auto.
  intros k Hk.
  apply (geometric_decay niter); [exact Hc | lia | intros i Hi; apply Hmin; lia].
Qed.

(* CORNER 1.  Tolerance first met exactly at evaluation niter (the last allowed step
   lands below tol): the returned point HAS norm < tol, but newton_tolerance_achieved
   stays False, and the warning is issued iff  not norms (niter-1) <= tol4 . *)
Theorem corner_hit_at_niter :
  (1 <= niter)%nat ->
  contracts 0 niter ->
  (forall i, (i < niter)%nat -> tol <= norms i) ->
  norms niter < tol ->
  let r := ctl niter in
  best r = niter /\ norms (best r) < tol /\ achieved r = false /\
  (warned r = true <-> tol4 < norms (niter - 1)).
Proof using Hq Hnls.
  intros Hn Hc Hge Hlt r.
  destruct (exhausted_result Hc Hge) as (Ha & Hb & _ & _ & Hw & _). fold r in Ha, Hb, Hw.
  rewrite Hb. repeat split; auto.
  - rewrite Hw. intros H. apply negb_true_iff in H. apply Rleb_false. exact H.
  - rewrite Hw. intros H. apply negb_true_iff. apply Rleb_false. exact H.
Qed.

End PartA.

(* CORNER 2 (no contraction needed).  nlinesearch = 0 : nothing is ever evaluated after
   f(x0); unless x0 already meets the tolerance the solver returns x0 unachieved. *)
Lemma corner_nls0 : forall tol tol4 norms niter,
  (1 <= niter)%nat -> tol <= norms 0%nat ->
  let r := newton_ctl Rltb Rleb tol tol4 0 norms niter in
  best r = 0%nat /\ evals r = 1%nat /\ achieved r = false /\
  warned r = negb (Rleb (norms 0%nat) tol4).
Proof.
  intros tol tol4 norms niter Hn Ht r. unfold r, newton_ctl, newton_run.
  destruct niter as [|n]; [lia|]. cbn [outer linesearch].
  assert (E : Rltb (norms 0%nat) tol = false) by (apply Rltb_false; exact Ht).
  rewrite E. rewrite Rltb_irrefl. cbn. repeat split.
Qed.

(* ---------------------------------------------------------------------- *)
(*  The hypothesis is satisfiable: the stream (1/2)^k, tol = 1/1000       *)
(* ---------------------------------------------------------------------- *)

Module HalvingExample.

Definition hnorms (k : nat) : R := (1/2) ^ k.
Definition htol  : R := 1/1000.
Definition htol4 : R := 10.

Lemma hnorms_pos : forall k, 0 < hnorms k.
Proof. intros k. unfold hnorms. apply pow_lt. lra. Qed.

Lemma halving_contracts : forall lo hi, contracts htol hnorms (1/2) lo hi.
Proof.
  intros lo hi k _ _. split; [apply hnorms_pos|]. unfold hnorms. simpl. lra.
Qed.

(* (1/2)^10 = 1/1024 < 1/1000 <= (1/2)^i for i < 10 : with niter = 20, nlinesearch = 10
   the run stops at python iteration 10 with 11 evaluations. *)
Example halving_run :
  let r := newton_ctl Rltb Rleb htol htol4 10 hnorms 20 in
  achieved r = true /\ warned r = false /\ best r = 10%nat /\ evals r = 11%nat /\
  map fst (accepted Rltb Rleb htol htol4 10 hnorms 20) = seq 1 10.
Proof.
  assert (Hq : 0 <= 1/2 < 1) by lra.
  assert (Hn : (1 <= 10)%nat) by lia.
  assert (Hd : (10 < 20)%nat) by lia.
  destruct (first_hit_result htol htol4 10 hnorms (1/2) Hq Hn 20 10 Hd
              (halving_contracts 0 10)) as (H1 & H2 & H3 & H4 & _ & _ & _ & H8).
  - intros i Hi. unfold htol, hnorms.
    do 10 (destruct i as [|i]; [simpl; lra|]). lia.
  - unfold htol, hnorms. simpl. lra.
  - unfold htol, htol4. lra.
  - repeat split; assumption.
Qed.

(* The same through the sufficient condition of newton_converges_ctl (m = 10). *)
Example halving_converges :
  exists d, (d <= 10)%nat /\
    let r := newton_ctl Rltb Rleb htol htol4 10 hnorms 20 in
    achieved r = true /\ warned r = false /\ best r = d.
Proof.
  assert (Hq : 0 <= 1/2 < 1) by lra.
  assert (Hn : (1 <= 10)%nat) by lia.
  destruct (newton_converges_ctl htol htol4 10 hnorms (1/2) Hq Hn 20 10) as (d & Hd & _ & _ & H1 & H2 & H3 & _).
  - unfold htol, htol4; lra.
  - apply halving_contracts.
  - lia.
  - unfold htol, hnorms. simpl. lra.
  - exists d. split; [exact Hd|]. repeat split; assumption.
Qed.

(* CORNER 1 made concrete: a SPURIOUS WARNING.  norms = 100, 1/10000, ...; tol = 1/1000,
   tol4 = 10, niter = 1.  The single allowed Newton step lands at norm 1e-4 < tol and is
   returned as x_best, yet achieved = False and the warning "did not get close to desired
   tolerance" IS issued, because line 58 looks at last_residual_norm = norms 0 = 100. *)
Definition snorms (k : nat) : R := 100 * (1/1000000) ^ k.

Lemma steep_contracts : forall lo hi, contracts htol snorms (1/1000000) lo hi.
Proof.
  intros lo hi k _ _. unfold snorms. split.
  - apply Rmult_lt_0_compat; [lra | apply pow_lt; lra].
  - simpl. lra.
Qed.

Example spurious_warning :
  let r := newton_ctl Rltb Rleb htol htol4 10 snorms 1 in
  best r = 1%nat /\ snorms (best r) < htol /\ achieved r = false /\ warned r = true.
Proof.
  assert (Hq : 0 <= 1/1000000 < 1) by lra.
  assert (Hn : (1 <= 10)%nat) by lia.
  destruct (corner_hit_at_niter htol htol4 10 snorms (1/1000000) Hq Hn
              1 (le_n 1) (steep_contracts 0 1)) as (H1 & H2 & H3 & H4).
  - intros i Hi. replace i with 0%nat by lia. unfold htol, snorms. simpl. lra.
  - unfold htol, snorms. simpl. lra.
  - repeat split; auto. apply H4. unfold htol4, snorms. simpl. lra.
Qed.

(* ... and the mirror image: with niter = 2 the very same stream is reported as
   achieved, without warning, and the same point (evaluation 1) is returned. *)
Example no_spurious_warning_with_one_more_iteration :
  let r := newton_ctl Rltb Rleb htol htol4 10 snorms 2 in
  best r = 1%nat /\ achieved r = true /\ warned r = false /\ evals r = 2%nat.
Proof.
  assert (Hq : 0 <= 1/1000000 < 1) by lra.
  assert (Hn : (1 <= 10)%nat) by lia.
  assert (Hd : (1 < 2)%nat) by lia.
  destruct (first_hit_result htol htol4 10 snorms (1/1000000) Hq Hn 2 1 Hd
              (steep_contracts 0 1)) as (H1 & H2 & H3 & H4 & _).
  - intros i Hi. replace i with 0%nat by lia. unfold htol, snorms. simpl. lra.
  - unfold htol, snorms. simpl. lra.
  - unfold htol, htol4. lra.
  - repeat split; assumption.
Qed.

End HalvingExample.

(* ====================================================================== *)
(*  PART B : smooth well-posed scalar systems contract                    *)
(* ====================================================================== *)

(* Rolle, either orientation, hypotheses on the CLOSED interval only. *)
Lemma rolle_between : forall (g g' : R -> R) (u v : R),
  u <> v ->
  (forall t, Rmin u v <= t <= Rmax u v -> is_derive g t (g' t)) ->
  g u = g v ->
  exists c, Rmin u v < c < Rmax u v /\ g' c = 0.
Proof.
  intros g g' u v Hne Hd Heq.
  destruct (Rlt_dec u v) as [Hlt | Hge].
  - rewrite Rmin_left, Rmax_right in * by lra.
    destruct (MVT_cor2 g g' u v Hlt) as (c & Hc & Hin).
    { intros t Ht. apply is_derive_Reals. apply Hd. exact Ht. }
    exists c. split; [exact Hin|].
    assert (H0 : g' c * (v - u) = 0) by lra.
    apply Rmult_integral in H0. destruct H0; lra.
  - assert (Hlt : v < u) by lra.
    rewrite Rmin_right, Rmax_left in * by lra.
    destruct (MVT_cor2 g g' v u Hlt) as (c & Hc & Hin).
    { intros t Ht. apply is_derive_Reals. apply Hd. exact Ht. }
    exists c. split; [exact Hin|].
    assert (H0 : g' c * (u - v) = 0) by lra.
    apply Rmult_integral in H0. destruct H0; lra.
Qed.

(* Taylor-Lagrange of order 2 at x, evaluated at y, either orientation. *)
Lemma taylor2 : forall (f f' f'' : R -> R) (x y : R),
  x <> y ->
  (forall t, Rmin x y <= t <= Rmax x y -> is_derive f t (f' t)) ->
  (forall t, Rmin x y <= t <= Rmax x y -> is_derive f' t (f'' t)) ->
  exists d, Rmin x y < d < Rmax x y /\
    f y = f x + f' x * (y - x) + f'' d / 2 * (y - x) ^ 2.
Proof.
  intros f f' f'' x y Hne Hf Hf'.
  set (K := (f y - f x - f' x * (y - x)) / (y - x) ^ 2).
  set (p   := fun t : R => f x + f' x * (t - x) + K * (t - x) ^ 2).
  set (p'  := fun t : R => f' x + 2 * K * (t - x)).
  set (phi  := fun t : R => f t - p t).
  set (phi' := fun t : R => f' t - p' t).
  set (phi'' := fun t : R => f'' t - 2 * K).
  assert (Hp : forall t, is_derive p t (p' t)).
  { intros t. unfold p, p'. auto_derive; [exact I | ring]. }
  assert (Hp' : forall t, is_derive p' t (2 * K)).
  { intros t. unfold p'. auto_derive; [exact I | ring]. }
  assert (Hphi : forall t, Rmin x y <= t <= Rmax x y -> is_derive phi t (phi' t)).
  { intros t Ht. exact (is_derive_minus f p t (f' t) (p' t) (Hf t Ht) (Hp t)). }
  assert (Hphi' : forall t, Rmin x y <= t <= Rmax x y -> is_derive phi' t (phi'' t)).
  { intros t Ht. exact (is_derive_minus f' p' t (f'' t) (2 * K) (Hf' t Ht) (Hp' t)). }
  assert (Hyx : (y - x) ^ 2 <> 0).
  { apply pow_nonzero. lra. }
  assert (Ex : phi x = 0) by (unfold phi, p; ring).
  assert (Ey : phi y = 0) by (unfold phi, p, K; field; lra).
  assert (Ex' : phi' x = 0) by (unfold phi', p'; ring).
  destruct (rolle_between phi phi' x y Hne Hphi) as (c & Hc & Ec); [lra|].
  assert (Hxc : x <> c).
  { intros ->. unfold Rmin, Rmax in Hc. destruct (Rle_dec c y); lra. }
  assert (Hsub : forall t, Rmin x c <= t <= Rmax x c -> Rmin x y <= t <= Rmax x y).
  { intros t. unfold Rmin, Rmax in *.
    destruct (Rle_dec x c); destruct (Rle_dec x y); lra. }
  destruct (rolle_between phi' phi'' x c Hxc) as (d & Hd & Ed).
  { intros t Ht. apply Hphi'. apply Hsub. exact Ht. }
  { rewrite Ex'. symmetry. exact Ec. }
  exists d. split.
  - clear - Hc Hd. unfold Rmin, Rmax in *.
    destruct (Rle_dec x c); destruct (Rle_dec x y); lra.
  - unfold phi'' in Ed. unfold phi, p in Ey.
    assert (EK : K * (y - x) ^ 2 = f y - f x - f' x * (y - x)).
    { unfold K. field. lra. }
    replace (f'' d) with (2 * K) by lra. lra.
Qed.

Section PartB.

Variables f f' f'' : R -> R.
Variables a b m M : R.

(* "smooth":      f is twice differentiable on [a,b], |f''| <= M there;
   "well-posed":  |f'| >= m > 0 on [a,b] (the 1x1 Jacobian is uniformly invertible). *)
Hypothesis Hm   : 0 < m.
Hypothesis Hf   : forall t, a <= t <= b -> is_derive f t (f' t).
Hypothesis Hf'  : forall t, a <= t <= b -> is_derive f' t (f'' t).
Hypothesis Hlow : forall t, a <= t <= b -> m <= Rabs (f' t).
Hypothesis Hup  : forall t, a <= t <= b -> Rabs (f'' t) <= M.

(* The full Newton step (python: x0 + 1.0 * (-solve(jac(x0), f(x0))) for a 1x1 system). *)
Definition newton_step (x : R) : R := x - f x / f' x.

(* The Newton-Kantorovich constant. *)
Definition kappa : R := M / (2 * m ^ 2).

Lemma M_nonneg : forall x, a <= x <= b -> 0 <= M.
Proof using Hup.
  intros x Hx. apply Rle_trans with (Rabs (f'' x)); [apply Rabs_pos | apply Hup; exact Hx].
Qed.

Lemma kappa_nonneg : forall x, a <= x <= b -> 0 <= kappa.
Proof using Hup Hm.
  intros x Hx. unfold kappa. pose proof (M_nonneg x Hx) as HM.
  apply Rmult_le_pos; [exact HM|]. left. apply Rinv_0_lt_compat.
  assert (0 < m ^ 2) by (apply pow_lt; exact Hm). lra.
Qed.

Lemma f'_nonzero : forall x, a <= x <= b -> f' x <> 0.
Proof using Hlow Hm.
  intros x Hx E. pose proof (Hlow x Hx) as H. rewrite E, Rabs_R0 in H. lra.
Qed.

(* One-dimensional Newton-Kantorovich step: the residual after a full Newton step is
   quadratically small. *)
Theorem newton_step_quadratic : forall x,
  a <= x <= b -> a <= newton_step x <= b ->
  Rabs (f (newton_step x)) <= kappa * (f x) ^ 2.
Proof using Hm Hf Hf' Hlow Hup.
  intros x Hx Hy.
  pose proof (f'_nonzero x Hx) as Hnz.
  pose proof (M_nonneg x Hx) as HM.
  destruct (Req_dec (f x) 0) as [E0 | N0].
  - assert (Ey : newton_step x = x) by (unfold newton_step; rewrite E0; field; exact Hnz).
    rewrite Ey, E0, Rabs_R0. simpl. rewrite !Rmult_0_l, Rmult_0_r. lra.
  - set (y := newton_step x) in *.
    assert (Eyx : y - x = - f x / f' x) by (unfold y, newton_step; field; exact Hnz).
    assert (Hne : x <> y).
    { intros E. assert (H0 : - f x / f' x = 0) by (rewrite <- Eyx; lra).
      apply N0. apply (Rmult_eq_compat_r (f' x)) in H0.
      replace (- f x / f' x * f' x) with (- f x) in H0 by (field; exact Hnz). lra. }
    assert (Hsub : forall t, Rmin x y <= t <= Rmax x y -> a <= t <= b).
    { intros t. unfold Rmin, Rmax. destruct (Rle_dec x y); lra. }
    destruct (taylor2 f f' f'' x y Hne) as (d & Hd & Et).
    { intros t Ht. apply Hf. apply Hsub. exact Ht. }
    { intros t Ht. apply Hf'. apply Hsub. exact Ht. }
    assert (Hdab : a <= d <= b) by (apply Hsub; lra).
    assert (E : f y = f'' d * ((f x) ^ 2 / (2 * (f' x) ^ 2))).
    { rewrite Et, Eyx. field. exact Hnz. }
    rewrite E, Rabs_mult.
    assert (Hm2 : 0 < m ^ 2) by (apply pow_lt; exact Hm).
    assert (Hw : m ^ 2 <= (f' x) ^ 2).
    { rewrite <- (pow2_abs (f' x)). apply pow_incr. split; [lra | apply Hlow; exact Hx]. }
    assert (Hfx2 : 0 <= (f x) ^ 2) by apply pow2_ge_0.
    assert (Hquot : 0 <= (f x) ^ 2 / (2 * (f' x) ^ 2)).
    { apply Rmult_le_pos; [exact Hfx2|]. left. apply Rinv_0_lt_compat. lra. }
    rewrite (Rabs_pos_eq _ Hquot).
    unfold kappa.
    replace (M / (2 * m ^ 2) * (f x) ^ 2) with (M * ((f x) ^ 2 / (2 * m ^ 2)))
      by (field; lra).
    apply Rmult_le_compat; [apply Rabs_pos | exact Hquot | apply Hup; exact Hdab |].
    apply Rmult_le_compat_l; [exact Hfx2|].
    apply Rinv_le_contravar; lra.
Qed.

(* Corollary: in the region where kappa * |f x| <= q the full step contracts the
   residual norm by q -- the hypothesis of Part A (the residual norm of a 1-vector
   is |f x|). *)
Corollary newton_step_contracts : forall x q,
  a <= x <= b -> a <= newton_step x <= b ->
  kappa * Rabs (f x) <= q ->
  Rabs (f (newton_step x)) <= q * Rabs (f x).
Proof using Hm Hf Hf' Hlow Hup.
  intros x q Hx Hy Hk.
  apply Rle_trans with (kappa * (f x) ^ 2); [apply newton_step_quadratic; assumption|].
  rewrite <- (pow2_abs (f x)). simpl. rewrite Rmult_1_r, <- Rmult_assoc.
  apply Rmult_le_compat_r; [apply Rabs_pos | exact Hk].
Qed.

(* The scalar Newton iteration and its residual norms. *)
Fixpoint newton_iter (x0 : R) (k : nat) : R :=
  match k with
  | O => x0
  | S k' => newton_step (newton_iter x0 k')
  end.

Definition res_norm (x0 : R) (k : nat) : R := Rabs (f (newton_iter x0 k)).

Lemma res_norm_nonneg : forall x0 k, 0 <= res_norm x0 k.
Proof using. intros. apply Rabs_pos. Qed.

Section Iteration.

Variable x0 q : R.
Variable n : nat.                      (* the iterates 0..n are considered *)
Hypothesis Hq    : 0 <= q < 1.
Hypothesis Hstay : forall k, (k <= n)%nat -> a <= newton_iter x0 k <= b.
Hypothesis Hreg  : kappa * Rabs (f x0) <= q.

Lemma scalar_decay : forall k, (k <= n)%nat ->
  res_norm x0 k <= res_norm x0 0 /\
  ((k < n)%nat -> res_norm x0 (S k) <= q * res_norm x0 k /\
                  res_norm x0 (S k) <= kappa * (res_norm x0 k) ^ 2).
Proof using Hm Hf Hf' Hlow Hup Hq Hstay Hreg.
  assert (Hstep : forall k, (k < n)%nat -> res_norm x0 k <= res_norm x0 0 ->
            res_norm x0 (S k) <= q * res_norm x0 k /\
            res_norm x0 (S k) <= kappa * (res_norm x0 k) ^ 2).
  { intros k Hk Hle.
    assert (Hx : a <= newton_iter x0 k <= b) by (apply Hstay; lia).
    assert (Hy : a <= newton_step (newton_iter x0 k) <= b) by (apply (Hstay (S k)); lia).
    split.
    - apply (newton_step_contracts (newton_iter x0 k) q Hx Hy).
      apply Rle_trans with (kappa * Rabs (f x0)); [|exact Hreg].
      apply Rmult_le_compat_l; [apply (kappa_nonneg _ Hx) | exact Hle].
    - unfold res_norm at 2. rewrite pow2_abs.
      apply (newton_step_quadratic (newton_iter x0 k) Hx Hy). }
  induction k as [|k IH]; intros Hk.
  - split; [lra|]. intros Hk'. apply Hstep; [exact Hk' | lra].
  - destruct (IH ltac:(lia)) as [IH1 IH2]. destruct (IH2 ltac:(lia)) as [IH3 _].
    assert (Hle : res_norm x0 (S k) <= res_norm x0 0).
    { pose proof (res_norm_nonneg x0 k). nra. }
    split; [exact Hle|]. intros Hk'. apply Hstep; assumption.
Qed.

(* The norm stream of the scalar Newton iteration satisfies the hypothesis of Part A. *)
Lemma scalar_contracts : forall (tol : R) (norms : nat -> R),
  0 < tol ->
  (forall k, (k <= n)%nat -> norms k = res_norm x0 k) ->
  contracts tol norms q 0 n.
Proof using Hm Hf Hf' Hlow Hup Hq Hstay Hreg.
  intros tol norms Ht Hagree k Hk Hge. split; [lra|].
  rewrite (Hagree k), (Hagree (S k)) by lia.
  apply scalar_decay; lia.
Qed.

End Iteration.

(* ---------------------------------------------------------------------- *)
(*  HEADLINE                                                              *)
(* ---------------------------------------------------------------------- *)

(* For a scalar system f that is smooth (|f''| <= M) and well-posed (|f'| >= m > 0) on
   [a,b], started at x0 in the Newton-Kantorovich region  M/(2m^2) |f x0| <= q < 1,
   with the Newton iterates x_0 .. x_niter in [a,b]:
   ANY norm stream that agrees with |f x_k| on the evaluations 0..niter drives the
   control model of newton() to  achieved = True, NO warning,  after d <= mm Newton
   steps and d+1 evaluations of f, as soon as  q^mm |f x0| < tol  for some mm < niter;
   the returned point is the Newton iterate x_d and |f x_d| < tol.
   (The stream of the real algorithm is adaptive -- evaluation k+1 is f at the full
   Newton step from evaluation k only if evaluation k was accepted as a first trial --
   and conclusion [map fst accepted = 1..d] is what closes that loop: every first trial
   IS accepted, so the real stream is |f x_k| on all evaluations performed.) *)
Theorem newton_converges_scalar :
  forall (x0 q tol tol4 : R) (nls niter mm : nat) (norms : nat -> R),
  0 <= q < 1 ->
  0 < tol <= tol4 ->
  (1 <= nls)%nat ->
  (forall k, (k <= niter)%nat -> a <= newton_iter x0 k <= b) ->
  kappa * Rabs (f x0) <= q ->
  (forall k, (k <= niter)%nat -> norms k = Rabs (f (newton_iter x0 k))) ->
  (mm < niter)%nat ->
  q ^ mm * Rabs (f x0) < tol ->
  exists d, (d <= mm)%nat /\
    let r := newton_ctl Rltb Rleb tol tol4 nls norms niter in
    achieved r = true /\ warned r = false /\ best r = d /\ evals r = S d /\
    Rabs (f (newton_iter x0 (best r))) < tol /\
    map fst (accepted Rltb Rleb tol tol4 nls norms niter) = seq 1 d /\
    (forall i, (i < d)%nat -> tol <= Rabs (f (newton_iter x0 i))) /\
    (forall k, (k <= d)%nat ->
       Rabs (f (newton_iter x0 k)) <= q ^ k * Rabs (f x0)).
Proof using Hm Hf Hf' Hlow Hup.
  intros x0 q tol tol4 nls niter mm norms Hq Htol Hnls Hstay Hreg Hagree Hmm Hpow.
  assert (Hc : contracts tol norms q 0 niter).
  { apply (scalar_contracts x0 q niter Hq Hstay Hreg tol norms); [lra | exact Hagree]. }
  assert (H0 : norms 0%nat = Rabs (f x0)) by (apply (Hagree 0%nat); lia).
  destruct (newton_converges_ctl tol tol4 nls norms q Hq Hnls niter mm) as
    (d & Hd & Hmin & Hlt & Hach & Hw & Hb & He & _ & Hbt & _ & Hacc & Hdec);
    [lra | exact Hc | exact Hmm | rewrite H0; exact Hpow |].
  exists d. split; [exact Hd|]. cbv zeta.
  repeat split; auto.
  - rewrite <- (Hagree (best _)); [exact Hbt | rewrite Hb; lia].
  - intros i Hi. rewrite <- (Hagree i) by lia. apply Hmin. exact Hi.
  - intros k Hk. rewrite <- (Hagree k), <- H0 by lia. apply Hdec. exact Hk.
Qed.

(* ---------------------------------------------------------------------- *)
(*  The iterates stay in [a,b]: a Kantorovich ball condition              *)
(* ---------------------------------------------------------------------- *)

Section Ball.

Variable x0 q : R.
Hypothesis Hq   : 0 <= q < 1.
Hypothesis Hreg : kappa * Rabs (f x0) <= q.

(* radius of the ball: sum_k q^k |f x0| / m *)
Definition rho : R := Rabs (f x0) / m / (1 - q).

Hypothesis Hball : a <= x0 - rho /\ x0 + rho <= b.

Lemma rho_nonneg : 0 <= rho.
Proof using Hq Hm.
  unfold rho. apply Rmult_le_pos; [apply Rmult_le_pos; [apply Rabs_pos|]|];
    left; apply Rinv_0_lt_compat; lra.
Qed.

Lemma iterates_stay : forall k,
  a <= newton_iter x0 k <= b /\
  res_norm x0 k <= q ^ k * res_norm x0 0 /\
  Rabs (newton_iter x0 k - x0) * (1 - q) <= Rabs (f x0) / m * (1 - q ^ k).
Proof using Hm Hf Hf' Hlow Hup Hq Hreg Hball.
  pose proof rho_nonneg as Hrho.
  assert (HA : 0 <= Rabs (f x0) / m).
  { apply Rmult_le_pos; [apply Rabs_pos | left; apply Rinv_0_lt_compat; exact Hm]. }
  assert (Hin : forall x, Rabs (x - x0) * (1 - q) <= Rabs (f x0) / m -> a <= x <= b).
  { intros x Hx.
    assert (Hr : Rabs (x - x0) <= rho).
    { unfold rho. apply Rmult_le_reg_r with (1 - q); [lra|].
      replace (Rabs (f x0) / m / (1 - q) * (1 - q)) with (Rabs (f x0) / m) by (field; lra).
      exact Hx. }
    apply Rabs_le_between in Hr. lra. }
  induction k as [|k (IHin & IHres & IHdist)].
  - simpl. rewrite Rminus_diag_eq by reflexivity. rewrite Rabs_R0.
    split; [lra|]. split; lra.
  - assert (Hqk : 0 <= q ^ k) by (apply pow_le; lra).
    assert (Hr0 : 0 <= res_norm x0 0) by apply res_norm_nonneg.
    assert (Hrk : 0 <= res_norm x0 k) by apply res_norm_nonneg.
    assert (Hqk1 : q ^ k <= 1).
    { rewrite <- (pow1 k). apply pow_incr. lra. }
    assert (Hle0 : res_norm x0 k <= res_norm x0 0) by nra.
    set (xk := newton_iter x0 k) in *.
    pose proof (f'_nonzero xk IHin) as Hnz.
    (* length of the step *)
    assert (Hs : Rabs (f xk / f' xk) <= q ^ k * (Rabs (f x0) / m)).
    { unfold Rdiv at 1. rewrite Rabs_mult, Rabs_inv.
      apply Rle_trans with (Rabs (f xk) * / m).
      - apply Rmult_le_compat_l; [apply Rabs_pos|].
        apply Rinv_le_contravar; [exact Hm | apply Hlow; exact IHin].
      - unfold res_norm in IHres. fold xk in IHres. simpl in IHres.
        assert (0 < / m) by (apply Rinv_0_lt_compat; exact Hm).
        unfold Rdiv. nra. }
    assert (Hdist : Rabs (newton_iter x0 (S k) - x0) * (1 - q)
                    <= Rabs (f x0) / m * (1 - q ^ S k)).
    { simpl. fold xk. unfold newton_step.
      replace (xk - f xk / f' xk - x0) with ((xk - x0) + - (f xk / f' xk)) by ring.
      pose proof (Rabs_triang (xk - x0) (- (f xk / f' xk))) as Htri.
      rewrite Rabs_Ropp in Htri.
      pose proof (Rabs_pos (f xk / f' xk)) as Hsp.
      set (u := Rabs (xk - x0)) in *. set (s := Rabs (f xk / f' xk)) in *.
      set (A := Rabs (f x0) / m) in *. set (Q := q ^ k) in *.
      set (u' := Rabs (xk - x0 + - (f xk / f' xk))) in *.
      assert (u' * (1 - q) <= (u + s) * (1 - q)) by (apply Rmult_le_compat_r; lra).
      assert (s * (1 - q) <= Q * A * (1 - q)) by (apply Rmult_le_compat_r; lra).
      nra. }
    assert (Hin' : a <= newton_iter x0 (S k) <= b).
    { apply Hin. apply Rle_trans with (1 := Hdist).
      assert (0 <= q ^ S k) by (apply pow_le; lra).
      rewrite <- (Rmult_1_r (Rabs (f x0) / m)) at 2.
      apply Rmult_le_compat_l; lra. }
    split; [exact Hin'|]. split; [|exact Hdist].
    assert (Hc : res_norm x0 (S k) <= q * res_norm x0 k).
    { apply (newton_step_contracts xk q IHin Hin').
      apply Rle_trans with (kappa * Rabs (f x0)); [|exact Hreg].
      apply Rmult_le_compat_l; [apply (kappa_nonneg _ IHin) | exact Hle0]. }
    simpl. nra.
Qed.

End Ball.

(* The headline with the stay-in-[a,b] hypothesis DISCHARGED by the ball condition
   [x0 - rho, x0 + rho] c [a,b],  rho = |f x0| / (m (1-q)). *)
Theorem newton_converges_scalar_ball :
  forall (x0 q tol tol4 : R) (nls niter mm : nat) (norms : nat -> R),
  0 <= q < 1 ->
  0 < tol <= tol4 ->
  (1 <= nls)%nat ->
  a <= x0 - rho x0 q /\ x0 + rho x0 q <= b ->
  kappa * Rabs (f x0) <= q ->
  (forall k, (k <= niter)%nat -> norms k = Rabs (f (newton_iter x0 k))) ->
  (mm < niter)%nat ->
  q ^ mm * Rabs (f x0) < tol ->
  exists d, (d <= mm)%nat /\
    let r := newton_ctl Rltb Rleb tol tol4 nls norms niter in
    achieved r = true /\ warned r = false /\ best r = d /\ evals r = S d /\
    Rabs (f (newton_iter x0 (best r))) < tol /\
    map fst (accepted Rltb Rleb tol tol4 nls norms niter) = seq 1 d /\
    (forall i, (i < d)%nat -> tol <= Rabs (f (newton_iter x0 i))) /\
    (forall k, (k <= d)%nat ->
       Rabs (f (newton_iter x0 k)) <= q ^ k * Rabs (f x0)).
Proof using Hm Hf Hf' Hlow Hup.
  intros x0 q tol tol4 nls niter mm norms Hq Htol Hnls Hball Hreg Hagree Hmm Hpow.
  apply (newton_converges_scalar x0 q tol tol4 nls niter mm norms); auto.
  intros k _. apply (iterates_stay x0 q Hq Hreg Hball k).
Qed.

End PartB.

(* ---------------------------------------------------------------------- *)
(*  A concrete smooth well-posed system:  f x = x^2 - 2  on [1,2]         *)
(*  (m = 2, M = 2, kappa = 1/4), started at x0 = 3/2:                     *)
(*  kappa |f x0| = 1/16 <= q := 1/2,  rho = (1/4)/2/(1/2) = 1/4,          *)
(*  [5/4, 7/4] c [1,2].  With tol = 1/1000, niter = 20 :                  *)
(*  (1/2)^8 * (1/4) = 1/1024 < tol, so the solver reports success within  *)
(*  8 Newton steps (the quadratic rate makes it 2 in fact).               *)
(* ---------------------------------------------------------------------- *)

Module Sqrt2Example.

Definition sf   (x : R) : R := x ^ 2 - 2.
Definition sf'  (x : R) : R := 2 * x.
Definition sf'' (x : R) : R := 2.

Example sqrt2_converges : forall (norms : nat -> R),
  (forall k, (k <= 20)%nat -> norms k = Rabs (sf (newton_iter sf sf' (3/2) k))) ->
  exists d, (d <= 8)%nat /\
    let r := newton_ctl Rltb Rleb (1/1000) 10 10 norms 20 in
    achieved r = true /\ warned r = false /\ best r = d /\
    Rabs (sf (newton_iter sf sf' (3/2) (best r))) < 1/1000.
Proof.
  intros norms Hagree.
  assert (Hsf0 : Rabs (sf (3/2)) = 1/4).
  { unfold sf. replace ((3/2) ^ 2 - 2) with (1/4) by field. apply Rabs_pos_eq. lra. }
  assert (Hm : 0 < 2) by lra.
  assert (Hf : forall t, 1 <= t <= 2 -> is_derive sf t (sf' t)).
  { intros t _. unfold sf, sf'. auto_derive; [exact I | ring]. }
  assert (Hf' : forall t, 1 <= t <= 2 -> is_derive sf' t (sf'' t)).
  { intros t _. unfold sf', sf''. auto_derive; [exact I | ring]. }
  assert (Hlow : forall t, 1 <= t <= 2 -> 2 <= Rabs (sf' t)).
  { intros t Ht. unfold sf'. rewrite Rabs_pos_eq; lra. }
  assert (Hup : forall t, 1 <= t <= 2 -> Rabs (sf'' t) <= 2).
  { intros t _. unfold sf''. rewrite Rabs_pos_eq; lra. }
  assert (Hq : 0 <= 1/2 < 1) by lra.
  assert (Htol : 0 < 1/1000 <= 10) by lra.
  assert (Hball : 1 <= 3/2 - rho sf 2 (3/2) (1/2) /\ 3/2 + rho sf 2 (3/2) (1/2) <= 2).
  { unfold rho. rewrite Hsf0. lra. }
  assert (Hreg : kappa 2 2 * Rabs (sf (3/2)) <= 1/2).
  { unfold kappa. rewrite Hsf0. lra. }
  assert (Hpow : (1/2) ^ 8 * Rabs (sf (3/2)) < 1/1000).
  { rewrite Hsf0. simpl. lra. }
  destruct (newton_converges_scalar_ball sf sf' sf'' 1 2 2 2 Hm Hf Hf' Hlow Hup
              (3/2) (1/2) (1/1000) 10 10%nat 20%nat 8%nat norms
              Hq Htol ltac:(lia) Hball Hreg Hagree ltac:(lia) Hpow)
    as (d & Hd & H1 & H2 & H3 & _ & H5 & _).
  exists d. split; [exact Hd|]. repeat split; assumption.
Qed.

End Sqrt2Example.

(* ====================================================================== *)
(*  Axioms                                                                *)
(* ====================================================================== *)

Print Assumptions first_hit_result.
Print Assumptions exhausted_result.
Print Assumptions every_first_trial_accepted.
Print Assumptions newton_converges_ctl.
Print Assumptions corner_hit_at_niter.
Print Assumptions HalvingExample.spurious_warning.
Print Assumptions newton_step_quadratic.
Print Assumptions newton_converges_scalar.
Print Assumptions newton_converges_scalar_ball.
Print Assumptions Sqrt2Example.sqrt2_converges.
