(* Instance 2: sign symmetries (property C07, sign clauses of C19).
   A type is a parity bit (true = the quantity changes sign).  The generator may
   also permute the grid (toroidal reversal: pi = rev, and the differentiation
   matrix anticommutes with it: flip = true). *)
From Coq Require Import Reals String List ZArith QArith Lra Lia Permutation Bool.
From QSC Require Import Expr Equiv.
Import ListNotations.
Open Scope R_scope.

Definition schi (b : bool) : R := if b then -1 else 1.

Definition even_only (b : bool) : option bool := if b then None else Some false.

Definition SignT (flip : bool) : tysys := {|
  ty := bool;
  chi := schi;
  t_eqb := Bool.eqb;
  t_one := false;
  t_mul := xorb;
  t_inv := fun a => a;
  t_sqrt := even_only;
  t_root4 := even_only;
  t_abs := fun _ => Some false;
  t_sin := fun a => Some a;
  t_cos := fun _ => Some false;
  t_exp := even_only;
  t_ext := even_only;
  t_dphi := fun a => Some (xorb a flip);
  t_sum := fun a => Some a;
  t_at := fun i a => match i with O => Some a | S _ => None end;
  t_pin := fun a => Some a;
  t_fmin := even_only
|}.

Section Sign.
  Variable n : nat.
  Variable Dm : nat -> nat -> R.
  Variable fmin : (nat -> R) -> R.
  Variable pi : nat -> nat.
  Variable flip : bool.
  Hypothesis Hn : (0 < n)%nat.
  Hypothesis Hperm : grid_perm n pi.
  Hypothesis HD : forall j k, (j < n)%nat -> (k < n)%nat -> Dm (pi j) (pi k) = schi flip * Dm j k.
  Hypothesis Hpin : forall j, (j < n)%nat -> Nat.eqb (pi j) 0 = Nat.eqb j 0.
  (* assumed of the spectral-minimum oracle: it depends only on the grid data and is
     invariant under the grid permutation pi *)
  Hypothesis fmin_inv : forall v v', (forall j, (j < n)%nat -> v' j = v (pi j)) -> fmin v' = fmin v.
  Hypothesis fmin_zero : forall v, (forall j, v j = 0) -> fmin v = 0.

  Lemma schi_sq b : schi b * schi b = 1.
  Proof. destruct b; simpl; lra. Qed.

  Lemma pi0 : pi 0 = 0%nat.
  Proof. pose proof (Hpin 0%nat Hn) as H. simpl in H. apply Nat.eqb_eq in H. exact H. Qed.

  Lemma SignT_ok : tysys_ok n Dm fmin n Dm fmin (SignT flip) pi 1.
  Proof.
    constructor; simpl.
    - apply (perm_range n _ Hperm).
    - apply (perm_sumlaw n _ Hperm).
    - apply (perm_maxlaw n _ Hperm).
    - apply (perm_minlaw n _ Hperm).
    - intros a b H. apply eqb_prop in H. subst; reflexivity.
    - reflexivity.
    - intros [|] [|]; simpl; lra.
    - intros [|]; simpl; [|rewrite Rinv_1; reflexivity].
      field.
    - intros [|] b H x; simpl in *; [discriminate|]. injection H as <-. simpl. rewrite !Rmult_1_l. reflexivity.
    - intros [|] b H x; simpl in *; [discriminate|]. injection H as <-. simpl.
      rewrite !Rmult_1_l. reflexivity.
    - intros [|] b H x; injection H as <-; simpl.
      + replace (-1 * x) with (- x) by lra. rewrite Rabs_Ropp. lra.
      + rewrite !Rmult_1_l; reflexivity.
    - intros [|] b H x; injection H as <-; simpl.
      + replace (-1 * x) with (- x) by lra. rewrite sin_neg. lra.
      + rewrite !Rmult_1_l; reflexivity.
    - intros [|] b H x; injection H as <-; simpl.
      + replace (-1 * x) with (- x) by lra. rewrite cos_neg. lra.
      + rewrite !Rmult_1_l; reflexivity.
    - intros [|] b H x; simpl in *; [discriminate|]. injection H as <-. simpl.
      rewrite !Rmult_1_l. reflexivity.
    - intros [|] b H; simpl in *; [discriminate|]. injection H as <-. simpl. split; lra.
    - intros a b H. injection H as <-. apply (perm_dphi n Dm pi Hperm).
      intros j k Hj Hk. rewrite (HD j k Hj Hk). destruct a, flip; simpl; lra.
    - intros a b H. injection H as <-. ring.
    - intros i a b H. destruct i; [|discriminate]. injection H as <-. split; [exact Hn|]. split; [apply pi0|reflexivity].
    - intros a b H. injection H as <-. split; [reflexivity|exact Hpin].
    - intros [|] b H v v' Hv; simpl in *; [discriminate|]. injection H as <-. simpl.
      rewrite Rmult_1_l. apply fmin_inv. intros j Hj. rewrite Hv by exact Hj. lra.
    - split; exact fmin_zero.
    - tauto.
  Qed.
End Sign.

(* ---- closed statement for one program and one generator ---- *)
Definition sign_check (flip : bool) (Gin : list (string * option bool)) (p : prog)
           (outs : list (string * bool)) (eqs : list string) : bool :=
  let G := infer_prog (SignT flip) (assoc_env Gin) p in
  check_outputs (SignT flip) G outs && check_typed (SignT flip) G eqs.

Definition sign_failures (flip : bool) (Gin : list (string * option bool)) (p : prog)
           (outs : list (string * bool)) (eqs : list string) : list string :=
  let G := infer_prog (SignT flip) (assoc_env Gin) p in
  failing_outputs (SignT flip) G outs ++ untyped_names (SignT flip) G eqs.

(* what is assumed of the generator's grid action and of the oracle *)
Record sign_action_ok (n : nat) (Dm : nat -> nat -> R) (fmin : (nat -> R) -> R)
       (pi : nat -> nat) (flip : bool) : Prop := {
  sa_n : (0 < n)%nat;
  sa_perm : grid_perm n pi;
  sa_D : forall j k, (j < n)%nat -> (k < n)%nat -> Dm (pi j) (pi k) = schi flip * Dm j k;
  sa_pin : forall j, (j < n)%nat -> Nat.eqb (pi j) 0 = Nat.eqb j 0;
  sa_fmin : forall v v', (forall j, (j < n)%nat -> v' j = v (pi j)) -> fmin v' = fmin v;
  sa_fmin0 : forall v, (forall j, v j = 0) -> fmin v = 0
}.

Definition signed_env (pi : nat -> nat) (G : string -> option (option bool)) (rho : env) : env :=
  fun x j => match G x with
             | Some (Some b) => schi b * rho x (pi j)
             | _ => rho x (pi j)
             end.

Definition zero_ok_s (G : string -> option (option bool)) (rho : env) : Prop :=
  forall x, G x = Some None -> forall j, rho x j = 0.

Definition sign_law (flip : bool) (Gin : list (string * option bool)) (p : prog)
           (outs : list (string * bool)) (eqs : list string) : Prop :=
  forall (n : nat) (Dm : nat -> nat -> R) (fmin : (nat -> R) -> R) (pi : nat -> nat) (rho : env),
    sign_action_ok n Dm fmin pi flip -> zero_ok_s (assoc_env Gin) rho ->
    let rho' := signed_env pi (assoc_env Gin) rho in
    (forall x b, In (x, b) outs -> forall j, (j < n)%nat ->
       run n Dm fmin p rho' x j = schi b * run n Dm fmin p rho x (pi j))
    /\
    (forall x, In x eqs -> (forall j, (j < n)%nat -> run n Dm fmin p rho x j = 0) ->
       forall j, (j < n)%nat -> run n Dm fmin p rho' x j = 0).

Theorem sign_check_sound flip Gin p outs eqs :
  sign_check flip Gin p outs eqs = true -> sign_law flip Gin p outs eqs.
Proof.
  unfold sign_check. intros Hc. apply andb_true_iff in Hc. destruct Hc as [Hc1 Hc2].
  intros n Dm fmin pi rho [Hn Hperm HD Hpin Hf Hf0] Hz rho'.
  pose proof (SignT_ok n Dm fmin pi flip Hn Hperm HD Hpin Hf Hf0) as OK.
  assert (HG : env_rel n (SignT flip) pi (assoc_env Gin) rho rho').
  { intros y t Hy. unfold rho', signed_env. destruct t as [b|]; simpl.
    - intros k _. rewrite Hy. reflexivity.
    - split; intros k; rewrite ?Hy; apply (Hz y Hy). }
  split.
  - intros x b Hin j Hj.
    apply (check_outputs_sound n Dm fmin n Dm fmin (SignT flip) pi 1 OK (assoc_env Gin) p outs rho rho' HG Hc1 x b Hin j Hj).
  - intros x Hin H0 j Hj.
    apply (check_typed_sound n Dm fmin n Dm fmin (SignT flip) pi 1 OK (assoc_env Gin) p eqs rho rho' HG Hc2 x Hin H0 j Hj).
Qed.

(* ---- definite parity of a symmetric input (C07, last clause) ----
   If the input environment is itself invariant under the generator (every typed input x obeys
   rho x j = chi(type) * rho x (pi j): for the composition of mirror and toroidal reversal this says that the input is
   stellarator-symmetric), then every typed output has the same definite parity.  Oracle solutions that the program
   reads as inputs carry the hypothesis like any other input; the [eqs] half of [sign_law] says that the reflected
   solution solves the same equations, so the hypothesis holds for them whenever the solution is unique. *)
Definition parity_law (flip : bool) (Gin : list (string * option bool)) (p : prog) (outs : list (string * bool)) : Prop :=
  forall (n : nat) (Dm : nat -> nat -> R) (fmin : (nat -> R) -> R) (pi : nat -> nat) (rho : env),
    sign_action_ok n Dm fmin pi flip -> zero_ok_s (assoc_env Gin) rho ->
    (forall x b, assoc_env Gin x = Some (Some b) -> forall j, (j < n)%nat -> rho x j = schi b * rho x (pi j)) ->
    forall x b, In (x, b) outs -> forall j, (j < n)%nat ->
      run n Dm fmin p rho x j = schi b * run n Dm fmin p rho x (pi j).

Theorem sign_check_parity flip Gin p outs eqs :
  sign_check flip Gin p outs eqs = true -> parity_law flip Gin p outs.
Proof.
  unfold sign_check. intros Hc. apply andb_true_iff in Hc. destruct Hc as [Hc1 _].
  intros n Dm fmin pi rho [Hn Hperm HD Hpin Hf Hf0] Hz Hsym x b Hin j Hj.
  pose proof (SignT_ok n Dm fmin pi flip Hn Hperm HD Hpin Hf Hf0) as OK.
  assert (HG : env_rel n (SignT flip) pi (assoc_env Gin) rho rho).
  { intros y t Hy. destruct t as [c|]; simpl.
    - intros k Hk. apply (Hsym y c Hy k Hk).
    - split; intros k; apply (Hz y Hy). }
  apply (check_outputs_sound n Dm fmin n Dm fmin (SignT flip) pi 1 OK (assoc_env Gin) p outs rho rho HG Hc1 x b Hin j Hj).
Qed.
