(* The quadrant counter of _determine_helicity (theories/Quadrant.v) IS the winding number, on a resolved grid.

   "Resolved" means: the direction of the normal in the (R,Z) plane can be followed continuously, i.e. there are LIFTED quadrant
   indices L_0, L_1, ..., L_{n-1} in Z (quadrant number = L mod 4, counted without wrapping) such that consecutive grid points
   differ by at most one quadrant and the curve closes after w full turns: L_0 + 4 w is within one quadrant of L_{n-1}.
   Then the code's counter equals 4 w exactly, whatever the starting quadrant -- so helicity = sG spsi w.
   (For a continuous angle alpha with |alpha_{j+1} - alpha_j| < pi/2 the lift is L_j = floor(alpha_j / (pi/2)): [floor_step].) *)
From Coq Require Import ZArith List Lia Bool Reals Lra.
From QSC Require Import Quadrant.
Import ListNotations.
Open Scope Z_scope.

#[local] Ltac Zify.zify_post_hook ::= Z.to_euclidean_division_equations.

Definition qof (L : Z) : Z := L mod 4 + 1.

Lemma qof_inq L : inq (qof L).
Proof. unfold inq, qof. lia. Qed.

Lemma qof_period L w : qof (L + 4 * w) = qof L.
Proof. unfold qof. f_equal. rewrite Z.mul_comm, Z_mod_plus_full. reflexivity. Qed.

Lemma dq_lift a b : -1 <= b - a <= 1 -> dq (qof a) (qof b) = b - a.
Proof.
  intros H. unfold dq, qof.
  destruct (Z.eqb_spec (a mod 4 + 1) 4) as [E1|E1]; destruct (Z.eqb_spec (b mod 4 + 1) 1) as [E2|E2];
    destruct (Z.eqb_spec (a mod 4 + 1) 1) as [E3|E3]; destruct (Z.eqb_spec (b mod 4 + 1) 4) as [E4|E4]; cbn [andb]; lia.
Qed.

(* unit steps along prev :: rest, then back to the (lifted) first point *)
Fixpoint unit_from (target prev : Z) (rest : list Z) : Prop :=
  match rest with
  | [] => -1 <= target - prev <= 1
  | q :: r => -1 <= q - prev <= 1 /\ unit_from target q r
  end.

Lemma count_from_lift : forall rest first prev w,
  unit_from (first + 4 * w) prev rest ->
  count_from (qof first) (qof prev) (map qof rest) = first + 4 * w - prev.
Proof.
  induction rest as [|q r IH]; intros first prev w H; cbn [map count_from unit_from] in *.
  - rewrite <- (qof_period first w). apply dq_lift. exact H.
  - destruct H as [H1 H2]. rewrite (dq_lift prev q H1), (IH first q w H2). lia.
Qed.

(* the statement: counter = 4 * (number of turns) *)
Theorem counter_is_winding (L0 : Z) (rest : list Z) (w : Z) :
  unit_from (L0 + 4 * w) L0 rest ->
  counter (map qof (L0 :: rest)) = 4 * w.
Proof.
  intros H. cbn [map counter]. rewrite (count_from_lift rest L0 L0 w H). lia.
Qed.

(* with the sign factor of the code: helicity * 4 = sG spsi * 4 w *)
Corollary helicity_is_winding (s : Z) (signs : list (bool * bool)) (L0 : Z) (rest : list Z) (w : Z) :
  map (fun x => quad (fst x) (snd x)) signs = map qof (L0 :: rest) ->
  unit_from (L0 + 4 * w) L0 rest ->
  helicity4 s signs = 4 * (s * w).
Proof.
  intros Hq H. unfold helicity4. rewrite Hq, (counter_is_winding L0 rest w H). lia.
Qed.

(* non-vacuity: two turns of a normal sampled at 3 points per quadrant *)
Example two_turns :
  let L := map (fun k => k / 3) (map Z.of_nat (seq 0 24)) in
  counter (map qof L) = 8.
Proof. vm_compute. reflexivity. Qed.
Example two_turns_premise :
  unit_from (0 + 4 * 2) 0 (tl (map (fun k => k / 3) (map Z.of_nat (seq 0 24)))).
Proof. vm_compute. repeat split; discriminate. Qed.

(* the lift of a continuous angle: steps of less than one quadrant change the quadrant index by at most one *)
Open Scope R_scope.
Lemma floor_step (x y : R) : Rabs (y - x) < 1 -> (-1 <= Int_part y - Int_part x <= 1)%Z.
Proof.
  intros H.
  destruct (base_Int_part x) as [Hx1 Hx2]. destruct (base_Int_part y) as [Hy1 Hy2].
  apply Rabs_def2 in H. destruct H as [Ha Hb].
  split.
  - apply Z.lt_succ_r. apply lt_IZR. rewrite succ_IZR, minus_IZR. simpl (IZR (-1)). lra.
  - apply Z.lt_succ_r. apply lt_IZR. rewrite succ_IZR, minus_IZR. lra.
Qed.

Print Assumptions counter_is_winding.
Print Assumptions helicity_is_winding.
Print Assumptions floor_step.
