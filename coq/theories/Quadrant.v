(* ------------------------------------------------------------------------- *)
(*  Quadrant.v : Coq model of pyQSC's helicity counter                        *)
(*               (qsc/calculate_r1.py, _determine_helicity)                   *)
(*                                                                           *)
(*  The Python function looks only at the signs of the R and Z components of *)
(*  the normal vector at each grid point, assigns a quadrant number 1..4 and  *)
(*  sums the "quadrant increments" around the closed loop                     *)
(*       q0 q1 ... q(n-1) q0 .                                                *)
(*  Everything here is over Z and lists: no Reals, no axioms.                 *)
(* ------------------------------------------------------------------------- *)

From Coq Require Import ZArith List Bool Lia.
Import ListNotations.
Open Scope Z_scope.

(* ========================================================================= *)
(** * 1. Model                                                               *)
(* ========================================================================= *)

(* rneg = (normal_R < 0), zneg = (normal_Z < 0); the code tests [>= 0]. *)
Definition quad (rneg zneg : bool) : Z :=
  if rneg then (if zneg then 3 else 2) else (if zneg then 4 else 1).

Definition dq (a b : Z) : Z :=
  if (a =? 4) && (b =? 1) then 1
  else if (a =? 1) && (b =? 4) then -1
  else b - a.

(* counter over the closed sequence q0 q1 ... q(n-1) q0 *)
Fixpoint count_from (first prev : Z) (rest : list Z) : Z :=
  match rest with
  | [] => dq prev first
  | q :: r => dq prev q + count_from first q r
  end.

Definition counter (qs : list Z) : Z :=
  match qs with
  | [] => 0
  | q :: r => count_from q q r
  end.

Definition helicity4 (sGspsi : Z) (signs : list (bool * bool)) : Z :=
  sGspsi * counter (map (fun s => quad (fst s) (snd s)) signs).

(* Executable function for the correspondence check (the code's helicity is
   helicity4_of_signs / 4). *)
Definition helicity4_of_signs (sGspsi : Z) (signs : list (bool * bool)) : Z :=
  helicity4 sGspsi signs.

(* Range predicate: a legal quadrant number. *)
Definition inq (q : Z) : Prop := 1 <= q <= 4.

Lemma inq_cases : forall q, inq q -> q = 1 \/ q = 2 \/ q = 3 \/ q = 4.
Proof. unfold inq; intros; lia. Qed.

Lemma quad_inq : forall r z, inq (quad r z).
Proof. intros [] []; unfold inq, quad; lia. Qed.

Lemma quads_inq : forall signs : list (bool * bool),
  Forall inq (map (fun s => quad (fst s) (snd s)) signs).
Proof.
  induction signs as [|s l IH]; simpl; constructor; auto using quad_inq.
Qed.

(* ========================================================================= *)
(** * 2. Elementary facts about [dq]                                         *)
(* ========================================================================= *)

(* Indicators of the two "cut crossings". *)
Definition c41 (a b : Z) : Z := if (a =? 4) && (b =? 1) then 1 else 0.
Definition c14 (a b : Z) : Z := if (a =? 1) && (b =? 4) then 1 else 0.

(* Key decomposition, valid for ALL integers a b (no range hypothesis). *)
Lemma dq_decomp : forall a b, dq a b = (b - a) + 4 * c41 a b - 4 * c14 a b.
Proof.
  intros a b. unfold dq, c41, c14.
  destruct (Z.eqb_spec a 4); destruct (Z.eqb_spec b 1);
  destruct (Z.eqb_spec a 1); destruct (Z.eqb_spec b 4); simpl; lia.
Qed.

(* Antisymmetry, valid for ALL integers a b. *)
Lemma dq_antisym : forall a b, dq b a = - dq a b.
Proof.
  intros a b. unfold dq.
  destruct (Z.eqb_spec a 4); destruct (Z.eqb_spec b 1);
  destruct (Z.eqb_spec a 1); destruct (Z.eqb_spec b 4); simpl; lia.
Qed.

Lemma dq_refl : forall a, dq a a = 0.
Proof. intros a. pose proof (dq_antisym a a). lia. Qed.

(* ========================================================================= *)
(** * 3. Open chains: the common tool                                        *)
(* ========================================================================= *)

(* Sum of dq along the open path  p, l0, l1, ...  *)
Fixpoint chain_from (p : Z) (l : list Z) : Z :=
  match l with
  | [] => 0
  | q :: r => dq p q + chain_from q r
  end.

Definition chain (l : list Z) : Z :=
  match l with
  | [] => 0
  | p :: r => chain_from p r
  end.

(* last element with default *)
Fixpoint lastd (d : Z) (l : list Z) : Z :=
  match l with
  | [] => d
  | a :: r => lastd a r
  end.

Lemma lastd_snoc : forall l d a, lastd d (l ++ [a]) = a.
Proof. induction l as [|x l IH]; intros; simpl; auto. Qed.

Lemma lastd_rev : forall l d, lastd d (rev l) = hd d l.
Proof. destruct l as [|x l]; intros; simpl; auto using lastd_snoc. Qed.

Lemma count_from_chain : forall rest first prev,
  count_from first prev rest = chain_from prev (rest ++ [first]).
Proof.
  induction rest as [|q r IH]; intros; simpl.
  - lia.
  - rewrite IH. reflexivity.
Qed.

Lemma chain_from_app : forall l1 l2 p,
  chain_from p (l1 ++ l2) = chain_from p l1 + chain_from (lastd p l1) l2.
Proof.
  induction l1 as [|a l1 IH]; intros; simpl.
  - reflexivity.
  - rewrite IH. lia.
Qed.

Lemma counter_chain : forall q r, counter (q :: r) = chain (q :: r ++ [q]).
Proof. intros; simpl. apply count_from_chain. Qed.

Lemma chain_snoc : forall l a, chain (l ++ [a]) = chain l + dq (lastd a l) a.
Proof.
  destruct l as [|p r]; intros; simpl.
  - rewrite dq_refl. reflexivity.
  - rewrite chain_from_app. simpl. lia.
Qed.

Lemma chain_cons : forall a l, chain (a :: l) = dq a (hd a l) + chain l.
Proof.
  destruct l as [|b l]; simpl.
  - rewrite dq_refl. reflexivity.
  - reflexivity.
Qed.

Lemma chain_rev : forall l, chain (rev l) = - chain l.
Proof.
  induction l as [|a l IH].
  - reflexivity.
  - change (rev (a :: l)) with (rev l ++ [a]).
    rewrite chain_snoc, IH, lastd_rev, chain_cons.
    rewrite (dq_antisym a (hd a l)). lia.
Qed.

(* ========================================================================= *)
(** * Q4. Winding number                                                      *)
(* ========================================================================= *)

(* number of 4->1 crossings, resp. 1->4 crossings, along the closed loop *)
Fixpoint n41_from (first prev : Z) (rest : list Z) : Z :=
  match rest with
  | [] => c41 prev first
  | q :: r => c41 prev q + n41_from first q r
  end.

Fixpoint n14_from (first prev : Z) (rest : list Z) : Z :=
  match rest with
  | [] => c14 prev first
  | q :: r => c14 prev q + n14_from first q r
  end.

Definition n41 (qs : list Z) : Z :=
  match qs with [] => 0 | q :: r => n41_from q q r end.
Definition n14 (qs : list Z) : Z :=
  match qs with [] => 0 | q :: r => n14_from q q r end.

Lemma count_from_winding : forall rest first prev,
  count_from first prev rest
  = (first - prev) + 4 * (n41_from first prev rest - n14_from first prev rest).
Proof.
  induction rest as [|q r IH]; intros; cbn [count_from n41_from n14_from].
  - rewrite dq_decomp. lia.
  - rewrite IH, dq_decomp. lia.
Qed.

(* The identity holds with NO side condition at all (not even 1..4). *)
Theorem counter_winding_gen : forall qs,
  counter qs = 4 * (n41 qs - n14 qs).
Proof.
  destruct qs as [|q r]; cbn [counter n41 n14].
  - reflexivity.
  - rewrite count_from_winding. lia.
Qed.
Print Assumptions counter_winding_gen.

(* The adjacency side condition of the brief: every successive pair
   (cyclically) differs by at most one quadrant step. *)
Definition nextq (q : Z) : Z := if q =? 4 then 1 else q + 1.
Definition adjacent (a b : Z) : Prop := b = a \/ b = nextq a \/ a = nextq b.

Fixpoint adj_from (first prev : Z) (rest : list Z) : Prop :=
  match rest with
  | [] => adjacent prev first
  | q :: r => adjacent prev q /\ adj_from first q r
  end.

Definition cyc_adjacent (qs : list Z) : Prop :=
  match qs with [] => True | q :: r => adj_from q q r end.

(* Q4 as stated in the brief (the hypotheses turn out to be unnecessary for
   the equation; they are what makes "signed number of turns" meaningful,
   see [dq_adjacent] / [counter_unit_steps] below). *)
Theorem counter_winding : forall qs,
  Forall inq qs -> cyc_adjacent qs ->
  counter qs = 4 * (n41 qs - n14 qs).
Proof. intros qs _ _. apply counter_winding_gen. Qed.
Print Assumptions counter_winding.

(* Under adjacency, every increment is a genuine unit step: 0, +1 or -1,
   with +1 exactly for a forward (counter-clockwise) step, and conversely. *)
Lemma dq_adjacent : forall a b, inq a -> inq b ->
  (adjacent a b <-> -1 <= dq a b <= 1).
Proof.
  intros a b Ha Hb.
  destruct (inq_cases a Ha) as [?|[?|[?|?]]];
  destruct (inq_cases b Hb) as [?|[?|[?|?]]]; subst;
  unfold adjacent, nextq, dq; simpl; lia.
Qed.

Lemma dq_forward : forall a, inq a -> dq a (nextq a) = 1.
Proof.
  intros a Ha. destruct (inq_cases a Ha) as [?|[?|[?|?]]]; subst; reflexivity.
Qed.

Lemma dq_backward : forall a, inq a -> dq (nextq a) a = -1.
Proof.
  intros a Ha. destruct (inq_cases a Ha) as [?|[?|[?|?]]]; subst; reflexivity.
Qed.

(* The exceptional (two-step) jumps: exactly the pairs 1<->3 and 2<->4, where
   the code counts +-2 with the sign of b - a (i.e. never across the 4|1 cut). *)
Lemma dq_two_step : forall a b, inq a -> inq b ->
  ~ adjacent a b -> (dq a b = 2 \/ dq a b = -2) /\ dq a b = b - a.
Proof.
  intros a b Ha Hb.
  destruct (inq_cases a Ha) as [?|[?|[?|?]]];
  destruct (inq_cases b Hb) as [?|[?|[?|?]]]; subst;
  unfold adjacent, nextq, dq; simpl; lia.
Qed.

(* Number of steps in the closed loop, and bound on the counter: under the
   adjacency condition |counter| <= number of grid points. *)
Lemma count_from_unit_steps : forall rest first prev,
  Forall inq (first :: prev :: rest) -> adj_from first prev rest ->
  - (Z.of_nat (S (length rest))) <= count_from first prev rest
     <= Z.of_nat (S (length rest)).
Proof.
  induction rest as [|q r IH]; intros first prev HF HA.
  - simpl in HA. inversion HF as [|? ? H1 HF']; subst.
    inversion HF' as [|? ? H2 _]; subst.
    apply dq_adjacent in HA; [|assumption|assumption]. simpl count_from. simpl length. lia.
  - simpl in HA. destruct HA as [HA1 HA2].
    inversion HF as [|? ? H1 HF']; subst.
    inversion HF' as [|? ? H2 HF'']; subst.
    inversion HF'' as [|? ? H3 HF3]; subst.
    apply dq_adjacent in HA1; [|assumption|assumption].
    assert (HI := IH first q (Forall_cons _ H1 (Forall_cons _ H3 HF3)) HA2).
    simpl count_from. simpl length.
    rewrite Nat2Z.inj_succ in *. lia.
Qed.

Theorem counter_unit_steps : forall qs,
  Forall inq qs -> cyc_adjacent qs ->
  - Z.of_nat (length qs) <= counter qs <= Z.of_nat (length qs).
Proof.
  destruct qs as [|q r]; intros HF HA.
  - simpl. lia.
  - simpl counter. simpl in HA.
    inversion HF as [|? ? H1 HF']; subst.
    apply (count_from_unit_steps r q q); auto.
Qed.
Print Assumptions counter_unit_steps.

(* ========================================================================= *)
(** * Q1. The counter is a multiple of 4 (so the helicity is an integer)      *)
(* ========================================================================= *)

(* Unconditional version. *)
Theorem counter_mod4_gen : forall qs, (counter qs) mod 4 = 0.
Proof.
  intros qs. rewrite counter_winding_gen.
  rewrite Z.mul_comm. apply Z_mod_mult.
Qed.
Print Assumptions counter_mod4_gen.

Theorem counter_mod4 : forall qs,
  Forall inq qs -> (counter qs) mod 4 = 0.
Proof. intros qs _. apply counter_mod4_gen. Qed.
Print Assumptions counter_mod4.

Theorem counter_div4 : forall qs, counter qs = 4 * (counter qs / 4).
Proof.
  intros qs. pose proof (Z_div_mod_eq_full (counter qs) 4) as H.
  rewrite counter_mod4_gen in H. lia.
Qed.
Print Assumptions counter_div4.

Theorem helicity4_mod4 : forall s signs, (helicity4 s signs) mod 4 = 0.
Proof.
  intros s signs. unfold helicity4.
  rewrite counter_winding_gen.
  replace (s * (4 * (n41 (map (fun s0 => quad (fst s0) (snd s0)) signs)
                   - n14 (map (fun s0 => quad (fst s0) (snd s0)) signs))))
    with ((s * (n41 (map (fun s0 => quad (fst s0) (snd s0)) signs)
              - n14 (map (fun s0 => quad (fst s0) (snd s0)) signs))) * 4) by lia.
  apply Z_mod_mult.
Qed.
Print Assumptions helicity4_mod4.

(* The integer helicity itself is sGspsi * (signed number of cut crossings). *)
Theorem helicity_integer : forall s signs,
  helicity4 s signs / 4
  = s * (n41 (map (fun p => quad (fst p) (snd p)) signs)
       - n14 (map (fun p => quad (fst p) (snd p)) signs)).
Proof.
  intros s signs. unfold helicity4. rewrite counter_winding_gen.
  set (w := n41 _ - n14 _).
  replace (s * (4 * w)) with ((s * w) * 4) by lia.
  apply Z_div_mult_full. lia.
Qed.
Print Assumptions helicity_integer.

(* ========================================================================= *)
(** * Q2. Mirror (Z -> -Z)                                                    *)
(* ========================================================================= *)

Definition mirrorq (q : Z) : Z :=
  if q =? 1 then 4 else if q =? 4 then 1
  else if q =? 2 then 3 else if q =? 3 then 2 else q.

Lemma mirrorq_inq : forall q, inq q -> inq (mirrorq q).
Proof.
  intros q H. destruct (inq_cases q H) as [?|[?|[?|?]]]; subst;
  unfold inq, mirrorq; simpl; lia.
Qed.

Lemma mirrorq_invol : forall q, inq q -> mirrorq (mirrorq q) = q.
Proof.
  intros q H. destruct (inq_cases q H) as [?|[?|[?|?]]]; subst; reflexivity.
Qed.

(* Holds for ALL pairs in 1..4, including the two-step jumps. *)
Lemma dq_mirror : forall a b, inq a -> inq b ->
  dq (mirrorq a) (mirrorq b) = - dq a b.
Proof.
  intros a b Ha Hb.
  destruct (inq_cases a Ha) as [?|[?|[?|?]]];
  destruct (inq_cases b Hb) as [?|[?|[?|?]]]; subst; reflexivity.
Qed.

Lemma count_from_mirror : forall rest first prev,
  inq first -> inq prev -> Forall inq rest ->
  count_from (mirrorq first) (mirrorq prev) (map mirrorq rest)
  = - count_from first prev rest.
Proof.
  induction rest as [|q r IH]; intros first prev Hf Hp HF; simpl.
  - apply dq_mirror; auto.
  - inversion HF as [|? ? Hq HF']; subst.
    rewrite IH, dq_mirror; auto. lia.
Qed.

Theorem counter_mirror : forall qs,
  Forall inq qs -> counter (map mirrorq qs) = - counter qs.
Proof.
  destruct qs as [|q r]; intros HF; simpl.
  - reflexivity.
  - inversion HF; subst. apply count_from_mirror; auto.
Qed.
Print Assumptions counter_mirror.

(* On the sign level: flipping the sign bit of Z at every point. *)
Lemma quad_mirror : forall r z, quad r (negb z) = mirrorq (quad r z).
Proof. intros [] []; reflexivity. Qed.

Theorem helicity4_mirror : forall s signs,
  helicity4 s (map (fun p => (fst p, negb (snd p))) signs) = - helicity4 s signs.
Proof.
  intros s signs. unfold helicity4.
  rewrite map_map. simpl.
  rewrite (map_ext _ (fun p => mirrorq (quad (fst p) (snd p))))
    by (intros; apply quad_mirror).
  rewrite <- (map_map (fun p => quad (fst p) (snd p)) mirrorq).
  rewrite counter_mirror by apply quads_inq. lia.
Qed.
Print Assumptions helicity4_mirror.

(* ========================================================================= *)
(** * Q3. Reversal of the toroidal direction                                  *)
(* ========================================================================= *)

(* No side condition is needed: [dq_antisym] holds for all pairs. *)
Theorem counter_reverse : forall q0 rest,
  counter (q0 :: rev rest) = - counter (q0 :: rest).
Proof.
  intros q0 rest.
  rewrite !counter_chain.
  rewrite <- (chain_rev (q0 :: rest ++ [q0])).
  f_equal. simpl. rewrite rev_app_distr. reflexivity.
Qed.
Print Assumptions counter_reverse.

(* Same, reversing the whole list (a different base point of the loop). *)
Theorem counter_rev : forall qs, counter (rev qs) = - counter qs.
Proof.
  destruct qs as [|q r].
  - reflexivity.
  - change (rev (q :: r)) with (rev r ++ [q]).
    (* rotate, then use counter_reverse; rotation proved inline here *)
    rewrite <- counter_reverse.
    destruct (rev r) as [|a l] eqn:E.
    + reflexivity.
    + simpl. rewrite !count_from_chain.
      rewrite chain_from_app, lastd_snoc. simpl. lia.
Qed.
Print Assumptions counter_rev.

Theorem helicity4_reverse : forall s p0 rest,
  helicity4 s (p0 :: rev rest) = - helicity4 s (p0 :: rest).
Proof.
  intros s p0 rest. unfold helicity4.
  rewrite !map_cons, map_rev, counter_reverse. lia.
Qed.
Print Assumptions helicity4_reverse.

(* ========================================================================= *)
(** * Q5. Rotation of the toroidal origin                                     *)
(* ========================================================================= *)

(* No side condition (not even 1..4). *)
Theorem counter_rotate : forall q r, counter (r ++ [q]) = counter (q :: r).
Proof.
  intros q r. destruct r as [|a l].
  - reflexivity.
  - simpl. rewrite !count_from_chain.
    rewrite chain_from_app, lastd_snoc. simpl. lia.
Qed.
Print Assumptions counter_rotate.

(* Iterated: any cyclic shift. *)
Theorem counter_rotate_app : forall l1 l2, counter (l1 ++ l2) = counter (l2 ++ l1).
Proof.
  induction l1 as [|a l1 IH]; intros l2.
  - rewrite app_nil_r. reflexivity.
  - replace (l2 ++ a :: l1) with ((l2 ++ [a]) ++ l1)
      by (rewrite <- app_assoc; reflexivity).
    rewrite <- IH. rewrite app_assoc.
    rewrite counter_rotate. reflexivity.
Qed.
Print Assumptions counter_rotate_app.

Theorem helicity4_rotate : forall s p r,
  helicity4 s (r ++ [p]) = helicity4 s (p :: r).
Proof.
  intros. unfold helicity4. rewrite map_app. simpl map.
  rewrite counter_rotate. reflexivity.
Qed.
Print Assumptions helicity4_rotate.

(* Sign of sG*spsi. *)
Theorem helicity4_flip : forall s signs,
  helicity4 (- s) signs = - helicity4 s signs.
Proof. intros; unfold helicity4; lia. Qed.
Print Assumptions helicity4_flip.

Print Assumptions dq_decomp.
Print Assumptions dq_antisym.
Print Assumptions dq_mirror.
Print Assumptions dq_adjacent.
Print Assumptions dq_two_step.

(* ========================================================================= *)
(** * Q6. Examples                                                            *)
(* ========================================================================= *)

(* QA-like: the normal wobbles across the 4|1 cut and comes back. *)
Example ex_QA : counter [1;1;4;4;1;1] = 0.
Proof. vm_compute. reflexivity. Qed.

(* QH-like: two full turns. *)
Example ex_QH : counter [1;2;3;4;1;2;3;4] = 8.
Proof. vm_compute. reflexivity. Qed.

Example ex_QH_mirror : counter (map mirrorq [1;2;3;4;1;2;3;4]) = -8.
Proof. vm_compute. reflexivity. Qed.

Example ex_QH_reverse : counter (1 :: rev [2;3;4;1;2;3;4]) = -8.
Proof. vm_compute. reflexivity. Qed.

Example ex_QH_winding :
  n41 [1;2;3;4;1;2;3;4] = 2 /\ n14 [1;2;3;4;1;2;3;4] = 0.
Proof. vm_compute. auto. Qed.

(* same at the level of sign bits: (rneg, zneg) *)
Definition signs_QH : list (bool * bool) :=
  [(false,false);(true,false);(true,true);(false,true);
   (false,false);(true,false);(true,true);(false,true)].

Example ex_QH_signs : helicity4_of_signs 1 signs_QH = 8.
Proof. vm_compute. reflexivity. Qed.

Example ex_QH_helicity : helicity4_of_signs 1 signs_QH / 4 = 2.
Proof. vm_compute. reflexivity. Qed.

Example ex_QH_helicity_neg : helicity4_of_signs (-1) signs_QH / 4 = -2.
Proof. vm_compute. reflexivity. Qed.

Example ex_QH_signs_mirror :
  helicity4_of_signs 1 (map (fun p => (fst p, negb (snd p))) signs_QH) / 4 = -2.
Proof. vm_compute. reflexivity. Qed.

(* Two-step jumps: the equations still hold, but the "number of turns" reading
   is a convention: 1 -> 3 -> 1 is counted as +2 - 2 = 0. *)
Example ex_two_step : counter [1;3] = 0 /\ counter [2;4] = 0
                      /\ dq 1 3 = 2 /\ dq 3 1 = -2 /\ dq 2 4 = 2 /\ dq 4 2 = -2.
Proof. vm_compute. repeat split. Qed.
