(* ALIASING BOUNDS for the three grid operations of pyQSC (property C18: "profiles computed at increasing nphi form a
   convergent sequence ... once the Fourier spectrum of the profile they are computed from is resolved to that level").

   DiffKernel.v / InterpKernel.v prove that the spectral differentiation matrix [Dspec] and the trigonometric
   interpolant [kinterp] / [interp] are EXACT on the modes p <= m = n/2 (n = 2m+1 odd).  This file treats the modes that
   are NOT resolved, for the same objects (nothing is re-defined):

   conventions (those of DiffKernel.v):  grid abscissa  xg n j = 2 pi j / n  (period 2 pi in the grid variable x);
       interval factor  s = 2 pi / L  (the code's 2 pi/(xmax - xmin)); the physical angle is phi = x / s, so that a mode
       cos(k x) is cos(k w phi) with w = s, and d/dphi = s d/dx.  "w" of the task sheet is [s] here (bounds use Rabs s).
       Trigonometric polynomials of ARBITRARY degree K are DiffKernel.trigpoly K a b
           trigpoly K a b x = sum_{k=0}^{K} a k cos(k x) + b k sin(k x),     trigpoly' its termwise derivative.
       tsum m K g = sum_{k=m+1}^{K} g k   (the unresolved tail).

   A1  fold, fsign, fold_le, fold_resolved, alias_cos, alias_sin, aliasing_identity   (every n >= 1, every node index j)
           cos(k x_j) = cos(k' x_j),  sin(k x_j) = sg sin(k' x_j),  k' = fold n k <= n/2,  sg = fsign n k = +-1
   A2  Dspec_alias_cos, Dspec_alias_sin              the matrix differentiates the folded mode
       Dspec_alias_cos_err, Dspec_alias_sin_err      exact error of one mode
       Dspec_mode_bound_cos/sin                      |error| <= |s| (k + fold n k) <= |s| (k + m),  = 0 for k <= m
       Dspec_aliasing_bound_sharp, Dspec_aliasing_bound, Dspec_resolved, Dspec_aliasing_exact, Dspec_two_resolutions
   A3  kinterp_alias_cos/sin, kinterp_folded, kinterp_aliasing_bound (every real x),
       interp_aliasing_bound (the code's barycentric formula, x not a node), interp_resolved
   A4  trapezoid_sum, trapezoid_rule, trapezoid_exact, trapezoid_aliasing_bound   (EVERY n >= 1, odd or even)
   A5  Dspec_aliasing_bound_uniform, Dspec_resolved_onwards, kinterp_resolved_onwards, band_limited_exact
           weights independent of n (k + m <= 2k) and tails that decrease with n: resolved to eps at n0 ==> within eps
           of the exact value at every finer odd grid; a band-limited profile gives an eventually constant sequence
   A6  trigprim_derive, trigpoly_RInt, trigpoly_RInt_scaled, trigpoly_RInt_period, trapezoid_exact_RInt,
       trapezoid_aliasing_bound_RInt : the value  L a_0  is Coquelicot's Riemann integral over one period
   A7  EVEN n (EvenKernel.Dspec_even / kinterp_even / D_even): Dspec_even_alias_cos/sin, Dspec_even_aliasing_bound,
       kinterp_even_aliasing_bound, interp_even_aliasing_bound -- same bounds with the tail starting at k = n/2
   Examples (n = 3, k = 2 or 3) after each block show that the bounds are attained or sharp up to sin(2 pi/3).

   A2, A3, A5 are for odd n (what pyQSC uses: Qsc forces nphi odd); A7 is their even-n counterpart; A1, A4, A6 hold
   for every n >= 1.  Axioms: the standard Reals axioms + functional extensionality; the four A6 theorems that mention
   is_RInt / RInt also use Classical_Prop.classic (through Coquelicot). *)
From Coq Require Import Reals List ZArith Lra Lia Arith Bool.
From QSC Require Import Expr DiffMat TrigSum DiffKernel Bracket InterpKernel EvenKernel.
Open Scope R_scope.

(* ------------------------------------------------------------------ *)
(* finite-sum toolkit                                                  *)
Lemma rsum_minus n f g : rsum n f - rsum n g = rsum n (fun k => f k - g k).
Proof. induction n; simpl; [lra|]. rewrite <- IHn. lra. Qed.

Lemma rsum_Rabs n f : Rabs (rsum n f) <= rsum n (fun k => Rabs (f k)).
Proof.
  induction n; simpl; [rewrite Rabs_R0; lra|].
  eapply Rle_trans; [apply Rabs_triang|]. lra.
Qed.

Lemma Rabs_le_bounds x y : Rabs x <= y -> - y <= x <= y.
Proof. unfold Rabs. destruct (Rcase_abs x); intros H; split; lra. Qed.

Lemma rsum_le n f g : (forall k, (k < n)%nat -> f k <= g k) -> rsum n f <= rsum n g.
Proof.
  induction n; intros H; simpl; [lra|].
  assert (A : rsum n f <= rsum n g) by (apply IHn; intros; apply H; lia).
  assert (B : f n <= g n) by (apply H; lia). lra.
Qed.

Lemma rsum_nonneg n f : (forall k, (k < n)%nat -> 0 <= f k) -> 0 <= rsum n f.
Proof.
  intros H. rewrite <- (rsum_zero n (fun _ => 0)) by reflexivity. apply rsum_le. exact H.
Qed.

(* the tail  sum_{k=m+1}^{K} g k *)
Definition tsum (m K : nat) (g : nat -> R) : R := rsum (K - m) (fun i => g (S m + i)%nat).

Lemma tsum_resolved m K g : (K <= m)%nat -> tsum m K g = 0.
Proof. intros H. unfold tsum. replace (K - m)%nat with O by lia. reflexivity. Qed.

Lemma tsum_le m K f g : (forall k, (m < k <= K)%nat -> f k <= g k) -> tsum m K f <= tsum m K g.
Proof. intros H. unfold tsum. apply rsum_le. intros i Hi. apply H. lia. Qed.

Lemma tsum_nonneg m K g : (forall k, (m < k <= K)%nat -> 0 <= g k) -> 0 <= tsum m K g.
Proof. intros H. unfold tsum. apply rsum_nonneg. intros i Hi. apply H. lia. Qed.

Lemma tsum_scal m K c g : tsum m K (fun k => c * g k) = c * tsum m K g.
Proof. unfold tsum. apply rsum_scal. Qed.

Lemma tsum_plus m K f g : tsum m K (fun k => f k + g k) = tsum m K f + tsum m K g.
Proof. unfold tsum. apply rsum_plus. Qed.

(* a full sum whose terms of index <= m vanish is the tail *)
Lemma rsum_tail m K g :
  rsum (S K) (fun k => if (k <=? m)%nat then 0 else g k) = tsum m K g.
Proof.
  destruct (le_lt_dec K m) as [H|H].
  - rewrite tsum_resolved by exact H. apply rsum_zero. intros k Hk.
    destruct (Nat.leb_spec k m); [reflexivity|lia].
  - unfold tsum. replace (S K) with (S m + (K - m))%nat by lia. rewrite rsum_split.
    rewrite rsum_zero.
    + rewrite Rplus_0_l. apply rsum_ext. intros i Hi.
      destruct (Nat.leb_spec (S m + i) m); [lia|reflexivity].
    + intros k Hk. destruct (Nat.leb_spec k m); [reflexivity|lia].
Qed.

(* ------------------------------------------------------------------ *)
(* A1: the aliasing identity on the grid                               *)

(* folded index: distance from k to the nearest multiple of n;  sign: +1 if k mod n <= n/2, else -1 *)
Definition fold (n k : nat) : nat :=
  if (k mod n <=? n / 2)%nat then (k mod n)%nat else (n - k mod n)%nat.
Definition fsign (n k : nat) : R :=
  if (k mod n <=? n / 2)%nat then 1 else -1.

Lemma half_lt n : (1 <= n)%nat -> (n / 2 < n)%nat.
Proof. intros H. apply Nat.div_lt; lia. Qed.

Lemma fold_le n k : (1 <= n)%nat -> (fold n k <= n / 2)%nat.
Proof.
  intros Hn. unfold fold. destruct (Nat.leb_spec (k mod n) (n / 2)) as [H|H]; [exact H|].
  assert (E := Nat.div_mod n 2). assert (B := Nat.mod_upper_bound n 2). lia.
Qed.

Lemma fold_resolved n k : (1 <= n)%nat -> (k <= n / 2)%nat -> fold n k = k /\ fsign n k = 1.
Proof.
  intros Hn Hk. assert (Hlt := half_lt n Hn). unfold fold, fsign.
  rewrite Nat.mod_small by lia. destruct (Nat.leb_spec k (n / 2)); [split; reflexivity|lia].
Qed.

Lemma fsign_cases n k : fsign n k = 1 \/ fsign n k = -1.
Proof. unfold fsign. destruct (k mod n <=? n / 2)%nat; [left|right]; reflexivity. Qed.

Lemma fsign_sq n k : fsign n k * fsign n k = 1.
Proof. destruct (fsign_cases n k) as [-> | ->]; lra. Qed.

(* k = q n + r  ==>  k x_j = r x_j  (mod 2 pi) *)
Lemma xg_mod n k j : (1 <= n)%nat ->
  INR k * xg n j = INR (k mod n) * xg n j + 2 * INR (k / n * j) * PI.
Proof.
  intros Hn. assert (Hn0 := INR_pos_neq0 n Hn).
  assert (Ek : INR k = INR n * INR (k / n) + INR (k mod n)).
  { rewrite <- mult_INR, <- plus_INR. f_equal. apply Nat.div_mod. lia. }
  rewrite mult_INR. unfold xg. rewrite Ek at 1. field. exact Hn0.
Qed.

(* (n - r) x_j = - r x_j  (mod 2 pi) *)
Lemma xg_refl n r j : (1 <= n)%nat -> (r <= n)%nat ->
  INR (n - r) * xg n j = - (INR r * xg n j) + 2 * INR j * PI.
Proof.
  intros Hn Hr. assert (Hn0 := INR_pos_neq0 n Hn).
  rewrite minus_INR by exact Hr. unfold xg. field. exact Hn0.
Qed.

Theorem alias_cos n k j : (1 <= n)%nat -> cos (INR k * xg n j) = cos (INR (fold n k) * xg n j).
Proof.
  intros Hn. rewrite xg_mod by exact Hn. rewrite cos_period.
  unfold fold. destruct (Nat.leb_spec (k mod n) (n / 2)) as [H|H]; [reflexivity|].
  assert (B := Nat.mod_upper_bound k n).
  rewrite xg_refl by lia. rewrite cos_period, cos_neg. reflexivity.
Qed.

Theorem alias_sin n k j : (1 <= n)%nat ->
  sin (INR k * xg n j) = fsign n k * sin (INR (fold n k) * xg n j).
Proof.
  intros Hn. rewrite xg_mod by exact Hn. rewrite sin_period.
  unfold fold, fsign. destruct (Nat.leb_spec (k mod n) (n / 2)) as [H|H]; [ring|].
  assert (B := Nat.mod_upper_bound k n).
  rewrite xg_refl by lia. rewrite sin_period, sin_neg. ring.
Qed.

(* the statement of the task sheet, in one piece *)
Theorem aliasing_identity n k : (1 <= n)%nat ->
  (fold n k <= n / 2)%nat /\ (fsign n k = 1 \/ fsign n k = -1) /\
  forall j : nat, cos (INR k * xg n j) = cos (INR (fold n k) * xg n j) /\
                  sin (INR k * xg n j) = fsign n k * sin (INR (fold n k) * xg n j).
Proof.
  intros Hn. split; [apply fold_le; exact Hn|]. split; [apply fsign_cases|].
  intros j. split; [apply alias_cos|apply alias_sin]; exact Hn.
Qed.

(* k' is the distance from k to the nearest multiple of n *)
Lemma fold_distance n k : (1 <= n)%nat ->
  (exists q, (k = q * n + fold n k)%nat) \/ (exists q, (k + fold n k = q * n)%nat).
Proof.
  intros Hn. assert (E := Nat.div_mod k n). assert (B := Nat.mod_upper_bound k n).
  unfold fold. destruct (Nat.leb_spec (k mod n) (n / 2)) as [H|H].
  - left. exists (k / n)%nat. lia.
  - right. exists (S (k / n)). lia.
Qed.

Example fold_3_2 : fold 3 2 = 1%nat /\ fsign 3 2 = -1.
Proof. split; reflexivity. Qed.
Example fold_3_3 : fold 3 3 = 0%nat /\ fsign 3 3 = 1.
Proof. split; reflexivity. Qed.
Example fold_5_7 : fold 5 7 = 2%nat /\ fsign 5 7 = 1.
Proof. split; reflexivity. Qed.
Example fold_5_8 : fold 5 8 = 2%nat /\ fsign 5 8 = -1.
Proof. split; reflexivity. Qed.
(* on the 3-point grid cos(2x) is indistinguishable from cos(x), and sin(2x) from -sin(x) *)
Example alias_3_2 j : cos (INR 2 * xg 3 j) = cos (INR 1 * xg 3 j) /\ sin (INR 2 * xg 3 j) = -1 * sin (INR 1 * xg 3 j).
Proof. split; [exact (alias_cos 3 2 j ltac:(lia))|exact (alias_sin 3 2 j ltac:(lia))]. Qed.

Print Assumptions aliasing_identity.

(* ------------------------------------------------------------------ *)
(* A2: differentiation                                                 *)

Theorem Dspec_alias_cos n s k i : Nat.odd n = true -> (i < n)%nat ->
  gsum n (fun j => Dspec n s i j * cos (INR k * xg n j))
  = - s * INR (fold n k) * sin (INR (fold n k) * xg n i).
Proof.
  intros Ho Hi. assert (Hn : (1 <= n)%nat) by lia.
  rewrite (gsum_ext n _ (fun j => Dspec n s i j * cos (INR (fold n k) * xg n j))).
  - apply Dspec_exact_cos; [exact Ho|apply fold_le; exact Hn|exact Hi].
  - intros j _. rewrite (alias_cos n k j Hn). reflexivity.
Qed.

Theorem Dspec_alias_sin n s k i : Nat.odd n = true -> (i < n)%nat ->
  gsum n (fun j => Dspec n s i j * sin (INR k * xg n j))
  = fsign n k * (s * INR (fold n k) * cos (INR (fold n k) * xg n i)).
Proof.
  intros Ho Hi. assert (Hn : (1 <= n)%nat) by lia.
  rewrite (gsum_ext n _ (fun j => fsign n k * (Dspec n s i j * sin (INR (fold n k) * xg n j)))).
  - rewrite gsum_scal. f_equal. apply Dspec_exact_sin; [exact Ho|apply fold_le; exact Hn|exact Hi].
  - intros j _. rewrite (alias_sin n k j Hn). ring.
Qed.

(* error of one mode against the true derivative  s d/dx *)
Definition errc (n : nat) (s : R) (k i : nat) : R :=
  gsum n (fun j => Dspec n s i j * cos (INR k * xg n j)) - s * (- INR k * sin (INR k * xg n i)).
Definition errs (n : nat) (s : R) (k i : nat) : R :=
  gsum n (fun j => Dspec n s i j * sin (INR k * xg n j)) - s * (INR k * cos (INR k * xg n i)).

Theorem Dspec_alias_cos_err n s k i : Nat.odd n = true -> (i < n)%nat ->
  errc n s k i = s * (fsign n k * INR k - INR (fold n k)) * sin (INR (fold n k) * xg n i).
Proof.
  intros Ho Hi. unfold errc. rewrite Dspec_alias_cos by assumption.
  rewrite (alias_sin n k i) by lia. ring.
Qed.

Theorem Dspec_alias_sin_err n s k i : Nat.odd n = true -> (i < n)%nat ->
  errs n s k i = s * (fsign n k * INR (fold n k) - INR k) * cos (INR (fold n k) * xg n i).
Proof.
  intros Ho Hi. unfold errs. rewrite Dspec_alias_sin by assumption.
  rewrite (alias_cos n k i) by lia. ring.
Qed.

Lemma Rabs_sin_le1 x : Rabs (sin x) <= 1.
Proof. apply Rabs_le. destruct (SIN_bound x). split; lra. Qed.
Lemma Rabs_cos_le1 x : Rabs (cos x) <= 1.
Proof. apply Rabs_le. destruct (COS_bound x). split; lra. Qed.

Lemma fold_factor_bound n k (u v : R) : 0 <= u -> 0 <= v -> Rabs (fsign n k * u - v) <= u + v.
Proof. intros Hu Hv. destruct (fsign_cases n k) as [-> | ->]; apply Rabs_le; split; lra. Qed.

Lemma mode_factor_bound s c t y : Rabs c <= t -> Rabs y <= 1 -> Rabs (s * c * y) <= Rabs s * t.
Proof.
  intros Hc Hy. rewrite !Rabs_mult, Rmult_assoc. apply Rmult_le_compat_l; [apply Rabs_pos|].
  rewrite <- (Rmult_1_r t). apply Rmult_le_compat; try apply Rabs_pos; assumption.
Qed.

Theorem Dspec_mode_bound_cos n s k i : Nat.odd n = true -> (i < n)%nat ->
  Rabs (errc n s k i) <= Rabs s * (INR k + INR (fold n k)).
Proof.
  intros Ho Hi. rewrite Dspec_alias_cos_err by assumption.
  apply mode_factor_bound; [|apply Rabs_sin_le1].
  apply fold_factor_bound; apply pos_INR.
Qed.

Theorem Dspec_mode_bound_sin n s k i : Nat.odd n = true -> (i < n)%nat ->
  Rabs (errs n s k i) <= Rabs s * (INR k + INR (fold n k)).
Proof.
  intros Ho Hi. rewrite Dspec_alias_sin_err by assumption.
  apply mode_factor_bound; [|apply Rabs_cos_le1].
  rewrite (Rplus_comm (INR k)). rewrite <- Rabs_Ropp.
  replace (- (fsign n k * INR (fold n k) - INR k)) with (INR k - fsign n k * INR (fold n k)) by ring.
  destruct (fsign_cases n k) as [-> | ->]; apply Rabs_le;
    assert (A := pos_INR k); assert (B := pos_INR (fold n k)); split; lra.
Qed.

Theorem Dspec_mode_resolved n s k i : Nat.odd n = true -> (i < n)%nat -> (k <= n / 2)%nat ->
  errc n s k i = 0 /\ errs n s k i = 0.
Proof.
  intros Ho Hi Hk. rewrite Dspec_alias_cos_err, Dspec_alias_sin_err by assumption.
  destruct (fold_resolved n k) as [-> ->]; [lia|exact Hk|]. split; ring.
Qed.

(* the cruder form  |s| (k + m) *)
Corollary Dspec_mode_bound_crude n s k i : Nat.odd n = true -> (i < n)%nat ->
  Rabs (errc n s k i) <= Rabs s * (INR k + INR (n / 2)) /\
  Rabs (errs n s k i) <= Rabs s * (INR k + INR (n / 2)).
Proof.
  intros Ho Hi.
  assert (L : Rabs s * (INR k + INR (fold n k)) <= Rabs s * (INR k + INR (n / 2))).
  { apply Rmult_le_compat_l; [apply Rabs_pos|]. apply Rplus_le_compat_l. apply le_INR. apply fold_le. lia. }
  split; (eapply Rle_trans; [|exact L]); [apply Dspec_mode_bound_cos|apply Dspec_mode_bound_sin]; assumption.
Qed.

(* weight of mode k in the sharp bound *)
Definition aw (n k : nat) : R := if (k <=? n / 2)%nat then 0 else INR k + INR (fold n k).

Lemma mode_bound_aw n s k i : Nat.odd n = true -> (i < n)%nat ->
  Rabs (errc n s k i) <= Rabs s * aw n k /\ Rabs (errs n s k i) <= Rabs s * aw n k.
Proof.
  intros Ho Hi. unfold aw. destruct (Nat.leb_spec k (n / 2)) as [H|H].
  - destruct (Dspec_mode_resolved n s k i Ho Hi H) as [-> ->]. rewrite Rabs_R0. lra.
  - split; [apply Dspec_mode_bound_cos|apply Dspec_mode_bound_sin]; assumption.
Qed.

(* linearity: the error of a trigonometric polynomial is the combination of the modal errors *)
Lemma Dspec_error_decomp n s K a b i :
  gsum n (fun j => Dspec n s i j * trigpoly K a b (xg n j)) - s * trigpoly' K a b (xg n i)
  = rsum (S K) (fun k => a k * errc n s k i + b k * errs n s k i).
Proof.
  rewrite <- rsum_gsum. unfold trigpoly, trigpoly'.
  rewrite (rsum_ext n _ (fun j => rsum (S K) (fun p =>
             a p * (Dspec n s i j * cos (INR p * xg n j)) + b p * (Dspec n s i j * sin (INR p * xg n j))))).
  2:{ intros j _. rewrite <- rsum_scal. apply rsum_ext. intros p _. ring. }
  rewrite rsum_swap. rewrite <- rsum_scal. rewrite rsum_minus. apply rsum_ext. intros p Hp.
  rewrite rsum_plus, !rsum_scal, !rsum_gsum. unfold errc, errs. ring.
Qed.

Theorem Dspec_aliasing_bound_sharp n s K a b i : Nat.odd n = true -> (i < n)%nat ->
  Rabs (gsum n (fun j => Dspec n s i j * trigpoly K a b (xg n j)) - s * trigpoly' K a b (xg n i))
  <= Rabs s * tsum (n / 2) K (fun k => (INR k + INR (fold n k)) * (Rabs (a k) + Rabs (b k))).
Proof.
  intros Ho Hi. rewrite Dspec_error_decomp.
  eapply Rle_trans; [apply rsum_Rabs|].
  rewrite <- tsum_scal, <- rsum_tail. apply rsum_le. intros k Hk.
  destruct (mode_bound_aw n s k i Ho Hi) as [Bc Bs]. unfold aw in Bc, Bs.
  eapply Rle_trans; [apply Rabs_triang|]. rewrite !Rabs_mult.
  assert (Pa := Rabs_pos (a k)). assert (Pb := Rabs_pos (b k)).
  destruct (Nat.leb_spec k (n / 2)) as [H|H].
  - rewrite Rmult_0_r in Bc, Bs.
    assert (Ec : Rabs (errc n s k i) = 0) by (apply Rle_antisym; [exact Bc|apply Rabs_pos]).
    assert (Es : Rabs (errs n s k i) = 0) by (apply Rle_antisym; [exact Bs|apply Rabs_pos]).
    rewrite Ec, Es. lra.
  - set (B := Rabs s * (INR k + INR (fold n k))) in *.
    replace (Rabs s * ((INR k + INR (fold n k)) * (Rabs (a k) + Rabs (b k))))
      with (Rabs (a k) * B + Rabs (b k) * B) by (unfold B; ring).
    apply Rplus_le_compat; apply Rmult_le_compat_l; assumption.
Qed.

(* MAIN (differentiation):  max_i |(D f)_i - f'(x_i)| <= |s| sum_{k=m+1}^{K} (k + m)(|a_k| + |b_k|) *)
Theorem Dspec_aliasing_bound n s K a b i : Nat.odd n = true -> (i < n)%nat ->
  Rabs (gsum n (fun j => Dspec n s i j * trigpoly K a b (xg n j)) - s * trigpoly' K a b (xg n i))
  <= Rabs s * tsum (n / 2) K (fun k => (INR k + INR (n / 2)) * (Rabs (a k) + Rabs (b k))).
Proof.
  intros Ho Hi. eapply Rle_trans; [apply Dspec_aliasing_bound_sharp; assumption|].
  apply Rmult_le_compat_l; [apply Rabs_pos|]. apply tsum_le. intros k Hk.
  apply Rmult_le_compat_r.
  - assert (Pa := Rabs_pos (a k)). assert (Pb := Rabs_pos (b k)). lra.
  - apply Rplus_le_compat_l. apply le_INR. apply fold_le. lia.
Qed.

(* resolved to level eps  ==>  error below eps *)
Corollary Dspec_resolved n s K a b eps : Nat.odd n = true ->
  Rabs s * tsum (n / 2) K (fun k => (INR k + INR (n / 2)) * (Rabs (a k) + Rabs (b k))) < eps ->
  forall i, (i < n)%nat ->
  Rabs (gsum n (fun j => Dspec n s i j * trigpoly K a b (xg n j)) - s * trigpoly' K a b (xg n i)) < eps.
Proof.
  intros Ho Ht i Hi. eapply Rle_lt_trans; [apply Dspec_aliasing_bound; assumption|exact Ht].
Qed.

(* fully resolved  ==>  no error (this is DiffKernel.Dspec_exact_trigpoly again) *)
Corollary Dspec_aliasing_exact n s K a b i : Nat.odd n = true -> (i < n)%nat -> (K <= n / 2)%nat ->
  gsum n (fun j => Dspec n s i j * trigpoly K a b (xg n j)) = s * trigpoly' K a b (xg n i).
Proof.
  intros Ho Hi HK. assert (B := Dspec_aliasing_bound n s K a b i Ho Hi).
  rewrite tsum_resolved, Rmult_0_r in B by exact HK.
  assert (E : Rabs (gsum n (fun j => Dspec n s i j * trigpoly K a b (xg n j)) - s * trigpoly' K a b (xg n i)) = 0)
    by (apply Rle_antisym; [exact B|apply Rabs_pos]).
  destruct (Req_dec (gsum n (fun j => Dspec n s i j * trigpoly K a b (xg n j)) - s * trigpoly' K a b (xg n i)) 0)
    as [Z|Z]; [lra|]. apply Rabs_no_R0 in Z. contradiction.
Qed.

(* two odd resolutions, compared at a common node  x_{i1} (grid n1) = x_{i2} (grid n2)
   (i1 = i2 = 0 is always one; if n2 = q n1 every node i1 of the coarse grid is the node q i1 of the fine one) *)
Theorem Dspec_two_resolutions n1 n2 s K a b i1 i2 :
  Nat.odd n1 = true -> Nat.odd n2 = true -> (i1 < n1)%nat -> (i2 < n2)%nat -> xg n1 i1 = xg n2 i2 ->
  Rabs (gsum n1 (fun j => Dspec n1 s i1 j * trigpoly K a b (xg n1 j))
        - gsum n2 (fun j => Dspec n2 s i2 j * trigpoly K a b (xg n2 j)))
  <= Rabs s * tsum (n1 / 2) K (fun k => (INR k + INR (n1 / 2)) * (Rabs (a k) + Rabs (b k)))
     + Rabs s * tsum (n2 / 2) K (fun k => (INR k + INR (n2 / 2)) * (Rabs (a k) + Rabs (b k))).
Proof.
  intros Ho1 Ho2 Hi1 Hi2 Ex.
  assert (B1 := Dspec_aliasing_bound n1 s K a b i1 Ho1 Hi1).
  assert (B2 := Dspec_aliasing_bound n2 s K a b i2 Ho2 Hi2).
  rewrite Ex in B1.
  set (D1 := gsum n1 (fun j => Dspec n1 s i1 j * trigpoly K a b (xg n1 j))) in *.
  set (D2 := gsum n2 (fun j => Dspec n2 s i2 j * trigpoly K a b (xg n2 j))) in *.
  set (T := s * trigpoly' K a b (xg n2 i2)) in *.
  replace (D1 - D2) with ((D1 - T) + - (D2 - T)) by ring.
  eapply Rle_trans; [apply Rabs_triang|]. rewrite Rabs_Ropp. lra.
Qed.

Lemma xg_nested n q i : (1 <= n)%nat -> (1 <= q)%nat -> xg n i = xg (q * n) (q * i).
Proof.
  intros Hn Hq. unfold xg. rewrite !mult_INR. field.
  split; apply INR_pos_neq0; assumption.
Qed.

(* nested grids n2 = q n1: every coarse node *)
Corollary Dspec_two_resolutions_nested n q s K a b i :
  Nat.odd n = true -> Nat.odd q = true -> (i < n)%nat ->
  Rabs (gsum n (fun j => Dspec n s i j * trigpoly K a b (xg n j))
        - gsum (q * n) (fun j => Dspec (q * n) s (q * i) j * trigpoly K a b (xg (q * n) j)))
  <= Rabs s * tsum (n / 2) K (fun k => (INR k + INR (n / 2)) * (Rabs (a k) + Rabs (b k)))
     + Rabs s * tsum ((q * n) / 2) K (fun k => (INR k + INR ((q * n) / 2)) * (Rabs (a k) + Rabs (b k))).
Proof.
  intros Ho Hq Hi. assert (Hq1 : (1 <= q)%nat) by (apply odd_pos; exact Hq).
  apply Dspec_two_resolutions; try assumption.
  - rewrite Nat.odd_mul, Hq, Ho. reflexivity.
  - nia.
  - apply xg_nested; lia.
Qed.

Print Assumptions Dspec_alias_cos.
Print Assumptions Dspec_alias_sin.
Print Assumptions Dspec_aliasing_bound_sharp.
Print Assumptions Dspec_aliasing_bound.
Print Assumptions Dspec_resolved.
Print Assumptions Dspec_two_resolutions.

(* Example (n = 3, k = 2, node 1): the matrix returns the derivative of cos(x); the error against the derivative of
   cos(2x) is  -3 s sin(2 pi/3) = -(3 sqrt 3/2) s,  i.e. sqrt(3)/2 times the bound |s| (k + fold n k) = 3 |s|.
   (For odd n the factor |sin(k' x_i)| of the COSINE mode never reaches 1; the sine mode attains the bound, see below.) *)
Lemma sin_2PI3 : sin (INR 1 * xg 3 1) = sqrt 3 / 2.
Proof.
  replace (INR 1 * xg 3 1) with (PI - PI / 3) by (unfold xg; simpl; field).
  rewrite sin_PI_x. apply sin_PI3.
Qed.

Example Dspec_alias_3_2 s :
  gsum 3 (fun j => Dspec 3 s 1 j * cos (INR 2 * xg 3 j)) = - s * INR 1 * sin (INR 1 * xg 3 1) /\
  errc 3 s 2 1 = - (3 * s * (sqrt 3 / 2)) /\
  Rabs (errc 3 s 2 1) = sqrt 3 / 2 * (Rabs s * (INR 2 + INR (fold 3 2))).
Proof.
  assert (Ho : Nat.odd 3 = true) by reflexivity. assert (Hi : (1 < 3)%nat) by lia.
  assert (E : errc 3 s 2 1 = - (3 * s * (sqrt 3 / 2))).
  { rewrite (Dspec_alias_cos_err 3 s 2 1 Ho Hi).
    replace (fold 3 2) with 1%nat by reflexivity. replace (fsign 3 2) with (-1) by reflexivity.
    rewrite sin_2PI3. simpl. lra. }
  split; [exact (Dspec_alias_cos 3 s 2 1 Ho Hi)|]. split; [exact E|].
  rewrite E. replace (fold 3 2) with 1%nat by reflexivity.
  assert (H3 : 0 < sqrt 3 / 2) by (assert (0 < sqrt 3) by (apply sqrt_lt_R0; lra); lra).
  rewrite Rabs_Ropp, !Rabs_mult. rewrite (Rabs_pos_eq 3) by lra. rewrite (Rabs_pos_eq (sqrt 3 / 2)) by lra.
  simpl. lra.
Qed.

(* ... and ATTAINED by the sine mode at node 0: the matrix returns -s cos(x_0) = -s for sin(2x), whose derivative there
   is 2s; the error -3s has modulus |s| (k + fold n k) exactly. *)
Example Dspec_alias_sin_3_2 s :
  errs 3 s 2 0 = - (3 * s) /\ Rabs (errs 3 s 2 0) = Rabs s * (INR 2 + INR (fold 3 2)).
Proof.
  assert (E : errs 3 s 2 0 = - (3 * s)).
  { rewrite (Dspec_alias_sin_err 3 s 2 0 eq_refl ltac:(lia)).
    replace (fold 3 2) with 1%nat by reflexivity. replace (fsign 3 2) with (-1) by reflexivity.
    replace (INR 1 * xg 3 0) with 0 by (unfold xg; simpl; field). rewrite cos_0. simpl. lra. }
  split; [exact E|]. rewrite E. replace (fold 3 2) with 1%nat by reflexivity.
  rewrite Rabs_Ropp, Rabs_mult, (Rabs_pos_eq 3) by lra. simpl. lra.
Qed.

(* ------------------------------------------------------------------ *)
(* A3: interpolation                                                   *)

Theorem kinterp_alias_cos n k x : Nat.odd n = true ->
  kinterp n (fun j => cos (INR k * xg n j)) x = cos (INR (fold n k) * x).
Proof.
  intros Ho. assert (Hn : (1 <= n)%nat) by (apply odd_pos; exact Ho).
  rewrite (kinterp_ext n _ (fun j => cos (INR (fold n k) * xg n j))) by (intros j _; apply alias_cos; exact Hn).
  apply kinterp_exact_cos; [exact Ho|apply fold_le; exact Hn].
Qed.

Theorem kinterp_alias_sin n k x : Nat.odd n = true ->
  kinterp n (fun j => sin (INR k * xg n j)) x = fsign n k * sin (INR (fold n k) * x).
Proof.
  intros Ho. assert (Hn : (1 <= n)%nat) by (apply odd_pos; exact Ho).
  rewrite (kinterp_ext n _ (fun j => fsign n k * sin (INR (fold n k) * xg n j) + 0 * 0))
    by (intros j _; rewrite (alias_sin n k j Hn); ring).
  rewrite (kinterp_linear n (fun j => sin (INR (fold n k) * xg n j)) (fun _ => 0)).
  rewrite kinterp_exact_sin by (try exact Ho; apply fold_le; exact Hn). ring.
Qed.

(* the interpolant of the samples of f is the FOLDED polynomial *)
Definition folded (n K : nat) (a b : nat -> R) (x : R) : R :=
  rsum (S K) (fun k => a k * cos (INR (fold n k) * x) + b k * (fsign n k * sin (INR (fold n k) * x))).

Theorem kinterp_folded n K a b x : Nat.odd n = true ->
  kinterp n (fun j => trigpoly K a b (xg n j)) x = folded n K a b x.
Proof.
  intros Ho. unfold trigpoly, folded. generalize (S K). intros d.
  induction d.
  - simpl. unfold kinterp. rewrite rsum_zero by (intros; ring). ring.
  - cbn [rsum].
    rewrite (kinterp_ext n _ (fun k => 1 * rsum d (fun p => a p * cos (INR p * xg n k) + b p * sin (INR p * xg n k))
                                     + 1 * (a d * cos (INR d * xg n k) + b d * sin (INR d * xg n k))))
      by (intros; ring).
    rewrite kinterp_linear, IHd. rewrite kinterp_linear.
    rewrite kinterp_alias_cos, kinterp_alias_sin by exact Ho. ring.
Qed.

(* f and its folded polynomial have the same samples *)
Lemma folded_samples n K a b j : (1 <= n)%nat -> trigpoly K a b (xg n j) = folded n K a b (xg n j).
Proof.
  intros Hn. unfold trigpoly, folded. apply rsum_ext. intros k _.
  rewrite (alias_cos n k j Hn), (alias_sin n k j Hn). reflexivity.
Qed.

(* the folded polynomial IS a trigonometric polynomial of degree <= n/2, with the aliased coefficients added up *)
Definition fold_a (n K : nat) (a : nat -> R) (p : nat) : R :=
  rsum (S K) (fun k => if (fold n k =? p)%nat then a k else 0).
Definition fold_b (n K : nat) (b : nat -> R) (p : nat) : R :=
  rsum (S K) (fun k => if (fold n k =? p)%nat then fsign n k * b k else 0).

Lemma folded_trigpoly n K a b x : (1 <= n)%nat ->
  folded n K a b x = trigpoly (n / 2) (fold_a n K a) (fold_b n K b) x.
Proof.
  intros Hn. unfold folded, trigpoly, fold_a, fold_b.
  rewrite (rsum_ext (S (n / 2)) _ (fun p => rsum (S K) (fun k =>
     (if (fold n k =? p)%nat then a k else 0) * cos (INR p * x)
     + (if (fold n k =? p)%nat then fsign n k * b k else 0) * sin (INR p * x)))).
  2:{ intros p _. rewrite rsum_plus, !rsum_scal_r. reflexivity. }
  rewrite rsum_swap. apply rsum_ext. intros k _.
  rewrite (rsum_ext (S (n / 2)) _ (fun p => if (p =? fold n k)%nat
      then a k * cos (INR p * x) + fsign n k * b k * sin (INR p * x) else 0)).
  - rewrite rsum_delta by (assert (F := fold_le n k Hn); lia). ring.
  - intros p _. rewrite (Nat.eqb_sym p). destruct (fold n k =? p)%nat; ring.
Qed.

Lemma interp_mode_err n k (ak bk x : R) : (1 <= n)%nat ->
  Rabs (ak * (cos (INR (fold n k) * x) - cos (INR k * x))
        + bk * (fsign n k * sin (INR (fold n k) * x) - sin (INR k * x)))
  <= if (k <=? n / 2)%nat then 0 else 2 * (Rabs ak + Rabs bk).
Proof.
  intros Hn. destruct (Nat.leb_spec k (n / 2)) as [H|H].
  - destruct (fold_resolved n k Hn H) as [-> ->].
    replace (ak * (cos (INR k * x) - cos (INR k * x)) + bk * (1 * sin (INR k * x) - sin (INR k * x))) with 0 by ring.
    rewrite Rabs_R0. lra.
  - eapply Rle_trans; [apply Rabs_triang|]. rewrite !Rabs_mult.
    assert (Pa := Rabs_pos ak). assert (Pb := Rabs_pos bk).
    assert (C : Rabs (cos (INR (fold n k) * x) - cos (INR k * x)) <= 2).
    { apply Rabs_le. destruct (COS_bound (INR (fold n k) * x)), (COS_bound (INR k * x)). split; lra. }
    assert (S : Rabs (fsign n k * sin (INR (fold n k) * x) - sin (INR k * x)) <= 2).
    { apply Rabs_le. destruct (SIN_bound (INR (fold n k) * x)), (SIN_bound (INR k * x)).
      destruct (fsign_cases n k) as [-> | ->]; split; lra. }
    assert (A1 : Rabs ak * Rabs (cos (INR (fold n k) * x) - cos (INR k * x)) <= Rabs ak * 2)
      by (apply Rmult_le_compat_l; assumption).
    assert (A2 : Rabs bk * Rabs (fsign n k * sin (INR (fold n k) * x) - sin (INR k * x)) <= Rabs bk * 2)
      by (apply Rmult_le_compat_l; assumption).
    lra.
Qed.

(* MAIN (interpolation), kernel form, EVERY real x *)
Theorem kinterp_aliasing_bound n K a b x : Nat.odd n = true ->
  Rabs (kinterp n (fun j => trigpoly K a b (xg n j)) x - trigpoly K a b x)
  <= 2 * tsum (n / 2) K (fun k => Rabs (a k) + Rabs (b k)).
Proof.
  intros Ho. assert (Hn : (1 <= n)%nat) by (apply odd_pos; exact Ho).
  rewrite kinterp_folded by exact Ho. unfold folded, trigpoly. rewrite rsum_minus.
  eapply Rle_trans; [apply rsum_Rabs|].
  rewrite <- tsum_scal, <- rsum_tail. apply rsum_le. intros k Hk.
  replace (a k * cos (INR (fold n k) * x) + b k * (fsign n k * sin (INR (fold n k) * x))
           - (a k * cos (INR k * x) + b k * sin (INR k * x)))
    with (a k * (cos (INR (fold n k) * x) - cos (INR k * x))
          + b k * (fsign n k * sin (INR (fold n k) * x) - sin (INR k * x))) by ring.
  apply interp_mode_err. exact Hn.
Qed.

(* MAIN (interpolation), the code's barycentric formula (Bracket.interp), x not a node.
   At a node x_j the kernel form returns the sample f(x_j) itself (InterpKernel.kinterp_node): no error there. *)
Theorem interp_aliasing_bound n eps K a b x : Nat.odd n = true -> sin (INR n * x / 2) <> 0 ->
  Rabs (interp n (fun k => D_odd eps ((x - xg n k) / 2)) w_alt (fun j => trigpoly K a b (xg n j)) - trigpoly K a b x)
  <= 2 * tsum (n / 2) K (fun k => Rabs (a k) + Rabs (b k)).
Proof.
  intros Ho Hx. rewrite interp_is_kernel by assumption. apply kinterp_aliasing_bound. exact Ho.
Qed.

Corollary interp_resolved n eps K a b e : Nat.odd n = true ->
  2 * tsum (n / 2) K (fun k => Rabs (a k) + Rabs (b k)) < e ->
  (forall x, Rabs (kinterp n (fun j => trigpoly K a b (xg n j)) x - trigpoly K a b x) < e) /\
  (forall x, sin (INR n * x / 2) <> 0 ->
     Rabs (interp n (fun k => D_odd eps ((x - xg n k) / 2)) w_alt (fun j => trigpoly K a b (xg n j))
           - trigpoly K a b x) < e).
Proof.
  intros Ho Ht. split.
  - intros x. eapply Rle_lt_trans; [apply kinterp_aliasing_bound; exact Ho|exact Ht].
  - intros x Hx. eapply Rle_lt_trans; [apply interp_aliasing_bound; assumption|exact Ht].
Qed.

(* two odd resolutions at the same evaluation point *)
Corollary kinterp_two_resolutions n1 n2 K a b x : Nat.odd n1 = true -> Nat.odd n2 = true ->
  Rabs (kinterp n1 (fun j => trigpoly K a b (xg n1 j)) x - kinterp n2 (fun j => trigpoly K a b (xg n2 j)) x)
  <= 2 * tsum (n1 / 2) K (fun k => Rabs (a k) + Rabs (b k)) + 2 * tsum (n2 / 2) K (fun k => Rabs (a k) + Rabs (b k)).
Proof.
  intros Ho1 Ho2.
  assert (B1 := kinterp_aliasing_bound n1 K a b x Ho1). assert (B2 := kinterp_aliasing_bound n2 K a b x Ho2).
  set (I1 := kinterp n1 _ x) in *. set (I2 := kinterp n2 _ x) in *. set (T := trigpoly K a b x) in *.
  replace (I1 - I2) with ((I1 - T) + - (I2 - T)) by ring.
  eapply Rle_trans; [apply Rabs_triang|]. rewrite Rabs_Ropp. lra.
Qed.

(* Example: the bound is ATTAINED.  n = 3, f = cos(2x) (a_2 = 1): the interpolant is cos(x); at x = pi (not a node:
   sin(3 pi/2) = -1) it returns -1 where f = 1, an error of exactly 2 = 2 |a_2|. *)
Example kinterp_alias_3_2 :
  kinterp 3 (fun j => cos (INR 2 * xg 3 j)) PI = -1 /\ cos (INR 2 * PI) = 1 /\ sin (INR 3 * PI / 2) <> 0.
Proof.
  split; [|split].
  - rewrite kinterp_alias_cos by reflexivity. replace (fold 3 2) with 1%nat by reflexivity.
    simpl INR. rewrite Rmult_1_l. apply cos_PI.
  - replace (INR 2 * PI) with (2 * PI) by (simpl; ring). apply cos_2PI.
  - replace (INR 3 * PI / 2) with (3 * (PI / 2)) by (simpl; field). rewrite sin_3PI2. lra.
Qed.

Definition a_mode2 (k : nat) : R := if (k =? 2)%nat then 1 else 0.
Example kinterp_bound_attained :
  Rabs (kinterp 3 (fun j => trigpoly 2 a_mode2 (fun _ => 0) (xg 3 j)) PI - trigpoly 2 a_mode2 (fun _ => 0) PI) = 2 /\
  2 * tsum (3 / 2) 2 (fun k => Rabs (a_mode2 k) + Rabs 0) = 2.
Proof.
  assert (T : forall x, trigpoly 2 a_mode2 (fun _ => 0) x = cos (INR 2 * x)).
  { intros x. unfold trigpoly, a_mode2. cbn [rsum Nat.eqb]. ring. }
  destruct kinterp_alias_3_2 as [E1 [E2 _]]. split.
  - rewrite (kinterp_ext 3 _ (fun j => cos (INR 2 * xg 3 j))) by (intros; apply T).
    rewrite T, E1, E2. unfold Rabs. destruct (Rcase_abs (-1 - 1)); lra.
  - unfold tsum, a_mode2. simpl. rewrite Rabs_R0, Rabs_R1. lra.
Qed.

Print Assumptions kinterp_folded.
Print Assumptions folded_trigpoly.
Print Assumptions kinterp_aliasing_bound.
Print Assumptions interp_aliasing_bound.
Print Assumptions interp_resolved.

(* ------------------------------------------------------------------ *)
(* A4: the periodic trapezoid rule (every n >= 1, odd or even)         *)

(* sum of the samples: only the cosine modes whose frequency is a multiple of n survive *)
Theorem trapezoid_sum n K a b : (1 <= n)%nat ->
  rsum n (fun j => trigpoly K a b (xg n j))
  = INR n * rsum (S K) (fun k => if (k mod n =? 0)%nat then a k else 0).
Proof.
  intros Hn. unfold trigpoly. rewrite rsum_swap, <- rsum_scal. apply rsum_ext. intros k _.
  rewrite rsum_plus, !rsum_scal.
  rewrite (rsum_ext n (fun j => cos (INR k * xg n j)) (fun j => cos (2 * PI * INR k * INR j / INR n)))
    by (intros j _; rewrite xg_ang; reflexivity).
  rewrite (rsum_ext n (fun j => sin (INR k * xg n j)) (fun j => sin (2 * PI * INR k * INR j / INR n)))
    by (intros j _; rewrite xg_ang; reflexivity).
  rewrite sum_cos_uniform, sum_sin_uniform by exact Hn.
  destruct (k mod n =? 0)%nat; ring.
Qed.

(* ... i.e. k = 0, n, 2n, ..., (K/n) n *)
Lemma multiples_sum n K (a : nat -> R) : (1 <= n)%nat ->
  rsum (S K) (fun k => if (k mod n =? 0)%nat then a k else 0) = a O + rsum (K / n) (fun c => a (S c * n)%nat).
Proof.
  intros Hn. assert (E := Nat.div_mod K n). assert (B := Nat.mod_upper_bound K n).
  replace (S K) with (K / n * n + S (K mod n))%nat by lia.
  rewrite rsum_multiples by lia. rewrite rsum_S_head. reflexivity.
Qed.

(* MAIN (quadrature): the rule  (L/n) sum_j f(x_j)  returns  L (a_0 + a_n + a_2n + ...) *)
Theorem trapezoid_rule n L K a b : (1 <= n)%nat ->
  L / INR n * gsum n (fun j => trigpoly K a b (xg n j)) = L * (a O + rsum (K / n) (fun c => a (S c * n)%nat)).
Proof.
  intros Hn. assert (Hn0 := INR_pos_neq0 n Hn).
  rewrite <- rsum_gsum, trapezoid_sum, multiples_sum by exact Hn. field. exact Hn0.
Qed.

(* exact (= L a_0 = the integral over one period, [trigpoly_RInt_period] below) as soon as K < n *)
Theorem trapezoid_exact n L K a b : (K < n)%nat ->
  L / INR n * gsum n (fun j => trigpoly K a b (xg n j)) = L * a O.
Proof.
  intros HK. rewrite trapezoid_rule by lia. rewrite Nat.div_small by exact HK. simpl. ring.
Qed.

Theorem trapezoid_aliasing_bound n L K a b : (1 <= n)%nat ->
  Rabs (L / INR n * gsum n (fun j => trigpoly K a b (xg n j)) - L * a O)
  <= Rabs L * rsum (K / n) (fun c => Rabs (a (S c * n)%nat)).
Proof.
  intros Hn. rewrite trapezoid_rule by exact Hn.
  replace (L * (a O + rsum (K / n) (fun c => a (S c * n)%nat)) - L * a O)
    with (L * rsum (K / n) (fun c => a (S c * n)%nat)) by ring.
  rewrite Rabs_mult. apply Rmult_le_compat_l; [apply Rabs_pos|]. apply rsum_Rabs.
Qed.

Corollary trapezoid_resolved n L K a b eps : (1 <= n)%nat ->
  Rabs L * rsum (K / n) (fun c => Rabs (a (S c * n)%nat)) < eps ->
  Rabs (L / INR n * gsum n (fun j => trigpoly K a b (xg n j)) - L * a O) < eps.
Proof. intros Hn Ht. eapply Rle_lt_trans; [apply trapezoid_aliasing_bound; exact Hn|exact Ht]. Qed.

(* Example: the bound is ATTAINED.  n = 3, f = cos(3x): every sample is 1, the rule returns L, the integral is 0. *)
Definition a_mode3 (k : nat) : R := if (k =? 3)%nat then 1 else 0.
Example trapezoid_alias_3_3 L :
  L / INR 3 * gsum 3 (fun j => trigpoly 3 a_mode3 (fun _ => 0) (xg 3 j)) = L /\
  L * a_mode3 0 = 0 /\
  Rabs L * rsum (3 / 3) (fun c => Rabs (a_mode3 (S c * 3))) = Rabs L.
Proof.
  split; [|split].
  - rewrite trapezoid_rule by lia. unfold a_mode3. simpl. ring.
  - unfold a_mode3. simpl. ring.
  - unfold a_mode3. simpl. rewrite Rabs_R1. ring.
Qed.

Print Assumptions trapezoid_rule.
Print Assumptions trapezoid_exact.
Print Assumptions trapezoid_aliasing_bound.

(* ------------------------------------------------------------------ *)
(* A5: monotone forms -- "once resolved at n0, every finer grid stays within eps" *)

Lemma tsum_antitone m1 m2 K g : (m1 <= m2)%nat -> (forall k, 0 <= g k) -> tsum m2 K g <= tsum m1 K g.
Proof.
  intros Hm Hg. rewrite <- !rsum_tail. apply rsum_le. intros k _.
  destruct (Nat.leb_spec k m2), (Nat.leb_spec k m1); try lra; try lia. apply Hg.
Qed.

(* a bound whose weights do not depend on n:  k + m <= 2 k  on the tail *)
Theorem Dspec_aliasing_bound_uniform n s K a b i : Nat.odd n = true -> (i < n)%nat ->
  Rabs (gsum n (fun j => Dspec n s i j * trigpoly K a b (xg n j)) - s * trigpoly' K a b (xg n i))
  <= 2 * Rabs s * tsum (n / 2) K (fun k => INR k * (Rabs (a k) + Rabs (b k))).
Proof.
  intros Ho Hi. eapply Rle_trans; [apply Dspec_aliasing_bound; assumption|].
  rewrite Rmult_assoc, (Rmult_comm 2), Rmult_assoc. apply Rmult_le_compat_l; [apply Rabs_pos|].
  rewrite Rmult_comm, <- tsum_scal. apply tsum_le. intros k Hk.
  assert (Pa := Rabs_pos (a k)). assert (Pb := Rabs_pos (b k)).
  assert (Hk' : INR (n / 2) <= INR k) by (apply le_INR; lia).
  rewrite <- Rmult_assoc. apply Rmult_le_compat_r; lra.
Qed.

(* resolved to eps at n0  ==>  within eps of the exact derivative at every odd n with n/2 >= n0/2 *)
Corollary Dspec_resolved_onwards n0 s K a b eps :
  2 * Rabs s * tsum (n0 / 2) K (fun k => INR k * (Rabs (a k) + Rabs (b k))) < eps ->
  forall n i, Nat.odd n = true -> (n0 / 2 <= n / 2)%nat -> (i < n)%nat ->
  Rabs (gsum n (fun j => Dspec n s i j * trigpoly K a b (xg n j)) - s * trigpoly' K a b (xg n i)) < eps.
Proof.
  intros Ht n i Ho Hn Hi. eapply Rle_lt_trans; [apply Dspec_aliasing_bound_uniform; assumption|].
  eapply Rle_lt_trans; [|exact Ht].
  apply Rmult_le_compat_l; [assert (P := Rabs_pos s); lra|].
  apply tsum_antitone; [exact Hn|]. intros k.
  assert (Pa := Rabs_pos (a k)). assert (Pb := Rabs_pos (b k)). assert (Pk := pos_INR k).
  apply Rmult_le_pos; lra.
Qed.

Corollary kinterp_resolved_onwards n0 K a b eps :
  2 * tsum (n0 / 2) K (fun k => Rabs (a k) + Rabs (b k)) < eps ->
  forall n x, Nat.odd n = true -> (n0 / 2 <= n / 2)%nat ->
  Rabs (kinterp n (fun j => trigpoly K a b (xg n j)) x - trigpoly K a b x) < eps.
Proof.
  intros Ht n x Ho Hn. eapply Rle_lt_trans; [apply kinterp_aliasing_bound; exact Ho|].
  eapply Rle_lt_trans; [|exact Ht]. apply Rmult_le_compat_l; [lra|].
  apply tsum_antitone; [exact Hn|]. intros k.
  assert (Pa := Rabs_pos (a k)). assert (Pb := Rabs_pos (b k)). lra.
Qed.

(* the sequence is eventually CONSTANT (= exact) for a band-limited profile *)
Corollary band_limited_exact n s K a b : Nat.odd n = true -> (K <= n / 2)%nat ->
  (forall i, (i < n)%nat ->
     gsum n (fun j => Dspec n s i j * trigpoly K a b (xg n j)) = s * trigpoly' K a b (xg n i)) /\
  (forall x, kinterp n (fun j => trigpoly K a b (xg n j)) x = trigpoly K a b x) /\
  (forall L, L / INR n * gsum n (fun j => trigpoly K a b (xg n j)) = L * a O).
Proof.
  intros Ho HK. assert (Hn : (1 <= n)%nat) by (apply odd_pos; exact Ho). assert (Hh := half_lt n Hn).
  split; [|split].
  - intros i Hi. apply Dspec_aliasing_exact; assumption.
  - intros x. apply kinterp_exact_trigpoly; assumption.
  - intros L. apply trapezoid_exact. lia.
Qed.

Print Assumptions Dspec_resolved_onwards.
Print Assumptions kinterp_resolved_onwards.
Print Assumptions band_limited_exact.

(* ------------------------------------------------------------------ *)
(* A7: EVEN n (not used by pyQSC, which forces nphi odd).  Matrix Dspec_even, interpolant kinterp_even / D_even of
   EvenKernel.v.  Same folding (A1 holds for every n); the only change is the Nyquist index n/2: sin((n/2) x) vanishes
   on the grid, so a mode with fold n k = n/2 has its sine part dropped, and "resolved" means k < n/2:
   the tail starts at k = n/2, i.e. it is  tsum (n/2 - 1) K. *)

Lemma tail_bound_combine m K (a b ec es W : nat -> R) C : 0 <= C ->
  (forall k, (k <= m)%nat -> ec k = 0 /\ es k = 0) ->
  (forall k, (m < k)%nat -> Rabs (ec k) <= C * W k /\ Rabs (es k) <= C * W k) ->
  Rabs (rsum (S K) (fun k => a k * ec k + b k * es k))
  <= C * tsum m K (fun k => W k * (Rabs (a k) + Rabs (b k))).
Proof.
  intros HC Hz Hb. eapply Rle_trans; [apply rsum_Rabs|].
  rewrite <- tsum_scal, <- rsum_tail. apply rsum_le. intros k _.
  destruct (Nat.leb_spec k m) as [H|H].
  - destruct (Hz k H) as [-> ->]. rewrite !Rmult_0_r, Rplus_0_r, Rabs_R0. lra.
  - destruct (Hb k H) as [Bc Bs]. eapply Rle_trans; [apply Rabs_triang|]. rewrite !Rabs_mult.
    assert (Pa := Rabs_pos (a k)). assert (Pb := Rabs_pos (b k)).
    replace (C * (W k * (Rabs (a k) + Rabs (b k)))) with (Rabs (a k) * (C * W k) + Rabs (b k) * (C * W k)) by ring.
    apply Rplus_le_compat; apply Rmult_le_compat_l; assumption.
Qed.

Lemma even_half_pos n : Nat.even n = true -> (0 < n)%nat -> (1 <= n / 2)%nat.
Proof. intros He Hn. destruct (even_half n He) as [M [EM Eh]]. lia. Qed.

Theorem Dspec_even_alias_cos n s k i : Nat.even n = true -> (i < n)%nat ->
  gsum n (fun j => Dspec_even n s i j * cos (INR k * xg n j))
  = - s * INR (fold n k) * sin (INR (fold n k) * xg n i).
Proof.
  intros He Hi. assert (Hn : (1 <= n)%nat) by lia.
  rewrite (gsum_ext n _ (fun j => Dspec_even n s i j * cos (INR (fold n k) * xg n j))).
  - apply Dspec_even_exact_cos; [exact He|apply fold_le; exact Hn|exact Hi].
  - intros j _. rewrite (alias_cos n k j Hn). reflexivity.
Qed.

(* the cosine factor of the differentiated folded sine: dropped at Nyquist *)
Definition nyq_cos (n k : nat) (x : R) : R := if (fold n k <? n / 2)%nat then cos (INR (fold n k) * x) else 0.
Definition nyq_sin (n k : nat) (x : R) : R := if (fold n k <? n / 2)%nat then sin (INR (fold n k) * x) else 0.

Lemma nyq_cos_le1 n k x : Rabs (nyq_cos n k x) <= 1.
Proof. unfold nyq_cos. destruct (fold n k <? n / 2)%nat; [apply Rabs_cos_le1|rewrite Rabs_R0; lra]. Qed.
Lemma nyq_sin_le1 n k x : Rabs (nyq_sin n k x) <= 1.
Proof. unfold nyq_sin. destruct (fold n k <? n / 2)%nat; [apply Rabs_sin_le1|rewrite Rabs_R0; lra]. Qed.

Theorem Dspec_even_alias_sin n s k i : Nat.even n = true -> (i < n)%nat ->
  gsum n (fun j => Dspec_even n s i j * sin (INR k * xg n j))
  = fsign n k * (s * INR (fold n k) * nyq_cos n k (xg n i)).
Proof.
  intros He Hi. assert (Hn : (1 <= n)%nat) by lia.
  rewrite (gsum_ext n _ (fun j => fsign n k * (Dspec_even n s i j * sin (INR (fold n k) * xg n j)))).
  2:{ intros j _. rewrite (alias_sin n k j Hn). ring. }
  rewrite gsum_scal. f_equal. unfold nyq_cos. destruct (Nat.ltb_spec (fold n k) (n / 2)) as [H|H].
  - apply Dspec_even_exact_sin; assumption.
  - assert (E : fold n k = (n / 2)%nat) by (assert (F := fold_le n k Hn); lia). rewrite E.
    destruct (Dspec_even_nyquist_sin n s i He Hi) as [_ [-> _]]. ring.
Qed.

Definition errc_even (n : nat) (s : R) (k i : nat) : R :=
  gsum n (fun j => Dspec_even n s i j * cos (INR k * xg n j)) - s * (- INR k * sin (INR k * xg n i)).
Definition errs_even (n : nat) (s : R) (k i : nat) : R :=
  gsum n (fun j => Dspec_even n s i j * sin (INR k * xg n j)) - s * (INR k * cos (INR k * xg n i)).

Lemma fold_mix_bound n k (c d : R) : Rabs c <= 1 -> Rabs d <= 1 ->
  Rabs (fsign n k * INR (fold n k) * c - INR k * d) <= INR k + INR (fold n k).
Proof.
  intros Hc Hd. assert (Pk := pos_INR k). assert (Pf := pos_INR (fold n k)).
  apply Rabs_le_bounds in Hc. apply Rabs_le_bounds in Hd.
  assert (A : - INR (fold n k) <= INR (fold n k) * c <= INR (fold n k)) by (split; nra).
  assert (B : - INR k <= INR k * d <= INR k) by (split; nra).
  destruct (fsign_cases n k) as [-> | ->]; apply Rabs_le; split; lra.
Qed.

Theorem Dspec_even_mode_bound n s k i : Nat.even n = true -> (i < n)%nat ->
  Rabs (errc_even n s k i) <= Rabs s * (INR k + INR (fold n k)) /\
  Rabs (errs_even n s k i) <= Rabs s * (INR k + INR (fold n k)).
Proof.
  intros He Hi. assert (Hn : (1 <= n)%nat) by lia. split.
  - unfold errc_even. rewrite Dspec_even_alias_cos by assumption. rewrite (alias_sin n k i Hn).
    replace (- s * INR (fold n k) * sin (INR (fold n k) * xg n i)
             - s * (- INR k * (fsign n k * sin (INR (fold n k) * xg n i))))
      with (s * (fsign n k * INR k - INR (fold n k)) * sin (INR (fold n k) * xg n i)) by ring.
    apply mode_factor_bound; [|apply Rabs_sin_le1]. apply fold_factor_bound; apply pos_INR.
  - unfold errs_even. rewrite Dspec_even_alias_sin by assumption. rewrite (alias_cos n k i Hn).
    replace (fsign n k * (s * INR (fold n k) * nyq_cos n k (xg n i)) - s * (INR k * cos (INR (fold n k) * xg n i)))
      with (s * (fsign n k * INR (fold n k) * nyq_cos n k (xg n i) - INR k * cos (INR (fold n k) * xg n i)) * 1)
      by ring.
    apply mode_factor_bound; [|rewrite Rabs_R1; lra].
    apply fold_mix_bound; [apply nyq_cos_le1|apply Rabs_cos_le1].
Qed.

Theorem Dspec_even_mode_resolved n s k i : Nat.even n = true -> (i < n)%nat -> (k < n / 2)%nat ->
  errc_even n s k i = 0 /\ errs_even n s k i = 0.
Proof.
  intros He Hi Hk. assert (Hn : (1 <= n)%nat) by lia.
  unfold errc_even, errs_even. rewrite Dspec_even_alias_cos, Dspec_even_alias_sin by assumption.
  unfold nyq_cos. destruct (fold_resolved n k Hn) as [-> ->]; [lia|].
  destruct (Nat.ltb_spec k (n / 2)); [|lia]. split; ring.
Qed.

Lemma Dspec_even_error_decomp n s K a b i :
  gsum n (fun j => Dspec_even n s i j * trigpoly K a b (xg n j)) - s * trigpoly' K a b (xg n i)
  = rsum (S K) (fun k => a k * errc_even n s k i + b k * errs_even n s k i).
Proof.
  rewrite <- rsum_gsum. unfold trigpoly, trigpoly'.
  rewrite (rsum_ext n _ (fun j => rsum (S K) (fun p =>
             a p * (Dspec_even n s i j * cos (INR p * xg n j)) + b p * (Dspec_even n s i j * sin (INR p * xg n j))))).
  2:{ intros j _. rewrite <- rsum_scal. apply rsum_ext. intros p _. ring. }
  rewrite rsum_swap. rewrite <- rsum_scal. rewrite rsum_minus. apply rsum_ext. intros p Hp.
  rewrite rsum_plus, !rsum_scal, !rsum_gsum. unfold errc_even, errs_even. ring.
Qed.

(* MAIN (differentiation, even n): tail from k = n/2 *)
Theorem Dspec_even_aliasing_bound n s K a b i : Nat.even n = true -> (i < n)%nat ->
  Rabs (gsum n (fun j => Dspec_even n s i j * trigpoly K a b (xg n j)) - s * trigpoly' K a b (xg n i))
  <= Rabs s * tsum (n / 2 - 1) K (fun k => (INR k + INR (n / 2)) * (Rabs (a k) + Rabs (b k))).
Proof.
  intros He Hi. assert (Hh := even_half_pos n He ltac:(lia)).
  rewrite Dspec_even_error_decomp.
  apply (tail_bound_combine (n / 2 - 1) K a b (fun k => errc_even n s k i) (fun k => errs_even n s k i)
           (fun k => INR k + INR (n / 2)) (Rabs s)).
  - apply Rabs_pos.
  - intros k Hk. apply Dspec_even_mode_resolved; try assumption. lia.
  - intros k Hk. destruct (Dspec_even_mode_bound n s k i He Hi) as [Bc Bs].
    assert (L : Rabs s * (INR k + INR (fold n k)) <= Rabs s * (INR k + INR (n / 2))).
    { apply Rmult_le_compat_l; [apply Rabs_pos|]. apply Rplus_le_compat_l. apply le_INR. apply fold_le. lia. }
    split; lra.
Qed.

Corollary Dspec_even_resolved n s K a b eps : Nat.even n = true ->
  Rabs s * tsum (n / 2 - 1) K (fun k => (INR k + INR (n / 2)) * (Rabs (a k) + Rabs (b k))) < eps ->
  forall i, (i < n)%nat ->
  Rabs (gsum n (fun j => Dspec_even n s i j * trigpoly K a b (xg n j)) - s * trigpoly' K a b (xg n i)) < eps.
Proof.
  intros He Ht i Hi. eapply Rle_lt_trans; [apply Dspec_even_aliasing_bound; assumption|exact Ht].
Qed.

(* interpolation, even n *)
Theorem kinterp_even_alias_cos n k x : Nat.even n = true -> (0 < n)%nat ->
  kinterp_even n (fun j => cos (INR k * xg n j)) x = cos (INR (fold n k) * x).
Proof.
  intros He Hn.
  rewrite (kinterp_even_ext n _ (fun j => cos (INR (fold n k) * xg n j))) by (intros j _; apply alias_cos; lia).
  apply kinterp_even_exact_cos; [exact He|exact Hn|apply fold_le; lia].
Qed.

Theorem kinterp_even_alias_sin n k x : Nat.even n = true -> (0 < n)%nat ->
  kinterp_even n (fun j => sin (INR k * xg n j)) x = fsign n k * nyq_sin n k x.
Proof.
  intros He Hn. assert (Hn1 : (1 <= n)%nat) by lia.
  rewrite (kinterp_even_ext n _ (fun j => fsign n k * sin (INR (fold n k) * xg n j) + 0 * 0))
    by (intros j _; rewrite (alias_sin n k j Hn1); ring).
  rewrite (kinterp_even_linear n (fun j => sin (INR (fold n k) * xg n j)) (fun _ => 0)).
  unfold nyq_sin. destruct (Nat.ltb_spec (fold n k) (n / 2)) as [H|H].
  - rewrite kinterp_even_exact_sin by assumption. ring.
  - assert (E : fold n k = (n / 2)%nat) by (assert (F := fold_le n k Hn1); lia). rewrite E.
    rewrite kinterp_even_nyquist_sin by assumption. ring.
Qed.

Theorem kinterp_even_folded n K a b x : Nat.even n = true -> (0 < n)%nat ->
  kinterp_even n (fun j => trigpoly K a b (xg n j)) x
  = rsum (S K) (fun k => a k * cos (INR (fold n k) * x) + b k * (fsign n k * nyq_sin n k x)).
Proof.
  intros He Hn. unfold trigpoly. generalize (S K). intros d.
  induction d.
  - simpl. unfold kinterp_even. rewrite rsum_zero by (intros; ring). reflexivity.
  - cbn [rsum].
    rewrite (kinterp_even_ext n _
               (fun k => 1 * rsum d (fun p => a p * cos (INR p * xg n k) + b p * sin (INR p * xg n k))
                         + 1 * (a d * cos (INR d * xg n k) + b d * sin (INR d * xg n k))))
      by (intros; ring).
    rewrite kinterp_even_linear, IHd. rewrite kinterp_even_linear.
    rewrite kinterp_even_alias_cos, kinterp_even_alias_sin by assumption. ring.
Qed.

(* MAIN (interpolation, even n), every real x *)
Theorem kinterp_even_aliasing_bound n K a b x : Nat.even n = true -> (0 < n)%nat ->
  Rabs (kinterp_even n (fun j => trigpoly K a b (xg n j)) x - trigpoly K a b x)
  <= 2 * tsum (n / 2 - 1) K (fun k => Rabs (a k) + Rabs (b k)).
Proof.
  intros He Hn. assert (Hh := even_half_pos n He Hn). assert (Hn1 : (1 <= n)%nat) by lia.
  rewrite kinterp_even_folded by assumption. unfold trigpoly. rewrite rsum_minus.
  rewrite (rsum_ext (S K) _ (fun k => a k * (cos (INR (fold n k) * x) - cos (INR k * x))
                                      + b k * (fsign n k * nyq_sin n k x - sin (INR k * x))))
    by (intros; ring).
  eapply Rle_trans.
  - apply (tail_bound_combine (n / 2 - 1) K a b (fun k => cos (INR (fold n k) * x) - cos (INR k * x))
             (fun k => fsign n k * nyq_sin n k x - sin (INR k * x)) (fun _ => 1) 2); [lra| |].
    + intros k Hk. unfold nyq_sin. destruct (fold_resolved n k Hn1) as [-> ->]; [lia|].
      destruct (Nat.ltb_spec k (n / 2)); [|lia]. split; ring.
    + intros k _. rewrite Rmult_1_r. split; apply Rabs_le.
      * destruct (COS_bound (INR (fold n k) * x)), (COS_bound (INR k * x)). split; lra.
      * assert (N := nyq_sin_le1 n k x). apply Rabs_le_bounds in N. destruct (SIN_bound (INR k * x)).
        destruct (fsign_cases n k) as [-> | ->]; split; lra.
  - apply Rmult_le_compat_l; [lra|]. apply tsum_le. intros k _. lra.
Qed.

(* the code's barycentric formula with 1/tan weights, x not a node *)
Theorem interp_even_aliasing_bound n eps K a b x : Nat.even n = true -> (0 < n)%nat -> sin (INR n * x / 2) <> 0 ->
  Rabs (interp n (fun k => D_even eps ((x - xg n k) / 2)) w_alt (fun j => trigpoly K a b (xg n j)) - trigpoly K a b x)
  <= 2 * tsum (n / 2 - 1) K (fun k => Rabs (a k) + Rabs (b k)).
Proof.
  intros He Hn Hx. rewrite interp_even_is_kernel by assumption. apply kinterp_even_aliasing_bound; assumption.
Qed.

(* Example: on the 2-point grid sin(x) (k = 1 = n/2, the Nyquist sine) is sampled as 0: the matrix returns 0 where the
   derivative is s cos(x_i) = +-s -- so "resolved" must mean k < n/2 for even n. *)
Example Dspec_even_nyquist_2 s i : (i < 2)%nat ->
  gsum 2 (fun j => Dspec_even 2 s i j * sin (INR 1 * xg 2 j)) = 0.
Proof.
  intros Hi. rewrite (Dspec_even_alias_sin 2 s 1 i eq_refl Hi). unfold nyq_cos.
  replace (fold 2 1) with 1%nat by reflexivity.
  replace (1 <? 2 / 2)%nat with false by reflexivity. ring.
Qed.

Print Assumptions Dspec_even_aliasing_bound.
Print Assumptions kinterp_even_aliasing_bound.
Print Assumptions interp_even_aliasing_bound.

(* ------------------------------------------------------------------ *)
(* A6: the value  L a_0  IS the integral over one period (Coquelicot's Riemann integral) *)
From Coquelicot Require Import Coquelicot.

(* an explicit primitive of trigpoly K a b *)
Definition trigprim (K : nat) (a b : nat -> R) (x : R) : R :=
  a O * x + rsum K (fun p => a (S p) / INR (S p) * sin (INR (S p) * x) - b (S p) / INR (S p) * cos (INR (S p) * x)).

Lemma trigprim_derive K a b x : derivable_pt_lim (trigprim K a b) x (trigpoly K a b x).
Proof.
  unfold trigprim, trigpoly. rewrite rsum_S_head.
  simpl (INR 0). rewrite Rmult_0_l, cos_0, sin_0.
  replace (a O * 1 + b O * 0) with (a O * 1) by ring.
  apply (derivable_pt_lim_plus (fun y => a O * y)
           (fun y => rsum K (fun p => a (S p) / INR (S p) * sin (INR (S p) * y)
                                      - b (S p) / INR (S p) * cos (INR (S p) * y)))).
  - apply (derivable_pt_lim_scal id (a O) x 1). apply derivable_pt_lim_id.
  - apply (rsum_derivable_pt_lim K
             (fun p y => a (S p) / INR (S p) * sin (INR (S p) * y) - b (S p) / INR (S p) * cos (INR (S p) * y))
             (fun p y => a (S p) * cos (INR (S p) * y) + b (S p) * sin (INR (S p) * y))).
    intros p _. assert (Hq : INR (S p) <> 0) by (apply not_0_INR; discriminate).
    generalize dependent (INR (S p)). intros q Hq.
    apply is_derive_Reals. auto_derive; [exact I|]. field. exact Hq.
Qed.

Theorem trigpoly_RInt K a b : is_RInt (trigpoly K a b) 0 (2 * PI) (2 * PI * a O).
Proof.
  replace (2 * PI * a O) with (minus (trigprim K a b (2 * PI)) (trigprim K a b 0)).
  - apply (is_RInt_derive (trigprim K a b) (trigpoly K a b)).
    + intros x _. apply is_derive_Reals. apply trigprim_derive.
    + intros x _. apply (ex_derive_continuous (trigpoly K a b)). exists (trigpoly' K a b x).
      apply is_derive_Reals. apply trigpoly_derive.
  - unfold minus, plus, opp. simpl. unfold trigprim.
    rewrite (rsum_ext K (fun p => a (S p) / INR (S p) * sin (INR (S p) * (2 * PI))
                                  - b (S p) / INR (S p) * cos (INR (S p) * (2 * PI)))
                        (fun p => a (S p) / INR (S p) * sin (INR (S p) * 0)
                                  - b (S p) / INR (S p) * cos (INR (S p) * 0))).
    + ring.
    + intros p _. replace (INR (S p) * (2 * PI)) with (INR (S p) * 0 + 2 * INR (S p) * PI) by ring.
      rewrite sin_period, cos_period. reflexivity.
Qed.

(* in the physical angle phi = x / s, period 2 pi / s *)
Theorem trigpoly_RInt_scaled s K a b : s <> 0 ->
  is_RInt (fun phi => trigpoly K a b (s * phi)) 0 (2 * PI / s) (2 * PI / s * a O).
Proof.
  intros Hs.
  assert (H := trigpoly_RInt K a b).
  replace 0 with (s * 0 + 0) in H at 1 by ring.
  replace (2 * PI) with (s * (2 * PI / s) + 0) in H at 1 by (field; exact Hs).
  apply (is_RInt_comp_lin (trigpoly K a b) s 0 0 (2 * PI / s)) in H.
  apply (is_RInt_scal _ 0 (2 * PI / s) (/ s)) in H.
  replace (2 * PI / s * a O) with (scal (/ s) (2 * PI * a O)) by (unfold scal; simpl; unfold mult; simpl; field; exact Hs).
  eapply is_RInt_ext; [|exact H].
  intros x _. unfold scal; simpl; unfold mult; simpl.
  replace (s * x + 0) with (s * x) by ring. field. exact Hs.
Qed.

(* period L, s = 2 pi / L *)
Corollary trigpoly_RInt_period L K a b : L <> 0 ->
  is_RInt (fun phi => trigpoly K a b (2 * PI / L * phi)) 0 L (L * a O).
Proof.
  intros HL. assert (Hpi := PI_neq0).
  assert (Hs : 2 * PI / L <> 0).
  { unfold Rdiv. apply Rmult_integral_contrapositive_currified; [lra|apply Rinv_neq_0_compat; exact HL]. }
  assert (H := trigpoly_RInt_scaled (2 * PI / L) K a b Hs).
  replace (2 * PI / (2 * PI / L)) with L in H by (field; split; [exact HL|exact Hpi]).
  exact H.
Qed.

(* the trapezoid rule with K < n nodes per period returns the integral *)
Theorem trapezoid_exact_RInt n L K a b : (K < n)%nat -> L <> 0 ->
  is_RInt (fun phi => trigpoly K a b (2 * PI / L * phi)) 0 L
          (L / INR n * gsum n (fun j => trigpoly K a b (xg n j))).
Proof.
  intros HK HL. rewrite trapezoid_exact by exact HK. apply trigpoly_RInt_period. exact HL.
Qed.

(* and in general its distance to the integral is bounded by the aliased cosine coefficients *)
Theorem trapezoid_aliasing_bound_RInt n L K a b : (1 <= n)%nat -> L <> 0 ->
  Rabs (L / INR n * gsum n (fun j => trigpoly K a b (xg n j)) - RInt (fun phi => trigpoly K a b (2 * PI / L * phi)) 0 L)
  <= Rabs L * rsum (K / n) (fun c => Rabs (a (S c * n)%nat)).
Proof.
  intros Hn HL. rewrite (is_RInt_unique _ _ _ _ (trigpoly_RInt_period L K a b HL)).
  apply trapezoid_aliasing_bound. exact Hn.
Qed.

Print Assumptions trigpoly_RInt.
Print Assumptions trigpoly_RInt_period.
Print Assumptions trapezoid_exact_RInt.
Print Assumptions trapezoid_aliasing_bound_RInt.
