(* The spectral differentiation matrix of pyQSC (qsc/spectral_diff_matrix.py, odd n), analytically:

   K1  Dspec_entry      closed form of the entries,  s/2 (-1)^(i-j) / sin(pi (i-j)/n)
   K2  kernel_sum_abel, kernel_sum_tele, kernel_sum_grid, Dspec_kernel
                        the matrix is the derivative of the periodic Dirichlet (cardinal) kernel
                        (1/n)(1 + 2 sum_{m=1}^{M} cos(m (x - x_j)))  at  x = x_i
   K3  Dspec_exact_cos, Dspec_exact_sin, Dspec_exact_trigpoly
                        it differentiates every trigonometric polynomial of degree <= M = (n-1)/2 exactly
   K4  Dspec_replicates the premise [diffmat_replicates] of the C06 law (Replicate.v), for odd n and odd k

   [Dspec n s] is DiffMat.DR (the model of the numpy code, polymorphic in the scalar type) instantiated with the
   cosecant list  1/sin(k h/2), k = 1..n/2, h = 2 pi/n, and interval factor s = 2 pi/(xmax - xmin). *)
From Coq Require Import Reals String List ZArith Lra Lia Arith Bool.
From QSC Require Import Expr Equiv Replicate DiffMat TrigSum.
Import ListNotations.
Open Scope R_scope.

(* ------------------------------------------------------------------ *)
(* definitions                                                         *)
Definition csc_list (n : nat) : list R :=
  map (fun k => / sin (INR k * (2 * PI / INR n) / 2)) (seq 1 (n / 2)).
Definition Dspec (n : nat) (s : R) : nat -> nat -> R := DR n (csc_list n) s.
(* grid abscissa x_i = 2 pi i / n *)
Definition xg (n i : nat) : R := 2 * PI * INR i / INR n.
(* (-1)^k and (-1)^d *)
Definition alt (k : nat) : R := if Nat.even k then 1 else -1.
Definition altZ (d : Z) : R := if Z.even d then 1 else -1.

Lemma csc_length n : length (csc_list n) = (n / 2)%nat.
Proof. unfold csc_list. rewrite map_length, seq_length. reflexivity. Qed.

Lemma csc_nth n m : (m < n / 2)%nat ->
  nth m (csc_list n) 0 = / sin (INR (S m) * (2 * PI / INR n) / 2).
Proof.
  intros Hm. unfold csc_list.
  set (f := fun k : nat => / sin (INR k * (2 * PI / INR n) / 2)).
  rewrite (nth_indep _ 0 (f O)) by (rewrite map_length, seq_length; exact Hm).
  rewrite map_nth. rewrite seq_nth by exact Hm. reflexivity.
Qed.

Lemma odd_half n : Nat.odd n = true -> exists M, (n = 2 * M + 1 /\ n / 2 = M)%nat.
Proof.
  intros Ho. apply Nat.odd_spec in Ho. destruct Ho as [M EM]. exists M. split; [exact EM|].
  symmetry. apply (Nat.div_unique n 2 M 1); lia.
Qed.

Lemma sgn_alt k x : sgn Ropp k x = alt k * x.
Proof. unfold sgn, alt. destruct (Nat.even k); lra. Qed.

Lemma alt_S k : alt (S k) = - alt k.
Proof. unfold alt. rewrite Nat.even_succ, <- Nat.negb_even. destruct (Nat.even k); simpl; lra. Qed.

Lemma alt_sq k : alt k * alt k = 1.
Proof. unfold alt. destruct (Nat.even k); lra. Qed.

Lemma alt_pow k : alt k = (-1) ^ k.
Proof. induction k; [reflexivity|]. rewrite alt_S, IHk. simpl. lra. Qed.

Lemma altZ_abs d : altZ d = alt (Z.abs_nat d).
Proof.
  assert (A : forall k, Z.even (Z.of_nat k) = Nat.even k).
  { induction k; [reflexivity|].
    rewrite Nat2Z.inj_succ, Z.even_succ, Nat.even_succ, <- Z.negb_even, <- Nat.negb_even, IHk. reflexivity. }
  unfold altZ, alt. rewrite <- A, Zabs2Nat.id_abs.
  destruct (Z.abs_eq_or_opp d) as [->| ->]; [reflexivity|]. rewrite Z.even_opp. reflexivity.
Qed.

Lemma altZ_opp d : altZ (- d) = altZ d.
Proof. unfold altZ. rewrite Z.even_opp. reflexivity. Qed.

Lemma altZ_powerRZ d : altZ d = powerRZ (-1) d.
Proof.
  rewrite altZ_abs, alt_pow.
  destruct d as [|p|p]; simpl; [reflexivity|reflexivity|].
  generalize (Pos.to_nat p). intros k.
  assert (E : (-1) ^ k * (-1) ^ k = 1).
  { rewrite <- alt_pow. apply alt_sq. }
  assert (N0 : (-1) ^ k <> 0) by (intros H; rewrite H in E; lra).
  apply (Rmult_eq_reg_l ((-1) ^ k)); [|exact N0]. rewrite E. field. exact N0.
Qed.

Lemma cos_nat_PI k : cos (PI * INR k) = alt k.
Proof.
  induction k; [simpl; rewrite Rmult_0_r; apply cos_0|].
  rewrite S_INR, alt_S, <- IHk. replace (PI * (INR k + 1)) with (PI * INR k + PI) by ring.
  apply neg_cos.
Qed.

Lemma sin_nat_PI k : sin (PI * INR k) = 0.
Proof.
  induction k; [simpl; rewrite Rmult_0_r; apply sin_0|].
  rewrite S_INR. replace (PI * (INR k + 1)) with (PI * INR k + PI) by ring.
  rewrite neg_sin, IHk. lra.
Qed.

(* ------------------------------------------------------------------ *)
(* K1: closed form of the first column and of the entries              *)
Lemma colR_spec n k : Nat.odd n = true -> (1 <= k <= n - 1)%nat ->
  colR n (csc_list n) k = alt k * / 2 * / sin (PI * INR k / INR n).
Proof.
  intros Ho Hk. destruct (odd_half n Ho) as [M [EM Eh]].
  assert (Hn0 : INR n <> 0) by (apply INR_pos_neq0; lia).
  destruct k as [|k]; [lia|].
  rewrite colR_S by (try apply csc_length; lia).
  rewrite sgn_alt. rewrite Rmult_assoc. f_equal. f_equal.
  destruct (le_lt_dec (n / 2) k) as [Hhi|Hlo].
  - rewrite tmpR_hi by (try apply csc_length; lia).
    rewrite (odd_not_even n Ho).
    rewrite csc_nth by lia. f_equal.
    replace (S (n - 2 - k)) with (n - S k)%nat by lia.
    rewrite minus_INR by lia.
    replace ((INR n - INR (S k)) * (2 * PI / INR n) / 2) with (PI - PI * INR (S k) / INR n)
      by (field; exact Hn0).
    apply sin_PI_x.
  - rewrite tmpR_lo by (try apply csc_length; lia).
    rewrite csc_nth by lia. f_equal. f_equal. field. exact Hn0.
Qed.

(* the reflection law of DiffMat holds for the cosecant list *)
Lemma csc_refl n : Nat.odd n = true ->
  forall k, (1 <= k <= n - 1)%nat -> colR n (csc_list n) (n - k) = - colR n (csc_list n) k.
Proof. intros Ho k Hk. apply colR_refl_odd; [apply csc_length|exact Ho|exact Hk]. Qed.

Theorem Dspec_diag n s i : Dspec n s i i = 0.
Proof.
  unfold Dspec. rewrite DR_unfold. rewrite Nat.leb_refl, Nat.sub_diag, colR_0. lra.
Qed.

Theorem Dspec_entry n s i j : Nat.odd n = true -> (i < n)%nat -> (j < n)%nat -> i <> j ->
  let d := (Z.of_nat i - Z.of_nat j)%Z in
  Dspec n s i j = s * / 2 * altZ d / sin (PI * IZR d / INR n).
Proof.
  intros Ho Hi Hj Hne d. unfold Dspec. rewrite DR_unfold.
  assert (Hn0 : INR n <> 0) by (apply INR_pos_neq0; lia).
  destruct (Nat.leb_spec j i) as [H|H].
  - rewrite colR_spec by (try assumption; lia).
    assert (Ed : d = Z.of_nat (i - j)) by (unfold d; lia).
    rewrite Ed, altZ_abs, Zabs2Nat.id, <- INR_IZR_INZ. unfold Rdiv. ring.
  - rewrite colR_spec by (try assumption; lia).
    assert (Ed : d = (- Z.of_nat (j - i))%Z) by (unfold d; lia).
    rewrite Ed, altZ_opp, altZ_abs, Zabs2Nat.id, opp_IZR, <- INR_IZR_INZ.
    replace (PI * - INR (j - i) / INR n) with (- (PI * INR (j - i) / INR n)) by (unfold Rdiv; ring).
    rewrite sin_neg.
    assert (Hs : sin (PI * INR (j - i) / INR n) <> 0).
    { replace (PI * INR (j - i) / INR n) with (2 * PI * INR (j - i) / INR n / 2) by (field; exact Hn0).
      apply sin_half_neq0; [lia|]. rewrite Nat.mod_small by lia. lia. }
    field. exact Hs.
Qed.

(* the same with the sign written as an integer power *)
Corollary Dspec_entry_powerRZ n s i j : Nat.odd n = true -> (i < n)%nat -> (j < n)%nat -> i <> j ->
  let d := (Z.of_nat i - Z.of_nat j)%Z in
  Dspec n s i j = s * / 2 * powerRZ (-1) d / sin (PI * IZR d / INR n).
Proof. intros Ho Hi Hj Hne d. rewrite <- altZ_powerRZ. apply Dspec_entry; assumption. Qed.

(* ------------------------------------------------------------------ *)
(* K2: the kernel sum  sum_{m=1}^{M} m sin(m x)                        *)
(* sums over m = 1..M are written  rsum M (fun k => F (S k)) *)

(* Abel summation *)
Lemma kernel_sum_abel x M :
  2 * sin (x / 2) * rsum M (fun k => INR (S k) * sin (INR (S k) * x))
  = rsum M (fun k => cos ((INR (S k) - / 2) * x)) - INR M * cos ((INR M + / 2) * x).
Proof.
  induction M.
  - simpl. lra.
  - cbn [rsum]. rewrite Rmult_plus_distr_l, IHM. rewrite !S_INR.
    replace ((INR M + 1 + / 2) * x) with ((INR M + 1) * x + x / 2) by lra.
    replace ((INR M + 1 - / 2) * x) with ((INR M + 1) * x - x / 2) by lra.
    replace ((INR M + / 2) * x) with ((INR M + 1) * x - x / 2) by lra.
    rewrite cos_plus, cos_minus.
    generalize (rsum M (fun k => cos ((INR (S k) - / 2) * x))). intros r. ring.
Qed.

(* telescoping *)
Lemma kernel_sum_tele x M :
  2 * sin (x / 2) * rsum M (fun k => cos ((INR (S k) - / 2) * x)) = sin (INR M * x).
Proof.
  induction M.
  - simpl. rewrite Rmult_0_l, sin_0. lra.
  - cbn [rsum]. rewrite Rmult_plus_distr_l, IHM. rewrite !S_INR.
    set (a := (INR M + 1 - / 2) * x).
    replace (INR M * x) with (a - x / 2) by (unfold a; lra).
    replace ((INR M + 1) * x) with (a + x / 2) by (unfold a; lra).
    rewrite sin_plus, sin_minus. ring.
Qed.

(* both together *)
Lemma kernel_sum x M : sin (x / 2) <> 0 ->
  rsum M (fun k => INR (S k) * sin (INR (S k) * x))
  = (sin (INR M * x) - 2 * INR M * sin (x / 2) * cos ((INR M + / 2) * x)) / (4 * sin (x / 2) * sin (x / 2)).
Proof.
  intros Hs. assert (A := kernel_sum_abel x M). assert (T := kernel_sum_tele x M).
  apply (Rmult_eq_reg_l (4 * sin (x / 2) * sin (x / 2))).
  2:{ intros H. apply Hs. apply Rmult_integral in H. destruct H as [H|H]; [|exact H]. lra. }
  transitivity (2 * sin (x / 2) * (2 * sin (x / 2) * rsum M (fun k => INR (S k) * sin (INR (S k) * x)))); [ring|].
  rewrite A. rewrite Rmult_minus_distr_l, T. field. exact Hs.
Qed.

(* at a grid angle x = 2 pi e / n, n = 2 M + 1, e not a multiple of n *)
Theorem kernel_sum_grid n e : Nat.odd n = true -> (e mod n <> 0)%nat ->
  rsum (n / 2) (fun k => INR (S k) * sin (INR (S k) * (2 * PI * INR e / INR n)))
  = - alt e * INR n / (4 * sin (PI * INR e / INR n)).
Proof.
  intros Ho He. destruct (odd_half n Ho) as [M [EM Eh]]. rewrite Eh.
  assert (Hn0 : INR n <> 0) by (apply INR_pos_neq0; lia).
  assert (En : INR n = 2 * INR M + 1).
  { rewrite EM, plus_INR, mult_INR. simpl. lra. }
  set (x := 2 * PI * INR e / INR n).
  assert (Ex2 : x / 2 = PI * INR e / INR n) by (unfold x; field; exact Hn0).
  assert (Hs : sin (x / 2) <> 0) by (apply sin_half_neq0; [lia|exact He]).
  rewrite kernel_sum by exact Hs.
  assert (E1 : (INR M + / 2) * x = PI * INR e).
  { unfold x. rewrite En. field. rewrite <- En. exact Hn0. }
  assert (E2 : INR M * x = PI * INR e - x / 2) by (rewrite <- E1; lra).
  rewrite E1, E2, sin_minus, cos_nat_PI, sin_nat_PI. rewrite <- Ex2. rewrite En.
  field. exact Hs.
Qed.

(* the first column in kernel form (valid at 0 as well) *)
Lemma colR_kernel n e : Nat.odd n = true -> (e < n)%nat ->
  colR n (csc_list n) e
  = - (2 / INR n) * rsum (n / 2) (fun k => INR (S k) * sin (INR (S k) * (2 * PI * INR e / INR n))).
Proof.
  intros Ho He.
  assert (Hn0 : INR n <> 0) by (apply INR_pos_neq0; lia).
  destruct (Nat.eq_dec e 0) as [->|Hne].
  - rewrite colR_0. rewrite rsum_zero; [lra|].
    intros k _. simpl (INR 0). replace (2 * PI * 0 / INR n) with 0 by (field; exact Hn0).
    rewrite Rmult_0_r, sin_0. lra.
  - rewrite colR_spec by (try assumption; lia).
    rewrite kernel_sum_grid; [|exact Ho|rewrite Nat.mod_small by lia; exact Hne].
    assert (Hs : sin (PI * INR e / INR n) <> 0).
    { replace (PI * INR e / INR n) with (2 * PI * INR e / INR n / 2) by (field; exact Hn0).
      apply sin_half_neq0; [lia|]. rewrite Nat.mod_small by lia. exact Hne. }
    field. split; assumption.
Qed.

(* difference of grid angles, reduced mod n *)
Lemma xg_diff_mod n i j : (i < n)%nat -> (j < n)%nat ->
  exists z : nat, 2 * PI * INR ((i + n - j) mod n) / INR n = xg n i - xg n j + 2 * INR z * PI.
Proof.
  intros Hi Hj. assert (Hn0 : INR n <> 0) by (apply INR_pos_neq0; lia).
  rewrite mod_canon by lia. unfold xg.
  destruct (Nat.ltb_spec (i + n - j) n) as [H|H].
  - exists 1%nat. rewrite minus_INR, plus_INR by lia. simpl (INR 1). field. exact Hn0.
  - exists 0%nat. replace (i + n - j - n)%nat with (i - j)%nat by lia.
    rewrite minus_INR by lia. simpl (INR 0). field. exact Hn0.
Qed.

(* K2, main statement:  D_ij = s * d/dx [ (1/n) (1 + 2 sum_{m=1}^{M} cos(m (x - x_j))) ] at x = x_i *)
Theorem Dspec_kernel n s i j : Nat.odd n = true -> (i < n)%nat -> (j < n)%nat ->
  Dspec n s i j
  = s * (/ INR n * rsum (n / 2) (fun k => 2 * INR (S k) * - sin (INR (S k) * (xg n i - xg n j)))).
Proof.
  intros Ho Hi Hj. unfold Dspec.
  rewrite (DR_mod n (csc_list n) s (csc_refl n Ho)) by assumption.
  f_equal.
  rewrite colR_kernel by (try assumption; apply Nat.mod_upper_bound; lia).
  destruct (xg_diff_mod n i j Hi Hj) as [z Hz]. rewrite Hz.
  assert (Hn0 : INR n <> 0) by (apply INR_pos_neq0; lia).
  rewrite (rsum_ext _ (fun k => INR (S k) * sin (INR (S k) * (xg n i - xg n j + 2 * INR z * PI)))
                      (fun k => INR (S k) * sin (INR (S k) * (xg n i - xg n j)))).
  2:{ intros k _. f_equal.
      replace (INR (S k) * (xg n i - xg n j + 2 * INR z * PI))
        with (INR (S k) * (xg n i - xg n j) + 2 * INR (S k * z) * PI) by (rewrite mult_INR; ring).
      apply sin_period. }
  rewrite (rsum_ext _ (fun k => 2 * INR (S k) * - sin (INR (S k) * (xg n i - xg n j)))
                      (fun k => -2 * (INR (S k) * sin (INR (S k) * (xg n i - xg n j))))).
  2:{ intros k _. ring. }
  rewrite rsum_scal. field. exact Hn0.
Qed.

(* the same with the sum starting at m = 0 (the m = 0 term vanishes) *)
Corollary Dspec_kernel0 n s i j : Nat.odd n = true -> (i < n)%nat -> (j < n)%nat ->
  Dspec n s i j
  = s * (/ INR n * rsum (S (n / 2)) (fun m => 2 * INR m * - sin (INR m * (xg n i - xg n j)))).
Proof.
  intros Ho Hi Hj. rewrite Dspec_kernel by assumption.
  rewrite (rsum_S_head (n / 2)). simpl (INR 0). lra.
Qed.

Print Assumptions Dspec_entry.
Print Assumptions kernel_sum_grid.
Print Assumptions Dspec_kernel.

(* ------------------------------------------------------------------ *)
(* K3: exact differentiation of the resolvable modes                   *)

Lemma xg_ang n m j : INR m * xg n j = ang n m j.
Proof. unfold xg, ang, Rdiv. ring. Qed.

(* a row of the matrix applied to an arbitrary grid vector, in terms of its cos/sin grid moments *)
Lemma Dspec_apply n s i (v : nat -> R) : Nat.odd n = true -> (i < n)%nat ->
  rsum n (fun j => Dspec n s i j * v j)
  = s * / INR n * rsum (S (n / 2)) (fun m =>
      -2 * INR m * (sin (INR m * xg n i) * rsum n (fun j => cos (ang n m j) * v j)
                    - cos (INR m * xg n i) * rsum n (fun j => sin (ang n m j) * v j))).
Proof.
  intros Ho Hi.
  set (F := fun j m => (s * / INR n * (-2 * INR m) * sin (INR m * xg n i)) * (cos (ang n m j) * v j)
                       + (- (s * / INR n * (-2 * INR m) * cos (INR m * xg n i))) * (sin (ang n m j) * v j)).
  rewrite (rsum_ext n _ (fun j => rsum (S (n / 2)) (fun m => F j m))).
  2:{ intros j Hj. rewrite Dspec_kernel0 by assumption.
      rewrite (rsum_ext _ (fun m => F j m)
                (fun m => (2 * INR m * - sin (INR m * (xg n i - xg n j))) * (s * / INR n * v j))).
      - rewrite rsum_scal_r. ring.
      - intros m _. unfold F.
        replace (INR m * (xg n i - xg n j)) with (INR m * xg n i - ang n m j)
          by (rewrite <- xg_ang; ring).
        rewrite sin_minus. ring. }
  rewrite rsum_swap. rewrite <- rsum_scal. apply rsum_ext. intros m _.
  unfold F. rewrite rsum_plus, !rsum_scal. ring.
Qed.

Theorem Dspec_exact_cos n s p i : Nat.odd n = true -> (p <= n / 2)%nat -> (i < n)%nat ->
  gsum n (fun j => Dspec n s i j * cos (INR p * xg n j)) = - s * INR p * sin (INR p * xg n i).
Proof.
  intros Ho Hp Hi. destruct (odd_half n Ho) as [M [EM Eh]].
  assert (Hn0 : INR n <> 0) by (apply INR_pos_neq0; lia).
  rewrite <- rsum_gsum. rewrite Dspec_apply by assumption.
  rewrite (rsum_ext _ _ (fun m => if (m =? p)%nat
                                  then -2 * INR m * (sin (INR m * xg n i) * (INR n / 2)) else 0)).
  - rewrite rsum_delta by lia. field. exact Hn0.
  - intros m Hm.
    rewrite (rsum_ext n (fun j => cos (ang n m j) * cos (INR p * xg n j))
                        (fun j => cos (ang n m j) * cos (ang n p j)))
      by (intros j _; rewrite xg_ang; reflexivity).
    rewrite (rsum_ext n (fun j => sin (ang n m j) * cos (INR p * xg n j))
                        (fun j => cos (ang n p j) * sin (ang n m j)))
      by (intros j _; rewrite xg_ang; ring).
    rewrite sum_coscos, sum_cossin by lia.
    destruct (Nat.eqb_spec m p) as [->|Hne]; [|ring].
    destruct (Nat.eqb_spec p 0) as [->|Hp0]; [simpl; ring|].
    destruct (Nat.eqb_spec (2 * p) n); [lia|]. simpl. ring.
Qed.

Theorem Dspec_exact_sin n s p i : Nat.odd n = true -> (p <= n / 2)%nat -> (i < n)%nat ->
  gsum n (fun j => Dspec n s i j * sin (INR p * xg n j)) = s * INR p * cos (INR p * xg n i).
Proof.
  intros Ho Hp Hi. destruct (odd_half n Ho) as [M [EM Eh]].
  assert (Hn0 : INR n <> 0) by (apply INR_pos_neq0; lia).
  rewrite <- rsum_gsum. rewrite Dspec_apply by assumption.
  rewrite (rsum_ext _ _ (fun m => if (m =? p)%nat
                                  then 2 * INR m * (cos (INR m * xg n i) * (INR n / 2)) else 0)).
  - rewrite rsum_delta by lia. field. exact Hn0.
  - intros m Hm.
    rewrite (rsum_ext n (fun j => cos (ang n m j) * sin (INR p * xg n j))
                        (fun j => cos (ang n m j) * sin (ang n p j)))
      by (intros j _; rewrite xg_ang; reflexivity).
    rewrite (rsum_ext n (fun j => sin (ang n m j) * sin (INR p * xg n j))
                        (fun j => sin (ang n m j) * sin (ang n p j)))
      by (intros j _; rewrite xg_ang; reflexivity).
    rewrite sum_sinsin, sum_cossin by lia.
    destruct (Nat.eqb_spec m p) as [->|Hne]; [|ring].
    destruct (Nat.eqb_spec p 0) as [->|Hp0]; [simpl; ring|].
    destruct (Nat.eqb_spec (2 * p) n); [lia|]. simpl. ring.
Qed.

(* trigonometric polynomials of degree <= deg, and their termwise derivative *)
Definition trigpoly (deg : nat) (a b : nat -> R) (x : R) : R :=
  rsum (S deg) (fun p => a p * cos (INR p * x) + b p * sin (INR p * x)).
Definition trigpoly' (deg : nat) (a b : nat -> R) (x : R) : R :=
  rsum (S deg) (fun p => a p * (- INR p * sin (INR p * x)) + b p * (INR p * cos (INR p * x))).

Theorem Dspec_exact_trigpoly n s deg a b i : Nat.odd n = true -> (deg <= n / 2)%nat -> (i < n)%nat ->
  gsum n (fun j => Dspec n s i j * trigpoly deg a b (xg n j)) = s * trigpoly' deg a b (xg n i).
Proof.
  intros Ho Hd Hi. rewrite <- rsum_gsum. unfold trigpoly, trigpoly'.
  rewrite (rsum_ext n _ (fun j => rsum (S deg) (fun p =>
             a p * (Dspec n s i j * cos (INR p * xg n j)) + b p * (Dspec n s i j * sin (INR p * xg n j))))).
  2:{ intros j _. rewrite <- rsum_scal. apply rsum_ext. intros p _. ring. }
  rewrite rsum_swap. rewrite <- rsum_scal. apply rsum_ext. intros p Hp.
  rewrite rsum_plus, !rsum_scal, !rsum_gsum.
  rewrite Dspec_exact_cos, Dspec_exact_sin by (try assumption; lia). ring.
Qed.

(* trigpoly' is the derivative of trigpoly *)
Lemma rsum_derivable_pt_lim N (F F' : nat -> R -> R) x :
  (forall k, (k < N)%nat -> derivable_pt_lim (F k) x (F' k x)) ->
  derivable_pt_lim (fun y => rsum N (fun k => F k y)) x (rsum N (fun k => F' k x)).
Proof.
  induction N; intros H; cbn [rsum].
  - apply derivable_pt_lim_const.
  - apply (derivable_pt_lim_plus (fun y => rsum N (fun k => F k y)) (F N)).
    + apply IHN. intros k Hk. apply H. lia.
    + apply H. lia.
Qed.

Lemma trigpoly_derive deg a b x : derivable_pt_lim (trigpoly deg a b) x (trigpoly' deg a b x).
Proof.
  unfold trigpoly, trigpoly'.
  apply (rsum_derivable_pt_lim (S deg)
           (fun p y => a p * cos (INR p * y) + b p * sin (INR p * y))
           (fun p y => a p * (- INR p * sin (INR p * y)) + b p * (INR p * cos (INR p * y)))).
  intros p _.
  assert (L : derivable_pt_lim (fun y => INR p * y) x (INR p)).
  { assert (L' : derivable_pt_lim (fun y => INR p * y) x (INR p * 1))
      by (apply (derivable_pt_lim_scal id (INR p) x 1); apply derivable_pt_lim_id).
    rewrite Rmult_1_r in L'. exact L'. }
  apply (derivable_pt_lim_plus (fun y => a p * cos (INR p * y)) (fun y => b p * sin (INR p * y))).
  - apply (derivable_pt_lim_scal (fun y => cos (INR p * y)) (a p)).
    replace (- INR p * sin (INR p * x)) with (- sin (INR p * x) * INR p) by ring.
    apply (derivable_pt_lim_comp (fun y => INR p * y) cos); [exact L|apply derivable_pt_lim_cos].
  - apply (derivable_pt_lim_scal (fun y => sin (INR p * y)) (b p)).
    replace (INR p * cos (INR p * x)) with (cos (INR p * x) * INR p) by ring.
    apply (derivable_pt_lim_comp (fun y => INR p * y) sin); [exact L|apply derivable_pt_lim_sin].
Qed.

Print Assumptions Dspec_exact_cos.
Print Assumptions Dspec_exact_sin.
Print Assumptions Dspec_exact_trigpoly.
Print Assumptions trigpoly_derive.

(* ------------------------------------------------------------------ *)
(* K4: replication across field-period declarations                    *)

(* a sum over k*n points, block by block *)
Lemma rsum_blocks k n f : rsum (k * n) f = rsum k (fun c => rsum n (fun q => f (c * n + q)%nat)).
Proof.
  induction k; [reflexivity|].
  replace (S k * n)%nat with (k * n + n)%nat by lia.
  rewrite rsum_split. cbn [rsum]. rewrite IHk. reflexivity.
Qed.

(* only the multiples of k survive *)
Lemma rsum_multiples k M r (g : nat -> R) : (r < k)%nat ->
  rsum (M * k + S r) (fun m => if (m mod k =? 0)%nat then g m else 0) = rsum (S M) (fun c => g (c * k)%nat).
Proof.
  intros Hr. rewrite rsum_split, rsum_blocks.
  change (rsum (S M) (fun c => g (c * k)%nat)) with (rsum M (fun c => g (c * k)%nat) + g (M * k)%nat).
  f_equal.
  - apply rsum_ext. intros c _.
    rewrite (rsum_ext _ _ (fun q => if (q =? 0)%nat then g (c * k + q)%nat else 0)).
    + rewrite rsum_delta by lia. rewrite Nat.add_0_r. reflexivity.
    + intros q Hq.
      replace ((c * k + q) mod k)%nat with q; [reflexivity|].
      rewrite Nat.add_comm, Nat.mod_add, Nat.mod_small by lia. reflexivity.
  - rewrite (rsum_ext _ _ (fun q => if (q =? 0)%nat then g (M * k + q)%nat else 0)).
    + rewrite rsum_delta by lia. rewrite Nat.add_0_r. reflexivity.
    + intros q Hq.
      replace ((M * k + q) mod k)%nat with q; [reflexivity|].
      rewrite Nat.add_comm, Nat.mod_add, Nat.mod_small by lia. reflexivity.
Qed.

Lemma odd_mul_half k n : Nat.odd k = true -> Nat.odd n = true ->
  exists K M, (k = 2 * K + 1 /\ n = 2 * M + 1 /\ n / 2 = M /\ (k * n) / 2 = M * k + K)%nat.
Proof.
  intros Hk Hn. destruct (odd_half k Hk) as [K [EK _]]. destruct (odd_half n Hn) as [M [EM Eh]].
  exists K, M. repeat split; try assumption.
  symmetry. apply (Nat.div_unique (k * n) 2 (M * k + K) 1); [lia|]. subst k n. ring.
Qed.

(* the entries of the long matrix in one residue class sum to the entry of the short matrix *)
Lemma Dspec_block_sum n k s' j q0 : Nat.odd n = true -> Nat.odd k = true ->
  (j < k * n)%nat -> (q0 < n)%nat ->
  rsum k (fun c => Dspec (k * n) s' j (c * n + q0)) = Dspec n (INR k * s') (j mod n) q0.
Proof.
  intros Hon Hok Hj Hq.
  destruct (odd_mul_half k n Hok Hon) as [K [M [EK [EM [Eh Eh']]]]].
  assert (Hokn : Nat.odd (k * n) = true) by (rewrite Nat.odd_mul, Hok, Hon; reflexivity).
  assert (Hk0 : INR k <> 0) by (apply INR_pos_neq0; lia).
  assert (Hn0 : INR n <> 0) by (apply INR_pos_neq0; lia).
  set (A := fun m : nat => INR m * (xg (k * n) j - xg (k * n) q0)).
  set (C := s' * / INR (k * n)).
  (* kernel form of every entry; split off the block angle 2 pi m c / k *)
  rewrite (rsum_ext k _ (fun c => rsum (S (M * k + K)) (fun m =>
     (C * (2 * INR m) * - sin (A m)) * cos (2 * PI * INR m * INR c / INR k)
     + (C * (2 * INR m) * cos (A m)) * sin (2 * PI * INR m * INR c / INR k)))).
  2:{ intros c Hc. rewrite Dspec_kernel0 by (try assumption; nia). rewrite Eh'. symmetry.
      rewrite (rsum_ext _ _
                 (fun m => C * (2 * INR m * - sin (INR m * (xg (k * n) j - xg (k * n) (c * n + q0)))))).
      - rewrite rsum_scal. unfold C. ring.
      - intros m _.
        replace (INR m * (xg (k * n) j - xg (k * n) (c * n + q0)))
          with (A m - 2 * PI * INR m * INR c / INR k)
          by (unfold A, xg; rewrite plus_INR, !mult_INR; field; split; assumption).
        rewrite sin_minus. ring. }
  (* sum over the k blocks first: geometric sums over the k-th roots of unity *)
  rewrite rsum_swap.
  rewrite (rsum_ext _ _ (fun m => if (m mod k =? 0)%nat then C * (2 * INR m) * - sin (A m) * INR k else 0)).
  2:{ intros m _. rewrite rsum_plus, !rsum_scal, sum_cos_uniform, sum_sin_uniform by lia.
      destruct (m mod k =? 0)%nat; ring. }
  (* only m = k m' survives, m' = 0..M *)
  replace (S (M * k + K)) with (M * k + S K)%nat by lia.
  rewrite (rsum_multiples k M K (fun m => C * (2 * INR m) * - sin (A m) * INR k)) by lia.
  rewrite Dspec_kernel0 by (try assumption; apply Nat.mod_upper_bound; lia). rewrite Eh.
  assert (Ej : INR j = INR n * INR (j / n) + INR (j mod n)).
  { rewrite <- mult_INR, <- plus_INR. f_equal. apply Nat.div_mod. lia. }
  rewrite (rsum_ext _ _ (fun m => (INR k * s' * / INR n)
                                  * (2 * INR m * - sin (INR m * (xg n (j mod n) - xg n q0))))).
  - rewrite rsum_scal. ring.
  - intros m _.
    replace (A (m * k)%nat) with (INR m * (xg n (j mod n) - xg n q0) + 2 * INR (m * (j / n)) * PI)
      by (unfold A, xg; rewrite !mult_INR, Ej; field; split; assumption).
    rewrite sin_period. unfold C. rewrite !mult_INR. field. split; assumption.
Qed.

Theorem Dspec_replicates n k s' : Nat.odd n = true -> Nat.odd k = true ->
  diffmat_replicates n k (Dspec n (INR k * s')) (Dspec (k * n) s').
Proof.
  intros Hon Hok v j Hj. rewrite <- !rsum_gsum.
  assert (Hn : (0 < n)%nat) by (apply odd_pos; exact Hon).
  rewrite rsum_blocks, rsum_swap. apply rsum_ext. intros q Hq.
  rewrite (rsum_ext _ _ (fun c => Dspec (k * n) s' j (c * n + q) * v q)).
  2:{ intros c _. f_equal. f_equal. rewrite Nat.add_comm, Nat.mod_add, Nat.mod_small by lia. reflexivity. }
  rewrite rsum_scal_r, Dspec_block_sum by assumption. reflexivity.
Qed.

(* the long grid covers [0, 2 pi) (factor 1), the short one a field period [0, 2 pi/k) (factor k) *)
Corollary Dspec_replicates_unit n k : Nat.odd n = true -> Nat.odd k = true ->
  diffmat_replicates n k (Dspec n (INR k)) (Dspec (k * n) 1).
Proof.
  intros Hon Hok. rewrite <- (Rmult_1_r (INR k)) at 1. apply Dspec_replicates; assumption.
Qed.

Print Assumptions Dspec_replicates.

(* ------------------------------------------------------------------ *)
(* K5: the C06 law with its differentiation-matrix premise discharged *)
Theorem C06_premise_discharged Gin p outs eqs : rep_law Gin p outs eqs ->
  forall (n k : nat) (fmin fmin' : (nat -> R) -> R) (rho : env),
    Nat.odd n = true -> Nat.odd k = true -> rep_zero_ok (assoc_env Gin) rho ->
    fmin_replicates n k fmin fmin' ->
    let Dm := Dspec n (INR k) in
    let Dm' := Dspec (k * n) 1 in
    let rho' := replicated_env k n (assoc_env Gin) rho in
    (forall x e, In (x, e) outs -> forall j, (j < k * n)%nat ->
       run (k * n) Dm' fmin' p rho' x j = powerRZ (INR k) e * run n Dm fmin p rho x (j mod n)%nat)
    /\
    (forall x, In x eqs -> (forall j, (j < n)%nat -> run n Dm fmin p rho x j = 0) ->
       forall j, (j < k * n)%nat -> run (k * n) Dm' fmin' p rho' x j = 0).
Proof.
  intros Hlaw n k fmin fmin' rho Hon Hok Hz Hf Dm Dm' rho'.
  apply (Hlaw n k Dm Dm' fmin fmin' rho); try assumption.
  - apply odd_pos; exact Hon.
  - apply odd_pos; exact Hok.
  - apply Dspec_replicates_unit; assumption.
Qed.

Corollary C06_checked Gin p outs eqs : rep_check Gin p outs eqs = true ->
  forall (n k : nat) (fmin fmin' : (nat -> R) -> R) (rho : env),
    Nat.odd n = true -> Nat.odd k = true -> rep_zero_ok (assoc_env Gin) rho ->
    fmin_replicates n k fmin fmin' ->
    let Dm := Dspec n (INR k) in
    let Dm' := Dspec (k * n) 1 in
    let rho' := replicated_env k n (assoc_env Gin) rho in
    (forall x e, In (x, e) outs -> forall j, (j < k * n)%nat ->
       run (k * n) Dm' fmin' p rho' x j = powerRZ (INR k) e * run n Dm fmin p rho x (j mod n)%nat)
    /\
    (forall x, In x eqs -> (forall j, (j < n)%nat -> run n Dm fmin p rho x j = 0) ->
       forall j, (j < k * n)%nat -> run (k * n) Dm' fmin' p rho' x j = 0).
Proof. intros Hc. apply C06_premise_discharged. apply rep_check_sound. exact Hc. Qed.

Print Assumptions C06_premise_discharged.

(* Float-side note.  DiffMat.Dmat_float / Dmat_float_table is the executable twin of [Dspec]: the SAME polymorphic
   definition DiffMat.Dmat, instantiated with binary64 arithmetic and fed the rounded cosecant list that numpy
   computes (1/sin(k h/2)).  [Dspec n s] is Dmat over R fed the exact cosecants [csc_list n]. *)
