(* A list-valued evaluator of the deep-embedded formula language of Expr.v, generic in the
   number type, with
     - the theorem that its instance over R IS the model's semantics (Expr.eval / Expr.run), and
     - an instance over the primitive binary64 floats that [vm_compute] can run on the data of a
       live object, with a checker comparing the values of the bound names with the
       implementation's.
   The harness (tools/harness/tie_floateval.py) evaluates the very [prog] terms of coq/gen/G_*.v
   through [checkF]; no second reading of the emitted Coq text is involved. *)
From Coq Require Import Floats.PrimFloat.
From Coq Require Numbers.Cyclic.Int63.Uint63.
From Coq Require Import Reals String List ZArith QArith Qreals Lra Lia Bool.
From QSC Require Import Expr.
Import ListNotations.

(* ------------------------------------------------------------------ operations *)
Record ops (T : Type) : Type := mkOps {
  o_zero : T; o_one : T; o_ofQ : Q -> T; o_pi : T; o_mu0 : T;
  o_neg : T -> T; o_add : T -> T -> T; o_sub : T -> T -> T; o_mul : T -> T -> T; o_div : T -> T -> T;
  o_sqrt : T -> T; o_abs : T -> T; o_sin : T -> T; o_cos : T -> T; o_exp : T -> T;
  o_max : T -> T -> T; o_min : T -> T -> T;
  o_fmin : list T -> T }.
Arguments o_zero {T}. Arguments o_one {T}. Arguments o_ofQ {T}. Arguments o_pi {T}. Arguments o_mu0 {T}.
Arguments o_neg {T}. Arguments o_add {T}. Arguments o_sub {T}. Arguments o_mul {T}. Arguments o_div {T}.
Arguments o_sqrt {T}. Arguments o_abs {T}. Arguments o_sin {T}. Arguments o_cos {T}. Arguments o_exp {T}.
Arguments o_max {T}. Arguments o_min {T}. Arguments o_fmin {T}.

(* ------------------------------------------------------------------ the generic evaluator *)
Section EvalG.
  Variable T : Type.
  Variable OP : ops T.
  Variable n : nat.
  Variable DmL : list (list T).     (* the differentiation matrix as a list of rows *)

  Definition rep (x : T) : list T := repeat x n.

  Fixpoint map2 (f : T -> T -> T) (a b : list T) : list T :=
    match a, b with
    | x :: a', y :: b' => f x y :: map2 f a' b'
    | _, _ => []
    end.

  Definition sumG (l : list T) : T := fold_right (o_add OP) (o_zero OP) l.
  Definition maxG (l : list T) : T :=
    match l with [] => o_zero OP | x :: xs => fold_right (o_max OP) x xs end.
  Definition minG (l : list T) : T :=
    match l with [] => o_zero OP | x :: xs => fold_right (o_min OP) x xs end.
  Definition dot (row v : list T) : T := sumG (map2 (o_mul OP) row v).

  Fixpoint powG (x : T) (k : nat) : T :=
    match k with O => o_one OP | S k' => o_mul OP x (powG x k') end.

  Definition lenv := list (string * list T).

  Fixpoint lookup (env : lenv) (x : string) : list T :=
    match env with
    | [] => rep (o_zero OP)
    | (y, v) :: env' => if String.eqb x y then v else lookup env' x
    end.

  Definition pin0 (a b : list T) : list T :=
    match a with [] => [] | _ :: t => nth 0 b (o_zero OP) :: t end.

  (* every sub-expression is evaluated once, on the whole grid *)
  Fixpoint evalG (env : lenv) (e : expr) {struct e} : list T :=
    match e with
    | Cst q => rep (o_ofQ OP q)
    | CPi => rep (o_pi OP)
    | CMu0 => rep (o_mu0 OP)
    | Var x => lookup env x
    | Neg a => map (o_neg OP) (evalG env a)
    | Add a b => map2 (o_add OP) (evalG env a) (evalG env b)
    | Sub a b => map2 (o_sub OP) (evalG env a) (evalG env b)
    | Mul a b => map2 (o_mul OP) (evalG env a) (evalG env b)
    | Div a b => map2 (o_div OP) (evalG env a) (evalG env b)
    | Pow a k => map (fun x => powG x k) (evalG env a)
    | Sqrt a => map (o_sqrt OP) (evalG env a)
    | Root4 a => map (fun x => o_sqrt OP (o_sqrt OP x)) (evalG env a)
    | Abs a => map (o_abs OP) (evalG env a)
    | Sin a => map (o_sin OP) (evalG env a)
    | Cos a => map (o_cos OP) (evalG env a)
    | Exp a => map (o_exp OP) (evalG env a)
    | Dphi a => let v := evalG env a in map (fun row => dot row v) DmL
    | Sum a => rep (sumG (evalG env a))
    | MaxG a => rep (maxG (evalG env a))
    | MinG a => rep (minG (evalG env a))
    | At a i => rep (nth i (evalG env a) (o_zero OP))
    | Pin0 a b => pin0 (evalG env a) (evalG env b)
    | FMin a => rep (o_fmin OP (evalG env a))
    end.

  (* a new binding shadows the older ones, as Expr.upd *)
  Fixpoint runG (p : prog) (env : lenv) : lenv :=
    match p with
    | [] => env
    | (x, e) :: p' => runG p' ((x, evalG env e) :: env)
    end.
End EvalG.

Arguments rep {T}. Arguments map2 {T}. Arguments sumG {T}. Arguments maxG {T}. Arguments minG {T}.
Arguments dot {T}. Arguments powG {T}. Arguments lookup {T}. Arguments pin0 {T}.
Arguments evalG {T}. Arguments runG {T}.

(* [At a i] reads grid point i of a: inside the grid for the list semantics to be the model's *)
Fixpoint at_ok (n : nat) (e : expr) : bool :=
  match e with
  | Cst _ | CPi | CMu0 | Var _ => true
  | Neg a | Pow a _ | Sqrt a | Root4 a | Abs a | Sin a | Cos a | Exp a
  | Dphi a | Sum a | MaxG a | MinG a | FMin a => at_ok n a
  | Add a b | Sub a b | Mul a b | Div a b | Pin0 a b => at_ok n a && at_ok n b
  | At a i => Nat.ltb i n && at_ok n a
  end.
Definition at_ok_prog (n : nat) (p : prog) : bool := forallb (fun b => at_ok n (snd b)) p.

(* ------------------------------------------------------------------ the instance over R *)
Definition Rops (fmin : (nat -> R) -> R) : ops R :=
  {| o_zero := 0%R; o_one := 1%R; o_ofQ := Q2R; o_pi := PI; o_mu0 := mu0R;
     o_neg := Ropp; o_add := Rplus; o_sub := Rminus; o_mul := Rmult; o_div := Rdiv;
     o_sqrt := sqrt; o_abs := Rabs; o_sin := sin; o_cos := cos; o_exp := exp;
     o_max := Rmax; o_min := Rmin;
     o_fmin := fun l => fmin (fun k => nth k l 0%R) |}.

Section ListFacts.
  Variable T : Type.
  Variable n : nat.

  Lemma rep_length (x : T) : length (rep n x) = n.
  Proof. apply repeat_length. Qed.

  Lemma nth_rep (x d : T) j : (j < n)%nat -> nth j (rep n x) d = x.
  Proof.
    unfold rep. revert j. induction n as [|m IH]; intros j Hj; [lia|].
    destruct j; simpl; [reflexivity|]. apply IH. lia.
  Qed.

  Lemma map2_length (f : T -> T -> T) : forall a b m,
    length a = m -> length b = m -> length (map2 f a b) = m.
  Proof.
    induction a as [|x a IH]; intros [|y b] m Ha Hb; simpl in *; try congruence.
    destruct m; [discriminate|]. f_equal. apply IH; congruence.
  Qed.

  Lemma nth_map2 (f : T -> T -> T) d : forall a b j,
    length a = length b -> (j < length a)%nat ->
    nth j (map2 f a b) d = f (nth j a d) (nth j b d).
  Proof.
    induction a as [|x a IH]; intros [|y b] j Hl Hj; simpl in *; try lia.
    destruct j; [reflexivity|]. apply IH; lia.
  Qed.

  Lemma nth_map_lt {U} (f : T -> U) (l : list T) d d' j :
    (j < length l)%nat -> nth j (map f l) d = f (nth j l d').
  Proof.
    intros Hj. rewrite (nth_indep (map f l) d (f d')) by (rewrite map_length; exact Hj).
    apply map_nth.
  Qed.

  Lemma list_as_map (d : T) : forall (l : list T) m,
    length l = m -> l = map (fun k => nth k l d) (seq 0 m).
  Proof.
    induction l as [|x l IH]; intros m Hm; simpl in Hm; subst m; [reflexivity|].
    simpl. f_equal. rewrite <- seq_shift, map_map. simpl. apply IH. reflexivity.
  Qed.

  Lemma map2_as_map (f : T -> T -> T) (d : T) : forall (a b : list T) m,
    length a = m -> length b = m ->
    map2 f a b = map (fun k => f (nth k a d) (nth k b d)) (seq 0 m).
  Proof.
    induction a as [|x a IH]; intros [|y b] m Ha Hb; simpl in *; subst m; try discriminate; [reflexivity|].
    simpl. f_equal. rewrite <- seq_shift, map_map. simpl. apply IH; congruence.
  Qed.
End ListFacts.

Section Sound.
  Variable n : nat.
  Variable Dm : nat -> nat -> R.
  Variable fmin : (nat -> R) -> R.
  (* the oracle only looks at the grid values *)
  Hypothesis fmin_ext : forall f g, (forall k, (k < n)%nat -> f k = g k) -> fmin f = fmin g.
  Variable DmL : list (list R).
  Hypothesis DmL_rows : length DmL = n.
  Hypothesis DmL_cols : forall j, (j < n)%nat -> length (nth j DmL []) = n.
  Hypothesis DmL_ok : forall j k, (j < n)%nat -> (k < n)%nat -> nth k (nth j DmL []) 0%R = Dm j k.

  Local Notation RO := (Rops fmin).
  Local Open Scope R_scope.

  Definition agree (rhoL : lenv R) (rho : env) : Prop :=
    (forall x, length (lookup RO n rhoL x) = n) /\
    (forall x j, (j < n)%nat -> nth j (lookup RO n rhoL x) 0 = rho x j).

  Lemma lookup_length (rhoL : lenv R) :
    Forall (fun b => length (snd b) = n) rhoL -> forall x, length (lookup RO n rhoL x) = n.
  Proof.
    induction 1 as [|[y v] l Hv _ IH]; intros x; simpl.
    - apply rep_length.
    - destruct (String.eqb x y); [exact Hv|apply IH].
  Qed.

  Lemma powG_R x k : powG RO x k = x ^ k.
  Proof. induction k as [|k IH]; simpl; [reflexivity|rewrite IH; reflexivity]. Qed.

  Lemma sumG_R l : sumG RO l = lsum l.
  Proof. reflexivity. Qed.
  Lemma maxG_R l : maxG RO l = lmax l.
  Proof. reflexivity. Qed.
  Lemma minG_R l : minG RO l = lmin l.
  Proof. reflexivity. Qed.

  Ltac unary IH Hok :=
    destruct (IH Hok) as [IHl IHv]; split;
    [rewrite map_length; exact IHl
    |intros j Hj; rewrite (nth_map_lt R _ _ 0 0) by (rewrite IHl; exact Hj);
     rewrite IHv by exact Hj; try reflexivity].

  Ltac binary IHa IHb Hok :=
    apply andb_prop in Hok; destruct Hok as [Hoka Hokb];
    destruct (IHa Hoka) as [IHla IHva]; destruct (IHb Hokb) as [IHlb IHvb]; split;
    [apply map2_length; assumption
    |intros j Hj; rewrite nth_map2 by (rewrite ?IHla, ?IHlb; auto);
     rewrite IHva, IHvb by exact Hj; reflexivity].

  Ltac reduction IH Hok :=
    destruct (IH Hok) as [IHl IHv]; split;
    [apply rep_length|intros j Hj; rewrite nth_rep by exact Hj].

  Lemma evalG_sound (rhoL : lenv R) (rho : env) : agree rhoL rho ->
    forall e, at_ok n e = true ->
      length (evalG RO n DmL rhoL e) = n /\
      forall j, (j < n)%nat -> nth j (evalG RO n DmL rhoL e) 0 = eval n Dm fmin rho e j.
  Proof.
    intros [Hlen Hval].
    induction e as [q| | |x|a IH|a IHa b IHb|a IHa b IHb|a IHa b IHb|a IHa b IHb|a IH k|a IH|a IH|a IH
                   |a IH|a IH|a IH|a IH|a IH|a IH|a IH|a IH i|a IHa b IHb|a IH];
      simpl at_ok; intros Hok; simpl evalG; simpl eval.
    - split; [apply rep_length|intros j Hj; apply nth_rep; exact Hj].
    - split; [apply rep_length|intros j Hj; apply nth_rep; exact Hj].
    - split; [apply rep_length|intros j Hj; apply nth_rep; exact Hj].
    - split; [apply Hlen|intros j Hj; apply Hval; exact Hj].
    - unary IH Hok.
    - binary IHa IHb Hok.
    - binary IHa IHb Hok.
    - binary IHa IHb Hok.
    - binary IHa IHb Hok.
    - unary IH Hok; try apply powG_R.
    - unary IH Hok.
    - unary IH Hok.
    - unary IH Hok.
    - unary IH Hok.
    - unary IH Hok.
    - unary IH Hok.
    - (* Dphi *)
      destruct (IH Hok) as [IHl IHv]; split.
      + rewrite map_length. exact DmL_rows.
      + intros j Hj. rewrite (nth_map_lt _ _ _ 0 []) by (rewrite DmL_rows; exact Hj).
        unfold dot. rewrite sumG_R.
        rewrite (map2_as_map R (o_mul RO) 0 _ _ n) by (auto using DmL_cols).
        unfold gsum, grid. apply lsum_ext. intros k Hk. apply in_seq in Hk. simpl.
        rewrite DmL_ok by lia. rewrite IHv by lia. reflexivity.
    - (* Sum *)
      reduction IH Hok. rewrite sumG_R. rewrite (list_as_map R 0 _ n IHl) at 1.
      unfold gsum, grid. apply lsum_ext. intros k Hk. apply in_seq in Hk. apply IHv. lia.
    - (* MaxG *)
      reduction IH Hok. rewrite maxG_R. rewrite (list_as_map R 0 _ n IHl) at 1.
      unfold gmax, grid. apply lmax_ext. intros k Hk. apply in_seq in Hk. apply IHv. lia.
    - (* MinG *)
      reduction IH Hok. rewrite minG_R. rewrite (list_as_map R 0 _ n IHl) at 1.
      unfold gmin, grid. f_equal. apply map_ext_in. intros k Hk. apply in_seq in Hk. apply IHv. lia.
    - (* At *)
      apply andb_prop in Hok. destruct Hok as [Hi Hok]. apply Nat.ltb_lt in Hi.
      reduction IH Hok. apply IHv. exact Hi.
    - (* Pin0 *)
      apply andb_prop in Hok; destruct Hok as [Hoka Hokb].
      destruct (IHa Hoka) as [IHla IHva]; destruct (IHb Hokb) as [IHlb IHvb]; split.
      + unfold pin0. destruct (evalG RO n DmL rhoL a); simpl in *; exact IHla.
      + intros j Hj. unfold pin0.
        destruct (evalG RO n DmL rhoL a) as [|x0 t] eqn:Ea; simpl in IHla; [lia|].
        destruct j as [|j'].
        * simpl. apply IHvb. exact Hj.
        * simpl. rewrite <- (IHva (S j') Hj). reflexivity.
    - (* FMin *)
      reduction IH Hok. simpl. apply fmin_ext. exact IHv.
  Qed.

  Lemma agree_upd rhoL rho x e : agree rhoL rho -> at_ok n e = true ->
    agree ((x, evalG RO n DmL rhoL e) :: rhoL) (upd rho x (eval n Dm fmin rho e)).
  Proof.
    intros Hag Hok. destruct (evalG_sound rhoL rho Hag e Hok) as [Hl Hv].
    destruct Hag as [Hlen Hval]. split.
    - intros y. simpl. destruct (String.eqb y x); [exact Hl|apply Hlen].
    - intros y j Hj. simpl. unfold upd. destruct (String.eqb y x); [apply Hv; exact Hj|apply Hval; exact Hj].
  Qed.

  Lemma runG_sound : forall p rhoL rho, agree rhoL rho -> at_ok_prog n p = true ->
    agree (runG RO n DmL p rhoL) (run n Dm fmin p rho).
  Proof.
    induction p as [|[x e] p IH]; intros rhoL rho Hag Hok; simpl; [exact Hag|].
    unfold at_ok_prog in Hok. simpl in Hok. apply andb_prop in Hok. destruct Hok as [Hoke Hokp].
    apply IH; [apply agree_upd; assumption|exact Hokp].
  Qed.

  Lemma runG_lengths : forall p rhoL rho,
    Forall (fun b => length (snd b) = n) rhoL -> at_ok_prog n p = true -> agree rhoL rho ->
    Forall (fun b => length (snd b) = n) (runG RO n DmL p rhoL).
  Proof.
    induction p as [|[x e] p IH]; intros rhoL rho HF Hok Hag; simpl; [exact HF|].
    unfold at_ok_prog in Hok. simpl in Hok. apply andb_prop in Hok. destruct Hok as [Hoke Hokp].
    apply IH with (rho := upd rho x (eval n Dm fmin rho e)).
    - constructor; [|exact HF]. simpl. apply (evalG_sound rhoL rho Hag e Hoke).
    - exact Hokp.
    - apply agree_upd; assumption.
  Qed.

  (* ---- the statements used by the tie ---- *)
  Theorem evalG_correct (rhoL : lenv R) (rho : env) (e : expr) :
    Forall (fun b => length (snd b) = n) rhoL ->
    (forall x j, (j < n)%nat -> nth j (lookup RO n rhoL x) 0 = rho x j) ->
    at_ok n e = true ->
    length (evalG RO n DmL rhoL e) = n /\
    forall j, (j < n)%nat -> nth j (evalG RO n DmL rhoL e) 0 = eval n Dm fmin rho e j.
  Proof.
    intros HF Hv Hok. apply evalG_sound; [|exact Hok].
    split; [apply lookup_length; exact HF|exact Hv].
  Qed.

  Theorem runG_correct (p : prog) (rhoL : lenv R) (rho : env) :
    Forall (fun b => length (snd b) = n) rhoL ->
    (forall x j, (j < n)%nat -> nth j (lookup RO n rhoL x) 0 = rho x j) ->
    at_ok_prog n p = true ->
    Forall (fun b => length (snd b) = n) (runG RO n DmL p rhoL) /\
    forall x j, (j < n)%nat ->
      nth j (lookup RO n (runG RO n DmL p rhoL) x) 0 = run n Dm fmin p rho x j.
  Proof.
    intros HF Hv Hok.
    assert (Hag : agree rhoL rho) by (split; [apply lookup_length; exact HF|exact Hv]).
    split.
    - apply runG_lengths with (rho := rho); assumption.
    - apply (runG_sound p rhoL rho Hag Hok).
  Qed.
End Sound.

(* ------------------------------------------------------------------ syntactic analyses used by the checker *)
Definition mem_str (x : string) (l : list string) : bool := existsb (String.eqb x) l.
Definition del_str (x : string) (l : list string) : list string := filter (fun y => negb (String.eqb x y)) l.

(* does e contain the oracle FMin, or read a name of [bad]? *)
Fixpoint uses_oracle (bad : list string) (e : expr) : bool :=
  match e with
  | Cst _ | CPi | CMu0 => false
  | Var x => mem_str x bad
  | FMin _ => true
  | Neg a | Pow a _ | Sqrt a | Root4 a | Abs a | Sin a | Cos a | Exp a
  | Dphi a | Sum a | MaxG a | MinG a | At a _ => uses_oracle bad a
  | Add a b | Sub a b | Mul a b | Div a b | Pin0 a b => uses_oracle bad a || uses_oracle bad b
  end.

Fixpoint tainted_from (bad : list string) (p : prog) : list string :=
  match p with
  | [] => bad
  | (x, e) :: p' =>
      if uses_oracle bad e then tainted_from (if mem_str x bad then bad else x :: bad) p'
      else tainted_from (del_str x bad) p'
  end.
(* names whose final value depends on the (not evaluable) oracle *)
Definition tainted (p : prog) : list string := rev (tainted_from [] p).

Fixpoint vars_of (e : expr) (acc : list string) : list string :=
  match e with
  | Cst _ | CPi | CMu0 => acc
  | Var x => x :: acc
  | Neg a | Pow a _ | Sqrt a | Root4 a | Abs a | Sin a | Cos a | Exp a
  | Dphi a | Sum a | MaxG a | MinG a | At a _ | FMin a => vars_of a acc
  | Add a b | Sub a b | Mul a b | Div a b | Pin0 a b => vars_of a (vars_of b acc)
  end.

Fixpoint unbound_from (known acc : list string) (p : prog) : list string :=
  match p with
  | [] => rev acc
  | (x, e) :: p' =>
      let acc' := fold_left (fun ac v => if mem_str v known || mem_str v ac then ac else v :: ac)
                            (vars_of e []) acc in
      unbound_from (x :: known) acc' p'
  end.
(* names read before they are bound and not among the given inputs: the evaluator would read them as zero *)
Definition unbound_inputs (p : prog) (inputs : list string) : list string := unbound_from inputs [] p.

(* ------------------------------------------------------------------ the instance over binary64 *)
Module F.
  Local Open Scope float_scope.

  Fixpoint pos_to_float (p : positive) : float :=
    match p with
    | xH => 1
    | xO p' => 2 * pos_to_float p'
    | xI p' => 2 * pos_to_float p' + 1
    end.
  (* exact for p < 2^53 (primitive conversion below 2^62, bit recursion above) *)
  Definition P2F (p : positive) : float :=
    if (Z.pos p <? 4611686018427387904)%Z then PrimFloat.of_uint63 (Uint63.of_Z (Z.pos p)) else pos_to_float p.
  Definition Z2F (z : Z) : float :=
    match z with Z0 => 0 | Zpos p => P2F p | Zneg p => - P2F p end.
  Definition Q2F (q : Q) : float := Z2F (Qnum q) / P2F (Qden q).

  Definition pi : float := 0x1.921fb54442d18p+1.
  Definition mu0 : float := (4 * pi) * 0x1.ad7f29abcaf48p-24.        (* 4 * np.pi * 1e-7 *)

  Definition isnan (x : float) : bool := negb (x =? x).
  (* np.maximum / np.minimum propagate NaN *)
  Definition fmax (a b : float) : float := if isnan b then b else if a <? b then b else a.
  Definition fmin2 (a b : float) : float := if isnan b then b else if b <? a then b else a.

  (* round to the nearest integer, |y| < 2^51 *)
  Definition magic : float := 0x1.8p+52.
  Definition rint (y : float) : float := (y + magic) - magic.

  (* sin / cos: Cody-Waite reduction by pi/2 (two-part constant, exact product for |k| < 2^20),
     Taylor kernels on |r| <= pi/4 (remainders < 1e-19), quadrant by k mod 4 *)
  Definition two_over_pi : float := 0x1.45f306dc9c883p-1.
  Definition pio2_hi : float := 0x1.921fb544p+0.
  Definition pio2_lo : float := 0x1.0b4611a626331p-34.
  Definition sinK (r : float) : float :=
    let z := r * r in
    r * (1 - z / 6 * (1 - z / 20 * (1 - z / 42 * (1 - z / 72 * (1 - z / 110 * (1 - z / 156 *
        (1 - z / 210 * (1 - z / 272)))))))).
  Definition cosK (r : float) : float :=
    let z := r * r in
    1 - z / 2 * (1 - z / 12 * (1 - z / 30 * (1 - z / 56 * (1 - z / 90 * (1 - z / 132 *
        (1 - z / 182 * (1 - z / 240 * (1 - z / 306)))))))).
  Definition trig (want_cos : bool) (x : float) : float :=
    if PrimFloat.abs x <? 0x1p+20 then
      let k := rint (x * two_over_pi) in
      let r := (x - k * pio2_hi) - k * pio2_lo in
      let m := k - 4 * rint (k * 0.25) in                 (* in {-2,-1,0,1,2} *)
      if want_cos then
        (if m =? 0 then cosK r else if m =? 1 then - sinK r else if m =? (-1) then sinK r else - cosK r)
      else
        (if m =? 0 then sinK r else if m =? 1 then cosK r else if m =? (-1) then - cosK r else - sinK r)
    else PrimFloat.nan.
  Definition fsin : float -> float := trig false.
  Definition fcos : float -> float := trig true.

  (* exp: x = k ln2 + r, |r| <= ln2/2, Taylor of degree 15 (remainder < 1e-19), exact scaling by 2^k *)
  Definition inv_ln2 : float := 0x1.71547652b82fep+0.
  Definition ln2_hi : float := 0x1.62e42feep-1.
  Definition ln2_lo : float := 0x1.a39ef35793c76p-33.
  Definition expK (r : float) : float :=
    1 + r * (1 + r / 2 * (1 + r / 3 * (1 + r / 4 * (1 + r / 5 * (1 + r / 6 * (1 + r / 7 * (1 + r / 8 *
       (1 + r / 9 * (1 + r / 10 * (1 + r / 11 * (1 + r / 12 * (1 + r / 13 * (1 + r / 14 *
       (1 + r / 15)))))))))))))).
  Definition pow2_table : list (float * float * float) :=
    [ (512, 0x1p+512, 0x1p-512); (512, 0x1p+512, 0x1p-512); (256, 0x1p+256, 0x1p-256);
      (128, 0x1p+128, 0x1p-128); (64, 0x1p+64, 0x1p-64); (32, 0x1p+32, 0x1p-32); (16, 0x1p+16, 0x1p-16);
      (8, 0x1p+8, 0x1p-8); (4, 0x1p+4, 0x1p-4); (2, 0x1p+2, 0x1p-2); (1, 0x1p+1, 0x1p-1) ].
  (* y * 2^k for an integer-valued 0 <= k < 1536 (up = true) or y * 2^-k (up = false) *)
  Fixpoint scale2 (tbl : list (float * float * float)) (up : bool) (k y : float) : float :=
    match tbl with
    | [] => y
    | (b, pb, nb) :: tbl' =>
        if b <=? k then scale2 tbl' up (k - b) (y * (if up then pb else nb)) else scale2 tbl' up k y
    end.
  Definition fexp (x : float) : float :=
    if isnan x then x
    else if 710 <? x then PrimFloat.infinity
    else if x <? (-746) then 0
    else
      let k := rint (x * inv_ln2) in
      let r := (x - k * ln2_hi) - k * ln2_lo in
      let y := expK r in
      if 0 <=? k then scale2 pow2_table true k y else scale2 pow2_table false (- k) y.

  Definition Fops : ops float :=
    {| o_zero := 0; o_one := 1; o_ofQ := Q2F; o_pi := pi; o_mu0 := mu0;
       o_neg := PrimFloat.opp; o_add := PrimFloat.add; o_sub := PrimFloat.sub;
       o_mul := PrimFloat.mul; o_div := PrimFloat.div;
       o_sqrt := PrimFloat.sqrt; o_abs := PrimFloat.abs; o_sin := fsin; o_cos := fcos; o_exp := fexp;
       o_max := fmax; o_min := fmin2;
       o_fmin := fun _ => PrimFloat.nan |}.     (* the spectral-minimum oracle is not evaluable *)

  (* ---------------------------------------------------------------- comparison with the implementation *)
  Definition tiny : float := 0x1p-997.      (* ~ 7.5e-301 *)

  Definition err1 (g w : float) : float :=
    if isnan w then (if isnan g then 0 else PrimFloat.infinity)
    else if isnan g then PrimFloat.infinity
    else if g =? w then 0 else PrimFloat.abs (g - w).
  Definition bigger (a b : float) : float := if a <? b then b else a.     (* a for b NaN *)
  Definition absmax (l : list float) : float := fold_right (fun x m => bigger m (PrimFloat.abs x)) 0 l.
  Definition rel_err (got want : list float) : float :=
    fold_right (fun x m => bigger m x) 0 (map2 err1 got want) / bigger (absmax want) tiny.

  Record result : Type := mkResult {
    r_mismatch : list (string * float);   (* compared names outside the tolerance, with their error *)
    r_ncompared : nat;
    r_nskipped : nat;                     (* wanted names that depend on the oracle FMin *)
    r_worst : float;                      (* worst relative error over the compared names *)
    r_unbound : list string;              (* names read but neither input nor bound earlier *)
    r_notbound : list string;             (* wanted names the program does not bind *)
    r_wellformed : bool                   (* shapes are n / n x n and every At index is inside the grid *)
  }.

  Definition len_is (n : nat) (l : list float) : bool := Nat.eqb (length l) n.

  Section Check.
    Variable n : nat.
    Variable DmL : list (list float).
    Variable p : prog.
    Variable known : list string.                 (* input names *)
    Variable value_of : string -> list float.     (* the evaluated binding *)
    Variable shapes_ok : bool.
    Variable tol : float.

    Definition bound_names : list string := map fst p.

    Fixpoint check_loop (bad : list string) (wanted : list (string * list float))
             (mis : list (string * float)) (nc ns : nat) (worst : float) (nb : list string) : result :=
      match wanted with
      | [] => mkResult (rev mis) nc ns worst (unbound_inputs p known) (rev nb) shapes_ok
      | (x, w) :: wanted' =>
          if mem_str x bad then check_loop bad wanted' mis nc (S ns) worst nb
          else if negb (mem_str x bound_names || mem_str x known) then check_loop bad wanted' mis nc ns worst (x :: nb)
          else
            let e := rel_err (value_of x) w in
            let ok := (e <=? tol) && len_is n (value_of x) && len_is n w in
            check_loop bad wanted' (if ok then mis else (x, e) :: mis) (S nc) ns
                       (if isnan e then PrimFloat.infinity else bigger worst e) nb
      end.
  End Check.

  Definition len_is_rows (n : nat) (DmL : list (list float)) : bool :=
    Nat.eqb (length DmL) n && forallb (len_is n) DmL.
  Definition shapes (n : nat) (DmL : list (list float)) (inputs : list (string * list float)) (p : prog) : bool :=
    len_is_rows n DmL && forallb (fun b => len_is n (snd b)) inputs && at_ok_prog n p.

  (* one run: the value of a name is its binding in the final environment of [runG] *)
  Definition checkF (n : nat) (DmL : list (list float)) (inputs : list (string * list float)) (p : prog)
             (wanted : list (string * list float)) (tol : float) : result :=
    let env := runG Fops n DmL p inputs in
    check_loop n p (map fst inputs) (lookup Fops n env) (shapes n DmL inputs p) tol
               (tainted p) wanted [] 0 0 0 [].

  (* several runs of the same program (init_axis_term: one per Fourier harmonic); the value of a name is the
     sum of its bindings over the runs *)
  Definition checkF_sum (n : nat) (DmL : list (list float)) (runs : list (list (string * list float))) (p : prog)
             (wanted : list (string * list float)) (tol : float) : result :=
    let envs := map (runG Fops n DmL p) runs in
    let value x := fold_left (fun acc env => map2 PrimFloat.add acc (lookup Fops n env x)) envs (rep n 0) in
    check_loop n p (match runs with [] => [] | i :: _ => map fst i end) value
               (forallb (fun i => shapes n DmL i p) runs) tol (tainted p) wanted [] 0 0 0 [].

  (* raw values of chosen names (residual equations of the oracle solves are judged by the harness) *)
  Definition valuesF (n : nat) (DmL : list (list float)) (inputs : list (string * list float)) (p : prog)
             (names : list string) : list (string * list float) :=
    let env := runG Fops n DmL p inputs in map (fun x => (x, lookup Fops n env x)) names.
End F.

Print Assumptions evalG_correct.
Print Assumptions runG_correct.
