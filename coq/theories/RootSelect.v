(* ========================================================================= *)
(*  RootSelect.v                                                             *)
(*                                                                           *)
(*  Model of the per-grid-point root selection performed by                  *)
(*  qsc/r_singularity.py : calculate_r_singularity, from the line            *)
(*      for jphi in range(nphi):                                             *)
(*  to the end of the function, for ONE value of jphi.                       *)
(*                                                                           *)
(*  np.polynomial.polynomial.polyroots is an ORACLE: the real and imaginary  *)
(*  parts of the roots it returns (in numpy's order) are inputs.             *)
(*                                                                           *)
(*  Contents                                                                 *)
(*    1. num : an abstract number type (operations + the literals used)      *)
(*    2. the model  select_rc_full / select_rc / accepted candidates         *)
(*    3. S1-S3 : selection theorems (generic num, explicit order laws)       *)
(*    4. S4    : grid-level minimum (rsing_min)                              *)
(*    5. S5    : over R, accepted candidates solve the equation they claim   *)
(*    6. PrimFloat instance + bit-for-bit examples from pyQSC                *)
(*                                                                           *)
(*  Python comparison conventions:  a < b  is n_ltb a b ;  a <= b is         *)
(*  n_leb a b ;  a > b is n_ltb b a ;  a >= b is n_leb b a.  With NaN all    *)
(*  of them are false (PrimFloat behaves like that).                         *)
(* ========================================================================= *)

From Coq Require Import List Bool.
Import ListNotations.

(* ------------------------------------------------------------------------- *)
(** * 1. Abstract numbers                                                    *)
(* ------------------------------------------------------------------------- *)

Record num : Type := mkNum {
  carrier : Type;
  n_add : carrier -> carrier -> carrier;
  n_sub : carrier -> carrier -> carrier;
  n_mul : carrier -> carrier -> carrier;
  n_div : carrier -> carrier -> carrier;
  n_neg : carrier -> carrier;
  n_sqrt : carrier -> carrier;
  n_abs : carrier -> carrier;
  n_ltb : carrier -> carrier -> bool;   (* Python <  *)
  n_leb : carrier -> carrier -> bool;   (* Python <= *)
  (* the literals that occur in the loop body *)
  l_0 : carrier;        (* 0     *)
  l_1 : carrier;        (* 1     *)
  l_2 : carrier;        (* 2     *)
  l_half : carrier;     (* 0.5   *)
  l_4 : carrier;        (* 4     *)
  l_m1 : carrier;       (* -1    *)
  l_1em7 : carrier;     (* 1e-7  *)
  l_1em8 : carrier;     (* 1e-8  *)
  l_1em13 : carrier;    (* 1e-13 *)
  l_1em5 : carrier;     (* 1e-5  *)
  l_1e100 : carrier     (* 1e+100, the "no root found" sentinel *)
}.

(* Python exceptions that can escape the loop body.
   SanityError : the explicit  raise RuntimeError(msg)  of the "Sanity test".
   IndexError  : imag_parts[jr] with jr >= len(roots).  polyroots trims
                 trailing zero coefficients, so if coefficients[jphi,4] == 0
                 it returns fewer than 4 roots and  for jr in range(4)  runs
                 off the end (the try/except only catches LinAlgError).      *)
Inductive error : Type := SanityError | IndexError.

Inductive result (A : Type) : Type :=
| Ok (a : A)
| Err (e : error).
Arguments Ok {A} a.
Arguments Err {A} e.

(* a Python for-loop whose body may raise *)
Fixpoint foldM {A B : Type} (f : A -> B -> result A) (l : list B) (a : A) : result A :=
  match l with
  | [] => Ok a
  | b :: t => match f a b with
              | Ok a' => foldM f t a'
              | Err e => Err e
              end
  end.

(* which formula produced a candidate *)
Inductive kind : Type :=
| Linear        (* rr = g1c*sintheta/denominator                       *)
| QuadSmallA    (* |A| < 1e-13 :  rr = -C/B                             *)
| QuadMinus     (* rr = (-B - radical)/(2A)   (sign_quadratic = -1)     *)
| QuadPlus.     (* rr = (-B + radical)/(2A)   (sign_quadratic = +1)     *)

(* ------------------------------------------------------------------------- *)
(** * 2. The model                                                           *)
(* ------------------------------------------------------------------------- *)

Section Model.

Variable n : num.
Notation N := (carrier n).

Declare Scope num_scope.
Delimit Scope num_scope with num.
Local Open Scope num_scope.
Local Notation "a + b" := (n_add n a b) : num_scope.
Local Notation "a - b" := (n_sub n a b) : num_scope.
Local Notation "a * b" := (n_mul n a b) : num_scope.
Local Notation "a / b" := (n_div n a b) : num_scope.
Local Notation "- a" := (n_neg n a) : num_scope.
Local Notation "a <? b" := (n_ltb n a b) (at level 70) : num_scope.
Local Notation "a >? b" := (n_ltb n b a) (at level 70) : num_scope.   (* Python a > b  *)
Local Notation "a >=? b" := (n_leb n b a) (at level 70) : num_scope.  (* Python a >= b *)
Local Notation nabs := (n_abs n).
Local Notation "'_0'" := (l_0 n).
Local Notation "'_1'" := (l_1 n).
Local Notation "'_2'" := (l_2 n).
Local Notation "'_4'" := (l_4 n).
Local Notation "'_m1'" := (l_m1 n).

(* an accepted candidate together with the angle data it was computed from *)
Record cand : Type := mkCand {
  c_kind : kind;
  c_sin2 : N;      (* sin2theta *)
  c_cos2 : N;      (* cos2theta *)
  c_cos : N;       (* costheta  *)
  c_sin : N;       (* sintheta  *)
  c_val : N        (* rr        *)
}.

(* loop state: (rc, selected, raw)
     rc       : the Python variable rc
     selected : for every (jr, varsigma) iteration in which a solution was
                found, the ONE value rr that reaches
                    if rr > 0 and rr < rc
                (the quadratic one if any -- the smaller of the two if both
                signs were accepted -- otherwise the linear one), in order;
     raw      : every value put in linear_solutions / quadratic_solutions
                (before the np.min reduction), in order of creation.        *)
Definition state : Type := (N * list cand * list cand)%type.

Section Point.

(* the oracle's output: np.real(roots), np.imag(roots) *)
Variables roots_re roots_im : list N.

Variables g0 g1c g20 g2s g2c K0 K2s K2c K4s K4c : N.

(*  (rr > 0) and np.abs(residual) < 1e-5  *)
Definition accept (rr residual : N) : bool :=
  (rr >? _0) && (nabs residual <? l_1em5 n).

(* residual = g0 + rr*g1c*costheta + rr*rr*(g20 + g2s*sin2theta + g2c*cos2theta) *)
Definition sqrtg_residual (sin2theta cos2theta costheta rr : N) : N :=
  g0 + rr * g1c * costheta + rr * rr * (g20 + g2s * sin2theta + g2c * cos2theta).

(* residual = -g1c*sintheta + 2*rr*(g2s*cos2theta - g2c*sin2theta) *)
Definition dtheta_residual (sin2theta cos2theta sintheta rr : N) : N :=
  (- g1c) * sintheta + _2 * rr * (g2s * cos2theta - g2c * sin2theta).

(* linear_solutions *)
Definition linear_solutions (sin2theta cos2theta costheta sintheta : N) : list cand :=
  let denominator := _2 * (g2s * cos2theta - g2c * sin2theta) in
  if nabs denominator >? l_1em8 n then
    let rr := g1c * sintheta / denominator in
    let residual := sqrtg_residual sin2theta cos2theta costheta rr in
    if accept rr residual
    then [mkCand Linear sin2theta cos2theta costheta sintheta rr]
    else []
  else [].

Definition quadratic_A (sin2theta cos2theta : N) : N :=
  g20 + g2s * sin2theta + g2c * cos2theta.
Definition quadratic_B (costheta : N) : N := costheta * g1c.
Definition quadratic_C : N := g0.
Definition radicand_of (A B C : N) : N := B * B - _4 * A * C.

(* one pass of  for sign_quadratic in [-1, 1]  *)
Definition quad_sign (k : kind) (sign_quadratic : N)
           (sin2theta cos2theta costheta sintheta A B radical : N) : list cand :=
  let rr := (- B + sign_quadratic * radical) / (_2 * A) in
  let residual := dtheta_residual sin2theta cos2theta sintheta rr in
  if accept rr residual
  then [mkCand k sin2theta cos2theta costheta sintheta rr]
  else [].

(* quadratic_solutions (before the np.min reduction) *)
Definition quadratic_solutions (sin2theta cos2theta costheta sintheta : N) : list cand :=
  let A := quadratic_A sin2theta cos2theta in
  let B := quadratic_B costheta in
  let C := quadratic_C in
  let radicand := radicand_of A B C in
  if nabs A <? l_1em13 n then
    let rr := (- C) / B in
    let residual := dtheta_residual sin2theta cos2theta sintheta rr in
    if accept rr residual
    then [mkCand QuadSmallA sin2theta cos2theta costheta sintheta rr]
    else []
  else
    if radicand >=? _0 then
      let radical := n_sqrt n radicand in
      quad_sign QuadMinus _m1 sin2theta cos2theta costheta sintheta A B radical
      ++ quad_sign QuadPlus _1 sin2theta cos2theta costheta sintheta A B radical
    else [].

(*  if len(quadratic_solutions) > 1:
        quadratic_solutions = [np.min(quadratic_solutions)]
    There are at most two entries.  np.min([a, b]) of two non-NaN floats is
    "b if b < a else a".  (If one of them were NaN, np.min would return NaN
    whereas this expression returns a when b is NaN; the case cannot arise
    because every accepted rr satisfies rr > 0, which is false for NaN.)    *)
Definition keep_min (qs : list cand) : list cand :=
  match qs with
  | a :: b :: _ => [if c_val b <? c_val a then b else a]
  | _ => qs
  end.

(*  # Prefer the quadratic solution
    rr = -1
    if len(quadratic_solutions) > 0: rr = quadratic_solutions[0]
    elif len(linear_solutions) > 0:  rr = linear_solutions[0]             *)
Definition preferred (lin quad : list cand) : list cand :=
  match quad with
  | q :: _ => [q]
  | [] => match lin with
          | l :: _ => [l]
          | [] => []
          end
  end.

Definition rr_of (sel : list cand) : N :=
  match sel with
  | c :: _ => c_val c
  | [] => _m1
  end.

(*  if rr > 0 and rr < rc: rc = rr  *)
Definition update_rc (rc rr : N) : N :=
  if (rr >? _0) && (rr <? rc) then rr else rc.

(* body of  for varsigma in [-1, 1]  *)
Definition varsigma_body (sin2theta cos2theta : N) (get_cos_from_cos2 : bool)
           (abs_trig : N) (st : state) (varsigma : N) : result state :=
  let '(rc, selected, raw) := st in
  let '(costheta, sintheta) :=
    if get_cos_from_cos2 then
      let costheta := varsigma * abs_trig in
      let sintheta := sin2theta / (_2 * costheta) in
      (costheta, sintheta)
    else
      let sintheta := varsigma * abs_trig in
      let costheta := sin2theta / (_2 * sintheta) in
      (costheta, sintheta) in
  (* Sanity test *)
  if nabs (costheta * costheta + sintheta * sintheta - _1) >? l_1em13 n then
    Err SanityError
  else
    let lin := linear_solutions sin2theta cos2theta costheta sintheta in
    let quad := quadratic_solutions sin2theta cos2theta costheta sintheta in
    let quad' := keep_min quad in
    (* the "diff > 1e-5" block only emits a warning: no effect on the value *)
    let sel := preferred lin quad' in
    let rr := rr_of sel in
    Ok (update_rc rc rr, selected ++ sel, raw ++ lin ++ quad).

(* body of  for jr in range(4)  once real_parts[jr], imag_parts[jr] are known *)
Definition root_body (st : state) (re im : N) : result state :=
  if nabs im >? l_1em7 n then Ok st            (* continue *)
  else
    let sin2theta := re in
    if nabs sin2theta >? _1 then Ok st         (* continue *)
    else
      let abs_cos2theta := n_sqrt n (_1 - sin2theta * sin2theta) in
      let residual_if_varpi_plus :=
        nabs (K0 + K2s * sin2theta + K2c * abs_cos2theta
              + K4s * _2 * sin2theta * abs_cos2theta
              + K4c * (_1 - _2 * sin2theta * sin2theta)) in
      let residual_if_varpi_minus :=
        nabs (K0 + K2s * sin2theta + K2c * (- abs_cos2theta)
              + K4s * _2 * sin2theta * (- abs_cos2theta)
              + K4c * (_1 - _2 * sin2theta * sin2theta)) in
      let varpi :=
        if residual_if_varpi_plus >? residual_if_varpi_minus then _m1 else _1 in
      let cos2theta := varpi * abs_cos2theta in
      let get_cos_from_cos2 := cos2theta >? _0 in
      let abs_trig :=
        if get_cos_from_cos2
        then n_sqrt n (l_half n * (_1 + cos2theta))      (* abs_costheta *)
        else n_sqrt n (l_half n * (_1 - cos2theta)) in   (* abs_sintheta *)
      foldM (varsigma_body sin2theta cos2theta get_cos_from_cos2 abs_trig)
            [_m1; _1] st.

Definition root_step (st : state) (jr : nat) : result state :=
  match nth_error roots_im jr, nth_error roots_re jr with
  | Some im, Some re => root_body st re im
  | _, _ => Err IndexError
  end.

(* rc = 1e+100 ; for jr in range(4): ... *)
Definition select_rc_full : result state :=
  foldM root_step [0; 1; 2; 3] (l_1e100 n, [], []).

Definition select_rc : result N :=
  match select_rc_full with
  | Ok (rc, _, _) => Ok rc
  | Err e => Err e
  end.

(* values of the candidates that were compared with rc *)
Definition selected_candidates : result (list cand) :=
  match select_rc_full with
  | Ok (_, sel, _) => Ok sel
  | Err e => Err e
  end.

(* everything that was ever put in linear_solutions / quadratic_solutions *)
Definition raw_candidates : result (list cand) :=
  match select_rc_full with
  | Ok (_, _, raw) => Ok raw
  | Err e => Err e
  end.

End Point.

(* ----------------------------------------------------------------------- *)
(** ** Grid level:  self.r_singularity = np.min(r_singularity_vs_varphi)    *)
(* ----------------------------------------------------------------------- *)

(* np.min over non-NaN data: left-to-right scan keeping the strictly smaller
   value.  (With a NaN entry np.min returns NaN; the scan would skip it.)
   np.min([]) raises ValueError; nphi >= 1 always, the [] case is a dummy. *)
Definition rsing_min (l : list N) : N :=
  match l with
  | [] => l_1e100 n
  | x :: xs => fold_left (fun m y => if y <? m then y else m) xs x
  end.

End Model.

Arguments mkCand {n} c_kind c_sin2 c_cos2 c_cos c_sin c_val.
Arguments c_kind {n} c.
Arguments c_sin2 {n} c.
Arguments c_cos2 {n} c.
Arguments c_cos {n} c.
Arguments c_sin {n} c.
Arguments c_val {n} c.

(* ------------------------------------------------------------------------- *)
(** * 3. Selection theorems (generic num)                                    *)
(* ------------------------------------------------------------------------- *)

Lemma foldM_inv : forall (A B : Type) (P : A -> Prop) (f : A -> B -> result A),
  (forall a b a', P a -> f a b = Ok a' -> P a') ->
  forall l a a', P a -> foldM f l a = Ok a' -> P a'.
Proof.
  intros A B P f Hf l; induction l as [|b t IH]; intros a a' Ha H; simpl in H.
  - inversion H; subst; exact Ha.
  - destruct (f a b) as [a1|e] eqn:E; [|discriminate].
    eapply IH; [|exact H]. eapply Hf; eauto.
Qed.

Section Theorems.

Variable n : num.
Notation N := (carrier n).
Notation ltb := (n_ltb n).
Notation sentinel := (l_1e100 n).
Notation zero := (l_0 n).

Variables g0 g1c g20 g2s g2c K0 K2s K2c K4s K4c : N.

Notation lin_sols := (linear_solutions n g0 g1c g20 g2s g2c).
Notation quad_sols := (quadratic_solutions n g0 g1c g20 g2s g2c).
Notation vbody := (varsigma_body n g0 g1c g20 g2s g2c).
Notation full re im := (select_rc_full n re im g0 g1c g20 g2s g2c K0 K2s K2c K4s K4c).

(* --- shape of one varsigma iteration ------------------------------------ *)

Lemma varsigma_body_ok : forall s2 c2 gc at_ rc sel raw v st',
  vbody s2 c2 gc at_ (rc, sel, raw) v = Ok st' ->
  exists ct sn,
    st' = (update_rc n rc (rr_of n (preferred n (lin_sols s2 c2 ct sn) (keep_min n (quad_sols s2 c2 ct sn)))),
           sel ++ preferred n (lin_sols s2 c2 ct sn) (keep_min n (quad_sols s2 c2 ct sn)),
           raw ++ lin_sols s2 c2 ct sn ++ quad_sols s2 c2 ct sn).
Proof.
  intros s2 c2 gc at_ rc sel raw v st' H.
  unfold varsigma_body in H.
  destruct gc; cbv zeta in H;
    match type of H with
    | (if ?b then _ else _) = _ => destruct b; [discriminate|]
    end;
    inversion H; subst; eauto.
Qed.

(* Any state predicate that holds initially and is preserved by every
   successful varsigma iteration holds of the final state. *)
Lemma select_rc_full_inv : forall (P : state n -> Prop) re im,
  P (sentinel, [], []) ->
  (forall s2 c2 gc at_ st v st', P st -> vbody s2 c2 gc at_ st v = Ok st' -> P st') ->
  forall st, full re im = Ok st -> P st.
Proof.
  intros P re im H0 Hstep st H.
  unfold select_rc_full in H.
  eapply foldM_inv with (P := P); [|exact H0|exact H].
  intros a jr a' Pa Hr. unfold root_step in Hr.
  destruct (nth_error im jr) as [i|]; [|discriminate].
  destruct (nth_error re jr) as [r|]; [|discriminate].
  unfold root_body in Hr.
  destruct (n_ltb n (l_1em7 n) (n_abs n i)).
  { inversion Hr; subst; exact Pa. }
  destruct (n_ltb n (l_1 n) (n_abs n r)).
  { inversion Hr; subst; exact Pa. }
  cbv zeta in Hr.
  eapply foldM_inv with (P := P); [|exact Pa|exact Hr].
  intros; eapply Hstep; eauto.
Qed.

(* --- what is in linear_solutions / quadratic_solutions ------------------- *)

Lemma accept_pos : forall rr res, accept n rr res = true -> ltb zero rr = true.
Proof. unfold accept; intros rr res H; apply andb_prop in H; tauto. Qed.

Lemma lin_sols_pos : forall s2 c2 ct sn c,
  In c (lin_sols s2 c2 ct sn) -> ltb zero (c_val c) = true.
Proof.
  intros s2 c2 ct sn c H. unfold linear_solutions in H. cbv zeta in H.
  destruct (n_ltb n (l_1em8 n) _); [|contradiction].
  destruct (accept n _ _) eqn:E; [|contradiction].
  destruct H as [<-|[]]. simpl. eapply accept_pos; eauto.
Qed.

Lemma quad_sign_pos : forall k s s2 c2 ct sn A B rad c,
  In c (quad_sign n g1c g2s g2c k s s2 c2 ct sn A B rad) -> ltb zero (c_val c) = true.
Proof.
  intros k s s2 c2 ct sn A B rad c H. unfold quad_sign in H. cbv zeta in H.
  destruct (accept n _ _) eqn:E; [|contradiction].
  destruct H as [<-|[]]. simpl. eapply accept_pos; eauto.
Qed.

Lemma quad_sols_pos : forall s2 c2 ct sn c,
  In c (quad_sols s2 c2 ct sn) -> ltb zero (c_val c) = true.
Proof.
  intros s2 c2 ct sn c H. unfold quadratic_solutions in H. cbv zeta in H.
  destruct (n_ltb n _ (l_1em13 n)).
  - destruct (accept n _ _) eqn:E; [|contradiction].
    destruct H as [<-|[]]. simpl. eapply accept_pos; eauto.
  - destruct (n_leb n _ _); [|contradiction].
    apply in_app_or in H. destruct H as [H|H]; eapply quad_sign_pos; eauto.
Qed.

Lemma quad_sign_length : forall k s s2 c2 ct sn A B rad,
  length (quad_sign n g1c g2s g2c k s s2 c2 ct sn A B rad) <= 1.
Proof.
  intros. unfold quad_sign. cbv zeta. destruct (accept n _ _); simpl; auto.
Qed.

(* quadratic_solutions never has more than two entries *)
Lemma quad_sols_length : forall s2 c2 ct sn, length (quad_sols s2 c2 ct sn) <= 2.
Proof.
  intros. unfold quadratic_solutions. cbv zeta.
  destruct (n_ltb n _ (l_1em13 n)).
  - destruct (accept n _ _); simpl; auto.
  - destruct (n_leb n _ _); simpl; auto.
    rewrite app_length.
    pose proof (quad_sign_length QuadMinus (l_m1 n) s2 c2 ct sn
                  (quadratic_A n g20 g2s g2c s2 c2) (quadratic_B n g1c ct)
                  (n_sqrt n (radicand_of n (quadratic_A n g20 g2s g2c s2 c2) (quadratic_B n g1c ct) (quadratic_C n g0)))).
    pose proof (quad_sign_length QuadPlus (l_1 n) s2 c2 ct sn
                  (quadratic_A n g20 g2s g2c s2 c2) (quadratic_B n g1c ct)
                  (n_sqrt n (radicand_of n (quadratic_A n g20 g2s g2c s2 c2) (quadratic_B n g1c ct) (quadratic_C n g0)))).
    apply PeanoNat.Nat.add_le_mono with (n := length _) (m := 1) (p := length _) (q := 1); assumption.
Qed.

Lemma keep_min_incl : forall qs c, In c (keep_min n qs) -> In c qs.
Proof.
  intros [|a [|b t]] c H; simpl in *; auto.
  destruct H as [H|[]]. destruct (n_ltb n (c_val b) (c_val a)); subst; auto.
Qed.

Lemma preferred_incl : forall lin q c, In c (preferred n lin q) -> In c lin \/ In c q.
Proof.
  intros lin q c H. destruct q as [|q0 q']; simpl in H.
  - destruct lin as [|l0 l']; simpl in H; [contradiction|].
    destruct H as [<-|[]]; left; simpl; auto.
  - destruct H as [<-|[]]; right; simpl; auto.
Qed.

Lemma preferred_cases : forall (lin q : list (cand n)),
  preferred n lin q = [] \/ exists c, preferred n lin q = [c].
Proof.
  intros lin [|q0 q']; simpl; [|eauto]. destruct lin; simpl; eauto.
Qed.

Lemma sel_step_pos : forall s2 c2 ct sn c,
  In c (preferred n (lin_sols s2 c2 ct sn) (keep_min n (quad_sols s2 c2 ct sn))) ->
  ltb zero (c_val c) = true.
Proof.
  intros s2 c2 ct sn c H. apply preferred_incl in H. destruct H as [H|H].
  - eapply lin_sols_pos; eauto.
  - apply keep_min_incl in H. eapply quad_sols_pos; eauto.
Qed.

Lemma sel_step_raw : forall s2 c2 ct sn c,
  In c (preferred n (lin_sols s2 c2 ct sn) (keep_min n (quad_sols s2 c2 ct sn))) ->
  In c (lin_sols s2 c2 ct sn ++ quad_sols s2 c2 ct sn).
Proof.
  intros s2 c2 ct sn c H. apply preferred_incl in H. apply in_or_app.
  destruct H as [H|H]; [left; exact H|right; apply keep_min_incl; exact H].
Qed.

(* --- general facts on the two candidate lists ---------------------------- *)

(* every selected candidate is one of the raw candidates *)
Theorem selected_subset_raw : forall re im rc sel raw,
  full re im = Ok (rc, sel, raw) -> forall c, In c sel -> In c raw.
Proof.
  intros re im rc sel raw H.
  change ((fun st : state n => let '(_, sel, raw) := st in forall c, In c sel -> In c raw) (rc, sel, raw)).
  eapply select_rc_full_inv; [| |exact H].
  - simpl; contradiction.
  - intros s2 c2 gc at_ [[rc0 sel0] raw0] v st' P0 Hb.
    apply varsigma_body_ok in Hb. destruct Hb as (ct & sn & ->).
    intros c Hc. apply in_app_or in Hc. apply in_or_app. destruct Hc as [Hc|Hc].
    + left; auto.
    + right. apply sel_step_raw; exact Hc.
Qed.

(* a property of everything produced by linear_solutions and
   quadratic_solutions holds of every raw candidate *)
Theorem raw_forall : forall (P : cand n -> Prop),
  (forall s2 c2 ct sn c, In c (lin_sols s2 c2 ct sn) -> P c) ->
  (forall s2 c2 ct sn c, In c (quad_sols s2 c2 ct sn) -> P c) ->
  forall re im rc sel raw,
  full re im = Ok (rc, sel, raw) -> forall c, In c raw -> P c.
Proof.
  intros P HL HQ re im rc sel raw H.
  change ((fun st : state n => let '(_, _, raw) := st in forall c, In c raw -> P c) (rc, sel, raw)).
  eapply select_rc_full_inv; [| |exact H].
  - simpl; contradiction.
  - intros s2 c2 gc at_ [[rc0 sel0] raw0] v st' P0 Hb.
    apply varsigma_body_ok in Hb. destruct Hb as (ct & sn & ->).
    intros c Hc. apply in_app_or in Hc. destruct Hc as [Hc|Hc]; [auto|].
    apply in_app_or in Hc. destruct Hc as [Hc|Hc]; [eapply HL|eapply HQ]; eauto.
Qed.

(* every accepted candidate (raw, hence also selected) is > 0 *)
Theorem raw_positive : forall re im rc sel raw,
  full re im = Ok (rc, sel, raw) -> forall c, In c raw -> ltb zero (c_val c) = true.
Proof.
  intros re im rc sel raw H.
  eapply raw_forall with (P := fun c => ltb zero (c_val c) = true); [| |exact H].
  - exact lin_sols_pos.
  - exact quad_sols_pos.
Qed.

(* --- S1 ------------------------------------------------------------------ *)

(* the only order fact needed: the placeholder  rr = -1  fails  rr > 0  *)
Hypothesis m1_not_pos : ltb zero (l_m1 n) = false.

Theorem rc_is_sentinel_or_candidate : forall re im rc sel raw,
  full re im = Ok (rc, sel, raw) ->
  (rc = sentinel \/ In rc (map (@c_val n) sel)) /\
  (forall c, In c sel -> ltb zero (c_val c) = true).
Proof.
  intros re im rc sel raw H. split.
  - change ((fun st : state n => let '(rc, sel, _) := st in
               rc = sentinel \/ In rc (map (@c_val n) sel)) (rc, sel, raw)).
    eapply select_rc_full_inv; [| |exact H].
    + left; reflexivity.
    + intros s2 c2 gc at_ [[rc0 sel0] raw0] v st' P0 Hb.
      apply varsigma_body_ok in Hb. destruct Hb as (ct & sn & ->).
      rewrite map_app.
      destruct (preferred_cases (lin_sols s2 c2 ct sn) (keep_min n (quad_sols s2 c2 ct sn)))
        as [E|[c E]]; rewrite E; simpl.
      * unfold update_rc. rewrite m1_not_pos. simpl. rewrite app_nil_r. exact P0.
      * unfold update_rc.
        destruct (n_ltb n zero (c_val c) && n_ltb n (c_val c) rc0).
        -- right. apply in_or_app. right. simpl; auto.
        -- destruct P0 as [P0|P0]; [left; exact P0|right; apply in_or_app; left; exact P0].
  - intros c Hc. eapply raw_positive; [exact H|]. eapply selected_subset_raw; eauto.
Qed.

(* --- S3 ------------------------------------------------------------------ *)

Theorem no_candidate_sentinel : forall re im rc raw,
  full re im = Ok (rc, [], raw) -> rc = sentinel.
Proof.
  intros re im rc raw H.
  destruct (rc_is_sentinel_or_candidate _ _ _ _ _ H) as [[E|[]] _]. exact E.
Qed.

(* stronger premise-free variant: nothing was ever accepted *)
Corollary no_raw_candidate_sentinel : forall re im rc sel,
  full re im = Ok (rc, sel, []) -> rc = sentinel /\ sel = [].
Proof.
  intros re im rc sel H.
  assert (sel = []) as ->.
  { destruct sel as [|c t]; [reflexivity|].
    exfalso. eapply (selected_subset_raw _ _ _ _ _ H c). simpl; auto. }
  split; [eapply no_candidate_sentinel; eauto|reflexivity].
Qed.

(* --- S2 ------------------------------------------------------------------ *)

(* Order laws used by S2: "<" is irreflexive and transitive.  (IEEE "<"
   satisfies both, NaN included: all comparisons with NaN are false.)        *)
Hypothesis ltb_irrefl : forall a, ltb a a = false.
Hypothesis ltb_trans : forall a b c, ltb a b = true -> ltb b c = true -> ltb a c = true.

Lemma ltb_asym : forall a b, ltb a b = true -> ltb b a = false.
Proof.
  intros a b H. destruct (ltb b a) eqn:E; [|reflexivity].
  rewrite <- (ltb_irrefl a). symmetry. eapply ltb_trans; eauto.
Qed.

(* rc only decreases: whatever was not below rc is not below the new rc *)
Lemma update_rc_mono : forall z rc rr,
  ltb z rc = false -> ltb z (update_rc n rc rr) = false.
Proof.
  intros z rc rr H. unfold update_rc.
  destruct (n_ltb n zero rr && n_ltb n rr rc) eqn:E; [|exact H].
  apply andb_prop in E. destruct E as [_ E].
  destruct (ltb z rr) eqn:F; [|reflexivity].
  rewrite <- H. symmetry. eapply ltb_trans; eauto.
Qed.

Lemma update_rc_self : forall rc rr,
  ltb zero rr = true -> ltb rr (update_rc n rc rr) = false.
Proof.
  intros rc rr H. unfold update_rc. rewrite H. simpl.
  destruct (n_ltb n rr rc) eqn:E; [apply ltb_irrefl|exact E].
Qed.

Theorem rc_minimal : forall re im rc sel raw,
  full re im = Ok (rc, sel, raw) ->
  forall c, In c sel -> ltb (c_val c) rc = false.
Proof.
  intros re im rc sel raw H.
  change ((fun st : state n => let '(rc, sel, _) := st in
             forall c, In c sel -> ltb (c_val c) rc = false) (rc, sel, raw)).
  eapply select_rc_full_inv; [| |exact H].
  - simpl; contradiction.
  - intros s2 c2 gc at_ [[rc0 sel0] raw0] v st' P0 Hb.
    apply varsigma_body_ok in Hb. destruct Hb as (ct & sn & ->).
    intros c Hc. apply in_app_or in Hc. destruct Hc as [Hc|Hc].
    + apply update_rc_mono. auto.
    + pose proof (sel_step_pos _ _ _ _ _ Hc) as Hpos.
      destruct (preferred_cases (lin_sols s2 c2 ct sn) (keep_min n (quad_sols s2 c2 ct sn)))
        as [E|[c' E]]; rewrite E in *; simpl in Hc; [contradiction|].
      destruct Hc as [<-|[]]. simpl. apply update_rc_self. exact Hpos.
Qed.

(* --- S2', for ALL accepted quadratic candidates --------------------------- *)

(* To cover also the quadratic candidate discarded by np.min one more law is
   needed: incomparability is transitive ("<" is a strict weak order).  True
   for IEEE "<" on non-NaN values and for R; false in the presence of NaN.
   NOTE: the analogous statement for accepted LINEAR candidates is false:
   a linear solution is dropped whenever a quadratic one exists in the same
   (jr, varsigma) iteration, even if it is smaller (see
   linear_candidate_can_be_lost at the end of the file).                     *)
Hypothesis ltb_negtrans : forall a b c, ltb a b = false -> ltb b c = false -> ltb a c = false.

Lemma lin_sols_kind : forall s2 c2 ct sn c,
  In c (lin_sols s2 c2 ct sn) -> c_kind c = Linear.
Proof.
  intros s2 c2 ct sn c H. unfold linear_solutions in H. cbv zeta in H.
  destruct (n_ltb n (l_1em8 n) _); [|contradiction].
  destruct (accept n _ _); [|contradiction].
  destruct H as [<-|[]]. reflexivity.
Qed.

Lemma keep_min_least : forall qs c, length qs <= 2 -> In c qs ->
  exists m, keep_min n qs = [m] /\ In m qs /\ ltb (c_val c) (c_val m) = false.
Proof.
  intros [|a [|b [|x t]]] c Hlen Hc; simpl in *.
  - contradiction.
  - destruct Hc as [<-|[]]. exists a. auto.
  - destruct (n_ltb n (c_val b) (c_val a)) eqn:E.
    + exists b. split; [reflexivity|]. split; [auto|].
      destruct Hc as [<-|[<-|[]]]; [apply ltb_asym; exact E|apply ltb_irrefl].
    + exists a. split; [reflexivity|]. split; [auto|].
      destruct Hc as [<-|[<-|[]]]; [apply ltb_irrefl|exact E].
  - exfalso. inversion Hlen as [|? H1]. inversion H1 as [|? H2]. inversion H2.
Qed.

Theorem rc_minimal_quadratic : forall re im rc sel raw,
  full re im = Ok (rc, sel, raw) ->
  forall c, In c raw -> c_kind c <> Linear -> ltb (c_val c) rc = false.
Proof.
  intros re im rc sel raw H.
  change ((fun st : state n => let '(rc, _, raw) := st in
             forall c, In c raw -> c_kind c <> Linear -> ltb (c_val c) rc = false) (rc, sel, raw)).
  eapply select_rc_full_inv; [| |exact H].
  - simpl; contradiction.
  - intros s2 c2 gc at_ [[rc0 sel0] raw0] v st' P0 Hb.
    apply varsigma_body_ok in Hb. destruct Hb as (ct & sn & ->).
    intros c Hc Hk. apply in_app_or in Hc. destruct Hc as [Hc|Hc].
    + apply update_rc_mono. auto.
    + apply in_app_or in Hc. destruct Hc as [Hc|Hc].
      * exfalso. apply Hk. eapply lin_sols_kind; eauto.
      * destruct (keep_min_least _ _ (quad_sols_length s2 c2 ct sn) Hc) as (m & E & Hm & Hcm).
        rewrite E. simpl.
        eapply ltb_negtrans; [exact Hcm|].
        apply update_rc_self. eapply quad_sols_pos; eauto.
Qed.

End Theorems.

(* bridge between select_rc / selected_candidates / raw_candidates and select_rc_full *)
Lemma select_rc_full_proj : forall n re im g0 g1c g20 g2s g2c K0 K2s K2c K4s K4c rc sel raw,
  select_rc_full n re im g0 g1c g20 g2s g2c K0 K2s K2c K4s K4c = Ok (rc, sel, raw) ->
  select_rc n re im g0 g1c g20 g2s g2c K0 K2s K2c K4s K4c = Ok rc /\
  selected_candidates n re im g0 g1c g20 g2s g2c K0 K2s K2c K4s K4c = Ok sel /\
  raw_candidates n re im g0 g1c g20 g2s g2c K0 K2s K2c K4s K4c = Ok raw.
Proof.
  intros. unfold select_rc, selected_candidates, raw_candidates. rewrite H. auto.
Qed.

Lemma select_rc_ok_inv : forall n re im g0 g1c g20 g2s g2c K0 K2s K2c K4s K4c rc,
  select_rc n re im g0 g1c g20 g2s g2c K0 K2s K2c K4s K4c = Ok rc ->
  exists sel raw,
    select_rc_full n re im g0 g1c g20 g2s g2c K0 K2s K2c K4s K4c = Ok (rc, sel, raw).
Proof.
  intros until rc. unfold select_rc.
  destruct (select_rc_full n re im g0 g1c g20 g2s g2c K0 K2s K2c K4s K4c) as [[[r s] w]|e];
    intro H; inversion H; subst; eauto.
Qed.

(* ------------------------------------------------------------------------- *)
(** * 4. S4 : grid level minimum                                             *)
(* ------------------------------------------------------------------------- *)

Section GridMin.

Variable n : num.
Notation N := (carrier n).
Notation ltb := (n_ltb n).
Notation leb := (n_leb n).
Notation fmin := (fun m y : N => if n_ltb n y m then y else m).

Lemma fold_min_in : forall (xs : list N) (m : N),
  fold_left fmin xs m = m \/ In (fold_left fmin xs m) xs.
Proof.
  induction xs as [|y t IH]; intros m; simpl; [left; reflexivity|].
  destruct (IH (if ltb y m then y else m)) as [E|E].
  - rewrite E. destruct (ltb y m); auto.
  - right; right; exact E.
Qed.

(* r_singularity is one of the per-point values *)
Theorem rsing_min_in : forall l : list N, l <> [] -> In (rsing_min n l) l.
Proof.
  intros [|x xs] H; [congruence|]. simpl.
  destruct (fold_min_in xs x) as [E|E]; [left; symmetry; exact E|right; exact E].
Qed.

Hypothesis ltb_irrefl : forall a, ltb a a = false.
Hypothesis ltb_trans : forall a b c, ltb a b = true -> ltb b c = true -> ltb a c = true.

Lemma fold_min_mono : forall (xs : list N) (m z : N),
  ltb z m = false -> ltb z (fold_left fmin xs m) = false.
Proof.
  induction xs as [|y t IH]; intros m z H; simpl; [exact H|].
  apply IH. destruct (ltb y m) eqn:E; [|exact H].
  destruct (ltb z y) eqn:F; [|reflexivity].
  rewrite <- H. symmetry. eapply ltb_trans; eauto.
Qed.

Lemma fold_min_lower : forall (xs : list N) (m x : N),
  x = m \/ In x xs -> ltb x (fold_left fmin xs m) = false.
Proof.
  induction xs as [|y t IH]; intros m x H; simpl.
  - destruct H as [->|[]]. apply ltb_irrefl.
  - destruct H as [->|[<-|H]].
    + apply fold_min_mono. destruct (ltb y m) eqn:E; [|apply ltb_irrefl].
      destruct (ltb m y) eqn:F; [|reflexivity].
      rewrite <- (ltb_irrefl m). symmetry. eapply ltb_trans; eauto.
    + apply fold_min_mono. destruct (ltb y m) eqn:E; [apply ltb_irrefl|exact E].
    + apply IH. right; exact H.
Qed.

(* no per-point value is strictly below r_singularity (irreflexivity and
   transitivity of "<" only) *)
Theorem rsing_min_lower : forall (l : list N) (x : N),
  In x l -> ltb x (rsing_min n l) = false.
Proof.
  intros [|y ys] x H; [contradiction|]. simpl.
  apply fold_min_lower. destruct H as [->|H]; auto.
Qed.

(* "<=" form: needs the link between < and <= of a total order (false for NaN) *)
Hypothesis leb_total : forall a b, ltb a b = false -> leb b a = true.

Theorem rsing_min_le : forall (l : list N) (x : N),
  In x l -> leb (rsing_min n l) x = true.
Proof. intros l x H. apply leb_total. apply rsing_min_lower; exact H. Qed.

End GridMin.

(* r_singularity = np.min(r_singularity_vs_varphi) combined with S1-S3: if
   every grid point evaluates without exception, the global value is the
   sentinel or an accepted (selected) candidate of some grid point, and no
   selected candidate of any grid point is strictly below it. *)
Section Grid.

Variable n : num.
Notation N := (carrier n).
Notation ltb := (n_ltb n).

(* per-point inputs: (roots_re, roots_im, [g0;g1c;g20;g2s;g2c;K0;K2s;K2c;K4s;K4c]) *)
Record point : Type := mkPoint {
  p_re : list N; p_im : list N;
  p_g0 : N; p_g1c : N; p_g20 : N; p_g2s : N; p_g2c : N;
  p_K0 : N; p_K2s : N; p_K2c : N; p_K4s : N; p_K4c : N }.

Definition point_full (p : point) : result (state n) :=
  select_rc_full n (p_re p) (p_im p) (p_g0 p) (p_g1c p) (p_g20 p) (p_g2s p) (p_g2c p)
                 (p_K0 p) (p_K2s p) (p_K2c p) (p_K4s p) (p_K4c p).

Hypothesis ltb_irrefl : forall a, ltb a a = false.
Hypothesis ltb_trans : forall a b c, ltb a b = true -> ltb b c = true -> ltb a c = true.
(* comparing a candidate of one grid point with the value of another one
   needs "not < " to be transitive as well (strict weak order; no NaN) *)
Hypothesis ltb_negtrans : forall a b c, ltb a b = false -> ltb b c = false -> ltb a c = false.

Theorem r_singularity_minimal : forall (pts : list point) (sts : list (state n)),
  Forall2 (fun p st => point_full p = Ok st) pts sts ->
  forall st c, In st sts -> In c (snd (fst st)) ->
  ltb (c_val c) (rsing_min n (map (fun st => fst (fst st)) sts)) = false.
Proof.
  intros pts sts HF st c Hst Hc.
  set (rcs := map (fun st : state n => fst (fst st)) sts).
  assert (Hin : In (fst (fst st)) rcs) by (apply (in_map (fun st : state n => fst (fst st))); exact Hst).
  pose proof (rsing_min_lower n ltb_irrefl ltb_trans rcs _ Hin) as Hlow.
  assert (Hpt : ltb (c_val c) (fst (fst st)) = false).
  { clear Hlow Hin. revert Hst. induction HF as [|p s ps ss Hp HF IH]; simpl; [contradiction|].
    intros [->|H]; [|auto].
    destruct st as [[rc sel] raw]. simpl in *.
    unfold point_full in Hp.
    eapply rc_minimal; eauto. }
  eapply ltb_negtrans; eauto.
Qed.

End Grid.

Print Assumptions rc_is_sentinel_or_candidate.
Print Assumptions rc_minimal.
Print Assumptions rc_minimal_quadratic.
Print Assumptions no_candidate_sentinel.
Print Assumptions no_raw_candidate_sentinel.
Print Assumptions selected_subset_raw.
Print Assumptions raw_positive.
Print Assumptions rsing_min_in.
Print Assumptions rsing_min_lower.
Print Assumptions rsing_min_le.
Print Assumptions r_singularity_minimal.

(* ------------------------------------------------------------------------- *)
(** * 5. S5 : over the reals the accepted candidates are exact solutions     *)
(* ------------------------------------------------------------------------- *)

From Coq Require Import Reals Lra.
Local Open Scope R_scope.

(* NB: Lra/Ring export an identifier [num]; the record of this file is
   written RootSelect.num from here on. *)

Definition Rltb (a b : R) : bool := if Rlt_dec a b then true else false.
Definition Rleb (a b : R) : bool := if Rle_dec a b then true else false.

Definition R_num : RootSelect.num :=
  mkNum R Rplus Rminus Rmult Rdiv Ropp R_sqrt.sqrt Rabs Rltb Rleb
        0 1 2 (1/2) 4 (-1) (/ 10^7) (/ 10^8) (/ 10^13) (/ 10^5) (10^100).

Lemma Rltb_true : forall a b, Rltb a b = true -> a < b.
Proof. intros a b; unfold Rltb; destruct (Rlt_dec a b); [auto|discriminate]. Qed.
Lemma Rltb_false : forall a b, Rltb a b = false -> b <= a.
Proof. intros a b; unfold Rltb; destruct (Rlt_dec a b); [discriminate|lra]. Qed.
Lemma Rleb_true : forall a b, Rleb a b = true -> a <= b.
Proof. intros a b; unfold Rleb; destruct (Rle_dec a b); [auto|discriminate]. Qed.

Lemma pow10_pos : forall k, 0 < / 10 ^ k.
Proof. intro k. apply Rinv_0_lt_compat. apply pow_lt. lra. Qed.

(* the quadratic formula *)
Lemma quadratic_formula : forall A B C s,
  A <> 0 -> 0 <= B * B - 4 * A * C -> s * s = 1 ->
  let r := (- B + s * sqrt (B * B - 4 * A * C)) / (2 * A) in
  A * (r * r) + B * r + C = 0.
Proof.
  intros A B C s HA Hrad Hs r.
  set (q := sqrt (B * B - 4 * A * C)) in *.
  assert (Hq : q * q = B * B - 4 * A * C) by (apply sqrt_sqrt; exact Hrad).
  unfold r. field_simplify_eq; [|exact HA].
  replace (s ^ 2) with (s * s) by ring. 
  nra.
Qed.

Ltac unfold_num :=
  cbv beta iota zeta delta
    [R_num carrier n_add n_sub n_mul n_div n_neg n_sqrt n_abs n_ltb n_leb
     l_0 l_1 l_2 l_half l_4 l_m1 l_1em7 l_1em8 l_1em13 l_1em5 l_1e100
     linear_solutions quadratic_solutions quad_sign accept
     sqrtg_residual dtheta_residual quadratic_A quadratic_B quadratic_C radicand_of] in *.

Section RealSpec.

Variables g0 g1c g20 g2s g2c : R.

(* what each kind of accepted candidate satisfies exactly, over R *)
Definition cand_ok (c : cand R_num) : Prop :=
  let s2 := c_sin2 c in
  let c2 := c_cos2 c in
  let A := g20 + g2s * s2 + g2c * c2 in
  let B := c_cos c * g1c in
  let r := c_val c in
  match c_kind c with
  | Linear =>
      2 * (g2s * c2 - g2c * s2) <> 0 /\
      - g1c * c_sin c + 2 * r * (g2s * c2 - g2c * s2) = 0
  | QuadSmallA =>
      Rabs A < / 10 ^ 13 /\ (B <> 0 -> B * r + g0 = 0)
  | QuadMinus | QuadPlus =>
      A <> 0 /\ 0 <= B * B - 4 * A * g0 /\
      A * (r * r) + B * r + g0 = 0 /\
      g0 + r * g1c * c_cos c + r * r * (g20 + g2s * s2 + g2c * c2) = 0
  end.

Lemma lin_sols_ok : forall s2 c2 ct sn c,
  In c (linear_solutions R_num g0 g1c g20 g2s g2c s2 c2 ct sn) -> cand_ok c.
Proof.
  intros s2 c2 ct sn c H. unfold_num.
  destruct (Rltb (/ 10 ^ 8) (Rabs (2 * (g2s * c2 - g2c * s2)))) eqn:E; [|contradiction].
  match type of H with In _ (if ?b then _ else _) => destruct b end; [|contradiction].
  destruct H as [<-|[]]. unfold cand_ok; simpl.
  apply Rltb_true in E.
  assert (Hd : 2 * (g2s * c2 - g2c * s2) <> 0).
  { intro Z. rewrite Z, Rabs_R0 in E. pose proof (pow10_pos 8). lra. }
  split; [exact Hd|]. field. intro Z; apply Hd; rewrite Z; ring.
Qed.

Lemma quad_sols_ok : forall s2 c2 ct sn c,
  In c (quadratic_solutions R_num g0 g1c g20 g2s g2c s2 c2 ct sn) -> cand_ok c.
Proof.
  intros s2 c2 ct sn c H. unfold_num.
  set (A := g20 + g2s * s2 + g2c * c2) in *.
  set (B := ct * g1c) in *.
  destruct (Rltb (Rabs A) (/ 10 ^ 13)) eqn:EA.
  - match type of H with In _ (if ?b then _ else _) => destruct b end; [|contradiction].
    destruct H as [<-|[]]. unfold cand_ok; simpl. fold A B.
    split; [apply Rltb_true; exact EA|]. intro HB. field. exact HB.
  - apply Rltb_false in EA.
    assert (HA : A <> 0).
    { intro Z. rewrite Z, Rabs_R0 in EA. pose proof (pow10_pos 13). lra. }
    destruct (Rleb 0 (B * B - 4 * A * g0)) eqn:ER; [|contradiction].
    apply Rleb_true in ER.
    apply in_app_or in H. destruct H as [H|H];
      (match type of H with In _ (if ?b then _ else _) => destruct b end; [|contradiction]);
      destruct H as [<-|[]]; unfold cand_ok; simpl; fold A B;
      (split; [exact HA|]; split; [exact ER|]).
    + pose proof (quadratic_formula A B g0 (-1) HA ER ltac:(ring)) as Q. simpl in Q.
      split; [exact Q|]. rewrite <- Q. unfold B. ring.
    + pose proof (quadratic_formula A B g0 1 HA ER ltac:(ring)) as Q. simpl in Q.
      split; [exact Q|]. rewrite <- Q. unfold B. ring.
Qed.

End RealSpec.

(* every raw (hence every selected) candidate satisfies its equation exactly *)
Theorem accepted_candidates_exact : forall re im g0 g1c g20 g2s g2c K0 K2s K2c K4s K4c rc sel raw,
  select_rc_full R_num re im g0 g1c g20 g2s g2c K0 K2s K2c K4s K4c = Ok (rc, sel, raw) ->
  forall c, In c raw -> cand_ok g0 g1c g20 g2s g2c c.
Proof.
  intros until raw. intro H.
  eapply raw_forall with (P := cand_ok g0 g1c g20 g2s g2c); [| |exact H].
  - apply lin_sols_ok.
  - apply quad_sols_ok.
Qed.

(* S5, quadratic part: an accepted QUADRATIC candidate rr (both signs) was
   computed with A <> 0 and radicand >= 0, and is an exact zero of
   A r^2 + B r + C, i.e. of the truncated Jacobian
   g0 + r*g1c*cos(theta) + r^2*(g20 + g2s*sin2theta + g2c*cos2theta).        *)
Theorem quadratic_candidate_exact : forall re im g0 g1c g20 g2s g2c K0 K2s K2c K4s K4c rc sel raw,
  select_rc_full R_num re im g0 g1c g20 g2s g2c K0 K2s K2c K4s K4c = Ok (rc, sel, raw) ->
  forall c, In c raw -> c_kind c = QuadMinus \/ c_kind c = QuadPlus ->
  let A := g20 + g2s * c_sin2 c + g2c * c_cos2 c in
  let B := c_cos c * g1c in
  let C := g0 in
  let rr := c_val c in
  A <> 0 /\ 0 <= B * B - 4 * A * C /\
  A * (rr * rr) + B * rr + C = 0 /\
  g0 + rr * g1c * c_cos c + rr * rr * (g20 + g2s * c_sin2 c + g2c * c_cos2 c) = 0.
Proof.
  intros until raw. intros H c Hc Hk.
  pose proof (accepted_candidates_exact _ _ _ _ _ _ _ _ _ _ _ _ _ _ _ H c Hc) as Hok.
  unfold cand_ok in Hok. destruct Hk as [Hk|Hk]; rewrite Hk in Hok; exact Hok.
Qed.

(* S5, linear part: an accepted LINEAR candidate is an exact zero of the
   theta-derivative condition. *)
Theorem linear_candidate_exact : forall re im g0 g1c g20 g2s g2c K0 K2s K2c K4s K4c rc sel raw,
  select_rc_full R_num re im g0 g1c g20 g2s g2c K0 K2s K2c K4s K4c = Ok (rc, sel, raw) ->
  forall c, In c raw -> c_kind c = Linear ->
  - g1c * c_sin c + 2 * c_val c * (g2s * c_cos2 c - g2c * c_sin2 c) = 0.
Proof.
  intros until raw. intros H c Hc Hk.
  pose proof (accepted_candidates_exact _ _ _ _ _ _ _ _ _ _ _ _ _ _ _ H c Hc) as Hok.
  unfold cand_ok in Hok. rewrite Hk in Hok. tauto.
Qed.

(* the |A| < 1e-13 branch: rr = -C/B solves B r + C = 0 provided B <> 0
   (the code does not test B) *)
Theorem smallA_candidate_exact : forall re im g0 g1c g20 g2s g2c K0 K2s K2c K4s K4c rc sel raw,
  select_rc_full R_num re im g0 g1c g20 g2s g2c K0 K2s K2c K4s K4c = Ok (rc, sel, raw) ->
  forall c, In c raw -> c_kind c = QuadSmallA ->
  Rabs (g20 + g2s * c_sin2 c + g2c * c_cos2 c) < / 10 ^ 13 /\
  (c_cos c * g1c <> 0 -> c_cos c * g1c * c_val c + g0 = 0).
Proof.
  intros until raw. intros H c Hc Hk.
  pose proof (accepted_candidates_exact _ _ _ _ _ _ _ _ _ _ _ _ _ _ _ H c Hc) as Hok.
  unfold cand_ok in Hok. rewrite Hk in Hok. exact Hok.
Qed.

(* order laws hold for the real instance, so S1-S3 apply to it *)
Lemma R_m1_not_pos : n_ltb R_num (l_0 R_num) (l_m1 R_num) = false.
Proof. simpl. unfold Rltb. destruct (Rlt_dec 0 (-1)); [lra|reflexivity]. Qed.
Lemma R_ltb_irrefl : forall a, n_ltb R_num a a = false.
Proof. intro a. simpl. unfold Rltb. destruct (Rlt_dec a a); [lra|reflexivity]. Qed.
Lemma R_ltb_trans : forall a b c,
  n_ltb R_num a b = true -> n_ltb R_num b c = true -> n_ltb R_num a c = true.
Proof.
  intros a b c H1 H2. simpl in *. apply Rltb_true in H1. apply Rltb_true in H2.
  unfold Rltb. destruct (Rlt_dec a c); [reflexivity|lra].
Qed.
Lemma R_ltb_negtrans : forall a b c,
  n_ltb R_num a b = false -> n_ltb R_num b c = false -> n_ltb R_num a c = false.
Proof.
  intros a b c H1 H2. simpl in *. apply Rltb_false in H1. apply Rltb_false in H2.
  unfold Rltb. destruct (Rlt_dec a c); [lra|reflexivity].
Qed.

(* Summary over R: the reported value is the sentinel, or it is > 0, is an
   exact solution of the equation attached to its kind, and no selected
   candidate (nor any accepted quadratic candidate) is smaller. *)
Theorem select_rc_real_summary : forall re im g0 g1c g20 g2s g2c K0 K2s K2c K4s K4c rc sel raw,
  select_rc_full R_num re im g0 g1c g20 g2s g2c K0 K2s K2c K4s K4c = Ok (rc, sel, raw) ->
  (rc = 10 ^ 100 \/
   exists c, In c sel /\ In c raw /\ c_val c = rc /\ 0 < rc /\ cand_ok g0 g1c g20 g2s g2c c) /\
  (forall c, In c sel -> rc <= c_val c) /\
  (forall c, In c raw -> c_kind c <> Linear -> rc <= c_val c).
Proof.
  intros until raw. intro H.
  destruct (rc_is_sentinel_or_candidate R_num g0 g1c g20 g2s g2c K0 K2s K2c K4s K4c
              R_m1_not_pos re im _ _ _ H) as [H1 H2].
  split; [|split].
  - destruct H1 as [H1|H1]; [left; exact H1|right].
    apply in_map_iff in H1. destruct H1 as (c & Ec & Hc).
    pose proof (selected_subset_raw R_num g0 g1c g20 g2s g2c K0 K2s K2c K4s K4c re im _ _ _ H c Hc) as Hr.
    exists c. repeat split; auto.
    + rewrite <- Ec. apply Rltb_true. exact (H2 c Hc).
    + eapply accepted_candidates_exact; eauto.
  - intros c Hc. apply Rltb_false.
    exact (rc_minimal R_num g0 g1c g20 g2s g2c K0 K2s K2c K4s K4c R_ltb_irrefl R_ltb_trans re im _ _ _ H c Hc).
  - intros c Hc Hk. apply Rltb_false.
    exact (rc_minimal_quadratic R_num g0 g1c g20 g2s g2c K0 K2s K2c K4s K4c
             R_ltb_irrefl R_ltb_trans R_ltb_negtrans re im _ _ _ H c Hc Hk).
Qed.

Print Assumptions accepted_candidates_exact.
Print Assumptions select_rc_real_summary.

Print Assumptions quadratic_candidate_exact.
Print Assumptions linear_candidate_exact.
Print Assumptions smallA_candidate_exact.

Close Scope R_scope.

(* ------------------------------------------------------------------------- *)
(** * 6. PrimFloat instance, for the correspondence check                    *)
(* ------------------------------------------------------------------------- *)

From Coq Require Import Floats.PrimFloat.

(* literals: Python float.hex() of 0, 1, 2, 0.5, 4, -1, 1e-7, 1e-8, 1e-13, 1e-5, 1e100 *)
Definition float_num : RootSelect.num :=
  mkNum float PrimFloat.add PrimFloat.sub PrimFloat.mul PrimFloat.div
        PrimFloat.opp PrimFloat.sqrt PrimFloat.abs PrimFloat.ltb PrimFloat.leb
        0x0p+0%float 0x1p+0%float 0x1p+1%float 0x1p-1%float 0x1p+2%float (-0x1p+0)%float
        0x1.ad7f29abcaf48p-24%float      (* 1e-7  *)
        0x1.5798ee2308c3ap-27%float      (* 1e-8  *)
        0x1.c25c268497682p-44%float      (* 1e-13 *)
        0x1.4f8b588e368f1p-17%float      (* 1e-5  *)
        0x1.249ad2594c37dp+332%float.    (* 1e100 *)

(* rc for one grid point; nan stands for "a Python exception was raised"
   (RuntimeError of the sanity test, or IndexError when fewer than 4 roots). *)
Definition select_rc_float (roots_re roots_im : list float)
           (g0 g1c g20 g2s g2c K0 K2s K2c K4s K4c : float) : float :=
  match select_rc float_num roots_re roots_im g0 g1c g20 g2s g2c K0 K2s K2c K4s K4c with
  | Ok rc => rc
  | Err _ => nan
  end.

(* (kind, value) of the selected / raw candidates, for inspection *)
Definition select_rc_float_trace (roots_re roots_im : list float)
           (g0 g1c g20 g2s g2c K0 K2s K2c K4s K4c : float)
  : option (float * list (kind * float) * list (kind * float)) :=
  match select_rc_full float_num roots_re roots_im g0 g1c g20 g2s g2c K0 K2s K2c K4s K4c with
  | Ok (rc, sel, raw) =>
      Some (rc, map (fun c => (c_kind c, c_val c)) sel, map (fun c => (c_kind c, c_val c)) raw)
  | Err _ => None
  end.

(* The order laws assumed by S1-S3 hold for binary64 "<" on the literals /
   in general; the two closed instances can be checked by computation.      *)
Example float_m1_not_pos : n_ltb float_num (l_0 float_num) (l_m1 float_num) = false.
Proof. vm_compute. reflexivity. Qed.

(* --- bit-for-bit agreement with pyQSC ------------------------------------
   Inputs produced by  PYTHONPATH=/repo /venv/bin/python  from
   Qsc.from_paper(name, nphi=31): g0..K4c and coefficients recomputed with the
   formulas of r_singularity.py, roots = np.polynomial.polynomial.polyroots,
   everything printed with float.hex().  The right-hand side is
   r_singularity_vs_varphi[j].hex().  (The same check was run, outside this
   file, on all grid points of 10 from_paper configurations at nphi = 31 and 15
   -- 460 points, 62 of them sentinels -- and on 921 synthetic inputs (random
   g's with the K's, coefficients and polyroots recomputed as in the source,
   plus hand-made edge cases) pushed through the verbatim loop-body source:
   all 1381 agree bit for bit.)                                              *)

(* Qsc.from_paper('r2 section 5.5', nphi=31).r_singularity_vs_varphi[0] = 0.07519863570642807 *)
Example float_r2s55_j0 :
  select_rc_float [-0x1.d48b0f3a72c88p-2; -0x1.781704c424c52p-2; 0x1.b1c99e3b639fap-2; 0x1.b1c99e3b639fap-2]%float
    [0x0.0p+0; 0x0.0p+0; -0x1.ac6c3ccbde682p-3; 0x1.ac6c3ccbde682p-3]%float
    (0x1.cfba821490accp+0)%float (-0x1.21d4914cda6c0p+3)%float (0x1.aaea08e6d7328p+0)%float (0x1.551c9fc52f122p+6)%float (-0x1.729fe7fef6ea0p+7)%float (0x1.3cda3eac5ff82p+19)%float (0x1.b5397b57a9cafp+13)%float (-0x1.df53f82f63355p+14)%float (0x1.c61e050cc2b48p+18)%float (-0x1.8de9b303af05ap+18)%float
  = (0x1.34037c1101bf2p-4)%float.
Proof. vm_compute. reflexivity. Qed.

(* Qsc.from_paper('r2 section 5.5', nphi=31).r_singularity_vs_varphi[15] = 0.03972316218796172 *)
Example float_r2s55_j15 :
  select_rc_float [-0x1.c88e563fc4915p-3; -0x1.9a66d356c529cp-3; 0x1.b42ce2fead434p-3; 0x1.b42ce2fead434p-3]%float
    [0x0.0p+0; 0x0.0p+0; -0x1.b882b835ee7f6p-4; 0x1.b882b835ee7f6p-4]%float
    (0x1.cfba821490accp+0)%float (-0x1.21d4914cda6c0p+3)%float (0x1.5c1c92be3a0edp+4)%float (0x1.906450ca33c86p+7)%float (-0x1.ccbbc02bca198p+9)%float (0x1.9043f9954ffdfp+23)%float (0x1.009a8fc916ea2p+15)%float (-0x1.2e3f530ac7503p+17)%float (0x1.47557041715fep+22)%float (-0x1.6818086ed798fp+23)%float
  = (0x1.4569824fb6446p-5)%float.
Proof. vm_compute. reflexivity. Qed.

(* Qsc.from_paper('precise QH', nphi=31).r_singularity_vs_varphi[0] = 0.9248201043112536 *)
Example float_preciseQH_j0 :
  select_rc_float [-0x1.bce7e95e13eeep-1; -0x1.1fd644baf243dp-25; 0x1.1fd651f57a54fp-25; 0x1.bce7e95e13e03p-1]%float
    [0x0.0p+0; 0x0.0p+0; 0x0.0p+0; 0x0.0p+0]%float
    (0x1.455213ee195cfp+0)%float (0x1.e812c4aaea4fap+1)%float (0x1.99ee2c8d0cd99p+0)%float (0x1.447bca8346577p-46)%float (0x1.068938faabf6dp+1)%float (-0x1.0f179b2707600p-3)%float (0x1.26dd621c5bc53p-41)%float (0x1.a286bcaa77c04p+3)%float (-0x1.13719e9ce3eb6p-41)%float (-0x1.9e4a5e3ddba38p+3)%float
  = (0x1.d982054d66792p-1)%float.
Proof. vm_compute. reflexivity. Qed.

(* Qsc.from_paper('precise QH', nphi=31).r_singularity_vs_varphi[2] = 1e+100 *)
Example float_preciseQH_j2_sentinel :
  select_rc_float [-0x1.26365d4bbc83ep+0; -0x1.26365d4bbc83ep+0; 0x1.a5c6cb26d72dap-3; 0x1.a5c6cb26d72dap-3]%float
    [-0x1.534b1bbb5e82dp-2; 0x1.534b1bbb5e82dp-2; -0x1.d008c9a4c6b9ep-2; 0x1.d008c9a4c6b9ep-2]%float
    (0x1.455213ee195d0p+0)%float (0x1.e812c4aaea4ffp+1)%float (0x1.01f824eb74cf6p+1)%float (0x1.83f2f03e9ea5cp-2)%float (0x1.a0733b56ef610p+0)%float (0x1.002dfe46b879ap+4)%float (0x1.60897eb5d65aep+3)%float (-0x1.69a0fd4377570p+3)%float (-0x1.c17417a09fd5cp+2)%float (-0x1.cabd6eea15d56p+0)%float
  = (0x1.249ad2594c37dp+332)%float.
Proof. vm_compute. reflexivity. Qed.

(* Qsc.from_paper('precise QH', nphi=31).r_singularity_vs_varphi[5] = 0.8856952030104039 *)
Example float_preciseQH_j5 :
  select_rc_float [-0x1.e7f25bf912b84p-1; -0x1.28d808780368ap-3; 0x1.1d6675b664676p-2; 0x1.1d6675b664676p-2]%float
    [0x0.0p+0; 0x0.0p+0; -0x1.67271ac102f95p-2; 0x1.67271ac102f95p-2]%float
    (0x1.455213ee195d0p+0)%float (0x1.e812c4aaea4fdp+1)%float (0x1.fc62d6b503151p+0)%float (0x1.f39983c7fee48p-2)%float (0x1.fa664fc44920dp+0)%float (0x1.b547449251a85p+3)%float (0x1.c5ff0f8659023p+3)%float (-0x1.ce1bdf84bf200p-3)%float (-0x1.90f0c256d474ap+3)%float (-0x1.132e68dcb7d7bp+3)%float
  = (0x1.c579d7764eba6p-1)%float.
Proof. vm_compute. reflexivity. Qed.

(* --- synthetic inputs, checked against the verbatim Python loop body ------ *)

(* only root 0 is real; sin2theta = 1, cos2theta = 0.  The linear method
   accepts rr = 3.5355..., the quadratic method accepts rr = 9.9978...; the
   quadratic one is preferred and the smaller linear one is dropped
   (Python also emits the "Difference between linear solution ..." warning). *)
Example float_synthetic_lost_linear : select_rc_float [(0x1.0000000000000p+0); (0x1.0000000000000p+1); (0x1.0000000000000p+1); (0x1.0000000000000p+1)]%float
    [(0x0.0p+0); (0x1.0000000000000p+0); (0x1.0000000000000p+0); (0x1.0000000000000p+0)]%float
    (0x1.9759ce5288e3fp-18)%float (0x1.0c6f7a0b5ed8dp-20)%float (0x1.5798ee2308c3ap-27)%float (0x0.0p+0)%float (0x1.ad7f29abcaf48p-24)%float (0x0.0p+0)%float (0x0.0p+0)%float (0x0.0p+0)%float (0x0.0p+0)%float (0x0.0p+0)%float
  = (0x1.3feec038e95d2p+3)%float.
Proof. vm_compute. reflexivity. Qed.

Example linear_candidate_can_be_lost :
  select_rc_float_trace [1; 2; 2; 2]%float [0; 1; 1; 1]%float
    (0x1.9759ce5288e3fp-18)%float (0x1.0c6f7a0b5ed8dp-20)%float (0x1.5798ee2308c3ap-27)%float
    0%float (0x1.ad7f29abcaf48p-24)%float 0%float 0%float 0%float 0%float 0%float
  = Some ((0x1.3feec038e95d2p+3)%float,
          [(QuadMinus, (0x1.3feec038e95d2p+3)%float)],
          [(Linear, (0x1.c48c6001f0ac1p+1)%float); (QuadMinus, (0x1.3feec038e95d2p+3)%float)]).
Proof. vm_compute. reflexivity. Qed.

(* |A| < 1e-13 branch taken and accepted (A = 0 exactly, rr = -C/B = sqrt(1/2)) *)
Example float_synthetic_smallA : select_rc_float [(0x1.0000000000000p+0); (0x1.0000000000000p+1); (0x1.0000000000000p+1); (0x1.0000000000000p+1)]%float
    [(0x0.0p+0); (0x1.0000000000000p+0); (0x1.0000000000000p+0); (0x1.0000000000000p+0)]%float
    (0x1.0000000000000p+0)%float (-0x1.0000000000000p+1)%float (0x0.0p+0)%float (0x0.0p+0)%float (0x1.0000000000000p+0)%float (0x0.0p+0)%float (0x0.0p+0)%float (0x0.0p+0)%float (0x0.0p+0)%float (0x0.0p+0)%float
  = (0x1.6a09e667f3bcdp-1)%float.
Proof. vm_compute. reflexivity. Qed.

(* |A| < 1e-13 and B = 0: rr = -1/0 = -inf (numpy warns), nothing accepted *)
Example float_synthetic_smallA_B0 : select_rc_float [(0x0.0p+0); (0x1.0000000000000p+1); (0x1.0000000000000p+1); (0x1.0000000000000p+1)]%float
    [(0x0.0p+0); (0x1.0000000000000p+0); (0x1.0000000000000p+0); (0x1.0000000000000p+0)]%float
    (0x1.0000000000000p+0)%float (0x0.0p+0)%float (0x0.0p+0)%float (0x0.0p+0)%float (0x0.0p+0)%float (0x0.0p+0)%float (0x0.0p+0)%float (0x0.0p+0)%float (0x0.0p+0)%float (0x0.0p+0)%float
  = (0x1.249ad2594c37dp+332)%float.
Proof. vm_compute. reflexivity. Qed.

(* a NaN root is NOT skipped by the two filters (NaN > 1 is False) and does
   not trip the sanity test (NaN > 1e-13 is False); it is never accepted     *)
Example float_synthetic_nanroot : select_rc_float [nan; (0x1.0000000000000p-1); (0x1.0000000000000p+1); (0x1.0000000000000p+1)]%float
    [(0x0.0p+0); (0x0.0p+0); (0x1.0000000000000p+0); (0x1.0000000000000p+0)]%float
    (0x1.0000000000000p+0)%float (-0x1.0000000000000p+1)%float (0x1.3333333333333p-2)%float (0x1.999999999999ap-3)%float (0x1.999999999999ap-4)%float (0x1.999999999999ap-4)%float (0x1.999999999999ap-3)%float (0x1.3333333333333p-2)%float (0x1.999999999999ap-2)%float (0x1.0000000000000p-1)%float
  = (0x1.249ad2594c37dp+332)%float.
Proof. vm_compute. reflexivity. Qed.

(* fewer than four roots (leading coefficient exactly 0): Python raises
   IndexError at imag_parts[3]; the model returns Err IndexError, i.e. nan   *)
Example float_synthetic_short : select_rc_float [(0x1.0000000000000p-1); (0x1.999999999999ap-3); (0x1.999999999999ap-4)]%float
    [(0x0.0p+0); (0x0.0p+0); (0x0.0p+0)]%float
    (0x1.0000000000000p+0)%float (-0x1.0000000000000p+1)%float (0x1.3333333333333p-2)%float (0x1.999999999999ap-3)%float (0x1.999999999999ap-4)%float (0x1.999999999999ap-4)%float (0x1.999999999999ap-3)%float (0x1.3333333333333p-2)%float (0x1.999999999999ap-2)%float (0x1.0000000000000p-1)%float
  = nan%float.
Proof. vm_compute. reflexivity. Qed.

(* all-zero data *)
Example float_synthetic_zeros : select_rc_float [(0x0.0p+0); (0x0.0p+0); (0x0.0p+0); (0x0.0p+0)]%float
    [(0x0.0p+0); (0x0.0p+0); (0x0.0p+0); (0x0.0p+0)]%float
    (0x0.0p+0)%float (0x0.0p+0)%float (0x0.0p+0)%float (0x0.0p+0)%float (0x0.0p+0)%float (0x0.0p+0)%float (0x0.0p+0)%float (0x0.0p+0)%float (0x0.0p+0)%float (0x0.0p+0)%float
  = (0x1.249ad2594c37dp+332)%float.
Proof. vm_compute. reflexivity. Qed.

(* |imag| = 1e-7 exactly is kept (strict >), |sin2theta| = 1 exactly is kept *)
Example float_synthetic_pm1 : select_rc_float [(0x1.0000000000000p+0); (-0x1.0000000000000p+0); (0x0.0p+0); (-0x0.0p+0)]%float
    [(0x1.ad7f29abcaf48p-24); (-0x1.ad7f29abcaf48p-24); (0x1.5798ee2308c3ap-27); (0x0.0p+0)]%float
    (0x1.0000000000000p+0)%float (-0x1.8000000000000p+1)%float (0x1.0000000000000p-1)%float (0x1.0000000000000p-2)%float (-0x1.8000000000000p-1)%float (0x1.3333333333333p-2)%float (0x1.999999999999ap-4)%float (-0x1.999999999999ap-3)%float (0x1.999999999999ap-2)%float (0x1.0000000000000p-1)%float
  = (0x1.249ad2594c37dp+332)%float.
Proof. vm_compute. reflexivity. Qed.
