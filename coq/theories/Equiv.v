(* A generic "character" type system for the formula language.
   A transformation of the inputs (unit scaling, a sign symmetry, a cyclic
   shift or reversal of the toroidal grid) acts on a value of type t by
        v'(j) = chi t * v (pi j).
   [infer] computes the type of every expression / program output from the
   types of the inputs and [infer_sound] proves, once and for all expressions,
   grid sizes and environments, that the computed type is the actual
   transformation law.  Instances: Dim (C08), Sign (C07), Shift (C05). *)
From Coq Require Import Reals String List ZArith QArith Qreals Lra Lia Permutation Bool.
From QSC Require Import Expr.
Import ListNotations.
Open Scope R_scope.

Record tysys : Type := {
  ty : Type;
  chi : ty -> R;
  t_eqb : ty -> ty -> bool;
  t_one : ty;
  t_mul : ty -> ty -> ty;
  t_inv : ty -> ty;
  t_sqrt : ty -> option ty;
  t_root4 : ty -> option ty;
  t_abs : ty -> option ty;
  t_sin : ty -> option ty;
  t_cos : ty -> option ty;
  t_exp : ty -> option ty;
  t_ext : ty -> option ty;
  t_dphi : ty -> option ty;
  t_sum : ty -> option ty;
  t_at : nat -> ty -> option ty;
  t_pin : ty -> option ty;
  t_fmin : ty -> option ty
}.

Lemma gmax_zero n : gmax n (fun _ => 0) = 0.
Proof.
  unfold gmax, grid. destruct n as [|m]; [reflexivity|].
  apply lmax_unique; [simpl; left; reflexivity|].
  intros y Hy. apply in_map_iff in Hy. destruct Hy as [? [<- _]]. lra.
Qed.
Lemma gmin_zero n : gmin n (fun _ => 0) = 0.
Proof.
  unfold gmin. rewrite lmin_neg, map_map. unfold grid. destruct n as [|m]; [simpl; lra|].
  rewrite (lmax_unique _ 0); [lra|simpl; left; lra|].
  intros y Hy. apply in_map_iff in Hy. destruct Hy as [? [<- _]]. lra.
Qed.

Section Generic.
  (* original problem: grid size n, matrix Dm, oracle fmin; transformed problem: n', Dm', fmin'.
     For unit scalings, sign symmetries, shifts and reversals the two coincide; for the
     field-period re-declaration (C06) the transformed grid is k times longer. *)
  Variable n : nat.
  Variable Dm : nat -> nat -> R.
  Variable fmin : (nat -> R) -> R.
  Variable n' : nat.
  Variable Dm' : nat -> nat -> R.
  Variable fmin' : (nat -> R) -> R.
  Variable T : tysys.
  Variable pi : nat -> nat.      (* maps a grid index of the transformed problem to one of the original *)
  Variable sigma : R.            (* a grid sum over the transformed grid = sigma * the sum over the original grid *)

  Record tysys_ok : Prop := {
    ok_range : forall j, (j < n')%nat -> (pi j < n)%nat;
    ok_sumlaw : forall f, gsum n' (fun j => f (pi j)) = sigma * gsum n f;
    ok_maxlaw : forall f, gmax n' (fun j => f (pi j)) = gmax n f;
    ok_minlaw : forall f, gmin n' (fun j => f (pi j)) = gmin n f;
    ok_eqb : forall a b, t_eqb T a b = true -> chi T a = chi T b;
    ok_one : chi T (t_one T) = 1;
    ok_mul : forall a b, chi T (t_mul T a b) = chi T a * chi T b;
    ok_inv : forall a, chi T (t_inv T a) = / chi T a;
    ok_sqrt : forall a b, t_sqrt T a = Some b -> forall x, sqrt (chi T a * x) = chi T b * sqrt x;
    ok_root4 : forall a b, t_root4 T a = Some b -> forall x, sqrt (sqrt (chi T a * x)) = chi T b * sqrt (sqrt x);
    ok_abs : forall a b, t_abs T a = Some b -> forall x, Rabs (chi T a * x) = chi T b * Rabs x;
    ok_sin : forall a b, t_sin T a = Some b -> forall x, sin (chi T a * x) = chi T b * sin x;
    ok_cos : forall a b, t_cos T a = Some b -> forall x, cos (chi T a * x) = chi T b * cos x;
    ok_exp : forall a b, t_exp T a = Some b -> forall x, exp (chi T a * x) = chi T b * exp x;
    ok_ext : forall a b, t_ext T a = Some b -> chi T b = chi T a /\ 0 < chi T a;
    ok_dphi : forall a b, t_dphi T a = Some b ->
              forall (v : nat -> R) j, (j < n')%nat ->
                gsum n' (fun k => Dm' j k * (chi T a * v (pi k))) = chi T b * gsum n (fun k => Dm (pi j) k * v k);
    ok_sum : forall a b, t_sum T a = Some b -> chi T b = chi T a * sigma;
    ok_at : forall i a b, t_at T i a = Some b -> (i < n')%nat /\ pi i = i /\ chi T b = chi T a;
    ok_pin : forall a b, t_pin T a = Some b ->
             chi T b = chi T a /\ (forall j, (j < n')%nat -> Nat.eqb (pi j) 0 = Nat.eqb j 0);
    ok_fmin : forall a b, t_fmin T a = Some b -> forall v v',
              (forall j, (j < n')%nat -> v' j = chi T a * v (pi j)) -> fmin' v' = chi T b * fmin v;
    ok_fmin0 : (forall v, (forall j, v j = 0) -> fmin v = 0) /\ (forall v, (forall j, v j = 0) -> fmin' v = 0);
    ok_zero_grid : (n = 0)%nat <-> (n' = 0)%nat
  }.

  Definition tyz := option (ty T).          (* None = identically zero *)
  Definition tenv := string -> option tyz.  (* None = no law known *)

  Fixpoint tpow (a : ty T) (k : nat) : ty T :=
    match k with O => t_one T | S k' => t_mul T a (tpow a k') end.

  Definition lift1 (f : ty T -> option (ty T)) (z : option tyz) (r : option tyz) : option tyz :=
    match r with
    | None => None
    | Some None => z
    | Some (Some a) => match f a with Some b => Some (Some b) | None => None end
    end.

  Fixpoint infer (G : tenv) (e : expr) : option tyz :=
    match e with
    | Cst q => Some (if Qeq_bool q 0 then None else Some (t_one T))
    | CPi => Some (Some (t_one T))
    | CMu0 => Some (Some (t_one T))
    | Var x => G x
    | Neg a => infer G a
    | Add a b | Sub a b =>
        match infer G a, infer G b with
        | Some None, Some tb => Some tb
        | Some ta, Some None => Some ta
        | Some (Some ta), Some (Some tb) => if t_eqb T ta tb then Some (Some ta) else None
        | _, _ => None
        end
    | Mul a b =>
        match infer G a, infer G b with
        | Some None, Some _ => Some None
        | Some _, Some None => Some None
        | Some (Some ta), Some (Some tb) => Some (Some (t_mul T ta tb))
        | _, _ => None
        end
    | Div a b =>
        match infer G a, infer G b with
        | Some None, Some (Some _) => Some None
        | Some (Some ta), Some (Some tb) => Some (Some (t_mul T ta (t_inv T tb)))
        | _, _ => None
        end
    | Pow a k =>
        match infer G a with
        | Some None => Some (match k with O => Some (t_one T) | S _ => None end)
        | Some (Some ta) => Some (Some (tpow ta k))
        | None => None
        end
    | Sqrt a => lift1 (t_sqrt T) (Some None) (infer G a)
    | Root4 a => lift1 (t_root4 T) (Some None) (infer G a)
    | Abs a => lift1 (t_abs T) (Some None) (infer G a)
    | Sin a => lift1 (t_sin T) (Some None) (infer G a)
    | Cos a => lift1 (t_cos T) (Some (Some (t_one T))) (infer G a)
    | Exp a => lift1 (t_exp T) (Some (Some (t_one T))) (infer G a)
    | Dphi a => lift1 (t_dphi T) (Some None) (infer G a)
    | Sum a => lift1 (t_sum T) (Some None) (infer G a)
    | MaxG a => lift1 (t_ext T) (Some None) (infer G a)
    | MinG a => lift1 (t_ext T) (Some None) (infer G a)
    | At a i => lift1 (t_at T i) (Some None) (infer G a)
    | Pin0 a b =>
        match infer G a, infer G b with
        | Some None, Some None => Some None
        | Some (Some ta), Some None => lift1 (t_pin T) None (Some (Some ta))
        | Some None, Some (Some tb) => lift1 (t_pin T) None (Some (Some tb))
        | Some (Some ta), Some (Some tb) =>
            if t_eqb T ta tb then lift1 (t_pin T) None (Some (Some ta)) else None
        | _, _ => None
        end
    | FMin a => lift1 (t_fmin T) (Some None) (infer G a)
    end.

  (* the law a pair of values (v for the original input, v' for the transformed
     input) obeys when it has type t *)
  Definition vrel (t : tyz) (v v' : nat -> R) : Prop :=
    match t with
    | None => (forall j, v j = 0) /\ (forall j, v' j = 0)
    | Some a => forall j, (j < n')%nat -> v' j = chi T a * v (pi j)
    end.

  Definition env_rel (G : tenv) (rho rho' : env) : Prop :=
    forall x t, G x = Some t -> vrel t (rho x) (rho' x).

  Hypothesis OK : tysys_ok.

  Lemma chi_tpow a k : chi T (tpow a k) = chi T a ^ k.
  Proof. induction k as [|k IH]; simpl; [apply (ok_one OK)|rewrite (ok_mul OK), IH; reflexivity]. Qed.

  Lemma pi_lt j : (j < n')%nat -> (pi j < n)%nat.
  Proof. apply (ok_range OK). Qed.

  Ltac inv_lift H :=
    unfold lift1 in H;
    match type of H with
    | context [infer ?G ?a] => destruct (infer G a) as [[ta|]|] eqn:Ea; try discriminate
    end.

  Theorem infer_sound G rho rho' : env_rel G rho rho' ->
    forall e t, infer G e = Some t -> vrel t (eval n Dm fmin rho e) (eval n' Dm' fmin' rho' e).
  Proof.
    intros HG e. induction e as
      [q| | |x|a IHa|a IHa b IHb|a IHa b IHb|a IHa b IHb|a IHa b IHb|a IHa k
      |a IHa|a IHa|a IHa|a IHa|a IHa|a IHa|a IHa|a IHa|a IHa|a IHa|a IHa i|a IHa b IHb|a IHa];
      intros t Ht; simpl in Ht.
    - (* Cst *) injection Ht as <-. destruct (Qeq_bool q 0) eqn:Eq; simpl.
      + apply Qeq_bool_iff in Eq. apply Qeq_eqR in Eq. rewrite RMicromega.Q2R_0 in Eq.
        split; intros _; exact Eq.
      + intros j _. rewrite (ok_one OK). lra.
    - injection Ht as <-. simpl. intros j _. rewrite (ok_one OK). lra.
    - injection Ht as <-. simpl. intros j _. rewrite (ok_one OK). lra.
    - (* Var *) apply HG. exact Ht.
    - (* Neg *) specialize (IHa t Ht). destruct t as [ta|]; simpl in *.
      + intros j Hj. rewrite IHa by exact Hj. lra.
      + destruct IHa as [H1 H2]. split; intros j; [rewrite H1|rewrite H2]; lra.
    - (* Add *)
      destruct (infer G a) as [[ta|]|] eqn:Ea; destruct (infer G b) as [[tb|]|] eqn:Eb; try discriminate.
      + destruct (t_eqb T ta tb) eqn:Eab; [|discriminate]. injection Ht as <-.
        specialize (IHa _ eq_refl). specialize (IHb _ eq_refl). simpl in *.
        intros j Hj. rewrite IHa, IHb by exact Hj. rewrite <- (ok_eqb OK _ _ Eab). lra.
      + injection Ht as <-. specialize (IHa _ eq_refl). specialize (IHb _ eq_refl). simpl in *.
        destruct IHb as [H1 H2]. intros j Hj. rewrite IHa, H1, H2 by exact Hj. lra.
      + injection Ht as <-. specialize (IHa _ eq_refl). specialize (IHb _ eq_refl). simpl in *.
        destruct IHa as [H1 H2]. intros j Hj. rewrite IHb, H1, H2 by exact Hj. lra.
      + injection Ht as <-. specialize (IHa _ eq_refl). specialize (IHb _ eq_refl). simpl in *.
        destruct IHa as [H1 H2]. destruct IHb as [H3 H4].
        split; intros j; [rewrite H1, H3|rewrite H2, H4]; lra.
    - (* Sub *)
      destruct (infer G a) as [[ta|]|] eqn:Ea; destruct (infer G b) as [[tb|]|] eqn:Eb; try discriminate.
      + destruct (t_eqb T ta tb) eqn:Eab; [|discriminate]. injection Ht as <-.
        specialize (IHa _ eq_refl). specialize (IHb _ eq_refl). simpl in *.
        intros j Hj. rewrite IHa, IHb by exact Hj. rewrite <- (ok_eqb OK _ _ Eab). lra.
      + injection Ht as <-. specialize (IHa _ eq_refl). specialize (IHb _ eq_refl). simpl in *.
        destruct IHb as [H1 H2]. intros j Hj. rewrite IHa, H1, H2 by exact Hj. lra.
      + injection Ht as <-. specialize (IHa _ eq_refl). specialize (IHb _ eq_refl). simpl in *.
        destruct IHa as [H1 H2]. intros j Hj. rewrite IHb, H1, H2 by exact Hj. lra.
      + injection Ht as <-. specialize (IHa _ eq_refl). specialize (IHb _ eq_refl). simpl in *.
        destruct IHa as [H1 H2]. destruct IHb as [H3 H4].
        split; intros j; [rewrite H1, H3|rewrite H2, H4]; lra.
    - (* Mul *)
      destruct (infer G a) as [[ta|]|] eqn:Ea; destruct (infer G b) as [[tb|]|] eqn:Eb; try discriminate;
        injection Ht as <-; specialize (IHa _ eq_refl); specialize (IHb _ eq_refl); simpl in *.
      + intros j Hj. rewrite IHa, IHb by exact Hj. rewrite (ok_mul OK). ring.
      + destruct IHb as [H1 H2]. split; intros j; [rewrite H1|rewrite H2]; ring.
      + destruct IHa as [H1 H2]. split; intros j; [rewrite H1|rewrite H2]; ring.
      + destruct IHa as [H1 H2]. split; intros j; [rewrite H1|rewrite H2]; ring.
    - (* Div *)
      destruct (infer G a) as [[ta|]|] eqn:Ea; destruct (infer G b) as [[tb|]|] eqn:Eb; try discriminate;
        injection Ht as <-; specialize (IHa _ eq_refl); specialize (IHb _ eq_refl); simpl in *.
      + intros j Hj. rewrite IHa, IHb by exact Hj. rewrite (ok_mul OK), (ok_inv OK).
        unfold Rdiv. rewrite Rinv_mult. ring.
      + destruct IHa as [H1 H2]. split; intros j; [rewrite H1|rewrite H2]; unfold Rdiv; ring.
    - (* Pow *)
      destruct (infer G a) as [[ta|]|] eqn:Ea; try discriminate;
        injection Ht as <-; specialize (IHa _ eq_refl); simpl in *.
      + intros j Hj. rewrite IHa by exact Hj. rewrite chi_tpow, Rpow_mult_distr. reflexivity.
      + destruct IHa as [H1 H2]. destruct k as [|k]; simpl.
        * intros j _. rewrite (ok_one OK). lra.
        * split; intros j; [rewrite H1|rewrite H2]; ring.
    - (* Sqrt *) inv_lift Ht.
      + destruct (t_sqrt T ta) as [tb|] eqn:Eb; [|discriminate]. injection Ht as <-.
        specialize (IHa _ eq_refl). simpl in *. intros j Hj. rewrite IHa by exact Hj.
        apply (ok_sqrt OK _ _ Eb).
      + injection Ht as <-. specialize (IHa _ eq_refl). simpl in *. destruct IHa as [H1 H2].
        split; intros j; [rewrite H1|rewrite H2]; apply sqrt_0.
    - (* Root4 *) inv_lift Ht.
      + destruct (t_root4 T ta) as [tb|] eqn:Eb; [|discriminate]. injection Ht as <-.
        specialize (IHa _ eq_refl). simpl in *. intros j Hj. rewrite IHa by exact Hj.
        apply (ok_root4 OK _ _ Eb).
      + injection Ht as <-. specialize (IHa _ eq_refl). simpl in *. destruct IHa as [H1 H2].
        split; intros j; [rewrite H1|rewrite H2]; rewrite sqrt_0; apply sqrt_0.
    - (* Abs *) inv_lift Ht.
      + destruct (t_abs T ta) as [tb|] eqn:Eb; [|discriminate]. injection Ht as <-.
        specialize (IHa _ eq_refl). simpl in *. intros j Hj. rewrite IHa by exact Hj.
        apply (ok_abs OK _ _ Eb).
      + injection Ht as <-. specialize (IHa _ eq_refl). simpl in *. destruct IHa as [H1 H2].
        split; intros j; [rewrite H1|rewrite H2]; apply Rabs_R0.
    - (* Sin *) inv_lift Ht.
      + destruct (t_sin T ta) as [tb|] eqn:Eb; [|discriminate]. injection Ht as <-.
        specialize (IHa _ eq_refl). simpl in *. intros j Hj. rewrite IHa by exact Hj.
        apply (ok_sin OK _ _ Eb).
      + injection Ht as <-. specialize (IHa _ eq_refl). simpl in *. destruct IHa as [H1 H2].
        split; intros j; [rewrite H1|rewrite H2]; apply sin_0.
    - (* Cos *) inv_lift Ht.
      + destruct (t_cos T ta) as [tb|] eqn:Eb; [|discriminate]. injection Ht as <-.
        specialize (IHa _ eq_refl). simpl in *. intros j Hj. rewrite IHa by exact Hj.
        apply (ok_cos OK _ _ Eb).
      + injection Ht as <-. specialize (IHa _ eq_refl). simpl in *. destruct IHa as [H1 H2].
        intros j Hj. rewrite H1, H2, cos_0, (ok_one OK). lra.
    - (* Exp *) inv_lift Ht.
      + destruct (t_exp T ta) as [tb|] eqn:Eb; [|discriminate]. injection Ht as <-.
        specialize (IHa _ eq_refl). simpl in *. intros j Hj. rewrite IHa by exact Hj.
        apply (ok_exp OK _ _ Eb).
      + injection Ht as <-. specialize (IHa _ eq_refl). simpl in *. destruct IHa as [H1 H2].
        intros j Hj. rewrite H1, H2, exp_0, (ok_one OK). lra.
    - (* Dphi *) inv_lift Ht.
      + destruct (t_dphi T ta) as [tb|] eqn:Eb; [|discriminate]. injection Ht as <-.
        specialize (IHa _ eq_refl). simpl in *. intros j Hj.
        rewrite <- (ok_dphi OK _ _ Eb (eval n Dm fmin rho a) j Hj).
        apply gsum_ext. intros k Hk. rewrite IHa by exact Hk. reflexivity.
      + injection Ht as <-. specialize (IHa _ eq_refl). simpl in *. destruct IHa as [H1 H2].
        split; intros j; apply gsum_zero; intros k _; [rewrite H1|rewrite H2]; ring.
    - (* Sum *) inv_lift Ht.
      + destruct (t_sum T ta) as [tb|] eqn:Eb; [|discriminate]. injection Ht as <-.
        specialize (IHa _ eq_refl). simpl in *. intros j Hj.
        rewrite (ok_sum OK _ _ Eb). rewrite Rmult_assoc. rewrite <- (ok_sumlaw OK (fun k => eval n Dm fmin rho a k)).
        rewrite <- gsum_scal. apply gsum_ext. intros k Hk. apply IHa; exact Hk.
      + injection Ht as <-. specialize (IHa _ eq_refl). simpl in *. destruct IHa as [H1 H2].
        split; intros j; apply gsum_zero; intros k _; [rewrite H1|rewrite H2]; ring.
    - (* MaxG *) inv_lift Ht.
      + destruct (t_ext T ta) as [tb|] eqn:Eb; [|discriminate]. injection Ht as <-.
        specialize (IHa _ eq_refl). simpl in *. intros j Hj.
        destruct (ok_ext OK _ _ Eb) as [Hc Hp]. rewrite Hc.
        rewrite <- (ok_maxlaw OK (fun k => eval n Dm fmin rho a k)).
        rewrite <- gmax_scal by exact Hp. apply gmax_ext. intros k Hk. apply IHa; exact Hk.
      + injection Ht as <-. specialize (IHa _ eq_refl). simpl in *. destruct IHa as [H1 H2].
        split; intros j.
        * rewrite (gmax_ext n _ (fun _ => 0)) by (intros; apply H1). apply gmax_zero.
        * rewrite (gmax_ext n' _ (fun _ => 0)) by (intros; apply H2). apply gmax_zero.
    - (* MinG *) inv_lift Ht.
      + destruct (t_ext T ta) as [tb|] eqn:Eb; [|discriminate]. injection Ht as <-.
        specialize (IHa _ eq_refl). simpl in *. intros j Hj.
        destruct (ok_ext OK _ _ Eb) as [Hc Hp]. rewrite Hc.
        rewrite <- (ok_minlaw OK (fun k => eval n Dm fmin rho a k)).
        rewrite <- gmin_scal by exact Hp. apply gmin_ext. intros k Hk. apply IHa; exact Hk.
      + injection Ht as <-. specialize (IHa _ eq_refl). simpl in *. destruct IHa as [H1 H2].
        split; intros j.
        * rewrite (gmin_ext n _ (fun _ => 0)) by (intros; apply H1). apply gmin_zero.
        * rewrite (gmin_ext n' _ (fun _ => 0)) by (intros; apply H2). apply gmin_zero.
    - (* At *) inv_lift Ht.
      + destruct (t_at T i ta) as [tb|] eqn:Eb; [|discriminate]. injection Ht as <-.
        specialize (IHa _ eq_refl). simpl in *. intros j Hj.
        destruct (ok_at OK _ _ _ Eb) as [Hi [Hpi Hc]]. rewrite Hc.
        rewrite IHa by exact Hi. rewrite Hpi. reflexivity.
      + injection Ht as <-. specialize (IHa _ eq_refl). simpl in *. destruct IHa as [H1 H2].
        split; intros j; [apply H1|apply H2].
    - (* Pin0 *)
      destruct (infer G a) as [[ta|]|] eqn:Ea; destruct (infer G b) as [[tb|]|] eqn:Eb; try discriminate.
      + destruct (t_eqb T ta tb) eqn:Eab; [|discriminate]. unfold lift1 in Ht.
        destruct (t_pin T ta) as [tc|] eqn:Ec; [|discriminate]. injection Ht as <-.
        specialize (IHa _ eq_refl). specialize (IHb _ eq_refl). simpl in *.
        destruct (ok_pin OK _ _ Ec) as [Hc Hz]. intros j Hj. rewrite (Hz j Hj), Hc.
        destruct (Nat.eqb j 0); [rewrite IHb by exact Hj; rewrite (ok_eqb OK _ _ Eab); reflexivity|apply IHa; exact Hj].
      + unfold lift1 in Ht. destruct (t_pin T ta) as [tc|] eqn:Ec; [|discriminate]. injection Ht as <-.
        specialize (IHa _ eq_refl). specialize (IHb _ eq_refl). simpl in *.
        destruct (ok_pin OK _ _ Ec) as [Hc Hz]. destruct IHb as [H1 H2]. intros j Hj. rewrite (Hz j Hj), Hc.
        destruct (Nat.eqb j 0); [rewrite H1, H2; ring|apply IHa; exact Hj].
      + unfold lift1 in Ht. destruct (t_pin T tb) as [tc|] eqn:Ec; [|discriminate]. injection Ht as <-.
        specialize (IHa _ eq_refl). specialize (IHb _ eq_refl). simpl in *.
        destruct (ok_pin OK _ _ Ec) as [Hc Hz]. destruct IHa as [H1 H2]. intros j Hj. rewrite (Hz j Hj), Hc.
        destruct (Nat.eqb j 0); [apply IHb; exact Hj|rewrite H1, H2; ring].
      + injection Ht as <-. specialize (IHa _ eq_refl). specialize (IHb _ eq_refl). simpl in *.
        destruct IHa as [H1 H2]. destruct IHb as [H3 H4].
        split; intros j; destruct (Nat.eqb j 0); auto.
    - (* FMin *) inv_lift Ht.
      + destruct (t_fmin T ta) as [tb|] eqn:Eb; [|discriminate]. injection Ht as <-.
        specialize (IHa _ eq_refl). simpl in *. intros j Hj.
        apply (ok_fmin OK _ _ Eb). exact IHa.
      + injection Ht as <-. specialize (IHa _ eq_refl). simpl in *. destruct IHa as [H1 H2].
        split; intros j; [apply (proj1 (ok_fmin0 OK))|apply (proj2 (ok_fmin0 OK))]; assumption.
  Qed.

  (* ---------- programs ---------- *)
  Definition updG (G : tenv) (x : string) (t : option tyz) : tenv :=
    fun y => if String.eqb y x then t else G y.

  Fixpoint infer_prog (G : tenv) (p : prog) : tenv :=
    match p with
    | [] => G
    | (x, e) :: p' => infer_prog (updG G x (infer G e)) p'
    end.

  Theorem infer_prog_sound p : forall G rho rho', env_rel G rho rho' ->
    env_rel (infer_prog G p) (run n Dm fmin p rho) (run n' Dm' fmin' p rho').
  Proof.
    induction p as [|[x e] p IH]; intros G rho rho' HG; simpl; [exact HG|].
    apply IH. intros y t. unfold updG, upd. destruct (String.eqb y x).
    - intros Ht. apply (infer_sound G rho rho' HG e t Ht).
    - apply HG.
  Qed.

  (* does output x have (a type equal to) the expected type t ? *)
  Definition has_ty (G : tenv) (x : string) (t : ty T) : bool :=
    match G x with
    | Some None => true
    | Some (Some t') => t_eqb T t' t
    | None => false
    end.

  Definition check_outputs (G : tenv) (outs : list (string * ty T)) : bool :=
    forallb (fun xt => has_ty G (fst xt) (snd xt)) outs.

  Definition failing_outputs (G : tenv) (outs : list (string * ty T)) : list string :=
    map fst (filter (fun xt => negb (has_ty G (fst xt) (snd xt))) outs).

  Theorem check_outputs_sound G p outs rho rho' :
    env_rel G rho rho' ->
    check_outputs (infer_prog G p) outs = true ->
    forall x t, In (x, t) outs ->
    forall j, (j < n')%nat -> run n' Dm' fmin' p rho' x j = chi T t * run n Dm fmin p rho x (pi j).
  Proof.
    intros HG Hc x t Hin j Hj. unfold check_outputs in Hc. rewrite forallb_forall in Hc.
    specialize (Hc _ Hin). simpl in Hc. unfold has_ty in Hc.
    pose proof (infer_prog_sound p G rho rho' HG) as HR.
    destruct (infer_prog G p x) as [[t'|]|] eqn:E; try discriminate.
    - specialize (HR x _ E). simpl in HR. rewrite HR by exact Hj.
      rewrite (ok_eqb OK _ _ Hc). reflexivity.
    - specialize (HR x _ E). simpl in HR. destruct HR as [H1 H2]. rewrite H1, H2. ring.
  Qed.

  Definition is_typed (G : tenv) (x : string) : bool :=
    match G x with Some _ => true | None => false end.

  Definition check_typed (G : tenv) (xs : list string) : bool := forallb (is_typed G) xs.

  Definition untyped_names (G : tenv) (xs : list string) : list string :=
    filter (fun x => negb (is_typed G x)) xs.

  (* an equation (residual) that has SOME type is preserved: a solution of the
     original problem is mapped to a solution of the transformed problem *)
  Theorem check_typed_sound G p eqs rho rho' :
    env_rel G rho rho' ->
    check_typed (infer_prog G p) eqs = true ->
    forall x, In x eqs ->
    (forall j, (j < n)%nat -> run n Dm fmin p rho x j = 0) ->
    forall j, (j < n')%nat -> run n' Dm' fmin' p rho' x j = 0.
  Proof.
    intros HG Hc x Hin H0 j Hj. unfold check_typed in Hc. rewrite forallb_forall in Hc.
    specialize (Hc _ Hin). unfold is_typed in Hc.
    pose proof (infer_prog_sound p G rho rho' HG) as HR.
    destruct (infer_prog G p x) as [[t'|]|] eqn:E; try discriminate.
    - specialize (HR x _ E). simpl in HR. rewrite HR by exact Hj.
      rewrite H0 by (apply pi_lt; exact Hj). ring.
    - specialize (HR x _ E). simpl in HR. destruct HR as [H1 H2]. apply H2.
  Qed.
End Generic.

(* ---- the common case: same grid, pi a permutation of it ---- *)
Section SameGrid.
  Variable n : nat.
  Variable Dm : nat -> nat -> R.
  Variable pi : nat -> nat.
  Hypothesis HP : grid_perm n pi.
  Lemma perm_range : forall j, (j < n)%nat -> (pi j < n)%nat.
  Proof. apply pi_in_grid. exact HP. Qed.
  Lemma perm_sumlaw : forall f, gsum n (fun j => f (pi j)) = 1 * gsum n f.
  Proof. intros f. rewrite (gsum_reindex n pi f HP). ring. Qed.
  Lemma perm_maxlaw : forall f, gmax n (fun j => f (pi j)) = gmax n f.
  Proof. intros f. apply gmax_reindex. exact HP. Qed.
  Lemma perm_minlaw : forall f, gmin n (fun j => f (pi j)) = gmin n f.
  Proof. intros f. apply gmin_reindex. exact HP. Qed.
  Lemma perm_dphi (ca cb : R) :
    (forall j k, (j < n)%nat -> (k < n)%nat -> Dm j k * ca = cb * Dm (pi j) (pi k)) ->
    forall (v : nat -> R) j, (j < n)%nat ->
      gsum n (fun k => Dm j k * (ca * v (pi k))) = cb * gsum n (fun k => Dm (pi j) k * v k).
  Proof.
    intros H v j Hj.
    rewrite <- (gsum_reindex n pi (fun k => Dm (pi j) k * v k) HP).
    rewrite <- gsum_scal. apply gsum_ext. intros k Hk.
    rewrite <- Rmult_assoc, (H j k Hj Hk). ring.
  Qed.
End SameGrid.

(* building type environments from association lists *)
Fixpoint assoc_env {A} (l : list (string * A)) : string -> option A :=
  match l with
  | [] => fun _ => None
  | (x, a) :: l' => fun y => if String.eqb y x then Some a else assoc_env l' y
  end.
