(* Formal double expansions used by the Boozer-coordinate specification (props/C01_spec.v):

     trigonometric polynomials in one angle  (type [tp]:  harmonic m |-> (cos coefficient, sin coefficient)),
     power series in r whose coefficients are trigonometric polynomials (type [ser] = nat -> tp),
     3-vectors of such series with dot and cross product.

   Coefficients are reals with a syntactic zero ([cf]): structurally absent terms never create
   "0 * x" clutter, so that the coefficient of r^k cos(m theta) of a product is obtained by plain
   computation ([cbv]) as a small explicit real expression in the atoms.

   Soundness proved here (no axiom beyond the real numbers):
     [teval_tadd], [teval_tscal], [teval_tneg], [teval_tsub];
     [teval_tmul]  : teval (tmul p q) th = teval p th * teval q th        (product-to-sum product);
     [teval_tdth_derive] : teval (tdth p) is the derivative of teval p with respect to the angle;
     [seval_smul]  : for polynomials in r of degrees dp, dq the value of the Cauchy product [smul] truncated at any
                     order N >= dp + dq is the product of the values;
     [tzero_eval], [tzero_tcos], [tzero_tsin] : a trigonometric polynomial all of whose coefficients vanish
                     evaluates to 0, and conversely each extracted coefficient is 0. *)
From Coq Require Import Reals List Arith Lra Lia.
Import ListNotations.
Open Scope R_scope.

(* ---------- coefficients with a syntactic zero ---------- *)
Inductive cf : Type := Z0 | Vl (x : R).
Definition cv (c : cf) : R := match c with Z0 => 0 | Vl x => x end.
Definition cadd (a b : cf) : cf :=
  match a, b with Z0, _ => b | _, Z0 => a | Vl x, Vl y => Vl (x + y) end.
Definition cneg (a : cf) : cf := match a with Z0 => Z0 | Vl x => Vl (- x) end.
Definition csub (a b : cf) : cf :=
  match a, b with _, Z0 => a | Z0, Vl y => Vl (- y) | Vl x, Vl y => Vl (x - y) end.
Definition cmul (a b : cf) : cf := match a, b with Vl x, Vl y => Vl (x * y) | _, _ => Z0 end.
Definition chalf (a : cf) : cf := match a with Z0 => Z0 | Vl x => Vl (x * / 2) end.
Fixpoint nR (n : nat) : R :=
  match n with O => 0 | S m => match m with O => 1 | _ => nR m + 1 end end.
Definition cnat (n : nat) (a : cf) : cf :=
  match n with
  | O => Z0
  | S O => a
  | _ => match a with Z0 => Z0 | Vl x => Vl (nR n * x) end
  end.

Lemma cv_cadd a b : cv (cadd a b) = cv a + cv b.
Proof. destruct a, b; simpl; ring. Qed.
Lemma cv_cneg a : cv (cneg a) = - cv a.
Proof. destruct a; simpl; ring. Qed.
Lemma cv_csub a b : cv (csub a b) = cv a - cv b.
Proof. destruct a, b; simpl; ring. Qed.
Lemma cv_cmul a b : cv (cmul a b) = cv a * cv b.
Proof. destruct a, b; simpl; ring. Qed.
Lemma cv_chalf a : cv (chalf a) = cv a / 2.
Proof. destruct a; simpl; unfold Rdiv; ring. Qed.
Lemma nR_S n : nR (S n) = nR n + 1.
Proof. destruct n; simpl; ring. Qed.
Lemma nR_INR n : nR n = INR n.
Proof. induction n; [reflexivity|]. rewrite nR_S, S_INR, IHn. reflexivity. Qed.
Lemma nR_add m n : nR (m + n) = nR m + nR n.
Proof. rewrite !nR_INR. apply plus_INR. Qed.
Lemma nR_sub m n : (n <= m)%nat -> nR (m - n) = nR m - nR n.
Proof. intros H. rewrite !nR_INR. apply minus_INR. exact H. Qed.
Lemma cv_cnat n a : cv (cnat n a) = nR n * cv a.
Proof.
  destruct n as [|[|n]]; [simpl; ring|simpl; ring|].
  unfold cnat. destruct a; cbn [cv]; ring.
Qed.

(* ---------- trigonometric polynomials ---------- *)
Definition tp := list (cf * cf).

Fixpoint tadd (p q : tp) : tp :=
  match p, q with
  | [], _ => q
  | _, [] => p
  | (a, b) :: p', (c, e) :: q' => (cadd a c, cadd b e) :: tadd p' q'
  end.
Definition tmap (f : cf -> cf) (p : tp) : tp := map (fun ab => (f (fst ab), f (snd ab))) p.
Definition tneg : tp -> tp := tmap cneg.
Definition tsub (p q : tp) : tp := tadd p (tneg q).
Definition tscal (c : cf) : tp -> tp := tmap (cmul c).
Definition mono (k : nat) (a b : cf) : tp := repeat (Z0, Z0) k ++ [(a, b)].

(* (a cos m + b sin m) * (c cos n + e sin n) by the product-to-sum formulas *)
Definition pair_prod (m : nat) (a b : cf) (n : nat) (c e : cf) : tp :=
  tadd (mono (m + n) (chalf (csub (cmul a c) (cmul b e))) (chalf (cadd (cmul b c) (cmul a e))))
       (match Nat.compare m n with
        | Eq => mono 0 (chalf (cadd (cmul a c) (cmul b e))) Z0
        | Gt => mono (m - n) (chalf (cadd (cmul a c) (cmul b e))) (chalf (csub (cmul b c) (cmul a e)))
        | Lt => mono (n - m) (chalf (cadd (cmul a c) (cmul b e))) (chalf (csub (cmul a e) (cmul b c)))
        end).
Fixpoint tmul1 (m : nat) (a b : cf) (n : nat) (q : tp) : tp :=
  match q with
  | [] => []
  | (c, e) :: q' => tadd (pair_prod m a b n c e) (tmul1 m a b (S n) q')
  end.
Fixpoint tmul_from (m : nat) (p q : tp) : tp :=
  match p with
  | [] => []
  | (a, b) :: p' => tadd (tmul1 m a b 0 q) (tmul_from (S m) p' q)
  end.
Definition tmul (p q : tp) : tp := tmul_from 0 p q.

(* d/d(angle) *)
Fixpoint tdth_from (k : nat) (p : tp) : tp :=
  match p with
  | [] => []
  | (a, b) :: p' => (cnat k b, cneg (cnat k a)) :: tdth_from (S k) p'
  end.
Definition tdth (p : tp) : tp := tdth_from 0 p.

(* coefficient extraction: cosine / sine coefficient of harmonic m; the angle average is [tcos p 0] *)
Definition tcos (p : tp) (m : nat) : R := cv (fst (nth m p (Z0, Z0))).
Definition tsin (p : tp) (m : nat) : R := cv (snd (nth m p (Z0, Z0))).
Definition tavg (p : tp) : R := tcos p 0.
(* every harmonic vanishes *)
Definition tzero (p : tp) : Prop := Forall (fun ab => cv (fst ab) = 0 /\ cv (snd ab) = 0) p.

(* evaluation *)
Fixpoint teval_from (k : nat) (p : tp) (th : R) : R :=
  match p with
  | [] => 0
  | (a, b) :: p' => cv a * cos (nR k * th) + cv b * sin (nR k * th) + teval_from (S k) p' th
  end.
Definition teval (p : tp) (th : R) : R := teval_from 0 p th.

Lemma teval_from_tadd p : forall q k th, teval_from k (tadd p q) th = teval_from k p th + teval_from k q th.
Proof.
  induction p as [|[a b] p IH]; intros [|[c e] q] k th; cbn [tadd teval_from]; try ring.
  rewrite IH, !cv_cadd. ring.
Qed.
Lemma teval_tadd p q th : teval (tadd p q) th = teval p th + teval q th.
Proof. apply teval_from_tadd. Qed.
Lemma teval_from_tmap f (c : R) (Hf : forall a, cv (f a) = c * cv a) p :
  forall k th, teval_from k (tmap f p) th = c * teval_from k p th.
Proof.
  induction p as [|[a b] p IH]; intros k th; cbn [tmap map teval_from fst snd]; [ring|].
  fold (tmap f p). rewrite IH, !Hf. ring.
Qed.
Lemma teval_tneg p th : teval (tneg p) th = - teval p th.
Proof.
  unfold teval, tneg. rewrite (teval_from_tmap cneg (-1)); [ring|]. intros a. rewrite cv_cneg. ring.
Qed.
Lemma teval_tsub p q th : teval (tsub p q) th = teval p th - teval q th.
Proof. unfold tsub. rewrite teval_tadd, teval_tneg. ring. Qed.
Lemma teval_tscal c p th : teval (tscal c p) th = cv c * teval p th.
Proof. unfold teval, tscal. apply teval_from_tmap. intros a. apply cv_cmul. Qed.

Lemma teval_from_repeat j : forall k p th, teval_from k (repeat (Z0, Z0) j ++ p) th = teval_from (j + k) p th.
Proof.
  induction j; intros k p th; cbn [repeat app teval_from cv]; [reflexivity|].
  rewrite IHj. replace (j + S k)%nat with (S j + k)%nat by lia. ring.
Qed.
Lemma teval_mono k a b th : teval (mono k a b) th = cv a * cos (nR k * th) + cv b * sin (nR k * th).
Proof.
  unfold teval, mono. rewrite teval_from_repeat. cbn [teval_from]. rewrite Nat.add_0_r. ring.
Qed.

Lemma teval_pair_prod m a b n c e th :
  teval (pair_prod m a b n c e) th
  = (cv a * cos (nR m * th) + cv b * sin (nR m * th)) * (cv c * cos (nR n * th) + cv e * sin (nR n * th)).
Proof.
  unfold pair_prod. rewrite teval_tadd, teval_mono.
  rewrite nR_add, Rmult_plus_distr_r, cos_plus, sin_plus.
  destruct (Nat.compare_spec m n) as [E|L|G].
  - subst n. rewrite teval_mono. cbn [nR cv]. rewrite Rmult_0_l, cos_0, sin_0.
    rewrite !cv_chalf, ?cv_cadd, ?cv_csub, !cv_cmul.
    pose proof (sin2_cos2 (nR m * th)) as H. unfold Rsqr in H.
    replace (cv a * cv c + cv b * cv e) with ((cv a * cv c + cv b * cv e) * (sin (nR m * th) * sin (nR m * th) + cos (nR m * th) * cos (nR m * th)))
      by (rewrite H; ring).
    field.
  - rewrite teval_mono. rewrite nR_sub by lia.
    replace ((nR n - nR m) * th) with (nR n * th - nR m * th) by ring. rewrite cos_minus, sin_minus.
    rewrite !cv_chalf, ?cv_cadd, ?cv_csub, !cv_cmul. field.
  - rewrite teval_mono. rewrite nR_sub by lia.
    replace ((nR m - nR n) * th) with (nR m * th - nR n * th) by ring. rewrite cos_minus, sin_minus.
    rewrite !cv_chalf, ?cv_cadd, ?cv_csub, !cv_cmul. field.
Qed.

Lemma teval_tmul1 m a b q : forall n th,
  teval (tmul1 m a b n q) th = (cv a * cos (nR m * th) + cv b * sin (nR m * th)) * teval_from n q th.
Proof.
  induction q as [|[c e] q IH]; intros n th; cbn [tmul1 teval_from].
  - unfold teval; cbn [teval_from]. ring.
  - rewrite teval_tadd, teval_pair_prod, IH. ring.
Qed.
Lemma teval_tmul_from p q : forall m th, teval (tmul_from m p q) th = teval_from m p th * teval q th.
Proof.
  induction p as [|[a b] p IH]; intros m th; cbn [tmul_from teval_from].
  - unfold teval; cbn [teval_from]. ring.
  - rewrite teval_tadd, teval_tmul1, IH. unfold teval. ring.
Qed.
(* soundness of the formal product of trigonometric polynomials *)
Theorem teval_tmul p q th : teval (tmul p q) th = teval p th * teval q th.
Proof. apply teval_tmul_from. Qed.

(* soundness of the formal angle derivative *)
Lemma teval_from_tdth_derive p : forall k th, derivable_pt_lim (teval_from k p) th (teval_from k (tdth_from k p) th).
Proof.
  induction p as [|[a b] p IH]; intros k th; cbn [tdth_from teval_from].
  - apply derivable_pt_lim_const.
  - rewrite cv_cneg, !cv_cnat.
    replace (nR k * cv b * cos (nR k * th) + - (nR k * cv a) * sin (nR k * th) + teval_from (S k) (tdth_from (S k) p) th)
      with ((cv a * (- sin (nR k * th) * (nR k * 1)) + cv b * (cos (nR k * th) * (nR k * 1)))
            + teval_from (S k) (tdth_from (S k) p) th) by ring.
    apply (derivable_pt_lim_plus (fun t => cv a * cos (nR k * t) + cv b * sin (nR k * t))).
    + apply (derivable_pt_lim_plus (fun t => cv a * cos (nR k * t)) (fun t => cv b * sin (nR k * t))).
      * apply derivable_pt_lim_scal.
        apply (derivable_pt_lim_comp (fun t => nR k * t) cos).
        -- apply derivable_pt_lim_scal. apply derivable_pt_lim_id.
        -- apply derivable_pt_lim_cos.
      * apply derivable_pt_lim_scal.
        apply (derivable_pt_lim_comp (fun t => nR k * t) sin).
        -- apply derivable_pt_lim_scal. apply derivable_pt_lim_id.
        -- apply derivable_pt_lim_sin.
    + apply IH.
Qed.
Theorem teval_tdth_derive p th : derivable_pt_lim (teval p) th (teval (tdth p) th).
Proof. apply teval_from_tdth_derive. Qed.

(* coefficient extraction commutes with addition (used to read coefficients of sums) *)
Lemma tzero_eval p th : tzero p -> teval p th = 0.
Proof.
  unfold teval. generalize 0%nat. induction p as [|[a b] p IH]; intros k H; cbn [teval_from]; [reflexivity|].
  inversion H as [|x l [Ha Hb] Hl]; subst. cbn [fst snd] in *. rewrite Ha, Hb, IH by exact Hl. ring.
Qed.

(* ---------- power series in r with trigonometric-polynomial coefficients ---------- *)
Definition ser := nat -> tp.
Definition sadd (p q : ser) : ser := fun k => tadd (p k) (q k).
Definition sneg (p : ser) : ser := fun k => tneg (p k).
Definition ssub (p q : ser) : ser := fun k => tsub (p k) (q k).
Definition sscal (c : cf) (p : ser) : ser := fun k => tscal c (p k).
Fixpoint ssum (n : nat) (f : nat -> tp) : tp :=
  match n with O => f O | S n' => tadd (ssum n' f) (f (S n')) end.
(* Cauchy product *)
Definition smul (p q : ser) : ser := fun k => ssum k (fun j => tmul (p j) (q (k - j)%nat)).
(* d/dr, d/d(angle), multiplication by r *)
Definition sdr (p : ser) : ser := fun k => tmap (cnat (S k)) (p (S k)).
Definition sdth (p : ser) : ser := fun k => tdth (p k).
Definition sshift (p : ser) : ser := fun k => match k with O => [] | S k' => p k' end.
Definition spoly (l : list tp) : ser := fun k => nth k l [].

(* value of the polynomial sum_{k<=N} r^k p_k(th) *)
Fixpoint seval (N : nat) (p : ser) (r th : R) : R :=
  match N with O => teval (p O) th | S N' => seval N' p r th + r ^ (S N') * teval (p (S N')) th end.

(* ---------- 3-vectors of series ---------- *)
Definition vec := (ser * ser * ser)%type.
Definition vx (u : vec) : ser := fst (fst u).
Definition vy (u : vec) : ser := snd (fst u).
Definition vz (u : vec) : ser := snd u.
Definition vdot (u v : vec) : ser := sadd (sadd (smul (vx u) (vx v)) (smul (vy u) (vy v))) (smul (vz u) (vz v)).
Definition vcross (u v : vec) : vec :=
  (ssub (smul (vy u) (vz v)) (smul (vz u) (vy v)),
   ssub (smul (vz u) (vx v)) (smul (vx u) (vz v)),
   ssub (smul (vx u) (vy v)) (smul (vy u) (vx v))).
Definition vadd (u v : vec) : vec := (sadd (vx u) (vx v), sadd (vy u) (vy v), sadd (vz u) (vz v)).
Definition vscal (c : cf) (u : vec) : vec := (sscal c (vx u), sscal c (vy u), sscal c (vz u)).

(* pointwise soundness of the series operations, coefficient by coefficient *)
Lemma teval_ssum n f th : teval (ssum n f) th = (fix go n := match n with O => teval (f O) th | S n' => go n' + teval (f (S n')) th end) n.
Proof. induction n; cbn [ssum]; [reflexivity|]. rewrite teval_tadd, IHn. reflexivity. Qed.

Lemma tzero_nth p : tzero p -> forall m, cv (fst (nth m p (Z0, Z0))) = 0 /\ cv (snd (nth m p (Z0, Z0))) = 0.
Proof.
  induction 1 as [|ab l Hab Hl IH]; intros m.
  - destruct m; simpl; split; reflexivity.
  - destruct m; cbn [nth]; [exact Hab | apply IH].
Qed.
Lemma tzero_tcos p : tzero p -> forall m, tcos p m = 0.
Proof. intros H m. apply (tzero_nth p H m). Qed.
Lemma tzero_tsin p : tzero p -> forall m, tsin p m = 0.
Proof. intros H m. apply (tzero_nth p H m). Qed.

(* ---------- soundness of the Cauchy product for polynomials in r ---------- *)
Definition sterm (p : ser) (r th : R) (k : nat) : R := r ^ k * teval (p k) th.
Lemma seval_sum N p r th : seval N p r th = sum_f_R0 (sterm p r th) N.
Proof.
  induction N; cbn [seval sum_f_R0].
  - unfold sterm. simpl. ring.
  - rewrite IHN. unfold sterm. reflexivity.
Qed.
Lemma teval_ssum_sum n f th : teval (ssum n f) th = sum_f_R0 (fun j => teval (f j) th) n.
Proof. induction n; cbn [ssum sum_f_R0]; [reflexivity|]. rewrite teval_tadd, IHn. reflexivity. Qed.
Lemma sterm_smul p q r th k :
  sterm (smul p q) r th k = sum_f_R0 (fun j => sterm p r th j * sterm q r th (k - j)) k.
Proof.
  unfold sterm, smul. rewrite teval_ssum_sum, scal_sum. apply sum_eq. intros j Hj.
  rewrite teval_tmul. replace (r ^ k) with (r ^ j * r ^ (k - j)) by (rewrite <- pow_add; f_equal; lia). ring.
Qed.
(* if p and q are polynomials in r of degrees dp and dq, the value of the formal product truncated at any
   order N >= dp + dq is the product of the values *)
Theorem seval_smul p q dp dq N r th :
  (forall k, (dp < k)%nat -> teval (p k) th = 0) -> (forall k, (dq < k)%nat -> teval (q k) th = 0) ->
  (dp + dq <= N)%nat ->
  seval N (smul p q) r th = seval N p r th * seval N q r th.
Proof.
  intros Hp Hq HN. rewrite !seval_sum.
  destruct N as [|N].
  - cbn [sum_f_R0]. rewrite sterm_smul. cbn [sum_f_R0 Nat.sub]. reflexivity.
  - rewrite (cauchy_finite (sterm p r th) (sterm q r th) (S N)) by lia.
    rewrite (sum_eq_R0 (fun k => sum_f_R0 (fun l => sterm p r th (S (l + k)) * sterm q r th (S N - l)) (pred (S N - k)))).
    + rewrite Rplus_0_r. apply sum_eq. intros k Hk. apply sterm_smul.
    + intros k Hk. apply sum_eq_R0. intros l Hl. unfold sterm.
      destruct (le_lt_dec (S (l + k)) dp) as [Hle|Hgt].
      * rewrite (Hq (S N - l)%nat) by lia. ring.
      * rewrite (Hp (S (l + k))) by lia. ring.
Qed.
