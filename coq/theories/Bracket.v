(* ------------------------------------------------------------------------- *)
(*  Bracket.v : Coq models of                                                *)
(*     (A) the control logic of  qsc/util.py : fourier_minimum               *)
(*     (B) the algebraic structure of the barycentric weights in             *)
(*         qsc/fourier_interpolation.py : fourier_interpolation              *)
(*                                                                           *)
(*  Part A is over a generic carrier N with a boolean "<" (ltb), so that it  *)
(*  can be instantiated with primitive floats (where NaN makes "<" only a    *)
(*  partial strict weak order).  Part A uses no axioms.                      *)
(*  Part B is over R (standard Reals axioms only).                           *)
(* ------------------------------------------------------------------------- *)

From Coq Require Import List Arith Lia Bool ZArith.
Import ListNotations.

(* ========================================================================= *)
(** * Part A.  Control logic of fourier_minimum                              *)
(* ========================================================================= *)

Section Generic.

Variable N : Type.
Variable ltb : N -> N -> bool.      (* Python's  a < b  *)

(* ------------------------------------------------------------------------- *)
(** ** A.0  Model                                                            *)
(* ------------------------------------------------------------------------- *)

(* np.argmin(y): left-to-right scan, the current best is replaced only when
   the new element is strictly below it, hence the FIRST minimal element is
   returned.  [best] is the current best value, [bi] its index, [k] the index
   of the head of the remaining list [l].
   (Remark: for data containing NaN numpy returns the index of the first NaN;
   this scan does not.  All theorems below assume an order that is well
   behaved on the data, which excludes NaN samples.) *)
Fixpoint argmin_scan (best : N) (bi k : nat) (l : list N) : nat * N :=
  match l with
  | [] => (bi, best)
  | x :: t => if ltb x best then argmin_scan x k (S k) t
              else argmin_scan best bi (S k) t
  end.

Definition argmin_first (y : list N) : nat :=
  match y with
  | [] => 0
  | x :: t => fst (argmin_scan x 0 1 t)
  end.

(* The test inside the loop:   f0 < fm and f0 < fp   for half-width j. *)
Definition bracket_test (func : Z -> N) (index : Z) (j : nat) : bool :=
  ltb (func index) (func (index - Z.of_nat j)%Z) &&
  ltb (func index) (func (index + Z.of_nat j)%Z).

(* for j in js: bracket = ...j...; if test: found = True; break
   [last] is the value of j of the most recent assignment to `bracket`. *)
Fixpoint bracket_loop (func : Z -> N) (index : Z) (js : list nat) (last : nat)
  : bool * nat :=
  match js with
  | [] => (false, last)
  | j :: rest => if bracket_test func index j then (true, j)
                 else bracket_loop func index rest j
  end.

(* range(1,4) = [1;2;3] *)
Definition bracket_search (func : Z -> N) (index : Z) : bool * nat :=
  bracket_loop func index [1; 2; 3] 0.

(* The bracket (in grid units; the code multiplies by dx). *)
Definition bracket_of (index : Z) (j : nat) : Z * Z * Z :=
  ((index - Z.of_nat j)%Z, index, (index + Z.of_nat j)%Z).

(* The whole function.  [is_const] is the value of the float test
   (max-min)/max(1e-14,|mean|) < 1e-14  (evaluated by the harness),
   [func k] is the interpolant at grid position k*dx,
   [brent] is scipy.optimize.minimize_scalar(func, bracket=...).fun . *)
Definition fourier_minimum_model (is_const : bool) (y : list N) (d : N)
           (func : Z -> N) (brent : Z * Z * Z -> N) : N :=
  if is_const then nth 0 y d
  else
    let index := Z.of_nat (argmin_first y) in
    let fj := bracket_search func index in
    brent (bracket_of index (snd fj)).

(* ------------------------------------------------------------------------- *)
(** ** A.1 / A.2  bracket search                                             *)
(* ------------------------------------------------------------------------- *)

Lemma bracket_search_unfold : forall func index,
  bracket_search func index =
  if bracket_test func index 1 then (true, 1)
  else if bracket_test func index 2 then (true, 2)
  else if bracket_test func index 3 then (true, 3)
  else (false, 3).
Proof. reflexivity. Qed.

Theorem bracket_valid : forall func index j,
  bracket_search func index = (true, j) ->
  1 <= j <= 3 /\
  ltb (func index) (func (index - Z.of_nat j)%Z) = true /\
  ltb (func index) (func (index + Z.of_nat j)%Z) = true /\
  (forall j', 1 <= j' < j -> bracket_test func index j' = false).
Proof.
  intros func index j H. rewrite bracket_search_unfold in H.
  destruct (bracket_test func index 1) eqn:T1;
  [| destruct (bracket_test func index 2) eqn:T2;
  [| destruct (bracket_test func index 3) eqn:T3 ]];
  inversion H; subst j.
  - unfold bracket_test in T1. apply andb_true_iff in T1. destruct T1.
    repeat split; auto; intros; lia.
  - unfold bracket_test in T2. apply andb_true_iff in T2. destruct T2.
    repeat split; auto. intros j' Hj. assert (j' = 1) by lia. subst; auto.
  - unfold bracket_test in T3. apply andb_true_iff in T3. destruct T3.
    repeat split; auto. intros j' Hj.
    assert (j' = 1 \/ j' = 2) as [E|E] by lia; subst; auto.
Qed.

Theorem bracket_notfound : forall func index j,
  bracket_search func index = (false, j) ->
  j = 3 /\
  bracket_test func index 1 = false /\
  bracket_test func index 2 = false /\
  bracket_test func index 3 = false.
Proof.
  intros func index j H. rewrite bracket_search_unfold in H.
  destruct (bracket_test func index 1) eqn:T1; [inversion H|].
  destruct (bracket_test func index 2) eqn:T2; [inversion H|].
  destruct (bracket_test func index 3) eqn:T3; [inversion H|].
  inversion H. auto.
Qed.

(* the returned j is always in 1..3, the flag is exactly "some test passed" *)
Theorem bracket_search_range : forall func index,
  1 <= snd (bracket_search func index) <= 3.
Proof.
  intros. rewrite bracket_search_unfold.
  destruct (bracket_test func index 1); [simpl; lia|].
  destruct (bracket_test func index 2); [simpl; lia|].
  destruct (bracket_test func index 3); simpl; lia.
Qed.

Theorem bracket_search_found_iff : forall func index,
  fst (bracket_search func index) =
  bracket_test func index 1 || bracket_test func index 2 || bracket_test func index 3.
Proof.
  intros. rewrite bracket_search_unfold.
  destruct (bracket_test func index 1); [reflexivity|].
  destruct (bracket_test func index 2); [reflexivity|].
  destruct (bracket_test func index 3); reflexivity.
Qed.

(* the decisions depend only on the values func (index + k), |k| <= 3 *)
Lemma bracket_test_ext : forall f1 f2 i1 i2 j,
  (forall k : Z, (-3 <= k <= 3)%Z -> f1 (i1 + k)%Z = f2 (i2 + k)%Z) ->
  j <= 3 ->
  bracket_test f1 i1 j = bracket_test f2 i2 j.
Proof.
  intros f1 f2 i1 i2 j H Hj. unfold bracket_test.
  replace (f1 i1) with (f1 (i1 + 0)%Z) by (f_equal; lia).
  replace (f2 i2) with (f2 (i2 + 0)%Z) by (f_equal; lia).
  replace (i1 - Z.of_nat j)%Z with (i1 + (- Z.of_nat j))%Z by lia.
  replace (i2 - Z.of_nat j)%Z with (i2 + (- Z.of_nat j))%Z by lia.
  rewrite !H by lia. reflexivity.
Qed.

Lemma bracket_search_ext : forall f1 f2 i1 i2,
  (forall k : Z, (-3 <= k <= 3)%Z -> f1 (i1 + k)%Z = f2 (i2 + k)%Z) ->
  bracket_search f1 i1 = bracket_search f2 i2.
Proof.
  intros. rewrite !bracket_search_unfold.
  rewrite (bracket_test_ext f1 f2 i1 i2 1), (bracket_test_ext f1 f2 i1 i2 2),
          (bracket_test_ext f1 f2 i1 i2 3) by (auto; lia).
  reflexivity.
Qed.

(* ------------------------------------------------------------------------- *)
(** ** A.3  argmin_first                                                     *)
(* ------------------------------------------------------------------------- *)

Section Argmin.

Variable d : N.                 (* default for nth *)

(* No hypothesis on the order: the scan returns a valid index and the
   associated value. *)
Lemma scan_value : forall l pre best bi k,
  k = length pre ->
  bi < length pre -> nth bi pre d = best ->
  fst (argmin_scan best bi k l) < length (pre ++ l) /\
  nth (fst (argmin_scan best bi k l)) (pre ++ l) d =
  snd (argmin_scan best bi k l).
Proof.
  induction l as [|x t IH]; intros pre best bi k Hk Hbi Hn.
  - simpl. rewrite app_nil_r. auto.
  - simpl.
    assert (EL : S k = length (pre ++ [x]))
      by (rewrite app_length; simpl; lia).
    assert (EA : pre ++ x :: t = (pre ++ [x]) ++ t)
      by (rewrite <- app_assoc; reflexivity).
    rewrite EA.
    destruct (ltb x best).
    + apply IH; auto.
      * lia.
      * subst k. rewrite app_nth2 by lia. rewrite Nat.sub_diag. reflexivity.
    + apply IH; auto.
      * lia.
      * rewrite app_nth1 by lia. assumption.
Qed.

Theorem argmin_first_lt_length : forall y, y <> [] -> argmin_first y < length y.
Proof.
  intros [|x t] H; [congruence|]. unfold argmin_first.
  pose proof (scan_value t [x] x 0 1 eq_refl (Nat.lt_0_succ 0) eq_refl) as [A _].
  exact A.
Qed.

(* The order hypotheses are relative to a predicate P ("well-behaved
   values"; for floats: the non-NaN values; or simply "the elements of y"). *)
Variable P : N -> Prop.

Definition irrefl_on := forall a, P a -> ltb a a = false.
Definition asym_on   := forall a b, P a -> P b -> ltb a b = true -> ltb b a = false.
Definition trans_on  := forall a b c, P a -> P b -> P c ->
                          ltb a b = true -> ltb b c = true -> ltb a c = true.
(* "total on P" in the form of negative transitivity (co-transitivity):
   together with asymmetry this says that ltb is a strict weak order on P *)
Definition cotrans_on := forall a b c, P a -> P b -> P c ->
                          ltb a c = true -> ltb a b = true \/ ltb b c = true.

Lemma asym_irrefl : asym_on -> irrefl_on.
Proof.
  intros As a Pa. destruct (ltb a a) eqn:E; auto.
  rewrite (As a a Pa Pa E) in E. discriminate.
Qed.

Lemma asym_cotrans_trans : asym_on -> cotrans_on -> trans_on.
Proof.
  intros As Co a b c Pa Pb Pc Hab Hbc.
  destruct (Co a c b Pa Pc Pb Hab) as [H|H]; auto.
  rewrite (As b c Pb Pc Hbc) in H. discriminate.
Qed.

(* minimality: needs irreflexivity and transitivity only *)
Lemma scan_min : irrefl_on -> trans_on ->
  forall l pre best bi k,
  (forall a, In a (pre ++ l) -> P a) -> P best ->
  (forall a, In a pre -> ltb a best = false) ->
  forall a, In a (pre ++ l) -> ltb a (snd (argmin_scan best bi k l)) = false.
Proof.
  intros Irr Tr.
  induction l as [|x t IH]; intros pre best bi k HP Pb Hpre a Ha.
  - simpl. rewrite app_nil_r in Ha. auto.
  - assert (EA : pre ++ x :: t = (pre ++ [x]) ++ t)
      by (rewrite <- app_assoc; reflexivity).
    assert (Px : P x) by (apply HP; apply in_or_app; right; left; reflexivity).
    simpl. destruct (ltb x best) eqn:E.
    + rewrite EA in HP, Ha. apply (IH (pre ++ [x])); auto.
      intros b Hb. apply in_app_or in Hb. destruct Hb as [Hb|[Hb|[]]].
      * destruct (ltb b x) eqn:Ebx; auto.
        assert (Pbb : P b) by (apply HP; apply in_or_app; left; apply in_or_app; left; auto).
        pose proof (Tr b x best Pbb Px Pb Ebx E) as Hbb.
        rewrite (Hpre b Hb) in Hbb. discriminate.
      * subst b. apply Irr; auto.
    + rewrite EA in HP, Ha. apply (IH (pre ++ [x])); auto.
      intros b Hb. apply in_app_or in Hb. destruct Hb as [Hb|[Hb|[]]]; auto.
      subst b; auto.
Qed.

(* first occurrence: needs the strict-weak-order hypotheses *)
Lemma scan_first : asym_on -> cotrans_on ->
  forall l pre best bi k,
  k = length pre ->
  (forall a, In a (pre ++ l) -> P a) ->
  bi < length pre -> nth bi pre d = best ->
  (forall a, In a pre -> ltb a best = false) ->
  (forall j, j < bi -> ltb best (nth j pre d) = true) ->
  forall j, j < fst (argmin_scan best bi k l) ->
    ltb (snd (argmin_scan best bi k l)) (nth j (pre ++ l) d) = true.
Proof.
  intros As Co.
  induction l as [|x t IH]; intros pre best bi k Hk HP Hbi Hn Hpre Hlt j Hj.
  - simpl in *. rewrite app_nil_r. auto.
  - assert (EA : pre ++ x :: t = (pre ++ [x]) ++ t)
      by (rewrite <- app_assoc; reflexivity).
    assert (EL : S k = length (pre ++ [x]))
      by (rewrite app_length; simpl; lia).
    assert (Px : P x) by (apply HP; apply in_or_app; right; left; reflexivity).
    assert (Pb : P best).
    { subst best. apply HP. apply in_or_app. left. apply nth_In. assumption. }
    assert (Ppre : forall b, In b pre -> P b)
      by (intros; apply HP; apply in_or_app; left; auto).
    simpl in Hj |- *. rewrite EA. rewrite EA in HP.
    destruct (ltb x best) eqn:E.
    + assert (Hx : forall b, In b pre -> ltb x b = true).
      { intros b Hb. destruct (Co x b best Px (Ppre b Hb) Pb E) as [H|H]; auto.
        rewrite (Hpre b Hb) in H. discriminate. }
      apply (IH (pre ++ [x]) x k (S k)); auto.
      * lia.
      * subst k. rewrite app_nth2 by lia. rewrite Nat.sub_diag. reflexivity.
      * intros b Hb. apply in_app_or in Hb. destruct Hb as [Hb|[Hb|[]]].
        -- destruct (ltb b x) eqn:Ebx; auto.
           destruct (Co b best x (Ppre b Hb) Pb Px Ebx) as [H|H].
           ++ rewrite (Hpre b Hb) in H. discriminate.
           ++ rewrite (As x best Px Pb E) in H. discriminate.
        -- subst b. apply (asym_irrefl As); auto.
      * intros i Hi. rewrite app_nth1 by lia. apply Hx. apply nth_In. lia.
    + apply (IH (pre ++ [x]) best bi (S k)); auto.
      * lia.
      * rewrite app_nth1 by lia. assumption.
      * intros b Hb. apply in_app_or in Hb. destruct Hb as [Hb|[Hb|[]]]; auto.
        subst b; auto.
      * intros i Hi. rewrite app_nth1 by lia. auto.
Qed.

(* (2) no element is strictly below y[argmin]: irreflexive + transitive *)
Theorem argmin_first_min : irrefl_on -> trans_on ->
  forall y, y <> [] -> (forall a, In a y -> P a) ->
  forall k, k < length y ->
    ltb (nth k y d) (nth (argmin_first y) y d) = false.
Proof.
  intros Irr Tr [|x t] Hne HP k Hk; [congruence|].
  unfold argmin_first.
  pose proof (scan_value t [x] x 0 1 eq_refl (Nat.lt_0_succ 0) eq_refl) as [_ V].
  change ([x] ++ t) with (x :: t) in V. rewrite V.
  apply (scan_min Irr Tr t [x] x 0 1); auto.
  - apply HP. left. reflexivity.
  - intros a [Ha|[]]. subst a. apply Irr. apply HP. left. reflexivity.
  - simpl app. apply nth_In. assumption.
Qed.

(* A3: full specification under the strict-weak-order hypotheses on P *)
Theorem argmin_first_spec : asym_on -> cotrans_on ->
  forall y, y <> [] -> (forall a, In a y -> P a) ->
  let i := argmin_first y in
  i < length y /\
  (forall k, k < length y -> ltb (nth k y d) (nth i y d) = false) /\
  (forall k, k < i -> ltb (nth i y d) (nth k y d) = true).
Proof.
  intros As Co y Hne HP i. subst i.
  split; [apply argmin_first_lt_length; auto|].
  split; [apply argmin_first_min; auto using asym_irrefl, asym_cotrans_trans|].
  destruct y as [|x t]; [congruence|].
  unfold argmin_first.
  pose proof (scan_value t [x] x 0 1 eq_refl (Nat.lt_0_succ 0) eq_refl) as [_ V].
  change ([x] ++ t) with (x :: t) in V. rewrite V.
  intros k Hk.
  apply (scan_first As Co t [x] x 0 1); simpl; auto.
  - intros a [Ha|[]]. subst a. apply (asym_irrefl As). apply HP. left. reflexivity.
  - intros j Hj. lia.
Qed.

(* If the minimum is attained at a unique index m then argmin_first = m. *)
Theorem argmin_first_unique : irrefl_on -> trans_on ->
  forall y m, (forall a, In a y -> P a) ->
  m < length y ->
  (forall k, k < length y -> k <> m -> ltb (nth m y d) (nth k y d) = true) ->
  argmin_first y = m.
Proof.
  intros Irr Tr y m HP Hm Hu.
  assert (Hne : y <> []) by (destruct y; simpl in Hm; [lia|congruence]).
  destruct (Nat.eq_dec (argmin_first y) m) as [E|E]; auto.
  pose proof (argmin_first_min Irr Tr y Hne HP m Hm) as H1.
  rewrite (Hu (argmin_first y)) in H1; auto using argmin_first_lt_length.
  discriminate.
Qed.

End Argmin.


(* ------------------------------------------------------------------------- *)
(** ** A.4  result <= every sample (under oracle hypotheses)                 *)
(* ------------------------------------------------------------------------- *)

Section MinLeSamples.

Variable d : N.
Variable y : list N.
Variable func : Z -> N.
Variable brent : Z * Z * Z -> N.

Let n := length y.
Let index := Z.of_nat (argmin_first y).
Let found := fst (bracket_search func index).
Let result := fourier_minimum_model false y d func brent.

(* ORACLE HYPOTHESES *)
(* the interpolant reproduces the samples at the nodes *)
Hypothesis H_interp : forall k : nat, k < n -> func (Z.of_nat k) = nth k y d.
(* scipy's Brent, started from a valid bracket (a,b,c), returns a value of
   the objective that is not above f(b) (it keeps the best point seen) *)
Hypothesis H_brent : found = true -> ~ ltb (func index) result = true.

(* ORDER HYPOTHESES *)
Hypothesis H_nonempty : y <> [].
(* ltb is irreflexive and transitive on the samples *)
Hypothesis H_irrefl : irrefl_on (fun a => In a y).
Hypothesis H_trans : trans_on (fun a => In a y).
(* negative transitivity through the result: if a sample a is strictly
   below the result, every sample b is above a or below the result
   (vacuous when the result is NaN) *)
Hypothesis H_cotrans_result : forall a b, In a y -> In b y ->
  ltb a result = true -> ltb a b = true \/ ltb b result = true.

Theorem min_le_samples :
  found = true ->
  forall k, k < n -> ltb (nth k y d) result = false.
Proof.
  intros Hf k Hk.
  destruct (ltb (nth k y d) result) eqn:E; auto. exfalso.
  assert (Hi : argmin_first y < n) by (apply argmin_first_lt_length; auto).
  destruct (H_cotrans_result (nth k y d) (nth (argmin_first y) y d)) as [H|H];
    auto using nth_In.
  - rewrite (argmin_first_min d _ H_irrefl H_trans y) in H; auto. discriminate.
  - apply (H_brent Hf). unfold index. rewrite H_interp; auto.
Qed.

End MinLeSamples.

(* The same with "ltb is a strict weak order on a set P that contains the
   samples and the result", and Brent's property stated for every valid
   bracket. *)
Corollary min_le_samples_swo :
  forall (P : N -> Prop) (d : N) (y : list N) (func : Z -> N)
         (brent : Z * Z * Z -> N),
  let n := length y in
  let index := Z.of_nat (argmin_first y) in
  let result := fourier_minimum_model false y d func brent in
  (forall k : nat, k < n -> func (Z.of_nat k) = nth k y d) ->
  (forall a b c, ltb (func b) (func a) = true -> ltb (func b) (func c) = true ->
                 ltb (func b) (brent (a, b, c)) = false) ->
  y <> [] ->
  asym_on P -> cotrans_on P ->
  (forall a, In a y -> P a) -> P result ->
  fst (bracket_search func index) = true ->
  forall k, k < n -> ltb (nth k y d) result = false.
Proof.
  intros P d y func brent n index result Hint Hbr Hne As Co HP HPr Hf k Hk.
  apply min_le_samples; [exact Hint | | exact Hne | | | | exact Hf | exact Hk].
  - intros _. fold index. fold result.
    destruct (bracket_search func index) as [f j] eqn:Eb. simpl in Hf. subst f.
    destruct (bracket_valid _ _ _ Eb) as (_ & Hm & Hp & _).
    unfold result, fourier_minimum_model. fold index. rewrite Eb. simpl.
    unfold bracket_of. rewrite (Hbr _ _ _ Hm Hp). discriminate.
  - intros a Ha. apply (asym_irrefl P As). auto.
  - intros a b c Ha Hb Hc. apply (asym_cotrans_trans P As Co); auto.
  - intros a b Ha Hb. apply Co; auto.
Qed.

(* In the constant branch the code returns y[0] *)
Theorem fourier_minimum_const : forall y d func brent,
  fourier_minimum_model true y d func brent = nth 0 y d.
Proof. reflexivity. Qed.

(* ------------------------------------------------------------------------- *)
(** ** A.5  shift invariance of the decisions                                *)
(* ------------------------------------------------------------------------- *)

Lemma periodic_mul : forall (func : Z -> N) (n : Z),
  (forall k, func (k + n)%Z = func k) ->
  forall (q : nat) k, func (k + Z.of_nat q * n)%Z = func k.
Proof.
  intros func n Hp. induction q as [|q IH]; intros k.
  - f_equal. lia.
  - replace (k + Z.of_nat (S q) * n)%Z with ((k + Z.of_nat q * n) + n)%Z by lia.
    rewrite Hp. apply IH.
Qed.

(* bracket search alone: shifting the interpolant shifts the index *)
Theorem bracket_search_shift : forall (func func' : Z -> N) (s index : Z),
  (forall k, func' k = func (k + s)%Z) ->
  bracket_search func' (index - s)%Z = bracket_search func index.
Proof.
  intros func func' s index Hs. apply bracket_search_ext. intros k _.
  rewrite Hs. f_equal. lia.
Qed.

Lemma mod_shift_surj : forall n s m, n <> 0 -> m < n ->
  let m' := (m + (n - s mod n)) mod n in
  m' < n /\ (m' + s) mod n = m.
Proof.
  intros n s m Hn Hm m'. split.
  - apply Nat.mod_upper_bound; auto.
  - unfold m'. rewrite Nat.add_mod_idemp_l by auto.
    pose proof (Nat.div_mod s n Hn) as E.
    pose proof (Nat.mod_upper_bound s n Hn) as B.
    symmetry. apply (Nat.mod_unique _ _ (1 + s / n)); auto.
    nia.
Qed.

Theorem shift_invariance_of_decisions :
  forall (P : N -> Prop) (d : N) (y y' : list N) (func func' : Z -> N) (s m : nat),
  let n := length y in
  n <> 0 -> length y' = n ->
  (* y' is the cyclic rotation of y by s:  y'[k] = y[(k+s) mod n] *)
  (forall k, k < n -> nth k y' d = nth ((k + s) mod n) y d) ->
  (* func' is the interpolant of the rotated data *)
  (forall k, func' k = func (k + Z.of_nat s)%Z) ->
  (* periodicity of the interpolant *)
  (forall k, func (k + Z.of_nat n)%Z = func k) ->
  (* order hypotheses on the samples *)
  (forall a, In a y -> P a) -> irrefl_on P -> trans_on P ->
  (* the minimum of the samples is attained at the unique index m *)
  m < n ->
  (forall k, k < n -> k <> m -> ltb (nth m y d) (nth k y d) = true) ->
  argmin_first y = m /\
  argmin_first y' < n /\
  (argmin_first y' + s) mod n = m /\
  bracket_search func' (Z.of_nat (argmin_first y')) =
  bracket_search func (Z.of_nat (argmin_first y)).
Proof.
  intros P d y y' func func' s m n Hn Hlen Hrot Hs Hper HP Irr Tr Hm Hu.
  assert (E1 : argmin_first y = m) by (apply (argmin_first_unique d P); auto).
  assert (Hne' : y' <> []) by (destruct y'; simpl in Hlen; [lia|congruence]).
  assert (HP' : forall a, In a y' -> P a).
  { intros a Ha. destruct (In_nth _ _ d Ha) as (k & Hk & Ek). subst a.
    rewrite Hlen in Hk. rewrite Hrot by auto. apply HP. apply nth_In.
    apply Nat.mod_upper_bound; auto. }
  assert (Hi' : argmin_first y' < n)
    by (rewrite <- Hlen; apply argmin_first_lt_length; auto).
  assert (E2 : (argmin_first y' + s) mod n = m).
  { destruct (mod_shift_surj n s m Hn Hm) as [Hm' Em'].
    set (m' := (m + (n - s mod n)) mod n) in *.
    destruct (Nat.eq_dec ((argmin_first y' + s) mod n) m) as [E|E]; auto.
    pose proof (argmin_first_min d P Irr Tr y' Hne' HP' m') as H1.
    rewrite Hlen in H1. specialize (H1 Hm').
    rewrite !Hrot in H1 by auto. rewrite Em' in H1.
    rewrite Hu in H1; auto. discriminate.
    apply Nat.mod_upper_bound; auto. }
  repeat split; auto.
  rewrite E1. apply bracket_search_ext. intros k _.
  rewrite Hs.
  pose proof (Nat.div_mod (argmin_first y' + s) n Hn) as D. rewrite E2 in D.
  replace (Z.of_nat (argmin_first y') + k + Z.of_nat s)%Z
    with ((Z.of_nat m + k) + Z.of_nat ((argmin_first y' + s) / n) * Z.of_nat n)%Z
    by lia.
  apply periodic_mul. assumption.
Qed.

(* np.roll(y, -s) for s <= n satisfies the rotation hypothesis *)
Definition rotl (s : nat) (y : list N) : list N := skipn s y ++ firstn s y.

Lemma rotl_length : forall s y, length (rotl s y) = length y.
Proof.
  intros. unfold rotl. rewrite app_length, skipn_length, firstn_length. lia.
Qed.

Lemma nth_skipn' : forall (d : N) s (y : list N) k, nth k (skipn s y) d = nth (s + k) y d.
Proof.
  induction s; intros; simpl; auto. destruct y; simpl; auto. destruct k; auto.
Qed.

Lemma nth_firstn' : forall (d : N) s (y : list N) k, k < s -> nth k (firstn s y) d = nth k y d.
Proof.
  induction s; intros y k Hk; [lia|]. destruct y; simpl; auto.
  destruct k; auto. apply IHs. lia.
Qed.

Lemma rotl_nth : forall (d : N) s y k, s <= length y -> k < length y ->
  nth k (rotl s y) d = nth ((k + s) mod length y) y d.
Proof.
  intros d s y k Hs Hk. unfold rotl.
  destruct (lt_dec k (length y - s)) as [L|L].
  - rewrite app_nth1 by (rewrite skipn_length; lia).
    rewrite nth_skipn'. rewrite Nat.mod_small by lia. f_equal. lia.
  - rewrite app_nth2 by (rewrite skipn_length; lia).
    rewrite skipn_length. rewrite nth_firstn' by lia.
    f_equal. apply (Nat.mod_unique _ _ 1); lia.
Qed.

(* the concrete instance: rotated data rotl s y (= np.roll(y, -s)), s <= n *)
Corollary shift_invariance_rotl :
  forall (P : N -> Prop) (d : N) (y : list N) (func func' : Z -> N) (s m : nat),
  let n := length y in
  s <= n ->
  (forall k, func' k = func (k + Z.of_nat s)%Z) ->
  (forall k, func (k + Z.of_nat n)%Z = func k) ->
  (forall a, In a y -> P a) -> irrefl_on P -> trans_on P ->
  m < n ->
  (forall k, k < n -> k <> m -> ltb (nth m y d) (nth k y d) = true) ->
  (argmin_first (rotl s y) + s) mod n = argmin_first y /\
  bracket_search func' (Z.of_nat (argmin_first (rotl s y))) =
  bracket_search func (Z.of_nat (argmin_first y)).
Proof.
  intros P d y func func' s m n Hs Hf Hper HP Irr Tr Hm Hu.
  destruct (shift_invariance_of_decisions P d y (rotl s y) func func' s m)
    as (E1 & _ & E2 & E3); auto.
  - fold n. lia.
  - apply rotl_length.
  - intros k Hk. apply rotl_nth; auto.
  - split; auto. rewrite E1. exact E2.
Qed.

End Generic.

Print Assumptions bracket_valid.
Print Assumptions bracket_notfound.
Print Assumptions argmin_first_lt_length.
Print Assumptions argmin_first_min.
Print Assumptions argmin_first_spec.
Print Assumptions argmin_first_unique.
Print Assumptions min_le_samples.
Print Assumptions min_le_samples_swo.
Print Assumptions shift_invariance_of_decisions.
Print Assumptions shift_invariance_rotl.

Arguments argmin_scan {N} ltb best bi k l.
Arguments argmin_first {N} ltb y.
Arguments bracket_test {N} ltb func index j.
Arguments bracket_loop {N} ltb func index js last.
Arguments bracket_search {N} ltb func index.
Arguments fourier_minimum_model {N} ltb is_const y d func brent.
Arguments rotl {N} s y.

(* ------------------------------------------------------------------------- *)
(** ** A.6  Float instance                                                   *)
(* ------------------------------------------------------------------------- *)

From Coq Require Import Floats.PrimFloat.

(* f0 = func(index*dx);  fm = [func((index-1)dx); func((index-2)dx); func((index-3)dx)];
   fp = [func((index+1)dx); func((index+2)dx); func((index+3)dx)] *)
Definition float_func (f0 : float) (fm fp : list float) (k : Z) : float :=
  if (k <? 0)%Z then nth (Z.to_nat (- k - 1)) fm nan
  else if (0 <? k)%Z then nth (Z.to_nat (k - 1)) fp nan
  else f0.

Definition bracket_search_float (f0 : float) (fm fp : list float) : bool * nat :=
  bracket_search PrimFloat.ltb (float_func f0 fm fp) 0%Z.

Definition argmin_first_float (y : list float) : nat := argmin_first PrimFloat.ltb y.

(* explicit form, for reading *)
Lemma bracket_search_float_explicit : forall f0 m1 m2 m3 p1 p2 p3,
  bracket_search_float f0 [m1; m2; m3] [p1; p2; p3] =
  if PrimFloat.ltb f0 m1 && PrimFloat.ltb f0 p1 then (true, 1)
  else if PrimFloat.ltb f0 m2 && PrimFloat.ltb f0 p2 then (true, 2)
  else if PrimFloat.ltb f0 m3 && PrimFloat.ltb f0 p3 then (true, 3)
  else (false, 3).
Proof. reflexivity. Qed.

Print Assumptions bracket_search_float_explicit.

(* found at j=1 *)
Eval vm_compute in bracket_search_float 1%float [2; 0; 0]%float [3; 0; 0]%float.
(* found at j=2 (tie at j=1 is not a bracket: strict <) *)
Eval vm_compute in bracket_search_float 1%float [1; 2; 0]%float [3; 4; 0]%float.
(* found at j=3 *)
Eval vm_compute in bracket_search_float 1%float [0.5; 1; 1.5]%float [3; 0.5; 2]%float.
(* not found: (false, 3) *)
Eval vm_compute in bracket_search_float 1%float [0.5; 1; 1]%float [3; 0.5; 2]%float.
(* NaN never brackets *)
Eval vm_compute in bracket_search_float 1%float [nan; nan; 2]%float [3; 3; nan]%float.
Eval vm_compute in bracket_search_float nan [2; 2; 2]%float [3; 3; 3]%float.

Example bracket_float_ex1 :
  bracket_search_float 1%float [2; 0; 0]%float [3; 0; 0]%float = (true, 1).
Proof. vm_compute. reflexivity. Qed.
Example bracket_float_ex2 :
  bracket_search_float 1%float [1; 2; 0]%float [3; 4; 0]%float = (true, 2).
Proof. vm_compute. reflexivity. Qed.
Example bracket_float_ex3 :
  bracket_search_float 1%float [0.5; 1; 1.5]%float [3; 0.5; 2]%float = (true, 3).
Proof. vm_compute. reflexivity. Qed.
Example bracket_float_ex4 :
  bracket_search_float 1%float [0.5; 1; 1]%float [3; 0.5; 2]%float = (false, 3).
Proof. vm_compute. reflexivity. Qed.
Example bracket_float_ex5 :
  bracket_search_float 1%float [nan; nan; 2]%float [3; 3; nan]%float = (false, 3).
Proof. vm_compute. reflexivity. Qed.

(* argmin: first occurrence of the minimum *)
Eval vm_compute in argmin_first_float [3; 1; 2; 1; 5]%float.
Example argmin_float_ex1 : argmin_first_float [3; 1; 2; 1; 5]%float = 1.
Proof. vm_compute. reflexivity. Qed.
Example argmin_float_ex2 : argmin_first_float [3; 1; 2; 1; 0.5]%float = 4.
Proof. vm_compute. reflexivity. Qed.
(* -0.0 and +0.0 compare equal: the first is kept *)
Example argmin_float_ex3 : argmin_first_float [0; -0; 1]%float = 0.
Proof. vm_compute. reflexivity. Qed.
(* KNOWN DIVERGENCE (documented, outside the hypotheses of the theorems):
   with a NaN sample np.argmin returns the index of the first NaN (here 1),
   whereas the "<"-scan skips it. *)
Example argmin_float_nan : argmin_first_float [3; nan; 2]%float = 2.
Proof. vm_compute. reflexivity. Qed.

(* ========================================================================= *)
(** * Part B.  Structure of the interpolation weights (over R)               *)
(* ========================================================================= *)

From Coq Require Import Reals Lra.
Open Scope R_scope.

(* sum_{k<n} g k *)
Fixpoint sumR (n : nat) (g : nat -> R) : R :=
  match n with
  | O => 0
  | S m => sumR m g + g m
  end.

(* w_k = (-1)^k ; the theorems below hold for arbitrary w *)
Definition w_alt (k : nat) : R := (-1) ^ k.

(* the replacement of an exactly-zero argument by eps:  D + eps*(D==0) *)
Definition guard (eps a : R) : R := if Req_EM_T a 0 then a + eps else a.

Lemma guard_nonzero : forall eps a, eps <> 0 -> guard eps a <> 0.
Proof.
  intros eps a He. unfold guard. destruct (Req_EM_T a 0) as [E|E]; auto.
  subst a. rewrite Rplus_0_l. assumption.
Qed.

(* D_k for N odd / N even, as in the code (x, xk are already halved: a = (x-x_k)/2) *)
Definition D_odd  (eps a : R) : R := 1 / sin (guard eps a).
Definition D_even (eps a : R) : R := 1 / tan (guard eps a).

(* np.dot(D, w*fk) / np.dot(D, w)  for one evaluation point *)
Definition interp_num (n : nat) (D w f : nat -> R) : R := sumR n (fun k => D k * (w k * f k)).
Definition interp_den (n : nat) (D w : nat -> R) : R := sumR n (fun k => D k * w k).
Definition interp (n : nat) (D w f : nat -> R) : R := interp_num n D w f / interp_den n D w.

Lemma sumR_ext : forall n g h, (forall k, (k < n)%nat -> g k = h k) -> sumR n g = sumR n h.
Proof.
  induction n; intros g h H; simpl; auto.
  rewrite (IHn g h) by (intros; apply H; lia). rewrite H by lia. reflexivity.
Qed.

Lemma sumR_scal : forall n c g, sumR n (fun k => c * g k) = c * sumR n g.
Proof. induction n; intros; simpl; [ring|]. rewrite IHn. ring. Qed.

Lemma sumR_plus : forall n g h, sumR n (fun k => g k + h k) = sumR n g + sumR n h.
Proof. induction n; intros; simpl; [ring|]. rewrite IHn. ring. Qed.

(* B1 *)
Theorem interp_constant : forall n D w f c,
  (forall k, (k < n)%nat -> f k = c) ->
  interp_den n D w <> 0 ->
  interp n D w f = c.
Proof.
  intros n D w f c Hf Hd. unfold interp, interp_num.
  rewrite (sumR_ext n _ (fun k => c * (D k * w k))).
  - rewrite sumR_scal. fold (interp_den n D w). field. assumption.
  - intros k Hk. rewrite Hf by assumption. ring.
Qed.
Print Assumptions interp_constant.

(* B2 *)
Theorem interp_linear : forall n D w f g a b,
  interp_den n D w <> 0 ->
  interp n D w (fun k => a * f k + b * g k) = a * interp n D w f + b * interp n D w g.
Proof.
  intros n D w f g a b Hd. unfold interp, interp_num.
  rewrite (sumR_ext n _ (fun k => a * (D k * (w k * f k)) + b * (D k * (w k * g k))))
    by (intros; ring).
  rewrite sumR_plus, !sumR_scal. field. assumption.
Qed.
Print Assumptions interp_linear.

(* B3, algebraic form *)
Theorem interp_node_limit : forall Dm wm fm R1 R2 S T,
  S = Dm * wm * fm + R1 ->
  T = Dm * wm + R2 ->
  T <> 0 ->
  S / T - fm = (R1 - fm * R2) / T.
Proof. intros; subst S. subst T. field. assumption. Qed.
Print Assumptions interp_node_limit.

Corollary interp_node_limit_abs : forall Dm wm fm R1 R2 S T,
  S = Dm * wm * fm + R1 ->
  T = Dm * wm + R2 ->
  T <> 0 ->
  Rabs (S / T - fm) = Rabs (R1 - fm * R2) / Rabs T.
Proof.
  intros Dm wm fm R1 R2 S T HS HT HT0.
  rewrite (interp_node_limit Dm wm fm R1 R2 S T HS HT HT0).
  unfold Rdiv. rewrite Rabs_mult. rewrite Rabs_inv. reflexivity.
Qed.
Print Assumptions interp_node_limit_abs.

(* B3, instantiated on the sums: the error at node m is the weighted sum of
   the differences f_k - f_m (the k = m term vanishes), over the denominator *)
Theorem interp_node_error : forall n D w f m,
  interp_den n D w <> 0 ->
  interp n D w f - f m =
  sumR n (fun k => D k * w k * (f k - f m)) / interp_den n D w.
Proof.
  intros n D w f m Hd.
  rewrite (sumR_ext n _ (fun k => 1 * (D k * (w k * f k)) + (- f m) * (D k * w k)))
    by (intros; ring).
  rewrite sumR_plus, !sumR_scal. unfold interp, interp_num.
  fold (interp_den n D w). field. assumption.
Qed.
Print Assumptions interp_node_error.
