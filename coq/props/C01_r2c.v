(* C01 (split for parallel compilation): second order claim crl[r^2] (the two O(r^2) ODEs) *)
From Coq Require Import Reals String List Lra Lia QArith Qreals FunctionalExtensionality.
From QSC Require Import Expr Shallow Series.
From QSCGen Require Import G_init_axis G_r1_diagnostics G_residual G_calculate_r2 G_calculate_r3.
From QSCProps Require Import C04_spec C01_spec C01_common C01_r1 C01_r2base.
Open Scope R_scope.
Open Scope string_scope.

Section R2c.
  Context {I : Type} (O : ops I) (S : string -> I -> R).
  Hypothesis HD : derivation O.
  Hypothesis HA : axis_facts S.
  Hypothesis HR : r1_facts O S.
  Hypothesis H2 : r2_facts O S.
  Hypothesis Hadm : admissible S.
  Hypothesis Hsig : forall i, sigma_residual O S i = 0.
  Variable i : I.
  Variable b : atoms.
  Let CF : cfacts S i := cfacts_hold O S HD HA HR H2 Hadm Hsig i.
  Notation spsi := (S "s.spsi"). Notation B0 := (S "s.B0").

  Ltac use_ode c E Hode :=
    match goal with |- ?L = 0 => transitivity (c * E); [ | rewrite Hode; ring] end;
    unfold ode1, ode2, fX0, fXs, fXc, fY0, fYs, fYc, C04_spec.lp, C04_spec.Dv;
    change (S "s.B0" i / Rabs (S "s.G0" i)) with (bl S i); rewrite (cf_bl _ _ CF);
    pose proof (r2_dX20 O S H2 i) as D1; pose proof (r2_dX2s O S H2 i) as D2; pose proof (r2_dX2c O S H2 i) as D3;
    pose proof (r2_dY20 O S H2 i) as D4; pose proof (r2_dY2s O S H2 i) as D5; pose proof (r2_dY2c O S H2 i) as D6;
    unfold Dv in D1, D2, D3, D4, D5, D6; rewrite <- ?D1, <- ?D2, <- ?D3, <- ?D4, <- ?D5, <- ?D6;
    clear D1 D2 D3 D4 D5 D6.
  Lemma crl2 : tzero (crl (with_second_order S i b) 2%nat).
  Proof.
    start_at S Hadm CF i b. split_coefs; try ring.
    - use_ode (-2 * spsi i * B0 i) (ode1 O S "s.X20" "s.Y20" i) (r2_ode1 O S H2 i). dsigns_at S Hadm i; pose_common CF; fin_at S i.
    - use_ode (2 * spsi i * B0 i) (ode2 O S "s.X20" "s.Y20" i) (r2_ode2 O S H2 i). dsigns_at S Hadm i; pose_common CF; fin_at S i.
  Qed.
End R2c.
