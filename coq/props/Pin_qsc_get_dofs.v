(* Source pin: the hand-written model of qsc/qsc.py:get_dofs was written and validated (correspondence runs evaluated inside Coq, see DESIGN.md 1.1) against the
   source whose normalised syntax tree has this digest (tools/gen_pins.py).  If the function is edited this obligation fails and the check searches
   for a failing input; after re-validating the model against the new source, regenerate with `tools/gen_pins.py --write-props`. *)
From Coq Require Import String.
From QSCGen Require Import G_pins.
Open Scope string_scope.

Lemma pin_qsc_get_dofs_current : pin_qsc_get_dofs = "15b0eb0d60ad213bf9e4caa1d424c8a7838920dc18d9c22e7f1ce3bfb3ea3358".
Proof. reflexivity. Qed.
