(* C02 (Jacobian clause and sigma0 pin), on the programs regenerated from _residual, _jacobian and
   solve_sigma_equation.

   The state vector x of the Newton solve is modelled as the pair (xs, xi): xi = x[0] is iota, xs holds
   sigma (its element 0 is overwritten by sigma0 inside the residual).  A direction h is (hs, hi).
   [C02_jacobian_exact]: for EVERY state (not only converged ones), every direction, every eps and every
   linear differentiation operator,
        residual(x + eps h) = residual(x) + eps * (J(x) h) + eps^2 * A + eps^3 * B
   with A, B independent of eps: the matrix returned by _jacobian is the exact derivative of _residual. *)
From Coq Require Import Reals String List Lra QArith Qreals.
From QSC Require Import Expr Shallow.
From QSCGen Require Import G_residual G_jacobian G_solve_sigma_equation.
Open Scope R_scope.
Open Scope string_scope.
Import ListNotations.

Lemma ssa_res : ssa residual = true. Proof. vm_compute. reflexivity. Qed.
Lemma ssa_jac : ssa jacobian = true. Proof. vm_compute. reflexivity. Qed.
Lemma ssa_sig : ssa solve_sigma_equation = true. Proof. vm_compute. reflexivity. Qed.

(* attributes read by the two functions *)
Definition shared_inputs : list string :=
  ["s.sigma0"; "s.d_varphi_d_phi"; "s.helicity"; "s.nfp"; "s.etabar_squared_over_curvature_squared";
   "s.spsi"; "s.torsion"; "s.I2"; "s.B0"; "s.G0"].

Record pin_affine {I : Type} (O : ops I) : Prop := {
  pin_aff : forall (a b c : I -> R) (e : R) i,
      o_pin O (fun k => a k + e * b k) c i = o_pin O a c i + e * o_pin O b (fun _ => 0) i
}.

Lemma disc_pin_affine n Dm fmin : pin_affine (disc_ops n Dm fmin).
Proof. constructor. intros a b c e i. simpl. destruct (Nat.eqb i 0); ring. Qed.

Section Jac.
  Context {I : Type} (O : ops I) (HL : linear O) (HP : pin_affine O).
  Variables V V' W : string -> I -> R.
  Variable eps : R.
  Hypothesis HV : is_fix O residual V.
  Hypothesis HV' : is_fix O residual V'.
  Hypothesis HW : is_fix O jacobian W.
  Hypothesis Hin' : forall y, In y shared_inputs -> V' y = V y.
  Hypothesis HinW : forall y, In y shared_inputs -> W y = V y.
  Hypothesis Hxs' : V' "xs" = fun i => V "xs" i + eps * W "hs" i.
  Hypothesis Hxi' : V' "xi" = fun i => V "xi" i + eps * W "hi" i.
  Hypothesis HxsW : W "xs" = V "xs".
  Hypothesis HxiW : W "xi" = V "xi".

  Definition htil : I -> R := o_pin O (W "hs") (fun _ => 0).
  Definition sig : I -> R := o_pin O (V "xs") (V "s.sigma0").
  Definition iotaN (i : I) : R := V "xi" i + V "s.helicity" i * V "s.nfp" i.
  Definition A2 (i : I) : R := iotaN i * (htil i * htil i) + 2 * W "hi" i * sig i * htil i.
  Definition B3 (i : I) : R := W "hi" i * (htil i * htil i).

  Ltac rw_inputs H :=
    rewrite ?(H "s.sigma0"), ?(H "s.d_varphi_d_phi"), ?(H "s.helicity"), ?(H "s.nfp"),
            ?(H "s.etabar_squared_over_curvature_squared"), ?(H "s.spsi"), ?(H "s.torsion"),
            ?(H "s.I2"), ?(H "s.B0"), ?(H "s.G0") by (unfold shared_inputs; simpl; tauto).

  Theorem jacobian_exact : forall i,
    V' "r" i = V "r" i + eps * W "s.ret" i + eps * eps * A2 i + eps * eps * eps * B3 i.
  Proof.
    intros i. unfold A2, B3, htil, sig, iotaN.
    unfold_fixes O residual HV' ("r" :: "sigma#2" :: "sigma" :: "iota" :: nil)%list.
    unfold_fixes O residual HV ("r" :: "sigma#2" :: "sigma" :: "iota" :: nil)%list.
    unfold_fixes O jacobian HW ("s.ret" :: "sigma#2" :: "sigma" :: "iota" :: nil)%list.
    rw_inputs Hin'. rw_inputs HinW. rewrite Hxs', Hxi', HxsW, HxiW.
    qsimp.
    assert (Hp : forall k, o_pin O (fun i0 => V "xs" i0 + eps * W "hs" i0) (V "s.sigma0") k
                  = o_pin O (V "xs") (V "s.sigma0") k + eps * o_pin O (W "hs") (fun _ => 0) k)
      by (intros k; apply (pin_aff O HP)).
    rewrite Hp.
    replace (o_D O (o_pin O (fun i0 => V "xs" i0 + eps * W "hs" i0) (V "s.sigma0")) i)
      with (o_D O (fun k => o_pin O (V "xs") (V "s.sigma0") k + eps * o_pin O (W "hs") (fun _ => 0) k) i)
      by (f_equal; apply FunctionalExtensionality.functional_extensionality; intros k; symmetry; apply Hp).
    rewrite (D_add O HL), (D_scal O HL).
    unfold Rdiv. ring.
  Qed.
End Jac.

(* sigma0 pin and iotaN relation from the glue in solve_sigma_equation *)
Section Pin.
  Context {I : Type} (O : ops I) (V : string -> I -> R).
  Hypothesis HV : is_fix O solve_sigma_equation V.
  Theorem sigma_is_pinned : V "s.sigma" = o_pin O (V "newton_xs") (V "s.sigma0").
  Proof. unfold_fix O solve_sigma_equation HV "s.sigma". reflexivity. Qed.
  Theorem iota_is_slot0 : forall i, V "s.iota" i = V "newton_xi" i.
  Proof. intros i. unfold_fix O solve_sigma_equation HV "s.iota". reflexivity. Qed.
  Theorem iotaN_relation : forall i, V "s.iotaN" i = V "s.iota" i + V "s.helicity" i * V "s.nfp" i.
  Proof. intros i. unfold_fix O solve_sigma_equation HV "s.iotaN". reflexivity. Qed.
End Pin.

(* discrete corollary: sigma at phi = 0 is the requested sigma0, for every grid and every Newton output *)
Theorem C02_sigma0_pinned : forall n Dm fmin rho,
  runG (disc_ops n Dm fmin) solve_sigma_equation rho "s.sigma" 0%nat = rho "s.sigma0" 0%nat.
Proof.
  intros. pose proof (runG_is_fix (disc_ops n Dm fmin) _ rho ssa_sig) as HV.
  rewrite (sigma_is_pinned _ _ HV). cbn [disc_ops o_pin Nat.eqb].
  rewrite run_input by (vm_compute; reflexivity). reflexivity.
Qed.

(* closed form of the Jacobian clause for actual runs *)
Definition agree_on {I : Type} (l : list string) (r1 r2 : string -> I -> R) : Prop := forall y, In y l -> r1 y = r2 y.

Theorem C02_jacobian_exact :
  forall (I : Type) (O : ops I), linear O -> pin_affine O ->
  forall (rho rho' rhoJ : @envG I) (eps : R),
    agree_on shared_inputs rho' rho -> agree_on shared_inputs rhoJ rho ->
    rho' "xs" = (fun i => rho "xs" i + eps * rhoJ "hs" i) ->
    rho' "xi" = (fun i => rho "xi" i + eps * rhoJ "hi" i) ->
    rhoJ "xs" = rho "xs" -> rhoJ "xi" = rho "xi" ->
    let V := runG O residual rho in let V' := runG O residual rho' in let W := runG O jacobian rhoJ in
    forall i, V' "r" i = V "r" i + eps * W "s.ret" i
                        + eps * eps * A2 O V W i + eps * eps * eps * B3 O W i.
Proof.
  intros I O HL HP rho rho' rhoJ eps Ha Hb H1 H2 H3 H4 V V' W i.
  assert (inp : forall (p : prog) (r : @envG I) y, memb y (names p) = false -> runG O p r y = r y)
    by (intros; apply run_input; assumption).
  apply (jacobian_exact O HL HP V V' W eps (runG_is_fix O _ rho ssa_res) (runG_is_fix O _ rho' ssa_res)
           (runG_is_fix O _ rhoJ ssa_jac)).
  - intros y Hy. unfold V', V. rewrite !inp.
    + apply Ha; exact Hy.
    + unfold shared_inputs in Hy. simpl in Hy. repeat (destruct Hy as [<-|Hy]; [vm_compute; reflexivity|]). destruct Hy.
    + unfold shared_inputs in Hy. simpl in Hy. repeat (destruct Hy as [<-|Hy]; [vm_compute; reflexivity|]). destruct Hy.
  - intros y Hy. unfold W, V. rewrite !inp.
    + apply Hb; exact Hy.
    + unfold shared_inputs in Hy. simpl in Hy. repeat (destruct Hy as [<-|Hy]; [vm_compute; reflexivity|]). destruct Hy.
    + unfold shared_inputs in Hy. simpl in Hy. repeat (destruct Hy as [<-|Hy]; [vm_compute; reflexivity|]). destruct Hy.
  - unfold V', V, W. rewrite !inp by (vm_compute; reflexivity). exact H1.
  - unfold V', V, W. rewrite !inp by (vm_compute; reflexivity). exact H2.
  - unfold V, W. rewrite !inp by (vm_compute; reflexivity). exact H3.
  - unfold V, W. rewrite !inp by (vm_compute; reflexivity). exact H4.
Qed.
Print Assumptions C02_jacobian_exact.
Print Assumptions C02_sigma0_pinned.
