(* C01: the constructed field satisfies the Boozer-coordinate identities order by order.

   INDEPENDENT SPECIFICATION.  Only OUTPUTS of the code (attribute values at one grid point) enter; no
   intermediate equation of the code is used.  At a fixed grid point, in the moving Frenet basis (n, b, t),
   n x b = t, with Boozer toroidal angle varphi and HELICAL poloidal angle vt = theta - N varphi:

       d t/dvarphi = lp kappa n,  d n/dvarphi = lp (-kappa t + tau b),  d b/dvarphi = - lp tau n,
       d r0/dvarphi = lp t                                       (lp = |G0|/B0 = dl/dvarphi)
       x = r0 + X n + Y b + Z t,
       X = r X1c cos vt + r^2 (X20 + X2c cos 2vt + X2s sin 2vt) + r^3 (X3c1 cos vt)          (X1s = X3s1 = X3c3 = X3s3 = 0)
       Y = r (Y1c cos vt + Y1s sin vt) + r^2 (Y20 + Y2c cos 2vt + Y2s sin 2vt) + r^3 (Y3c1 cos vt + Y3s1 sin vt)
       Z =                               r^2 (Z20 + Z2c cos 2vt + Z2s sin 2vt)                (Z1 = Z3 = 0)
       e_r = dx/dr, e_th = dx/dvt, e_ph = dx/dvarphi at fixed (r, vt)  (coefficient derivatives = the attributes
             d_<coef>_d_varphi, plus the frame rotation, plus lp t),
       w = e_ph + iotaN e_th           (field-line direction; iotaN because vt is the helical angle)
       sqrt g = e_r . (e_th x e_ph),   psi' = r spsi B0,
       B = B0 (1 + r etabar cos vt) + r^2 (B20 + B2c cos 2vt + B2s sin 2vt),
       Gh = G0 + r^2 (G2 + (iota - iotaN) I2)   (covariant toroidal component in the helical representation:
                                                 B = beta grad psi + I grad vt + (G + N I) grad varphi, N = iota - iotaN),
       I = r^2 I2,  beta = r beta_1s sin vt.

   Division-free residuals of "contravariant B = covariant B":
       pol = psi' (w . e_th) - I sqrt g
       tor = psi' (w . e_ph) - Gh sqrt g
       rad =      (w . e_r)  - beta sqrt g
       jac = sqrt g B^2 - psi' (Gh + iotaN I)            (= psi' (G + iota I))
   and two sqrt g / Z3 -free consequences of them, which are the ones that constrain |B| and the O(r^2) ODEs:
       modB = B^2 (w . e_ph) - Gh (Gh + iotaN I)          (psi' modB = B^2 tor + Gh jac : |B| is the prescribed one)
       crl = spsi B0 [ d/dr (w . e_th) - d/dvt (w . e_r) + d/dvt (beta sqrt g) ] - d/dr (r I2 sqrt g)
                                                         (radial component of curl: d/dr B_vt - d/dvt B_r)
   Each residual is a polynomial in r with trigonometric-polynomial coefficients, computed by QSC.Series. *)
From Coq Require Import Reals String List.
From QSC Require Import Expr Shallow Series.
Import ListNotations.
Open Scope R_scope.
Open Scope string_scope.

Record atoms : Type := mkAtoms {
  a_kap : R; a_tau : R; a_lp : R; a_iotaN : R; a_iota : R;
  a_B0 : R; a_eta : R; a_B20 : R; a_B2c : R; a_B2s : R;
  a_G0 : R; a_G2 : R; a_I2 : R; a_be : R; a_spsi : R;
  a_X1c : R; a_Y1c : R; a_Y1s : R;
  a_dX1c : R; a_dY1c : R; a_dY1s : R;
  a_X20 : R; a_X2c : R; a_X2s : R; a_Y20 : R; a_Y2c : R; a_Y2s : R; a_Z20 : R; a_Z2c : R; a_Z2s : R;
  a_dX20 : R; a_dX2c : R; a_dX2s : R; a_dY20 : R; a_dY2c : R; a_dY2s : R; a_dZ20 : R; a_dZ2c : R; a_dZ2s : R;
  a_X3c1 : R; a_Y3c1 : R; a_Y3s1 : R;
  a_dX3c1 : R; a_dY3c1 : R; a_dY3s1 : R
}.

Section Residuals.
  Variable a : atoms.
  Notation "# x" := (Vl x) (at level 5).
  Definition c0 (x : R) : tp := [(#x, Z0)].                       (* x *)
  Definition h1 (c s : cf) : tp := [(Z0, Z0); (c, s)].             (* c cos vt + s sin vt *)
  Definition h02 (z c s : R) : tp := [(#z, Z0); (Z0, Z0); (#c, #s)]. (* z + c cos 2vt + s sin 2vt *)

  (* shape series and the series of their varphi-derivative attributes *)
  Definition sX : ser := spoly [[]; h1 #(a_X1c a) Z0; h02 (a_X20 a) (a_X2c a) (a_X2s a); h1 #(a_X3c1 a) Z0].
  Definition sY : ser := spoly [[]; h1 #(a_Y1c a) #(a_Y1s a); h02 (a_Y20 a) (a_Y2c a) (a_Y2s a); h1 #(a_Y3c1 a) #(a_Y3s1 a)].
  Definition sZ : ser := spoly [[]; []; h02 (a_Z20 a) (a_Z2c a) (a_Z2s a)].
  Definition sdX : ser := spoly [[]; h1 #(a_dX1c a) Z0; h02 (a_dX20 a) (a_dX2c a) (a_dX2s a); h1 #(a_dX3c1 a) Z0].
  Definition sdY : ser := spoly [[]; h1 #(a_dY1c a) #(a_dY1s a); h02 (a_dY20 a) (a_dY2c a) (a_dY2s a); h1 #(a_dY3c1 a) #(a_dY3s1 a)].
  Definition sdZ : ser := spoly [[]; []; h02 (a_dZ20 a) (a_dZ2c a) (a_dZ2s a)].

  (* tangent vectors, components along (n, b, t) *)
  Definition e_r : vec := (sdr sX, sdr sY, sdr sZ).
  Definition e_th : vec := (sdth sX, sdth sY, sdth sZ).
  Definition e_ph : vec :=
    (sadd (ssub sdX (sscal #(a_lp a * a_tau a) sY)) (sscal #(a_lp a * a_kap a) sZ),
     sadd sdY (sscal #(a_lp a * a_tau a) sX),
     sadd (ssub sdZ (sscal #(a_lp a * a_kap a) sX)) (spoly [c0 (a_lp a)])).
  Definition wvec : vec := vadd e_ph (vscal #(a_iotaN a) e_th).
  Definition sqrtg : ser := vdot e_r (vcross e_th e_ph).

  Definition psip : ser := spoly [[]; c0 (a_spsi a * a_B0 a)].
  Definition Bmag : ser := spoly [c0 (a_B0 a); h1 #(a_B0 a * a_eta a) Z0; h02 (a_B20 a) (a_B2c a) (a_B2s a)].
  Definition Gh : ser := spoly [c0 (a_G0 a); []; c0 (a_G2 a + (a_iota a - a_iotaN a) * a_I2 a)].
  Definition Icur : ser := spoly [[]; []; c0 (a_I2 a)].
  Definition betas : ser := spoly [[]; h1 Z0 #(a_be a)].

  Definition pol : ser := ssub (smul psip (vdot wvec e_th)) (smul Icur sqrtg).
  Definition tor : ser := ssub (smul psip (vdot wvec e_ph)) (smul Gh sqrtg).
  Definition rad : ser := ssub (vdot wvec e_r) (smul betas sqrtg).
  Definition jac : ser := ssub (smul sqrtg (smul Bmag Bmag)) (smul psip (sadd Gh (sscal #(a_iotaN a) Icur))).
  Definition modB : ser := ssub (smul (smul Bmag Bmag) (vdot wvec e_ph)) (smul Gh (sadd Gh (sscal #(a_iotaN a) Icur))).
  Definition crl : ser :=
    ssub (sscal #(a_spsi a * a_B0 a)
            (sadd (ssub (sdr (vdot wvec e_th)) (sdth (vdot wvec e_r))) (sdth (smul betas sqrtg))))
         (sdr (smul (spoly [[]; c0 (a_I2 a)]) sqrtg)).
End Residuals.

(* ---- the atoms are the attribute values at grid point i ---- *)
Definition atoms_of {I : Type} (S : string -> I -> R) (i : I) : atoms := {|
  a_kap := S "s.curvature" i; a_tau := S "s.torsion" i; a_lp := S "s.abs_G0_over_B0" i;
  a_iotaN := S "s.iotaN" i; a_iota := S "s.iota" i;
  a_B0 := S "s.B0" i; a_eta := S "s.etabar" i; a_B20 := S "s.B20" i; a_B2c := S "s.B2c" i; a_B2s := S "s.B2s" i;
  a_G0 := S "s.G0" i; a_G2 := S "s.G2" i; a_I2 := S "s.I2" i; a_be := S "s.beta_1s" i; a_spsi := S "s.spsi" i;
  a_X1c := S "s.X1c" i; a_Y1c := S "s.Y1c" i; a_Y1s := S "s.Y1s" i;
  a_dX1c := S "s.d_X1c_d_varphi" i; a_dY1c := S "s.d_Y1c_d_varphi" i; a_dY1s := S "s.d_Y1s_d_varphi" i;
  a_X20 := S "s.X20" i; a_X2c := S "s.X2c" i; a_X2s := S "s.X2s" i;
  a_Y20 := S "s.Y20" i; a_Y2c := S "s.Y2c" i; a_Y2s := S "s.Y2s" i;
  a_Z20 := S "s.Z20" i; a_Z2c := S "s.Z2c" i; a_Z2s := S "s.Z2s" i;
  a_dX20 := S "s.d_X20_d_varphi" i; a_dX2c := S "s.d_X2c_d_varphi" i; a_dX2s := S "s.d_X2s_d_varphi" i;
  a_dY20 := S "s.d_Y20_d_varphi" i; a_dY2c := S "s.d_Y2c_d_varphi" i; a_dY2s := S "s.d_Y2s_d_varphi" i;
  a_dZ20 := S "s.d_Z20_d_varphi" i; a_dZ2c := S "s.d_Z2c_d_varphi" i; a_dZ2s := S "s.d_Z2s_d_varphi" i;
  a_X3c1 := S "s.X3c1" i; a_Y3c1 := S "s.Y3c1" i; a_Y3s1 := S "s.Y3s1" i;
  a_dX3c1 := S "s.d_X3c1_d_varphi" i; a_dY3c1 := S "s.d_Y3c1_d_varphi" i; a_dY3s1 := S "s.d_Y3s1_d_varphi" i
|}.

(* the same with the second- and higher-order shape attributes replaced by ARBITRARY numbers: an order-r1
   claim must hold whatever they are ("determinacy": a coefficient belongs to order rN iff it does not
   involve shape coefficients of order > N) *)
Definition with_first_order {I : Type} (S : string -> I -> R) (i : I) (b : atoms) : atoms := {|
  a_kap := S "s.curvature" i; a_tau := S "s.torsion" i; a_lp := S "s.abs_G0_over_B0" i;
  a_iotaN := S "s.iotaN" i; a_iota := a_iota b;
  a_B0 := S "s.B0" i; a_eta := S "s.etabar" i; a_B20 := a_B20 b; a_B2c := a_B2c b; a_B2s := a_B2s b;
  a_G0 := S "s.G0" i; a_G2 := a_G2 b; a_I2 := S "s.I2" i; a_be := a_be b; a_spsi := S "s.spsi" i;
  a_X1c := S "s.X1c" i; a_Y1c := S "s.Y1c" i; a_Y1s := S "s.Y1s" i;
  a_dX1c := S "s.d_X1c_d_varphi" i; a_dY1c := S "s.d_Y1c_d_varphi" i; a_dY1s := S "s.d_Y1s_d_varphi" i;
  a_X20 := a_X20 b; a_X2c := a_X2c b; a_X2s := a_X2s b; a_Y20 := a_Y20 b; a_Y2c := a_Y2c b; a_Y2s := a_Y2s b;
  a_Z20 := a_Z20 b; a_Z2c := a_Z2c b; a_Z2s := a_Z2s b;
  a_dX20 := a_dX20 b; a_dX2c := a_dX2c b; a_dX2s := a_dX2s b; a_dY20 := a_dY20 b; a_dY2c := a_dY2c b; a_dY2s := a_dY2s b;
  a_dZ20 := a_dZ20 b; a_dZ2c := a_dZ2c b; a_dZ2s := a_dZ2s b;
  a_X3c1 := a_X3c1 b; a_Y3c1 := a_Y3c1 b; a_Y3s1 := a_Y3s1 b;
  a_dX3c1 := a_dX3c1 b; a_dY3c1 := a_dY3c1 b; a_dY3s1 := a_dY3s1 b
|}.
(* second-order attributes from S, third-order ones arbitrary *)
Definition with_second_order {I : Type} (S : string -> I -> R) (i : I) (b : atoms) : atoms :=
  let s := atoms_of S i in
  mkAtoms (a_kap s) (a_tau s) (a_lp s) (a_iotaN s) (a_iota s) (a_B0 s) (a_eta s) (a_B20 s) (a_B2c s) (a_B2s s)
          (a_G0 s) (a_G2 s) (a_I2 s) (a_be s) (a_spsi s) (a_X1c s) (a_Y1c s) (a_Y1s s) (a_dX1c s) (a_dY1c s) (a_dY1s s)
          (a_X20 s) (a_X2c s) (a_X2s s) (a_Y20 s) (a_Y2c s) (a_Y2s s) (a_Z20 s) (a_Z2c s) (a_Z2s s)
          (a_dX20 s) (a_dX2c s) (a_dX2s s) (a_dY20 s) (a_dY2c s) (a_dY2s s) (a_dZ20 s) (a_dZ2c s) (a_dZ2s s)
          (a_X3c1 b) (a_Y3c1 b) (a_Y3s1 b) (a_dX3c1 b) (a_dY3c1 b) (a_dY3s1 b).

Section Claims.
  Context {I : Type} (O : ops I) (S : string -> I -> R).

  (* admissibility of the input, as the property states it *)
  Record admissible : Prop := {
    adm_sG : forall i, S "s.sG" i * S "s.sG" i = 1;
    adm_spsi : forall i, S "s.spsi" i * S "s.spsi" i = 1;
    adm_sG_const : is_const (S "s.sG");
    adm_spsi_const : is_const (S "s.spsi");
    adm_eta_const : is_const (S "s.etabar");
    adm_eta : forall i, S "s.etabar" i <> 0;
    adm_kappa : forall i, S "s.curvature" i <> 0;
    adm_B0 : forall i, 0 < S "s.B0" i;
    adm_lp : forall i, 0 < S "s.abs_G0_over_B0" i;
    adm_dvp : forall i, S "s.d_varphi_d_phi" i <> 0
  }.

  (* the sigma equation holds at the returned solution: the residual program evaluated at
     xs = sigma, xi = iota vanishes (oracle specification of the Newton solve; same as props/C09_spec.v) *)
  Definition sigma_solved (VR : string -> I -> R) : Prop :=
    VR "xs" = S "s.sigma" /\ VR "xi" = S "s.iota" /\ (forall i, VR "r" i = 0)
    /\ (forall i, o_pin O (S "s.sigma") (S "s.sigma0") i = S "s.sigma" i)
    /\ (forall i, S "s.iotaN" i = S "s.iota" i + S "s.helicity" i * S "s.nfp" i).
  (* the value of the sigma-equation residual in terms of outputs only (used for the averaged pol[r^3] identity) *)
  Definition sigma_residual (i : I) : R :=
    o_D O (S "s.sigma") i / S "s.d_varphi_d_phi" i
    + S "s.iotaN" i * (S "s.etabar" i ^ 4 / S "s.curvature" i ^ 4 + 1 + S "s.sigma" i * S "s.sigma" i)
    - 2 * (S "s.etabar" i * S "s.etabar" i / (S "s.curvature" i * S "s.curvature" i))
        * (- S "s.spsi" i * S "s.torsion" i + S "s.I2" i / S "s.B0" i) * S "s.G0" i / S "s.B0" i.

  (* ---------- claims ---------- *)
  (* order r1: every harmonic of the listed powers; second/third-order attributes arbitrary *)
  Definition claims_r1 (a : atoms) : Prop :=
    tzero (pol a 0%nat) /\ tzero (pol a 1%nat) /\ tzero (pol a 2%nat)
    /\ tzero (tor a 0%nat) /\ tzero (tor a 1%nat)
    /\ tzero (rad a 0%nat)
    /\ tzero (jac a 0%nat) /\ tzero (jac a 1%nat)
    /\ tzero (modB a 0%nat) /\ tzero (modB a 1%nat)
    /\ tzero (crl a 0%nat).
  (* the poloidally averaged O(r^2) condition: average of pol[r^3] (equivalently crl[r^1]) *)
  Definition claims_r1_avg (a : atoms) : Prop := tavg (pol a 3%nat) = 0 /\ tzero (crl a 1%nat).
  (* order r2: through O(r^2) in every harmonic; third-order attributes arbitrary *)
  Definition claims_r2 (a : atoms) : Prop :=
    tzero (pol a 3%nat)
    /\ tzero (tor a 2%nat)
    /\ tzero (rad a 1%nat)
    /\ tzero (jac a 2%nat)
    /\ tzero (modB a 2%nat)
    /\ tzero (crl a 2%nat).
  (* order r3: the poloidally averaged O(r^3) toroidal / Jacobian (flux) condition *)
  Definition claims_r3 (a : atoms) : Prop := tavg (tor a 3%nat) = 0 /\ tavg (jac a 3%nat) = 0.
End Claims.
