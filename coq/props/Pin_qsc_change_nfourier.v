(* Source pin: the hand-written model of qsc/qsc.py:change_nfourier was written and validated (correspondence runs evaluated inside Coq, see DESIGN.md 1.1) against the
   source whose normalised syntax tree has this digest (tools/gen_pins.py).  If the function is edited this obligation fails and the check searches
   for a failing input; after re-validating the model against the new source, regenerate with `tools/gen_pins.py --write-props`. *)
From Coq Require Import String.
From QSCGen Require Import G_pins.
Open Scope string_scope.

Lemma pin_qsc_change_nfourier_current : pin_qsc_change_nfourier = "fe678dceeec614822830bf49cc02c40831a3af010a1b506011c67b7e55adb017".
Proof. reflexivity. Qed.
