(* Source pin: the hand-written model of qsc/util.py:to_Fourier was written and validated (correspondence runs evaluated inside Coq, see DESIGN.md 1.1) against the
   source whose normalised syntax tree has this digest (tools/gen_pins.py).  If the function is edited this obligation fails and the check searches
   for a failing input; after re-validating the model against the new source, regenerate with `tools/gen_pins.py --write-props`. *)
From Coq Require Import String.
From QSCGen Require Import G_pins.
Open Scope string_scope.

Lemma pin_to_Fourier_current : pin_to_Fourier = "1559151540d9689b6a3cfafbbe0bc8cef067a5faf77d05be11d7824070ed4ef3".
Proof. reflexivity. Qed.
