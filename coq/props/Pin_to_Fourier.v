(* Source pin: the hand-written model of qsc/util.py:to_Fourier was written and validated (correspondence runs evaluated inside Coq, see DESIGN.md 1.1) against the
   source whose normalised syntax tree has this digest (tools/gen_pins.py).  If the function is edited this obligation fails and the check searches
   for a failing input; after re-validating the model against the new source, regenerate with `tools/gen_pins.py --write-props`. *)
From Coq Require Import String.
From QSCGen Require Import G_pins.
Open Scope string_scope.

Lemma pin_to_Fourier_current : pin_to_Fourier = "f43d3a83ecf76d980b1ce6b073fed5166b1ec5b23ea2fb39b6b17a5b71353ccc".
Proof. reflexivity. Qed.
