(* C14, Fourier clause: "the surface Fourier transform followed by the inverse series reproduces its input on the grid
   for every parity of the poloidal and toroidal grid sizes and both symmetry settings whenever the mode ranges cover the grid".

   Model over R of /repo/qsc/util.py [to_Fourier] and of the inverse series in /repo/qsc/plot.py [get_boundary]
   (lines "for m in range(mpol+1): for n in range(-ntor, ntor+1): angle = m*theta2D - n*nfp*phi2D; R += RBC[n+ntor,m]*cos + RBS[n+ntor,m]*sin").

   Proved here (no axioms beyond the standard Reals ones):
     roundtrip_1d            one-angle analogue, any parity of N (corollaries roundtrip_1d_odd / roundtrip_1d_even)
     roundtrip_2d            inverse(coefC F, coefS F)(theta_j, phi_k) = F j k  for every ntheta, nphi >= 1 (all four parities),
                             nfp >= 1, mpol = ntheta/2, ntor = nphi/2 (integer division)
     roundtrip_R_lasym, roundtrip_Z_lasym     the clause for lasym = true
     roundtrip_R_sym, roundtrip_Z_sym         the clause for lasym = false with stellarator-symmetric data
                                              (R even, Z odd under (theta,phi) -> (-theta,-phi) on the periodic grid)

   "The mode ranges cover the grid" has to be read as mpol = ntheta div 2 and ntor = nphi div 2 EXACTLY: with a larger
   mpol or ntor the extra modes alias onto modes already present and the round trip fails (numpy: ntheta=5, mpol=3 gives an
   O(1) error), see the report of this task. *)
From Coq Require Import Reals ZArith Bool Arith Lra Lia.
From QSC Require Import TrigSum.
Open Scope R_scope.

(* ------------------------------------------------------------------ *)
(* 2-D sums                                                            *)
Definition gridsum (a b : nat) (F : nat -> nat -> R) : R := rsum a (fun j => rsum b (fun k => F j k)).

Lemma gridsum_ext a b F G : (forall j k, (j < a)%nat -> (k < b)%nat -> F j k = G j k) -> gridsum a b F = gridsum a b G.
Proof. intros H. apply rsum_ext. intros j Hj. apply rsum_ext. intros k Hk. apply H; assumption. Qed.

Lemma gridsum_scal_r a b F c : gridsum a b (fun j k => F j k * c) = gridsum a b F * c.
Proof. unfold gridsum. rewrite <- rsum_scal_r. apply rsum_ext. intros j _. apply rsum_scal_r. Qed.

Lemma gridsum_plus a b F G : gridsum a b (fun j k => F j k + G j k) = gridsum a b F + gridsum a b G.
Proof. unfold gridsum. rewrite <- rsum_plus. apply rsum_ext. intros j _. apply rsum_plus. Qed.

Lemma gridsum_zero a b F : (forall j k, (j < a)%nat -> (k < b)%nat -> F j k = 0) -> gridsum a b F = 0.
Proof. intros H. apply rsum_zero. intros j Hj. apply rsum_zero. intros k Hk. apply H; assumption. Qed.

Lemma rsum_gridsum_swap n a b (G : nat -> nat -> nat -> R) :
  rsum n (fun m => gridsum a b (G m)) = gridsum a b (fun j k => rsum n (fun m => G m j k)).
Proof.
  unfold gridsum. rewrite rsum_swap. apply rsum_ext. intros j _. apply rsum_swap.
Qed.

Lemma gridsum_delta a b F j k : (j < a)%nat -> (k < b)%nat ->
  gridsum a b (fun j' k' => F j' k' * (if (j =? j')%nat && (k =? k')%nat then 1 else 0)) = F j k.
Proof.
  intros Hj Hk. unfold gridsum.
  rewrite (rsum_ext a _ (fun j' => if (j' =? j)%nat then F j' k else 0)).
  - apply (rsum_delta a j (fun j' => F j' k)). exact Hj.
  - intros j' _. rewrite (Nat.eqb_sym j j'). destruct (j' =? j)%nat; cbn [andb].
    + rewrite (rsum_ext b _ (fun k' => if (k' =? k)%nat then F j' k' else 0)).
      * apply (rsum_delta b k (fun k' => F j' k')). exact Hk.
      * intros k' _. rewrite (Nat.eqb_sym k k'). destruct (k' =? k)%nat; lra.
    + apply rsum_zero. intros; lra.
Qed.

(* ------------------------------------------------------------------ *)
(* T3: one angle                                                       *)
Section OneD.
  Variables (N M : nat) (f : nat -> R).
  Definition th1 (j : nat) : R := 2 * PI * INR j / INR N.
  (* 2/N, halved at the Nyquist index of an even grid *)
  Definition fac1 (m : nat) : R := 2 / INR N * (if Nat.even N && (m =? N / 2)%nat then / 2 else 1).
  Definition C1 (m : nat) : R :=
    if (m =? 0)%nat then rsum N f / INR N else rsum N (fun j => f j * cos (INR m * th1 j) * fac1 m).
  Definition S1 (m : nat) : R :=
    if (m =? 0)%nat then 0 else rsum N (fun j => f j * sin (INR m * th1 j) * fac1 m).
  Definition inv1 (t : R) : R := rsum (S M) (fun m => C1 m * cos (INR m * t) + S1 m * sin (INR m * t)).

  Lemma fac1_wgt m : (1 <= N)%nat -> (1 <= m)%nat -> fac1 m = wgt N m / INR N.
  Proof.
    intros HN Hm. assert (HN0 := INR_pos_neq0 N HN). unfold fac1, wgt. rewrite nyquist_test.
    destruct (Nat.eqb_spec m 0); [lia|]. destruct (2 * m =? N)%nat; field; exact HN0.
  Qed.

  Theorem roundtrip_1d j : (1 <= N)%nat -> M = (N / 2)%nat -> (j < N)%nat -> inv1 (th1 j) = f j.
  Proof.
    intros HN HM Hj. assert (HN0 := INR_pos_neq0 N HN). unfold inv1.
    rewrite (rsum_ext _ _ (fun m => rsum N (fun j' => f j' * (wgt N m / INR N * cos (INR m * (th1 j - th1 j')))))).
    - rewrite rsum_swap.
      rewrite (rsum_ext N _ (fun j' => if (j' =? j)%nat then f j' else 0)).
      + apply rsum_delta. exact Hj.
      + intros j' Hj'.
        rewrite (rsum_ext _ _ (fun m => (f j' / INR N) * (wgt N m * cos (INR m * (th1 j - th1 j'))))).
        2:{ intros m _. field. exact HN0. }
        rewrite rsum_scal. subst M. unfold th1. rewrite dirichlet_diff by assumption.
        rewrite (Nat.eqb_sym j' j). destruct (j =? j')%nat; field; exact HN0.
    - intros m _. unfold C1, S1. destruct (Nat.eqb_spec m 0) as [->|Hm].
      + simpl (INR 0). replace (0 * th1 j) with 0 by ring. rewrite cos_0, sin_0.
        unfold wgt. simpl (0 =? 0)%nat. cbv iota.
        rewrite (rsum_ext N (fun j' => f j' * (1 / INR N * cos (0 * (th1 j - th1 j')))) (fun j' => f j' * / INR N)).
        * rewrite rsum_scal_r. field. exact HN0.
        * intros j' _. replace (0 * (th1 j - th1 j')) with 0 by ring. rewrite cos_0. field. exact HN0.
      + rewrite fac1_wgt by lia. rewrite <- !rsum_scal_r, <- rsum_plus. apply rsum_ext. intros j' _.
        replace (INR m * (th1 j - th1 j')) with (INR m * th1 j - INR m * th1 j') by ring.
        rewrite cos_minus. field. exact HN0.
  Qed.
End OneD.

Corollary roundtrip_1d_odd M f j : (j < 2 * M + 1)%nat -> inv1 (2 * M + 1) M f (th1 (2 * M + 1) j) = f j.
Proof.
  intros Hj. apply roundtrip_1d; [lia| |exact Hj]. apply (Nat.div_unique (2 * M + 1) 2 M 1); lia.
Qed.

Corollary roundtrip_1d_even M f j : (1 <= M)%nat -> (j < 2 * M)%nat -> inv1 (2 * M) M f (th1 (2 * M) j) = f j.
Proof.
  intros HM Hj. apply roundtrip_1d; [lia| |exact Hj]. apply (Nat.div_unique (2 * M) 2 M 0); lia.
Qed.

(* ------------------------------------------------------------------ *)
(* the double Dirichlet kernel factorises                              *)
Section Kernel.
  Variables (Nt Np M K : nat) (c x y : R) (cf : nat -> Z -> R).
  Hypothesis H00 : cf O 0%Z = c.
  Hypothesis H0p : forall n, (n < K)%nat -> cf O (Z.of_nat (S n)) = c * wgt Np (S n).
  Hypothesis H0n : forall n, (n < K)%nat -> cf O (- Z.of_nat (S n))%Z = 0.
  Hypothesis Hm0 : forall m, (m < M)%nat -> cf (S m) 0%Z = c * wgt Nt (S m).
  Hypothesis Hmp : forall m n, (m < M)%nat -> (n < K)%nat ->
    cf (S m) (Z.of_nat (S n)) = c * wgt Nt (S m) * wgt Np (S n) / 2.
  Hypothesis Hmn : forall m n, (m < M)%nat -> (n < K)%nat ->
    cf (S m) (- Z.of_nat (S n))%Z = c * wgt Nt (S m) * wgt Np (S n) / 2.

  Let Dt := rsum (S M) (fun m => wgt Nt m * cos (INR m * x)).
  Let Dp := rsum (S K) (fun n => wgt Np n * cos (INR n * y)).

  Lemma Dp_head : Dp = 1 + rsum K (fun n => wgt Np (S n) * cos (INR (S n) * y)).
  Proof.
    unfold Dp. rewrite rsum_S_head. unfold wgt at 1. simpl (0 =? 0)%nat. cbv iota.
    simpl (INR 0). rewrite Rmult_0_l, cos_0. lra.
  Qed.

  Lemma Dt_head : Dt = 1 + rsum M (fun m => wgt Nt (S m) * cos (INR (S m) * x)).
  Proof.
    unfold Dt. rewrite rsum_S_head. unfold wgt at 1. simpl (0 =? 0)%nat. cbv iota.
    simpl (INR 0). rewrite Rmult_0_l, cos_0. lra.
  Qed.

  Let inner (m : nat) : R :=
    rsum (2 * K + 1) (fun i => let n := (Z.of_nat i - Z.of_nat K)%Z in cf m n * cos (INR m * x - IZR n * y)).

  Lemma inner_0 : inner O = c * Dp.
  Proof.
    unfold inner. cbv zeta.
    rewrite (rsum_Zsym K (fun n => cf O n * cos (INR 0 * x - IZR n * y))).
    rewrite H00, Dp_head. simpl (INR 0).
    replace (0 * x - 0 * y) with 0 by ring. rewrite cos_0.
    rewrite (rsum_ext K _ (fun n => c * (wgt Np (S n) * cos (INR (S n) * y)))).
    - rewrite rsum_scal. ring.
    - intros n Hn. rewrite H0p, H0n by exact Hn. rewrite <- INR_IZR_INZ.
      replace (0 * x - INR (S n) * y) with (- (INR (S n) * y)) by ring. rewrite cos_neg. ring.
  Qed.

  Lemma inner_S m : (m < M)%nat -> inner (S m) = c * (wgt Nt (S m) * cos (INR (S m) * x)) * Dp.
  Proof.
    intros Hm. unfold inner. cbv zeta.
    rewrite (rsum_Zsym K (fun n => cf (S m) n * cos (INR (S m) * x - IZR n * y))).
    rewrite Hm0 by exact Hm. rewrite Dp_head.
    replace (INR (S m) * x - 0 * y) with (INR (S m) * x) by ring.
    rewrite (rsum_ext K _ (fun n => (c * (wgt Nt (S m) * cos (INR (S m) * x))) * (wgt Np (S n) * cos (INR (S n) * y)))).
    - rewrite rsum_scal. ring.
    - intros n Hn. rewrite Hmp, Hmn by assumption. rewrite opp_IZR, <- INR_IZR_INZ.
      replace (INR (S m) * x - - INR (S n) * y) with (INR (S m) * x + INR (S n) * y) by ring.
      rewrite cos_minus, cos_plus. field.
  Qed.

  Lemma kernel_factor : rsum (S M) inner = c * Dt * Dp.
  Proof.
    rewrite rsum_S_head, inner_0.
    rewrite (rsum_ext M _ (fun m => (c * Dp) * (wgt Nt (S m) * cos (INR (S m) * x)))).
    - rewrite rsum_scal, Dt_head. ring.
    - intros m Hm. rewrite inner_S by exact Hm. ring.
  Qed.
End Kernel.

(* ------------------------------------------------------------------ *)
(* T4: to_Fourier and the inverse series                               *)
Section ToFourier.
  Variables (ntheta nphi nfp mpol ntor : nat).

  (* theta = linspace(0, 2 pi, ntheta, endpoint=False);  phi_conversion = linspace(0, 2 pi / nfp, nphi, endpoint=False) *)
  Definition theta (j : nat) : R := 2 * PI * INR j / INR ntheta.
  Definition phi (k : nat) : R := 2 * PI * INR k / INR nphi / INR nfp.
  (* angle = m * theta2d - n * nfp * phi2d *)
  Definition angle (m : nat) (n : Z) (t p : R) : R := INR m * t - IZR n * (INR nfp * p).
  (* factor = 2 / (ntheta * nphi_conversion);
     if mod(ntheta,2) == 0 and m == ntheta/2: factor2 /= 2;  if mod(nphi,2) == 0 and abs(n) == nphi/2: factor2 /= 2 *)
  Definition factor : R := 2 / (INR ntheta * INR nphi).
  Definition factor2 (m : nat) (n : Z) : R :=
    factor * (if Nat.even ntheta && (m =? ntheta / 2)%nat then / 2 else 1)
           * (if Nat.even nphi && (Z.abs_nat n =? nphi / 2)%nat then / 2 else 1).
  (* entries written by the double loop:  m = 0 -> n in 1..ntor;  m >= 1 -> n in -ntor..ntor.
     (only entries with m <= mpol, |n| <= ntor exist; the inverse reads only those) *)
  Definition in_loop (m : nat) (n : Z) : bool := if (m =? 0)%nat then (1 <=? n)%Z else true.

  Definition gsum2 := gridsum ntheta nphi.

  (* the cosine and sine coefficient arrays of one 2-D data array F (index [n + ntor, m] in the code):
     np.zeros, overwritten in the loop, then entry [ntor, 0] of the cosine array overwritten with the mean *)
  Definition coefC (F : nat -> nat -> R) (n : Z) (m : nat) : R :=
    if (m =? 0)%nat && (n =? 0)%Z then gsum2 F / (INR ntheta * INR nphi)
    else if in_loop m n then gsum2 (fun j k => F j k * cos (angle m n (theta j) (phi k)) * factor2 m n)
    else 0.
  Definition coefS (F : nat -> nat -> R) (n : Z) (m : nat) : R :=
    if in_loop m n then gsum2 (fun j k => F j k * sin (angle m n (theta j) (phi k)) * factor2 m n)
    else 0.

  (* to_Fourier(R_2D, Z_2D, nfp, mpol, ntor, lasym) *)
  Definition zero2 (n : Z) (m : nat) : R := 0.
  Definition RBC (lasym : bool) (R2D Z2D : nat -> nat -> R) := coefC R2D.
  Definition RBS (lasym : bool) (R2D Z2D : nat -> nat -> R) := if lasym then coefS R2D else zero2.
  Definition ZBC (lasym : bool) (R2D Z2D : nat -> nat -> R) := if lasym then coefC Z2D else zero2.
  Definition ZBS (lasym : bool) (R2D Z2D : nat -> nat -> R) := coefS Z2D.

  (* inverse series of get_boundary at the point (t, p) *)
  Definition inverse (C S : Z -> nat -> R) (t p : R) : R :=
    rsum (mpol + 1) (fun m => rsum (2 * ntor + 1) (fun i =>
      let n := (Z.of_nat i - Z.of_nat ntor)%Z in
      C n m * cos (angle m n t p) + S n m * sin (angle m n t p))).

  Hypothesis Hnt : (1 <= ntheta)%nat.
  Hypothesis Hnp : (1 <= nphi)%nat.
  Hypothesis Hnfp : (1 <= nfp)%nat.

  Let y (k : nat) : R := 2 * PI * INR k / INR nphi.
  Lemma nfp_phi k : INR nfp * phi k = y k.
  Proof. unfold phi, y. field. split; apply INR_pos_neq0; assumption. Qed.

  (* effective weight of mode (m, n) *)
  Definition cf (m : nat) (n : Z) : R :=
    if (m =? 0)%nat && (n =? 0)%Z then / (INR ntheta * INR nphi)
    else if in_loop m n then factor2 m n else 0.

  Lemma NN_neq0 : INR ntheta * INR nphi <> 0.
  Proof. apply Rmult_integral_contrapositive; split; apply INR_pos_neq0; assumption. Qed.

  Lemma term_eq F m n j k :
    coefC F n m * cos (angle m n (theta j) (phi k)) + coefS F n m * sin (angle m n (theta j) (phi k))
    = gsum2 (fun j' k' => F j' k' * (cf m n * cos (INR m * (theta j - theta j') - IZR n * (y k - y k')))).
  Proof.
    unfold coefC, coefS, cf.
    destruct ((m =? 0)%nat && (n =? 0)%Z) eqn:E0.
    - apply andb_prop in E0. destruct E0 as [Em En].
      apply Nat.eqb_eq in Em. apply Z.eqb_eq in En. subst m n.
      unfold in_loop. simpl (0 =? 0)%nat. cbv iota. simpl (1 <=? 0)%Z. cbv iota.
      unfold angle. simpl (INR 0). simpl (IZR 0).
      replace (0 * theta j - 0 * (INR nfp * phi k)) with 0 by ring. rewrite cos_0.
      rewrite Rmult_0_l, Rplus_0_r, Rmult_1_r. unfold Rdiv. unfold gsum2. rewrite <- gridsum_scal_r.
      apply gridsum_ext. intros j' k' _ _.
      replace (0 * (theta j - theta j') - 0 * (y k - y k')) with 0 by ring. rewrite cos_0. ring.
    - destruct (in_loop m n).
      + unfold gsum2. rewrite <- !gridsum_scal_r, <- gridsum_plus. apply gridsum_ext. intros j' k' _ _.
        replace (INR m * (theta j - theta j') - IZR n * (y k - y k'))
          with (angle m n (theta j) (phi k) - angle m n (theta j') (phi k'))
          by (unfold angle; rewrite !nfp_phi; ring).
        rewrite cos_minus. ring.
      + rewrite !Rmult_0_l, Rplus_0_r. symmetry. apply gridsum_zero. intros; ring.
  Qed.

  Hypothesis Hmpol : mpol = (ntheta / 2)%nat.
  Hypothesis Hntor : ntor = (nphi / 2)%nat.

  Let c0 : R := / (INR ntheta * INR nphi).

  Ltac nn := first [exact NN_neq0 | split; apply INR_pos_neq0; assumption | apply INR_pos_neq0; assumption].

  Lemma hth0 : Nat.even ntheta && (0 =? ntheta / 2)%nat = false.
  Proof. rewrite nyquist_test. apply Nat.eqb_neq. lia. Qed.
  Lemma hph0 : Nat.even nphi && (0 =? nphi / 2)%nat = false.
  Proof. rewrite nyquist_test. apply Nat.eqb_neq. lia. Qed.

  Lemma factor2_S0 m : factor2 (S m) 0%Z = c0 * wgt ntheta (S m).
  Proof.
    unfold factor2, factor, c0, wgt. simpl (Z.abs_nat 0). rewrite hph0, nyquist_test.
    simpl (S m =? 0)%nat. cbv iota. destruct (2 * S m =? ntheta)%nat; field; nn.
  Qed.

  Lemma factor2_0S n : factor2 O (Z.of_nat (S n)) = c0 * wgt nphi (S n).
  Proof.
    unfold factor2, factor, c0, wgt. rewrite Zabs2Nat.id, hth0, nyquist_test.
    simpl (S n =? 0)%nat. cbv iota. destruct (2 * S n =? nphi)%nat; field; nn.
  Qed.

  Lemma factor2_SS m n (z : Z) : Z.abs_nat z = S n ->
    factor2 (S m) z = c0 * wgt ntheta (S m) * wgt nphi (S n) / 2.
  Proof.
    intros Hz. unfold factor2, factor, c0, wgt. rewrite Hz, !nyquist_test.
    simpl (S m =? 0)%nat. simpl (S n =? 0)%nat. cbv iota.
    destruct (2 * S m =? ntheta)%nat; destruct (2 * S n =? nphi)%nat; field; nn.
  Qed.

  Lemma kernel j j' k k' : (j < ntheta)%nat -> (j' < ntheta)%nat -> (k < nphi)%nat -> (k' < nphi)%nat ->
    rsum (mpol + 1) (fun m => rsum (2 * ntor + 1) (fun i =>
      let n := (Z.of_nat i - Z.of_nat ntor)%Z in
      cf m n * cos (INR m * (theta j - theta j') - IZR n * (y k - y k'))))
    = if (j =? j')%nat && (k =? k')%nat then 1 else 0.
  Proof.
    intros Hj Hj' Hk Hk'. rewrite Nat.add_1_r.
    rewrite (kernel_factor ntheta nphi mpol ntor c0 (theta j - theta j') (y k - y k') cf).
    - rewrite Hmpol, Hntor. unfold theta, y. rewrite !dirichlet_diff by assumption.
      unfold c0. destruct (j =? j')%nat; destruct (k =? k')%nat; cbn [andb]; field; nn.
    - unfold cf. reflexivity.
    - intros n _. unfold cf, in_loop. simpl (0 =? 0)%nat. cbv iota.
      destruct (Z.eqb_spec (Z.of_nat (S n)) 0); [lia|]. cbn [andb].
      destruct (Z.leb_spec 1 (Z.of_nat (S n))); [|lia]. apply factor2_0S.
    - intros n _. unfold cf, in_loop. simpl (0 =? 0)%nat. cbv iota.
      destruct (Z.eqb_spec (- Z.of_nat (S n)) 0); [lia|]. cbn [andb].
      destruct (Z.leb_spec 1 (- Z.of_nat (S n))); [lia|reflexivity].
    - intros m _. unfold cf, in_loop. simpl (S m =? 0)%nat. cbn [andb]. cbv iota. apply factor2_S0.
    - intros m n _ _. unfold cf, in_loop. simpl (S m =? 0)%nat. cbn [andb]. cbv iota.
      apply factor2_SS. apply Zabs2Nat.id.
    - intros m n _ _. unfold cf, in_loop. simpl (S m =? 0)%nat. cbn [andb]. cbv iota.
      apply factor2_SS. lia.
  Qed.

  Theorem roundtrip_2d F j k : (j < ntheta)%nat -> (k < nphi)%nat ->
    inverse (coefC F) (coefS F) (theta j) (phi k) = F j k.
  Proof.
    intros Hj Hk. unfold inverse.
    rewrite (rsum_ext (mpol + 1) _ (fun m => gsum2 (fun j' k' =>
       rsum (2 * ntor + 1) (fun i => let n := (Z.of_nat i - Z.of_nat ntor)%Z in
          F j' k' * (cf m n * cos (INR m * (theta j - theta j') - IZR n * (y k - y k'))))))).
    2:{ intros m _. unfold gsum2. rewrite <- rsum_gridsum_swap. apply rsum_ext. intros i _. cbv zeta. apply term_eq. }
    unfold gsum2. rewrite rsum_gridsum_swap.
    etransitivity; [|apply (gridsum_delta ntheta nphi F j k Hj Hk)].
    apply gridsum_ext. intros j' k' Hj' Hk'.
    rewrite <- (kernel j j' k k') by assumption.
    rewrite <- rsum_scal. apply rsum_ext. intros m _. cbv zeta. rewrite <- rsum_scal. reflexivity.
  Qed.

  (* ---- the property's clause, lasym = true: general data ---- *)
  Corollary roundtrip_R_lasym R2D Z2D j k : (j < ntheta)%nat -> (k < nphi)%nat ->
    inverse (RBC true R2D Z2D) (RBS true R2D Z2D) (theta j) (phi k) = R2D j k.
  Proof. apply roundtrip_2d. Qed.
  Corollary roundtrip_Z_lasym R2D Z2D j k : (j < ntheta)%nat -> (k < nphi)%nat ->
    inverse (ZBC true R2D Z2D) (ZBS true R2D Z2D) (theta j) (phi k) = Z2D j k.
  Proof. apply roundtrip_2d. Qed.
  (* ---- lasym = false: RBS and ZBC are replaced by zero; stellarator-symmetric data ---- *)
  Definition flip (N j : nat) : nat := ((N - j) mod N)%nat.
  (* R(-theta,-phi) = R(theta,phi),  Z(-theta,-phi) = -Z(theta,phi)  on the periodic grid *)
  Definition even2 (F : nat -> nat -> R) : Prop :=
    forall j k, (j < ntheta)%nat -> (k < nphi)%nat -> F (flip ntheta j) (flip nphi k) = F j k.
  Definition odd2 (F : nat -> nat -> R) : Prop :=
    forall j k, (j < ntheta)%nat -> (k < nphi)%nat -> F (flip ntheta j) (flip nphi k) = - F j k.

  Lemma gsum2_flip G : gsum2 G = gsum2 (fun j k => G (flip ntheta j) (flip nphi k)).
  Proof.
    unfold gsum2, gridsum. rewrite (rsum_flip ntheta). apply rsum_ext. intros j _.
    rewrite (rsum_flip nphi). reflexivity.
  Qed.

  Lemma angle_flip m n j k : (j < ntheta)%nat -> (k < nphi)%nat ->
    exists z : Z, angle m n (theta (flip ntheta j)) (phi (flip nphi k))
                  = - angle m n (theta j) (phi k) + 2 * IZR z * PI.
  Proof.
    intros Hj Hk. destruct (grid_angle_flip ntheta j Hj) as [z1 E1]. destruct (grid_angle_flip nphi k Hk) as [z2 E2].
    exists (Z.of_nat m * z1 - n * z2)%Z. unfold angle. rewrite !nfp_phi. unfold theta, y, flip.
    rewrite E1, E2. rewrite minus_IZR, !mult_IZR, <- INR_IZR_INZ. ring.
  Qed.

  Lemma gsum2_antisym G : (forall j k, (j < ntheta)%nat -> (k < nphi)%nat -> G (flip ntheta j) (flip nphi k) = - G j k) ->
    gsum2 G = 0.
  Proof.
    intros H. assert (E : gsum2 G = - gsum2 G).
    { rewrite (gsum2_flip G) at 1. unfold gsum2.
      rewrite (gridsum_ext _ _ _ (fun j k => G j k * -1)).
      - rewrite gridsum_scal_r. ring.
      - intros j k Hj Hk. rewrite H by assumption. ring. }
    lra.
  Qed.

  Lemma coefS_even F : even2 F -> forall n m, coefS F n m = 0.
  Proof.
    intros HF n m. unfold coefS. destruct (in_loop m n); [|reflexivity].
    apply gsum2_antisym. intros j k Hj Hk. rewrite HF by assumption.
    destruct (angle_flip m n j k Hj Hk) as [z ->]. rewrite sin_periodZ, sin_neg. ring.
  Qed.

  Lemma coefC_odd F : odd2 F -> forall n m, coefC F n m = 0.
  Proof.
    intros HF n m. unfold coefC. destruct ((m =? 0)%nat && (n =? 0)%Z).
    - rewrite (gsum2_antisym F HF). unfold Rdiv. ring.
    - destruct (in_loop m n); [|reflexivity].
      apply gsum2_antisym. intros j k Hj Hk. rewrite HF by assumption.
      destruct (angle_flip m n j k Hj Hk) as [z ->]. rewrite cos_periodZ, cos_neg. ring.
  Qed.

  Lemma inverse_ext C S C' S' t p : (forall n m, C n m = C' n m) -> (forall n m, S n m = S' n m) ->
    inverse C S t p = inverse C' S' t p.
  Proof.
    intros HC HS. unfold inverse. apply rsum_ext. intros m _. apply rsum_ext. intros i _. cbv zeta.
    rewrite HC, HS. reflexivity.
  Qed.

  Corollary roundtrip_R_sym R2D Z2D j k : even2 R2D -> (j < ntheta)%nat -> (k < nphi)%nat ->
    inverse (RBC false R2D Z2D) (RBS false R2D Z2D) (theta j) (phi k) = R2D j k.
  Proof.
    intros HR Hj Hk. rewrite <- (roundtrip_2d R2D j k Hj Hk). apply inverse_ext.
    - reflexivity.
    - intros n m. unfold RBS, zero2. symmetry. apply coefS_even. exact HR.
  Qed.

  Corollary roundtrip_Z_sym R2D Z2D j k : odd2 Z2D -> (j < ntheta)%nat -> (k < nphi)%nat ->
    inverse (ZBC false R2D Z2D) (ZBS false R2D Z2D) (theta j) (phi k) = Z2D j k.
  Proof.
    intros HZ Hj Hk. rewrite <- (roundtrip_2d Z2D j k Hj Hk). apply inverse_ext.
    - intros n m. unfold ZBC, zero2. symmetry. apply coefC_odd. exact HZ.
    - reflexivity.
  Qed.
End ToFourier.

(* ------------------------------------------------------------------ *)
(* The hypotheses mpol = ntheta/2, ntor = nphi/2 cannot be weakened to ">=": an extra mode aliases onto one already present.
   Smallest instances (a 1 x 1 grid): the "round trip" returns three times the datum. *)
Example overresolved_mpol_fails F :
  inverse 1 1 0 (coefC 1 1 1 F) (coefS 1 1 1 F) (theta 1 0) (phi 1 1 0) = 3 * F O O.
Proof.
  assert (Et : theta 1 0 = 0) by (unfold theta; simpl; field).
  assert (Ep : phi 1 1 0 = 0) by (unfold phi; simpl; field).
  assert (Ea : forall m n, angle 1 m n 0 0 = 0) by (intros; unfold angle; ring).
  unfold inverse, coefC, coefS, gsum2, gridsum. rewrite Et, Ep.
  cbn [rsum Nat.add Nat.mul]. cbv zeta. simpl (Z.of_nat 0 - Z.of_nat 0)%Z.
  rewrite !Ea, cos_0, sin_0.
  unfold factor2, factor, in_loop. simpl. rewrite Et, Ep, !Ea, cos_0, sin_0. field.
Qed.

Example overresolved_ntor_fails F :
  inverse 1 0 1 (coefC 1 1 1 F) (coefS 1 1 1 F) (theta 1 0) (phi 1 1 0) = 3 * F O O.
Proof.
  assert (Et : theta 1 0 = 0) by (unfold theta; simpl; field).
  assert (Ep : phi 1 1 0 = 0) by (unfold phi; simpl; field).
  assert (Ea : forall m n, angle 1 m n 0 0 = 0) by (intros; unfold angle; ring).
  unfold inverse, coefC, coefS, gsum2, gridsum. rewrite Et, Ep.
  cbn [rsum Nat.add Nat.mul]. cbv zeta.
  simpl (Z.of_nat 0 - Z.of_nat 1)%Z. simpl (Z.of_nat 1 - Z.of_nat 1)%Z. simpl (Z.of_nat 2 - Z.of_nat 1)%Z.
  rewrite !Ea, cos_0, sin_0.
  unfold factor2, factor, in_loop. simpl. rewrite Et, Ep, !Ea, cos_0, sin_0. field.
Qed.
