(* C01 (split for parallel compilation): shared tactics, quotient rule, fact records (axis, r1, r2, r3) and the stage lemmas for init_axis / r1_diagnostics *)
From Coq Require Import Reals String List Lra Lia QArith Qreals FunctionalExtensionality.
From QSC Require Import Expr Shallow Series.
From QSCGen Require Import G_init_axis G_r1_diagnostics G_residual G_calculate_r2 G_calculate_r3.
From QSCProps Require Import C04_spec C01_spec.
Open Scope R_scope.
Open Scope string_scope.


(* rewrite every attribute read S "s.x" into V "s.x" (inverse of Shallow.to_state) *)
Ltac from_state Hst :=
  repeat match goal with
         | |- context [?S0 (String ?a ?b)] =>
             lazymatch type of Hst with
             | stage _ _ S0 ?V =>
                 let x := constr:(String a b) in
                 let t := eval vm_compute in (is_attr x) in
                 lazymatch t with
                 | true => rewrite <- (st_agree _ _ _ _ Hst x (eq_refl true))
                 end
             end
         end.

Lemma Q2R_0 : Q2R (0#1) = 0.
Proof. unfold Q2R; simpl; lra. Qed.

Lemma sq1_cases (x : R) : x * x = 1 -> x = 1 \/ x = -1.
Proof.
  intros H. assert (H0 : (x - 1) * (x + 1) = 0) by (ring_simplify; rewrite <- H; ring).
  apply Rmult_integral in H0. destruct H0; [left|right]; lra.
Qed.


(* ------------------------------------------------------------------------------------------ *)
(* derivations: quotient rule *)
Section Deriv.
  Context {I : Type} (O : ops I) (HD : derivation O).
  Lemma D_inv (f : I -> R) : (forall k, f k <> 0) -> forall i, o_D O (fun k => / f k) i = - o_D O f i / (f i * f i).
  Proof.
    intros Hf i.
    assert (H1 : o_D O (fun k => f k * / f k) i = 0).
    { replace (fun k => f k * / f k) with (fun _ : I => 1).
      - apply (D_const O HD).
      - apply functional_extensionality; intros k. field. apply Hf. }
    rewrite (D_mul O HD f (fun k => / f k) i) in H1.
    assert (H2 : o_D O (fun k => / f k) i = - (o_D O f i * / f i) / f i).
    { apply (Rmult_eq_reg_l (f i)); [|apply Hf].
      transitivity (- (o_D O f i * / f i)); [lra | field; apply Hf]. }
    rewrite H2. field. apply Hf.
  Qed.
End Deriv.

(* ------------------------------------------------------------------------------------------ *)
(* Facts extracted from the stages, as equations on the object state *)
Section Facts.
  Context {I : Type} (O : ops I) (S : string -> I -> R).
  Definition Dv (f : I -> R) (i : I) : R := o_D O f i / S "s.d_varphi_d_phi" i.

  Record axis_facts : Prop := {
    ax_X1c : S "s.X1c" = fun i => S "s.etabar" i / S "s.curvature" i;
    ax_G0 : S "s.G0" = fun i => S "s.sG" i * S "s.abs_G0_over_B0" i * S "s.B0" i;
    ax_E : S "s.etabar_squared_over_curvature_squared"
           = fun i => S "s.etabar" i * S "s.etabar" i / (S "s.curvature" i * S "s.curvature" i)
  }.
  Record r1_facts : Prop := {
    r1_Y1s : S "s.Y1s" = fun i => S "s.sG" i * S "s.spsi" i * S "s.curvature" i / S "s.etabar" i;
    r1_Y1c : S "s.Y1c" = fun i => S "s.sG" i * S "s.spsi" i * S "s.curvature" i * S "s.sigma" i / S "s.etabar" i;
    r1_dX1c : forall i, S "s.d_X1c_d_varphi" i = Dv (S "s.X1c") i;
    r1_dY1s : forall i, S "s.d_Y1s_d_varphi" i = Dv (S "s.Y1s") i;
    r1_dY1c : forall i, S "s.d_Y1c_d_varphi" i = Dv (S "s.Y1c") i
  }.

  Lemma axis_facts_of_stage VA : stage O init_axis S VA -> axis_facts.
  Proof.
    intros HA. pose proof (st_fix _ _ _ _ HA) as HV.
    constructor.
    - from_state HA. unfold_fixes O init_axis HV ("s.X1c" :: "s.curvature" :: nil)%list. reflexivity.
    - from_state HA. unfold_fixes O init_axis HV ("s.G0" :: "G0" :: "s.abs_G0_over_B0" :: nil)%list. reflexivity.
    - from_state HA.
      unfold_fixes O init_axis HV ("s.etabar_squared_over_curvature_squared" :: "s.curvature" :: nil)%list. reflexivity.
  Qed.

  Ltac prove_r1 P H1 :=
    let HV := fresh "HV" in
    pose proof (st_fix _ _ _ _ H1) as HV;
    constructor;
    [ from_state H1; unfold_fix O P HV "s.Y1s"; reflexivity
    | from_state H1; unfold_fix O P HV "s.Y1c"; reflexivity
    | intros i; unfold Dv; from_state H1; unfold_fix O P HV "s.d_X1c_d_varphi"; reflexivity
    | intros i; unfold Dv; from_state H1; unfold_fix O P HV "s.d_Y1s_d_varphi"; reflexivity
    | intros i; unfold Dv; from_state H1; unfold_fix O P HV "s.d_Y1c_d_varphi"; reflexivity ].
  Lemma r1_facts_of_stage_h0 V1 : stage O r1_diagnostics_h0 S V1 -> r1_facts.
  Proof. intros H1. prove_r1 r1_diagnostics_h0 H1. Qed.
  Lemma r1_facts_of_stage_hN V1 : stage O r1_diagnostics_hN S V1 -> r1_facts.
  Proof. intros H1. prove_r1 r1_diagnostics_hN H1. Qed.
End Facts.

(* compute a coefficient of a residual series as an explicit real expression in the atoms *)
Ltac compute_coef := cbv -[Rplus Rmult Ropp Rinv Rminus Rdiv IZR pow o_D Dv sigma_residual].

(* ------------------------------------------------------------------------------------------ *)
(* Second order: facts extracted from calculate_r2 *)
Section Facts2.
  Context {I : Type} (O : ops I) (S : string -> I -> R).
  Notation kap := (S "s.curvature"). Notation eta := (S "s.etabar"). Notation sig := (S "s.sigma").
  Notation sG := (S "s.sG"). Notation spsi := (S "s.spsi"). Notation tau := (S "s.torsion").
  Notation B0 := (S "s.B0"). Notation iotaN := (S "s.iotaN").
  Notation X1c := (S "s.X1c"). Notation Y1c := (S "s.Y1c"). Notation Y1s := (S "s.Y1s").
  (* the code's local B0_over_abs_G0 and abs_G0_over_B0 *)
  Definition bl (i : I) : R := S "s.B0" i / Rabs (S "s.G0" i).
  Definition ll (i : I) : R := 1 / bl i.
  Definition q_s i := - iotaN i * X1c i - Y1s i * tau i * ll i.
  Definition q_c i := Dv O S X1c i - Y1c i * tau i * ll i.
  Definition r_s i := Dv O S Y1s i - iotaN i * Y1c i.
  Definition r_c i := Dv O S Y1c i + iotaN i * Y1s i + X1c i * tau i * ll i.

  Record r2_facts : Prop := {
    r2_Z20 : forall i, S "s.Z20" i = - bl i / 8 * Dv O S (fun k => X1c k * X1c k + Y1c k * Y1c k + Y1s k * Y1s k) i;
    r2_Z2s : forall i, S "s.Z2s" i = - bl i / 8 * (Dv O S (fun k => 2 * Y1s k * Y1c k) i
                                   - 2 * iotaN i * (X1c i * X1c i + Y1c i * Y1c i - Y1s i * Y1s i));
    r2_Z2c : forall i, S "s.Z2c" i = - bl i / 8 * (Dv O S (fun k => X1c k * X1c k + Y1c k * Y1c k - Y1s k * Y1s k) i
                                   + 2 * iotaN i * (2 * Y1s i * Y1c i));
    r2_X2s : forall i, S "s.X2s" i = bl i * (S "s.d_Z2s_d_varphi" i - 2 * iotaN i * S "s.Z2c" i
                 + bl i * (ll i * ll i * S "s.B2s" i / B0 i + (q_c i * q_s i + r_c i * r_s i) / 2)) / kap i;
    r2_X2c : forall i, S "s.X2c" i = bl i * (S "s.d_Z2c_d_varphi" i + 2 * iotaN i * S "s.Z2s" i
                 - bl i * (- ll i * ll i * S "s.B2c" i / B0 i + ll i * ll i * eta i * eta i / 2
                           - (q_c i * q_c i - q_s i * q_s i + r_c i * r_c i - r_s i * r_s i) / 4)) / kap i;
    r2_Y2s : forall i, S "s.Y2s" i = alg_Y2s S "s.X20" i;
    r2_Y2c : forall i, S "s.Y2c" i = alg_Y2c S "s.X20" "s.Y20" i;
    r2_B20 : forall i, S "s.B20" i = B0 i * (kap i * S "s.X20" i - bl i * S "s.d_Z20_d_varphi" i + eta i * eta i / 2
                 - mu0R * S "s.p2" i / (B0 i * B0 i)
                 - bl i * bl i / 4 * (q_c i * q_c i + q_s i * q_s i + r_c i * r_c i + r_s i * r_s i));
    r2_G2 : forall i, S "s.G2" i = - mu0R * S "s.p2" i * S "s.G0" i / (B0 i * B0 i) - S "s.iota" i * S "s.I2" i;
    r2_dX20 : forall i, S "s.d_X20_d_varphi" i = Dv O S (S "s.X20") i;
    r2_dX2s : forall i, S "s.d_X2s_d_varphi" i = Dv O S (S "s.X2s") i;
    r2_dX2c : forall i, S "s.d_X2c_d_varphi" i = Dv O S (S "s.X2c") i;
    r2_dY20 : forall i, S "s.d_Y20_d_varphi" i = Dv O S (S "s.Y20") i;
    r2_dY2s : forall i, S "s.d_Y2s_d_varphi" i = Dv O S (S "s.Y2s") i;
    r2_dY2c : forall i, S "s.d_Y2c_d_varphi" i = Dv O S (S "s.Y2c") i;
    r2_ode1 : forall i, ode1 O S "s.X20" "s.Y20" i = 0;
    r2_ode2 : forall i, ode2 O S "s.X20" "s.Y20" i = 0
  }.
End Facts2.

(* replace every attribute value [S name i] by an opaque variable (string-indexed atoms are large terms;
   [field] and [subst] are much faster on variables) *)
Ltac abs_atom S i name := let v := fresh "v" in set (v := S name i) in *; clearbody v.
Ltac abs_atoms S i :=
  abs_atom S i "s.curvature"; abs_atom S i "s.torsion"; abs_atom S i "s.abs_G0_over_B0"; abs_atom S i "s.iotaN"; abs_atom S i "s.iota";
  abs_atom S i "s.B0"; abs_atom S i "s.etabar"; abs_atom S i "s.B20"; abs_atom S i "s.B2c"; abs_atom S i "s.B2s"; abs_atom S i "s.G0"; abs_atom S i "s.G2";
  abs_atom S i "s.I2"; abs_atom S i "s.beta_1s"; abs_atom S i "s.spsi"; abs_atom S i "s.sG"; abs_atom S i "s.sigma"; abs_atom S i "s.p2";
  abs_atom S i "s.X1c"; abs_atom S i "s.Y1c"; abs_atom S i "s.Y1s"; abs_atom S i "s.d_X1c_d_varphi"; abs_atom S i "s.d_Y1c_d_varphi"; abs_atom S i "s.d_Y1s_d_varphi";
  abs_atom S i "s.X20"; abs_atom S i "s.X2c"; abs_atom S i "s.X2s"; abs_atom S i "s.Y20"; abs_atom S i "s.Y2c"; abs_atom S i "s.Y2s";
  abs_atom S i "s.Z20"; abs_atom S i "s.Z2c"; abs_atom S i "s.Z2s";
  abs_atom S i "s.d_X20_d_varphi"; abs_atom S i "s.d_X2c_d_varphi"; abs_atom S i "s.d_X2s_d_varphi";
  abs_atom S i "s.d_Y20_d_varphi"; abs_atom S i "s.d_Y2c_d_varphi"; abs_atom S i "s.d_Y2s_d_varphi";
  abs_atom S i "s.d_Z20_d_varphi"; abs_atom S i "s.d_Z2c_d_varphi"; abs_atom S i "s.d_Z2s_d_varphi";
  abs_atom S i "s.X3c1"; abs_atom S i "s.Y3c1"; abs_atom S i "s.Y3s1"; abs_atom S i "s.flux_constraint_coefficient";
  abs_atom S i "s.d_varphi_d_phi".

(* ------------------------------------------------------------------------------------------ *)
(* Third order: facts extracted from calculate_r3 *)
Section Facts3.
  Context {I : Type} (O : ops I) (S : string -> I -> R).
  (* the flux-constraint coefficient lambda, as written in calculate_r3 *)
  Definition lam_code (i : I) : R :=
    let B0 := S "s.B0" i in let G0 := S "s.G0" i in let I2 := S "s.I2" i in let iotaN := S "s.iotaN" i in
    let lp := S "s.abs_G0_over_B0" i in let tau := S "s.torsion" i in let B1c := S "s.etabar" i * S "s.B0" i in
    let B20 := S "s.B20" i in
    let X1c := S "s.X1c" i in let Y1c := S "s.Y1c" i in let Y1s := S "s.Y1s" i in
    let dX1c := S "s.d_X1c_d_varphi" i in let dY1c := S "s.d_Y1c_d_varphi" i in
    let X20 := S "s.X20" i in let X2c := S "s.X2c" i in let X2s := S "s.X2s" i in
    let Y20 := S "s.Y20" i in let Y2c := S "s.Y2c" i in let Y2s := S "s.Y2s" i in
    let Z20 := S "s.Z20" i in let Z2c := S "s.Z2c" i in let Z2s := S "s.Z2s" i in
    (-4*B0^2*G0*X20^2*Y1c^2 + 8*B0^2*G0*X20*X2c*Y1c^2 - 4*B0^2*G0*X2c^2*Y1c^2 - 4*B0^2*G0*X2s^2*Y1c^2 + 8*B0*G0*B1c*X1c*X2s*Y1c*Y1s + 16*B0^2*G0*X20*X2s*Y1c*Y1s + 2*B0^2*I2*iotaN*X1c^2*Y1s^2 - G0*B1c^2*X1c^2*Y1s^2 - 4*B0*G0*B20*X1c^2*Y1s^2 - 8*B0*G0*B1c*X1c*X20*Y1s^2 - 4*B0^2*G0*X20^2*Y1s^2 - 8*B0*G0*B1c*X1c*X2c*Y1s^2 - 8*B0^2*G0*X20*X2c*Y1s^2 - 4*B0^2*G0*X2c^2*Y1s^2 - 4*B0^2*G0*X2s^2*Y1s^2 + 8*B0^2*G0*X1c*X20*Y1c*Y20 - 8*B0^2*G0*X1c*X2c*Y1c*Y20 - 8*B0^2*G0*X1c*X2s*Y1s*Y20 - 4*B0^2*G0*X1c^2*Y20^2 - 8*B0^2*G0*X1c*X20*Y1c*Y2c + 8*B0^2*G0*X1c*X2c*Y1c*Y2c + 24*B0^2*G0*X1c*X2s*Y1s*Y2c + 8*B0^2*G0*X1c^2*Y20*Y2c - 4*B0^2*G0*X1c^2*Y2c^2 + 8*B0^2*G0*X1c*X2s*Y1c*Y2s - 8*B0*G0*B1c*X1c^2*Y1s*Y2s - 8*B0^2*G0*X1c*X20*Y1s*Y2s - 24*B0^2*G0*X1c*X2c*Y1s*Y2s - 4*B0^2*G0*X1c^2*Y2s^2 - 4*B0^2*G0*X1c^2*Z20^2 - 4*B0^2*G0*Y1c^2*Z20^2 - 4*B0^2*G0*Y1s^2*Z20^2 - 4*B0^2*lp*I2*Y1c*Y1s*Z2c + 8*B0^2*G0*X1c^2*Z20*Z2c + 8*B0^2*G0*Y1c^2*Z20*Z2c - 8*B0^2*G0*Y1s^2*Z20*Z2c - 4*B0^2*G0*X1c^2*Z2c^2 - 4*B0^2*G0*Y1c^2*Z2c^2 - 4*B0^2*G0*Y1s^2*Z2c^2 + 2*B0^2*lp*I2*X1c^2*Z2s + 2*B0^2*lp*I2*Y1c^2*Z2s - 2*B0^2*lp*I2*Y1s^2*Z2s + 16*B0^2*G0*Y1c*Y1s*Z20*Z2s - 4*B0^2*G0*X1c^2*Z2s^2 - 4*B0^2*G0*Y1c^2*Z2s^2 - 4*B0^2*G0*Y1s^2*Z2s^2 + B0^2*lp*I2*X1c^3*Y1s*tau + B0^2*lp*I2*X1c*Y1c^2*Y1s*tau + B0^2*lp*I2*X1c*Y1s^3*tau - B0^2*I2*X1c*Y1c*Y1s*dX1c + B0^2*I2*X1c^2*Y1s*dY1c)/(16*B0^2*G0*X1c^2*Y1s^2).

  Record r3_facts : Prop := {
    r3_X3c1 : forall i, S "s.X3c1" i = S "s.X1c" i * S "s.flux_constraint_coefficient" i;
    r3_Y3c1 : forall i, S "s.Y3c1" i = S "s.Y1c" i * S "s.flux_constraint_coefficient" i;
    r3_Y3s1 : forall i, S "s.Y3s1" i = S "s.Y1s" i * S "s.flux_constraint_coefficient" i;
    r3_lam : forall i, S "s.flux_constraint_coefficient" i = lam_code i
  }.
End Facts3.
