(* C04: the system assembled by calculate_r2 IS the O(r^2) system (for every linear
   differentiation operator, hence every grid size and matrix), and the closed forms.
   Statements quantify over the index type I, the operator structure O, and every model V
   of the program generated from the current source (Shallow.is_fix); the final
   environment of a run is such a model (Shallow.runG_is_fix). *)
From Coq Require Import Reals String List Lra QArith Qreals.
From QSC Require Import Expr Shallow.
From QSCGen Require Import G_calculate_r2.
From QSCProps Require Import C04_spec.
Open Scope R_scope.
Open Scope string_scope.

(* names whose definitions are unfolded; everything else stays an atom *)
Ltac prep O P HV :=
  unfold_fixes O P HV
    ("fX0_from_X20" :: "fX0_from_Y20" :: "fX0_inhomogeneous"
     :: "fXs_from_X20" :: "fXs_from_Y20" :: "fXs_inhomogeneous"
     :: "fXc_from_X20" :: "fXc_from_Y20" :: "fXc_inhomogeneous"
     :: "fY0_from_X20" :: "fY0_from_Y20" :: "fY0_inhomogeneous"
     :: "fYs_from_X20" :: "fYs_from_Y20" :: "fYs_inhomogeneous"
     :: "fYc_from_X20" :: "fYc_from_Y20" :: "fYc_inhomogeneous"
     :: "s.X20" :: "X20" :: "s.Y20" :: "Y20" :: "s.Y2s" :: "Y2s" :: "s.Y2c" :: "Y2c" :: "X20" :: "Y20"
     :: "s.X2s" :: "s.X2c" :: "s.Z20" :: "s.Z2s" :: "s.Z2c" :: "s.beta_1s"
     :: "X1c" :: "Y1s" :: "Y1c" :: "torsion" :: "curvature" :: "iota_N" :: "spsi" :: "sG"
     :: "I2_over_B0" :: "abs_G0_over_B0" :: "B0_over_abs_G0" :: nil)%list.

Ltac prove_ode O HL P HV eqname :=
  intros i; unfold ode1, ode2, fX0, fXs, fXc, fY0, fYs, fYc, Dv, lp;
  unfold_fix O P HV eqname; prep O P HV;
  rewrite !(D_add O HL); qsimp; unfold Rdiv; ring.

Ltac prove_alg O P HV :=
  intros i; unfold alg_Y2s, alg_Y2c;
  unfold_fixes O P HV ("s.Y2s" :: "Y2s" :: "s.Y2c" :: "Y2c" :: "Y2s_inhomogeneous" :: "Y2s_from_X20"
                 :: "Y2c_inhomogeneous" :: "Y2c_from_X20" :: "s.X20" :: "X20" :: "s.Y20" :: "Y20" :: "s.X2s" :: "s.X2c"
                 :: "sigma" :: "curvature" :: "etabar" :: "spsi" :: "sG" :: nil)%list;
  qsimp; unfold Rdiv; ring.

Lemma ssa_h0 : ssa calculate_r2_h0 = true. Proof. vm_compute. reflexivity. Qed.
Lemma ssa_hN : ssa calculate_r2_hN = true. Proof. vm_compute. reflexivity. Qed.

Section Proofs.
  Context {I : Type} (O : ops I) (HL : linear O) (V : string -> I -> R).

  Section H0.
  Hypothesis HV : is_fix O calculate_r2_h0 V.
  Theorem C04_ode1_h0 : forall i, V "solve1_eq0" i = ode1 O V "s.X20" "s.Y20" i.
  Proof. prove_ode O HL calculate_r2_h0 HV "solve1_eq0". Qed.
  Theorem C04_ode2_h0 : forall i, V "solve1_eq1" i = ode2 O V "s.X20" "s.Y20" i.
  Proof. prove_ode O HL calculate_r2_h0 HV "solve1_eq1". Qed.
  Theorem C04_alg_h0 : forall i, V "s.Y2s" i = alg_Y2s V "s.X20" i /\ V "s.Y2c" i = alg_Y2c V "s.X20" "s.Y20" i.
  Proof. intros i; split; revert i; prove_alg O calculate_r2_h0 HV. Qed.
  Theorem C04_G2_h0 : forall i, V "s.G2" i = G2_closed V i.
  Proof. intros i. unfold G2_closed. unfold_fixes O calculate_r2_h0 HV ("s.G2" :: "p2" :: "G0" :: "B0" :: "iota" :: "I2" :: nil)%list. qsimp. unfold Rdiv; ring. Qed.
  Theorem C04_beta_h0 : forall i, V "s.B0" i <> 0 -> V "s.G0" i <> 0 -> V "s.iotaN" i <> 0 -> V "s.beta_1s" i = beta_closed V i.
  Proof.
    intros i HB HG Hi. unfold beta_closed.
    unfold_fixes O calculate_r2_h0 HV ("s.beta_1s" :: "beta_1s" :: "spsi" :: "sG" :: "p2" :: "etabar" :: "abs_G0_over_B0" :: "B0_over_abs_G0" :: "iota_N" :: "B0" :: nil)%list.
    qsimp. field. repeat split; try assumption. apply Rabs_no_R0; assumption.
  Qed.
  Theorem C04_B20stats_h0 : forall i,
    V "s.B20_mean" i = B20_mean_spec O V i /\ V "s.B20_residual" i = B20_residual_spec O V i
    /\ V "s.B20_variation" i = B20_variation_spec O V i.
  Proof.
    intros i. unfold B20_mean_spec, B20_residual_spec, B20_variation_spec, wmean.
    unfold_fixes O calculate_r2_h0 HV ("s.B20_variation" :: "s.B20_residual" :: "s.B20_mean" :: "normalizer" :: "s.B20" :: "d_l_d_phi" :: "B0" :: nil)%list.
    qsimp. repeat split; reflexivity.
  Qed.
  End H0.

  Section HN.
  Hypothesis HV : is_fix O calculate_r2_hN V.
  Theorem C04_ode1_hN : forall i, V "solve1_eq0" i = ode1 O V "s.X20" "s.Y20" i.
  Proof. prove_ode O HL calculate_r2_hN HV "solve1_eq0". Qed.
  Theorem C04_ode2_hN : forall i, V "solve1_eq1" i = ode2 O V "s.X20" "s.Y20" i.
  Proof. prove_ode O HL calculate_r2_hN HV "solve1_eq1". Qed.
  Theorem C04_alg_hN : forall i, V "s.Y2s" i = alg_Y2s V "s.X20" i /\ V "s.Y2c" i = alg_Y2c V "s.X20" "s.Y20" i.
  Proof. intros i; split; revert i; prove_alg O calculate_r2_hN HV. Qed.
  Theorem C04_G2_hN : forall i, V "s.G2" i = G2_closed V i.
  Proof. intros i. unfold G2_closed. unfold_fixes O calculate_r2_hN HV ("s.G2" :: "p2" :: "G0" :: "B0" :: "iota" :: "I2" :: nil)%list. qsimp. unfold Rdiv; ring. Qed.
  Theorem C04_beta_hN : forall i, V "s.B0" i <> 0 -> V "s.G0" i <> 0 -> V "s.iotaN" i <> 0 -> V "s.beta_1s" i = beta_closed V i.
  Proof.
    intros i HB HG Hi. unfold beta_closed.
    unfold_fixes O calculate_r2_hN HV ("s.beta_1s" :: "beta_1s" :: "spsi" :: "sG" :: "p2" :: "etabar" :: "abs_G0_over_B0" :: "B0_over_abs_G0" :: "iota_N" :: "B0" :: nil)%list.
    qsimp. field. repeat split; try assumption. apply Rabs_no_R0; assumption.
  Qed.
  Theorem C04_B20stats_hN : forall i,
    V "s.B20_mean" i = B20_mean_spec O V i /\ V "s.B20_residual" i = B20_residual_spec O V i
    /\ V "s.B20_variation" i = B20_variation_spec O V i.
  Proof.
    intros i. unfold B20_mean_spec, B20_residual_spec, B20_variation_spec, wmean.
    unfold_fixes O calculate_r2_hN HV ("s.B20_variation" :: "s.B20_residual" :: "s.B20_mean" :: "normalizer" :: "s.B20" :: "d_l_d_phi" :: "B0" :: nil)%list.
    qsimp. repeat split; reflexivity.
  Qed.
  End HN.
End Proofs.

(* Closed statement: for every index type, every LINEAR differentiation operator (in
   particular every grid size and matrix), every input environment: if the dense solve
   returns a solution of the assembled system, the returned shape functions satisfy the two
   differential equations and the two algebraic constraints at every grid point. *)
Definition C04_statement (P : prog) : Prop :=
  forall (I : Type) (O : ops I), linear O -> forall rho : @envG I,
    let V := runG O P rho in
    (forall i, V "solve1_eq0" i = 0) -> (forall i, V "solve1_eq1" i = 0) ->
    forall i, ode1 O V "s.X20" "s.Y20" i = 0 /\ ode2 O V "s.X20" "s.Y20" i = 0
              /\ V "s.Y2s" i = alg_Y2s V "s.X20" i /\ V "s.Y2c" i = alg_Y2c V "s.X20" "s.Y20" i.

Theorem C04_system_h0 : C04_statement calculate_r2_h0.
Proof.
  intros I O HL rho V H1 H2 i. pose proof (runG_is_fix O _ rho ssa_h0) as HV.
  rewrite <- (C04_ode1_h0 O HL _ HV), <- (C04_ode2_h0 O HL _ HV), H1, H2.
  destruct (C04_alg_h0 O _ HV i). auto.
Qed.
Theorem C04_system_hN : C04_statement calculate_r2_hN.
Proof.
  intros I O HL rho V H1 H2 i. pose proof (runG_is_fix O _ rho ssa_hN) as HV.
  rewrite <- (C04_ode1_hN O HL _ HV), <- (C04_ode2_hN O HL _ HV), H1, H2.
  destruct (C04_alg_hN O _ HV i). auto.
Qed.
Definition C04_closed_forms (P : prog) : Prop :=
  forall (I : Type) (O : ops I) (rho : @envG I), let V := runG O P rho in forall i,
    V "s.G2" i = G2_closed V i
    /\ (V "s.B0" i <> 0 -> V "s.G0" i <> 0 -> V "s.iotaN" i <> 0 -> V "s.beta_1s" i = beta_closed V i)
    /\ V "s.B20_mean" i = B20_mean_spec O V i /\ V "s.B20_residual" i = B20_residual_spec O V i
    /\ V "s.B20_variation" i = B20_variation_spec O V i.
Theorem C04_closed_h0 : C04_closed_forms calculate_r2_h0.
Proof.
  intros I O rho V i. pose proof (runG_is_fix O _ rho ssa_h0) as HV.
  split; [apply (C04_G2_h0 O _ HV)|]. split; [apply (C04_beta_h0 O _ HV)|]. apply (C04_B20stats_h0 O _ HV).
Qed.
Theorem C04_closed_hN : C04_closed_forms calculate_r2_hN.
Proof.
  intros I O rho V i. pose proof (runG_is_fix O _ rho ssa_hN) as HV.
  split; [apply (C04_G2_hN O _ HV)|]. split; [apply (C04_beta_hN O _ HV)|]. apply (C04_B20stats_hN O _ HV).
Qed.
Print Assumptions C04_closed_h0.
Print Assumptions C04_closed_hN.
Print Assumptions C04_system_h0.
Print Assumptions C04_system_hN.
