(* C12 (completeness): the FIRST zero of the truncated Jacobian is among the candidates of calculate_r_singularity.
   props/C12_firstzero.v (pure analysis): for g0 <> 0, if J(r,theta) = g0 + r g1c cos(theta) + r^2 (g20 + g2s sin(2 theta) + g2c cos(2 theta))
   vanishes for some r > 0 then the set of such r has a least element rc > 0, and at rc the zero is a DOUBLE root in theta.
   props/C12_quartic.v (regenerated program): a double root makes sin(2 theta) a root of the quartic whose coefficient columns the program
   hands to polyroots.  Together: for every run of the translated function and every grid point, the smallest positive radius at which the
   truncated Jacobian (with the program's own g0, g1c, g20, g2s, g2c) vanishes is attained at an angle whose sin(2 theta) is a root of the
   program's quartic -- no candidate smaller than the true first zero can be the true one, and the true one is never missed by the quartic.
   (That the root SELECTION keeps it is the subject of theories/RootSelect.v.) *)
From Coq Require Import Reals String List Lra.
From QSC Require Import Expr Shallow.
From QSCGen Require Import G_calculate_r_singularity.
From QSCProps Require Import C12_quartic C12_firstzero.
Open Scope R_scope.
Open Scope string_scope.

Theorem C12_first_zero_is_quartic_root : forall (I : Type) (O : ops I) (rho : @envG I) (i : I),
  let V := runG O calculate_r_singularity rho in
  let Ji := J (V "g0" i) (V "g1c" i) (V "g20" i) (V "g2s" i) (V "g2c" i) in
  V "g0" i <> 0 ->
  (exists r t, 0 < r /\ Ji r t = 0) ->
  exists rc c s,
    0 < rc /\ c*c + s*s = 1 /\
    (* rc is a zero radius, attained at the angle (c, s) ... *)
    V "g0" i + rc * V "g1c" i * c + rc*rc*(V "g20" i + V "g2s" i * (2*s*c) + V "g2c" i * (c*c - s*s)) = 0 /\
    (* ... it is the first one ... *)
    (forall r t, 0 < r < rc -> Ji r t <> 0) /\
    (* ... and w = sin(2 theta) is a root of the quartic the program solves at this grid point *)
    let w := 2*s*c in
    V "coefficients_0#2" i + V "coefficients_1#2" i * w + V "coefficients_2#2" i * (w*w)
      + V "coefficients_3#2" i * (w*w*w) + V "coefficients_4#2" i * (w*w*w*w) = 0.
Proof.
  intros I O rho i V Ji H0 Hex.
  destruct (first_zero_meets_quartic_hypotheses _ _ _ _ _ H0 Hex) as [rc [c [s [Hrc [H1 [Hg [Hd Hb]]]]]]].
  exists rc, c, s. split; [exact Hrc|]. split; [exact H1|]. split; [exact Hg|]. split; [exact Hb|].
  exact (C12_quartic_run I O rho i rc c s H1 Hg Hd).
Qed.

(* the sentinel case: no positive zero of the truncated Jacobian means no double root either, so every candidate the quartic produces is spurious *)
Theorem C12_no_zero_no_candidate : forall (g0 g1c g20 g2s g2c : R),
  (forall r t, 0 < r -> J g0 g1c g20 g2s g2c r t <> 0) ->
  forall r t, 0 < r -> ~ (J g0 g1c g20 g2s g2c r t = 0 /\ dJ g0 g1c g20 g2s g2c r t = 0).
Proof. intros g0 g1c g20 g2s g2c H r t Hr [HJ _]. exact (H r t Hr HJ). Qed.

Print Assumptions C12_first_zero_is_quartic_root.
Print Assumptions C12_no_zero_no_candidate.
