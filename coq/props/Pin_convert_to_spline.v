(* Source pin: the hand-written model of qsc/init_axis.py:convert_to_spline was written and validated (correspondence runs evaluated inside Coq, see DESIGN.md 1.1) against the
   source whose normalised syntax tree has this digest (tools/gen_pins.py).  If the function is edited this obligation fails and the check searches
   for a failing input; after re-validating the model against the new source, regenerate with `tools/gen_pins.py --write-props`. *)
From Coq Require Import String.
From QSCGen Require Import G_pins.
Open Scope string_scope.

Lemma pin_convert_to_spline_current : pin_convert_to_spline = "43463a52b99eb8fb28a2f0a3848e0eab6345e508a6a6dac077c6266608cccdb4".
Proof. reflexivity. Qed.
