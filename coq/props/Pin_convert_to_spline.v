(* Source pin: the hand-written model of qsc/init_axis.py:convert_to_spline was written and validated (correspondence runs evaluated inside Coq, see DESIGN.md 1.1) against the
   source whose normalised syntax tree has this digest (tools/gen_pins.py).  If the function is edited this obligation fails and the check searches
   for a failing input; after re-validating the model against the new source, regenerate with `tools/gen_pins.py --write-props`. *)
From Coq Require Import String.
From QSCGen Require Import G_pins.
Open Scope string_scope.

Lemma pin_convert_to_spline_current : pin_convert_to_spline = "e9a2b0b96780d3173f7267a1fcc66b74bda9c7c9c57a9f9cd84a34a0ac7baf19".
Proof. reflexivity. Qed.
