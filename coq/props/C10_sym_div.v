(* C10 (a) symmetry in the two derivative indices and (b) gradient of div B. *)
From Coq Require Import Reals String List Lra Lia QArith Qreals FunctionalExtensionality.
From QSC Require Import Expr Shallow.
From QSCGen Require Import G_init_axis G_r1_diagnostics G_calculate_r2 G_residual G_calculate_grad_grad_B_tensor G_calculate_grad_B_tensor.
From QSCProps Require Import C10_spec C10_common.
Open Scope R_scope.
Open Scope string_scope.

Section Part.
  Context {I : Type} (O : ops I) (HD : derivation O) (S VA V1 V2 : string -> I -> R).
  Hypothesis Hadm : admissible S.
  Hypothesis HA : stage O init_axis S VA.
  Hypothesis H1 : stage O r1_diagnostics_h0 S V1 \/ stage O r1_diagnostics_hN S V1.
  Hypothesis H2 : stage O calculate_r2_h0 S V2 \/ stage O calculate_r2_hN S V2.
  Notation Dv := (Dv O S).
  Notation sG := (S "s.sG"). Notation spsi := (S "s.spsi"). Notation kap := (S "s.curvature").
  Notation etabar := (S "s.etabar"). Notation X1c := (S "s.X1c"). Notation Y1s := (S "s.Y1s"). Notation Y1c := (S "s.Y1c").
  Notation aGB := (S "s.abs_G0_over_B0"). Notation B0 := (S "s.B0").
  Local Notation F_X1c := (C10_common.F_X1c O HD S VA V1 V2 Hadm HA H1 H2).
  Local Notation F_G0 := (C10_common.F_G0 O HD S VA V1 V2 Hadm HA H1 H2).
  Local Notation F_dldvp := (C10_common.F_dldvp O HD S VA V1 V2 Hadm HA H1 H2).
  Local Notation F_absG0 := (C10_common.F_absG0 O HD S VA V1 V2 Hadm HA H1 H2).
  Local Notation X1c_nz := (C10_common.X1c_nz O HD S VA V1 V2 Hadm HA H1 H2).
  Local Notation F_Y1s := (C10_common.F_Y1s O HD S VA V1 V2 Hadm HA H1 H2).
  Local Notation F_Y1c := (C10_common.F_Y1c O HD S VA V1 V2 Hadm HA H1 H2).
  Local Notation F_dX1c := (C10_common.F_dX1c O HD S VA V1 V2 Hadm HA H1 H2).
  Local Notation F_dY1s := (C10_common.F_dY1s O HD S VA V1 V2 Hadm HA H1 H2).
  Local Notation F_dY1c := (C10_common.F_dY1c O HD S VA V1 V2 Hadm HA H1 H2).
  Local Notation F_dX20 := (C10_common.F_dX20 O HD S VA V1 V2 Hadm HA H1 H2).
  Local Notation F_dX2s := (C10_common.F_dX2s O HD S VA V1 V2 Hadm HA H1 H2).
  Local Notation F_dX2c := (C10_common.F_dX2c O HD S VA V1 V2 Hadm HA H1 H2).
  Local Notation F_dY20 := (C10_common.F_dY20 O HD S VA V1 V2 Hadm HA H1 H2).
  Local Notation F_dY2s := (C10_common.F_dY2s O HD S VA V1 V2 Hadm HA H1 H2).
  Local Notation F_dY2c := (C10_common.F_dY2c O HD S VA V1 V2 Hadm HA H1 H2).
  Local Notation F_dZ20 := (C10_common.F_dZ20 O HD S VA V1 V2 Hadm HA H1 H2).
  Local Notation F_dZ2s := (C10_common.F_dZ2s O HD S VA V1 V2 Hadm HA H1 H2).
  Local Notation F_dZ2c := (C10_common.F_dZ2c O HD S VA V1 V2 Hadm HA H1 H2).
  Local Notation F_dkap := (C10_common.F_dkap O HD S VA V1 V2 Hadm HA H1 H2).
  Local Notation F_dtau := (C10_common.F_dtau O HD S VA V1 V2 Hadm HA H1 H2).
  Local Notation F_d2X1c := (C10_common.F_d2X1c O HD S VA V1 V2 Hadm HA H1 H2).
  Local Notation F_d2Y1s := (C10_common.F_d2Y1s O HD S VA V1 V2 Hadm HA H1 H2).
  Local Notation F_d2Y1c := (C10_common.F_d2Y1c O HD S VA V1 V2 Hadm HA H1 H2).
  Local Notation F_Y2s := (C10_common.F_Y2s O HD S VA V1 V2 Hadm HA H1 H2).
  Local Notation F_Y2c := (C10_common.F_Y2c O HD S VA V1 V2 Hadm HA H1 H2).
  Local Notation sGspsi_const := (C10_common.sGspsi_const O HD S VA V1 V2 Hadm HA H1 H2).
  Local Notation R_XY := (C10_common.R_XY O HD S VA V1 V2 Hadm HA H1 H2).
  Local Notation R_dXY := (C10_common.R_dXY O HD S VA V1 V2 Hadm HA H1 H2).
  Local Notation R_d2XY := (C10_common.R_d2XY O HD S VA V1 V2 Hadm HA H1 H2).
  Local Notation R_kX := (C10_common.R_kX O HD S VA V1 V2 Hadm HA H1 H2).
  Local Notation R_dkX := (C10_common.R_dkX O HD S VA V1 V2 Hadm HA H1 H2).
  Local Notation S_Y1s := (C10_common.S_Y1s O HD S VA V1 V2 Hadm HA H1 H2).
  Local Notation S_dY1s := (C10_common.S_dY1s O HD S VA V1 V2 Hadm HA H1 H2).
  Local Notation S_d2Y1s := (C10_common.S_d2Y1s O HD S VA V1 V2 Hadm HA H1 H2).
  Local Notation S_kap := (C10_common.S_kap O HD S VA V1 V2 Hadm HA H1 H2).
  Local Notation S_dkap := (C10_common.S_dkap O HD S VA V1 V2 Hadm HA H1 H2).
  Local Notation R_Y2s := (C10_common.R_Y2s O HD S VA V1 V2 Hadm HA H1 H2).
  Local Notation R_Y2c := (C10_common.R_Y2c O HD S VA V1 V2 Hadm HA H1 H2).
  Local Notation R_dY2s := (C10_common.R_dY2s O HD S VA V1 V2 Hadm HA H1 H2).
  Local Notation R_dY2c := (C10_common.R_dY2c O HD S VA V1 V2 Hadm HA H1 H2).
  Local Notation sG_nz := (C10_common.sG_nz O HD S VA V1 V2 Hadm HA H1 H2).
  Local Notation spsi_nz := (C10_common.spsi_nz O HD S VA V1 V2 Hadm HA H1 H2).
  Ltac dv_push := dv_push_ O HD.
  Ltac both tac := destruct H2 as [H|H]; [tac calculate_r2_h0 H | tac calculate_r2_hN H].
  Ltac nz := repeat split; first [apply X1c_nz | apply sG_nz | apply spsi_nz | apply (adm_eta S Hadm) | apply (adm_kappa S Hadm)
                                 | apply Rgt_not_eq, (adm_B0 S Hadm) | apply Rgt_not_eq, (adm_lp S Hadm) | lra].
  Ltac fin := rewrite ?F_d2X1c, ?F_d2Y1s, ?F_d2Y1c, ?F_dX1c, ?F_dY1s, ?F_dY1c, ?F_dkap, ?F_dtau; unfold Rdiv; ring.
  (* ---- the tensor entries ---- *)
  Variable VG : string -> I -> R.
  Hypothesis HG : stage O calculate_grad_grad_B_tensor S VG.
  Ltac gg_locals := unfold_fixes O calculate_grad_grad_B_tensor (st_fix _ _ _ _ HG)
    ("X1c" :: "Y1s" :: "Y1c" :: "X20" :: "X2s" :: "X2c" :: "Y20" :: "Y2s" :: "Y2c" :: "Z20" :: "Z2s" :: "Z2c" :: "iota_N0" :: "iota" :: "lp" :: "curvature" :: "torsion" :: "sign_G" :: "sign_psi" :: "B0" :: "G0" :: "I2" :: "G2" :: "p2" :: "B20" :: "B2s" :: "B2c" :: "d_X1c_d_varphi" :: "d_Y1s_d_varphi" :: "d_Y1c_d_varphi" :: "d_X20_d_varphi" :: "d_X2s_d_varphi" :: "d_X2c_d_varphi" :: "d_Y20_d_varphi" :: "d_Y2s_d_varphi" :: "d_Y2c_d_varphi" :: "d_Z20_d_varphi" :: "d_Z2s_d_varphi" :: "d_Z2c_d_varphi" :: "d2_X1c_d_varphi2" :: "d2_Y1s_d_varphi2" :: "d2_Y1c_d_varphi2" :: "d_curvature_d_varphi" :: "d_torsion_d_varphi" :: nil)%list.
  (* S "s.grad_grad_B.." i  -->  its formula over the object state *)
  Ltac gg_entry a l :=
    rewrite <- (st_agree _ _ _ _ HG a eq_refl);
    unfold_fixes O calculate_grad_grad_B_tensor (st_fix _ _ _ _ HG) (a :: l :: nil)%list.
  Ltac close i :=
    rewrite ?R_dY2s, ?R_dY2c, ?R_Y2s, ?R_Y2c, ?S_d2Y1s, ?S_dY1s, ?S_Y1s, ?S_dkap, ?S_kap, ?F_absG0, ?F_G0;
    pose proof (adm_sG S Hadm i) as Es; pose proof (adm_spsi S Hadm i) as Ep;
    qsimp; field [Es Ep]; nz.
  Ltac two a b c d :=
    intros i; gg_entry a b; gg_entry c d; gg_locals; to_state HG; close i.
  Lemma sym_010 : forall i, S "s.grad_grad_B_0_1_0" i = S "s.grad_grad_B_1_0_0" i.
  Proof. two "s.grad_grad_B_0_1_0" "grad_grad_B_0_1_0#2" "s.grad_grad_B_1_0_0" "grad_grad_B_1_0_0#2". Qed.
  Lemma sym_011 : forall i, S "s.grad_grad_B_0_1_1" i = S "s.grad_grad_B_1_0_1" i.
  Proof. two "s.grad_grad_B_0_1_1" "grad_grad_B_0_1_1#2" "s.grad_grad_B_1_0_1" "grad_grad_B_1_0_1#2". Qed.
  Lemma sym_012 : forall i, S "s.grad_grad_B_0_1_2" i = S "s.grad_grad_B_1_0_2" i.
  Proof. two "s.grad_grad_B_0_1_2" "grad_grad_B_0_1_2#2" "s.grad_grad_B_1_0_2" "grad_grad_B_1_0_2#2". Qed.
  Lemma sym_020 : forall i, S "s.grad_grad_B_0_2_0" i = S "s.grad_grad_B_2_0_0" i.
  Proof. two "s.grad_grad_B_0_2_0" "grad_grad_B_0_2_0#2" "s.grad_grad_B_2_0_0" "grad_grad_B_2_0_0#2". Qed.
  Lemma sym_021 : forall i, S "s.grad_grad_B_0_2_1" i = S "s.grad_grad_B_2_0_1" i.
  Proof. two "s.grad_grad_B_0_2_1" "grad_grad_B_0_2_1#2" "s.grad_grad_B_2_0_1" "grad_grad_B_2_0_1#2". Qed.
  Lemma sym_022 : forall i, S "s.grad_grad_B_0_2_2" i = S "s.grad_grad_B_2_0_2" i.
  Proof. two "s.grad_grad_B_0_2_2" "grad_grad_B_0_2_2#2" "s.grad_grad_B_2_0_2" "grad_grad_B_2_0_2#2". Qed.
  Lemma sym_120 : forall i, S "s.grad_grad_B_1_2_0" i = S "s.grad_grad_B_2_1_0" i.
  Proof. two "s.grad_grad_B_1_2_0" "grad_grad_B_1_2_0#2" "s.grad_grad_B_2_1_0" "grad_grad_B_2_1_0#2". Qed.
  Lemma sym_121 : forall i, S "s.grad_grad_B_1_2_1" i = S "s.grad_grad_B_2_1_1" i.
  Proof. two "s.grad_grad_B_1_2_1" "grad_grad_B_1_2_1#2" "s.grad_grad_B_2_1_1" "grad_grad_B_2_1_1#2". Qed.
  Lemma sym_122 : forall i, S "s.grad_grad_B_1_2_2" i = S "s.grad_grad_B_2_1_2" i.
  Proof. two "s.grad_grad_B_1_2_2" "grad_grad_B_1_2_2#2" "s.grad_grad_B_2_1_2" "grad_grad_B_2_1_2#2". Qed.
  Theorem C10_sym12_p : sym12 S.
  Proof.
    intros i a b c Ha Hb Hc. unfold G.
    destruct a as [|[|[|a]]]; try lia; destruct b as [|[|[|b]]]; try lia; destruct c as [|[|[|c]]]; try lia;
      first [reflexivity|apply sym_010|apply sym_011|apply sym_012|apply sym_020|apply sym_021|apply sym_022|apply sym_120|apply sym_121|apply sym_122|symmetry; apply sym_010|symmetry; apply sym_011|symmetry; apply sym_012|symmetry; apply sym_020|symmetry; apply sym_021|symmetry; apply sym_022|symmetry; apply sym_120|symmetry; apply sym_121|symmetry; apply sym_122].
  Qed.
  Ltac three a b c d e f :=
    intros i; gg_entry a b; gg_entry c d; gg_entry e f; gg_locals; to_state HG; close i.
  Lemma div_0 : forall i, S "s.grad_grad_B_0_0_0" i + S "s.grad_grad_B_0_1_1" i + S "s.grad_grad_B_0_2_2" i = 0.
  Proof. three "s.grad_grad_B_0_0_0" "grad_grad_B_0_0_0#2" "s.grad_grad_B_0_1_1" "grad_grad_B_0_1_1#2" "s.grad_grad_B_0_2_2" "grad_grad_B_0_2_2#2". Qed.
  Lemma div_1 : forall i, S "s.grad_grad_B_1_0_0" i + S "s.grad_grad_B_1_1_1" i + S "s.grad_grad_B_1_2_2" i = 0.
  Proof. three "s.grad_grad_B_1_0_0" "grad_grad_B_1_0_0#2" "s.grad_grad_B_1_1_1" "grad_grad_B_1_1_1#2" "s.grad_grad_B_1_2_2" "grad_grad_B_1_2_2#2". Qed.
  Lemma div_2 : forall i, S "s.grad_grad_B_2_0_0" i + S "s.grad_grad_B_2_1_1" i + S "s.grad_grad_B_2_2_2" i = 0.
  Proof. three "s.grad_grad_B_2_0_0" "grad_grad_B_2_0_0#2" "s.grad_grad_B_2_1_1" "grad_grad_B_2_1_1#2" "s.grad_grad_B_2_2_2" "grad_grad_B_2_2_2#2". Qed.
  Theorem C10_divfree_p : divfree S.
  Proof.
    intros i a Ha. unfold G.
    destruct a as [|[|[|a]]]; try lia; first [apply div_0|apply div_1|apply div_2].
  Qed.
End Part.
