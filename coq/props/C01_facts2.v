(* C01 (split for parallel compilation): facts extracted from calculate_r2 (both helicity variants) *)
From Coq Require Import Reals String List Lra Lia QArith Qreals FunctionalExtensionality.
From QSC Require Import Expr Shallow Series.
From QSCGen Require Import G_init_axis G_r1_diagnostics G_residual G_calculate_r2 G_calculate_r3.
From QSCProps Require Import C04_spec C01_spec C01_common.
Open Scope R_scope.
Open Scope string_scope.

Section Facts2s.
  Context {I : Type} (O : ops I) (S : string -> I -> R).
  Notation kap := (S "s.curvature"). Notation eta := (S "s.etabar"). Notation sig := (S "s.sigma").
  Notation sG := (S "s.sG"). Notation spsi := (S "s.spsi"). Notation tau := (S "s.torsion").
  Notation B0 := (S "s.B0"). Notation iotaN := (S "s.iotaN").
  Notation X1c := (S "s.X1c"). Notation Y1c := (S "s.Y1c"). Notation Y1s := (S "s.Y1s").
  (* the code's local B0_over_abs_G0 and abs_G0_over_B0 *)
  Hypothesis HL : linear O.

  Ltac core P HV H2 l :=
    intros i; unfold q_s, q_c, r_s, r_c, ll, bl, alg_Y2s, alg_Y2c; unfold Dv; from_state H2; unfold_fixes O P HV l; qsimp; unfold Rdiv; try reflexivity; ring.
  Ltac prep O P HV :=
    unfold_fixes O P HV
      ("fX0_from_X20" :: "fX0_from_Y20" :: "fX0_inhomogeneous"
       :: "fXs_from_X20" :: "fXs_from_Y20" :: "fXs_inhomogeneous"
       :: "fXc_from_X20" :: "fXc_from_Y20" :: "fXc_inhomogeneous"
       :: "fY0_from_X20" :: "fY0_from_Y20" :: "fY0_inhomogeneous"
       :: "fYs_from_X20" :: "fYs_from_Y20" :: "fYs_inhomogeneous"
       :: "fYc_from_X20" :: "fYc_from_Y20" :: "fYc_inhomogeneous"
       :: "s.X20" :: "X20" :: "s.Y20" :: "Y20" :: "s.Y2s" :: "Y2s" :: "s.Y2c" :: "Y2c" :: "X20" :: "Y20"
       :: "s.X2s" :: "s.X2c" :: "s.Z20" :: "s.Z2s" :: "s.Z2c" :: "s.beta_1s"
       :: "X1c" :: "Y1s" :: "Y1c" :: "torsion" :: "curvature" :: "iota_N" :: "spsi" :: "sG"
       :: "I2_over_B0" :: "abs_G0_over_B0" :: "B0_over_abs_G0" :: nil)%list.
  Ltac prove_ode P HV H2 Hz eqname :=
    intros i; rewrite <- (Hz i);
    unfold ode1, ode2, fX0, fXs, fXc, fY0, fYs, fYc, C04_spec.Dv, C04_spec.lp; from_state H2;
    unfold_fix O P HV eqname; prep O P HV;
    rewrite !(D_add O HL); qsimp; unfold Rdiv; ring.
  Ltac prove_r2 P H2 Hz0 Hz1 :=
    let HV := fresh "HV" in
    pose proof (st_fix _ _ _ _ H2) as HV;
    constructor;
    [ core P HV H2 ("s.Z20" :: "Z20" :: "factor" :: "V1" :: "B0_over_abs_G0" :: "X1c" :: "Y1c" :: "Y1s" :: nil)%list
    | core P HV H2 ("s.Z2s" :: "Z2s" :: "factor" :: "V2" :: "V3" :: "B0_over_abs_G0" :: "iota_N" :: "X1c" :: "Y1c" :: "Y1s" :: nil)%list
    | core P HV H2 ("s.Z2c" :: "Z2c" :: "factor" :: "V2" :: "V3" :: "B0_over_abs_G0" :: "iota_N" :: "X1c" :: "Y1c" :: "Y1s" :: nil)%list
    | core P HV H2 ("s.X2s" :: "X2s" :: "s.d_Z2s_d_varphi" :: "s.Z2c" :: "qc" :: "qs" :: "rc" :: "rs" :: "abs_G0_over_B0" :: "B0_over_abs_G0"
                     :: "iota_N" :: "B2s" :: "B0" :: "curvature" :: "torsion" :: "X1c" :: "Y1c" :: "Y1s" :: nil)%list
    | core P HV H2 ("s.X2c" :: "X2c" :: "s.d_Z2c_d_varphi" :: "s.Z2s" :: "qc" :: "qs" :: "rc" :: "rs" :: "abs_G0_over_B0" :: "B0_over_abs_G0"
                     :: "iota_N" :: "B2c" :: "B0" :: "etabar" :: "curvature" :: "torsion" :: "X1c" :: "Y1c" :: "Y1s" :: nil)%list
    | core P HV H2 ("s.Y2s" :: "Y2s" :: "Y2s_inhomogeneous" :: "Y2s_from_X20" :: "s.X20" :: "X20" :: "s.X2s" :: "s.X2c"
                     :: "sigma" :: "curvature" :: "etabar" :: "spsi" :: "sG" :: nil)%list
    | core P HV H2 ("s.Y2c" :: "Y2c" :: "Y2c_inhomogeneous" :: "Y2c_from_X20" :: "s.X20" :: "X20" :: "s.Y20" :: "Y20" :: "s.X2s" :: "s.X2c"
                     :: "sigma" :: "curvature" :: "etabar" :: "spsi" :: "sG" :: nil)%list
    | core P HV H2 ("s.B20" :: "B20" :: "s.X20" :: "X20" :: "s.d_Z20_d_varphi" :: "qc" :: "qs" :: "rc" :: "rs" :: "abs_G0_over_B0" :: "B0_over_abs_G0"
                     :: "iota_N" :: "p2" :: "B0" :: "etabar" :: "curvature" :: "torsion" :: "X1c" :: "Y1c" :: "Y1s" :: nil)%list
    | core P HV H2 ("s.G2" :: "p2" :: "G0" :: "B0" :: "iota" :: "I2" :: nil)%list
    | core P HV H2 ("s.d_X20_d_varphi" :: "s.X20" :: nil)%list
    | core P HV H2 ("s.d_X2s_d_varphi" :: "s.X2s" :: nil)%list
    | core P HV H2 ("s.d_X2c_d_varphi" :: "s.X2c" :: nil)%list
    | core P HV H2 ("s.d_Y20_d_varphi" :: "s.Y20" :: nil)%list
    | core P HV H2 ("s.d_Y2s_d_varphi" :: "s.Y2s" :: nil)%list
    | core P HV H2 ("s.d_Y2c_d_varphi" :: "s.Y2c" :: nil)%list
    | prove_ode P HV H2 Hz0 "solve1_eq0"
    | prove_ode P HV H2 Hz1 "solve1_eq1" ].

  Lemma r2_facts_of_stage_h0 V2 : stage O calculate_r2_h0 S V2 ->
    (forall i, V2 "solve1_eq0" i = 0) -> (forall i, V2 "solve1_eq1" i = 0) -> r2_facts O S.
  Proof. intros H2 Hz0 Hz1. prove_r2 calculate_r2_h0 H2 Hz0 Hz1. Qed.
  Lemma r2_facts_of_stage_hN V2 : stage O calculate_r2_hN S V2 ->
    (forall i, V2 "solve1_eq0" i = 0) -> (forall i, V2 "solve1_eq1" i = 0) -> r2_facts O S.
  Proof. intros H2 Hz0 Hz1. prove_r2 calculate_r2_hN H2 Hz0 Hz1. Qed.
End Facts2s.
