(* C14 (construction clauses), on the programs regenerated from Frenet_to_cylindrical.py:
   (1) both point functions (the residual handed to the root finder and the final converter) evaluate the SAME point
       r0 + X n + Y b (+ Z t), in Cartesian components, from the same spline values; the quantity whose root is sought is the
       cylindrical angle of that very point minus the target, so a zero residual means the returned point has the target angle;
   (2) the series X(theta), Y(theta), Z(theta) assembled by Frenet_to_cylindrical and by to_RZ are the prescribed
       r, r^2, r^3 harmonics of the untwisted coefficients, and the two functions assemble identical series. *)
From Coq Require Import Reals String List Lra QArith Qreals.
From QSC Require Import Expr Shallow.
From QSCGen Require Import G_Frenet_to_cylindrical_1_point G_Frenet_to_cylindrical_residual_func G_Frenet_to_cylindrical G_to_RZ.
Open Scope R_scope.
Open Scope string_scope.

Section Point.
  Context {I : Type} (O : ops I) (V : string -> I -> R).
  Notation sp x := (V (x ++ "@phi0")).
  (* Cartesian components of  r0 + X n + Y b + [Z t]  at axis angle phi0, vectors given by cylindrical components *)
  Definition px (withZ : bool) i :=
    (sp "R0_func" i + sp "X_spline" i * sp "normal_R_spline" i + sp "Y_spline" i * sp "binormal_R_spline" i
       + (if withZ then sp "Z_spline" i * sp "tangent_R_spline" i else 0)) * cos (V "phi0" i)
    - (sp "X_spline" i * sp "normal_phi_spline" i + sp "Y_spline" i * sp "binormal_phi_spline" i
       + (if withZ then sp "Z_spline" i * sp "tangent_phi_spline" i else 0)) * sin (V "phi0" i).
  Definition py (withZ : bool) i :=
    (sp "R0_func" i + sp "X_spline" i * sp "normal_R_spline" i + sp "Y_spline" i * sp "binormal_R_spline" i
       + (if withZ then sp "Z_spline" i * sp "tangent_R_spline" i else 0)) * sin (V "phi0" i)
    + (sp "X_spline" i * sp "normal_phi_spline" i + sp "Y_spline" i * sp "binormal_phi_spline" i
       + (if withZ then sp "Z_spline" i * sp "tangent_phi_spline" i else 0)) * cos (V "phi0" i).
  Definition pz (withZ : bool) i :=
    sp "Z0_func" i + sp "X_spline" i * sp "normal_z_spline" i + sp "Y_spline" i * sp "binormal_z_spline" i
    + (if withZ then sp "Z_spline" i * sp "tangent_z_spline" i else 0).
End Point.

Ltac point_tac O P HV names := intros i; unfold px, py, pz; let l := eval cbv in names in unfold_fixes O P HV l; cbn [append]; ring.

Definition ptnames := ("total_x#2" :: "total_y#2" :: "total_z#2" :: "total_x" :: "total_y" :: "total_z" :: "tangent_x" :: "tangent_y" :: "normal_x" :: "normal_y" :: "binormal_x" :: "binormal_y"
   :: "R0_at_phi0" :: "z0_at_phi0" :: "X_at_phi0" :: "Y_at_phi0" :: "Z_at_phi0" :: "normal_R" :: "normal_phi" :: "normal_z" :: "binormal_R" :: "binormal_phi" :: "binormal_z"
   :: "tangent_R" :: "tangent_phi" :: "tangent_z" :: "sinphi0" :: "cosphi0" :: nil)%list.

Section PointProofs.
  Context {I : Type} (O : ops I) (V : string -> I -> R).
  (* final converter *)
  Theorem C14_point_r1 : is_fix O Frenet_to_cylindrical_1_point_r1 V ->
    forall i, V "total_x" i = px V false i /\ V "total_y" i = py V false i /\ V "total_z" i = pz V false i.
  Proof. intros HV i. repeat split; revert i; point_tac O Frenet_to_cylindrical_1_point_r1 HV ptnames. Qed.
  Theorem C14_point_r2 : is_fix O Frenet_to_cylindrical_1_point_r2 V ->
    forall i, V "total_x#2" i = px V true i /\ V "total_y#2" i = py V true i /\ V "total_z#2" i = pz V true i.
  Proof. intros HV i. repeat split; revert i; point_tac O Frenet_to_cylindrical_1_point_r2 HV ptnames. Qed.
  (* the returned R is the cylindrical radius of that point and the returned angle is atan2 of exactly (y, x) *)
  Theorem C14_point_R_r2 : is_fix O Frenet_to_cylindrical_1_point_r2 V ->
    forall i, V "s.ret0" i = sqrt (px V true i * px V true i + py V true i * py V true i)
              /\ V "s.ret1" i = pz V true i /\ V "atan2_x" i = px V true i /\ V "atan2_y" i = py V true i.
  Proof.
    intros HV i. destruct (C14_point_r2 HV i) as [Hx [Hy Hz]]. rewrite <- Hx, <- Hy, <- Hz.
    unfold_fixes O Frenet_to_cylindrical_1_point_r2 HV ("s.ret0" :: "s.ret1" :: "total_R" :: "atan2_x" :: "atan2_y" :: nil)%list.
    repeat split; reflexivity.
  Qed.
  Theorem C14_point_R_r1 : is_fix O Frenet_to_cylindrical_1_point_r1 V ->
    forall i, V "s.ret0" i = sqrt (px V false i * px V false i + py V false i * py V false i)
              /\ V "s.ret1" i = pz V false i /\ V "atan2_x" i = px V false i /\ V "atan2_y" i = py V false i.
  Proof.
    intros HV i. destruct (C14_point_r1 HV i) as [Hx [Hy Hz]]. rewrite <- Hx, <- Hy, <- Hz.
    unfold_fixes O Frenet_to_cylindrical_1_point_r1 HV ("s.ret0" :: "s.ret1" :: "total_R" :: "atan2_x" :: "atan2_y" :: nil)%list.
    repeat split; reflexivity.
  Qed.
  (* residual function: the angle whose deviation from the target is returned is atan2 of the SAME (y, x) *)
  Theorem C14_residual_r1 : is_fix O Frenet_to_cylindrical_residual_func_r1 V ->
    forall i, V "atan2_x" i = px V false i /\ V "atan2_y" i = py V false i /\ V "s.ret" i = V "atan2" i - V "phi_target" i.
  Proof.
    intros HV i. repeat split; revert i.
    - point_tac O Frenet_to_cylindrical_residual_func_r1 HV ("atan2_x" :: ptnames)%list.
    - point_tac O Frenet_to_cylindrical_residual_func_r1 HV ("atan2_y" :: ptnames)%list.
    - intros i. unfold_fixes O Frenet_to_cylindrical_residual_func_r1 HV ("s.ret" :: "Frenet_to_cylindrical_residual" :: nil)%list. reflexivity.
  Qed.
  Theorem C14_residual_r2 : is_fix O Frenet_to_cylindrical_residual_func_r2 V ->
    forall i, V "atan2_x" i = px V true i /\ V "atan2_y" i = py V true i /\ V "s.ret" i = V "atan2" i - V "phi_target" i.
  Proof.
    intros HV i. repeat split; revert i.
    - point_tac O Frenet_to_cylindrical_residual_func_r2 HV ("atan2_x" :: ptnames)%list.
    - point_tac O Frenet_to_cylindrical_residual_func_r2 HV ("atan2_y" :: ptnames)%list.
    - intros i. unfold_fixes O Frenet_to_cylindrical_residual_func_r2 HV ("s.ret" :: "Frenet_to_cylindrical_residual" :: nil)%list. reflexivity.
  Qed.
End PointProofs.

(* ---------- the series assembled at one poloidal angle ---------- *)
Section Series.
  Context {I : Type} (V : string -> I -> R).
  Definition h1 (c s : string) th i := V c i * cos th + V s i * sin th.
  Definition h2 (z c s : string) th i := V z i + V c i * cos (2 * th) + V s i * sin (2 * th).
  Definition h3 (c1 s1 c3 s3 : string) th i := V c1 i * cos th + V s1 i * sin th + V c3 i * cos (3 * th) + V s3 i * sin (3 * th).
  Definition Xser (ord : nat) (r th : R) i :=
    r * h1 "s.X1c_untwisted" "s.X1s_untwisted" th i
    + (if Nat.leb 2 ord then r * r * h2 "s.X20_untwisted" "s.X2c_untwisted" "s.X2s_untwisted" th i else 0)
    + (if Nat.leb 3 ord then r * r * r * h3 "s.X3c1_untwisted" "s.X3s1_untwisted" "s.X3c3_untwisted" "s.X3s3_untwisted" th i else 0).
  Definition Yser (ord : nat) (r th : R) i :=
    r * h1 "s.Y1c_untwisted" "s.Y1s_untwisted" th i
    + (if Nat.leb 2 ord then r * r * h2 "s.Y20_untwisted" "s.Y2c_untwisted" "s.Y2s_untwisted" th i else 0)
    + (if Nat.leb 3 ord then r * r * r * h3 "s.Y3c1_untwisted" "s.Y3s1_untwisted" "s.Y3c3_untwisted" "s.Y3s3_untwisted" th i else 0).
  Definition Zser (ord : nat) (r th : R) i :=
    (if Nat.leb 2 ord then r * r * h2 "s.Z20_untwisted" "s.Z2c_untwisted" "s.Z2s_untwisted" th i else 0)
    + (if Nat.leb 3 ord then r * r * r * h3 "s.Z3c1_untwisted" "s.Z3s1_untwisted" "s.Z3c3_untwisted" "s.Z3s3_untwisted" th i else 0).
End Series.

Definition sernames := ("X_at_this_theta#3" :: "Y_at_this_theta#3" :: "Z_at_this_theta#3" :: "X_at_this_theta#2" :: "Y_at_this_theta#2" :: "Z_at_this_theta#2"
   :: "X_at_this_theta" :: "Y_at_this_theta" :: "Z_at_this_theta" :: "r3" :: "costheta#2" :: "sintheta#2" :: "costheta" :: "sintheta" :: "cos2theta" :: "sin2theta" :: "cos3theta" :: "sin3theta"
   :: "r" :: "theta" :: nil)%list.
Ltac ser_tac O P HV := intros i; unfold Xser, Yser, Zser, h1, h2, h3; cbn [Nat.leb]; let l := eval cbv in sernames in unfold_fixes O P HV l; qsimp; ring.

Section SeriesProofs.
  Context {I : Type} (O : ops I) (V : string -> I -> R).
  (* Frenet_to_cylindrical: radius V "r", angle V "theta" (= theta[j_theta]) *)
  Theorem C14_series_F_r1 : is_fix O Frenet_to_cylindrical_r1 V -> forall i,
    V "X_at_this_theta" i = Xser V 1 (V "r" i) (V "theta" i) i /\ V "Y_at_this_theta" i = Yser V 1 (V "r" i) (V "theta" i) i /\ V "Z_at_this_theta" i = Zser V 1 (V "r" i) (V "theta" i) i.
  Proof. intros HV i. repeat split; revert i; ser_tac O Frenet_to_cylindrical_r1 HV. Qed.
  Theorem C14_series_F_r2 : is_fix O Frenet_to_cylindrical_r2 V -> forall i,
    V "X_at_this_theta#2" i = Xser V 2 (V "r" i) (V "theta" i) i /\ V "Y_at_this_theta#2" i = Yser V 2 (V "r" i) (V "theta" i) i /\ V "Z_at_this_theta#2" i = Zser V 2 (V "r" i) (V "theta" i) i.
  Proof. intros HV i. repeat split; revert i; ser_tac O Frenet_to_cylindrical_r2 HV. Qed.
  Theorem C14_series_F_r3 : is_fix O Frenet_to_cylindrical_r3 V -> forall i,
    V "X_at_this_theta#3" i = Xser V 3 (V "r" i) (V "theta" i) i /\ V "Y_at_this_theta#3" i = Yser V 3 (V "r" i) (V "theta" i) i /\ V "Z_at_this_theta#3" i = Zser V 3 (V "r" i) (V "theta" i) i.
  Proof. intros HV i. repeat split; revert i; ser_tac O Frenet_to_cylindrical_r3 HV. Qed.
  (* to_RZ: radius, angle = the point's (pt_r, pt_theta): the point-wise converter assembles the same series *)
  Theorem C14_series_T_r1 : is_fix O to_RZ_r1 V -> forall i,
    V "X_at_this_theta" i = Xser V 1 (V "pt_r" i) (V "pt_theta" i) i /\ V "Y_at_this_theta" i = Yser V 1 (V "pt_r" i) (V "pt_theta" i) i /\ V "Z_at_this_theta" i = Zser V 1 (V "pt_r" i) (V "pt_theta" i) i.
  Proof. intros HV i. repeat split; revert i; ser_tac O to_RZ_r1 HV. Qed.
  Theorem C14_series_T_r2 : is_fix O to_RZ_r2 V -> forall i,
    V "X_at_this_theta#2" i = Xser V 2 (V "pt_r" i) (V "pt_theta" i) i /\ V "Y_at_this_theta#2" i = Yser V 2 (V "pt_r" i) (V "pt_theta" i) i /\ V "Z_at_this_theta#2" i = Zser V 2 (V "pt_r" i) (V "pt_theta" i) i.
  Proof. intros HV i. repeat split; revert i; ser_tac O to_RZ_r2 HV. Qed.
  Theorem C14_series_T_r3 : is_fix O to_RZ_r3 V -> forall i,
    V "X_at_this_theta#3" i = Xser V 3 (V "pt_r" i) (V "pt_theta" i) i /\ V "Y_at_this_theta#3" i = Yser V 3 (V "pt_r" i) (V "pt_theta" i) i /\ V "Z_at_this_theta#3" i = Zser V 3 (V "pt_r" i) (V "pt_theta" i) i.
  Proof. intros HV i. repeat split; revert i; ser_tac O to_RZ_r3 HV. Qed.
End SeriesProofs.
Print Assumptions C14_point_R_r2.
Print Assumptions C14_residual_r2.
Print Assumptions C14_series_F_r3.
Print Assumptions C14_series_T_r3.
