(* C18 (structural clause): WHICH outputs are extrema of the trigonometric interpolant and which are extrema over grid points.
   The property distinguishes "extrema located on the trigonometric interpolant" (they converge spectrally once the profile is resolved) from
   "outputs defined as extrema over grid points (the grad-grad-B inverse scale length, r_singularity, B20 variation)" (second order).  Which kind an
   output is, is a fact about the source; it is read off the REGENERATED programs: the binding of each such output is an application of
   FMin (util.fourier_minimum: Brent search on the interpolant) or of MaxG / MinG (np.max / np.min over the grid) to the profile.  Replacing the
   interpolant extremum of min_R0, max_elongation or min_L_grad_B by a grid extremum (or vice versa) breaks this file. *)
From Coq Require Import String List Bool.
From QSC Require Import Expr Shallow.
From QSCGen Require Import G_init_axis G_r1_diagnostics G_calculate_grad_B_tensor G_calculate_r2 G_calculate_grad_grad_B_tensor.
Import ListNotations.
Open Scope string_scope.

Inductive kind := OnInterpolant | OnGrid | Neither | Mixed.

Fixpoint has_fmin (e : expr) : bool :=
  match e with
  | FMin _ => true
  | Neg a | Sqrt a | Root4 a | Abs a | Sin a | Cos a | Exp a | Dphi a | Sum a | MaxG a | MinG a => has_fmin a
  | Pow a _ | At a _ => has_fmin a
  | Add a b | Sub a b | Mul a b | Div a b | Pin0 a b => has_fmin a || has_fmin b
  | _ => false
  end.

Fixpoint has_gridext (e : expr) : bool :=
  match e with
  | MaxG _ | MinG _ => true
  | Neg a | Sqrt a | Root4 a | Abs a | Sin a | Cos a | Exp a | Dphi a | Sum a | FMin a => has_gridext a
  | Pow a _ | At a _ => has_gridext a
  | Add a b | Sub a b | Mul a b | Div a b | Pin0 a b => has_gridext a || has_gridext b
  | _ => false
  end.

Definition kind_of (p : prog) (x : string) : option kind :=
  match defn p x with
  | None => None
  | Some e => Some (match has_fmin e, has_gridext e with
                    | true, false => OnInterpolant | false, true => OnGrid | false, false => Neither | true, true => Mixed end)
  end.

(* extrema located on the trigonometric interpolant *)
Lemma min_R0_on_interpolant : kind_of init_axis "s.min_R0" = Some OnInterpolant. Proof. vm_compute. reflexivity. Qed.
Lemma max_elongation_on_interpolant_h0 : kind_of r1_diagnostics_h0 "s.max_elongation" = Some OnInterpolant. Proof. vm_compute. reflexivity. Qed.
Lemma max_elongation_on_interpolant_hN : kind_of r1_diagnostics_hN "s.max_elongation" = Some OnInterpolant. Proof. vm_compute. reflexivity. Qed.
Lemma min_L_grad_B_on_interpolant : kind_of calculate_grad_B_tensor "s.min_L_grad_B" = Some OnInterpolant. Proof. vm_compute. reflexivity. Qed.
(* extrema over grid points *)
Lemma B20_variation_on_grid_h0 : kind_of calculate_r2_h0 "s.B20_variation" = Some OnGrid. Proof. vm_compute. reflexivity. Qed.
Lemma B20_variation_on_grid_hN : kind_of calculate_r2_hN "s.B20_variation" = Some OnGrid. Proof. vm_compute. reflexivity. Qed.
Lemma inverse_scale_length_on_grid : kind_of calculate_grad_grad_B_tensor "s.grad_grad_B_inverse_scale_length" = Some OnGrid. Proof. vm_compute. reflexivity. Qed.
(* and nothing else in these stages is an extremum of either kind: the only bindings that contain FMin / MaxG / MinG are the ones above *)
Definition extremal_names (p : prog) : list string :=
  map fst (filter (fun b => has_fmin (snd b) || has_gridext (snd b)) p).
Lemma extremal_init_axis : extremal_names init_axis = ["s.min_R0"]. Proof. vm_compute. reflexivity. Qed.
Lemma extremal_r1_h0 : extremal_names r1_diagnostics_h0 = ["s.max_elongation"]. Proof. vm_compute. reflexivity. Qed.
Lemma extremal_r1_hN : extremal_names r1_diagnostics_hN = ["s.max_elongation"]. Proof. vm_compute. reflexivity. Qed.
Lemma extremal_gradB : extremal_names calculate_grad_B_tensor = ["s.min_L_grad_B"]. Proof. vm_compute. reflexivity. Qed.
Lemma extremal_r2_h0 : extremal_names calculate_r2_h0 = ["s.B20_variation"]. Proof. vm_compute. reflexivity. Qed.
Lemma extremal_r2_hN : extremal_names calculate_r2_hN = ["s.B20_variation"]. Proof. vm_compute. reflexivity. Qed.
Lemma extremal_ggB : extremal_names calculate_grad_grad_B_tensor = ["s.grad_grad_B_inverse_scale_length"]. Proof. vm_compute. reflexivity. Qed.
