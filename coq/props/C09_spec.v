(* C09: statements about the grad B tensor.  S is the object state (attribute values);
   VA, V1, VG, VB, VC, VR are models of the programs regenerated from init_axis,
   r1_diagnostics, calculate_grad_B_tensor, Bfield_cylindrical (r <> 0 variant),
   grad_B_tensor_cartesian and _residual, all agreeing with S on attributes (Shallow.stage).
   Frenet components of the tensor are the locals "tensor.nn" ... of calculate_grad_B_tensor
   (what the code stores in self.grad_B_tensor).  First letter = direction of the derivative,
   second letter = component of B. *)
From Coq Require Import Reals String List.
From QSC Require Import Expr Shallow.
From QSCGen Require Import G_init_axis G_r1_diagnostics G_calculate_grad_B_tensor G_Bfield_cylindrical
     G_grad_B_tensor_cartesian G_residual.
Open Scope R_scope.
Open Scope string_scope.

Section Spec.
  Context {I : Type} (O : ops I) (S : string -> I -> R).

  (* admissibility of the input, as the property states it *)
  Record admissible : Prop := {
    adm_sG : forall i, S "s.sG" i * S "s.sG" i = 1;
    adm_spsi : forall i, S "s.spsi" i * S "s.spsi" i = 1;
    adm_sG_const : is_const (S "s.sG");
    adm_spsi_const : is_const (S "s.spsi");
    adm_eta : forall i, S "s.etabar" i <> 0;
    adm_kappa : forall i, S "s.curvature" i <> 0;
    adm_B0 : forall i, S "s.B0" i <> 0;
    adm_lp : forall i, S "s.abs_G0_over_B0" i <> 0;
    adm_dvp : forall i, S "s.d_varphi_d_phi" i <> 0
  }.

  (* the sigma equation holds at the returned solution: the residual program evaluated at
     xs = sigma, xi = iota vanishes (oracle specification of the Newton solve) *)
  Definition sigma_solved (VR : string -> I -> R) : Prop :=
    VR "xs" = S "s.sigma" /\ VR "xi" = S "s.iota" /\ (forall i, VR "r" i = 0)
    /\ (forall i, o_pin O (S "s.sigma") (S "s.sigma0") i = S "s.sigma" i)   (* sigma[0] already equals sigma0 *)
    /\ (forall i, S "s.iotaN" i = S "s.iota" i + S "s.helicity" i * S "s.nfp" i).

  (* (i) trace-free *)
  Definition trace_free (VG : string -> I -> R) : Prop :=
    forall i, VG "tensor.nn" i + VG "tensor.bb" i + 0 = 0.

  (* (ii) antisymmetric part = on-axis current density *)
  Definition curl_is_current (VG : string -> I -> R) : Prop :=
    forall i, VG "tensor.nb" i - VG "tensor.bn" i = 2 * S "s.sG" i * S "s.spsi" i * S "s.I2" i.

  (* (iii) contraction with a first-order displacement X1 n + Y1 b reproduces the first-order
     field vector of Bfield_cylindrical, in Frenet components; theta is the poloidal angle
     (VB "theta") *)
  Definition Xd (VB : string -> I -> R) i := S "s.X1c" i * cos (VB "theta" i) + S "s.X1s" i * sin (VB "theta" i).
  Definition Yd (VB : string -> I -> R) i := S "s.Y1c" i * cos (VB "theta" i) + S "s.Y1s" i * sin (VB "theta" i).
  Definition contraction_is_B1 (VG VB : string -> I -> R) : Prop :=
    forall i,
      VB "B1_vector_n" i = Xd VB i * VG "tensor.nn" i + Yd VB i * VG "tensor.bn" i /\
      VB "B1_vector_b" i = Xd VB i * VG "tensor.nb" i + Yd VB i * VG "tensor.bb" i /\
      VB "B1_vector_t" i = Xd VB i * VG "tensor.nt" i.

  (* (iv) |B0_vector + r B1|^2 agrees with B_mag^2 = (B0 (1 + r etabar cos theta))^2 to first order in r:
     the r^0 and r^1 coefficients, with t a unit vector orthogonal to n and b *)
  Definition magnitude_first_order (VB : string -> I -> R) : Prop :=
    forall i, S "s.sG" i * S "s.B0" i * VB "B1_vector_t" i = S "s.B0" i * (S "s.B0" i * S "s.etabar" i * cos (VB "theta" i)).

  (* (v) Cartesian tensor = Q T Q^T with Q the rotation by phi about the Z axis *)
  Definition Tcyl (a b : nat) : I -> R :=
    S ("s.grad_B_tensor_cylindrical_" ++ (if Nat.eqb a 0 then "0" else if Nat.eqb a 1 then "1" else "2")
       ++ "_" ++ (if Nat.eqb b 0 then "0" else if Nat.eqb b 1 then "1" else "2")).
  Definition Qrot (a k : nat) (i : I) : R :=
    let c := cos (S "s.phi" i) in let s := sin (S "s.phi" i) in
    match a, k with
    | 0%nat, 0%nat => c | 0%nat, 1%nat => - s | 1%nat, 0%nat => s | 1%nat, 1%nat => c
    | 2%nat, 2%nat => 1 | _, _ => 0 end.
  Definition rotated (a b : nat) (i : I) : R :=
    Qrot a 0 i * (Qrot b 0 i * Tcyl 0 0 i + Qrot b 1 i * Tcyl 0 1 i + Qrot b 2 i * Tcyl 0 2 i)
    + Qrot a 1 i * (Qrot b 0 i * Tcyl 1 0 i + Qrot b 1 i * Tcyl 1 1 i + Qrot b 2 i * Tcyl 1 2 i)
    + Qrot a 2 i * (Qrot b 0 i * Tcyl 2 0 i + Qrot b 1 i * Tcyl 2 1 i + Qrot b 2 i * Tcyl 2 2 i).
  Definition cart (VC : string -> I -> R) (a b : nat) : I -> R :=
    VC ("s.ret_" ++ (if Nat.eqb a 0 then "0" else if Nat.eqb a 1 then "1" else "2")
        ++ "_" ++ (if Nat.eqb b 0 then "0" else if Nat.eqb b 1 then "1" else "2")).
  Definition cartesian_is_rotated (VC : string -> I -> R) : Prop :=
    forall i a b, (a < 3)%nat -> (b < 3)%nat -> cart VC a b i = rotated a b i.
  Definition frob (T : nat -> nat -> I -> R) (i : I) : R :=
    T 0%nat 0%nat i * T 0%nat 0%nat i + T 0%nat 1%nat i * T 0%nat 1%nat i + T 0%nat 2%nat i * T 0%nat 2%nat i
    + T 1%nat 0%nat i * T 1%nat 0%nat i + T 1%nat 1%nat i * T 1%nat 1%nat i + T 1%nat 2%nat i * T 1%nat 2%nat i
    + T 2%nat 0%nat i * T 2%nat 0%nat i + T 2%nat 1%nat i * T 2%nat 1%nat i + T 2%nat 2%nat i * T 2%nat 2%nat i.
  Definition frobenius_cartesian_eq_cylindrical (VC : string -> I -> R) : Prop :=
    forall i, frob (cart VC) i = frob Tcyl i.

  (* the frame is orthonormal (this is a C03 theorem; here a hypothesis) *)
  Definition dot3 (u v : string) (i : I) : R :=
    S (u ++ "_0") i * S (v ++ "_0") i + S (u ++ "_1") i * S (v ++ "_1") i + S (u ++ "_2") i * S (v ++ "_2") i.
  Definition orthonormal_frame : Prop := forall i,
    dot3 "s.tangent_cylindrical" "s.tangent_cylindrical" i = 1 /\ dot3 "s.normal_cylindrical" "s.normal_cylindrical" i = 1 /\
    dot3 "s.binormal_cylindrical" "s.binormal_cylindrical" i = 1 /\ dot3 "s.tangent_cylindrical" "s.normal_cylindrical" i = 0 /\
    dot3 "s.tangent_cylindrical" "s.binormal_cylindrical" i = 0 /\ dot3 "s.normal_cylindrical" "s.binormal_cylindrical" i = 0.
  (* Frobenius norm in the cylindrical basis = the Frenet-frame double contraction the code reports *)
  Definition frobenius_cylindrical_eq_frenet : Prop :=
    forall i, frob Tcyl i = S "s.grad_B_colon_grad_B" i.

  (* L_grad_B = B0 sqrt(2/||grad B||^2), and inv_L_grad_B is its inverse *)
  Definition scale_length : Prop :=
    forall i, S "s.L_grad_B" i = S "s.B0" i * sqrt (2 / S "s.grad_B_colon_grad_B" i)
              /\ (S "s.L_grad_B" i <> 0 -> S "s.inv_L_grad_B" i * S "s.L_grad_B" i = 1).
End Spec.

(* The theorems to prove (props/C09.v), for every index type and operator structure:
   T1  derivation O -> admissible S -> stage init_axis, r1_diagnostics_{h0,hN}, calculate_grad_B_tensor -> trace_free
   T2  derivation O -> admissible S -> those stages + stage residual with sigma_solved -> curl_is_current
   T3  admissible S -> stages (init_axis, r1, grad_B, Bfield_cylindrical_r) -> contraction_is_B1 and magnitude_first_order
   T4  stage grad_B_tensor_cartesian -> cartesian_is_rotated and frobenius_cartesian_eq_cylindrical   (needs cos^2+sin^2=1)
   T5  stage calculate_grad_B_tensor -> orthonormal_frame -> frobenius_cylindrical_eq_frenet
   T6  stage calculate_grad_B_tensor -> scale_length *)
