(* The grid actions assumed by the symmetry theorems are realised by pyQSC's own differentiation matrix:
   instantiating the generic laws (Sign.sign_law, Shift.shift_law) with the model of spectral_diff_matrix (theories/DiffMat.v,
   equal to the implementation bit for bit on every generated size) for odd n -- the only sizes pyQSC uses. *)
From Coq Require Import Reals String List ZArith.
From QSC Require Import Expr Equiv Sign Shift DiffMat.
Open Scope R_scope.

Definition fmin_grid_invariant (n : nat) (fmin : (nat -> R) -> R) (pi : nat -> nat) : Prop :=
  (forall v v', (forall j, (j < n)%nat -> v' j = v (pi j)) -> fmin v' = fmin v) /\ (forall v, (forall j, v j = 0) -> fmin v = 0).

(* C05: cyclic shift by k grid points *)
Theorem shift_law_for_spectral_matrix Gin p outs eqs : shift_law Gin p outs eqs ->
  forall n topc s k fmin rho, length topc = (n / 2)%nat -> Nat.odd n = true ->
    fmin_grid_invariant n fmin (fun j => (j + k) mod n)%nat -> zero_ok_u (assoc_env Gin) rho ->
    let pi := (fun j => (j + k) mod n)%nat in
    let rho' := shifted_env pi rho in
    forall x u, In (x, u) outs -> forall j, (j < n)%nat ->
      run n (DR n topc s) fmin p rho' x j = run n (DR n topc s) fmin p rho x (pi j).
Proof.
  intros HL n topc s k fmin rho Hlen Hodd [Hf Hf0] Hz pi rho' x u Hin j Hj.
  destruct (HL n (DR n topc s) fmin pi rho (shift_action_of_DR n topc s k fmin Hlen Hodd Hf Hf0) Hz) as [H _].
  apply (H x u Hin j Hj).
Qed.

(* C07: toroidal reversal (profiles reversed, D anticommutes) *)
Theorem reversal_law_for_spectral_matrix Gin p outs eqs : sign_law true Gin p outs eqs ->
  forall n topc s fmin rho, length topc = (n / 2)%nat -> Nat.odd n = true ->
    fmin_grid_invariant n fmin (fun j => (n - j) mod n)%nat -> zero_ok_s (assoc_env Gin) rho ->
    let pi := (fun j => (n - j) mod n)%nat in
    let rho' := signed_env pi (assoc_env Gin) rho in
    forall x b, In (x, b) outs -> forall j, (j < n)%nat ->
      run n (DR n topc s) fmin p rho' x j = schi b * run n (DR n topc s) fmin p rho x (pi j).
Proof.
  intros HL n topc s fmin rho Hlen Hodd [Hf Hf0] Hz pi rho' x b Hin j Hj.
  destruct (HL n (DR n topc s) fmin pi rho (rev_action_of_DR n topc s fmin Hlen Hodd Hf Hf0) Hz) as [H _].
  apply (H x b Hin j Hj).
Qed.

(* C07: field reversal and mirror act on values only (any matrix) *)
Theorem pointwise_sign_law_any_matrix Gin p outs eqs : sign_law false Gin p outs eqs ->
  forall n Dm fmin rho, (0 < n)%nat -> fmin_grid_invariant n fmin (fun j => j) -> zero_ok_s (assoc_env Gin) rho ->
    let rho' := signed_env (fun j => j) (assoc_env Gin) rho in
    forall x b, In (x, b) outs -> forall j, (j < n)%nat ->
      run n Dm fmin p rho' x j = schi b * run n Dm fmin p rho x j.
Proof.
  intros HL n Dm fmin rho Hn [Hf Hf0] Hz rho' x b Hin j Hj.
  destruct (HL n Dm fmin (fun j => j) rho (id_action_any n Dm fmin Hn Hf Hf0) Hz) as [H _].
  apply (H x b Hin j Hj).
Qed.
Print Assumptions shift_law_for_spectral_matrix.
Print Assumptions reversal_law_for_spectral_matrix.
