(* The order in which Qsc.calculate() runs the translated functions is a valid pipeline: every function is in SSA form and no later
   function re-binds an attribute an earlier one reads or writes.  Hence (Pipeline.pipeline_stage) the `stage` hypotheses of the
   multi-program theorems (C03, C09, C10, C01, C15 ...) hold for the state reached by running the programs one after the other. *)
From Coq Require Import Reals String List.
From QSC Require Import Expr Shallow Pipeline.
From QSCGen Require Import G_init_axis G_solve_sigma_equation G_r1_diagnostics G_calculate_grad_B_tensor G_calculate_r2 G_mercier
     G_calculate_grad_grad_B_tensor G_calculate_r_singularity G_calculate_r3.
Import ListNotations.

Definition calculate_h0 : list prog :=
  [init_axis; solve_sigma_equation; r1_diagnostics_h0; calculate_grad_B_tensor; calculate_r2_h0; mercier;
   calculate_grad_grad_B_tensor; calculate_r_singularity; calculate_r3_h0].
Definition calculate_hN : list prog :=
  [init_axis; solve_sigma_equation; r1_diagnostics_hN; calculate_grad_B_tensor; calculate_r2_hN; mercier;
   calculate_grad_grad_B_tensor; calculate_r_singularity; calculate_r3_hN].

Lemma calculate_h0_ok : pipeline_ok calculate_h0 = true. Proof. vm_compute. reflexivity. Qed.
Lemma calculate_hN_ok : pipeline_ok calculate_hN = true. Proof. vm_compute. reflexivity. Qed.

Theorem calculate_stages_h0 {I : Type} (O : ops I) (rho : @envG I) : forall k p, nth_error calculate_h0 k = Some p ->
  stage O p (run_all O calculate_h0 rho) (model_of (run_all O calculate_h0 rho) (env_after O calculate_h0 k rho)).
Proof. apply (pipeline_stage O calculate_h0 calculate_h0_ok rho). Qed.
Theorem calculate_stages_hN {I : Type} (O : ops I) (rho : @envG I) : forall k p, nth_error calculate_hN k = Some p ->
  stage O p (run_all O calculate_hN rho) (model_of (run_all O calculate_hN rho) (env_after O calculate_hN k rho)).
Proof. apply (pipeline_stage O calculate_hN calculate_hN_ok rho). Qed.
Print Assumptions calculate_stages_h0.
