(* C12: the optional branch  calculate_r_singularity(high_order=True)  (translated as a second variant, calculate_r_singularity_ho) computes every
   quantity of the default variant BY THE SAME EXPRESSION and only adds bindings with fresh names.  Consequently every run of the high-order variant
   is a model (Shallow.is_fix) of the default program, and every theorem stated for the models of the default program -- the K relation, the quartic,
   the first-zero bridge -- holds for it unchanged: the extra coefficients are additional output, they cannot move g0 .. g2c or the quartic. *)
From Coq Require Import Reals String List.
From QSC Require Import Expr Shallow.
From QSCGen Require Import G_calculate_r_singularity.
From QSCProps Require Import C12_quartic.
Import ListNotations.
Open Scope string_scope.

Lemma defn_In : forall p x e, defn p x = Some e -> In (x, e) p.
Proof.
  induction p as [|[y f] p IH]; intros x e H; cbn [defn] in H; [discriminate|].
  destruct (String.eqb x y) eqn:E.
  - apply String.eqb_eq in E. injection H as <-. subst y. left; reflexivity.
  - right. apply IH. exact H.
Qed.

Lemma ssa_ho : ssa calculate_r_singularity_ho = true. Proof. vm_compute. reflexivity. Qed.

(* every binding of the default variant is the binding of the same name in the high-order variant *)
Lemma default_bindings_in_ho :
  forallb (fun b => match defn calculate_r_singularity_ho (fst b) with Some _ => true | None => false end) calculate_r_singularity = true
  /\ Forall (fun b => defn calculate_r_singularity_ho (fst b) = Some (snd b)) calculate_r_singularity.
Proof. split; [vm_compute; reflexivity|]. repeat (constructor; [vm_compute; reflexivity|]). constructor. Qed.

Theorem ho_models_default : forall (I : Type) (O : ops I) (V : string -> I -> R),
  is_fix O calculate_r_singularity_ho V -> is_fix O calculate_r_singularity V.
Proof.
  intros I O V H x e Hd. apply H.
  pose proof (proj2 default_bindings_in_ho) as HF. rewrite Forall_forall in HF.
  exact (HF (x, e) (defn_In _ _ _ Hd)).
Qed.

Theorem C12_quartic_run_ho : forall (I : Type) (O : ops I) (rho : @envG I) (i : I) (r c s : R),
  let V := runG O calculate_r_singularity_ho rho in
  c*c + s*s = 1 ->
  V "g0" i + r * V "g1c" i * c
    + r*r*(V "g20" i + V "g2s" i * (2*s*c) + V "g2c" i * (c*c - s*s)) = 0 ->
  - V "g1c" i * s + 2*r*(V "g2s" i * (c*c - s*s) - V "g2c" i * (2*s*c)) = 0 ->
  let w := 2*s*c in
  V "coefficients_0#2" i + V "coefficients_1#2" i * w + V "coefficients_2#2" i * (w*w)
    + V "coefficients_3#2" i * (w*w*w) + V "coefficients_4#2" i * (w*w*w*w) = 0.
Proof.
  intros I O rho i r c s V. apply (C12_quartic O V). apply ho_models_default. apply runG_is_fix, ssa_ho.
Qed.

Print Assumptions ho_models_default.
Print Assumptions C12_quartic_run_ho.
