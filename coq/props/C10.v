(* C10: the grad grad B tensor, by certificates.
   S = object state (attribute values); VA, V1, V2, VG, VT, VY, VC = models (Shallow.stage) of the programs regenerated from
   init_axis, r1_diagnostics (either helicity variant), calculate_r2 (either variant), calculate_grad_grad_B_tensor,
   calculate_grad_B_tensor, grad_grad_B_tensor_cylindrical, grad_grad_B_tensor_cartesian.  Continuum model: derivation O.
   Method: the definitions of the 54 entries are pulled from the regenerated program (unfold_fix); the first-order
   quantities are expressed through X1c and its derivatives using X1c*Y1s = sG*spsi, kappa*X1c = etabar (both
   differentiated with the Leibniz rule), Y2s/Y2c through the two algebraic O(r^2) relations (and their derivatives), and
   every identity is then closed by [field] modulo sG^2 = spsi^2 = 1.
   PROVED: (d) two_ways (27 entries), (a) sym12, (b) divfree, (e) tangent_contraction, (f) scale_length,
   (g) cylindrical_is_frenet / cartesian_is_rotation_of_that, and of (c) the tangent slice a = 2 for ANY current
   (tangent_slice_curl; needs the sigma equation and its derivative) with its vacuum corollary.
   NOT PROVED here: the rest of (c) (sym23 for a = 0, 1 and harmonic), which needs every O(r^2) definition (Z2*, X2s, X2c,
   B20, G2), the sigma equation and the two O(r^2) differential equations. *)
From Coq Require Import Reals String List Lra Lia QArith Qreals FunctionalExtensionality.
From QSC Require Import Expr Shallow.
From QSCGen Require Import G_init_axis G_r1_diagnostics G_calculate_r2 G_calculate_grad_grad_B_tensor
     G_calculate_grad_B_tensor G_residual G_grad_grad_B_tensor_cylindrical G_grad_grad_B_tensor_cartesian.
From QSCProps Require Import C10_spec.
Open Scope R_scope.
Open Scope string_scope.

(* ---------- d/dvarphi is a derivation ---------- *)
Section Deriv.
  Context {I : Type} (O : ops I) (HD : derivation O) (S : string -> I -> R).
  Notation Dv := (Dv O S).
  Let HL := der_lin O HD.
  Lemma Dv_mul f g i : Dv (fun k => f k * g k) i = Dv f i * g i + f i * Dv g i.
  Proof. unfold C10_spec.Dv. rewrite (D_mul O HD). unfold Rdiv; ring. Qed.
  Lemma Dv_add f g i : Dv (fun k => f k + g k) i = Dv f i + Dv g i.
  Proof. unfold C10_spec.Dv. rewrite (D_add O HL). unfold Rdiv; ring. Qed.
  Lemma Dv_sub f g i : Dv (fun k => f k - g k) i = Dv f i - Dv g i.
  Proof. unfold C10_spec.Dv. rewrite (D_sub O HL). unfold Rdiv; ring. Qed.
  Lemma Dv_neg f i : Dv (fun k => - f k) i = - Dv f i.
  Proof. unfold C10_spec.Dv. rewrite (D_neg O HL). unfold Rdiv; ring. Qed.
  Lemma Dv_cst c i : Dv (fun _ => c) i = 0.
  Proof. unfold C10_spec.Dv. rewrite (D_const O HD). unfold Rdiv; ring. Qed.
  Lemma Dv_isconst f i : is_const f -> Dv f i = 0.
  Proof. intros [c ->]. apply Dv_cst. Qed.
  Lemma Dv_ext f g i : (forall k, f k = g k) -> Dv f i = Dv g i.
  Proof. intros H. replace f with g; [reflexivity|]. apply functional_extensionality. intros k; symmetry; apply H. Qed.
  Lemma is_const_mul f g : is_const f -> is_const g -> is_const (fun k : I => f k * g k).
  Proof. intros [a ->] [b ->]. exists (a * b). reflexivity. Qed.
  (* f g = constant  ==>  f' g + f g' = 0 *)
  Lemma prod_const f g c : (forall k, f k * g k = c k) -> is_const c ->
    forall i, Dv f i * g i + f i * Dv g i = 0.
  Proof. intros H Hc i. rewrite <- Dv_mul. rewrite (Dv_ext _ c) by exact H. apply Dv_isconst; exact Hc. Qed.
  (* ... and once more:  f'' g + 2 f' g' + f g'' = 0 *)
  Lemma prod_const2 f g f1 g1 : (forall k, f1 k = Dv f k) -> (forall k, g1 k = Dv g k) ->
    (forall k, f1 k * g k + f k * g1 k = 0) ->
    forall i, Dv f1 i * g i + 2 * f1 i * g1 i + f i * Dv g1 i = 0.
  Proof.
    intros Hf Hg H i.
    assert (E : Dv (fun k => f1 k * g k + f k * g1 k) i = 0).
    { rewrite (Dv_ext _ (fun _ => 0)) by exact H. apply Dv_cst. }
    rewrite Dv_add, !Dv_mul in E. rewrite <- Hf, <- Hg in E. lra.
  Qed.
End Deriv.

Lemma pm1 (x : R) : x * x = 1 -> x = 1 \/ x = -1.
Proof.
  intros H. assert (E : (x - 1) * (x + 1) = 0) by (ring_simplify; lra).
  apply Rmult_integral in E. destruct E; [left|right]; lra.
Qed.

Ltac r1_dattr P H nm base :=
  rewrite <- (st_agree _ _ _ _ H nm eq_refl);
  unfold_fix O P (st_fix _ _ _ _ H) nm; to_state H; reflexivity.

Section Facts.
  Context {I : Type} (O : ops I) (HD : derivation O) (S VA V1 V2 : string -> I -> R).
  Hypothesis Hadm : admissible S.
  Hypothesis HA : stage O init_axis S VA.
  Hypothesis H1 : stage O r1_diagnostics_h0 S V1 \/ stage O r1_diagnostics_hN S V1.
  Hypothesis H2 : stage O calculate_r2_h0 S V2 \/ stage O calculate_r2_hN S V2.
  Notation Dv := (Dv O S).
  Notation sG := (S "s.sG"). Notation spsi := (S "s.spsi"). Notation kap := (S "s.curvature").
  Notation etabar := (S "s.etabar"). Notation X1c := (S "s.X1c"). Notation Y1s := (S "s.Y1s"). Notation Y1c := (S "s.Y1c").
  Notation aGB := (S "s.abs_G0_over_B0"). Notation B0 := (S "s.B0").

  (* ---- init_axis ---- *)
  Lemma F_X1c i : X1c i = etabar i / kap i.
  Proof.
    rewrite <- (st_agree _ _ _ _ HA "s.X1c" eq_refl), <- (st_agree _ _ _ _ HA "s.curvature" eq_refl).
    unfold_fixes O init_axis (st_fix _ _ _ _ HA) ("s.X1c" :: "s.curvature" :: nil)%list. to_state HA. reflexivity.
  Qed.
  Lemma F_G0 i : S "s.G0" i = sG i * aGB i * B0 i.
  Proof.
    rewrite <- (st_agree _ _ _ _ HA "s.G0" eq_refl), <- (st_agree _ _ _ _ HA "s.abs_G0_over_B0" eq_refl).
    unfold_fixes O init_axis (st_fix _ _ _ _ HA) ("s.G0" :: "G0" :: "s.abs_G0_over_B0" :: nil)%list. to_state HA. reflexivity.
  Qed.
  Lemma F_dldvp i : S "s.d_l_d_varphi" i = aGB i.
  Proof.
    rewrite <- (st_agree _ _ _ _ HA "s.d_l_d_varphi" eq_refl), <- (st_agree _ _ _ _ HA "s.abs_G0_over_B0" eq_refl).
    unfold_fixes O init_axis (st_fix _ _ _ _ HA) ("s.d_l_d_varphi" :: "s.abs_G0_over_B0" :: nil)%list. reflexivity.
  Qed.
  Lemma F_absG0 i : Rabs (S "s.G0" i) = aGB i * B0 i.
  Proof.
    rewrite F_G0. pose proof (adm_lp S Hadm i). pose proof (adm_B0 S Hadm i).
    assert (0 < aGB i * B0 i) by (apply Rmult_lt_0_compat; assumption).
    destruct (pm1 _ (adm_sG S Hadm i)) as [E|E]; rewrite E.
    - rewrite Rabs_right; [ring|]. apply Rle_ge. replace (1 * aGB i * B0 i) with (aGB i * B0 i) by ring. lra.
    - replace (-1 * aGB i * B0 i) with (- (aGB i * B0 i)) by ring. rewrite Rabs_Ropp. rewrite Rabs_right; [ring|]. lra.
  Qed.
  Lemma X1c_nz i : X1c i <> 0.
  Proof.
    rewrite F_X1c. pose proof (adm_eta S Hadm i). pose proof (adm_kappa S Hadm i).
    unfold Rdiv. apply Rmult_integral_contrapositive_currified; [assumption|]. apply Rinv_neq_0_compat; assumption.
  Qed.

  (* ---- r1_diagnostics ---- *)
  Lemma F_Y1s i : Y1s i = sG i * spsi i * kap i / etabar i.
  Proof.
    destruct H1 as [H|H]; rewrite <- (st_agree _ _ _ _ H "s.Y1s" eq_refl).
    - unfold_fix O r1_diagnostics_h0 (st_fix _ _ _ _ H) "s.Y1s". to_state H. reflexivity.
    - unfold_fix O r1_diagnostics_hN (st_fix _ _ _ _ H) "s.Y1s". to_state H. reflexivity.
  Qed.
  Lemma F_Y1c i : Y1c i = sG i * spsi i * kap i * S "s.sigma" i / etabar i.
  Proof.
    destruct H1 as [H|H]; rewrite <- (st_agree _ _ _ _ H "s.Y1c" eq_refl).
    - unfold_fix O r1_diagnostics_h0 (st_fix _ _ _ _ H) "s.Y1c". to_state H. reflexivity.
    - unfold_fix O r1_diagnostics_hN (st_fix _ _ _ _ H) "s.Y1c". to_state H. reflexivity.
  Qed.
  Lemma F_dX1c i : S "s.d_X1c_d_varphi" i = Dv X1c i.
  Proof.
    unfold C10_spec.Dv. destruct H1 as [H|H]; rewrite <- (st_agree _ _ _ _ H "s.d_X1c_d_varphi" eq_refl).
    - unfold_fix O r1_diagnostics_h0 (st_fix _ _ _ _ H) "s.d_X1c_d_varphi". to_state H. reflexivity.
    - unfold_fix O r1_diagnostics_hN (st_fix _ _ _ _ H) "s.d_X1c_d_varphi". to_state H. reflexivity.
  Qed.
  Lemma F_dY1s i : S "s.d_Y1s_d_varphi" i = Dv Y1s i.
  Proof.
    unfold C10_spec.Dv. destruct H1 as [H|H]; rewrite <- (st_agree _ _ _ _ H "s.d_Y1s_d_varphi" eq_refl).
    - unfold_fix O r1_diagnostics_h0 (st_fix _ _ _ _ H) "s.d_Y1s_d_varphi". to_state H. reflexivity.
    - unfold_fix O r1_diagnostics_hN (st_fix _ _ _ _ H) "s.d_Y1s_d_varphi". to_state H. reflexivity.
  Qed.
  Lemma F_dY1c i : S "s.d_Y1c_d_varphi" i = Dv Y1c i.
  Proof.
    unfold C10_spec.Dv. destruct H1 as [H|H]; rewrite <- (st_agree _ _ _ _ H "s.d_Y1c_d_varphi" eq_refl).
    - unfold_fix O r1_diagnostics_h0 (st_fix _ _ _ _ H) "s.d_Y1c_d_varphi". to_state H. reflexivity.
    - unfold_fix O r1_diagnostics_hN (st_fix _ _ _ _ H) "s.d_Y1c_d_varphi". to_state H. reflexivity.
  Qed.

  (* ---- calculate_r2 ---- *)
  Ltac loc2attr P H l a :=
    match type of H with stage _ _ _ ?V =>
      let E := fresh "E" in
      let Hd := constr:(@eq_refl (option expr) (Some (Var l)) <: defn P a = Some (Var l)) in
      assert (E : V l = V a) by (symmetry; exact (st_fix _ _ _ _ H a (Var l) Hd));
      rewrite ?E; clear E end.
  (* attr = Dphi(Var loc)/dvp and s.base = Var loc *)
  Ltac dattr_loc P H attr base :=
    unfold C10_spec.Dv; rewrite <- (st_agree _ _ _ _ H attr eq_refl), <- (st_agree _ _ _ _ H base eq_refl);
    unfold_fixes O P (st_fix _ _ _ _ H) (attr :: base :: nil)%list; to_state H; reflexivity.
  Ltac dattr_attr P H attr :=
    unfold C10_spec.Dv; rewrite <- (st_agree _ _ _ _ H attr eq_refl);
    unfold_fixes O P (st_fix _ _ _ _ H) (attr :: "curvature" :: "torsion" :: nil)%list; to_state H; reflexivity.
  Ltac both tac := destruct H2 as [H|H]; [tac calculate_r2_h0 H | tac calculate_r2_hN H].

  Lemma F_dX20 i : S "s.d_X20_d_varphi" i = Dv (S "s.X20") i.
  Proof. both ltac:(fun P H => dattr_loc P H "s.d_X20_d_varphi" "s.X20"). Qed.
  Lemma F_dX2s i : S "s.d_X2s_d_varphi" i = Dv (S "s.X2s") i.
  Proof. both ltac:(fun P H => dattr_loc P H "s.d_X2s_d_varphi" "s.X2s"). Qed.
  Lemma F_dX2c i : S "s.d_X2c_d_varphi" i = Dv (S "s.X2c") i.
  Proof. both ltac:(fun P H => dattr_loc P H "s.d_X2c_d_varphi" "s.X2c"). Qed.
  Lemma F_dY20 i : S "s.d_Y20_d_varphi" i = Dv (S "s.Y20") i.
  Proof. both ltac:(fun P H => dattr_loc P H "s.d_Y20_d_varphi" "s.Y20"). Qed.
  Lemma F_dY2s i : S "s.d_Y2s_d_varphi" i = Dv (S "s.Y2s") i.
  Proof. both ltac:(fun P H => dattr_loc P H "s.d_Y2s_d_varphi" "s.Y2s"). Qed.
  Lemma F_dY2c i : S "s.d_Y2c_d_varphi" i = Dv (S "s.Y2c") i.
  Proof. both ltac:(fun P H => dattr_loc P H "s.d_Y2c_d_varphi" "s.Y2c"). Qed.
  Lemma F_dZ20 i : S "s.d_Z20_d_varphi" i = Dv (S "s.Z20") i.
  Proof. both ltac:(fun P H => dattr_loc P H "s.d_Z20_d_varphi" "s.Z20"). Qed.
  Lemma F_dZ2s i : S "s.d_Z2s_d_varphi" i = Dv (S "s.Z2s") i.
  Proof. both ltac:(fun P H => dattr_loc P H "s.d_Z2s_d_varphi" "s.Z2s"). Qed.
  Lemma F_dZ2c i : S "s.d_Z2c_d_varphi" i = Dv (S "s.Z2c") i.
  Proof. both ltac:(fun P H => dattr_loc P H "s.d_Z2c_d_varphi" "s.Z2c"). Qed.
  Lemma F_dkap i : S "s.d_curvature_d_varphi" i = Dv kap i.
  Proof. both ltac:(fun P H => dattr_attr P H "s.d_curvature_d_varphi"). Qed.
  Lemma F_dtau i : S "s.d_torsion_d_varphi" i = Dv (S "s.torsion") i.
  Proof. both ltac:(fun P H => dattr_attr P H "s.d_torsion_d_varphi"). Qed.
  Lemma F_d2X1c i : S "s.d2_X1c_d_varphi2" i = Dv (S "s.d_X1c_d_varphi") i.
  Proof. both ltac:(fun P H => dattr_attr P H "s.d2_X1c_d_varphi2"). Qed.
  Lemma F_d2Y1s i : S "s.d2_Y1s_d_varphi2" i = Dv (S "s.d_Y1s_d_varphi") i.
  Proof. both ltac:(fun P H => dattr_attr P H "s.d2_Y1s_d_varphi2"). Qed.
  Lemma F_d2Y1c i : S "s.d2_Y1c_d_varphi2" i = Dv (S "s.d_Y1c_d_varphi") i.
  Proof. both ltac:(fun P H => dattr_attr P H "s.d2_Y1c_d_varphi2"). Qed.

  Ltac y2_prep P H nm :=
    rewrite <- (st_agree _ _ _ _ H nm eq_refl);
    unfold_fixes O P (st_fix _ _ _ _ H) (nm :: "Y2s" :: "Y2c" :: "Y2s_inhomogeneous" :: "Y2s_from_X20" :: "Y2c_inhomogeneous" :: "Y2c_from_X20"
         :: "sG" :: "spsi" :: "curvature" :: "etabar" :: "sigma" :: nil)%list;
    loc2attr P H "X20" "s.X20"; loc2attr P H "Y20" "s.Y20"; loc2attr P H "X2s" "s.X2s"; loc2attr P H "X2c" "s.X2c";
    to_state H; qsimp.
  Lemma F_Y2s i : S "s.Y2s" i =
     sG i * spsi i * (- kap i / 2 + kap i * kap i / (etabar i * etabar i) * (- S "s.X2c" i + S "s.X2s" i * S "s.sigma" i))
     - sG i * spsi i * kap i * kap i / (etabar i * etabar i) * S "s.X20" i.
  Proof. pose proof (adm_eta S Hadm i) as He. both ltac:(fun P H => y2_prep P H "s.Y2s"; field; assumption). Qed.
  Lemma F_Y2c i : S "s.Y2c" i =
     sG i * spsi i * kap i * kap i / (etabar i * etabar i) * (S "s.X2s" i + S "s.X2c" i * S "s.sigma" i)
     - sG i * spsi i * kap i * kap i * S "s.sigma" i / (etabar i * etabar i) * S "s.X20" i + S "s.Y20" i.
  Proof. pose proof (adm_eta S Hadm i) as He. both ltac:(fun P H => y2_prep P H "s.Y2c"; field; assumption). Qed.

  (* ---- derived relations ---- *)
  Lemma sGspsi_const : is_const (fun k => sG k * spsi k).
  Proof. apply is_const_mul; [apply (adm_sG_const S Hadm)|apply (adm_spsi_const S Hadm)]. Qed.
  Lemma R_XY i : X1c i * Y1s i = sG i * spsi i.
  Proof. rewrite F_X1c, F_Y1s. field. split; [apply (adm_eta S Hadm)|apply (adm_kappa S Hadm)]. Qed.
  Lemma R_dXY i : S "s.d_X1c_d_varphi" i * Y1s i + X1c i * S "s.d_Y1s_d_varphi" i = 0.
  Proof. rewrite F_dX1c, F_dY1s. apply (prod_const O HD S X1c Y1s (fun k => sG k * spsi k)); [apply R_XY|apply sGspsi_const]. Qed.
  Lemma R_d2XY i : S "s.d2_X1c_d_varphi2" i * Y1s i + 2 * S "s.d_X1c_d_varphi" i * S "s.d_Y1s_d_varphi" i + X1c i * S "s.d2_Y1s_d_varphi2" i = 0.
  Proof. rewrite F_d2X1c, F_d2Y1s. apply (prod_const2 O HD S X1c Y1s); [apply F_dX1c|apply F_dY1s|apply R_dXY]. Qed.
  Lemma R_kX i : kap i * X1c i = etabar i.
  Proof. rewrite F_X1c. field. apply (adm_kappa S Hadm). Qed.
  Lemma R_dkX i : S "s.d_curvature_d_varphi" i * X1c i + kap i * S "s.d_X1c_d_varphi" i = 0.
  Proof. rewrite F_dkap, F_dX1c. apply (prod_const O HD S kap X1c etabar); [apply R_kX|apply (adm_eta_const S Hadm)]. Qed.
  (* solved forms: everything first-order in terms of X1c and its derivatives *)
  Lemma S_Y1s i : Y1s i = sG i * spsi i / X1c i.
  Proof. rewrite <- R_XY. field. apply X1c_nz. Qed.
  Lemma S_dY1s i : S "s.d_Y1s_d_varphi" i = - (sG i * spsi i * S "s.d_X1c_d_varphi" i) / (X1c i * X1c i).
  Proof.
    pose proof (X1c_nz i) as Hx. pose proof (R_dXY i) as E. rewrite S_Y1s in E.
    apply (Rmult_eq_reg_l (X1c i)); [|exact Hx].
    replace (X1c i * S "s.d_Y1s_d_varphi" i) with (- (S "s.d_X1c_d_varphi" i * (sG i * spsi i / X1c i))) by lra.
    field. exact Hx.
  Qed.
  Lemma S_d2Y1s i : S "s.d2_Y1s_d_varphi2" i =
    sG i * spsi i * (2 * S "s.d_X1c_d_varphi" i * S "s.d_X1c_d_varphi" i - X1c i * S "s.d2_X1c_d_varphi2" i) / (X1c i * X1c i * X1c i).
  Proof.
    pose proof (X1c_nz i) as Hx. pose proof (R_d2XY i) as E. rewrite S_dY1s, S_Y1s in E.
    apply (Rmult_eq_reg_l (X1c i)); [|exact Hx].
    replace (X1c i * S "s.d2_Y1s_d_varphi2" i) with
      (- (S "s.d2_X1c_d_varphi2" i * (sG i * spsi i / X1c i) + 2 * S "s.d_X1c_d_varphi" i * (- (sG i * spsi i * S "s.d_X1c_d_varphi" i) / (X1c i * X1c i)))) by lra.
    field. exact Hx.
  Qed.
  Lemma S_kap i : kap i = etabar i / X1c i.
  Proof. rewrite <- R_kX. field. apply X1c_nz. Qed.
  Lemma S_dkap i : S "s.d_curvature_d_varphi" i = - (etabar i * S "s.d_X1c_d_varphi" i) / (X1c i * X1c i).
  Proof.
    pose proof (X1c_nz i) as Hx. pose proof (R_dkX i) as E. rewrite S_kap in E.
    apply (Rmult_eq_reg_r (X1c i)); [|exact Hx].
    replace (S "s.d_curvature_d_varphi" i * X1c i) with (- (etabar i / X1c i * S "s.d_X1c_d_varphi" i)) by lra.
    field. exact Hx.
  Qed.
  (* the two algebraic O(r^2) relations in polynomial form *)
  Lemma R_Y2s i : S "s.Y2s" i = sG i * spsi i * (- kap i * / 2)
       + sG i * spsi i * (Y1s i * Y1s i * (- S "s.X2c" i - S "s.X20" i) + Y1s i * Y1c i * S "s.X2s" i).
  Proof.
    rewrite F_Y2s, F_Y1s, F_Y1c. pose proof (adm_eta S Hadm i).
    destruct (pm1 _ (adm_sG S Hadm i)) as [Es|Es]; destruct (pm1 _ (adm_spsi S Hadm i)) as [Ep|Ep]; rewrite Es, Ep; field; assumption.
  Qed.
  Lemma R_Y2c i : S "s.Y2c" i = S "s.Y20" i
       + sG i * spsi i * (Y1s i * Y1s i * S "s.X2s" i + Y1s i * Y1c i * (S "s.X2c" i - S "s.X20" i)).
  Proof.
    rewrite F_Y2c, F_Y1s, F_Y1c. pose proof (adm_eta S Hadm i).
    destruct (pm1 _ (adm_sG S Hadm i)) as [Es|Es]; destruct (pm1 _ (adm_spsi S Hadm i)) as [Ep|Ep]; rewrite Es, Ep; field; assumption.
  Qed.
  Ltac dv_push := repeat first [rewrite (Dv_add O HD) | rewrite (Dv_sub O HD) | rewrite (Dv_mul O HD) | rewrite (Dv_neg O HD) | rewrite (Dv_cst O HD)].
  Lemma R_dY2s i : S "s.d_Y2s_d_varphi" i = sG i * spsi i * (- S "s.d_curvature_d_varphi" i * / 2)
       + sG i * spsi i * (2 * Y1s i * S "s.d_Y1s_d_varphi" i * (- S "s.X2c" i - S "s.X20" i)
                          + Y1s i * Y1s i * (- S "s.d_X2c_d_varphi" i - S "s.d_X20_d_varphi" i)
                          + S "s.d_Y1s_d_varphi" i * Y1c i * S "s.X2s" i + Y1s i * S "s.d_Y1c_d_varphi" i * S "s.X2s" i
                          + Y1s i * Y1c i * S "s.d_X2s_d_varphi" i).
  Proof.
    rewrite F_dY2s. rewrite (Dv_ext O S _ _ i R_Y2s). dv_push.
    rewrite !(Dv_isconst O HD S sG), !(Dv_isconst O HD S spsi) by (apply (adm_sG_const S Hadm) || apply (adm_spsi_const S Hadm)).
    rewrite F_dkap, F_dY1s, F_dY1c, F_dX2c, F_dX20, F_dX2s. ring.
  Qed.
  Lemma R_dY2c i : S "s.d_Y2c_d_varphi" i = S "s.d_Y20_d_varphi" i
       + sG i * spsi i * (2 * Y1s i * S "s.d_Y1s_d_varphi" i * S "s.X2s" i + Y1s i * Y1s i * S "s.d_X2s_d_varphi" i
                          + S "s.d_Y1s_d_varphi" i * Y1c i * (S "s.X2c" i - S "s.X20" i)
                          + Y1s i * S "s.d_Y1c_d_varphi" i * (S "s.X2c" i - S "s.X20" i)
                          + Y1s i * Y1c i * (S "s.d_X2c_d_varphi" i - S "s.d_X20_d_varphi" i)).
  Proof.
    rewrite F_dY2c. rewrite (Dv_ext O S _ _ i R_Y2c). dv_push.
    rewrite !(Dv_isconst O HD S sG), !(Dv_isconst O HD S spsi) by (apply (adm_sG_const S Hadm) || apply (adm_spsi_const S Hadm)).
    rewrite F_dY20, F_dY1s, F_dY1c, F_dX2c, F_dX20, F_dX2s. ring.
  Qed.

  (* ---- the tensor entries ---- *)
  Variable VG : string -> I -> R.
  Hypothesis HG : stage O calculate_grad_grad_B_tensor S VG.
  Ltac gg_locals := unfold_fixes O calculate_grad_grad_B_tensor (st_fix _ _ _ _ HG)
    ("X1c" :: "Y1s" :: "Y1c" :: "X20" :: "X2s" :: "X2c" :: "Y20" :: "Y2s" :: "Y2c" :: "Z20" :: "Z2s" :: "Z2c" :: "iota_N0" :: "iota" :: "lp" :: "curvature" :: "torsion" :: "sign_G" :: "sign_psi" :: "B0" :: "G0" :: "I2" :: "G2" :: "p2" :: "B20" :: "B2s" :: "B2c" :: "d_X1c_d_varphi" :: "d_Y1s_d_varphi" :: "d_Y1c_d_varphi" :: "d_X20_d_varphi" :: "d_X2s_d_varphi" :: "d_X2c_d_varphi" :: "d_Y20_d_varphi" :: "d_Y2s_d_varphi" :: "d_Y2c_d_varphi" :: "d_Z20_d_varphi" :: "d_Z2s_d_varphi" :: "d_Z2c_d_varphi" :: "d2_X1c_d_varphi2" :: "d2_Y1s_d_varphi2" :: "d2_Y1c_d_varphi2" :: "d_curvature_d_varphi" :: "d_torsion_d_varphi" :: nil)%list.
  (* S "s.grad_grad_B.." i  -->  its formula over the object state *)
  Ltac gg_entry a l :=
    rewrite <- (st_agree _ _ _ _ HG a eq_refl);
    unfold_fixes O calculate_grad_grad_B_tensor (st_fix _ _ _ _ HG) (a :: l :: nil)%list.
  Lemma sG_nz i : sG i <> 0.
  Proof. intros E. pose proof (adm_sG S Hadm i) as H. rewrite E in H. lra. Qed.
  Lemma spsi_nz i : spsi i <> 0.
  Proof. intros E. pose proof (adm_spsi S Hadm i) as H. rewrite E in H. lra. Qed.
  Ltac nz := repeat split; first [apply X1c_nz | apply sG_nz | apply spsi_nz | apply (adm_eta S Hadm) | apply (adm_kappa S Hadm)
                                 | apply Rgt_not_eq, (adm_B0 S Hadm) | apply Rgt_not_eq, (adm_lp S Hadm) | lra].
  Ltac close i :=
    rewrite ?R_dY2s, ?R_dY2c, ?R_Y2s, ?R_Y2c, ?S_d2Y1s, ?S_dY1s, ?S_Y1s, ?S_dkap, ?S_kap, ?F_absG0, ?F_G0;
    pose proof (adm_sG S Hadm i) as Es; pose proof (adm_spsi S Hadm i) as Ep;
    qsimp; field [Es Ep]; nz.
  Ltac two a b c d :=
    intros i; gg_entry a b; gg_entry c d; gg_locals; to_state HG; close i.
  (* ---- (d) the two derivations agree ---- *)
  Lemma two_000 : forall i, S "s.grad_grad_B_0_0_0" i = S "s.grad_grad_B_alt_0_0_0" i.
  Proof. two "s.grad_grad_B_0_0_0" "grad_grad_B_0_0_0#2" "s.grad_grad_B_alt_0_0_0" "grad_grad_B_alt_0_0_0#2". Qed.
  Lemma two_001 : forall i, S "s.grad_grad_B_0_0_1" i = S "s.grad_grad_B_alt_0_0_1" i.
  Proof. two "s.grad_grad_B_0_0_1" "grad_grad_B_0_0_1#2" "s.grad_grad_B_alt_0_0_1" "grad_grad_B_alt_0_0_1#2". Qed.
  Lemma two_002 : forall i, S "s.grad_grad_B_0_0_2" i = S "s.grad_grad_B_alt_0_0_2" i.
  Proof. two "s.grad_grad_B_0_0_2" "grad_grad_B_0_0_2#2" "s.grad_grad_B_alt_0_0_2" "grad_grad_B_alt_0_0_2#2". Qed.
  Lemma two_010 : forall i, S "s.grad_grad_B_0_1_0" i = S "s.grad_grad_B_alt_0_1_0" i.
  Proof. two "s.grad_grad_B_0_1_0" "grad_grad_B_0_1_0#2" "s.grad_grad_B_alt_0_1_0" "grad_grad_B_alt_0_1_0#2". Qed.
  Lemma two_011 : forall i, S "s.grad_grad_B_0_1_1" i = S "s.grad_grad_B_alt_0_1_1" i.
  Proof. two "s.grad_grad_B_0_1_1" "grad_grad_B_0_1_1#2" "s.grad_grad_B_alt_0_1_1" "grad_grad_B_alt_0_1_1#2". Qed.
  Lemma two_012 : forall i, S "s.grad_grad_B_0_1_2" i = S "s.grad_grad_B_alt_0_1_2" i.
  Proof. two "s.grad_grad_B_0_1_2" "grad_grad_B_0_1_2#2" "s.grad_grad_B_alt_0_1_2" "grad_grad_B_alt_0_1_2#2". Qed.
  Lemma two_020 : forall i, S "s.grad_grad_B_0_2_0" i = S "s.grad_grad_B_alt_0_2_0" i.
  Proof. two "s.grad_grad_B_0_2_0" "grad_grad_B_0_2_0#2" "s.grad_grad_B_alt_0_2_0" "grad_grad_B_alt_0_2_0#2". Qed.
  Lemma two_021 : forall i, S "s.grad_grad_B_0_2_1" i = S "s.grad_grad_B_alt_0_2_1" i.
  Proof. two "s.grad_grad_B_0_2_1" "grad_grad_B_0_2_1#2" "s.grad_grad_B_alt_0_2_1" "grad_grad_B_alt_0_2_1#2". Qed.
  Lemma two_022 : forall i, S "s.grad_grad_B_0_2_2" i = S "s.grad_grad_B_alt_0_2_2" i.
  Proof. two "s.grad_grad_B_0_2_2" "grad_grad_B_0_2_2#2" "s.grad_grad_B_alt_0_2_2" "grad_grad_B_alt_0_2_2#2". Qed.
  Lemma two_100 : forall i, S "s.grad_grad_B_1_0_0" i = S "s.grad_grad_B_alt_1_0_0" i.
  Proof. two "s.grad_grad_B_1_0_0" "grad_grad_B_1_0_0#2" "s.grad_grad_B_alt_1_0_0" "grad_grad_B_alt_1_0_0#2". Qed.
  Lemma two_101 : forall i, S "s.grad_grad_B_1_0_1" i = S "s.grad_grad_B_alt_1_0_1" i.
  Proof. two "s.grad_grad_B_1_0_1" "grad_grad_B_1_0_1#2" "s.grad_grad_B_alt_1_0_1" "grad_grad_B_alt_1_0_1#2". Qed.
  Lemma two_102 : forall i, S "s.grad_grad_B_1_0_2" i = S "s.grad_grad_B_alt_1_0_2" i.
  Proof. two "s.grad_grad_B_1_0_2" "grad_grad_B_1_0_2#2" "s.grad_grad_B_alt_1_0_2" "grad_grad_B_alt_1_0_2#2". Qed.
  Lemma two_110 : forall i, S "s.grad_grad_B_1_1_0" i = S "s.grad_grad_B_alt_1_1_0" i.
  Proof. two "s.grad_grad_B_1_1_0" "grad_grad_B_1_1_0#2" "s.grad_grad_B_alt_1_1_0" "grad_grad_B_alt_1_1_0#2". Qed.
  Lemma two_111 : forall i, S "s.grad_grad_B_1_1_1" i = S "s.grad_grad_B_alt_1_1_1" i.
  Proof. two "s.grad_grad_B_1_1_1" "grad_grad_B_1_1_1#2" "s.grad_grad_B_alt_1_1_1" "grad_grad_B_alt_1_1_1#2". Qed.
  Lemma two_112 : forall i, S "s.grad_grad_B_1_1_2" i = S "s.grad_grad_B_alt_1_1_2" i.
  Proof. two "s.grad_grad_B_1_1_2" "grad_grad_B_1_1_2#2" "s.grad_grad_B_alt_1_1_2" "grad_grad_B_alt_1_1_2#2". Qed.
  Lemma two_120 : forall i, S "s.grad_grad_B_1_2_0" i = S "s.grad_grad_B_alt_1_2_0" i.
  Proof. two "s.grad_grad_B_1_2_0" "grad_grad_B_1_2_0#2" "s.grad_grad_B_alt_1_2_0" "grad_grad_B_alt_1_2_0#2". Qed.
  Lemma two_121 : forall i, S "s.grad_grad_B_1_2_1" i = S "s.grad_grad_B_alt_1_2_1" i.
  Proof. two "s.grad_grad_B_1_2_1" "grad_grad_B_1_2_1#2" "s.grad_grad_B_alt_1_2_1" "grad_grad_B_alt_1_2_1#2". Qed.
  Lemma two_122 : forall i, S "s.grad_grad_B_1_2_2" i = S "s.grad_grad_B_alt_1_2_2" i.
  Proof. two "s.grad_grad_B_1_2_2" "grad_grad_B_1_2_2#2" "s.grad_grad_B_alt_1_2_2" "grad_grad_B_alt_1_2_2#2". Qed.
  Lemma two_200 : forall i, S "s.grad_grad_B_2_0_0" i = S "s.grad_grad_B_alt_2_0_0" i.
  Proof. two "s.grad_grad_B_2_0_0" "grad_grad_B_2_0_0#2" "s.grad_grad_B_alt_2_0_0" "grad_grad_B_alt_2_0_0#2". Qed.
  Lemma two_201 : forall i, S "s.grad_grad_B_2_0_1" i = S "s.grad_grad_B_alt_2_0_1" i.
  Proof. two "s.grad_grad_B_2_0_1" "grad_grad_B_2_0_1#2" "s.grad_grad_B_alt_2_0_1" "grad_grad_B_alt_2_0_1#2". Qed.
  Lemma two_202 : forall i, S "s.grad_grad_B_2_0_2" i = S "s.grad_grad_B_alt_2_0_2" i.
  Proof. two "s.grad_grad_B_2_0_2" "grad_grad_B_2_0_2#2" "s.grad_grad_B_alt_2_0_2" "grad_grad_B_alt_2_0_2#2". Qed.
  Lemma two_210 : forall i, S "s.grad_grad_B_2_1_0" i = S "s.grad_grad_B_alt_2_1_0" i.
  Proof. two "s.grad_grad_B_2_1_0" "grad_grad_B_2_1_0#2" "s.grad_grad_B_alt_2_1_0" "grad_grad_B_alt_2_1_0#2". Qed.
  Lemma two_211 : forall i, S "s.grad_grad_B_2_1_1" i = S "s.grad_grad_B_alt_2_1_1" i.
  Proof. two "s.grad_grad_B_2_1_1" "grad_grad_B_2_1_1#2" "s.grad_grad_B_alt_2_1_1" "grad_grad_B_alt_2_1_1#2". Qed.
  Lemma two_212 : forall i, S "s.grad_grad_B_2_1_2" i = S "s.grad_grad_B_alt_2_1_2" i.
  Proof. two "s.grad_grad_B_2_1_2" "grad_grad_B_2_1_2#2" "s.grad_grad_B_alt_2_1_2" "grad_grad_B_alt_2_1_2#2". Qed.
  Lemma two_220 : forall i, S "s.grad_grad_B_2_2_0" i = S "s.grad_grad_B_alt_2_2_0" i.
  Proof. two "s.grad_grad_B_2_2_0" "grad_grad_B_2_2_0#2" "s.grad_grad_B_alt_2_2_0" "grad_grad_B_alt_2_2_0#2". Qed.
  Lemma two_221 : forall i, S "s.grad_grad_B_2_2_1" i = S "s.grad_grad_B_alt_2_2_1" i.
  Proof. two "s.grad_grad_B_2_2_1" "grad_grad_B_2_2_1#2" "s.grad_grad_B_alt_2_2_1" "grad_grad_B_alt_2_2_1#2". Qed.
  Lemma two_222 : forall i, S "s.grad_grad_B_2_2_2" i = S "s.grad_grad_B_alt_2_2_2" i.
  Proof. two "s.grad_grad_B_2_2_2" "grad_grad_B_2_2_2#2" "s.grad_grad_B_alt_2_2_2" "grad_grad_B_alt_2_2_2#2". Qed.
  Theorem C10_two_ways : two_ways S.
  Proof.
    intros i a b c Ha Hb Hc. unfold G, Galt.
    destruct a as [|[|[|a]]]; try lia; destruct b as [|[|[|b]]]; try lia; destruct c as [|[|[|c]]]; try lia;
      first [apply two_000|apply two_001|apply two_002|apply two_010|apply two_011|apply two_012|apply two_020|apply two_021|apply two_022|apply two_100|apply two_101|apply two_102|apply two_110|apply two_111|apply two_112|apply two_120|apply two_121|apply two_122|apply two_200|apply two_201|apply two_202|apply two_210|apply two_211|apply two_212|apply two_220|apply two_221|apply two_222].
  Qed.
  (* ---- (a) symmetry in the derivative indices ---- *)
  Lemma sym_010 : forall i, S "s.grad_grad_B_0_1_0" i = S "s.grad_grad_B_1_0_0" i.
  Proof. two "s.grad_grad_B_0_1_0" "grad_grad_B_0_1_0#2" "s.grad_grad_B_1_0_0" "grad_grad_B_1_0_0#2". Qed.
  Lemma sym_011 : forall i, S "s.grad_grad_B_0_1_1" i = S "s.grad_grad_B_1_0_1" i.
  Proof. two "s.grad_grad_B_0_1_1" "grad_grad_B_0_1_1#2" "s.grad_grad_B_1_0_1" "grad_grad_B_1_0_1#2". Qed.
  Lemma sym_012 : forall i, S "s.grad_grad_B_0_1_2" i = S "s.grad_grad_B_1_0_2" i.
  Proof. two "s.grad_grad_B_0_1_2" "grad_grad_B_0_1_2#2" "s.grad_grad_B_1_0_2" "grad_grad_B_1_0_2#2". Qed.
  Lemma sym_020 : forall i, S "s.grad_grad_B_0_2_0" i = S "s.grad_grad_B_2_0_0" i.
  Proof. two "s.grad_grad_B_0_2_0" "grad_grad_B_0_2_0#2" "s.grad_grad_B_2_0_0" "grad_grad_B_2_0_0#2". Qed.
  Lemma sym_021 : forall i, S "s.grad_grad_B_0_2_1" i = S "s.grad_grad_B_2_0_1" i.
  Proof. two "s.grad_grad_B_0_2_1" "grad_grad_B_0_2_1#2" "s.grad_grad_B_2_0_1" "grad_grad_B_2_0_1#2". Qed.
  Lemma sym_022 : forall i, S "s.grad_grad_B_0_2_2" i = S "s.grad_grad_B_2_0_2" i.
  Proof. two "s.grad_grad_B_0_2_2" "grad_grad_B_0_2_2#2" "s.grad_grad_B_2_0_2" "grad_grad_B_2_0_2#2". Qed.
  Lemma sym_120 : forall i, S "s.grad_grad_B_1_2_0" i = S "s.grad_grad_B_2_1_0" i.
  Proof. two "s.grad_grad_B_1_2_0" "grad_grad_B_1_2_0#2" "s.grad_grad_B_2_1_0" "grad_grad_B_2_1_0#2". Qed.
  Lemma sym_121 : forall i, S "s.grad_grad_B_1_2_1" i = S "s.grad_grad_B_2_1_1" i.
  Proof. two "s.grad_grad_B_1_2_1" "grad_grad_B_1_2_1#2" "s.grad_grad_B_2_1_1" "grad_grad_B_2_1_1#2". Qed.
  Lemma sym_122 : forall i, S "s.grad_grad_B_1_2_2" i = S "s.grad_grad_B_2_1_2" i.
  Proof. two "s.grad_grad_B_1_2_2" "grad_grad_B_1_2_2#2" "s.grad_grad_B_2_1_2" "grad_grad_B_2_1_2#2". Qed.
  Theorem C10_sym12 : sym12 S.
  Proof.
    intros i a b c Ha Hb Hc. unfold G.
    destruct a as [|[|[|a]]]; try lia; destruct b as [|[|[|b]]]; try lia; destruct c as [|[|[|c]]]; try lia;
      first [reflexivity|apply sym_010|apply sym_011|apply sym_012|apply sym_020|apply sym_021|apply sym_022|apply sym_120|apply sym_121|apply sym_122|symmetry; apply sym_010|symmetry; apply sym_011|symmetry; apply sym_012|symmetry; apply sym_020|symmetry; apply sym_021|symmetry; apply sym_022|symmetry; apply sym_120|symmetry; apply sym_121|symmetry; apply sym_122].
  Qed.
  (* ---- (b) gradient of div B ---- *)
  Ltac three a b c d e f :=
    intros i; gg_entry a b; gg_entry c d; gg_entry e f; gg_locals; to_state HG; close i.
  Lemma div_0 : forall i, S "s.grad_grad_B_0_0_0" i + S "s.grad_grad_B_0_1_1" i + S "s.grad_grad_B_0_2_2" i = 0.
  Proof. three "s.grad_grad_B_0_0_0" "grad_grad_B_0_0_0#2" "s.grad_grad_B_0_1_1" "grad_grad_B_0_1_1#2" "s.grad_grad_B_0_2_2" "grad_grad_B_0_2_2#2". Qed.
  Lemma div_1 : forall i, S "s.grad_grad_B_1_0_0" i + S "s.grad_grad_B_1_1_1" i + S "s.grad_grad_B_1_2_2" i = 0.
  Proof. three "s.grad_grad_B_1_0_0" "grad_grad_B_1_0_0#2" "s.grad_grad_B_1_1_1" "grad_grad_B_1_1_1#2" "s.grad_grad_B_1_2_2" "grad_grad_B_1_2_2#2". Qed.
  Lemma div_2 : forall i, S "s.grad_grad_B_2_0_0" i + S "s.grad_grad_B_2_1_1" i + S "s.grad_grad_B_2_2_2" i = 0.
  Proof. three "s.grad_grad_B_2_0_0" "grad_grad_B_2_0_0#2" "s.grad_grad_B_2_1_1" "grad_grad_B_2_1_1#2" "s.grad_grad_B_2_2_2" "grad_grad_B_2_2_2#2". Qed.
  Theorem C10_divfree : divfree S.
  Proof.
    intros i a Ha. unfold G.
    destruct a as [|[|[|a]]]; try lia; first [apply div_0|apply div_1|apply div_2].
  Qed.

  (* ---- (e) tangent contraction ---- *)
  Variable VT : string -> I -> R.
  Hypothesis HT : stage O calculate_grad_B_tensor S VT.
  Hypothesis Hcst : constants S.
  Notation fct := (fun i => spsi i * B0 i / S "s.d_l_d_varphi" i).
  Ltac T_fun nm :=
    unfold_fixes O calculate_grad_B_tensor (st_fix _ _ _ _ HT) (nm :: "tensor.tn" :: "factor" :: nil)%list; to_state HT.
  Ltac consts i :=
    let c1 := fresh "c" in let c2 := fresh "c" in let c3 := fresh "c" in let c4 := fresh "c" in let c5 := fresh "c" in
    let E1 := fresh "E" in let E2 := fresh "E" in let E3 := fresh "E" in let E4 := fresh "E" in let E5 := fresh "E" in
    destruct (adm_sG_const S Hadm) as [c1 E1]; destruct (adm_spsi_const S Hadm) as [c2 E2];
    destruct (cst_B0 S Hcst) as [c3 E3]; destruct (cst_iotaN S Hcst) as [c4 E4];
    let E6 := fresh "E" in destruct (cst_lp S Hcst) as [c5 E6];
    assert (E5 : S "s.d_l_d_varphi" = fun _ => c5) by
      (apply functional_extensionality; intros k; rewrite F_dldvp, E6; reflexivity);
    rewrite ?E1, ?E2, ?E3, ?E4, ?E5; cbv beta.
  Ltac fin := rewrite ?F_d2X1c, ?F_d2Y1s, ?F_d2Y1c, ?F_dX1c, ?F_dY1s, ?F_dY1c, ?F_dkap, ?F_dtau; unfold Rdiv; ring.
  Lemma D_T_tn i : Dv (VT "tensor.tn") i = sG i * B0 i * S "s.d_curvature_d_varphi" i.
  Proof. T_fun "tensor.tn". consts i. dv_push. fin. Qed.
  Lemma D_T_nt i : Dv (VT "tensor.nt") i = sG i * B0 i * S "s.d_curvature_d_varphi" i.
  Proof. T_fun "tensor.nt". consts i. dv_push. fin. Qed.
  Lemma D_T_nn i : Dv (VT "tensor.nn") i = fct i * (S "s.d2_X1c_d_varphi2" i * Y1s i + S "s.d_X1c_d_varphi" i * S "s.d_Y1s_d_varphi" i
       + S "s.iotaN" i * (S "s.d_X1c_d_varphi" i * Y1c i + X1c i * S "s.d_Y1c_d_varphi" i)).
  Proof. T_fun "tensor.nn". consts i. dv_push. fin. Qed.
  Lemma D_T_bb i : Dv (VT "tensor.bb") i = fct i * (S "s.d_X1c_d_varphi" i * S "s.d_Y1s_d_varphi" i + X1c i * S "s.d2_Y1s_d_varphi2" i
       - S "s.iotaN" i * (S "s.d_X1c_d_varphi" i * Y1c i + X1c i * S "s.d_Y1c_d_varphi" i)).
  Proof. T_fun "tensor.bb". consts i. dv_push. fin. Qed.
  Lemma D_T_bn i : Dv (VT "tensor.bn") i = fct i * (- sG i * spsi i * S "s.d_l_d_varphi" i * S "s.d_torsion_d_varphi" i
       - S "s.iotaN" i * (2 * X1c i * S "s.d_X1c_d_varphi" i)).
  Proof. T_fun "tensor.bn". consts i. dv_push. fin. Qed.
  Lemma D_T_nb i : Dv (VT "tensor.nb") i = fct i * (S "s.d2_Y1c_d_varphi2" i * Y1s i - S "s.d2_Y1s_d_varphi2" i * Y1c i
       + sG i * spsi i * S "s.d_l_d_varphi" i * S "s.d_torsion_d_varphi" i
       + S "s.iotaN" i * (2 * Y1s i * S "s.d_Y1s_d_varphi" i + 2 * Y1c i * S "s.d_Y1c_d_varphi" i)).
  Proof. T_fun "tensor.nb". consts i. dv_push. fin. Qed.
  (* pointwise values of the grad B tensor *)
  Ltac T_vals := unfold_fixes O calculate_grad_B_tensor (st_fix _ _ _ _ HT)
     ("tensor.nn" :: "tensor.nb" :: "tensor.nt" :: "tensor.bn" :: "tensor.bb" :: "tensor.tn" :: "factor" :: nil)%list; to_state HT.
  Ltac tang a l :=
    intros i; gg_entry a l; gg_locals; to_state HG;
    cbv beta iota delta [dTdl ddl T W];
    rewrite ?D_T_nn, ?D_T_nb, ?D_T_nt, ?D_T_bn, ?D_T_bb, ?D_T_tn, ?(Dv_cst O HD S); T_vals; rewrite ?F_dldvp; close i.
  Lemma tan_00 : forall i, S "s.grad_grad_B_2_0_0" i = dTdl O S VT 0 0 i.
  Proof. tang "s.grad_grad_B_2_0_0" "grad_grad_B_2_0_0#2". Qed.
  Lemma tan_01 : forall i, S "s.grad_grad_B_2_0_1" i = dTdl O S VT 0 1 i.
  Proof. tang "s.grad_grad_B_2_0_1" "grad_grad_B_2_0_1#2". Qed.
  Lemma tan_02 : forall i, S "s.grad_grad_B_2_0_2" i = dTdl O S VT 0 2 i.
  Proof. tang "s.grad_grad_B_2_0_2" "grad_grad_B_2_0_2#2". Qed.
  Lemma tan_10 : forall i, S "s.grad_grad_B_2_1_0" i = dTdl O S VT 1 0 i.
  Proof. tang "s.grad_grad_B_2_1_0" "grad_grad_B_2_1_0#2". Qed.
  Lemma tan_11 : forall i, S "s.grad_grad_B_2_1_1" i = dTdl O S VT 1 1 i.
  Proof. tang "s.grad_grad_B_2_1_1" "grad_grad_B_2_1_1#2". Qed.
  Lemma tan_12 : forall i, S "s.grad_grad_B_2_1_2" i = dTdl O S VT 1 2 i.
  Proof. tang "s.grad_grad_B_2_1_2" "grad_grad_B_2_1_2#2". Qed.
  Lemma tan_20 : forall i, S "s.grad_grad_B_2_2_0" i = dTdl O S VT 2 0 i.
  Proof. tang "s.grad_grad_B_2_2_0" "grad_grad_B_2_2_0#2". Qed.
  Lemma tan_21 : forall i, S "s.grad_grad_B_2_2_1" i = dTdl O S VT 2 1 i.
  Proof. tang "s.grad_grad_B_2_2_1" "grad_grad_B_2_2_1#2". Qed.
  Lemma tan_22 : forall i, S "s.grad_grad_B_2_2_2" i = dTdl O S VT 2 2 i.
  Proof. tang "s.grad_grad_B_2_2_2" "grad_grad_B_2_2_2#2". Qed.
  Theorem C10_tangent_contraction : tangent_contraction O S VT.
  Proof.
    intros i a b Ha Hb. unfold G.
    destruct a as [|[|[|a]]]; try lia; destruct b as [|[|[|b]]]; try lia;
      first [apply tan_00|apply tan_01|apply tan_02|apply tan_10|apply tan_11|apply tan_12|apply tan_20|apply tan_21|apply tan_22].
  Qed.
  (* ---- (c), tangent slice only: the sigma equation and its derivative ---- *)
  Variable VR : string -> I -> R.
  Hypothesis HR : stage O residual S VR.
  Hypothesis Hsig : sigma_solved O S VR.
  Lemma F_ebc i : S "s.etabar_squared_over_curvature_squared" i = X1c i * X1c i.
  Proof.
    rewrite F_X1c. rewrite <- (st_agree _ _ _ _ HA "s.etabar_squared_over_curvature_squared" eq_refl).
    unfold_fix O init_axis (st_fix _ _ _ _ HA) "s.etabar_squared_over_curvature_squared".
    loc2attr init_axis HA "curvature" "s.curvature". to_state HA. field. apply (adm_kappa S Hadm).
  Qed.
  Lemma S_sigma i : S "s.sigma" i = sG i * spsi i * Y1c i * X1c i.
  Proof.
    rewrite F_Y1c, F_X1c. pose proof (adm_sG S Hadm i) as Es; pose proof (adm_spsi S Hadm i) as Ep.
    field [Es Ep]. split; [apply (adm_kappa S Hadm)|apply (adm_eta S Hadm)].
  Qed.
  Definition sigE (k : I) : R :=
    sG k * spsi k * (S "s.d_Y1c_d_varphi" k * X1c k + Y1c k * S "s.d_X1c_d_varphi" k)
    + S "s.iotaN" k * (X1c k * X1c k * X1c k * X1c k + 1 + Y1c k * Y1c k * X1c k * X1c k)
    - 2 * X1c k * X1c k * (- spsi k * S "s.torsion" k + S "s.I2" k / B0 k) * sG k * aGB k.
  Lemma R_sig k : sigE k = 0.
  Proof.
    destruct Hsig as (Hxs & Hxi & Hr & Hpin & Hio).
    rewrite <- (Hr k).
    unfold_fixes O residual (st_fix _ _ _ _ HR) ("r" :: "sigma#2" :: "sigma" :: "iota" :: nil)%list.
    rewrite Hxs, Hxi. to_state HR. rewrite Hpin. rewrite <- Hio. rewrite F_ebc, F_G0, (S_sigma k).
    change (o_D O (S "s.sigma") k / S "s.d_varphi_d_phi" k) with (Dv (S "s.sigma") k).
    rewrite (Dv_ext O S _ _ k S_sigma). dv_push.
    rewrite !(Dv_isconst O HD S sG), !(Dv_isconst O HD S spsi) by (apply (adm_sG_const S Hadm) || apply (adm_spsi_const S Hadm)).
    rewrite <- F_dY1c, <- F_dX1c. unfold sigE. pose proof (adm_sG S Hadm k) as Es; pose proof (adm_spsi S Hadm k) as Ep.
    qsimp. field [Es Ep]. apply Rgt_not_eq, (adm_B0 S Hadm).
  Qed.
  Ltac consts2 i :=
    let c1 := fresh "c" in let c2 := fresh "c" in let c3 := fresh "c" in let c4 := fresh "c" in let c5 := fresh "c" in let c6 := fresh "c" in
    let E1 := fresh "E" in let E2 := fresh "E" in let E3 := fresh "E" in let E4 := fresh "E" in let E5 := fresh "E" in let E6 := fresh "E" in
    destruct (adm_sG_const S Hadm) as [c1 E1]; destruct (adm_spsi_const S Hadm) as [c2 E2];
    destruct (cst_B0 S Hcst) as [c3 E3]; destruct (cst_iotaN S Hcst) as [c4 E4];
    destruct (cst_lp S Hcst) as [c5 E5]; destruct (cst_I2 S Hcst) as [c6 E6];
    rewrite ?E1, ?E2, ?E3, ?E4, ?E5, ?E6; cbv beta.
  Definition sigE2 (k : I) : R :=
    sG k * spsi k * (S "s.d2_Y1c_d_varphi2" k * X1c k + 2 * S "s.d_Y1c_d_varphi" k * S "s.d_X1c_d_varphi" k + Y1c k * S "s.d2_X1c_d_varphi2" k)
    + S "s.iotaN" k * (4 * X1c k * X1c k * X1c k * S "s.d_X1c_d_varphi" k + 2 * Y1c k * S "s.d_Y1c_d_varphi" k * X1c k * X1c k
                       + 2 * Y1c k * Y1c k * X1c k * S "s.d_X1c_d_varphi" k)
    - 2 * sG k * aGB k * (2 * X1c k * S "s.d_X1c_d_varphi" k * (- spsi k * S "s.torsion" k + S "s.I2" k / B0 k)
                          + X1c k * X1c k * (- spsi k * S "s.d_torsion_d_varphi" k)).
  Lemma R_sig2 k : sigE2 k = 0.
  Proof.
    assert (E : Dv sigE k = 0) by (rewrite (Dv_ext O S _ (fun _ => 0) k R_sig); apply (Dv_cst O HD)).
    unfold sigE in E. unfold sigE2. revert E. consts2 k. unfold Rdiv. dv_push. intros HE.
    etransitivity; [|exact HE]. fin.
  Qed.
  Lemma S_dY1c k : S "s.d_Y1c_d_varphi" k =
    (- Y1c k * S "s.d_X1c_d_varphi" k
     - sG k * spsi k * (S "s.iotaN" k * (X1c k * X1c k * X1c k * X1c k + 1 + Y1c k * Y1c k * X1c k * X1c k)
                        - 2 * X1c k * X1c k * (- spsi k * S "s.torsion" k + S "s.I2" k / B0 k) * sG k * aGB k)) / X1c k.
  Proof.
    pose proof (adm_sG S Hadm k) as Es; pose proof (adm_spsi S Hadm k) as Ep.
    match goal with |- _ = ?r => replace (S "s.d_Y1c_d_varphi" k) with (r + sG k * spsi k / X1c k * sigE k) end.
    - rewrite R_sig. ring.
    - unfold sigE. field [Es Ep]. nz.
  Qed.
  Lemma S_d2Y1c k : S "s.d2_Y1c_d_varphi2" k =
    (- (2 * S "s.d_Y1c_d_varphi" k * S "s.d_X1c_d_varphi" k + Y1c k * S "s.d2_X1c_d_varphi2" k)
     - sG k * spsi k * (S "s.iotaN" k * (4 * X1c k * X1c k * X1c k * S "s.d_X1c_d_varphi" k + 2 * Y1c k * S "s.d_Y1c_d_varphi" k * X1c k * X1c k
                                          + 2 * Y1c k * Y1c k * X1c k * S "s.d_X1c_d_varphi" k)
                        - 2 * sG k * aGB k * (2 * X1c k * S "s.d_X1c_d_varphi" k * (- spsi k * S "s.torsion" k + S "s.I2" k / B0 k)
                                              + X1c k * X1c k * (- spsi k * S "s.d_torsion_d_varphi" k)))) / X1c k.
  Proof.
    pose proof (adm_sG S Hadm k) as Es; pose proof (adm_spsi S Hadm k) as Ep.
    match goal with |- _ = ?r => replace (S "s.d2_Y1c_d_varphi2" k) with (r + sG k * spsi k / X1c k * sigE2 k) end.
    - rewrite R_sig2. ring.
    - unfold sigE2. field [Es Ep]. nz.
  Qed.
  Ltac close2 i := rewrite ?S_d2Y1c, ?S_dY1c; close i.
  Lemma sl_201 : forall i, S "s.grad_grad_B_2_0_1" i = S "s.grad_grad_B_2_1_0" i.
  Proof. intros i; gg_entry "s.grad_grad_B_2_0_1" "grad_grad_B_2_0_1#2"; gg_entry "s.grad_grad_B_2_1_0" "grad_grad_B_2_1_0#2"; gg_locals; to_state HG; close2 i. Qed.
  Lemma sl_202 : forall i, S "s.grad_grad_B_2_0_2" i = S "s.grad_grad_B_2_2_0" i.
  Proof. intros i; gg_entry "s.grad_grad_B_2_0_2" "grad_grad_B_2_0_2#2"; gg_entry "s.grad_grad_B_2_2_0" "grad_grad_B_2_2_0#2"; gg_locals; to_state HG; close2 i. Qed.
  Lemma sl_212 : forall i, S "s.grad_grad_B_2_1_2" i - S "s.grad_grad_B_2_2_1" i = 2 * sG i * spsi i * S "s.I2" i * kap i.
  Proof. intros i; gg_entry "s.grad_grad_B_2_1_2" "grad_grad_B_2_1_2#2"; gg_entry "s.grad_grad_B_2_2_1" "grad_grad_B_2_2_1#2"; gg_locals; to_state HG; close2 i. Qed.
  Theorem C10_tangent_slice_curl : tangent_slice_curl S.
  Proof. intros i. unfold G. split; [apply sl_201|split; [apply sl_202|apply sl_212]]. Qed.
  Theorem C10_vacuum_tangent_slice_symmetric : vacuum_tangent_slice_symmetric S.
  Proof.
    intros HI i b c Hb Hc. destruct (C10_tangent_slice_curl i) as (E1 & E2 & E3). rewrite HI in E3.
    destruct b as [|[|[|b]]]; try lia; destruct c as [|[|[|c]]]; try lia; first [reflexivity|assumption|symmetry; assumption|lra].
  Qed.
End Facts.

(* ---------- (f) scale length and (g) the API variants: any operators ---------- *)
Section Variants.
  Context {I : Type} (O : ops I) (S VG VY VC : string -> I -> R).
  Hypothesis HG : stage O calculate_grad_grad_B_tensor S VG.
  Hypothesis HY : stage O grad_grad_B_tensor_cylindrical S VY.
  Hypothesis HC : stage O grad_grad_B_tensor_cartesian S VC.

  (* unfold only the bound names that occur in the goal *)
  Ltac unfold_present P H V :=
    repeat match goal with
           | |- context [V (String ?a ?b)] =>
               let x := constr:(String a b) in
               let d := eval vm_compute in (defn P x) in
               lazymatch d with Some _ => progress (unfold_fix O P (st_fix _ _ _ _ H) x) end
           end.
  Ltac from_state H l :=
    lazymatch l with
    | nil => idtac
    | cons ?x ?l' => rewrite <- (st_agree _ _ _ _ H x eq_refl); from_state H l'
    end.

  Theorem C10_scale_length : scale_length O S.
  Proof.
    intros i.
    assert (Hns : VG "norm_squared" i = frob3 S i).
    { unfold frob3, G. cbn [dg append].
      from_state HG ("s.grad_grad_B_0_0_0" :: "s.grad_grad_B_0_0_1" :: "s.grad_grad_B_0_0_2" :: "s.grad_grad_B_0_1_0" :: "s.grad_grad_B_0_1_1" :: "s.grad_grad_B_0_1_2" :: "s.grad_grad_B_0_2_0" :: "s.grad_grad_B_0_2_1" :: "s.grad_grad_B_0_2_2" :: "s.grad_grad_B_1_0_0" :: "s.grad_grad_B_1_0_1" :: "s.grad_grad_B_1_0_2" :: "s.grad_grad_B_1_1_0" :: "s.grad_grad_B_1_1_1" :: "s.grad_grad_B_1_1_2" :: "s.grad_grad_B_1_2_0" :: "s.grad_grad_B_1_2_1" :: "s.grad_grad_B_1_2_2" :: "s.grad_grad_B_2_0_0" :: "s.grad_grad_B_2_0_1" :: "s.grad_grad_B_2_0_2" :: "s.grad_grad_B_2_1_0" :: "s.grad_grad_B_2_1_1" :: "s.grad_grad_B_2_1_2" :: "s.grad_grad_B_2_2_0" :: "s.grad_grad_B_2_2_1" :: "s.grad_grad_B_2_2_2" :: nil)%list.
      unfold_fixes O calculate_grad_grad_B_tensor (st_fix _ _ _ _ HG) ("norm_squared" :: "squared_0_0_0" :: "squared_0_0_1" :: "squared_0_0_2" :: "squared_0_1_0" :: "squared_0_1_1" :: "squared_0_1_2" :: "squared_0_2_0" :: "squared_0_2_1" :: "squared_0_2_2" :: "squared_1_0_0" :: "squared_1_0_1" :: "squared_1_0_2" :: "squared_1_1_0" :: "squared_1_1_1" :: "squared_1_1_2" :: "squared_1_2_0" :: "squared_1_2_1" :: "squared_1_2_2" :: "squared_2_0_0" :: "squared_2_0_1" :: "squared_2_0_2" :: "squared_2_1_0" :: "squared_2_1_1" :: "squared_2_1_2" :: "squared_2_2_0" :: "squared_2_2_1" :: "squared_2_2_2" :: "s.grad_grad_B_0_0_0" :: "s.grad_grad_B_0_0_1" :: "s.grad_grad_B_0_0_2" :: "s.grad_grad_B_0_1_0" :: "s.grad_grad_B_0_1_1" :: "s.grad_grad_B_0_1_2" :: "s.grad_grad_B_0_2_0" :: "s.grad_grad_B_0_2_1" :: "s.grad_grad_B_0_2_2" :: "s.grad_grad_B_1_0_0" :: "s.grad_grad_B_1_0_1" :: "s.grad_grad_B_1_0_2" :: "s.grad_grad_B_1_1_0" :: "s.grad_grad_B_1_1_1" :: "s.grad_grad_B_1_1_2" :: "s.grad_grad_B_1_2_0" :: "s.grad_grad_B_1_2_1" :: "s.grad_grad_B_1_2_2" :: "s.grad_grad_B_2_0_0" :: "s.grad_grad_B_2_0_1" :: "s.grad_grad_B_2_0_2" :: "s.grad_grad_B_2_1_0" :: "s.grad_grad_B_2_1_1" :: "s.grad_grad_B_2_1_2" :: "s.grad_grad_B_2_2_0" :: "s.grad_grad_B_2_2_1" :: "s.grad_grad_B_2_2_2" :: nil)%list.
      reflexivity. }
    assert (Hpos : 0 <= frob3 S i).
    { unfold frob3.
      repeat (apply Rplus_le_le_0_compat; [|apply Rle_0_sqr]). apply Rle_0_sqr. }
    assert (Hinv : S "s.grad_grad_B_inverse_scale_length_vs_varphi" i = sqrt (sqrt (frob3 S i) / (4 * S "s.B0" i))).
    { rewrite <- Hns. rewrite <- (st_agree _ _ _ _ HG "s.grad_grad_B_inverse_scale_length_vs_varphi" eq_refl).
      unfold_fixes O calculate_grad_grad_B_tensor (st_fix _ _ _ _ HG) ("s.grad_grad_B_inverse_scale_length_vs_varphi" :: "B0" :: nil)%list.
      to_state HG. qsimp. reflexivity. }
    assert (Hsq : 0 < S "s.B0" i -> S "s.grad_grad_B_inverse_scale_length_vs_varphi" i * S "s.grad_grad_B_inverse_scale_length_vs_varphi" i * (4 * S "s.B0" i) = sqrt (frob3 S i)).
    { intros HB. rewrite Hinv. rewrite sqrt_sqrt.
      - field. lra.
      - unfold Rdiv. apply Rmult_le_pos; [apply sqrt_pos|]. apply Rlt_le, Rinv_0_lt_compat. lra. }
    split; [|split; [|split]].
    - intros Hnz. rewrite <- (st_agree _ _ _ _ HG "s.L_grad_grad_B" eq_refl).
      unfold_fix O calculate_grad_grad_B_tensor (st_fix _ _ _ _ HG) "s.L_grad_grad_B". to_state HG. qsimp. field. exact Hnz.
    - exact Hsq.
    - intros HB. rewrite (Hsq HB). apply sqrt_sqrt. exact Hpos.
    - rewrite <- (st_agree _ _ _ _ HG "s.grad_grad_B_inverse_scale_length" eq_refl).
      unfold_fix O calculate_grad_grad_B_tensor (st_fix _ _ _ _ HG) "s.grad_grad_B_inverse_scale_length". to_state HG. reflexivity.
  Qed.

  (* KNOWN DEFECT (documented, not repaired): the variant advertised as cylindrical returns the Frenet-frame array *)
  Theorem C10_cylindrical_is_frenet : cylindrical_is_frenet S VY.
  Proof.
    intros i a b c Ha Hb Hc. unfold ret, G.
    destruct a as [|[|[|a]]]; try lia; destruct b as [|[|[|b]]]; try lia; destruct c as [|[|[|c]]]; try lia; cbn [dg append];
      unfold_present grad_grad_B_tensor_cylindrical HY VY; to_state HY; reflexivity.
  Qed.

  Theorem C10_cartesian_is_rotation_of_that : cartesian_is_rotation_of_that S VC.
  Proof.
    intros i a b c Ha Hb Hc. unfold ret, rotated3, sum3, cyl_in, Qrot.
    destruct a as [|[|[|a]]]; try lia; destruct b as [|[|[|b]]]; try lia; destruct c as [|[|[|c]]]; try lia; cbn [dg append];
      unfold_present grad_grad_B_tensor_cartesian HC VC;
      to_state HC; ring.
  Qed.

  (* composition: fed with the array returned by the "cylindrical" variant, the Cartesian variant is the rotation about Z of the FRENET components *)
  Corollary C10_cartesian_rotates_frenet : fed_by VY VC ->
    forall i a b c, (a < 3)%nat -> (b < 3)%nat -> (c < 3)%nat -> ret VC a b c i = rotated3 S (G S) a b c i.
  Proof.
    intros Hfed i a b c Ha Hb Hc. rewrite (C10_cartesian_is_rotation_of_that i a b c Ha Hb Hc).
    unfold rotated3, sum3.
    rewrite !Hfed by lia. rewrite !C10_cylindrical_is_frenet by lia. reflexivity.
  Qed.
End Variants.

(* ---------- summary: the closed statements ---------- *)
Check C10_two_ways. Check C10_sym12. Check C10_divfree. Check C10_tangent_contraction.
Check C10_scale_length. Check C10_cylindrical_is_frenet. Check C10_cartesian_is_rotation_of_that. Check C10_cartesian_rotates_frenet.
Print Assumptions C10_two_ways.
Print Assumptions C10_sym12.
Print Assumptions C10_divfree.
Print Assumptions C10_tangent_contraction.
Print Assumptions C10_scale_length.
Print Assumptions C10_cylindrical_is_frenet.
Print Assumptions C10_cartesian_is_rotation_of_that.
Print Assumptions C10_cartesian_rotates_frenet.
Check C10_tangent_slice_curl. Check C10_vacuum_tangent_slice_symmetric.
Print Assumptions C10_tangent_slice_curl.
Print Assumptions C10_vacuum_tangent_slice_symmetric.
