(* C10: the grad grad B tensor, by certificates.
   S = object state (attribute values); VA, V1, V2, VG, VT, VY, VC, VR = models (Shallow.stage) of the programs regenerated from
   init_axis, r1_diagnostics (either helicity variant), calculate_r2 (either variant), calculate_grad_grad_B_tensor,
   calculate_grad_B_tensor, grad_grad_B_tensor_cylindrical, grad_grad_B_tensor_cartesian, _residual.  Continuum model: derivation O.
   Method: the definitions of the 54 entries are pulled from the regenerated program (unfold_fix); the first-order
   quantities are expressed through X1c and its derivatives using X1c*Y1s = sG*spsi, kappa*X1c = etabar (both
   differentiated with the Leibniz rule), Y2s/Y2c through the two algebraic O(r^2) relations (and their derivatives), and
   every identity is then closed by [field] modulo sG^2 = spsi^2 = 1 (shared lemmas: props/C10_common.v).
   PROVED HERE: (d) two_ways (27 entries), (a) sym12, (b) divfree, (e) tangent_contraction, (f) scale_length,
   (g) cylindrical_is_frenet / cartesian_is_rotation_of_that, and of (c) the tangent slice a = 2 for ANY current
   (tangent_slice_curl) with its vacuum corollary.  The rest of (c) is in props/C10_vacuum.v. *)
From Coq Require Import Reals String List Lra Lia QArith Qreals FunctionalExtensionality.
From QSC Require Import Expr Shallow.
From QSCGen Require Import G_init_axis G_r1_diagnostics G_calculate_r2 G_residual G_calculate_grad_grad_B_tensor
     G_calculate_grad_B_tensor G_grad_grad_B_tensor_cylindrical G_grad_grad_B_tensor_cartesian.
From QSCProps Require Import C10_spec C10_common.
Open Scope R_scope.
Open Scope string_scope.

Section Main.
  Context {I : Type} (O : ops I) (HD : derivation O) (S VA V1 V2 : string -> I -> R).
  Hypothesis Hadm : admissible S.
  Hypothesis HA : stage O init_axis S VA.
  Hypothesis H1 : stage O r1_diagnostics_h0 S V1 \/ stage O r1_diagnostics_hN S V1.
  Hypothesis H2 : stage O calculate_r2_h0 S V2 \/ stage O calculate_r2_hN S V2.
  Notation Dv := (Dv O S).
  Notation sG := (S "s.sG"). Notation spsi := (S "s.spsi"). Notation kap := (S "s.curvature").
  Notation etabar := (S "s.etabar"). Notation X1c := (S "s.X1c"). Notation Y1s := (S "s.Y1s"). Notation Y1c := (S "s.Y1c").
  Notation aGB := (S "s.abs_G0_over_B0"). Notation B0 := (S "s.B0").
  Local Notation F_X1c := (C10_common.F_X1c O HD S VA V1 V2 Hadm HA H1 H2).
  Local Notation F_G0 := (C10_common.F_G0 O HD S VA V1 V2 Hadm HA H1 H2).
  Local Notation F_dldvp := (C10_common.F_dldvp O HD S VA V1 V2 Hadm HA H1 H2).
  Local Notation F_absG0 := (C10_common.F_absG0 O HD S VA V1 V2 Hadm HA H1 H2).
  Local Notation X1c_nz := (C10_common.X1c_nz O HD S VA V1 V2 Hadm HA H1 H2).
  Local Notation F_Y1s := (C10_common.F_Y1s O HD S VA V1 V2 Hadm HA H1 H2).
  Local Notation F_Y1c := (C10_common.F_Y1c O HD S VA V1 V2 Hadm HA H1 H2).
  Local Notation F_dX1c := (C10_common.F_dX1c O HD S VA V1 V2 Hadm HA H1 H2).
  Local Notation F_dY1s := (C10_common.F_dY1s O HD S VA V1 V2 Hadm HA H1 H2).
  Local Notation F_dY1c := (C10_common.F_dY1c O HD S VA V1 V2 Hadm HA H1 H2).
  Local Notation F_dX20 := (C10_common.F_dX20 O HD S VA V1 V2 Hadm HA H1 H2).
  Local Notation F_dX2s := (C10_common.F_dX2s O HD S VA V1 V2 Hadm HA H1 H2).
  Local Notation F_dX2c := (C10_common.F_dX2c O HD S VA V1 V2 Hadm HA H1 H2).
  Local Notation F_dY20 := (C10_common.F_dY20 O HD S VA V1 V2 Hadm HA H1 H2).
  Local Notation F_dY2s := (C10_common.F_dY2s O HD S VA V1 V2 Hadm HA H1 H2).
  Local Notation F_dY2c := (C10_common.F_dY2c O HD S VA V1 V2 Hadm HA H1 H2).
  Local Notation F_dZ20 := (C10_common.F_dZ20 O HD S VA V1 V2 Hadm HA H1 H2).
  Local Notation F_dZ2s := (C10_common.F_dZ2s O HD S VA V1 V2 Hadm HA H1 H2).
  Local Notation F_dZ2c := (C10_common.F_dZ2c O HD S VA V1 V2 Hadm HA H1 H2).
  Local Notation F_dkap := (C10_common.F_dkap O HD S VA V1 V2 Hadm HA H1 H2).
  Local Notation F_dtau := (C10_common.F_dtau O HD S VA V1 V2 Hadm HA H1 H2).
  Local Notation F_d2X1c := (C10_common.F_d2X1c O HD S VA V1 V2 Hadm HA H1 H2).
  Local Notation F_d2Y1s := (C10_common.F_d2Y1s O HD S VA V1 V2 Hadm HA H1 H2).
  Local Notation F_d2Y1c := (C10_common.F_d2Y1c O HD S VA V1 V2 Hadm HA H1 H2).
  Local Notation F_Y2s := (C10_common.F_Y2s O HD S VA V1 V2 Hadm HA H1 H2).
  Local Notation F_Y2c := (C10_common.F_Y2c O HD S VA V1 V2 Hadm HA H1 H2).
  Local Notation sGspsi_const := (C10_common.sGspsi_const O HD S VA V1 V2 Hadm HA H1 H2).
  Local Notation R_XY := (C10_common.R_XY O HD S VA V1 V2 Hadm HA H1 H2).
  Local Notation R_dXY := (C10_common.R_dXY O HD S VA V1 V2 Hadm HA H1 H2).
  Local Notation R_d2XY := (C10_common.R_d2XY O HD S VA V1 V2 Hadm HA H1 H2).
  Local Notation R_kX := (C10_common.R_kX O HD S VA V1 V2 Hadm HA H1 H2).
  Local Notation R_dkX := (C10_common.R_dkX O HD S VA V1 V2 Hadm HA H1 H2).
  Local Notation S_Y1s := (C10_common.S_Y1s O HD S VA V1 V2 Hadm HA H1 H2).
  Local Notation S_dY1s := (C10_common.S_dY1s O HD S VA V1 V2 Hadm HA H1 H2).
  Local Notation S_d2Y1s := (C10_common.S_d2Y1s O HD S VA V1 V2 Hadm HA H1 H2).
  Local Notation S_kap := (C10_common.S_kap O HD S VA V1 V2 Hadm HA H1 H2).
  Local Notation S_dkap := (C10_common.S_dkap O HD S VA V1 V2 Hadm HA H1 H2).
  Local Notation R_Y2s := (C10_common.R_Y2s O HD S VA V1 V2 Hadm HA H1 H2).
  Local Notation R_Y2c := (C10_common.R_Y2c O HD S VA V1 V2 Hadm HA H1 H2).
  Local Notation R_dY2s := (C10_common.R_dY2s O HD S VA V1 V2 Hadm HA H1 H2).
  Local Notation R_dY2c := (C10_common.R_dY2c O HD S VA V1 V2 Hadm HA H1 H2).
  Local Notation sG_nz := (C10_common.sG_nz O HD S VA V1 V2 Hadm HA H1 H2).
  Local Notation spsi_nz := (C10_common.spsi_nz O HD S VA V1 V2 Hadm HA H1 H2).
  Ltac dv_push := dv_push_ O HD.
  Ltac both tac := destruct H2 as [H|H]; [tac calculate_r2_h0 H | tac calculate_r2_hN H].
  Ltac nz := repeat split; first [apply X1c_nz | apply sG_nz | apply spsi_nz | apply (adm_eta S Hadm) | apply (adm_kappa S Hadm)
                                 | apply Rgt_not_eq, (adm_B0 S Hadm) | apply Rgt_not_eq, (adm_lp S Hadm) | lra].
  Ltac fin := rewrite ?F_d2X1c, ?F_d2Y1s, ?F_d2Y1c, ?F_dX1c, ?F_dY1s, ?F_dY1c, ?F_dkap, ?F_dtau; unfold Rdiv; ring.
  (* ---- the tensor entries ---- *)
  Variable VG : string -> I -> R.
  Hypothesis HG : stage O calculate_grad_grad_B_tensor S VG.
  Ltac gg_locals := unfold_fixes O calculate_grad_grad_B_tensor (st_fix _ _ _ _ HG)
    ("X1c" :: "Y1s" :: "Y1c" :: "X20" :: "X2s" :: "X2c" :: "Y20" :: "Y2s" :: "Y2c" :: "Z20" :: "Z2s" :: "Z2c" :: "iota_N0" :: "iota" :: "lp" :: "curvature" :: "torsion" :: "sign_G" :: "sign_psi" :: "B0" :: "G0" :: "I2" :: "G2" :: "p2" :: "B20" :: "B2s" :: "B2c" :: "d_X1c_d_varphi" :: "d_Y1s_d_varphi" :: "d_Y1c_d_varphi" :: "d_X20_d_varphi" :: "d_X2s_d_varphi" :: "d_X2c_d_varphi" :: "d_Y20_d_varphi" :: "d_Y2s_d_varphi" :: "d_Y2c_d_varphi" :: "d_Z20_d_varphi" :: "d_Z2s_d_varphi" :: "d_Z2c_d_varphi" :: "d2_X1c_d_varphi2" :: "d2_Y1s_d_varphi2" :: "d2_Y1c_d_varphi2" :: "d_curvature_d_varphi" :: "d_torsion_d_varphi" :: nil)%list.
  (* S "s.grad_grad_B.." i  -->  its formula over the object state *)
  Ltac gg_entry a l :=
    rewrite <- (st_agree _ _ _ _ HG a eq_refl);
    unfold_fixes O calculate_grad_grad_B_tensor (st_fix _ _ _ _ HG) (a :: l :: nil)%list.
  Ltac close i :=
    rewrite ?R_dY2s, ?R_dY2c, ?R_Y2s, ?R_Y2c, ?S_d2Y1s, ?S_dY1s, ?S_Y1s, ?S_dkap, ?S_kap, ?F_absG0, ?F_G0;
    pose proof (adm_sG S Hadm i) as Es; pose proof (adm_spsi S Hadm i) as Ep;
    qsimp; field [Es Ep]; nz.
  Ltac two a b c d :=
    intros i; gg_entry a b; gg_entry c d; gg_locals; to_state HG; close i.
  (* ---- (d) the two derivations agree ---- *)
  Lemma two_000 : forall i, S "s.grad_grad_B_0_0_0" i = S "s.grad_grad_B_alt_0_0_0" i.
  Proof. two "s.grad_grad_B_0_0_0" "grad_grad_B_0_0_0#2" "s.grad_grad_B_alt_0_0_0" "grad_grad_B_alt_0_0_0#2". Qed.
  Lemma two_001 : forall i, S "s.grad_grad_B_0_0_1" i = S "s.grad_grad_B_alt_0_0_1" i.
  Proof. two "s.grad_grad_B_0_0_1" "grad_grad_B_0_0_1#2" "s.grad_grad_B_alt_0_0_1" "grad_grad_B_alt_0_0_1#2". Qed.
  Lemma two_002 : forall i, S "s.grad_grad_B_0_0_2" i = S "s.grad_grad_B_alt_0_0_2" i.
  Proof. two "s.grad_grad_B_0_0_2" "grad_grad_B_0_0_2#2" "s.grad_grad_B_alt_0_0_2" "grad_grad_B_alt_0_0_2#2". Qed.
  Lemma two_010 : forall i, S "s.grad_grad_B_0_1_0" i = S "s.grad_grad_B_alt_0_1_0" i.
  Proof. two "s.grad_grad_B_0_1_0" "grad_grad_B_0_1_0#2" "s.grad_grad_B_alt_0_1_0" "grad_grad_B_alt_0_1_0#2". Qed.
  Lemma two_011 : forall i, S "s.grad_grad_B_0_1_1" i = S "s.grad_grad_B_alt_0_1_1" i.
  Proof. two "s.grad_grad_B_0_1_1" "grad_grad_B_0_1_1#2" "s.grad_grad_B_alt_0_1_1" "grad_grad_B_alt_0_1_1#2". Qed.
  Lemma two_012 : forall i, S "s.grad_grad_B_0_1_2" i = S "s.grad_grad_B_alt_0_1_2" i.
  Proof. two "s.grad_grad_B_0_1_2" "grad_grad_B_0_1_2#2" "s.grad_grad_B_alt_0_1_2" "grad_grad_B_alt_0_1_2#2". Qed.
  Lemma two_020 : forall i, S "s.grad_grad_B_0_2_0" i = S "s.grad_grad_B_alt_0_2_0" i.
  Proof. two "s.grad_grad_B_0_2_0" "grad_grad_B_0_2_0#2" "s.grad_grad_B_alt_0_2_0" "grad_grad_B_alt_0_2_0#2". Qed.
  Lemma two_021 : forall i, S "s.grad_grad_B_0_2_1" i = S "s.grad_grad_B_alt_0_2_1" i.
  Proof. two "s.grad_grad_B_0_2_1" "grad_grad_B_0_2_1#2" "s.grad_grad_B_alt_0_2_1" "grad_grad_B_alt_0_2_1#2". Qed.
  Lemma two_022 : forall i, S "s.grad_grad_B_0_2_2" i = S "s.grad_grad_B_alt_0_2_2" i.
  Proof. two "s.grad_grad_B_0_2_2" "grad_grad_B_0_2_2#2" "s.grad_grad_B_alt_0_2_2" "grad_grad_B_alt_0_2_2#2". Qed.
  Lemma two_100 : forall i, S "s.grad_grad_B_1_0_0" i = S "s.grad_grad_B_alt_1_0_0" i.
  Proof. two "s.grad_grad_B_1_0_0" "grad_grad_B_1_0_0#2" "s.grad_grad_B_alt_1_0_0" "grad_grad_B_alt_1_0_0#2". Qed.
  Lemma two_101 : forall i, S "s.grad_grad_B_1_0_1" i = S "s.grad_grad_B_alt_1_0_1" i.
  Proof. two "s.grad_grad_B_1_0_1" "grad_grad_B_1_0_1#2" "s.grad_grad_B_alt_1_0_1" "grad_grad_B_alt_1_0_1#2". Qed.
  Lemma two_102 : forall i, S "s.grad_grad_B_1_0_2" i = S "s.grad_grad_B_alt_1_0_2" i.
  Proof. two "s.grad_grad_B_1_0_2" "grad_grad_B_1_0_2#2" "s.grad_grad_B_alt_1_0_2" "grad_grad_B_alt_1_0_2#2". Qed.
  Lemma two_110 : forall i, S "s.grad_grad_B_1_1_0" i = S "s.grad_grad_B_alt_1_1_0" i.
  Proof. two "s.grad_grad_B_1_1_0" "grad_grad_B_1_1_0#2" "s.grad_grad_B_alt_1_1_0" "grad_grad_B_alt_1_1_0#2". Qed.
  Lemma two_111 : forall i, S "s.grad_grad_B_1_1_1" i = S "s.grad_grad_B_alt_1_1_1" i.
  Proof. two "s.grad_grad_B_1_1_1" "grad_grad_B_1_1_1#2" "s.grad_grad_B_alt_1_1_1" "grad_grad_B_alt_1_1_1#2". Qed.
  Lemma two_112 : forall i, S "s.grad_grad_B_1_1_2" i = S "s.grad_grad_B_alt_1_1_2" i.
  Proof. two "s.grad_grad_B_1_1_2" "grad_grad_B_1_1_2#2" "s.grad_grad_B_alt_1_1_2" "grad_grad_B_alt_1_1_2#2". Qed.
  Lemma two_120 : forall i, S "s.grad_grad_B_1_2_0" i = S "s.grad_grad_B_alt_1_2_0" i.
  Proof. two "s.grad_grad_B_1_2_0" "grad_grad_B_1_2_0#2" "s.grad_grad_B_alt_1_2_0" "grad_grad_B_alt_1_2_0#2". Qed.
  Lemma two_121 : forall i, S "s.grad_grad_B_1_2_1" i = S "s.grad_grad_B_alt_1_2_1" i.
  Proof. two "s.grad_grad_B_1_2_1" "grad_grad_B_1_2_1#2" "s.grad_grad_B_alt_1_2_1" "grad_grad_B_alt_1_2_1#2". Qed.
  Lemma two_122 : forall i, S "s.grad_grad_B_1_2_2" i = S "s.grad_grad_B_alt_1_2_2" i.
  Proof. two "s.grad_grad_B_1_2_2" "grad_grad_B_1_2_2#2" "s.grad_grad_B_alt_1_2_2" "grad_grad_B_alt_1_2_2#2". Qed.
  Lemma two_200 : forall i, S "s.grad_grad_B_2_0_0" i = S "s.grad_grad_B_alt_2_0_0" i.
  Proof. two "s.grad_grad_B_2_0_0" "grad_grad_B_2_0_0#2" "s.grad_grad_B_alt_2_0_0" "grad_grad_B_alt_2_0_0#2". Qed.
  Lemma two_201 : forall i, S "s.grad_grad_B_2_0_1" i = S "s.grad_grad_B_alt_2_0_1" i.
  Proof. two "s.grad_grad_B_2_0_1" "grad_grad_B_2_0_1#2" "s.grad_grad_B_alt_2_0_1" "grad_grad_B_alt_2_0_1#2". Qed.
  Lemma two_202 : forall i, S "s.grad_grad_B_2_0_2" i = S "s.grad_grad_B_alt_2_0_2" i.
  Proof. two "s.grad_grad_B_2_0_2" "grad_grad_B_2_0_2#2" "s.grad_grad_B_alt_2_0_2" "grad_grad_B_alt_2_0_2#2". Qed.
  Lemma two_210 : forall i, S "s.grad_grad_B_2_1_0" i = S "s.grad_grad_B_alt_2_1_0" i.
  Proof. two "s.grad_grad_B_2_1_0" "grad_grad_B_2_1_0#2" "s.grad_grad_B_alt_2_1_0" "grad_grad_B_alt_2_1_0#2". Qed.
  Lemma two_211 : forall i, S "s.grad_grad_B_2_1_1" i = S "s.grad_grad_B_alt_2_1_1" i.
  Proof. two "s.grad_grad_B_2_1_1" "grad_grad_B_2_1_1#2" "s.grad_grad_B_alt_2_1_1" "grad_grad_B_alt_2_1_1#2". Qed.
  Lemma two_212 : forall i, S "s.grad_grad_B_2_1_2" i = S "s.grad_grad_B_alt_2_1_2" i.
  Proof. two "s.grad_grad_B_2_1_2" "grad_grad_B_2_1_2#2" "s.grad_grad_B_alt_2_1_2" "grad_grad_B_alt_2_1_2#2". Qed.
  Lemma two_220 : forall i, S "s.grad_grad_B_2_2_0" i = S "s.grad_grad_B_alt_2_2_0" i.
  Proof. two "s.grad_grad_B_2_2_0" "grad_grad_B_2_2_0#2" "s.grad_grad_B_alt_2_2_0" "grad_grad_B_alt_2_2_0#2". Qed.
  Lemma two_221 : forall i, S "s.grad_grad_B_2_2_1" i = S "s.grad_grad_B_alt_2_2_1" i.
  Proof. two "s.grad_grad_B_2_2_1" "grad_grad_B_2_2_1#2" "s.grad_grad_B_alt_2_2_1" "grad_grad_B_alt_2_2_1#2". Qed.
  Lemma two_222 : forall i, S "s.grad_grad_B_2_2_2" i = S "s.grad_grad_B_alt_2_2_2" i.
  Proof. two "s.grad_grad_B_2_2_2" "grad_grad_B_2_2_2#2" "s.grad_grad_B_alt_2_2_2" "grad_grad_B_alt_2_2_2#2". Qed.
  Theorem C10_two_ways : two_ways S.
  Proof.
    intros i a b c Ha Hb Hc. unfold G, Galt.
    destruct a as [|[|[|a]]]; try lia; destruct b as [|[|[|b]]]; try lia; destruct c as [|[|[|c]]]; try lia;
      first [apply two_000|apply two_001|apply two_002|apply two_010|apply two_011|apply two_012|apply two_020|apply two_021|apply two_022|apply two_100|apply two_101|apply two_102|apply two_110|apply two_111|apply two_112|apply two_120|apply two_121|apply two_122|apply two_200|apply two_201|apply two_202|apply two_210|apply two_211|apply two_212|apply two_220|apply two_221|apply two_222].
  Qed.
  (* ---- (a) symmetry in the derivative indices ---- *)
  Lemma sym_010 : forall i, S "s.grad_grad_B_0_1_0" i = S "s.grad_grad_B_1_0_0" i.
  Proof. two "s.grad_grad_B_0_1_0" "grad_grad_B_0_1_0#2" "s.grad_grad_B_1_0_0" "grad_grad_B_1_0_0#2". Qed.
  Lemma sym_011 : forall i, S "s.grad_grad_B_0_1_1" i = S "s.grad_grad_B_1_0_1" i.
  Proof. two "s.grad_grad_B_0_1_1" "grad_grad_B_0_1_1#2" "s.grad_grad_B_1_0_1" "grad_grad_B_1_0_1#2". Qed.
  Lemma sym_012 : forall i, S "s.grad_grad_B_0_1_2" i = S "s.grad_grad_B_1_0_2" i.
  Proof. two "s.grad_grad_B_0_1_2" "grad_grad_B_0_1_2#2" "s.grad_grad_B_1_0_2" "grad_grad_B_1_0_2#2". Qed.
  Lemma sym_020 : forall i, S "s.grad_grad_B_0_2_0" i = S "s.grad_grad_B_2_0_0" i.
  Proof. two "s.grad_grad_B_0_2_0" "grad_grad_B_0_2_0#2" "s.grad_grad_B_2_0_0" "grad_grad_B_2_0_0#2". Qed.
  Lemma sym_021 : forall i, S "s.grad_grad_B_0_2_1" i = S "s.grad_grad_B_2_0_1" i.
  Proof. two "s.grad_grad_B_0_2_1" "grad_grad_B_0_2_1#2" "s.grad_grad_B_2_0_1" "grad_grad_B_2_0_1#2". Qed.
  Lemma sym_022 : forall i, S "s.grad_grad_B_0_2_2" i = S "s.grad_grad_B_2_0_2" i.
  Proof. two "s.grad_grad_B_0_2_2" "grad_grad_B_0_2_2#2" "s.grad_grad_B_2_0_2" "grad_grad_B_2_0_2#2". Qed.
  Lemma sym_120 : forall i, S "s.grad_grad_B_1_2_0" i = S "s.grad_grad_B_2_1_0" i.
  Proof. two "s.grad_grad_B_1_2_0" "grad_grad_B_1_2_0#2" "s.grad_grad_B_2_1_0" "grad_grad_B_2_1_0#2". Qed.
  Lemma sym_121 : forall i, S "s.grad_grad_B_1_2_1" i = S "s.grad_grad_B_2_1_1" i.
  Proof. two "s.grad_grad_B_1_2_1" "grad_grad_B_1_2_1#2" "s.grad_grad_B_2_1_1" "grad_grad_B_2_1_1#2". Qed.
  Lemma sym_122 : forall i, S "s.grad_grad_B_1_2_2" i = S "s.grad_grad_B_2_1_2" i.
  Proof. two "s.grad_grad_B_1_2_2" "grad_grad_B_1_2_2#2" "s.grad_grad_B_2_1_2" "grad_grad_B_2_1_2#2". Qed.
  Theorem C10_sym12 : sym12 S.
  Proof.
    intros i a b c Ha Hb Hc. unfold G.
    destruct a as [|[|[|a]]]; try lia; destruct b as [|[|[|b]]]; try lia; destruct c as [|[|[|c]]]; try lia;
      first [reflexivity|apply sym_010|apply sym_011|apply sym_012|apply sym_020|apply sym_021|apply sym_022|apply sym_120|apply sym_121|apply sym_122|symmetry; apply sym_010|symmetry; apply sym_011|symmetry; apply sym_012|symmetry; apply sym_020|symmetry; apply sym_021|symmetry; apply sym_022|symmetry; apply sym_120|symmetry; apply sym_121|symmetry; apply sym_122].
  Qed.
  (* ---- (b) gradient of div B ---- *)
  Ltac three a b c d e f :=
    intros i; gg_entry a b; gg_entry c d; gg_entry e f; gg_locals; to_state HG; close i.
  Lemma div_0 : forall i, S "s.grad_grad_B_0_0_0" i + S "s.grad_grad_B_0_1_1" i + S "s.grad_grad_B_0_2_2" i = 0.
  Proof. three "s.grad_grad_B_0_0_0" "grad_grad_B_0_0_0#2" "s.grad_grad_B_0_1_1" "grad_grad_B_0_1_1#2" "s.grad_grad_B_0_2_2" "grad_grad_B_0_2_2#2". Qed.
  Lemma div_1 : forall i, S "s.grad_grad_B_1_0_0" i + S "s.grad_grad_B_1_1_1" i + S "s.grad_grad_B_1_2_2" i = 0.
  Proof. three "s.grad_grad_B_1_0_0" "grad_grad_B_1_0_0#2" "s.grad_grad_B_1_1_1" "grad_grad_B_1_1_1#2" "s.grad_grad_B_1_2_2" "grad_grad_B_1_2_2#2". Qed.
  Lemma div_2 : forall i, S "s.grad_grad_B_2_0_0" i + S "s.grad_grad_B_2_1_1" i + S "s.grad_grad_B_2_2_2" i = 0.
  Proof. three "s.grad_grad_B_2_0_0" "grad_grad_B_2_0_0#2" "s.grad_grad_B_2_1_1" "grad_grad_B_2_1_1#2" "s.grad_grad_B_2_2_2" "grad_grad_B_2_2_2#2". Qed.
  Theorem C10_divfree : divfree S.
  Proof.
    intros i a Ha. unfold G.
    destruct a as [|[|[|a]]]; try lia; first [apply div_0|apply div_1|apply div_2].
  Qed.

  (* ---- (e) tangent contraction ---- *)
  Variable VT : string -> I -> R.
  Hypothesis HT : stage O calculate_grad_B_tensor S VT.
  Hypothesis Hcst : constants S.
  Notation fct := (fun i => spsi i * B0 i / S "s.d_l_d_varphi" i).
  Ltac T_fun nm :=
    unfold_fixes O calculate_grad_B_tensor (st_fix _ _ _ _ HT) (nm :: "tensor.tn" :: "factor" :: nil)%list; to_state HT.
  Ltac consts i :=
    let c1 := fresh "c" in let c2 := fresh "c" in let c3 := fresh "c" in let c4 := fresh "c" in let c5 := fresh "c" in
    let E1 := fresh "E" in let E2 := fresh "E" in let E3 := fresh "E" in let E4 := fresh "E" in let E5 := fresh "E" in
    destruct (adm_sG_const S Hadm) as [c1 E1]; destruct (adm_spsi_const S Hadm) as [c2 E2];
    destruct (cst_B0 S Hcst) as [c3 E3]; destruct (cst_iotaN S Hcst) as [c4 E4];
    let E6 := fresh "E" in destruct (cst_lp S Hcst) as [c5 E6];
    assert (E5 : S "s.d_l_d_varphi" = fun _ => c5) by
      (apply functional_extensionality; intros k; rewrite F_dldvp, E6; reflexivity);
    rewrite ?E1, ?E2, ?E3, ?E4, ?E5; cbv beta.
  Lemma D_T_tn i : Dv (VT "tensor.tn") i = sG i * B0 i * S "s.d_curvature_d_varphi" i.
  Proof. T_fun "tensor.tn". consts i. dv_push. fin. Qed.
  Lemma D_T_nt i : Dv (VT "tensor.nt") i = sG i * B0 i * S "s.d_curvature_d_varphi" i.
  Proof. T_fun "tensor.nt". consts i. dv_push. fin. Qed.
  Lemma D_T_nn i : Dv (VT "tensor.nn") i = fct i * (S "s.d2_X1c_d_varphi2" i * Y1s i + S "s.d_X1c_d_varphi" i * S "s.d_Y1s_d_varphi" i
       + S "s.iotaN" i * (S "s.d_X1c_d_varphi" i * Y1c i + X1c i * S "s.d_Y1c_d_varphi" i)).
  Proof. T_fun "tensor.nn". consts i. dv_push. fin. Qed.
  Lemma D_T_bb i : Dv (VT "tensor.bb") i = fct i * (S "s.d_X1c_d_varphi" i * S "s.d_Y1s_d_varphi" i + X1c i * S "s.d2_Y1s_d_varphi2" i
       - S "s.iotaN" i * (S "s.d_X1c_d_varphi" i * Y1c i + X1c i * S "s.d_Y1c_d_varphi" i)).
  Proof. T_fun "tensor.bb". consts i. dv_push. fin. Qed.
  Lemma D_T_bn i : Dv (VT "tensor.bn") i = fct i * (- sG i * spsi i * S "s.d_l_d_varphi" i * S "s.d_torsion_d_varphi" i
       - S "s.iotaN" i * (2 * X1c i * S "s.d_X1c_d_varphi" i)).
  Proof. T_fun "tensor.bn". consts i. dv_push. fin. Qed.
  Lemma D_T_nb i : Dv (VT "tensor.nb") i = fct i * (S "s.d2_Y1c_d_varphi2" i * Y1s i - S "s.d2_Y1s_d_varphi2" i * Y1c i
       + sG i * spsi i * S "s.d_l_d_varphi" i * S "s.d_torsion_d_varphi" i
       + S "s.iotaN" i * (2 * Y1s i * S "s.d_Y1s_d_varphi" i + 2 * Y1c i * S "s.d_Y1c_d_varphi" i)).
  Proof. T_fun "tensor.nb". consts i. dv_push. fin. Qed.
  (* pointwise values of the grad B tensor *)
  Ltac T_vals := unfold_fixes O calculate_grad_B_tensor (st_fix _ _ _ _ HT)
     ("tensor.nn" :: "tensor.nb" :: "tensor.nt" :: "tensor.bn" :: "tensor.bb" :: "tensor.tn" :: "factor" :: nil)%list; to_state HT.
  Ltac tang a l :=
    intros i; gg_entry a l; gg_locals; to_state HG;
    cbv beta iota delta [dTdl ddl T W];
    rewrite ?D_T_nn, ?D_T_nb, ?D_T_nt, ?D_T_bn, ?D_T_bb, ?D_T_tn, ?(Dv_cst O HD S); T_vals; rewrite ?F_dldvp; close i.
  Lemma tan_00 : forall i, S "s.grad_grad_B_2_0_0" i = dTdl O S VT 0 0 i.
  Proof. tang "s.grad_grad_B_2_0_0" "grad_grad_B_2_0_0#2". Qed.
  Lemma tan_01 : forall i, S "s.grad_grad_B_2_0_1" i = dTdl O S VT 0 1 i.
  Proof. tang "s.grad_grad_B_2_0_1" "grad_grad_B_2_0_1#2". Qed.
  Lemma tan_02 : forall i, S "s.grad_grad_B_2_0_2" i = dTdl O S VT 0 2 i.
  Proof. tang "s.grad_grad_B_2_0_2" "grad_grad_B_2_0_2#2". Qed.
  Lemma tan_10 : forall i, S "s.grad_grad_B_2_1_0" i = dTdl O S VT 1 0 i.
  Proof. tang "s.grad_grad_B_2_1_0" "grad_grad_B_2_1_0#2". Qed.
  Lemma tan_11 : forall i, S "s.grad_grad_B_2_1_1" i = dTdl O S VT 1 1 i.
  Proof. tang "s.grad_grad_B_2_1_1" "grad_grad_B_2_1_1#2". Qed.
  Lemma tan_12 : forall i, S "s.grad_grad_B_2_1_2" i = dTdl O S VT 1 2 i.
  Proof. tang "s.grad_grad_B_2_1_2" "grad_grad_B_2_1_2#2". Qed.
  Lemma tan_20 : forall i, S "s.grad_grad_B_2_2_0" i = dTdl O S VT 2 0 i.
  Proof. tang "s.grad_grad_B_2_2_0" "grad_grad_B_2_2_0#2". Qed.
  Lemma tan_21 : forall i, S "s.grad_grad_B_2_2_1" i = dTdl O S VT 2 1 i.
  Proof. tang "s.grad_grad_B_2_2_1" "grad_grad_B_2_2_1#2". Qed.
  Lemma tan_22 : forall i, S "s.grad_grad_B_2_2_2" i = dTdl O S VT 2 2 i.
  Proof. tang "s.grad_grad_B_2_2_2" "grad_grad_B_2_2_2#2". Qed.
  Theorem C10_tangent_contraction : tangent_contraction O S VT.
  Proof.
    intros i a b Ha Hb. unfold G.
    destruct a as [|[|[|a]]]; try lia; destruct b as [|[|[|b]]]; try lia;
      first [apply tan_00|apply tan_01|apply tan_02|apply tan_10|apply tan_11|apply tan_12|apply tan_20|apply tan_21|apply tan_22].
  Qed.
  (* ---- (c), tangent slice only: the sigma equation and its derivative ---- *)
  Variable VR : string -> I -> R.
  Hypothesis HR : stage O residual S VR.
  Hypothesis Hsig : sigma_solved O S VR.
  Local Notation F_ebc := (C10_common.F_ebc O HD S VA V1 V2 Hadm HA H1 H2 Hcst VR HR Hsig).
  Local Notation S_sigma := (C10_common.S_sigma O HD S VA V1 V2 Hadm HA H1 H2 Hcst VR HR Hsig).
  Local Notation R_sig := (C10_common.R_sig O HD S VA V1 V2 Hadm HA H1 H2 Hcst VR HR Hsig).
  Local Notation R_sig2 := (C10_common.R_sig2 O HD S VA V1 V2 Hadm HA H1 H2 Hcst VR HR Hsig).
  Local Notation S_dY1c := (C10_common.S_dY1c O HD S VA V1 V2 Hadm HA H1 H2 Hcst VR HR Hsig).
  Local Notation S_d2Y1c := (C10_common.S_d2Y1c O HD S VA V1 V2 Hadm HA H1 H2 Hcst VR HR Hsig).
  Local Notation sigE := (C10_common.sigE S).
  Local Notation sigE2 := (C10_common.sigE2 S).
  Ltac close2 i := rewrite ?S_d2Y1c, ?S_dY1c; close i.
  Lemma sl_201 : forall i, S "s.grad_grad_B_2_0_1" i = S "s.grad_grad_B_2_1_0" i.
  Proof. intros i; gg_entry "s.grad_grad_B_2_0_1" "grad_grad_B_2_0_1#2"; gg_entry "s.grad_grad_B_2_1_0" "grad_grad_B_2_1_0#2"; gg_locals; to_state HG; close2 i. Qed.
  Lemma sl_202 : forall i, S "s.grad_grad_B_2_0_2" i = S "s.grad_grad_B_2_2_0" i.
  Proof. intros i; gg_entry "s.grad_grad_B_2_0_2" "grad_grad_B_2_0_2#2"; gg_entry "s.grad_grad_B_2_2_0" "grad_grad_B_2_2_0#2"; gg_locals; to_state HG; close2 i. Qed.
  Lemma sl_212 : forall i, S "s.grad_grad_B_2_1_2" i - S "s.grad_grad_B_2_2_1" i = 2 * sG i * spsi i * S "s.I2" i * kap i.
  Proof. intros i; gg_entry "s.grad_grad_B_2_1_2" "grad_grad_B_2_1_2#2"; gg_entry "s.grad_grad_B_2_2_1" "grad_grad_B_2_2_1#2"; gg_locals; to_state HG; close2 i. Qed.
  Theorem C10_tangent_slice_curl : tangent_slice_curl S.
  Proof. intros i. unfold G. split; [apply sl_201|split; [apply sl_202|apply sl_212]]. Qed.
  Theorem C10_vacuum_tangent_slice_symmetric : vacuum_tangent_slice_symmetric S.
  Proof.
    intros HI i b c Hb Hc. destruct (C10_tangent_slice_curl i) as (E1 & E2 & E3). rewrite HI in E3.
    destruct b as [|[|[|b]]]; try lia; destruct c as [|[|[|c]]]; try lia; first [reflexivity|assumption|symmetry; assumption|lra].
  Qed.
End Main.

(* ---------- (f) scale length and (g) the API variants: any operators ---------- *)
Section Variants.
  Context {I : Type} (O : ops I) (S VG VY VC : string -> I -> R).
  Hypothesis HG : stage O calculate_grad_grad_B_tensor S VG.
  Hypothesis HY : stage O grad_grad_B_tensor_cylindrical S VY.
  Hypothesis HC : stage O grad_grad_B_tensor_cartesian S VC.

  (* unfold only the bound names that occur in the goal *)
  Ltac unfold_present P H V :=
    repeat match goal with
           | |- context [V (String ?a ?b)] =>
               let x := constr:(String a b) in
               let d := eval vm_compute in (defn P x) in
               lazymatch d with Some _ => progress (unfold_fix O P (st_fix _ _ _ _ H) x) end
           end.
  Ltac from_state H l :=
    lazymatch l with
    | nil => idtac
    | cons ?x ?l' => rewrite <- (st_agree _ _ _ _ H x eq_refl); from_state H l'
    end.

  Theorem C10_scale_length : scale_length O S.
  Proof.
    intros i.
    assert (Hns : VG "norm_squared" i = frob3 S i).
    { unfold frob3, G. cbn [dg append].
      from_state HG ("s.grad_grad_B_0_0_0" :: "s.grad_grad_B_0_0_1" :: "s.grad_grad_B_0_0_2" :: "s.grad_grad_B_0_1_0" :: "s.grad_grad_B_0_1_1" :: "s.grad_grad_B_0_1_2" :: "s.grad_grad_B_0_2_0" :: "s.grad_grad_B_0_2_1" :: "s.grad_grad_B_0_2_2" :: "s.grad_grad_B_1_0_0" :: "s.grad_grad_B_1_0_1" :: "s.grad_grad_B_1_0_2" :: "s.grad_grad_B_1_1_0" :: "s.grad_grad_B_1_1_1" :: "s.grad_grad_B_1_1_2" :: "s.grad_grad_B_1_2_0" :: "s.grad_grad_B_1_2_1" :: "s.grad_grad_B_1_2_2" :: "s.grad_grad_B_2_0_0" :: "s.grad_grad_B_2_0_1" :: "s.grad_grad_B_2_0_2" :: "s.grad_grad_B_2_1_0" :: "s.grad_grad_B_2_1_1" :: "s.grad_grad_B_2_1_2" :: "s.grad_grad_B_2_2_0" :: "s.grad_grad_B_2_2_1" :: "s.grad_grad_B_2_2_2" :: nil)%list.
      unfold_fixes O calculate_grad_grad_B_tensor (st_fix _ _ _ _ HG) ("norm_squared" :: "squared_0_0_0" :: "squared_0_0_1" :: "squared_0_0_2" :: "squared_0_1_0" :: "squared_0_1_1" :: "squared_0_1_2" :: "squared_0_2_0" :: "squared_0_2_1" :: "squared_0_2_2" :: "squared_1_0_0" :: "squared_1_0_1" :: "squared_1_0_2" :: "squared_1_1_0" :: "squared_1_1_1" :: "squared_1_1_2" :: "squared_1_2_0" :: "squared_1_2_1" :: "squared_1_2_2" :: "squared_2_0_0" :: "squared_2_0_1" :: "squared_2_0_2" :: "squared_2_1_0" :: "squared_2_1_1" :: "squared_2_1_2" :: "squared_2_2_0" :: "squared_2_2_1" :: "squared_2_2_2" :: "s.grad_grad_B_0_0_0" :: "s.grad_grad_B_0_0_1" :: "s.grad_grad_B_0_0_2" :: "s.grad_grad_B_0_1_0" :: "s.grad_grad_B_0_1_1" :: "s.grad_grad_B_0_1_2" :: "s.grad_grad_B_0_2_0" :: "s.grad_grad_B_0_2_1" :: "s.grad_grad_B_0_2_2" :: "s.grad_grad_B_1_0_0" :: "s.grad_grad_B_1_0_1" :: "s.grad_grad_B_1_0_2" :: "s.grad_grad_B_1_1_0" :: "s.grad_grad_B_1_1_1" :: "s.grad_grad_B_1_1_2" :: "s.grad_grad_B_1_2_0" :: "s.grad_grad_B_1_2_1" :: "s.grad_grad_B_1_2_2" :: "s.grad_grad_B_2_0_0" :: "s.grad_grad_B_2_0_1" :: "s.grad_grad_B_2_0_2" :: "s.grad_grad_B_2_1_0" :: "s.grad_grad_B_2_1_1" :: "s.grad_grad_B_2_1_2" :: "s.grad_grad_B_2_2_0" :: "s.grad_grad_B_2_2_1" :: "s.grad_grad_B_2_2_2" :: nil)%list.
      reflexivity. }
    assert (Hpos : 0 <= frob3 S i).
    { unfold frob3.
      repeat (apply Rplus_le_le_0_compat; [|apply Rle_0_sqr]). apply Rle_0_sqr. }
    assert (Hinv : S "s.grad_grad_B_inverse_scale_length_vs_varphi" i = sqrt (sqrt (frob3 S i) / (4 * S "s.B0" i))).
    { rewrite <- Hns. rewrite <- (st_agree _ _ _ _ HG "s.grad_grad_B_inverse_scale_length_vs_varphi" eq_refl).
      unfold_fixes O calculate_grad_grad_B_tensor (st_fix _ _ _ _ HG) ("s.grad_grad_B_inverse_scale_length_vs_varphi" :: "B0" :: nil)%list.
      to_state HG. qsimp. reflexivity. }
    assert (Hsq : 0 < S "s.B0" i -> S "s.grad_grad_B_inverse_scale_length_vs_varphi" i * S "s.grad_grad_B_inverse_scale_length_vs_varphi" i * (4 * S "s.B0" i) = sqrt (frob3 S i)).
    { intros HB. rewrite Hinv. rewrite sqrt_sqrt.
      - field. lra.
      - unfold Rdiv. apply Rmult_le_pos; [apply sqrt_pos|]. apply Rlt_le, Rinv_0_lt_compat. lra. }
    split; [|split; [|split]].
    - intros Hnz. rewrite <- (st_agree _ _ _ _ HG "s.L_grad_grad_B" eq_refl).
      unfold_fix O calculate_grad_grad_B_tensor (st_fix _ _ _ _ HG) "s.L_grad_grad_B". to_state HG. qsimp. field. exact Hnz.
    - exact Hsq.
    - intros HB. rewrite (Hsq HB). apply sqrt_sqrt. exact Hpos.
    - rewrite <- (st_agree _ _ _ _ HG "s.grad_grad_B_inverse_scale_length" eq_refl).
      unfold_fix O calculate_grad_grad_B_tensor (st_fix _ _ _ _ HG) "s.grad_grad_B_inverse_scale_length". to_state HG. reflexivity.
  Qed.

  (* KNOWN DEFECT (documented, not repaired): the variant advertised as cylindrical returns the Frenet-frame array *)
  Theorem C10_cylindrical_is_frenet : cylindrical_is_frenet S VY.
  Proof.
    intros i a b c Ha Hb Hc. unfold ret, G.
    destruct a as [|[|[|a]]]; try lia; destruct b as [|[|[|b]]]; try lia; destruct c as [|[|[|c]]]; try lia; cbn [dg append];
      unfold_present grad_grad_B_tensor_cylindrical HY VY; to_state HY; reflexivity.
  Qed.

  Theorem C10_cartesian_is_rotation_of_that : cartesian_is_rotation_of_that S VC.
  Proof.
    intros i a b c Ha Hb Hc. unfold ret, rotated3, sum3, cyl_in, Qrot.
    destruct a as [|[|[|a]]]; try lia; destruct b as [|[|[|b]]]; try lia; destruct c as [|[|[|c]]]; try lia; cbn [dg append];
      unfold_present grad_grad_B_tensor_cartesian HC VC;
      to_state HC; ring.
  Qed.

  (* composition: fed with the array returned by the "cylindrical" variant, the Cartesian variant is the rotation about Z of the FRENET components *)
  Corollary C10_cartesian_rotates_frenet : fed_by VY VC ->
    forall i a b c, (a < 3)%nat -> (b < 3)%nat -> (c < 3)%nat -> ret VC a b c i = rotated3 S (G S) a b c i.
  Proof.
    intros Hfed i a b c Ha Hb Hc. rewrite (C10_cartesian_is_rotation_of_that i a b c Ha Hb Hc).
    unfold rotated3, sum3.
    rewrite !Hfed by lia. rewrite !C10_cylindrical_is_frenet by lia. reflexivity.
  Qed.
End Variants.

(* ---------- summary: the closed statements ---------- *)
Check C10_two_ways. Check C10_sym12. Check C10_divfree. Check C10_tangent_contraction.
Check C10_scale_length. Check C10_cylindrical_is_frenet. Check C10_cartesian_is_rotation_of_that. Check C10_cartesian_rotates_frenet.
Check C10_tangent_slice_curl. Check C10_vacuum_tangent_slice_symmetric.
Print Assumptions C10_two_ways.
Print Assumptions C10_sym12.
Print Assumptions C10_divfree.
Print Assumptions C10_tangent_contraction.
Print Assumptions C10_scale_length.
Print Assumptions C10_cylindrical_is_frenet.
Print Assumptions C10_cartesian_is_rotation_of_that.
Print Assumptions C10_cartesian_rotates_frenet.
Print Assumptions C10_tangent_slice_curl.
Print Assumptions C10_vacuum_tangent_slice_symmetric.
