(* C10: the grad grad B tensor, by certificates -- the closed theorems.
   S = object state (attribute values); VA, V1, V2, VG, VT, VY, VC, VR = models (Shallow.stage) of the programs regenerated from
   init_axis, r1_diagnostics (either helicity variant), calculate_r2 (either variant), calculate_grad_grad_B_tensor,
   calculate_grad_B_tensor, grad_grad_B_tensor_cylindrical, grad_grad_B_tensor_cartesian, _residual.  Continuum model: derivation O.
   The proofs live in C10_two_a.v, C10_two_b.v (d), C10_sym_div.v (a, b), C10_tangent.v (e and the tangent slice of c),
   C10_scale_api.v (f, g), all on top of C10_common.v; this file only assembles them.  The rest of (c) is in C10_vacuum.v. *)
From Coq Require Import Reals String List Lia.
From QSC Require Import Expr Shallow.
From QSCGen Require Import G_init_axis G_r1_diagnostics G_calculate_r2 G_residual G_calculate_grad_grad_B_tensor
     G_calculate_grad_B_tensor G_grad_grad_B_tensor_cylindrical G_grad_grad_B_tensor_cartesian.
From QSCProps Require Import C10_spec C10_two_a C10_two_b C10_sym_div C10_tangent C10_scale_api.
Open Scope R_scope.
Open Scope string_scope.

Section Main.
  Context {I : Type} (O : ops I) (HD : derivation O) (S VA V1 V2 : string -> I -> R).
  Hypothesis Hadm : admissible S.
  Hypothesis HA : stage O init_axis S VA.
  Hypothesis H1 : stage O r1_diagnostics_h0 S V1 \/ stage O r1_diagnostics_hN S V1.
  Hypothesis H2 : stage O calculate_r2_h0 S V2 \/ stage O calculate_r2_hN S V2.
  Variable VG : string -> I -> R.
  Hypothesis HG : stage O calculate_grad_grad_B_tensor S VG.
  Theorem C10_two_ways : two_ways S.
  Proof.
    intros i a b c Ha Hb Hc. destruct a as [|a].
    - eapply C10_two_ways_0; eassumption.
    - eapply C10_two_ways_12; try eassumption; lia.
  Qed.
  Theorem C10_sym12 : sym12 S.
  Proof. eapply C10_sym12_p; eassumption. Qed.
  Theorem C10_divfree : divfree S.
  Proof. eapply C10_divfree_p; eassumption. Qed.
  Variable VT : string -> I -> R.
  Hypothesis HT : stage O calculate_grad_B_tensor S VT.
  Hypothesis Hcst : constants S.
  Theorem C10_tangent_contraction : tangent_contraction O S VT.
  Proof. eapply C10_tangent_contraction_p; eassumption. Qed.
  Variable VR : string -> I -> R.
  Hypothesis HR : stage O residual S VR.
  Hypothesis Hsig : sigma_solved O S VR.
  Theorem C10_tangent_slice_curl : tangent_slice_curl S.
  Proof. eapply C10_tangent_slice_curl_p; eassumption. Qed.
  Theorem C10_vacuum_tangent_slice_symmetric : vacuum_tangent_slice_symmetric S.
  Proof. eapply C10_vacuum_tangent_slice_symmetric_p; eassumption. Qed.
End Main.

Section Variants.
  Context {I : Type} (O : ops I) (S VG VY VC : string -> I -> R).
  Hypothesis HG : stage O calculate_grad_grad_B_tensor S VG.
  Hypothesis HY : stage O grad_grad_B_tensor_cylindrical S VY.
  Hypothesis HC : stage O grad_grad_B_tensor_cartesian S VC.
  Theorem C10_scale_length : scale_length O S.
  Proof. eapply C10_scale_length_p; eassumption. Qed.
  Theorem C10_cylindrical_is_frenet : cylindrical_is_frenet S VY.
  Proof. eapply C10_cylindrical_is_frenet_p; eassumption. Qed.
  Theorem C10_cartesian_is_rotation_of_that : cartesian_is_rotation_of_that S VC.
  Proof. eapply C10_cartesian_is_rotation_of_that_p; eassumption. Qed.
  Corollary C10_cartesian_rotates_frenet : fed_by VY VC ->
    forall i a b c, (a < 3)%nat -> (b < 3)%nat -> (c < 3)%nat -> ret VC a b c i = rotated3 S (G S) a b c i.
  Proof. intros Hfed. eapply C10_cartesian_rotates_frenet_p; eassumption. Qed.
End Variants.

(* ---------- summary: the closed statements ---------- *)
Check C10_two_ways. Check C10_sym12. Check C10_divfree. Check C10_tangent_contraction.
Check C10_scale_length. Check C10_cylindrical_is_frenet. Check C10_cartesian_is_rotation_of_that. Check C10_cartesian_rotates_frenet.
Check C10_tangent_slice_curl. Check C10_vacuum_tangent_slice_symmetric.
Print Assumptions C10_two_ways.
Print Assumptions C10_sym12.
Print Assumptions C10_divfree.
Print Assumptions C10_tangent_contraction.
Print Assumptions C10_scale_length.
Print Assumptions C10_cylindrical_is_frenet.
Print Assumptions C10_cartesian_is_rotation_of_that.
Print Assumptions C10_cartesian_rotates_frenet.
Print Assumptions C10_tangent_slice_curl.
Print Assumptions C10_vacuum_tangent_slice_symmetric.
