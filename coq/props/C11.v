(* C11 (algebraic clauses): Mercier terms.  Every statement is proved for every model VM of the
   program regenerated from mercier() (Shallow.is_fix); the final environment of a run is such a
   model (Shallow.runG_is_fix, [ssa_mercier]).  The four identities hold for every index type and
   every operator structure (no hypothesis on O at all); the sign of DGeod is proved for the
   discrete instance disc_ops n Dm fmin (any grid size, any matrix, any fmin oracle). *)
From Coq Require Import Reals String List Lra QArith Qreals.
From QSC Require Import Expr Shallow.
From QSCGen Require Import G_mercier.
From QSCProps Require Import C11_spec.
Open Scope R_scope.
Open Scope string_scope.

Lemma ssa_mercier : ssa mercier = true. Proof. vm_compute. reflexivity. Qed.

(* ---------- identities: any index type, any operators ---------- *)
Section Proofs.
  Context {I : Type} (O : ops I) (VM : string -> I -> R).
  Hypothesis HV : is_fix O mercier VM.

  Theorem C11_merc_sum : merc_sum VM.
  Proof.
    intros i. unfold_fix O mercier HV "s.DMerc_times_r2". reflexivity.
  Qed.

  Theorem C11_well_closed : well_closed VM.
  Proof.
    intros i.
    unfold_fixes O mercier HV ("s.DWell_times_r2" :: "p2" :: "G0" :: "B0" :: "pi" :: nil)%list.
    qsimp. reflexivity.
  Qed.

  Theorem C11_V2_closed : V2_closed VM.
  Proof.
    intros i.
    unfold_fixes O mercier HV ("s.d2_volume_d_psi2" :: "G0" :: "B0" :: "etabar" :: "iota" :: "pi" :: nil)%list.
    qsimp. reflexivity.
  Qed.

  Theorem C11_vanish_without_pressure : vanish_without_pressure VM.
  Proof.
    intros i Hp.
    assert (HW : VM "s.DWell_times_r2" i = 0).
    { unfold_fixes O mercier HV ("s.DWell_times_r2" :: "p2" :: nil)%list.
      rewrite Hp. unfold Rdiv. ring. }
    assert (HG : VM "s.DGeod_times_r2" i = 0).
    { unfold_fixes O mercier HV ("s.DGeod_times_r2" :: "p2" :: nil)%list.
      rewrite Hp. unfold Rdiv. ring. }
    repeat split; try assumption.
    unfold_fix O mercier HV "s.DMerc_times_r2". rewrite HW, HG. ring.
  Qed.
End Proofs.

(* ---------- DGeod <= 0 on the grid ---------- *)
Lemma lsum_nonneg (l : list R) : (forall x, In x l -> 0 <= x) -> 0 <= lsum l.
Proof.
  induction l as [|x l IH]; intros H; simpl; [lra|].
  assert (0 <= x) by (apply H; left; reflexivity).
  assert (0 <= lsum l) by (apply IH; intros y Hy; apply H; right; exact Hy).
  lra.
Qed.

Lemma gsum_nonneg n (f : nat -> R) : (forall k, (k < n)%nat -> 0 <= f k) -> 0 <= gsum n f.
Proof.
  intros H. unfold gsum. apply lsum_nonneg. intros x Hx.
  apply in_map_iff in Hx. destruct Hx as [k [<- Hk]]. apply H.
  unfold grid in Hk. apply in_seq in Hk. destruct Hk as [_ Hk]. exact Hk.
Qed.

Lemma integrand_nonneg (l e k s : R) : 0 < l -> e <> 0 ->
  0 <= l * (e * e * e * e + k * k * k * k * s * s + e * e * k * k)
       / (e * e * e * e + k * k * k * k * (1 + s * s) + 2 * e * e * k * k).
Proof.
  intros Hl He.
  assert (He2 : 0 < e * e) by (apply Rsqr_pos_lt in He; exact He).
  assert (He4 : 0 < e * e * e * e).
  { replace (e * e * e * e) with ((e * e) * (e * e)) by ring. apply Rmult_lt_0_compat; exact He2. }
  assert (Hk2 : 0 <= k * k) by apply Rle_0_sqr.
  assert (Hs2 : 0 <= s * s) by apply Rle_0_sqr.
  assert (Hk4 : 0 <= k * k * k * k).
  { replace (k * k * k * k) with ((k * k) * (k * k)) by ring. apply Rmult_le_pos; exact Hk2. }
  assert (Hek : 0 <= e * e * k * k).
  { replace (e * e * k * k) with ((e * e) * (k * k)) by ring. apply Rmult_le_pos; lra. }
  assert (Hks : 0 <= k * k * k * k * s * s).
  { replace (k * k * k * k * s * s) with ((k * k * k * k) * (s * s)) by ring. apply Rmult_le_pos; assumption. }
  assert (Hks1 : 0 <= k * k * k * k * (1 + s * s)) by (apply Rmult_le_pos; lra).
  unfold Rdiv. apply Rmult_le_pos.
  - apply Rmult_le_pos; lra.
  - apply Rlt_le, Rinv_0_lt_compat. lra.
Qed.

Section GeodProof.
  Variable n : nat. Variable Dm : nat -> nat -> R. Variable fmin : (nat -> R) -> R.
  Variable VM : string -> nat -> R.
  Hypothesis HV : is_fix (disc_ops n Dm fmin) mercier VM.

  Theorem C11_geod_nonpositive : geod_nonpositive VM.
  Proof.
    intros Hl He Hdphi Hnfp HL HB Hi i.
    unfold_fixes (disc_ops n Dm fmin) mercier HV
      ("s.DGeod_times_r2" :: "integral" :: "integrand" :: "d_l_d_phi" :: "B0" :: "G0" :: "p2" :: "etabar"
       :: "curvature" :: "sigma" :: "iotaN" :: "pi" :: nil)%list.
    cbn [o_sum disc_ops]. qsimp.
    set (S := gsum n _).
    assert (HS : 0 <= S).
    { unfold S. apply gsum_nonneg. intros k _. apply integrand_nonneg; [apply Hl | apply He]. }
    clearbody S.
    set (B := VM "s.B0" i) in *. set (N := VM "s.iotaN" i) in *.
    set (G := VM "s.G0" i). set (p := VM "s.p2" i). set (e := VM "s.etabar" i).
    assert (HBi : B <> 0) by apply HB. assert (HNi : N <> 0) by apply Hi.
    assert (Hpi : 0 < PI) by apply PI_RGT_0.
    assert (Hmu : 0 <= mu0R * mu0R) by apply Rle_0_sqr.
    assert (Hint : 0 <= S * VM "s.d_phi" i * VM "s.nfp" i * 2 * PI / VM "s.axis_length" i).
    { unfold Rdiv. apply Rmult_le_pos.
      - apply Rmult_le_pos; [|lra]. apply Rmult_le_pos; [|lra].
        apply Rmult_le_pos; [|apply Rlt_le, Hnfp]. apply Rmult_le_pos; [exact HS|apply Rlt_le, Hdphi].
      - apply Rlt_le, Rinv_0_lt_compat. apply HL. }
    assert (HB2 : 0 < B * B) by (apply Rsqr_pos_lt in HBi; exact HBi).
    assert (HN2 : 0 < N * N) by (apply Rsqr_pos_lt in HNi; exact HNi).
    assert (Hden : 0 < PI * PI * PI * B * B * B * B * B * B * B * B * B * B * N * N).
    { replace (PI * PI * PI * B * B * B * B * B * B * B * B * B * B * N * N)
        with (PI * PI * PI * ((B * B) * (B * B) * (B * B) * (B * B) * (B * B)) * (N * N)) by ring.
      assert (HB4 : 0 < (B * B) * (B * B)) by (apply Rmult_lt_0_compat; exact HB2).
      assert (HB10 : 0 < (B * B) * (B * B) * (B * B) * (B * B) * (B * B)).
      { repeat (apply Rmult_lt_0_compat; [|exact HB2]). exact HB2. }
      assert (HP3 : 0 < PI * PI * PI) by (repeat (apply Rmult_lt_0_compat; [|exact Hpi]); exact Hpi).
      apply Rmult_lt_0_compat; [|exact HN2]. apply Rmult_lt_0_compat; assumption. }
    assert (Hnum : 0 <= 2 * mu0R * mu0R * p * p * G * G * G * G * e * e).
    { replace (2 * mu0R * mu0R * p * p * G * G * G * G * e * e)
        with (2 * (mu0R * mu0R) * (p * p) * ((G * G) * (G * G)) * (e * e)) by ring.
      assert (HG4 : 0 <= (G * G) * (G * G)) by (apply Rmult_le_pos; apply Rle_0_sqr).
      apply Rmult_le_pos; [|apply Rle_0_sqr]. apply Rmult_le_pos; [|exact HG4].
      apply Rmult_le_pos; [|apply Rle_0_sqr]. apply Rmult_le_pos; [lra|exact Hmu]. }
    assert (Hq : 0 <= 2 * mu0R * mu0R * p * p * G * G * G * G * e * e
                       / (PI * PI * PI * B * B * B * B * B * B * B * B * B * B * N * N)).
    { unfold Rdiv. apply Rmult_le_pos; [exact Hnum | apply Rlt_le, Rinv_0_lt_compat; exact Hden]. }
    rewrite Ropp_mult_distr_l_reverse.
    apply Ropp_le_cancel. rewrite Ropp_involutive, Ropp_0.
    apply Rmult_le_pos; assumption.
  Qed.
End GeodProof.

Print Assumptions C11_merc_sum.
Print Assumptions C11_well_closed.
Print Assumptions C11_V2_closed.
Print Assumptions C11_vanish_without_pressure.
Print Assumptions C11_geod_nonpositive.
