(* C01 (split for parallel compilation): third order: avg tor[r^3] = avg jac[r^3] = 0 and the closed theorems C01_r3_h0 / C01_r3_hN *)
From Coq Require Import Reals String List Lra Lia QArith Qreals FunctionalExtensionality.
From QSC Require Import Expr Shallow Series.
From QSCGen Require Import G_init_axis G_r1_diagnostics G_residual G_calculate_r2 G_calculate_r3.
From QSCProps Require Import C04_spec C01_spec C01_common C01_facts2 C01_facts3 C01_r1 C01_r2base C01_r2a C01_r2b C01_r2 C01_r3a C01_r3b.
Open Scope R_scope.
Open Scope string_scope.

Section R3.
  Context {I : Type} (O : ops I) (S : string -> I -> R).
  Hypothesis HD : derivation O.
  Hypothesis HA : axis_facts S.
  Hypothesis HR : r1_facts O S.
  Hypothesis H2 : r2_facts O S.
  Hypothesis Hadm : admissible S.
  Hypothesis Hsig : forall i, sigma_residual O S i = 0.
  Hypothesis H3 : r3_facts S.
  Variable i : I.

  Lemma tor3_avg : tavg (tor (atoms_of S i) 3%nat) = 0.
  Proof.
    destruct (sq1_cases _ (adm_sG S Hadm i)) as [E|E];
      [exact (tor3_avg_pos O S HD HA HR H2 Hadm Hsig H3 i E) | exact (tor3_avg_neg O S HD HA HR H2 Hadm Hsig H3 i E)].
  Qed.


  (* psi' modB = B^2 tor + Gh jac, read at [r^3, average]: with modB[r^2], tor[r^1], tor[r^2], jac[r^1] already
     shown to vanish, the averaged Jacobian condition is equivalent to the averaged toroidal one *)
  Lemma jac3_avg : tavg (jac (atoms_of S i) 3%nat) = 0.
  Proof.
    pose proof tor3_avg as T30.
    pose proof (tzero_tcos _ (modB2 O S HD HA HR H2 Hadm Hsig i (atoms_of S i)) 0%nat) as M20.
    pose proof (tzero_tcos _ (tor2 O S HD HA HR H2 Hadm Hsig i (atoms_of S i)) 1%nat) as T21.
    first [ pose proof (r1_claims O S HA HR Hadm i (atoms_of S i)) as R1c
          | pose proof (r1_claims O S HD HA HR Hadm i (atoms_of S i)) as R1c ].
    destruct R1c as (_ & _ & _ & _ & T1 & _ & _ & J1 & _).
    pose proof (tzero_tcos _ T1 0%nat) as T10. pose proof (tzero_tcos _ J1 0%nat) as J10.
    assert (ID : S "s.spsi" i * S "s.B0" i * tcos (modB (with_second_order S i (atoms_of S i)) 2%nat) 0
                 = S "s.B0" i * S "s.B0" i * tavg (tor (atoms_of S i) 3%nat)
                   + S "s.G0" i * tavg (jac (atoms_of S i) 3%nat)
                   + S "s.B0" i * S "s.B0" i * S "s.etabar" i * tcos (tor (with_second_order S i (atoms_of S i)) 2%nat) 1
                   + (2 * S "s.B0" i * S "s.B20" i + S "s.B0" i * S "s.B0" i * S "s.etabar" i * S "s.etabar" i / 2)
                     * tcos (tor (with_first_order S i (atoms_of S i)) 1%nat) 0
                   + (S "s.G2" i + (S "s.iota" i - S "s.iotaN" i) * S "s.I2" i)
                     * tcos (jac (with_first_order S i (atoms_of S i)) 1%nat) 0).
    { unfold with_second_order, with_first_order, atoms_of. compute_coef. field. }
    rewrite M20, T30, T21, T10, J10 in ID.
    assert (HG : S "s.G0" i <> 0).
    { rewrite (ax_G0 S HA). nonzero_at S Hadm i.
      destruct (sq1_cases _ (adm_sG S Hadm i)) as [E|E]; rewrite E;
        repeat apply Rmult_integral_contrapositive_currified; try assumption; lra. }
    apply (Rmult_eq_reg_l (S "s.G0" i)); [lra | exact HG].
  Qed.
  Theorem r3_claims : claims_r3 (atoms_of S i).
  Proof. split; [apply tor3_avg | apply jac3_avg]. Qed.
End R3.

Definition r3_hyps {I : Type} (O : ops I) (S : string -> I -> R) (P1 P2 P3 : prog) : Prop :=
  r2_hyps O S P1 P2 /\ (exists V3, stage O P3 S V3).

Section Closed3.
  Context {I : Type} (O : ops I) (S : string -> I -> R).

  (* order r3 *)
  Definition C01_r3_statement (P1 P2 P3 : prog) : Prop :=
    r3_hyps O S P1 P2 P3 -> forall i, claims_r3 (atoms_of S i).
  Lemma C01_r3_gen P1 P2 P3 : (forall V1, stage O P1 S V1 -> r1_facts O S) ->
    (forall V2, stage O P2 S V2 -> (forall i, V2 "solve1_eq0" i = 0) -> (forall i, V2 "solve1_eq1" i = 0) -> r2_facts O S) ->
    (forall V3, stage O P3 S V3 -> r3_facts S) ->
    C01_r3_statement P1 P2 P3.
  Proof.
    intros F F2 F3 (((HD & Hadm & [VA HA] & [V1 H1] & [VR [HRs Hsol]]) & [V2 (H2 & Hz0 & Hz1)]) & [V3 H3]) i.
    pose proof (axis_facts_of_stage O S VA HA) as FA. pose proof (F V1 H1) as FR.
    first [ pose proof (sigma_residual_zero O S FA Hadm VR HRs Hsol) as Hs
          | pose proof (sigma_residual_zero O S HD FA FR Hadm VR HRs Hsol) as Hs
          | pose proof (sigma_residual_zero O S HD FA Hadm VR HRs Hsol) as Hs ].
    exact (r3_claims O S HD FA FR (F2 V2 H2 Hz0 Hz1) Hadm Hs (F3 V3 H3) i).
  Qed.
  Ltac close_r3 f1 f2 f3 :=
    let H := fresh "H" in let HD := fresh "HD" in
    intros H; pose proof H as (((HD & _) & _) & _); revert H;
    apply C01_r3_gen; [apply f1 | apply (f2 O S (der_lin O HD)) | apply f3].
  Theorem C01_r3_h0 : C01_r3_statement r1_diagnostics_h0 calculate_r2_h0 calculate_r3_h0.
  Proof. close_r3 (@r1_facts_of_stage_h0 I O S) (@r2_facts_of_stage_h0 I) (@r3_facts_of_stage_h0 I O S). Qed.
  Theorem C01_r3_hN : C01_r3_statement r1_diagnostics_hN calculate_r2_hN calculate_r3_hN.
  Proof. close_r3 (@r1_facts_of_stage_hN I O S) (@r2_facts_of_stage_hN I) (@r3_facts_of_stage_hN I O S). Qed.
End Closed3.

Print Assumptions C01_r3_h0.
Print Assumptions C01_r3_hN.
