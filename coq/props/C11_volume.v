(* C11, geometric clause: the reported d2_volume_d_psi2 is V''(psi) of the constructed surfaces, V' = 4 pi^2 |G0| / B0^2.

   GEOMETRY USED.  sqrt g = e_r . (e_th x e_ph) is the formal double series [sqrtg] of props/C01_spec.v, built only from
   the returned attributes at a grid point (varphi = Boozer toroidal angle, th = helical poloidal angle).  With
   <sqrt g>(r) = theta-average = r a1 + r^3 a3 + O(r^5) per grid point,
        V(r)     = int_0^r dr' int_0^{2pi} dth int_0^{2pi} dvarphi |sqrt g| ,     2 pi |psi| = pi r^2 B0  (|psi| = r^2 B0 / 2),
        dV/dr    = 2 pi int dvarphi (r s a1 + r^3 s a3 + ...)          s = sG spsi = sign of sqrt g (s a1 = |G0|/B0 > 0),
        dV/d|psi| = (dV/dr) / (r B0) = (2 pi / B0) int dvarphi (s a1 + r^2 s a3 + ...),   r^2 = 2 |psi| / B0,
        V'  at the axis = (2 pi / B0) int dvarphi s a1 ,
        V'' at the axis = (2 pi / B0) (2 / B0) int dvarphi s a3 .
   (With respect to the signed psi = spsi r^2 B0 / 2, V' carries the extra factor spsi and V'' is unchanged; the code reports
   the spsi-free V'.)  The varphi-integral over the full torus is evaluated by the quadrature the code itself uses for B20_mean:
   int dvarphi f = 2 pi * sum_k f_k dl_k / sum_k dl_k  ([Iphi]; d varphi/d phi is proportional to d l/d phi, C03, and d phi is uniform).

   PROVED.
   (1) per grid point, for ANY atoms a, pure algebra from the Jacobian residual of C01_spec:
         [avg_sqrtg1]  jac[r^1] = 0 (all harmonics)                                  ->  a1 = spsi G0 / B0
         [avg_sqrtg3]  jac[r^1] = 0, jac[r^2] = 0 (all harmonics), avg jac[r^3] = 0  ->
                       a3 = spsi G0 / (2 B0) * (3 etabar^2 - 4 B20 / B0 + 2 (G2 + iota I2) / G0)     (B20 = local value B20(varphi))
   (2) [C11_volume_gen]: with these three Jacobian claims at every grid point, constants constant on the grid, a linear grid sum
       with sum dl <> 0, and B20_mean = sum(B20 dl)/sum(dl):
         (2 pi / B0) Iphi (s a1) = 4 pi^2 |G0| / B0^2      and      (2 pi / B0)(2 / B0) Iphi (s a3) = d2_volume_d_psi2 (mercier program).
   (3) [C11_volume_h0/hN]: the Jacobian claims are discharged by the C01 theorems (orders r1, r2, r3) and B20_mean by the
       calculate_r2 program, for every index type and every operator structure whose o_D is a derivation and whose o_sum is linear
       (in particular every discrete grid, [disc_sum_linear]).
   NOT PROVED / DEFINITIONAL: that V(r) is the triple integral of |sqrt g| and that the grid quadrature equals the continuum
   varphi-integral (exact for a resolved periodic integrand); these enter only through the definitions [Vp_geom], [Vpp_geom]. *)
From Coq Require Import Reals String List Lra QArith Qreals FunctionalExtensionality.
From QSC Require Import Expr Shallow Series.
From QSCGen Require Import G_init_axis G_r1_diagnostics G_residual G_calculate_r2 G_calculate_r3 G_mercier.
From QSCProps Require Import C04_spec C01_spec C01 C11_spec C11.
Import ListNotations.
Open Scope R_scope.
Open Scope string_scope.

(* ---------- (1) per grid point: averages of sqrt g from the Jacobian claims ---------- *)
Lemma jac1_id (a : atoms) : tcos (jac a 1%nat) 0 = a_B0 a * a_B0 a * tavg (sqrtg a 1%nat) - a_spsi a * a_B0 a * a_G0 a.
Proof. destruct a. compute_coef. field. Qed.
Lemma jac2_id (a : atoms) :
  tcos (jac a 2%nat) 1 = a_B0 a * a_B0 a * tcos (sqrtg a 2%nat) 1 + 2 * a_B0 a * a_B0 a * a_eta a * tavg (sqrtg a 1%nat).
Proof. destruct a. compute_coef. field. Qed.
Lemma jac3_id (a : atoms) :
  tavg (jac a 3%nat) = a_B0 a * a_B0 a * tavg (sqrtg a 3%nat) + a_B0 a * a_B0 a * a_eta a * tcos (sqrtg a 2%nat) 1
     + (2 * a_B0 a * a_B20 a + a_B0 a * a_B0 a * a_eta a * a_eta a / 2) * tavg (sqrtg a 1%nat)
     - a_spsi a * a_B0 a * (a_G2 a + a_iota a * a_I2 a).
Proof. destruct a. compute_coef. field. Qed.

Theorem avg_sqrtg1 (a : atoms) : tzero (jac a 1%nat) -> a_B0 a <> 0 -> tavg (sqrtg a 1%nat) = a_spsi a * a_G0 a / a_B0 a.
Proof.
  intros H1 HB. pose proof (tzero_tcos _ H1 0%nat) as K. rewrite jac1_id in K.
  apply (Rmult_eq_reg_l (a_B0 a * a_B0 a)); [|apply Rmult_integral_contrapositive_currified; assumption].
  transitivity (a_spsi a * a_B0 a * a_G0 a); [lra | field; assumption].
Qed.
Theorem avg_sqrtg3 (a : atoms) :
  tzero (jac a 1%nat) -> tzero (jac a 2%nat) -> tavg (jac a 3%nat) = 0 -> a_B0 a <> 0 -> a_G0 a <> 0 ->
  tavg (sqrtg a 3%nat)
  = a_spsi a * a_G0 a / (2 * a_B0 a) * (3 * a_eta a * a_eta a - 4 * a_B20 a / a_B0 a + 2 * (a_G2 a + a_iota a * a_I2 a) / a_G0 a).
Proof.
  intros H1 H2 H3 HB HG.
  pose proof (avg_sqrtg1 a H1 HB) as A1.
  pose proof (tzero_tcos _ H2 1%nat) as K2. rewrite jac2_id, A1 in K2.
  rewrite jac3_id, A1 in H3.
  assert (BB : a_B0 a * a_B0 a <> 0) by (apply Rmult_integral_contrapositive_currified; assumption).
  assert (S21 : tcos (sqrtg a 2%nat) 1 = - 2 * a_eta a * (a_spsi a * a_G0 a / a_B0 a)).
  { apply (Rmult_eq_reg_l (a_B0 a * a_B0 a)); [|exact BB].
    transitivity (- (2 * a_B0 a * a_B0 a * a_eta a * (a_spsi a * a_G0 a / a_B0 a))); [lra | field; assumption]. }
  rewrite S21 in H3.
  apply (Rmult_eq_reg_l (a_B0 a * a_B0 a)); [|exact BB].
  match type of H3 with ?x + ?y + ?z - ?w = 0 => transitivity (w - z - y); [lra|] end.
  field. split; assumption.
Qed.

(* ---------- (2) grid level ---------- *)
Record sum_linear {I : Type} (O : ops I) : Prop := {
  sum_add : forall f g, o_sum O (fun k => f k + g k) = o_sum O f + o_sum O g;
  sum_scal : forall c f, o_sum O (fun k => c * f k) = c * o_sum O f
}.
Lemma disc_sum_linear n Dm fmin : sum_linear (disc_ops n Dm fmin).
Proof. constructor; simpl; intros; [apply gsum_plus | apply gsum_scal]. Qed.

Section Grid.
  Context {I : Type} (O : ops I) (S : string -> I -> R).
  Notation dl := (S "s.d_l_d_phi").
  (* arclength-weighted grid mean (the code's B20_mean) and the varphi-integral over the full torus *)
  Definition Iphi (f : I -> R) : R := 2 * PI * wmean O S f.
  (* theta-averaged Jacobian coefficients at grid point k and the orientation sign *)
  Definition a1 (k : I) : R := tavg (sqrtg (atoms_of S k) 1%nat).
  Definition a3 (k : I) : R := tavg (sqrtg (atoms_of S k) 3%nat).
  Definition sgn (k : I) : R := S "s.sG" k * S "s.spsi" k.
  (* V'(|psi|) and V''(psi) at the axis, from the geometry *)
  Definition Vp_geom (i : I) : R := 2 * PI / S "s.B0" i * Iphi (fun k => sgn k * a1 k).
  Definition Vpp_geom (i : I) : R := 2 * PI / S "s.B0" i * (2 / S "s.B0" i) * Iphi (fun k => sgn k * a3 k).

  Record grid_constants : Prop := {
    gc_B0 : is_const (S "s.B0"); gc_G0 : is_const (S "s.G0"); gc_eta : is_const (S "s.etabar");
    gc_G2 : is_const (S "s.G2"); gc_iota : is_const (S "s.iota"); gc_I2 : is_const (S "s.I2");
    gc_sG : is_const (S "s.sG"); gc_spsi : is_const (S "s.spsi")
  }.
  Definition jac_claims : Prop := forall k,
    tzero (jac (atoms_of S k) 1%nat) /\ tzero (jac (atoms_of S k) 2%nat) /\ tavg (jac (atoms_of S k) 3%nat) = 0.

  Hypothesis HSL : sum_linear O.
  Hypothesis Hdl : o_sum O dl <> 0.

  Lemma wmean_affine (c0 c1 : R) (f : I -> R) : wmean O S (fun k => c0 + c1 * f k) = c0 + c1 * wmean O S f.
  Proof.
    unfold wmean.
    replace (fun k => (c0 + c1 * f k) * dl k) with (fun k => c0 * dl k + c1 * (f k * dl k))
      by (apply functional_extensionality; intros k; ring).
    rewrite (sum_add O HSL), !(sum_scal O HSL). field. exact Hdl.
  Qed.

  Hypothesis HA : axis_facts S.
  Hypothesis Hadm : admissible S.
  Hypothesis HC : grid_constants.
  Hypothesis HJ : jac_claims.
  Hypothesis HB20 : forall i, S "s.B20_mean" i = wmean O S (S "s.B20").
  Variable VM : string -> I -> R.
  Hypothesis HM : stage O mercier S VM.

  Lemma absG0 i : Rabs (S "s.G0" i) = S "s.sG" i * S "s.G0" i.
  Proof.
    rewrite (ax_G0 S HA). cbv beta.
    pose proof (adm_B0 S Hadm i) as Hb. pose proof (adm_lp S Hadm i) as Hl.
    rewrite !Rabs_mult, (Rabs_pos_eq (S "s.abs_G0_over_B0" i)), (Rabs_pos_eq (S "s.B0" i)) by lra.
    destruct (sq1_cases _ (adm_sG S Hadm i)) as [E|E]; rewrite E; unfold Rabs; destruct Rcase_abs; lra.
  Qed.
  Lemma G0_nz i : S "s.G0" i <> 0.
  Proof.
    rewrite (ax_G0 S HA). cbv beta.
    pose proof (adm_B0 S Hadm i) as Hb. pose proof (adm_lp S Hadm i) as Hl.
    destruct (sq1_cases _ (adm_sG S Hadm i)) as [E|E]; rewrite E;
      repeat apply Rmult_integral_contrapositive_currified; lra.
  Qed.

  Theorem C11_volume_gen : forall i,
    Vp_geom i = 4 * PI * PI * Rabs (S "s.G0" i) / (S "s.B0" i * S "s.B0" i)
    /\ Vpp_geom i = VM "s.d2_volume_d_psi2" i.
  Proof.
    intros i.
    pose proof (C11_V2_closed O VM (st_fix _ _ _ _ HM) i) as HV2. revert HV2. to_state HM. intros HV2.
    rewrite HV2, HB20. unfold Vp_geom, Vpp_geom, Iphi.
    assert (E1 : (fun k => sgn k * a1 k) = (fun k => Rabs (S "s.G0" i) / S "s.B0" i + 0 * S "s.B20" k)).
    { apply functional_extensionality; intros k. unfold sgn, a1.
      destruct (HJ k) as (J1 & _). rewrite (avg_sqrtg1 _ J1) by (cbn [atoms_of a_B0]; apply Rgt_not_eq, (adm_B0 S Hadm)).
      cbn [atoms_of a_spsi a_G0 a_B0]. rewrite absG0.
      destruct (gc_B0 HC) as [b0 E0]. destruct (gc_G0 HC) as [g0 Eg]. destruct (gc_sG HC) as [sg Es]. destruct (gc_spsi HC) as [sp Ep].
      pose proof (adm_spsi S Hadm k) as Hsp. pose proof (adm_B0 S Hadm k) as Hb. rewrite E0, Eg, Es, Ep in *.
      transitivity (sg * g0 / b0 * (sp * sp)); [field; lra | rewrite Hsp; field; lra]. }
    assert (E3 : (fun k => sgn k * a3 k)
                 = (fun k => Rabs (S "s.G0" i) / (2 * S "s.B0" i)
                               * (3 * S "s.etabar" i * S "s.etabar" i + 2 * (S "s.G2" i + S "s.iota" i * S "s.I2" i) / S "s.G0" i)
                             + (Rabs (S "s.G0" i) / (2 * S "s.B0" i) * (- 4 / S "s.B0" i)) * S "s.B20" k)).
    { apply functional_extensionality; intros k. unfold sgn, a3.
      destruct (HJ k) as (J1 & J2 & J3).
      rewrite (avg_sqrtg3 _ J1 J2 J3) by (cbn [atoms_of a_B0 a_G0]; first [apply Rgt_not_eq, (adm_B0 S Hadm) | apply G0_nz]).
      cbn [atoms_of a_spsi a_G0 a_B0 a_eta a_B20 a_G2 a_iota a_I2]. rewrite absG0.
      pose proof (G0_nz k) as Hg.
      destruct (gc_B0 HC) as [b0 E0]. destruct (gc_G0 HC) as [g0 Eg]. destruct (gc_sG HC) as [sg Es]. destruct (gc_spsi HC) as [sp Ep].
      destruct (gc_eta HC) as [et Ee]. destruct (gc_G2 HC) as [g2 E2]. destruct (gc_iota HC) as [io Ei]. destruct (gc_I2 HC) as [i2 EI].
      pose proof (adm_spsi S Hadm k) as Hsp. pose proof (adm_B0 S Hadm k) as Hb. rewrite E0, Eg, Es, Ep, Ee, E2, Ei, EI in *.
      transitivity (sg * g0 / (2 * b0) * (3 * et * et - 4 * S "s.B20" k / b0 + 2 * (g2 + io * i2) / g0) * (sp * sp));
        [field; split; lra | rewrite Hsp; field; split; lra]. }
    rewrite E1, E3, !wmean_affine.
    pose proof (adm_B0 S Hadm i) as Hb. pose proof (G0_nz i) as Hg.
    split; field; try split; lra.
  Qed.
End Grid.

(* ---------- (3) closed statements: the Jacobian claims come from the C01 theorems ---------- *)
Section Closed.
  Context {I : Type} (O : ops I) (S : string -> I -> R).

  Lemma B20_mean_h0 V2 : stage O calculate_r2_h0 S V2 -> forall i, S "s.B20_mean" i = wmean O S (S "s.B20").
  Proof.
    intros H2 i. pose proof (st_fix _ _ _ _ H2) as HV. unfold wmean. from_state H2.
    unfold_fixes O calculate_r2_h0 HV ("s.B20_mean" :: "normalizer" :: "s.B20" :: "d_l_d_phi" :: nil)%list.
    qsimp. reflexivity.
  Qed.
  Lemma B20_mean_hN V2 : stage O calculate_r2_hN S V2 -> forall i, S "s.B20_mean" i = wmean O S (S "s.B20").
  Proof.
    intros H2 i. pose proof (st_fix _ _ _ _ H2) as HV. unfold wmean. from_state H2.
    unfold_fixes O calculate_r2_hN HV ("s.B20_mean" :: "normalizer" :: "s.B20" :: "d_l_d_phi" :: nil)%list.
    qsimp. reflexivity.
  Qed.

  Definition C11_volume_statement (P1 P2 P3 : prog) : Prop :=
    r3_hyps O S P1 P2 P3 -> sum_linear O -> o_sum O (S "s.d_l_d_phi") <> 0 -> grid_constants S ->
    forall VM, stage O mercier S VM -> forall i,
      Vp_geom O S i = 4 * PI * PI * Rabs (S "s.G0" i) / (S "s.B0" i * S "s.B0" i)
      /\ Vpp_geom O S i = VM "s.d2_volume_d_psi2" i.

  Lemma C11_volume_from_C01 P1 P2 P3 :
    C01_r1_statement O S P1 -> C01_r2_statement O S P1 P2 -> C01_r3_statement O S P1 P2 P3 ->
    (forall V2, stage O P2 S V2 -> forall i, S "s.B20_mean" i = wmean O S (S "s.B20")) ->
    C11_volume_statement P1 P2 P3.
  Proof.
    intros C1 C2 C3 FB Hyp HSL Hdl HC VM HM i.
    pose proof Hyp as (Hyp2 & _). pose proof Hyp2 as (Hyp1 & [V2 (H2 & _)]).
    pose proof Hyp1 as (HD & Hadm & [VA HA] & _).
    apply (C11_volume_gen O S HSL Hdl (axis_facts_of_stage O S VA HA) Hadm HC); [ | exact (FB V2 H2) | exact HM].
    intros k.
    destruct (C1 Hyp1 k (atoms_of S k)) as ((_ & _ & _ & _ & _ & _ & _ & J1 & _) & _).
    destruct (C2 Hyp2 k (atoms_of S k)) as (_ & _ & _ & J2 & _).
    destruct (C3 Hyp k) as (_ & J3).
    split; [exact J1 | split; [exact J2 | exact J3]].
  Qed.
End Closed.

Theorem C11_volume_h0 : forall (I : Type) (O : ops I) (S : string -> I -> R),
  C11_volume_statement O S r1_diagnostics_h0 calculate_r2_h0 calculate_r3_h0.
Proof.
  intros. apply C11_volume_from_C01; [apply C01_r1_h0 | apply C01_r2_h0 | apply C01_r3_h0 | apply B20_mean_h0].
Qed.
Theorem C11_volume_hN : forall (I : Type) (O : ops I) (S : string -> I -> R),
  C11_volume_statement O S r1_diagnostics_hN calculate_r2_hN calculate_r3_hN.
Proof.
  intros. apply C11_volume_from_C01; [apply C01_r1_hN | apply C01_r2_hN | apply C01_r3_hN | apply B20_mean_hN].
Qed.

Print Assumptions avg_sqrtg1.
Print Assumptions avg_sqrtg3.
Print Assumptions C11_volume_gen.
Print Assumptions C11_volume_h0.
Print Assumptions C11_volume_hN.
