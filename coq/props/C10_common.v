(* C10, shared part: d/dvarphi is a derivation; facts pulled from init_axis, r1_diagnostics, calculate_r2 (either variant);
   derived first-order relations and their solved forms; the two algebraic O(r^2) relations and their derivatives; the sigma
   equation and its derivative.  Every lemma of Section Facts takes (O HD S VA V1 V2 Hadm HA H1 H2), every lemma of Section Sigma
   additionally (Hcst VR HR Hsig)  (Default Proof Using "All"), so that client files can re-specialise them uniformly. *)
From Coq Require Import Reals String List Lra Lia QArith Qreals FunctionalExtensionality.
From QSC Require Import Expr Shallow.
From QSCGen Require Import G_init_axis G_r1_diagnostics G_calculate_r2 G_residual.
From QSCProps Require Import C10_spec.
Open Scope R_scope.
Open Scope string_scope.

(* ---------- d/dvarphi is a derivation ---------- *)
Section Deriv.
  Context {I : Type} (O : ops I) (HD : derivation O) (S : string -> I -> R).
  Notation Dv := (Dv O S).
  Let HL := der_lin O HD.
  Lemma Dv_mul f g i : Dv (fun k => f k * g k) i = Dv f i * g i + f i * Dv g i.
  Proof. unfold C10_spec.Dv. rewrite (D_mul O HD). unfold Rdiv; ring. Qed.
  Lemma Dv_add f g i : Dv (fun k => f k + g k) i = Dv f i + Dv g i.
  Proof. unfold C10_spec.Dv. rewrite (D_add O HL). unfold Rdiv; ring. Qed.
  Lemma Dv_sub f g i : Dv (fun k => f k - g k) i = Dv f i - Dv g i.
  Proof. unfold C10_spec.Dv. rewrite (D_sub O HL). unfold Rdiv; ring. Qed.
  Lemma Dv_neg f i : Dv (fun k => - f k) i = - Dv f i.
  Proof. unfold C10_spec.Dv. rewrite (D_neg O HL). unfold Rdiv; ring. Qed.
  Lemma Dv_cst c i : Dv (fun _ => c) i = 0.
  Proof. unfold C10_spec.Dv. rewrite (D_const O HD). unfold Rdiv; ring. Qed.
  Lemma Dv_isconst f i : is_const f -> Dv f i = 0.
  Proof. intros [c ->]. apply Dv_cst. Qed.
  Lemma Dv_ext f g i : (forall k, f k = g k) -> Dv f i = Dv g i.
  Proof. intros H. replace f with g; [reflexivity|]. apply functional_extensionality. intros k; symmetry; apply H. Qed.
  Lemma is_const_mul f g : is_const f -> is_const g -> is_const (fun k : I => f k * g k).
  Proof. intros [a ->] [b ->]. exists (a * b). reflexivity. Qed.
  (* f g = constant  ==>  f' g + f g' = 0 *)
  Lemma prod_const f g c : (forall k, f k * g k = c k) -> is_const c ->
    forall i, Dv f i * g i + f i * Dv g i = 0.
  Proof. intros H Hc i. rewrite <- Dv_mul. rewrite (Dv_ext _ c) by exact H. apply Dv_isconst; exact Hc. Qed.
  (* ... and once more:  f'' g + 2 f' g' + f g'' = 0 *)
  Lemma prod_const2 f g f1 g1 : (forall k, f1 k = Dv f k) -> (forall k, g1 k = Dv g k) ->
    (forall k, f1 k * g k + f k * g1 k = 0) ->
    forall i, Dv f1 i * g i + 2 * f1 i * g1 i + f i * Dv g1 i = 0.
  Proof.
    intros Hf Hg H i.
    assert (E : Dv (fun k => f1 k * g k + f k * g1 k) i = 0).
    { rewrite (Dv_ext _ (fun _ => 0)) by exact H. apply Dv_cst. }
    rewrite Dv_add, !Dv_mul in E. rewrite <- Hf, <- Hg in E. lra.
  Qed.
End Deriv.

Lemma pm1 (x : R) : x * x = 1 -> x = 1 \/ x = -1.
Proof.
  intros H. assert (E : (x - 1) * (x + 1) = 0) by (ring_simplify; lra).
  apply Rmult_integral in E. destruct E; [left|right]; lra.
Qed.

Ltac loc2attr P H l a :=
    match type of H with stage _ _ _ ?V =>
      let E := fresh "E" in
      let Hd := constr:(@eq_refl (option expr) (Some (Var l)) <: defn P a = Some (Var l)) in
      assert (E : V l = V a) by (symmetry; exact (st_fix _ _ _ _ H a (Var l) Hd));
      rewrite ?E; clear E end.
Ltac dv_push_ O HD := repeat first [rewrite (Dv_add O HD) | rewrite (Dv_sub O HD) | rewrite (Dv_mul O HD) | rewrite (Dv_neg O HD) | rewrite (Dv_cst O HD)].

Section Facts.
  Context {I : Type} (O : ops I) (HD : derivation O) (S VA V1 V2 : string -> I -> R).
  Hypothesis Hadm : admissible S.
  Hypothesis HA : stage O init_axis S VA.
  Hypothesis H1 : stage O r1_diagnostics_h0 S V1 \/ stage O r1_diagnostics_hN S V1.
  Hypothesis H2 : stage O calculate_r2_h0 S V2 \/ stage O calculate_r2_hN S V2.
  Set Default Proof Using "All".
  Notation Dv := (Dv O S).
  Notation sG := (S "s.sG"). Notation spsi := (S "s.spsi"). Notation kap := (S "s.curvature").
  Notation etabar := (S "s.etabar"). Notation X1c := (S "s.X1c"). Notation Y1s := (S "s.Y1s"). Notation Y1c := (S "s.Y1c").
  Notation aGB := (S "s.abs_G0_over_B0"). Notation B0 := (S "s.B0").

  (* ---- init_axis ---- *)
  Lemma F_X1c i : X1c i = etabar i / kap i.
  Proof.
    rewrite <- (st_agree _ _ _ _ HA "s.X1c" eq_refl), <- (st_agree _ _ _ _ HA "s.curvature" eq_refl).
    unfold_fixes O init_axis (st_fix _ _ _ _ HA) ("s.X1c" :: "s.curvature" :: nil)%list. to_state HA. reflexivity.
  Qed.
  Lemma F_G0 i : S "s.G0" i = sG i * aGB i * B0 i.
  Proof.
    rewrite <- (st_agree _ _ _ _ HA "s.G0" eq_refl), <- (st_agree _ _ _ _ HA "s.abs_G0_over_B0" eq_refl).
    unfold_fixes O init_axis (st_fix _ _ _ _ HA) ("s.G0" :: "G0" :: "s.abs_G0_over_B0" :: nil)%list. to_state HA. reflexivity.
  Qed.
  Lemma F_dldvp i : S "s.d_l_d_varphi" i = aGB i.
  Proof.
    rewrite <- (st_agree _ _ _ _ HA "s.d_l_d_varphi" eq_refl), <- (st_agree _ _ _ _ HA "s.abs_G0_over_B0" eq_refl).
    unfold_fixes O init_axis (st_fix _ _ _ _ HA) ("s.d_l_d_varphi" :: "s.abs_G0_over_B0" :: nil)%list. reflexivity.
  Qed.
  Lemma F_absG0 i : Rabs (S "s.G0" i) = aGB i * B0 i.
  Proof.
    rewrite F_G0. pose proof (adm_lp S Hadm i). pose proof (adm_B0 S Hadm i).
    assert (0 < aGB i * B0 i) by (apply Rmult_lt_0_compat; assumption).
    destruct (pm1 _ (adm_sG S Hadm i)) as [E|E]; rewrite E.
    - rewrite Rabs_right; [ring|]. apply Rle_ge. replace (1 * aGB i * B0 i) with (aGB i * B0 i) by ring. lra.
    - replace (-1 * aGB i * B0 i) with (- (aGB i * B0 i)) by ring. rewrite Rabs_Ropp. rewrite Rabs_right; [ring|]. lra.
  Qed.
  Lemma X1c_nz i : X1c i <> 0.
  Proof.
    rewrite F_X1c. pose proof (adm_eta S Hadm i). pose proof (adm_kappa S Hadm i).
    unfold Rdiv. apply Rmult_integral_contrapositive_currified; [assumption|]. apply Rinv_neq_0_compat; assumption.
  Qed.

  (* ---- r1_diagnostics ---- *)
  Lemma F_Y1s i : Y1s i = sG i * spsi i * kap i / etabar i.
  Proof.
    destruct H1 as [H|H]; rewrite <- (st_agree _ _ _ _ H "s.Y1s" eq_refl).
    - unfold_fix O r1_diagnostics_h0 (st_fix _ _ _ _ H) "s.Y1s". to_state H. reflexivity.
    - unfold_fix O r1_diagnostics_hN (st_fix _ _ _ _ H) "s.Y1s". to_state H. reflexivity.
  Qed.
  Lemma F_Y1c i : Y1c i = sG i * spsi i * kap i * S "s.sigma" i / etabar i.
  Proof.
    destruct H1 as [H|H]; rewrite <- (st_agree _ _ _ _ H "s.Y1c" eq_refl).
    - unfold_fix O r1_diagnostics_h0 (st_fix _ _ _ _ H) "s.Y1c". to_state H. reflexivity.
    - unfold_fix O r1_diagnostics_hN (st_fix _ _ _ _ H) "s.Y1c". to_state H. reflexivity.
  Qed.
  Lemma F_dX1c i : S "s.d_X1c_d_varphi" i = Dv X1c i.
  Proof.
    unfold C10_spec.Dv. destruct H1 as [H|H]; rewrite <- (st_agree _ _ _ _ H "s.d_X1c_d_varphi" eq_refl).
    - unfold_fix O r1_diagnostics_h0 (st_fix _ _ _ _ H) "s.d_X1c_d_varphi". to_state H. reflexivity.
    - unfold_fix O r1_diagnostics_hN (st_fix _ _ _ _ H) "s.d_X1c_d_varphi". to_state H. reflexivity.
  Qed.
  Lemma F_dY1s i : S "s.d_Y1s_d_varphi" i = Dv Y1s i.
  Proof.
    unfold C10_spec.Dv. destruct H1 as [H|H]; rewrite <- (st_agree _ _ _ _ H "s.d_Y1s_d_varphi" eq_refl).
    - unfold_fix O r1_diagnostics_h0 (st_fix _ _ _ _ H) "s.d_Y1s_d_varphi". to_state H. reflexivity.
    - unfold_fix O r1_diagnostics_hN (st_fix _ _ _ _ H) "s.d_Y1s_d_varphi". to_state H. reflexivity.
  Qed.
  Lemma F_dY1c i : S "s.d_Y1c_d_varphi" i = Dv Y1c i.
  Proof.
    unfold C10_spec.Dv. destruct H1 as [H|H]; rewrite <- (st_agree _ _ _ _ H "s.d_Y1c_d_varphi" eq_refl).
    - unfold_fix O r1_diagnostics_h0 (st_fix _ _ _ _ H) "s.d_Y1c_d_varphi". to_state H. reflexivity.
    - unfold_fix O r1_diagnostics_hN (st_fix _ _ _ _ H) "s.d_Y1c_d_varphi". to_state H. reflexivity.
  Qed.

  (* ---- calculate_r2 ---- *)
  (* attr = Dphi(Var loc)/dvp and s.base = Var loc *)
  Ltac dattr_loc P H attr base :=
    unfold C10_spec.Dv; rewrite <- (st_agree _ _ _ _ H attr eq_refl), <- (st_agree _ _ _ _ H base eq_refl);
    unfold_fixes O P (st_fix _ _ _ _ H) (attr :: base :: nil)%list; to_state H; reflexivity.
  Ltac dattr_attr P H attr :=
    unfold C10_spec.Dv; rewrite <- (st_agree _ _ _ _ H attr eq_refl);
    unfold_fixes O P (st_fix _ _ _ _ H) (attr :: "curvature" :: "torsion" :: nil)%list; to_state H; reflexivity.
  Ltac both tac := destruct H2 as [H|H]; [tac calculate_r2_h0 H | tac calculate_r2_hN H].

  Lemma F_dX20 i : S "s.d_X20_d_varphi" i = Dv (S "s.X20") i.
  Proof. both ltac:(fun P H => dattr_loc P H "s.d_X20_d_varphi" "s.X20"). Qed.
  Lemma F_dX2s i : S "s.d_X2s_d_varphi" i = Dv (S "s.X2s") i.
  Proof. both ltac:(fun P H => dattr_loc P H "s.d_X2s_d_varphi" "s.X2s"). Qed.
  Lemma F_dX2c i : S "s.d_X2c_d_varphi" i = Dv (S "s.X2c") i.
  Proof. both ltac:(fun P H => dattr_loc P H "s.d_X2c_d_varphi" "s.X2c"). Qed.
  Lemma F_dY20 i : S "s.d_Y20_d_varphi" i = Dv (S "s.Y20") i.
  Proof. both ltac:(fun P H => dattr_loc P H "s.d_Y20_d_varphi" "s.Y20"). Qed.
  Lemma F_dY2s i : S "s.d_Y2s_d_varphi" i = Dv (S "s.Y2s") i.
  Proof. both ltac:(fun P H => dattr_loc P H "s.d_Y2s_d_varphi" "s.Y2s"). Qed.
  Lemma F_dY2c i : S "s.d_Y2c_d_varphi" i = Dv (S "s.Y2c") i.
  Proof. both ltac:(fun P H => dattr_loc P H "s.d_Y2c_d_varphi" "s.Y2c"). Qed.
  Lemma F_dZ20 i : S "s.d_Z20_d_varphi" i = Dv (S "s.Z20") i.
  Proof. both ltac:(fun P H => dattr_loc P H "s.d_Z20_d_varphi" "s.Z20"). Qed.
  Lemma F_dZ2s i : S "s.d_Z2s_d_varphi" i = Dv (S "s.Z2s") i.
  Proof. both ltac:(fun P H => dattr_loc P H "s.d_Z2s_d_varphi" "s.Z2s"). Qed.
  Lemma F_dZ2c i : S "s.d_Z2c_d_varphi" i = Dv (S "s.Z2c") i.
  Proof. both ltac:(fun P H => dattr_loc P H "s.d_Z2c_d_varphi" "s.Z2c"). Qed.
  Lemma F_dkap i : S "s.d_curvature_d_varphi" i = Dv kap i.
  Proof. both ltac:(fun P H => dattr_attr P H "s.d_curvature_d_varphi"). Qed.
  Lemma F_dtau i : S "s.d_torsion_d_varphi" i = Dv (S "s.torsion") i.
  Proof. both ltac:(fun P H => dattr_attr P H "s.d_torsion_d_varphi"). Qed.
  Lemma F_d2X1c i : S "s.d2_X1c_d_varphi2" i = Dv (S "s.d_X1c_d_varphi") i.
  Proof. both ltac:(fun P H => dattr_attr P H "s.d2_X1c_d_varphi2"). Qed.
  Lemma F_d2Y1s i : S "s.d2_Y1s_d_varphi2" i = Dv (S "s.d_Y1s_d_varphi") i.
  Proof. both ltac:(fun P H => dattr_attr P H "s.d2_Y1s_d_varphi2"). Qed.
  Lemma F_d2Y1c i : S "s.d2_Y1c_d_varphi2" i = Dv (S "s.d_Y1c_d_varphi") i.
  Proof. both ltac:(fun P H => dattr_attr P H "s.d2_Y1c_d_varphi2"). Qed.

  Ltac y2_prep P H nm :=
    rewrite <- (st_agree _ _ _ _ H nm eq_refl);
    unfold_fixes O P (st_fix _ _ _ _ H) (nm :: "Y2s" :: "Y2c" :: "Y2s_inhomogeneous" :: "Y2s_from_X20" :: "Y2c_inhomogeneous" :: "Y2c_from_X20"
         :: "sG" :: "spsi" :: "curvature" :: "etabar" :: "sigma" :: nil)%list;
    loc2attr P H "X20" "s.X20"; loc2attr P H "Y20" "s.Y20"; loc2attr P H "X2s" "s.X2s"; loc2attr P H "X2c" "s.X2c";
    to_state H; qsimp.
  Lemma F_Y2s i : S "s.Y2s" i =
     sG i * spsi i * (- kap i / 2 + kap i * kap i / (etabar i * etabar i) * (- S "s.X2c" i + S "s.X2s" i * S "s.sigma" i))
     - sG i * spsi i * kap i * kap i / (etabar i * etabar i) * S "s.X20" i.
  Proof. pose proof (adm_eta S Hadm i) as He. both ltac:(fun P H => y2_prep P H "s.Y2s"; field; assumption). Qed.
  Lemma F_Y2c i : S "s.Y2c" i =
     sG i * spsi i * kap i * kap i / (etabar i * etabar i) * (S "s.X2s" i + S "s.X2c" i * S "s.sigma" i)
     - sG i * spsi i * kap i * kap i * S "s.sigma" i / (etabar i * etabar i) * S "s.X20" i + S "s.Y20" i.
  Proof. pose proof (adm_eta S Hadm i) as He. both ltac:(fun P H => y2_prep P H "s.Y2c"; field; assumption). Qed.

  (* ---- derived relations ---- *)
  Lemma sGspsi_const : is_const (fun k => sG k * spsi k).
  Proof. apply is_const_mul; [apply (adm_sG_const S Hadm)|apply (adm_spsi_const S Hadm)]. Qed.
  Lemma R_XY i : X1c i * Y1s i = sG i * spsi i.
  Proof. rewrite F_X1c, F_Y1s. field. split; [apply (adm_eta S Hadm)|apply (adm_kappa S Hadm)]. Qed.
  Lemma R_dXY i : S "s.d_X1c_d_varphi" i * Y1s i + X1c i * S "s.d_Y1s_d_varphi" i = 0.
  Proof. rewrite F_dX1c, F_dY1s. apply (prod_const O HD S X1c Y1s (fun k => sG k * spsi k)); [apply R_XY|apply sGspsi_const]. Qed.
  Lemma R_d2XY i : S "s.d2_X1c_d_varphi2" i * Y1s i + 2 * S "s.d_X1c_d_varphi" i * S "s.d_Y1s_d_varphi" i + X1c i * S "s.d2_Y1s_d_varphi2" i = 0.
  Proof. rewrite F_d2X1c, F_d2Y1s. apply (prod_const2 O HD S X1c Y1s); [apply F_dX1c|apply F_dY1s|apply R_dXY]. Qed.
  Lemma R_kX i : kap i * X1c i = etabar i.
  Proof. rewrite F_X1c. field. apply (adm_kappa S Hadm). Qed.
  Lemma R_dkX i : S "s.d_curvature_d_varphi" i * X1c i + kap i * S "s.d_X1c_d_varphi" i = 0.
  Proof. rewrite F_dkap, F_dX1c. apply (prod_const O HD S kap X1c etabar); [apply R_kX|apply (adm_eta_const S Hadm)]. Qed.
  (* solved forms: everything first-order in terms of X1c and its derivatives *)
  Lemma S_Y1s i : Y1s i = sG i * spsi i / X1c i.
  Proof. rewrite <- R_XY. field. apply X1c_nz. Qed.
  Lemma S_dY1s i : S "s.d_Y1s_d_varphi" i = - (sG i * spsi i * S "s.d_X1c_d_varphi" i) / (X1c i * X1c i).
  Proof.
    pose proof (X1c_nz i) as Hx. pose proof (R_dXY i) as E. rewrite S_Y1s in E.
    apply (Rmult_eq_reg_l (X1c i)); [|exact Hx].
    replace (X1c i * S "s.d_Y1s_d_varphi" i) with (- (S "s.d_X1c_d_varphi" i * (sG i * spsi i / X1c i))) by lra.
    field. exact Hx.
  Qed.
  Lemma S_d2Y1s i : S "s.d2_Y1s_d_varphi2" i =
    sG i * spsi i * (2 * S "s.d_X1c_d_varphi" i * S "s.d_X1c_d_varphi" i - X1c i * S "s.d2_X1c_d_varphi2" i) / (X1c i * X1c i * X1c i).
  Proof.
    pose proof (X1c_nz i) as Hx. pose proof (R_d2XY i) as E. rewrite S_dY1s, S_Y1s in E.
    apply (Rmult_eq_reg_l (X1c i)); [|exact Hx].
    replace (X1c i * S "s.d2_Y1s_d_varphi2" i) with
      (- (S "s.d2_X1c_d_varphi2" i * (sG i * spsi i / X1c i) + 2 * S "s.d_X1c_d_varphi" i * (- (sG i * spsi i * S "s.d_X1c_d_varphi" i) / (X1c i * X1c i)))) by lra.
    field. exact Hx.
  Qed.
  Lemma S_kap i : kap i = etabar i / X1c i.
  Proof. rewrite <- R_kX. field. apply X1c_nz. Qed.
  Lemma S_dkap i : S "s.d_curvature_d_varphi" i = - (etabar i * S "s.d_X1c_d_varphi" i) / (X1c i * X1c i).
  Proof.
    pose proof (X1c_nz i) as Hx. pose proof (R_dkX i) as E. rewrite S_kap in E.
    apply (Rmult_eq_reg_r (X1c i)); [|exact Hx].
    replace (S "s.d_curvature_d_varphi" i * X1c i) with (- (etabar i / X1c i * S "s.d_X1c_d_varphi" i)) by lra.
    field. exact Hx.
  Qed.
  (* the two algebraic O(r^2) relations in polynomial form *)
  Lemma R_Y2s i : S "s.Y2s" i = sG i * spsi i * (- kap i * / 2)
       + sG i * spsi i * (Y1s i * Y1s i * (- S "s.X2c" i - S "s.X20" i) + Y1s i * Y1c i * S "s.X2s" i).
  Proof.
    rewrite F_Y2s, F_Y1s, F_Y1c. pose proof (adm_eta S Hadm i).
    destruct (pm1 _ (adm_sG S Hadm i)) as [Es|Es]; destruct (pm1 _ (adm_spsi S Hadm i)) as [Ep|Ep]; rewrite Es, Ep; field; assumption.
  Qed.
  Lemma R_Y2c i : S "s.Y2c" i = S "s.Y20" i
       + sG i * spsi i * (Y1s i * Y1s i * S "s.X2s" i + Y1s i * Y1c i * (S "s.X2c" i - S "s.X20" i)).
  Proof.
    rewrite F_Y2c, F_Y1s, F_Y1c. pose proof (adm_eta S Hadm i).
    destruct (pm1 _ (adm_sG S Hadm i)) as [Es|Es]; destruct (pm1 _ (adm_spsi S Hadm i)) as [Ep|Ep]; rewrite Es, Ep; field; assumption.
  Qed.
  Ltac dv_push := dv_push_ O HD.
  Lemma R_dY2s i : S "s.d_Y2s_d_varphi" i = sG i * spsi i * (- S "s.d_curvature_d_varphi" i * / 2)
       + sG i * spsi i * (2 * Y1s i * S "s.d_Y1s_d_varphi" i * (- S "s.X2c" i - S "s.X20" i)
                          + Y1s i * Y1s i * (- S "s.d_X2c_d_varphi" i - S "s.d_X20_d_varphi" i)
                          + S "s.d_Y1s_d_varphi" i * Y1c i * S "s.X2s" i + Y1s i * S "s.d_Y1c_d_varphi" i * S "s.X2s" i
                          + Y1s i * Y1c i * S "s.d_X2s_d_varphi" i).
  Proof.
    rewrite F_dY2s. rewrite (Dv_ext O S _ _ i R_Y2s). dv_push.
    rewrite !(Dv_isconst O HD S sG), !(Dv_isconst O HD S spsi) by (apply (adm_sG_const S Hadm) || apply (adm_spsi_const S Hadm)).
    rewrite F_dkap, F_dY1s, F_dY1c, F_dX2c, F_dX20, F_dX2s. ring.
  Qed.
  Lemma R_dY2c i : S "s.d_Y2c_d_varphi" i = S "s.d_Y20_d_varphi" i
       + sG i * spsi i * (2 * Y1s i * S "s.d_Y1s_d_varphi" i * S "s.X2s" i + Y1s i * Y1s i * S "s.d_X2s_d_varphi" i
                          + S "s.d_Y1s_d_varphi" i * Y1c i * (S "s.X2c" i - S "s.X20" i)
                          + Y1s i * S "s.d_Y1c_d_varphi" i * (S "s.X2c" i - S "s.X20" i)
                          + Y1s i * Y1c i * (S "s.d_X2c_d_varphi" i - S "s.d_X20_d_varphi" i)).
  Proof.
    rewrite F_dY2c. rewrite (Dv_ext O S _ _ i R_Y2c). dv_push.
    rewrite !(Dv_isconst O HD S sG), !(Dv_isconst O HD S spsi) by (apply (adm_sG_const S Hadm) || apply (adm_spsi_const S Hadm)).
    rewrite F_dY20, F_dY1s, F_dY1c, F_dX2c, F_dX20, F_dX2s. ring.
  Qed.

  Lemma sG_nz i : sG i <> 0.
  Proof. intros E. pose proof (adm_sG S Hadm i) as H. rewrite E in H. lra. Qed.
  Lemma spsi_nz i : spsi i <> 0.
  Proof. intros E. pose proof (adm_spsi S Hadm i) as H. rewrite E in H. lra. Qed.
End Facts.

Section Sigma.
  Context {I : Type} (O : ops I) (HD : derivation O) (S VA V1 V2 : string -> I -> R).
  Hypothesis Hadm : admissible S.
  Hypothesis HA : stage O init_axis S VA.
  Hypothesis H1 : stage O r1_diagnostics_h0 S V1 \/ stage O r1_diagnostics_hN S V1.
  Hypothesis H2 : stage O calculate_r2_h0 S V2 \/ stage O calculate_r2_hN S V2.
  Hypothesis Hcst : constants S.
  Variable VR : string -> I -> R.
  Hypothesis HR : stage O residual S VR.
  Hypothesis Hsig : sigma_solved O S VR.
  Set Default Proof Using "All".
  Notation Dv := (Dv O S).
  Notation sG := (S "s.sG"). Notation spsi := (S "s.spsi"). Notation kap := (S "s.curvature").
  Notation etabar := (S "s.etabar"). Notation X1c := (S "s.X1c"). Notation Y1s := (S "s.Y1s"). Notation Y1c := (S "s.Y1c").
  Notation aGB := (S "s.abs_G0_over_B0"). Notation B0 := (S "s.B0").
  Local Notation F_X1c := (F_X1c O HD S VA V1 V2 Hadm HA H1 H2).
  Local Notation F_G0 := (F_G0 O HD S VA V1 V2 Hadm HA H1 H2).
  Local Notation F_dldvp := (F_dldvp O HD S VA V1 V2 Hadm HA H1 H2).
  Local Notation F_absG0 := (F_absG0 O HD S VA V1 V2 Hadm HA H1 H2).
  Local Notation X1c_nz := (X1c_nz O HD S VA V1 V2 Hadm HA H1 H2).
  Local Notation F_Y1s := (F_Y1s O HD S VA V1 V2 Hadm HA H1 H2).
  Local Notation F_Y1c := (F_Y1c O HD S VA V1 V2 Hadm HA H1 H2).
  Local Notation F_dX1c := (F_dX1c O HD S VA V1 V2 Hadm HA H1 H2).
  Local Notation F_dY1s := (F_dY1s O HD S VA V1 V2 Hadm HA H1 H2).
  Local Notation F_dY1c := (F_dY1c O HD S VA V1 V2 Hadm HA H1 H2).
  Local Notation F_dX20 := (F_dX20 O HD S VA V1 V2 Hadm HA H1 H2).
  Local Notation F_dX2s := (F_dX2s O HD S VA V1 V2 Hadm HA H1 H2).
  Local Notation F_dX2c := (F_dX2c O HD S VA V1 V2 Hadm HA H1 H2).
  Local Notation F_dY20 := (F_dY20 O HD S VA V1 V2 Hadm HA H1 H2).
  Local Notation F_dY2s := (F_dY2s O HD S VA V1 V2 Hadm HA H1 H2).
  Local Notation F_dY2c := (F_dY2c O HD S VA V1 V2 Hadm HA H1 H2).
  Local Notation F_dZ20 := (F_dZ20 O HD S VA V1 V2 Hadm HA H1 H2).
  Local Notation F_dZ2s := (F_dZ2s O HD S VA V1 V2 Hadm HA H1 H2).
  Local Notation F_dZ2c := (F_dZ2c O HD S VA V1 V2 Hadm HA H1 H2).
  Local Notation F_dkap := (F_dkap O HD S VA V1 V2 Hadm HA H1 H2).
  Local Notation F_dtau := (F_dtau O HD S VA V1 V2 Hadm HA H1 H2).
  Local Notation F_d2X1c := (F_d2X1c O HD S VA V1 V2 Hadm HA H1 H2).
  Local Notation F_d2Y1s := (F_d2Y1s O HD S VA V1 V2 Hadm HA H1 H2).
  Local Notation F_d2Y1c := (F_d2Y1c O HD S VA V1 V2 Hadm HA H1 H2).
  Local Notation F_Y2s := (F_Y2s O HD S VA V1 V2 Hadm HA H1 H2).
  Local Notation F_Y2c := (F_Y2c O HD S VA V1 V2 Hadm HA H1 H2).
  Local Notation sGspsi_const := (sGspsi_const O HD S VA V1 V2 Hadm HA H1 H2).
  Local Notation R_XY := (R_XY O HD S VA V1 V2 Hadm HA H1 H2).
  Local Notation R_dXY := (R_dXY O HD S VA V1 V2 Hadm HA H1 H2).
  Local Notation R_d2XY := (R_d2XY O HD S VA V1 V2 Hadm HA H1 H2).
  Local Notation R_kX := (R_kX O HD S VA V1 V2 Hadm HA H1 H2).
  Local Notation R_dkX := (R_dkX O HD S VA V1 V2 Hadm HA H1 H2).
  Local Notation S_Y1s := (S_Y1s O HD S VA V1 V2 Hadm HA H1 H2).
  Local Notation S_dY1s := (S_dY1s O HD S VA V1 V2 Hadm HA H1 H2).
  Local Notation S_d2Y1s := (S_d2Y1s O HD S VA V1 V2 Hadm HA H1 H2).
  Local Notation S_kap := (S_kap O HD S VA V1 V2 Hadm HA H1 H2).
  Local Notation S_dkap := (S_dkap O HD S VA V1 V2 Hadm HA H1 H2).
  Local Notation R_Y2s := (R_Y2s O HD S VA V1 V2 Hadm HA H1 H2).
  Local Notation R_Y2c := (R_Y2c O HD S VA V1 V2 Hadm HA H1 H2).
  Local Notation R_dY2s := (R_dY2s O HD S VA V1 V2 Hadm HA H1 H2).
  Local Notation R_dY2c := (R_dY2c O HD S VA V1 V2 Hadm HA H1 H2).
  Local Notation sG_nz := (sG_nz O HD S VA V1 V2 Hadm HA H1 H2).
  Local Notation spsi_nz := (spsi_nz O HD S VA V1 V2 Hadm HA H1 H2).
  Ltac dv_push := dv_push_ O HD.
  Ltac both tac := destruct H2 as [H|H]; [tac calculate_r2_h0 H | tac calculate_r2_hN H].
  Ltac nz := repeat split; first [apply X1c_nz | apply sG_nz | apply spsi_nz | apply (adm_eta S Hadm) | apply (adm_kappa S Hadm)
                                 | apply Rgt_not_eq, (adm_B0 S Hadm) | apply Rgt_not_eq, (adm_lp S Hadm) | lra].
  Ltac fin := rewrite ?F_d2X1c, ?F_d2Y1s, ?F_d2Y1c, ?F_dX1c, ?F_dY1s, ?F_dY1c, ?F_dkap, ?F_dtau; unfold Rdiv; ring.
  Ltac consts2 i :=
    let c1 := fresh "c" in let c2 := fresh "c" in let c3 := fresh "c" in let c4 := fresh "c" in let c5 := fresh "c" in let c6 := fresh "c" in
    let E1 := fresh "E" in let E2 := fresh "E" in let E3 := fresh "E" in let E4 := fresh "E" in let E5 := fresh "E" in let E6 := fresh "E" in
    destruct (adm_sG_const S Hadm) as [c1 E1]; destruct (adm_spsi_const S Hadm) as [c2 E2];
    destruct (cst_B0 S Hcst) as [c3 E3]; destruct (cst_iotaN S Hcst) as [c4 E4];
    destruct (cst_lp S Hcst) as [c5 E5]; destruct (cst_I2 S Hcst) as [c6 E6];
    rewrite ?E1, ?E2, ?E3, ?E4, ?E5, ?E6; cbv beta.
  Lemma F_ebc i : S "s.etabar_squared_over_curvature_squared" i = X1c i * X1c i.
  Proof.
    rewrite F_X1c. rewrite <- (st_agree _ _ _ _ HA "s.etabar_squared_over_curvature_squared" eq_refl).
    unfold_fix O init_axis (st_fix _ _ _ _ HA) "s.etabar_squared_over_curvature_squared".
    loc2attr init_axis HA "curvature" "s.curvature". to_state HA. field. apply (adm_kappa S Hadm).
  Qed.
  Lemma S_sigma i : S "s.sigma" i = sG i * spsi i * Y1c i * X1c i.
  Proof.
    rewrite F_Y1c, F_X1c. pose proof (adm_sG S Hadm i) as Es; pose proof (adm_spsi S Hadm i) as Ep.
    field [Es Ep]. split; [apply (adm_kappa S Hadm)|apply (adm_eta S Hadm)].
  Qed.
  Definition sigE (k : I) : R :=
    sG k * spsi k * (S "s.d_Y1c_d_varphi" k * X1c k + Y1c k * S "s.d_X1c_d_varphi" k)
    + S "s.iotaN" k * (X1c k * X1c k * X1c k * X1c k + 1 + Y1c k * Y1c k * X1c k * X1c k)
    - 2 * X1c k * X1c k * (- spsi k * S "s.torsion" k + S "s.I2" k / B0 k) * sG k * aGB k.
  Lemma R_sig k : sigE k = 0.
  Proof.
    destruct Hsig as (Hxs & Hxi & Hr & Hpin & Hio).
    rewrite <- (Hr k).
    unfold_fixes O residual (st_fix _ _ _ _ HR) ("r" :: "sigma#2" :: "sigma" :: "iota" :: nil)%list.
    rewrite Hxs, Hxi. to_state HR. rewrite Hpin. rewrite <- Hio. rewrite F_ebc, F_G0, (S_sigma k).
    change (o_D O (S "s.sigma") k / S "s.d_varphi_d_phi" k) with (Dv (S "s.sigma") k).
    rewrite (Dv_ext O S _ _ k S_sigma). dv_push.
    rewrite !(Dv_isconst O HD S sG), !(Dv_isconst O HD S spsi) by (apply (adm_sG_const S Hadm) || apply (adm_spsi_const S Hadm)).
    rewrite <- F_dY1c, <- F_dX1c. unfold sigE. pose proof (adm_sG S Hadm k) as Es; pose proof (adm_spsi S Hadm k) as Ep.
    qsimp. field [Es Ep]. apply Rgt_not_eq, (adm_B0 S Hadm).
  Qed.
  Definition sigE2 (k : I) : R :=
    sG k * spsi k * (S "s.d2_Y1c_d_varphi2" k * X1c k + 2 * S "s.d_Y1c_d_varphi" k * S "s.d_X1c_d_varphi" k + Y1c k * S "s.d2_X1c_d_varphi2" k)
    + S "s.iotaN" k * (4 * X1c k * X1c k * X1c k * S "s.d_X1c_d_varphi" k + 2 * Y1c k * S "s.d_Y1c_d_varphi" k * X1c k * X1c k
                       + 2 * Y1c k * Y1c k * X1c k * S "s.d_X1c_d_varphi" k)
    - 2 * sG k * aGB k * (2 * X1c k * S "s.d_X1c_d_varphi" k * (- spsi k * S "s.torsion" k + S "s.I2" k / B0 k)
                          + X1c k * X1c k * (- spsi k * S "s.d_torsion_d_varphi" k)).
  Lemma R_sig2 k : sigE2 k = 0.
  Proof.
    assert (E : Dv sigE k = 0) by (rewrite (Dv_ext O S _ (fun _ => 0) k R_sig); apply (Dv_cst O HD)).
    unfold sigE in E. unfold sigE2. revert E. consts2 k. unfold Rdiv. dv_push. intros HE.
    etransitivity; [|exact HE]. fin.
  Qed.
  Lemma S_dY1c k : S "s.d_Y1c_d_varphi" k =
    (- Y1c k * S "s.d_X1c_d_varphi" k
     - sG k * spsi k * (S "s.iotaN" k * (X1c k * X1c k * X1c k * X1c k + 1 + Y1c k * Y1c k * X1c k * X1c k)
                        - 2 * X1c k * X1c k * (- spsi k * S "s.torsion" k + S "s.I2" k / B0 k) * sG k * aGB k)) / X1c k.
  Proof.
    pose proof (adm_sG S Hadm k) as Es; pose proof (adm_spsi S Hadm k) as Ep.
    match goal with |- _ = ?r => replace (S "s.d_Y1c_d_varphi" k) with (r + sG k * spsi k / X1c k * sigE k) end.
    - rewrite R_sig. ring.
    - unfold sigE. field [Es Ep]. nz.
  Qed.
  Lemma S_d2Y1c k : S "s.d2_Y1c_d_varphi2" k =
    (- (2 * S "s.d_Y1c_d_varphi" k * S "s.d_X1c_d_varphi" k + Y1c k * S "s.d2_X1c_d_varphi2" k)
     - sG k * spsi k * (S "s.iotaN" k * (4 * X1c k * X1c k * X1c k * S "s.d_X1c_d_varphi" k + 2 * Y1c k * S "s.d_Y1c_d_varphi" k * X1c k * X1c k
                                          + 2 * Y1c k * Y1c k * X1c k * S "s.d_X1c_d_varphi" k)
                        - 2 * sG k * aGB k * (2 * X1c k * S "s.d_X1c_d_varphi" k * (- spsi k * S "s.torsion" k + S "s.I2" k / B0 k)
                                              + X1c k * X1c k * (- spsi k * S "s.d_torsion_d_varphi" k)))) / X1c k.
  Proof.
    pose proof (adm_sG S Hadm k) as Es; pose proof (adm_spsi S Hadm k) as Ep.
    match goal with |- _ = ?r => replace (S "s.d2_Y1c_d_varphi2" k) with (r + sG k * spsi k / X1c k * sigE2 k) end.
    - rewrite R_sig2. ring.
    - unfold sigE2. field [Es Ep]. nz.
  Qed.
End Sigma.
