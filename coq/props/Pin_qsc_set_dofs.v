(* Source pin: the hand-written model of qsc/qsc.py:set_dofs was written and validated (correspondence runs evaluated inside Coq, see DESIGN.md 1.1) against the
   source whose normalised syntax tree has this digest (tools/gen_pins.py).  If the function is edited this obligation fails and the check searches
   for a failing input; after re-validating the model against the new source, regenerate with `tools/gen_pins.py --write-props`. *)
From Coq Require Import String.
From QSCGen Require Import G_pins.
Open Scope string_scope.

Lemma pin_qsc_set_dofs_current : pin_qsc_set_dofs = "d58c8428f52ec9186be558da259c73b7ee801b4aead1e5f9d8a9c6b24e4dde9b".
Proof. reflexivity. Qed.
