(* C01 (split for parallel compilation): facts extracted from calculate_r3 (both helicity variants) *)
From Coq Require Import Reals String List Lra Lia QArith Qreals FunctionalExtensionality.
From QSC Require Import Expr Shallow Series.
From QSCGen Require Import G_init_axis G_r1_diagnostics G_residual G_calculate_r2 G_calculate_r3.
From QSCProps Require Import C04_spec C01_spec C01_common.
Open Scope R_scope.
Open Scope string_scope.

Section Facts3s.
  Context {I : Type} (O : ops I) (S : string -> I -> R).
  Ltac prove_r3 P H3 :=
    let HV := fresh "HV" in
    pose proof (st_fix _ _ _ _ H3) as HV;
    constructor;
    [ intros i; from_state H3; unfold_fixes O P HV ("s.X3c1" :: "s.flux_constraint_coefficient" :: nil)%list; reflexivity
    | intros i; from_state H3; unfold_fixes O P HV ("s.Y3c1" :: "s.flux_constraint_coefficient" :: nil)%list; reflexivity
    | intros i; from_state H3; unfold_fixes O P HV ("s.Y3s1" :: "s.flux_constraint_coefficient" :: nil)%list; reflexivity
    | intros i; unfold lam_code; cbv zeta; from_state H3;
      unfold_fixes O P HV ("s.flux_constraint_coefficient" :: "flux_constraint_coefficient" :: "B0" :: "G0" :: "I2" :: "X1c" :: "Y1c" :: "Y1s"
        :: "X20" :: "X2s" :: "X2c" :: "Y20" :: "Y2s" :: "Y2c" :: "Z20" :: "Z2s" :: "Z2c" :: "B20" :: "B1c" :: "B0" :: "torsion"
        :: "abs_G0_over_B0" :: "d_X1c_d_varphi" :: "d_Y1c_d_varphi" :: nil)%list;
      qsimp; unfold Rdiv; ring ].
  Lemma r3_facts_of_stage_h0 V3 : stage O calculate_r3_h0 S V3 -> r3_facts S.
  Proof. intros H3. prove_r3 calculate_r3_h0 H3. Qed.
  Lemma r3_facts_of_stage_hN V3 : stage O calculate_r3_hN S V3 -> r3_facts S.
  Proof. intros H3. prove_r3 calculate_r3_hN H3. Qed.
End Facts3s.
