(* C13: untwisting of the helical-angle harmonics, iotaN, prescribed |B|.
   Every statement is proved for every index type I, every operator structure O (no property of
   O is used: the bindings involved contain no grid operator) and every model V of the program
   generated from the current source (Shallow.is_fix); closed corollaries over runG at the end. *)
From Coq Require Import Reals String List Lra QArith Qreals.
From QSC Require Import Expr Shallow.
From QSCGen Require Import G_r1_diagnostics G_calculate_r2 G_calculate_r3 G_B_mag G_solve_sigma_equation.
From QSCProps Require Import C13_spec.
Open Scope R_scope.
Open Scope string_scope.
Import ListNotations.

Lemma ssa_r1_h0 : ssa r1_diagnostics_h0 = true. Proof. vm_compute. reflexivity. Qed.
Lemma ssa_r1_hN : ssa r1_diagnostics_hN = true. Proof. vm_compute. reflexivity. Qed.
Lemma ssa_r2_h0 : ssa calculate_r2_h0 = true. Proof. vm_compute. reflexivity. Qed.
Lemma ssa_r2_hN : ssa calculate_r2_hN = true. Proof. vm_compute. reflexivity. Qed.
Lemma ssa_r3_h0 : ssa calculate_r3_h0 = true. Proof. vm_compute. reflexivity. Qed.
Lemma ssa_r3_hN : ssa calculate_r3_hN = true. Proof. vm_compute. reflexivity. Qed.
Lemma ssa_B1c : ssa B_mag_r1_cyl = true. Proof. vm_compute. reflexivity. Qed.
Lemma ssa_B1b : ssa B_mag_r1_boozer = true. Proof. vm_compute. reflexivity. Qed.
Lemma ssa_B2c : ssa B_mag_r2_cyl = true. Proof. vm_compute. reflexivity. Qed.
Lemma ssa_B2b : ssa B_mag_r2_boozer = true. Proof. vm_compute. reflexivity. Qed.
Lemma ssa_sig : ssa solve_sigma_equation = true. Proof. vm_compute. reflexivity. Qed.

(* ---- the rotation of one harmonic pair ---- *)
Lemma harm (m a th Ss Sc : R) :
  (Ss * cos (m * a) + Sc * sin (m * a)) * sin (m * th) + (Ss * - sin (m * a) + Sc * cos (m * a)) * cos (m * th)
  = Ss * sin (m * (th - a)) + Sc * cos (m * (th - a)).
Proof. replace (m * (th - a)) with (m * th - m * a) by ring. rewrite sin_minus, cos_minus. ring. Qed.

Lemma harm1 (a th Ss Sc : R) :
  (Ss * cos a + Sc * sin a) * sin (1 * th) + (Ss * - sin a + Sc * cos a) * cos (1 * th)
  = Ss * sin (1 * (th - a)) + Sc * cos (1 * (th - a)).
Proof. pose proof (harm 1 a th Ss Sc) as H. rewrite !Rmult_1_l in *. exact H. Qed.

(* prove [same_harmonic V 1 ..] (sinangle/cosangle) *)
Ltac prove_h1 O P HV us uc :=
  intros theta i; unfold ang;
  unfold_fixes O P HV (us :: uc :: "sinangle" :: "cosangle" :: "angle" :: nil)%list;
  apply harm1.
(* prove [same_harmonic V m ..], m = 2, 3 (the re-bound sinangle#2/cosangle#2) *)
Ltac prove_hm O P HV us uc :=
  intros theta i; unfold ang;
  unfold_fixes O P HV (us :: uc :: "sinangle#2" :: "cosangle#2" :: "angle" :: nil)%list;
  qsimp; apply harm.
Ltac prove_m0 O P HV un := intros i; unfold_fix O P HV un; reflexivity.

(* the (twisted, untwisted) attribute pairs of each order *)
Definition pairs_r1 : list (string * string) :=
  [("s.X1s", "s.X1s_untwisted"); ("s.X1c", "s.X1c_untwisted"); ("s.Y1s", "s.Y1s_untwisted"); ("s.Y1c", "s.Y1c_untwisted")].
Definition pairs_r2 : list (string * string) :=
  [("s.X20", "s.X20_untwisted"); ("s.X2s", "s.X2s_untwisted"); ("s.X2c", "s.X2c_untwisted");
   ("s.Y20", "s.Y20_untwisted"); ("s.Y2s", "s.Y2s_untwisted"); ("s.Y2c", "s.Y2c_untwisted");
   ("s.Z20", "s.Z20_untwisted"); ("s.Z2s", "s.Z2s_untwisted"); ("s.Z2c", "s.Z2c_untwisted")].
Definition pairs_r3 : list (string * string) :=
  [("s.X3s1", "s.X3s1_untwisted"); ("s.X3c1", "s.X3c1_untwisted"); ("s.X3s3", "s.X3s3_untwisted"); ("s.X3c3", "s.X3c3_untwisted");
   ("s.Y3s1", "s.Y3s1_untwisted"); ("s.Y3c1", "s.Y3c1_untwisted"); ("s.Y3s3", "s.Y3s3_untwisted"); ("s.Y3c3", "s.Y3c3_untwisted");
   ("s.Z3s1", "s.Z3s1_untwisted"); ("s.Z3c1", "s.Z3c1_untwisted"); ("s.Z3s3", "s.Z3s3_untwisted"); ("s.Z3c3", "s.Z3c3_untwisted")].

Ltac prove_id O P HV V prs :=
  intros a u i Hin; unfold prs in Hin; cbn [In] in Hin;
  repeat (destruct Hin as [Hin|Hin];
          [injection Hin as <- <-;
           lazymatch goal with |- V ?x _ = _ => unfold_fix O P HV x end; reflexivity|]);
  destruct Hin.

Ltac prove_B O P HV l :=
  intros i; unfold Bspec; cbv beta;
  unfold_fixes O P HV l;
  qsimp; ring.

Section Proofs.
  Context {I : Type} (O : ops I) (V : string -> I -> R).

  (* ---------------- T1: untwisting, helical axes ---------------- *)
  Theorem C13_untwist_r1 : is_fix O r1_diagnostics_hN V -> untwist_r1 V.
  Proof.
    intros HV. unfold untwist_r1, same_harmonic. split.
    - prove_h1 O r1_diagnostics_hN HV "s.X1s_untwisted" "s.X1c_untwisted".
    - prove_h1 O r1_diagnostics_hN HV "s.Y1s_untwisted" "s.Y1c_untwisted".
  Qed.

  Theorem C13_untwist_r2 : is_fix O calculate_r2_hN V -> untwist_r2 V.
  Proof.
    intros HV. unfold untwist_r2, same_harmonic, same_m0. repeat split.
    - prove_m0 O calculate_r2_hN HV "s.X20_untwisted".
    - prove_m0 O calculate_r2_hN HV "s.Y20_untwisted".
    - prove_m0 O calculate_r2_hN HV "s.Z20_untwisted".
    - prove_hm O calculate_r2_hN HV "s.X2s_untwisted" "s.X2c_untwisted".
    - prove_hm O calculate_r2_hN HV "s.Y2s_untwisted" "s.Y2c_untwisted".
    - prove_hm O calculate_r2_hN HV "s.Z2s_untwisted" "s.Z2c_untwisted".
  Qed.

  Theorem C13_untwist_r3 : is_fix O calculate_r3_hN V -> untwist_r3 V.
  Proof.
    intros HV. unfold untwist_r3, same_harmonic. repeat split.
    - prove_h1 O calculate_r3_hN HV "s.X3s1_untwisted" "s.X3c1_untwisted".
    - prove_h1 O calculate_r3_hN HV "s.Y3s1_untwisted" "s.Y3c1_untwisted".
    - prove_h1 O calculate_r3_hN HV "s.Z3s1_untwisted" "s.Z3c1_untwisted".
    - prove_hm O calculate_r3_hN HV "s.X3s3_untwisted" "s.X3c3_untwisted".
    - prove_hm O calculate_r3_hN HV "s.Y3s3_untwisted" "s.Y3c3_untwisted".
    - prove_hm O calculate_r3_hN HV "s.Z3s3_untwisted" "s.Z3c3_untwisted".
  Qed.

  (* ---------------- T2: helicity = 0, untwisting is the identity ---------------- *)
  Theorem C13_untwist_id_r1 : is_fix O r1_diagnostics_h0 V -> untwist_id V pairs_r1.
  Proof. intros HV. unfold untwist_id. prove_id O r1_diagnostics_h0 HV V pairs_r1. Qed.
  Theorem C13_untwist_id_r2 : is_fix O calculate_r2_h0 V -> untwist_id V pairs_r2.
  Proof. intros HV. unfold untwist_id. prove_id O calculate_r2_h0 HV V pairs_r2. Qed.
  Theorem C13_untwist_id_r3 : is_fix O calculate_r3_h0 V -> untwist_id V pairs_r3.
  Proof. intros HV. unfold untwist_id. prove_id O calculate_r3_h0 HV V pairs_r3. Qed.

  (* ---------------- T3: B_mag returns the prescribed |B| ---------------- *)
  Theorem C13_bmag_r1_cyl : is_fix O B_mag_r1_cyl V -> bmag_is_prescribed V false false.
  Proof. intros HV. unfold bmag_is_prescribed. prove_B O B_mag_r1_cyl HV ("s.ret" :: "B" :: "thetaN" :: nil)%list. Qed.
  Theorem C13_bmag_r1_boozer : is_fix O B_mag_r1_boozer V -> bmag_is_prescribed V false true.
  Proof. intros HV. unfold bmag_is_prescribed. prove_B O B_mag_r1_boozer HV ("s.ret" :: "B" :: "thetaN" :: nil)%list. Qed.
  Theorem C13_bmag_r2_cyl : is_fix O B_mag_r2_cyl V -> bmag_is_prescribed V true false.
  Proof. intros HV. unfold bmag_is_prescribed. prove_B O B_mag_r2_cyl HV ("s.ret" :: "B#2" :: "B" :: "thetaN" :: nil)%list. Qed.
  Theorem C13_bmag_r2_boozer : is_fix O B_mag_r2_boozer V -> bmag_is_prescribed V true true.
  Proof. intros HV. unfold bmag_is_prescribed. prove_B O B_mag_r2_boozer HV ("s.ret" :: "B#2" :: "B" :: "thetaN" :: nil)%list. Qed.

  (* ---------------- iotaN (glue of solve_sigma_equation) ---------------- *)
  Theorem C13_iotaN : is_fix O solve_sigma_equation V ->
    forall i, V "s.iotaN" i = V "s.iota" i + V "s.helicity" i * V "s.nfp" i.
  Proof. intros HV i. unfold_fix O solve_sigma_equation HV "s.iotaN". reflexivity. Qed.
End Proofs.

(* ---------------- T4: the cylindrical and Boozer entry points agree ---------------- *)
(* inputs of B_mag other than phi_arg / nu_at_phi.  ("s.ret" is an attribute NAME too, so agreement is
   stated on this explicit list of READ names, not on all attributes, which would make T4 vacuous.) *)
Definition bmag_inputs : list string :=
  ["s.iota"; "s.iotaN"; "s.B0"; "s.etabar"; "s.B2c"; "s.B2s"; "r"; "theta"; "B20_at_phi"].

Section CylBoozer.
  Context {I : Type} (O : ops I) (Vc Vb : string -> I -> R).
  Hypothesis Hin : forall x, In x bmag_inputs -> Vb x = Vc x.
  Hypothesis Hphi : forall i, Vb "phi_arg" i = Vc "phi_arg" i + Vc "nu_at_phi" i.

  Ltac rw_in :=
    rewrite ?(Hin "s.iota"), ?(Hin "s.iotaN"), ?(Hin "s.B0"), ?(Hin "s.etabar"), ?(Hin "s.B2c"), ?(Hin "s.B2s"),
            ?(Hin "r"), ?(Hin "theta"), ?(Hin "B20_at_phi") by (unfold bmag_inputs; cbn [In]; tauto).

  Theorem C13_cyl_boozer_r2 : is_fix O B_mag_r2_cyl Vc -> is_fix O B_mag_r2_boozer Vb ->
    forall i, Vb "s.ret" i = Vc "s.ret" i.
  Proof.
    intros Hc Hb i.
    rewrite (C13_bmag_r2_cyl O Vc Hc i), (C13_bmag_r2_boozer O Vb Hb i).
    unfold Bspec. cbv beta. rw_in. rewrite Hphi. reflexivity.
  Qed.

  Theorem C13_cyl_boozer_r1 : is_fix O B_mag_r1_cyl Vc -> is_fix O B_mag_r1_boozer Vb ->
    forall i, Vb "s.ret" i = Vc "s.ret" i.
  Proof.
    intros Hc Hb i.
    rewrite (C13_bmag_r1_cyl O Vc Hc i), (C13_bmag_r1_boozer O Vb Hb i).
    unfold Bspec. cbv beta. rw_in. rewrite Hphi. reflexivity.
  Qed.
End CylBoozer.

(* ---------------- the helical angle of B_mag is the untwisting angle ----------------
   With iotaN = iota + helicity*nfp (solve_sigma_equation) on the shared object state S, the angle thetaN used
   by B_mag is  theta + helicity*nfp*varphi_pos,  i.e.  theta - ang  with ang the angle of the untwisting
   evaluated at the Boozer toroidal position. *)
Section ThetaN.
  Context {I : Type} (O : ops I) (S Vs V : string -> I -> R).
  Hypothesis Hs : stage O solve_sigma_equation S Vs.

  Lemma state_iotaN : forall i, S "s.iotaN" i = S "s.iota" i + S "s.helicity" i * S "s.nfp" i.
  Proof.
    intros i. pose proof (C13_iotaN O Vs (st_fix _ _ _ _ Hs) i) as H.
    rewrite (st_agree _ _ _ _ Hs "s.iotaN" eq_refl), (st_agree _ _ _ _ Hs "s.iota" eq_refl),
            (st_agree _ _ _ _ Hs "s.helicity" eq_refl), (st_agree _ _ _ _ Hs "s.nfp" eq_refl) in H. exact H.
  Qed.

  Theorem C13_thetaN_boozer : stage O B_mag_r2_boozer S V ->
    forall i, V "thetaN" i = V "theta" i + S "s.helicity" i * S "s.nfp" i * V "phi_arg" i.
  Proof.
    intros HB i. pose proof (st_fix _ _ _ _ HB) as HV.
    unfold_fix O B_mag_r2_boozer HV "thetaN". to_state HB. rewrite state_iotaN. ring.
  Qed.

  Theorem C13_thetaN_cyl : stage O B_mag_r2_cyl S V ->
    forall i, V "thetaN" i = V "theta" i + S "s.helicity" i * S "s.nfp" i * (V "phi_arg" i + V "nu_at_phi" i).
  Proof.
    intros HB i. pose proof (st_fix _ _ _ _ HB) as HV.
    unfold_fix O B_mag_r2_cyl HV "thetaN". to_state HB. rewrite state_iotaN. ring.
  Qed.
End ThetaN.

(* ---------------- closed statements over actual runs ---------------- *)
Definition on_runs (P : prog) (Q : forall I : Type, (string -> I -> R) -> Prop) : Prop :=
  forall (I : Type) (O : ops I) (rho : @envG I), Q I (runG O P rho).

Theorem C13_run_untwist_r1 : on_runs r1_diagnostics_hN (fun I V => untwist_r1 V).
Proof. intros I O rho. apply (C13_untwist_r1 O). apply runG_is_fix, ssa_r1_hN. Qed.
Theorem C13_run_untwist_r2 : on_runs calculate_r2_hN (fun I V => untwist_r2 V).
Proof. intros I O rho. apply (C13_untwist_r2 O). apply runG_is_fix, ssa_r2_hN. Qed.
Theorem C13_run_untwist_r3 : on_runs calculate_r3_hN (fun I V => untwist_r3 V).
Proof. intros I O rho. apply (C13_untwist_r3 O). apply runG_is_fix, ssa_r3_hN. Qed.
Theorem C13_run_untwist_id_r1 : on_runs r1_diagnostics_h0 (fun I V => untwist_id V pairs_r1).
Proof. intros I O rho. apply (C13_untwist_id_r1 O). apply runG_is_fix, ssa_r1_h0. Qed.
Theorem C13_run_untwist_id_r2 : on_runs calculate_r2_h0 (fun I V => untwist_id V pairs_r2).
Proof. intros I O rho. apply (C13_untwist_id_r2 O). apply runG_is_fix, ssa_r2_h0. Qed.
Theorem C13_run_untwist_id_r3 : on_runs calculate_r3_h0 (fun I V => untwist_id V pairs_r3).
Proof. intros I O rho. apply (C13_untwist_id_r3 O). apply runG_is_fix, ssa_r3_h0. Qed.
Theorem C13_run_bmag_r1_cyl : on_runs B_mag_r1_cyl (fun I V => bmag_is_prescribed V false false).
Proof. intros I O rho. apply (C13_bmag_r1_cyl O). apply runG_is_fix, ssa_B1c. Qed.
Theorem C13_run_bmag_r1_boozer : on_runs B_mag_r1_boozer (fun I V => bmag_is_prescribed V false true).
Proof. intros I O rho. apply (C13_bmag_r1_boozer O). apply runG_is_fix, ssa_B1b. Qed.
Theorem C13_run_bmag_r2_cyl : on_runs B_mag_r2_cyl (fun I V => bmag_is_prescribed V true false).
Proof. intros I O rho. apply (C13_bmag_r2_cyl O). apply runG_is_fix, ssa_B2c. Qed.
Theorem C13_run_bmag_r2_boozer : on_runs B_mag_r2_boozer (fun I V => bmag_is_prescribed V true true).
Proof. intros I O rho. apply (C13_bmag_r2_boozer O). apply runG_is_fix, ssa_B2b. Qed.

Print Assumptions C13_run_untwist_r1.
Print Assumptions C13_run_untwist_r2.
Print Assumptions C13_run_untwist_r3.
Print Assumptions C13_run_untwist_id_r1.
Print Assumptions C13_run_untwist_id_r2.
Print Assumptions C13_run_untwist_id_r3.
Print Assumptions C13_run_bmag_r1_cyl.
Print Assumptions C13_run_bmag_r1_boozer.
Print Assumptions C13_run_bmag_r2_cyl.
Print Assumptions C13_run_bmag_r2_boozer.
Print Assumptions C13_cyl_boozer_r2.
Print Assumptions C13_cyl_boozer_r1.
Print Assumptions C13_iotaN.
Print Assumptions C13_thetaN_boozer.
Print Assumptions C13_thetaN_cyl.
