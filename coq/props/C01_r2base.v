(* C01 (split for parallel compilation): second order: Z2 formulas, the first-order solution in compact form, the record [cfacts] and the tactics used by the claim files *)
From Coq Require Import Reals String List Lra Lia QArith Qreals FunctionalExtensionality.
From QSC Require Import Expr Shallow Series.
From QSCGen Require Import G_init_axis G_r1_diagnostics G_residual G_calculate_r2 G_calculate_r3.
From QSCProps Require Import C04_spec C01_spec C01_common C01_r1.
Open Scope R_scope.
Open Scope string_scope.

(* Second order: claims *)
Section R2.
  Context {I : Type} (O : ops I) (S : string -> I -> R).
  Hypothesis HD : derivation O.
  Hypothesis HA : axis_facts S.
  Hypothesis HR : r1_facts O S.
  Hypothesis H2 : r2_facts O S.
  Hypothesis Hadm : admissible S.
  Hypothesis Hsig : forall i, sigma_residual O S i = 0.
  Let HL : linear O := der_lin O HD.

  Notation kap := (S "s.curvature"). Notation eta := (S "s.etabar"). Notation sig := (S "s.sigma").
  Notation sG := (S "s.sG"). Notation spsi := (S "s.spsi"). Notation lp := (S "s.abs_G0_over_B0").
  Notation B0 := (S "s.B0"). Notation iotaN := (S "s.iotaN"). Notation tau := (S "s.torsion").
  Notation X1c := (S "s.X1c"). Notation Y1c := (S "s.Y1c"). Notation Y1s := (S "s.Y1s").
  Notation dX1c := (S "s.d_X1c_d_varphi"). Notation dY1c := (S "s.d_Y1c_d_varphi"). Notation dY1s := (S "s.d_Y1s_d_varphi").

  Ltac sign_cases i :=
    let HsG := fresh "HsG" in let Hsp := fresh "Hsp" in
    destruct (sq1_cases _ (adm_sG S Hadm i)) as [HsG|HsG];
    destruct (sq1_cases _ (adm_spsi S Hadm i)) as [Hsp|Hsp];
    rewrite ?HsG, ?Hsp.
  Ltac nonzero i :=
    pose proof (adm_eta S Hadm i); pose proof (adm_kappa S Hadm i);
    pose proof (Rgt_not_eq _ _ (adm_B0 S Hadm i)); pose proof (Rgt_not_eq _ _ (adm_lp S Hadm i));
    pose proof (adm_dvp S Hadm i).

  Lemma bl_lp i : bl S i = / lp i.
  Proof.
    unfold bl. rewrite (ax_G0 S HA). cbv beta.
    pose proof (adm_B0 S Hadm i) as Hb. pose proof (adm_lp S Hadm i) as Hl.
    rewrite !Rabs_mult, (Rabs_pos_eq (lp i)), (Rabs_pos_eq (B0 i)) by lra.
    assert (Hs : Rabs (sG i) = 1).
    { destruct (sq1_cases _ (adm_sG S Hadm i)) as [E|E]; rewrite E; unfold Rabs; destruct Rcase_abs; lra. }
    rewrite Hs. field. split; lra.
  Qed.
  Lemma ll_lp i : ll S i = lp i.
  Proof. unfold ll. rewrite bl_lp. pose proof (adm_lp S Hadm i). field. lra. Qed.

  Lemma Z20_formula i : S "s.Z20" i = - / lp i / 8 * (2 * (X1c i * dX1c i + Y1c i * dY1c i + Y1s i * dY1s i)).
  Proof.
    rewrite (r2_Z20 O S H2), bl_lp, (r1_dX1c O S HR), (r1_dY1c O S HR), (r1_dY1s O S HR). unfold Dv.
    rewrite !(D_add O HL), !(D_mul O HD). nonzero i. field. split; assumption.
  Qed.
  Lemma Z2s_formula i : S "s.Z2s" i = - / lp i / 8 * (2 * (dY1s i * Y1c i + Y1s i * dY1c i)
                                     - 2 * iotaN i * (X1c i * X1c i + Y1c i * Y1c i - Y1s i * Y1s i)).
  Proof.
    rewrite (r2_Z2s O S H2), bl_lp, (r1_dY1c O S HR), (r1_dY1s O S HR). unfold Dv.
    rewrite (D_mul O HD (fun k => 2 * Y1s k) Y1c i), (D_scal O HL 2 Y1s i). nonzero i. field. split; assumption.
  Qed.
  Lemma Z2c_formula i : S "s.Z2c" i = - / lp i / 8 * (2 * (X1c i * dX1c i + Y1c i * dY1c i - Y1s i * dY1s i)
                                     + 2 * iotaN i * (2 * Y1s i * Y1c i)).
  Proof.
    rewrite (r2_Z2c O S H2), bl_lp, (r1_dX1c O S HR), (r1_dY1c O S HR), (r1_dY1s O S HR). unfold Dv.
    rewrite (D_sub O HL), !(D_add O HL), !(D_mul O HD). nonzero i. field. split; assumption.
  Qed.

  Section Point.
    Variable i : I.
  (* the first-order solution re-expressed with X1c, Y1c, d X1c as the independent atoms *)
    Lemma X1c_nz : X1c i <> 0.
    Proof. rewrite (ax_X1c S HA). nonzero i. unfold Rdiv. apply Rmult_integral_contrapositive_currified; [assumption|apply Rinv_neq_0_compat; assumption]. Qed.
    Lemma Y1s_x : Y1s i = sG i * spsi i / X1c i.
    Proof. rewrite (ax_X1c S HA), (r1_Y1s O S HR). nonzero i. field. split; assumption. Qed.
    Lemma eta_x : eta i = kap i * X1c i.
    Proof. rewrite (ax_X1c S HA). nonzero i. field. assumption. Qed.
    Lemma sig_x : sig i = Y1c i * X1c i * (sG i * spsi i).
    Proof. rewrite (ax_X1c S HA), (r1_Y1c O S HR). nonzero i. sign_cases i; field; split; assumption. Qed.
    Lemma dY1s_x : dY1s i = - dX1c i * (sG i * spsi i) / (X1c i * X1c i).
    Proof.
      rewrite (dX1c_formula O S HD HA HR Hadm), (dY1s_formula O S HD HR Hadm), (ax_X1c S HA). nonzero i.
      field. split; assumption.
    Qed.
    Lemma dY1c_x : dY1c i = (2 * S "s.I2" i * lp i * X1c i * Y1s i / (spsi i * B0 i)
                             - 2 * lp i * tau i * X1c i * Y1s i
                             - iotaN i * (X1c i * X1c i + Y1s i * Y1s i + Y1c i * Y1c i) + dY1s i * Y1c i) / Y1s i.
    Proof.
      pose proof (pol3_avg_identity O S HD HA HR Hadm i (atoms_of S i)) as K. rewrite Hsig, Rmult_0_r in K.
      unfold with_first_order, atoms_of in K. cbv -[Rplus Rmult Ropp Rinv Rminus Rdiv IZR pow o_D Dv sigma_residual] in K.
      nonzero i. pose proof X1c_nz as Hx.
      assert (Hy : Y1s i <> 0).
      { rewrite Y1s_x. sign_cases i; unfold Rdiv; apply Rmult_integral_contrapositive_currified; try lra; apply Rinv_neq_0_compat; assumption. }
      assert (Hp : spsi i <> 0) by (intros E; pose proof (adm_spsi S Hadm i) as Q; rewrite E in Q; lra).
      match type of K with ?L = 0 =>
        assert (E : (dY1c i - (2 * S "s.I2" i * lp i * X1c i * Y1s i / (spsi i * B0 i)
                             - 2 * lp i * tau i * X1c i * Y1s i
                             - iotaN i * (X1c i * X1c i + Y1s i * Y1s i + Y1c i * Y1c i) + dY1s i * Y1c i) / Y1s i)
                    * (spsi i * B0 i * Y1s i / 2) = L) by (field; repeat split; assumption)
      end.
      rewrite K in E. apply Rmult_integral in E. destruct E as [E|E]; [lra|].
      exfalso. assert (spsi i * B0 i * Y1s i <> 0) by (repeat apply Rmult_integral_contrapositive_currified; assumption). lra.
    Qed.

    Notation ss := (S "s.sG" i * S "s.spsi" i).
    Notation x := (S "s.X1c" i). Notation c := (S "s.Y1c" i). Notation dx := (S "s.d_X1c_d_varphi" i).
    Lemma Y1s_nz : Y1s i <> 0.
    Proof.
      pose proof X1c_nz. rewrite Y1s_x.
      sign_cases i; unfold Rdiv; apply Rmult_integral_contrapositive_currified; try lra; apply Rinv_neq_0_compat; assumption.
    Qed.
    (* compact forms (sympy) of dY1c, Z2*, Y2* in the independent atoms x = X1c, c = Y1c, dx = dX1c *)
    Lemma dY1c_c : dY1c i = - ss * iotaN i * (x ^ 4 + x * x * c * c + 1) / x - 2 * x * lp i * tau i - c * dx / x
                            + 2 * S "s.I2" i * x * lp i * spsi i / B0 i.
    Proof.
      rewrite dY1c_x, dY1s_x, Y1s_x. nonzero i. pose proof X1c_nz.
      sign_cases i; field; repeat split; try assumption; lra.
    Qed.
    Lemma Z20_c : S "s.Z20" i = ss * iotaN i * x * c * (x * x + c * c) / (4 * lp i) + x * c * tau i / 2 - x * dx / (4 * lp i)
          + c * c * dx / (4 * x * lp i) + ss * c * iotaN i / (4 * x * lp i) + dx / (4 * x ^ 3 * lp i)
          - S "s.I2" i * x * c * spsi i / (2 * B0 i).
    Proof.
      rewrite Z20_formula, dY1c_c, dY1s_x, Y1s_x. nonzero i. pose proof X1c_nz.
      sign_cases i; field; repeat split; try assumption; lra.
    Qed.
    Lemma Z2c_c : S "s.Z2c" i = ss * iotaN i * x * c * (x * x + c * c) / (4 * lp i) + x * c * tau i / 2 - x * dx / (4 * lp i)
          + c * c * dx / (4 * x * lp i) - ss * c * iotaN i / (4 * x * lp i) - dx / (4 * x ^ 3 * lp i)
          - S "s.I2" i * x * c * spsi i / (2 * B0 i).
    Proof.
      rewrite Z2c_formula, dY1c_c, dY1s_x, Y1s_x. nonzero i. pose proof X1c_nz.
      sign_cases i; field; repeat split; try assumption; lra.
    Qed.
    Lemma Z2s_c : S "s.Z2s" i = iotaN i * (x * x + c * c) / (2 * lp i) + ss * tau i / 2 + c * dx * ss / (2 * x * x * lp i)
          - S "s.I2" i * ss * spsi i / (2 * B0 i).
    Proof.
      rewrite Z2s_formula, dY1c_c, dY1s_x, Y1s_x. nonzero i. pose proof X1c_nz.
      sign_cases i; field; repeat split; try assumption; lra.
    Qed.
    Lemma Y2s_c : S "s.Y2s" i = - ss * kap i / 2 - ss * (S "s.X2c" i + S "s.X20" i) / (x * x) + S "s.X2s" i * c / x.
    Proof.
      rewrite (r2_Y2s O S H2). unfold alg_Y2s. rewrite sig_x, eta_x. nonzero i. pose proof X1c_nz.
      sign_cases i; field; repeat split; try assumption; lra.
    Qed.
    Lemma Y2c_c : S "s.Y2c" i = ss * S "s.X2s" i / (x * x) + S "s.X2c" i * c / x - c * S "s.X20" i / x + S "s.Y20" i.
    Proof.
      rewrite (r2_Y2c O S H2). unfold alg_Y2c. rewrite sig_x, eta_x. nonzero i. pose proof X1c_nz.
      sign_cases i; field; repeat split; try assumption; lra.
    Qed.

    (* everything the order-r2 / r3 claim files need about grid point i, in one record *)
    Record cfacts : Prop := {
      cf_x : X1c i <> 0;
      cf_bl : bl S i = / lp i;
      cf_ll : ll S i = lp i;
      cf_Z20f : S "s.Z20" i = - / lp i / 8 * (2 * (X1c i * dX1c i + Y1c i * dY1c i + Y1s i * dY1s i));
      cf_Z2sf : S "s.Z2s" i = - / lp i / 8 * (2 * (dY1s i * Y1c i + Y1s i * dY1c i)
                                     - 2 * iotaN i * (X1c i * X1c i + Y1c i * Y1c i - Y1s i * Y1s i));
      cf_Z2cf : S "s.Z2c" i = - / lp i / 8 * (2 * (X1c i * dX1c i + Y1c i * dY1c i - Y1s i * dY1s i)
                                     + 2 * iotaN i * (2 * Y1s i * Y1c i));
      cf_Y2s : S "s.Y2s" i = - ss * kap i / 2 - ss * (S "s.X2c" i + S "s.X20" i) / (x * x) + S "s.X2s" i * c / x;
      cf_Y2c : S "s.Y2c" i = ss * S "s.X2s" i / (x * x) + S "s.X2c" i * c / x - c * S "s.X20" i / x + S "s.Y20" i;
      cf_Z20 : S "s.Z20" i = ss * iotaN i * x * c * (x * x + c * c) / (4 * lp i) + x * c * tau i / 2 - x * dx / (4 * lp i)
          + c * c * dx / (4 * x * lp i) + ss * c * iotaN i / (4 * x * lp i) + dx / (4 * x ^ 3 * lp i)
          - S "s.I2" i * x * c * spsi i / (2 * B0 i);
      cf_Z2s : S "s.Z2s" i = iotaN i * (x * x + c * c) / (2 * lp i) + ss * tau i / 2 + c * dx * ss / (2 * x * x * lp i)
          - S "s.I2" i * ss * spsi i / (2 * B0 i);
      cf_Z2c : S "s.Z2c" i = ss * iotaN i * x * c * (x * x + c * c) / (4 * lp i) + x * c * tau i / 2 - x * dx / (4 * lp i)
          + c * c * dx / (4 * x * lp i) - ss * c * iotaN i / (4 * x * lp i) - dx / (4 * x ^ 3 * lp i)
          - S "s.I2" i * x * c * spsi i / (2 * B0 i);
      cf_dY1c : dY1c i = - ss * iotaN i * (x ^ 4 + x * x * c * c + 1) / x - 2 * x * lp i * tau i - c * dx / x
                            + 2 * S "s.I2" i * x * lp i * spsi i / B0 i;
      cf_dY1s : dY1s i = - dX1c i * (sG i * spsi i) / (X1c i * X1c i);
      cf_Y1s : Y1s i = sG i * spsi i / X1c i;
      cf_eta : eta i = kap i * X1c i;
      cf_G0 : S "s.G0" i = sG i * lp i * B0 i;
      cf_K : tavg (pol (with_first_order S i (atoms_of S i)) 3%nat) = 0
    }.
    Lemma cfacts_hold : cfacts.
    Proof.
      constructor;
        [ apply X1c_nz | apply bl_lp | apply ll_lp | apply Z20_formula | apply Z2s_formula | apply Z2c_formula
        | apply Y2s_c | apply Y2c_c | apply Z20_c | apply Z2s_c | apply Z2c_c | apply dY1c_c | apply dY1s_x | apply Y1s_x | apply eta_x
        | rewrite (ax_G0 S HA); reflexivity
        | rewrite (pol3_avg_identity O S HD HA HR Hadm i (atoms_of S i)), Hsig; ring ].
    Qed.
  End Point.
End R2.

(* ---- tactics shared by the claim files.  CF : cfacts S i ---- *)
Ltac nonzero_at S Hadm i :=
  pose proof (adm_eta S Hadm i); pose proof (adm_kappa S Hadm i);
  pose proof (Rgt_not_eq _ _ (adm_B0 S Hadm i)); pose proof (Rgt_not_eq _ _ (adm_lp S Hadm i));
  pose proof (adm_dvp S Hadm i).
Ltac start_at S Hadm CF i b := destruct b; unfold with_second_order, atoms_of; nonzero_at S Hadm i; pose proof (cf_x _ _ CF).
Ltac split_coefs := compute_coef; repeat first [apply Forall_nil | apply Forall_cons | split]; cbn [fst snd cv]; try reflexivity.
Ltac dsigns_at S Hadm i :=
  let HsG := fresh "HsG" in let Hsp := fresh "Hsp" in
  destruct (sq1_cases _ (adm_sG S Hadm i)) as [HsG|HsG]; destruct (sq1_cases _ (adm_spsi S Hadm i)) as [Hsp|Hsp].
Ltac fin_at S i := abs_atoms S i; subst; field; repeat split; assumption.
Ltac solve_all :=
  repeat first [apply Forall_nil | apply Forall_cons | split]; cbn [fst snd cv]; try reflexivity;
  field; repeat split; assumption.
Ltac pose_Z CF := pose proof (cf_Z20f _ _ CF) as EZ0; pose proof (cf_Z2sf _ _ CF) as EZs; pose proof (cf_Z2cf _ _ CF) as EZc.
(* facts in the compact parametrisation *)
Ltac pose_common CF :=
  pose proof (cf_Y2s _ _ CF) as EY2s; pose proof (cf_Y2c _ _ CF) as EY2c; pose proof (cf_Z20 _ _ CF) as EZ0;
  pose proof (cf_Z2s _ _ CF) as EZs; pose proof (cf_Z2c _ _ CF) as EZc;
  pose proof (cf_dY1c _ _ CF) as EdY1c; pose proof (cf_dY1s _ _ CF) as EdY1s; pose proof (cf_Y1s _ _ CF) as EY1s;
  pose proof (cf_eta _ _ CF) as Eeta; pose proof (cf_G0 _ _ CF) as EG0.
Ltac prep_q O S HR CF E :=
  unfold q_c, q_s, r_c, r_s in E; rewrite ?(cf_ll _ _ CF), ?(cf_bl _ _ CF) in E;
  rewrite <- ?(r1_dX1c O S HR), <- ?(r1_dY1c O S HR), <- ?(r1_dY1s O S HR) in E.
