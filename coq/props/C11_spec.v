(* C11 (algebraic clauses): Mercier terms.  VM is a model of the program regenerated from mercier(). *)
From Coq Require Import Reals String List.
From QSC Require Import Expr Shallow.
From QSCGen Require Import G_mercier.
Open Scope R_scope.
Open Scope string_scope.

Section Spec.
  Context {I : Type} (O : ops I) (VM : string -> I -> R).
  Definition merc_sum : Prop := forall i, VM "s.DMerc_times_r2" i = VM "s.DWell_times_r2" i + VM "s.DGeod_times_r2" i.
  (* DWell in closed form in V'' (= d2_volume_d_psi2) and p2 *)
  Definition well_closed : Prop := forall i,
    VM "s.DWell_times_r2" i =
      (mu0R * VM "s.p2" i * Rabs (VM "s.G0" i) / (8 * PI * PI * PI * PI * VM "s.B0" i * VM "s.B0" i * VM "s.B0" i))
      * (VM "s.d2_volume_d_psi2" i - 8 * PI * PI * mu0R * VM "s.p2" i * Rabs (VM "s.G0" i)
                                      / (VM "s.B0" i * VM "s.B0" i * VM "s.B0" i * VM "s.B0" i * VM "s.B0" i)).
  Definition vanish_without_pressure : Prop := forall i, VM "s.p2" i = 0 ->
    VM "s.DWell_times_r2" i = 0 /\ VM "s.DGeod_times_r2" i = 0 /\ VM "s.DMerc_times_r2" i = 0.
  (* the reported V'' in closed form *)
  Definition V2_closed : Prop := forall i,
    VM "s.d2_volume_d_psi2" i = 4 * PI * PI * Rabs (VM "s.G0" i) / (VM "s.B0" i * VM "s.B0" i * VM "s.B0" i)
      * (3 * VM "s.etabar" i * VM "s.etabar" i - 4 * VM "s.B20_mean" i / VM "s.B0" i
         + 2 * (VM "s.G2" i + VM "s.iota" i * VM "s.I2" i) / VM "s.G0" i).
End Spec.

(* DGeod <= 0 on the discrete grid *)
Section Geod.
  Variable n : nat. Variable Dm : nat -> nat -> R. Variable fmin : (nat -> R) -> R.
  Variable VM : string -> nat -> R.
  Definition geod_nonpositive : Prop :=
    (forall j, 0 < VM "s.d_l_d_phi" j) -> (forall j, VM "s.etabar" j <> 0) ->
    (forall j, 0 < VM "s.d_phi" j) -> (forall j, 0 < VM "s.nfp" j) -> (forall j, 0 < VM "s.axis_length" j) ->
    (forall j, VM "s.B0" j <> 0) -> (forall j, VM "s.iotaN" j <> 0) ->
    forall i, VM "s.DGeod_times_r2" i <= 0.
End Geod.
(* Theorems (props/C11.v): is_fix O mercier VM -> merc_sum, well_closed, vanish_without_pressure, V2_closed;
   is_fix (disc_ops n Dm fmin) mercier VM -> geod_nonpositive VM  (hint: gsum of a non-negative function is >= 0 -- prove that lemma;
   the integrand is d_l_d_phi * (sum of squares)/(sum of squares with a strictly positive term etabar^4)). *)
