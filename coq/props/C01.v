(* C01: the constructed field satisfies the Boozer-coordinate identities of props/C01_spec.v order by order.
   The development is split for parallel compilation; this file only re-exports it, so that
   `From QSCProps Require Import C01` gives every name of the former single file:
     C01_common  (tactics, quotient rule, fact records, stage lemmas of init_axis / r1_diagnostics)
     C01_facts2, C01_facts3  (facts extracted from calculate_r2 / calculate_r3)
     C01_r1      (order r1: r1_claims, pol3_avg_identity, crl1_identity, sigma_residual_zero, C01_r1_h0, C01_r1_hN)
     C01_r2base  (Z2 formulas, compact first-order solution, record cfacts, shared tactics)
     C01_r2a / C01_r2b / C01_r2c  (rad1, pol3, tor2, jac2 / modB2 / crl2)
     C01_r2      (r2_claims, C01_r2_h0, C01_r2_hN)
     C01_r3a / C01_r3b  (avg tor[r^3] = 0 for sG = 1 / sG = -1)
     C01_r3      (tor3_avg, jac3_avg, r3_claims, C01_r3_h0, C01_r3_hN)
   Print Assumptions for the six closed theorems is at the end of C01_r1.v, C01_r2.v, C01_r3.v. *)
From QSCProps Require Export C01_common C01_facts2 C01_facts3 C01_r1 C01_r2base C01_r2a C01_r2b C01_r2c C01_r2 C01_r3a C01_r3b C01_r3.
