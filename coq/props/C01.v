(* C01: the constructed field satisfies the Boozer-coordinate identities of props/C01_spec.v order by order.

   Structure: facts about the object state S are extracted from the stages (models of the programs regenerated
   from init_axis, r1_diagnostics, _residual, calculate_r2, calculate_r3, all agreeing with S on attributes);
   each claimed coefficient [r^k, harmonic m] of a residual is computed from the formal double series
   (QSC.Series, by [cbv]) as an explicit polynomial in the attribute values at a grid point and shown to vanish
   with [field]/[ring] after substituting the facts. *)
From Coq Require Import Reals String List Lra Lia QArith Qreals FunctionalExtensionality.
From QSC Require Import Expr Shallow Series.
From QSCGen Require Import G_init_axis G_r1_diagnostics G_residual G_calculate_r2 G_calculate_r3.
From QSCProps Require Import C04_spec C01_spec.
Open Scope R_scope.
Open Scope string_scope.

(* rewrite every attribute read S "s.x" into V "s.x" (inverse of Shallow.to_state) *)
Ltac from_state Hst :=
  repeat match goal with
         | |- context [?S0 (String ?a ?b)] =>
             lazymatch type of Hst with
             | stage _ _ S0 ?V =>
                 let x := constr:(String a b) in
                 let t := eval vm_compute in (is_attr x) in
                 lazymatch t with
                 | true => rewrite <- (st_agree _ _ _ _ Hst x (eq_refl true))
                 end
             end
         end.

Lemma Q2R_0 : Q2R (0#1) = 0.
Proof. unfold Q2R; simpl; lra. Qed.

Lemma sq1_cases (x : R) : x * x = 1 -> x = 1 \/ x = -1.
Proof.
  intros H. assert (H0 : (x - 1) * (x + 1) = 0) by (ring_simplify; rewrite <- H; ring).
  apply Rmult_integral in H0. destruct H0; [left|right]; lra.
Qed.


(* ------------------------------------------------------------------------------------------ *)
(* derivations: quotient rule *)
Section Deriv.
  Context {I : Type} (O : ops I) (HD : derivation O).
  Lemma D_inv (f : I -> R) : (forall k, f k <> 0) -> forall i, o_D O (fun k => / f k) i = - o_D O f i / (f i * f i).
  Proof.
    intros Hf i.
    assert (H1 : o_D O (fun k => f k * / f k) i = 0).
    { replace (fun k => f k * / f k) with (fun _ : I => 1).
      - apply (D_const O HD).
      - apply functional_extensionality; intros k. field. apply Hf. }
    rewrite (D_mul O HD f (fun k => / f k) i) in H1.
    assert (H2 : o_D O (fun k => / f k) i = - (o_D O f i * / f i) / f i).
    { apply (Rmult_eq_reg_l (f i)); [|apply Hf].
      transitivity (- (o_D O f i * / f i)); [lra | field; apply Hf]. }
    rewrite H2. field. apply Hf.
  Qed.
End Deriv.

(* ------------------------------------------------------------------------------------------ *)
(* Facts extracted from the stages, as equations on the object state *)
Section Facts.
  Context {I : Type} (O : ops I) (S : string -> I -> R).
  Definition Dv (f : I -> R) (i : I) : R := o_D O f i / S "s.d_varphi_d_phi" i.

  Record axis_facts : Prop := {
    ax_X1c : S "s.X1c" = fun i => S "s.etabar" i / S "s.curvature" i;
    ax_G0 : S "s.G0" = fun i => S "s.sG" i * S "s.abs_G0_over_B0" i * S "s.B0" i;
    ax_E : S "s.etabar_squared_over_curvature_squared"
           = fun i => S "s.etabar" i * S "s.etabar" i / (S "s.curvature" i * S "s.curvature" i)
  }.
  Record r1_facts : Prop := {
    r1_Y1s : S "s.Y1s" = fun i => S "s.sG" i * S "s.spsi" i * S "s.curvature" i / S "s.etabar" i;
    r1_Y1c : S "s.Y1c" = fun i => S "s.sG" i * S "s.spsi" i * S "s.curvature" i * S "s.sigma" i / S "s.etabar" i;
    r1_dX1c : forall i, S "s.d_X1c_d_varphi" i = Dv (S "s.X1c") i;
    r1_dY1s : forall i, S "s.d_Y1s_d_varphi" i = Dv (S "s.Y1s") i;
    r1_dY1c : forall i, S "s.d_Y1c_d_varphi" i = Dv (S "s.Y1c") i
  }.

  Lemma axis_facts_of_stage VA : stage O init_axis S VA -> axis_facts.
  Proof.
    intros HA. pose proof (st_fix _ _ _ _ HA) as HV.
    constructor.
    - from_state HA. unfold_fixes O init_axis HV ("s.X1c" :: "s.curvature" :: nil)%list. reflexivity.
    - from_state HA. unfold_fixes O init_axis HV ("s.G0" :: "G0" :: "s.abs_G0_over_B0" :: nil)%list. reflexivity.
    - from_state HA.
      unfold_fixes O init_axis HV ("s.etabar_squared_over_curvature_squared" :: "s.curvature" :: nil)%list. reflexivity.
  Qed.

  Ltac prove_r1 P H1 :=
    let HV := fresh "HV" in
    pose proof (st_fix _ _ _ _ H1) as HV;
    constructor;
    [ from_state H1; unfold_fix O P HV "s.Y1s"; reflexivity
    | from_state H1; unfold_fix O P HV "s.Y1c"; reflexivity
    | intros i; unfold Dv; from_state H1; unfold_fix O P HV "s.d_X1c_d_varphi"; reflexivity
    | intros i; unfold Dv; from_state H1; unfold_fix O P HV "s.d_Y1s_d_varphi"; reflexivity
    | intros i; unfold Dv; from_state H1; unfold_fix O P HV "s.d_Y1c_d_varphi"; reflexivity ].
  Lemma r1_facts_of_stage_h0 V1 : stage O r1_diagnostics_h0 S V1 -> r1_facts.
  Proof. intros H1. prove_r1 r1_diagnostics_h0 H1. Qed.
  Lemma r1_facts_of_stage_hN V1 : stage O r1_diagnostics_hN S V1 -> r1_facts.
  Proof. intros H1. prove_r1 r1_diagnostics_hN H1. Qed.
End Facts.

(* compute a coefficient of a residual series as an explicit real expression in the atoms *)
Ltac compute_coef := cbv -[Rplus Rmult Ropp Rinv Rminus Rdiv IZR pow o_D Dv sigma_residual].

(* ------------------------------------------------------------------------------------------ *)
(* First order *)
Section R1.
  Context {I : Type} (O : ops I) (S : string -> I -> R).
  Hypothesis HD : derivation O.
  Hypothesis HA : axis_facts S.
  Hypothesis HR : r1_facts O S.
  Hypothesis Hadm : admissible S.
  Let HL : linear O := der_lin O HD.

  Notation kap := (S "s.curvature"). Notation eta := (S "s.etabar"). Notation sig := (S "s.sigma").
  Notation sG := (S "s.sG"). Notation spsi := (S "s.spsi"). Notation lp := (S "s.abs_G0_over_B0").
  Notation B0 := (S "s.B0").

  Ltac sign_cases i :=
    let HsG := fresh "HsG" in let Hsp := fresh "Hsp" in
    destruct (sq1_cases _ (adm_sG S Hadm i)) as [HsG|HsG];
    destruct (sq1_cases _ (adm_spsi S Hadm i)) as [Hsp|Hsp];
    rewrite ?HsG, ?Hsp.
  Ltac nonzero i :=
    pose proof (adm_eta S Hadm i); pose proof (adm_kappa S Hadm i);
    pose proof (Rgt_not_eq _ _ (adm_B0 S Hadm i)); pose proof (Rgt_not_eq _ _ (adm_lp S Hadm i));
    pose proof (adm_dvp S Hadm i).

  (* varphi-derivatives of the first-order shape, by Leibniz, in terms of d kappa and d sigma *)
  Lemma dX1c_formula i : S "s.d_X1c_d_varphi" i = - eta i * Dv O S kap i / (kap i * kap i).
  Proof.
    rewrite (r1_dX1c O S HR). unfold Dv. rewrite (ax_X1c S HA).
    destruct (adm_eta_const S Hadm) as [ce He]. rewrite He. unfold Rdiv at 2.
    rewrite (D_scal O HL ce (fun k => / kap k) i), (D_inv O HD kap (adm_kappa S Hadm) i).
    nonzero i. field. split; assumption.
  Qed.
  Lemma dY1s_formula i : S "s.d_Y1s_d_varphi" i = sG i * spsi i * Dv O S kap i / eta i.
  Proof.
    rewrite (r1_dY1s O S HR). unfold Dv. rewrite (r1_Y1s O S HR).
    destruct (adm_eta_const S Hadm) as [ce He]. destruct (adm_sG_const S Hadm) as [cg Hg].
    destruct (adm_spsi_const S Hadm) as [cp Hp]. pose proof (adm_eta S Hadm i) as Hne. rewrite He, Hg, Hp in *.
    unfold Rdiv at 2.
    rewrite (D_scal_r O HL (/ ce) (fun k => cg * cp * kap k) i), (D_scal O HL (cg * cp) kap i).
    nonzero i. field. split; assumption.
  Qed.
  Lemma dY1c_formula i :
    S "s.d_Y1c_d_varphi" i = sG i * spsi i * (Dv O S kap i * sig i + kap i * Dv O S sig i) / eta i.
  Proof.
    rewrite (r1_dY1c O S HR). unfold Dv. rewrite (r1_Y1c O S HR).
    destruct (adm_eta_const S Hadm) as [ce He]. destruct (adm_sG_const S Hadm) as [cg Hg].
    destruct (adm_spsi_const S Hadm) as [cp Hp]. pose proof (adm_eta S Hadm i) as Hne. rewrite He, Hg, Hp in *.
    unfold Rdiv at 2.
    rewrite (D_scal_r O HL (/ ce) (fun k => cg * cp * kap k * sig k) i).
    rewrite (D_mul O HD (fun k => cg * cp * kap k) sig i), (D_scal O HL (cg * cp) kap i).
    nonzero i. field. split; assumption.
  Qed.

  Section Claims.
    Variable i : I.
    Variable b : atoms.

    Ltac subst_r1 :=
      rewrite ?dX1c_formula, ?dY1s_formula, ?dY1c_formula;
      rewrite ?(ax_G0 S HA), ?(ax_X1c S HA), ?(r1_Y1s O S HR), ?(r1_Y1c O S HR); cbv beta.

    Theorem r1_claims : claims_r1 (with_first_order S i b).
    Proof.
      destruct b. unfold claims_r1, with_first_order. nonzero i.
      repeat split; compute_coef; repeat constructor; cbn [fst snd cv]; try reflexivity;
        subst_r1; sign_cases i; field; repeat split; assumption.
    Qed.

    (* the averaged O(r^2) condition IS the sigma equation (no use of the Newton solve here) *)
    Theorem pol3_avg_identity :
      tavg (pol (with_first_order S i b) 3%nat)
      = spsi i * B0 i * (kap i * kap i) / (2 * (eta i * eta i)) * sigma_residual O S i.
    Proof.
      destruct b. unfold with_first_order, sigma_residual. nonzero i.
      compute_coef. subst_r1. unfold Dv. sign_cases i; field; repeat split; assumption.
    Qed.
    Theorem crl1_identity :
      tcos (crl (with_first_order S i b) 1%nat) 0
      = spsi i * B0 i * (kap i * kap i) / (eta i * eta i) * sigma_residual O S i.
    Proof.
      destruct b. unfold with_first_order, sigma_residual. nonzero i.
      compute_coef. subst_r1. unfold Dv. sign_cases i; field; repeat split; assumption.
    Qed.
    Theorem r1_avg_claims : sigma_residual O S i = 0 -> claims_r1_avg (with_first_order S i b).
    Proof.
      intros Hs. split.
      - rewrite pol3_avg_identity, Hs. ring.
      - pose proof crl1_identity as Hc. rewrite Hs, Rmult_0_r in Hc. revert Hc.
        destruct b. unfold with_first_order. nonzero i.
        compute_coef. intros Hc.
        repeat constructor; cbn [fst snd cv]; try reflexivity; try exact Hc;
          subst_r1; sign_cases i; field; repeat split; assumption.
    Qed.
  End Claims.

  (* the Newton oracle: at the returned solution the residual program vanishes, hence sigma_residual = 0 *)
  Section Sigma.
    Variable VR : string -> I -> R.
    Hypothesis HRs : stage O residual S VR.
    Hypothesis Hsol : sigma_solved O S VR.
    Lemma sigma_residual_zero i : sigma_residual O S i = 0.
    Proof.
      destruct Hsol as (Hxs & Hxi & Hr & Hpin & HiN).
      pose proof (st_fix _ _ _ _ HRs) as HV.
      pose proof (Hr i) as Hri. revert Hri.
      unfold_fixes O residual HV ("r" :: "sigma#2" :: "sigma" :: "iota" :: nil)%list.
      rewrite Hxs, Hxi. to_state HRs.
      replace (o_pin O (S "s.sigma") (S "s.sigma0")) with (S "s.sigma")
        by (apply functional_extensionality; intros k; symmetry; apply Hpin).
      rewrite <- (HiN i). qsimp. rewrite (ax_E S HA). cbv beta. intros Hri.
      unfold sigma_residual. rewrite <- Hri. nonzero i. field. repeat split; assumption.
    Qed.
  End Sigma.
End R1.

(* ------------------------------------------------------------------------------------------ *)
(* Second order: facts extracted from calculate_r2 *)
Section Facts2.
  Context {I : Type} (O : ops I) (S : string -> I -> R).
  Notation kap := (S "s.curvature"). Notation eta := (S "s.etabar"). Notation sig := (S "s.sigma").
  Notation sG := (S "s.sG"). Notation spsi := (S "s.spsi"). Notation tau := (S "s.torsion").
  Notation B0 := (S "s.B0"). Notation iotaN := (S "s.iotaN").
  Notation X1c := (S "s.X1c"). Notation Y1c := (S "s.Y1c"). Notation Y1s := (S "s.Y1s").
  (* the code's local B0_over_abs_G0 and abs_G0_over_B0 *)
  Definition bl (i : I) : R := S "s.B0" i / Rabs (S "s.G0" i).
  Definition ll (i : I) : R := 1 / bl i.
  Definition q_s i := - iotaN i * X1c i - Y1s i * tau i * ll i.
  Definition q_c i := Dv O S X1c i - Y1c i * tau i * ll i.
  Definition r_s i := Dv O S Y1s i - iotaN i * Y1c i.
  Definition r_c i := Dv O S Y1c i + iotaN i * Y1s i + X1c i * tau i * ll i.

  Record r2_facts : Prop := {
    r2_Z20 : forall i, S "s.Z20" i = - bl i / 8 * Dv O S (fun k => X1c k * X1c k + Y1c k * Y1c k + Y1s k * Y1s k) i;
    r2_Z2s : forall i, S "s.Z2s" i = - bl i / 8 * (Dv O S (fun k => 2 * Y1s k * Y1c k) i
                                   - 2 * iotaN i * (X1c i * X1c i + Y1c i * Y1c i - Y1s i * Y1s i));
    r2_Z2c : forall i, S "s.Z2c" i = - bl i / 8 * (Dv O S (fun k => X1c k * X1c k + Y1c k * Y1c k - Y1s k * Y1s k) i
                                   + 2 * iotaN i * (2 * Y1s i * Y1c i));
    r2_X2s : forall i, S "s.X2s" i = bl i * (S "s.d_Z2s_d_varphi" i - 2 * iotaN i * S "s.Z2c" i
                 + bl i * (ll i * ll i * S "s.B2s" i / B0 i + (q_c i * q_s i + r_c i * r_s i) / 2)) / kap i;
    r2_X2c : forall i, S "s.X2c" i = bl i * (S "s.d_Z2c_d_varphi" i + 2 * iotaN i * S "s.Z2s" i
                 - bl i * (- ll i * ll i * S "s.B2c" i / B0 i + ll i * ll i * eta i * eta i / 2
                           - (q_c i * q_c i - q_s i * q_s i + r_c i * r_c i - r_s i * r_s i) / 4)) / kap i;
    r2_Y2s : forall i, S "s.Y2s" i = alg_Y2s S "s.X20" i;
    r2_Y2c : forall i, S "s.Y2c" i = alg_Y2c S "s.X20" "s.Y20" i;
    r2_B20 : forall i, S "s.B20" i = B0 i * (kap i * S "s.X20" i - bl i * S "s.d_Z20_d_varphi" i + eta i * eta i / 2
                 - mu0R * S "s.p2" i / (B0 i * B0 i)
                 - bl i * bl i / 4 * (q_c i * q_c i + q_s i * q_s i + r_c i * r_c i + r_s i * r_s i));
    r2_G2 : forall i, S "s.G2" i = - mu0R * S "s.p2" i * S "s.G0" i / (B0 i * B0 i) - S "s.iota" i * S "s.I2" i;
    r2_dX20 : forall i, S "s.d_X20_d_varphi" i = Dv O S (S "s.X20") i;
    r2_dX2s : forall i, S "s.d_X2s_d_varphi" i = Dv O S (S "s.X2s") i;
    r2_dX2c : forall i, S "s.d_X2c_d_varphi" i = Dv O S (S "s.X2c") i;
    r2_dY20 : forall i, S "s.d_Y20_d_varphi" i = Dv O S (S "s.Y20") i;
    r2_dY2s : forall i, S "s.d_Y2s_d_varphi" i = Dv O S (S "s.Y2s") i;
    r2_dY2c : forall i, S "s.d_Y2c_d_varphi" i = Dv O S (S "s.Y2c") i;
    r2_ode1 : forall i, ode1 O S "s.X20" "s.Y20" i = 0;
    r2_ode2 : forall i, ode2 O S "s.X20" "s.Y20" i = 0
  }.

  Hypothesis HL : linear O.

  Ltac core P HV H2 l :=
    intros i; unfold q_s, q_c, r_s, r_c, ll, bl, alg_Y2s, alg_Y2c; unfold Dv; from_state H2; unfold_fixes O P HV l; qsimp; unfold Rdiv; try reflexivity; ring.
  Ltac prep O P HV :=
    unfold_fixes O P HV
      ("fX0_from_X20" :: "fX0_from_Y20" :: "fX0_inhomogeneous"
       :: "fXs_from_X20" :: "fXs_from_Y20" :: "fXs_inhomogeneous"
       :: "fXc_from_X20" :: "fXc_from_Y20" :: "fXc_inhomogeneous"
       :: "fY0_from_X20" :: "fY0_from_Y20" :: "fY0_inhomogeneous"
       :: "fYs_from_X20" :: "fYs_from_Y20" :: "fYs_inhomogeneous"
       :: "fYc_from_X20" :: "fYc_from_Y20" :: "fYc_inhomogeneous"
       :: "s.X20" :: "X20" :: "s.Y20" :: "Y20" :: "s.Y2s" :: "Y2s" :: "s.Y2c" :: "Y2c" :: "X20" :: "Y20"
       :: "s.X2s" :: "s.X2c" :: "s.Z20" :: "s.Z2s" :: "s.Z2c" :: "s.beta_1s"
       :: "X1c" :: "Y1s" :: "Y1c" :: "torsion" :: "curvature" :: "iota_N" :: "spsi" :: "sG"
       :: "I2_over_B0" :: "abs_G0_over_B0" :: "B0_over_abs_G0" :: nil)%list.
  Ltac prove_ode P HV H2 Hz eqname :=
    intros i; rewrite <- (Hz i);
    unfold ode1, ode2, fX0, fXs, fXc, fY0, fYs, fYc, C04_spec.Dv, C04_spec.lp; from_state H2;
    unfold_fix O P HV eqname; prep O P HV;
    rewrite !(D_add O HL); qsimp; unfold Rdiv; ring.
  Ltac prove_r2 P H2 Hz0 Hz1 :=
    let HV := fresh "HV" in
    pose proof (st_fix _ _ _ _ H2) as HV;
    constructor;
    [ core P HV H2 ("s.Z20" :: "Z20" :: "factor" :: "V1" :: "B0_over_abs_G0" :: "X1c" :: "Y1c" :: "Y1s" :: nil)%list
    | core P HV H2 ("s.Z2s" :: "Z2s" :: "factor" :: "V2" :: "V3" :: "B0_over_abs_G0" :: "iota_N" :: "X1c" :: "Y1c" :: "Y1s" :: nil)%list
    | core P HV H2 ("s.Z2c" :: "Z2c" :: "factor" :: "V2" :: "V3" :: "B0_over_abs_G0" :: "iota_N" :: "X1c" :: "Y1c" :: "Y1s" :: nil)%list
    | core P HV H2 ("s.X2s" :: "X2s" :: "s.d_Z2s_d_varphi" :: "s.Z2c" :: "qc" :: "qs" :: "rc" :: "rs" :: "abs_G0_over_B0" :: "B0_over_abs_G0"
                     :: "iota_N" :: "B2s" :: "B0" :: "curvature" :: "torsion" :: "X1c" :: "Y1c" :: "Y1s" :: nil)%list
    | core P HV H2 ("s.X2c" :: "X2c" :: "s.d_Z2c_d_varphi" :: "s.Z2s" :: "qc" :: "qs" :: "rc" :: "rs" :: "abs_G0_over_B0" :: "B0_over_abs_G0"
                     :: "iota_N" :: "B2c" :: "B0" :: "etabar" :: "curvature" :: "torsion" :: "X1c" :: "Y1c" :: "Y1s" :: nil)%list
    | core P HV H2 ("s.Y2s" :: "Y2s" :: "Y2s_inhomogeneous" :: "Y2s_from_X20" :: "s.X20" :: "X20" :: "s.X2s" :: "s.X2c"
                     :: "sigma" :: "curvature" :: "etabar" :: "spsi" :: "sG" :: nil)%list
    | core P HV H2 ("s.Y2c" :: "Y2c" :: "Y2c_inhomogeneous" :: "Y2c_from_X20" :: "s.X20" :: "X20" :: "s.Y20" :: "Y20" :: "s.X2s" :: "s.X2c"
                     :: "sigma" :: "curvature" :: "etabar" :: "spsi" :: "sG" :: nil)%list
    | core P HV H2 ("s.B20" :: "B20" :: "s.X20" :: "X20" :: "s.d_Z20_d_varphi" :: "qc" :: "qs" :: "rc" :: "rs" :: "abs_G0_over_B0" :: "B0_over_abs_G0"
                     :: "iota_N" :: "p2" :: "B0" :: "etabar" :: "curvature" :: "torsion" :: "X1c" :: "Y1c" :: "Y1s" :: nil)%list
    | core P HV H2 ("s.G2" :: "p2" :: "G0" :: "B0" :: "iota" :: "I2" :: nil)%list
    | core P HV H2 ("s.d_X20_d_varphi" :: "s.X20" :: nil)%list
    | core P HV H2 ("s.d_X2s_d_varphi" :: "s.X2s" :: nil)%list
    | core P HV H2 ("s.d_X2c_d_varphi" :: "s.X2c" :: nil)%list
    | core P HV H2 ("s.d_Y20_d_varphi" :: "s.Y20" :: nil)%list
    | core P HV H2 ("s.d_Y2s_d_varphi" :: "s.Y2s" :: nil)%list
    | core P HV H2 ("s.d_Y2c_d_varphi" :: "s.Y2c" :: nil)%list
    | prove_ode P HV H2 Hz0 "solve1_eq0"
    | prove_ode P HV H2 Hz1 "solve1_eq1" ].

  Lemma r2_facts_of_stage_h0 V2 : stage O calculate_r2_h0 S V2 ->
    (forall i, V2 "solve1_eq0" i = 0) -> (forall i, V2 "solve1_eq1" i = 0) -> r2_facts.
  Proof. intros H2 Hz0 Hz1. prove_r2 calculate_r2_h0 H2 Hz0 Hz1. Qed.
  Lemma r2_facts_of_stage_hN V2 : stage O calculate_r2_hN S V2 ->
    (forall i, V2 "solve1_eq0" i = 0) -> (forall i, V2 "solve1_eq1" i = 0) -> r2_facts.
  Proof. intros H2 Hz0 Hz1. prove_r2 calculate_r2_hN H2 Hz0 Hz1. Qed.
End Facts2.

(* replace every attribute value [S name i] by an opaque variable (string-indexed atoms are large terms;
   [field] and [subst] are much faster on variables) *)
Ltac abs_atom S i name := let v := fresh "v" in set (v := S name i) in *; clearbody v.
Ltac abs_atoms S i :=
  abs_atom S i "s.curvature"; abs_atom S i "s.torsion"; abs_atom S i "s.abs_G0_over_B0"; abs_atom S i "s.iotaN"; abs_atom S i "s.iota";
  abs_atom S i "s.B0"; abs_atom S i "s.etabar"; abs_atom S i "s.B20"; abs_atom S i "s.B2c"; abs_atom S i "s.B2s"; abs_atom S i "s.G0"; abs_atom S i "s.G2";
  abs_atom S i "s.I2"; abs_atom S i "s.beta_1s"; abs_atom S i "s.spsi"; abs_atom S i "s.sG"; abs_atom S i "s.sigma"; abs_atom S i "s.p2";
  abs_atom S i "s.X1c"; abs_atom S i "s.Y1c"; abs_atom S i "s.Y1s"; abs_atom S i "s.d_X1c_d_varphi"; abs_atom S i "s.d_Y1c_d_varphi"; abs_atom S i "s.d_Y1s_d_varphi";
  abs_atom S i "s.X20"; abs_atom S i "s.X2c"; abs_atom S i "s.X2s"; abs_atom S i "s.Y20"; abs_atom S i "s.Y2c"; abs_atom S i "s.Y2s";
  abs_atom S i "s.Z20"; abs_atom S i "s.Z2c"; abs_atom S i "s.Z2s";
  abs_atom S i "s.d_X20_d_varphi"; abs_atom S i "s.d_X2c_d_varphi"; abs_atom S i "s.d_X2s_d_varphi";
  abs_atom S i "s.d_Y20_d_varphi"; abs_atom S i "s.d_Y2c_d_varphi"; abs_atom S i "s.d_Y2s_d_varphi";
  abs_atom S i "s.d_Z20_d_varphi"; abs_atom S i "s.d_Z2c_d_varphi"; abs_atom S i "s.d_Z2s_d_varphi";
  abs_atom S i "s.X3c1"; abs_atom S i "s.Y3c1"; abs_atom S i "s.Y3s1"; abs_atom S i "s.flux_constraint_coefficient";
  abs_atom S i "s.d_varphi_d_phi".

(* ------------------------------------------------------------------------------------------ *)
(* Third order: facts extracted from calculate_r3 *)
Section Facts3.
  Context {I : Type} (O : ops I) (S : string -> I -> R).
  (* the flux-constraint coefficient lambda, as written in calculate_r3 *)
  Definition lam_code (i : I) : R :=
    let B0 := S "s.B0" i in let G0 := S "s.G0" i in let I2 := S "s.I2" i in let iotaN := S "s.iotaN" i in
    let lp := S "s.abs_G0_over_B0" i in let tau := S "s.torsion" i in let B1c := S "s.etabar" i * S "s.B0" i in
    let B20 := S "s.B20" i in
    let X1c := S "s.X1c" i in let Y1c := S "s.Y1c" i in let Y1s := S "s.Y1s" i in
    let dX1c := S "s.d_X1c_d_varphi" i in let dY1c := S "s.d_Y1c_d_varphi" i in
    let X20 := S "s.X20" i in let X2c := S "s.X2c" i in let X2s := S "s.X2s" i in
    let Y20 := S "s.Y20" i in let Y2c := S "s.Y2c" i in let Y2s := S "s.Y2s" i in
    let Z20 := S "s.Z20" i in let Z2c := S "s.Z2c" i in let Z2s := S "s.Z2s" i in
    (-4*B0^2*G0*X20^2*Y1c^2 + 8*B0^2*G0*X20*X2c*Y1c^2 - 4*B0^2*G0*X2c^2*Y1c^2 - 4*B0^2*G0*X2s^2*Y1c^2 + 8*B0*G0*B1c*X1c*X2s*Y1c*Y1s + 16*B0^2*G0*X20*X2s*Y1c*Y1s + 2*B0^2*I2*iotaN*X1c^2*Y1s^2 - G0*B1c^2*X1c^2*Y1s^2 - 4*B0*G0*B20*X1c^2*Y1s^2 - 8*B0*G0*B1c*X1c*X20*Y1s^2 - 4*B0^2*G0*X20^2*Y1s^2 - 8*B0*G0*B1c*X1c*X2c*Y1s^2 - 8*B0^2*G0*X20*X2c*Y1s^2 - 4*B0^2*G0*X2c^2*Y1s^2 - 4*B0^2*G0*X2s^2*Y1s^2 + 8*B0^2*G0*X1c*X20*Y1c*Y20 - 8*B0^2*G0*X1c*X2c*Y1c*Y20 - 8*B0^2*G0*X1c*X2s*Y1s*Y20 - 4*B0^2*G0*X1c^2*Y20^2 - 8*B0^2*G0*X1c*X20*Y1c*Y2c + 8*B0^2*G0*X1c*X2c*Y1c*Y2c + 24*B0^2*G0*X1c*X2s*Y1s*Y2c + 8*B0^2*G0*X1c^2*Y20*Y2c - 4*B0^2*G0*X1c^2*Y2c^2 + 8*B0^2*G0*X1c*X2s*Y1c*Y2s - 8*B0*G0*B1c*X1c^2*Y1s*Y2s - 8*B0^2*G0*X1c*X20*Y1s*Y2s - 24*B0^2*G0*X1c*X2c*Y1s*Y2s - 4*B0^2*G0*X1c^2*Y2s^2 - 4*B0^2*G0*X1c^2*Z20^2 - 4*B0^2*G0*Y1c^2*Z20^2 - 4*B0^2*G0*Y1s^2*Z20^2 - 4*B0^2*lp*I2*Y1c*Y1s*Z2c + 8*B0^2*G0*X1c^2*Z20*Z2c + 8*B0^2*G0*Y1c^2*Z20*Z2c - 8*B0^2*G0*Y1s^2*Z20*Z2c - 4*B0^2*G0*X1c^2*Z2c^2 - 4*B0^2*G0*Y1c^2*Z2c^2 - 4*B0^2*G0*Y1s^2*Z2c^2 + 2*B0^2*lp*I2*X1c^2*Z2s + 2*B0^2*lp*I2*Y1c^2*Z2s - 2*B0^2*lp*I2*Y1s^2*Z2s + 16*B0^2*G0*Y1c*Y1s*Z20*Z2s - 4*B0^2*G0*X1c^2*Z2s^2 - 4*B0^2*G0*Y1c^2*Z2s^2 - 4*B0^2*G0*Y1s^2*Z2s^2 + B0^2*lp*I2*X1c^3*Y1s*tau + B0^2*lp*I2*X1c*Y1c^2*Y1s*tau + B0^2*lp*I2*X1c*Y1s^3*tau - B0^2*I2*X1c*Y1c*Y1s*dX1c + B0^2*I2*X1c^2*Y1s*dY1c)/(16*B0^2*G0*X1c^2*Y1s^2).

  Record r3_facts : Prop := {
    r3_X3c1 : forall i, S "s.X3c1" i = S "s.X1c" i * S "s.flux_constraint_coefficient" i;
    r3_Y3c1 : forall i, S "s.Y3c1" i = S "s.Y1c" i * S "s.flux_constraint_coefficient" i;
    r3_Y3s1 : forall i, S "s.Y3s1" i = S "s.Y1s" i * S "s.flux_constraint_coefficient" i;
    r3_lam : forall i, S "s.flux_constraint_coefficient" i = lam_code i
  }.

  Ltac prove_r3 P H3 :=
    let HV := fresh "HV" in
    pose proof (st_fix _ _ _ _ H3) as HV;
    constructor;
    [ intros i; from_state H3; unfold_fixes O P HV ("s.X3c1" :: "s.flux_constraint_coefficient" :: nil)%list; reflexivity
    | intros i; from_state H3; unfold_fixes O P HV ("s.Y3c1" :: "s.flux_constraint_coefficient" :: nil)%list; reflexivity
    | intros i; from_state H3; unfold_fixes O P HV ("s.Y3s1" :: "s.flux_constraint_coefficient" :: nil)%list; reflexivity
    | intros i; unfold lam_code; cbv zeta; from_state H3;
      unfold_fixes O P HV ("s.flux_constraint_coefficient" :: "flux_constraint_coefficient" :: "B0" :: "G0" :: "I2" :: "X1c" :: "Y1c" :: "Y1s"
        :: "X20" :: "X2s" :: "X2c" :: "Y20" :: "Y2s" :: "Y2c" :: "Z20" :: "Z2s" :: "Z2c" :: "B20" :: "B1c" :: "B0" :: "torsion"
        :: "abs_G0_over_B0" :: "d_X1c_d_varphi" :: "d_Y1c_d_varphi" :: nil)%list;
      qsimp; unfold Rdiv; ring ].
  Lemma r3_facts_of_stage_h0 V3 : stage O calculate_r3_h0 S V3 -> r3_facts.
  Proof. intros H3. prove_r3 calculate_r3_h0 H3. Qed.
  Lemma r3_facts_of_stage_hN V3 : stage O calculate_r3_hN S V3 -> r3_facts.
  Proof. intros H3. prove_r3 calculate_r3_hN H3. Qed.
End Facts3.

(* ------------------------------------------------------------------------------------------ *)
(* Second order: claims *)
Section R2.
  Context {I : Type} (O : ops I) (S : string -> I -> R).
  Hypothesis HD : derivation O.
  Hypothesis HA : axis_facts S.
  Hypothesis HR : r1_facts O S.
  Hypothesis H2 : r2_facts O S.
  Hypothesis Hadm : admissible S.
  Hypothesis Hsig : forall i, sigma_residual O S i = 0.
  Hypothesis H3 : r3_facts S.
  Let HL : linear O := der_lin O HD.

  Notation kap := (S "s.curvature"). Notation eta := (S "s.etabar"). Notation sig := (S "s.sigma").
  Notation sG := (S "s.sG"). Notation spsi := (S "s.spsi"). Notation lp := (S "s.abs_G0_over_B0").
  Notation B0 := (S "s.B0"). Notation iotaN := (S "s.iotaN"). Notation tau := (S "s.torsion").
  Notation X1c := (S "s.X1c"). Notation Y1c := (S "s.Y1c"). Notation Y1s := (S "s.Y1s").
  Notation dX1c := (S "s.d_X1c_d_varphi"). Notation dY1c := (S "s.d_Y1c_d_varphi"). Notation dY1s := (S "s.d_Y1s_d_varphi").

  Ltac sign_cases i :=
    let HsG := fresh "HsG" in let Hsp := fresh "Hsp" in
    destruct (sq1_cases _ (adm_sG S Hadm i)) as [HsG|HsG];
    destruct (sq1_cases _ (adm_spsi S Hadm i)) as [Hsp|Hsp];
    rewrite ?HsG, ?Hsp.
  Ltac nonzero i :=
    pose proof (adm_eta S Hadm i); pose proof (adm_kappa S Hadm i);
    pose proof (Rgt_not_eq _ _ (adm_B0 S Hadm i)); pose proof (Rgt_not_eq _ _ (adm_lp S Hadm i));
    pose proof (adm_dvp S Hadm i).

  Lemma bl_lp i : bl S i = / lp i.
  Proof.
    unfold bl. rewrite (ax_G0 S HA). cbv beta.
    pose proof (adm_B0 S Hadm i) as Hb. pose proof (adm_lp S Hadm i) as Hl.
    rewrite !Rabs_mult, (Rabs_pos_eq (lp i)), (Rabs_pos_eq (B0 i)) by lra.
    assert (Hs : Rabs (sG i) = 1).
    { destruct (sq1_cases _ (adm_sG S Hadm i)) as [E|E]; rewrite E; unfold Rabs; destruct Rcase_abs; lra. }
    rewrite Hs. field. split; lra.
  Qed.
  Lemma ll_lp i : ll S i = lp i.
  Proof. unfold ll. rewrite bl_lp. pose proof (adm_lp S Hadm i). field. lra. Qed.

  Lemma Z20_formula i : S "s.Z20" i = - / lp i / 8 * (2 * (X1c i * dX1c i + Y1c i * dY1c i + Y1s i * dY1s i)).
  Proof.
    rewrite (r2_Z20 O S H2), bl_lp, (r1_dX1c O S HR), (r1_dY1c O S HR), (r1_dY1s O S HR). unfold Dv.
    rewrite !(D_add O HL), !(D_mul O HD). nonzero i. field. split; assumption.
  Qed.
  Lemma Z2s_formula i : S "s.Z2s" i = - / lp i / 8 * (2 * (dY1s i * Y1c i + Y1s i * dY1c i)
                                     - 2 * iotaN i * (X1c i * X1c i + Y1c i * Y1c i - Y1s i * Y1s i)).
  Proof.
    rewrite (r2_Z2s O S H2), bl_lp, (r1_dY1c O S HR), (r1_dY1s O S HR). unfold Dv.
    rewrite (D_mul O HD (fun k => 2 * Y1s k) Y1c i), (D_scal O HL 2 Y1s i). nonzero i. field. split; assumption.
  Qed.
  Lemma Z2c_formula i : S "s.Z2c" i = - / lp i / 8 * (2 * (X1c i * dX1c i + Y1c i * dY1c i - Y1s i * dY1s i)
                                     + 2 * iotaN i * (2 * Y1s i * Y1c i)).
  Proof.
    rewrite (r2_Z2c O S H2), bl_lp, (r1_dX1c O S HR), (r1_dY1c O S HR), (r1_dY1s O S HR). unfold Dv.
    rewrite (D_sub O HL), !(D_add O HL), !(D_mul O HD). nonzero i. field. split; assumption.
  Qed.

  Section Claims.
    Variable i : I.
    Variable b : atoms.
  (* the first-order solution re-expressed with X1c, Y1c, d X1c as the independent atoms *)
    Lemma X1c_nz : X1c i <> 0.
    Proof. rewrite (ax_X1c S HA). nonzero i. unfold Rdiv. apply Rmult_integral_contrapositive_currified; [assumption|apply Rinv_neq_0_compat; assumption]. Qed.
    Lemma Y1s_x : Y1s i = sG i * spsi i / X1c i.
    Proof. rewrite (ax_X1c S HA), (r1_Y1s O S HR). nonzero i. field. split; assumption. Qed.
    Lemma eta_x : eta i = kap i * X1c i.
    Proof. rewrite (ax_X1c S HA). nonzero i. field. assumption. Qed.
    Lemma sig_x : sig i = Y1c i * X1c i * (sG i * spsi i).
    Proof. rewrite (ax_X1c S HA), (r1_Y1c O S HR). nonzero i. sign_cases i; field; split; assumption. Qed.
    Lemma dY1s_x : dY1s i = - dX1c i * (sG i * spsi i) / (X1c i * X1c i).
    Proof.
      rewrite (dX1c_formula O S HD HA HR Hadm), (dY1s_formula O S HD HR Hadm), (ax_X1c S HA). nonzero i.
      field. split; assumption.
    Qed.
    Lemma dY1c_x : dY1c i = (2 * S "s.I2" i * lp i * X1c i * Y1s i / (spsi i * B0 i)
                             - 2 * lp i * tau i * X1c i * Y1s i
                             - iotaN i * (X1c i * X1c i + Y1s i * Y1s i + Y1c i * Y1c i) + dY1s i * Y1c i) / Y1s i.
    Proof.
      pose proof (pol3_avg_identity O S HD HA HR Hadm i (atoms_of S i)) as K. rewrite Hsig, Rmult_0_r in K.
      unfold with_first_order, atoms_of in K. cbv -[Rplus Rmult Ropp Rinv Rminus Rdiv IZR pow o_D Dv sigma_residual] in K.
      nonzero i. pose proof X1c_nz as Hx.
      assert (Hy : Y1s i <> 0).
      { rewrite Y1s_x. sign_cases i; unfold Rdiv; apply Rmult_integral_contrapositive_currified; try lra; apply Rinv_neq_0_compat; assumption. }
      assert (Hp : spsi i <> 0) by (intros E; pose proof (adm_spsi S Hadm i) as Q; rewrite E in Q; lra).
      match type of K with ?L = 0 =>
        assert (E : (dY1c i - (2 * S "s.I2" i * lp i * X1c i * Y1s i / (spsi i * B0 i)
                             - 2 * lp i * tau i * X1c i * Y1s i
                             - iotaN i * (X1c i * X1c i + Y1s i * Y1s i + Y1c i * Y1c i) + dY1s i * Y1c i) / Y1s i)
                    * (spsi i * B0 i * Y1s i / 2) = L) by (field; repeat split; assumption)
      end.
      rewrite K in E. apply Rmult_integral in E. destruct E as [E|E]; [lra|].
      exfalso. assert (spsi i * B0 i * Y1s i <> 0) by (repeat apply Rmult_integral_contrapositive_currified; assumption). lra.
    Qed.

    Notation ss := (S "s.sG" i * S "s.spsi" i).
    Notation x := (S "s.X1c" i). Notation c := (S "s.Y1c" i). Notation dx := (S "s.d_X1c_d_varphi" i).
    Lemma Y1s_nz : Y1s i <> 0.
    Proof.
      pose proof X1c_nz. rewrite Y1s_x.
      sign_cases i; unfold Rdiv; apply Rmult_integral_contrapositive_currified; try lra; apply Rinv_neq_0_compat; assumption.
    Qed.
    (* compact forms (sympy) of dY1c, Z2*, Y2* in the independent atoms x = X1c, c = Y1c, dx = dX1c *)
    Lemma dY1c_c : dY1c i = - ss * iotaN i * (x ^ 4 + x * x * c * c + 1) / x - 2 * x * lp i * tau i - c * dx / x
                            + 2 * S "s.I2" i * x * lp i * spsi i / B0 i.
    Proof.
      rewrite dY1c_x, dY1s_x, Y1s_x. nonzero i. pose proof X1c_nz.
      sign_cases i; field; repeat split; try assumption; lra.
    Qed.
    Lemma Z20_c : S "s.Z20" i = ss * iotaN i * x * c * (x * x + c * c) / (4 * lp i) + x * c * tau i / 2 - x * dx / (4 * lp i)
          + c * c * dx / (4 * x * lp i) + ss * c * iotaN i / (4 * x * lp i) + dx / (4 * x ^ 3 * lp i)
          - S "s.I2" i * x * c * spsi i / (2 * B0 i).
    Proof.
      rewrite Z20_formula, dY1c_c, dY1s_x, Y1s_x. nonzero i. pose proof X1c_nz.
      sign_cases i; field; repeat split; try assumption; lra.
    Qed.
    Lemma Z2c_c : S "s.Z2c" i = ss * iotaN i * x * c * (x * x + c * c) / (4 * lp i) + x * c * tau i / 2 - x * dx / (4 * lp i)
          + c * c * dx / (4 * x * lp i) - ss * c * iotaN i / (4 * x * lp i) - dx / (4 * x ^ 3 * lp i)
          - S "s.I2" i * x * c * spsi i / (2 * B0 i).
    Proof.
      rewrite Z2c_formula, dY1c_c, dY1s_x, Y1s_x. nonzero i. pose proof X1c_nz.
      sign_cases i; field; repeat split; try assumption; lra.
    Qed.
    Lemma Z2s_c : S "s.Z2s" i = iotaN i * (x * x + c * c) / (2 * lp i) + ss * tau i / 2 + c * dx * ss / (2 * x * x * lp i)
          - S "s.I2" i * ss * spsi i / (2 * B0 i).
    Proof.
      rewrite Z2s_formula, dY1c_c, dY1s_x, Y1s_x. nonzero i. pose proof X1c_nz.
      sign_cases i; field; repeat split; try assumption; lra.
    Qed.
    Lemma Y2s_c : S "s.Y2s" i = - ss * kap i / 2 - ss * (S "s.X2c" i + S "s.X20" i) / (x * x) + S "s.X2s" i * c / x.
    Proof.
      rewrite (r2_Y2s O S H2). unfold alg_Y2s. rewrite sig_x, eta_x. nonzero i. pose proof X1c_nz.
      sign_cases i; field; repeat split; try assumption; lra.
    Qed.
    Lemma Y2c_c : S "s.Y2c" i = ss * S "s.X2s" i / (x * x) + S "s.X2c" i * c / x - c * S "s.X20" i / x + S "s.Y20" i.
    Proof.
      rewrite (r2_Y2c O S H2). unfold alg_Y2c. rewrite sig_x, eta_x. nonzero i. pose proof X1c_nz.
      sign_cases i; field; repeat split; try assumption; lra.
    Qed.


    Ltac start := destruct b; unfold with_second_order, atoms_of; nonzero i; pose proof X1c_nz.
    Ltac split_coefs := compute_coef; repeat first [apply Forall_nil | apply Forall_cons | split]; cbn [fst snd cv]; try reflexivity.
    Ltac dsigns :=
      let HsG := fresh "HsG" in let Hsp := fresh "Hsp" in
      destruct (sq1_cases _ (adm_sG S Hadm i)) as [HsG|HsG]; destruct (sq1_cases _ (adm_spsi S Hadm i)) as [Hsp|Hsp].
    Ltac fin := abs_atoms S i; subst; field; repeat split; assumption.
    Ltac pose_Z := pose proof (Z20_formula i) as EZ0; pose proof (Z2s_formula i) as EZs; pose proof (Z2c_formula i) as EZc.
    (* facts in the compact parametrisation *)
    Ltac pose_common :=
      pose proof Y2s_c as EY2s; pose proof Y2c_c as EY2c; pose proof Z20_c as EZ0; pose proof Z2s_c as EZs; pose proof Z2c_c as EZc;
      pose proof dY1c_c as EdY1c; pose proof dY1s_x as EdY1s; pose proof Y1s_x as EY1s; pose proof eta_x as Eeta;
      pose proof (f_equal (fun f => f i) (ax_G0 S HA)) as EG0; cbv beta in EG0.
    Ltac prep_q E :=
      unfold q_c, q_s, r_c, r_s in E; rewrite ?ll_lp, ?bl_lp in E;
      rewrite <- ?(r1_dX1c O S HR), <- ?(r1_dY1c O S HR), <- ?(r1_dY1s O S HR) in E.

    Lemma rad1 : tzero (rad (with_second_order S i b) 1%nat).
    Proof. start. split_coefs; pose_Z; fin. Qed.
    Lemma pol3 : tzero (pol (with_second_order S i b) 3%nat).
    Proof.
      pose proof (pol3_avg_identity O S HD HA HR Hadm i (atoms_of S i)) as K. rewrite Hsig, Rmult_0_r in K.
      start. split_coefs; [exact K | |]; pose_Z; fin.
    Qed.
    Ltac solve_all :=
      repeat first [apply Forall_nil | apply Forall_cons | split]; cbn [fst snd cv]; try reflexivity;
      field; repeat split; assumption.
    Lemma tor2 : tzero (tor (with_second_order S i b) 2%nat).
    Proof. start. compute_coef. dsigns; pose_common; abs_atoms S i; subst; solve_all. Qed.
    Lemma jac2 : tzero (jac (with_second_order S i b) 2%nat).
    Proof. start. compute_coef. dsigns; pose_common; abs_atoms S i; subst; solve_all. Qed.
    Lemma modB2 : tzero (modB (with_second_order S i b) 2%nat).
    Proof.
      start. compute_coef.
      pose proof (r2_B20 O S H2 i) as EB20; prep_q EB20. pose proof (r2_G2 O S H2 i) as EG2.
      pose proof (r2_X2c O S H2 i) as EX2c; prep_q EX2c. pose proof (r2_X2s O S H2 i) as EX2s; prep_q EX2s.
      dsigns; pose_common; abs_atoms S i; subst; solve_all.
    Qed.

    Ltac use_ode c E Hode :=
      match goal with |- ?L = 0 => transitivity (c * E); [ | rewrite Hode; ring] end;
      unfold ode1, ode2, fX0, fXs, fXc, fY0, fYs, fYc, C04_spec.lp, C04_spec.Dv;
      change (S "s.B0" i / Rabs (S "s.G0" i)) with (bl S i); rewrite bl_lp;
      pose proof (r2_dX20 O S H2 i) as D1; pose proof (r2_dX2s O S H2 i) as D2; pose proof (r2_dX2c O S H2 i) as D3;
      pose proof (r2_dY20 O S H2 i) as D4; pose proof (r2_dY2s O S H2 i) as D5; pose proof (r2_dY2c O S H2 i) as D6;
      unfold Dv in D1, D2, D3, D4, D5, D6; rewrite <- ?D1, <- ?D2, <- ?D3, <- ?D4, <- ?D5, <- ?D6;
      clear D1 D2 D3 D4 D5 D6.
    Lemma crl2 : tzero (crl (with_second_order S i b) 2%nat).
    Proof.
      start. split_coefs; try ring.
      - use_ode (-2 * spsi i * B0 i) (ode1 O S "s.X20" "s.Y20" i) (r2_ode1 O S H2 i). dsigns; pose_common; fin.
      - use_ode (2 * spsi i * B0 i) (ode2 O S "s.X20" "s.Y20" i) (r2_ode2 O S H2 i). dsigns; pose_common; fin.
    Qed.

    Theorem r2_claims : claims_r2 (with_second_order S i b).
    Proof. repeat split; [apply pol3 | apply tor2 | apply rad1 | apply jac2 | apply modB2 | apply crl2]. Qed.
  End Claims.

  (* ---- third order: the poloidally averaged O(r^3) toroidal and Jacobian (flux) conditions ---- *)
  Section Claims3.
    Variable i : I.
  (* all the facts needed at third order, as hypotheses *)
    Ltac pose_facts :=
      pose proof (r3_X3c1 S H3 i) as E1; pose proof (r3_Y3c1 S H3 i) as E2; pose proof (r3_Y3s1 S H3 i) as E3;
      pose proof (r3_lam S H3 i) as E4; unfold lam_code in E4; cbv zeta in E4;
      pose proof (r2_B20 O S H2 i) as E5; unfold q_c, q_s, r_c, r_s in E5;
      rewrite ?ll_lp, ?bl_lp in E5;
      rewrite <- ?(r1_dX1c O S HR), <- ?(r1_dY1c O S HR), <- ?(r1_dY1s O S HR) in E5;
      pose proof (r2_G2 O S H2 i) as E6;
      pose proof (Y2s_c i) as E7; pose proof (Y2c_c i) as E8; pose proof (Z20_c i) as E9; pose proof (Z2s_c i) as E10;
      pose proof (Z2c_c i) as E11; pose proof (dY1c_c i) as E12; pose proof (dY1s_x i) as E13; pose proof (Y1s_x i) as E14;
      pose proof (eta_x i) as E15;
      pose proof (f_equal (fun f => f i) (ax_G0 S HA)) as E16; cbv beta in E16.

    Lemma tor3_avg : tavg (tor (atoms_of S i) 3%nat) = 0.
    Proof.
      unfold atoms_of. nonzero i. pose proof (X1c_nz i). compute_coef.
      destruct (sq1_cases _ (adm_sG S Hadm i)) as [HsG|HsG]; destruct (sq1_cases _ (adm_spsi S Hadm i)) as [Hsp|Hsp].
      all: pose_facts; abs_atoms S i; subst; field; repeat split; assumption.
    Qed.

    (* psi' modB = B^2 tor + Gh jac, read at [r^3, average]: with modB[r^2], tor[r^1], tor[r^2], jac[r^1] already
       shown to vanish, the averaged Jacobian condition is equivalent to the averaged toroidal one *)
    Lemma jac3_avg : tavg (jac (atoms_of S i) 3%nat) = 0.
    Proof.
      pose proof tor3_avg as T30.
      pose proof (tzero_tcos _ (modB2 i (atoms_of S i)) 0%nat) as M20.
      pose proof (tzero_tcos _ (tor2 i (atoms_of S i)) 1%nat) as T21.
      first [ pose proof (r1_claims O S HA HR Hadm i (atoms_of S i)) as R1c
            | pose proof (r1_claims O S HD HA HR Hadm i (atoms_of S i)) as R1c ].
      destruct R1c as (_ & _ & _ & _ & T1 & _ & _ & J1 & _).
      pose proof (tzero_tcos _ T1 0%nat) as T10. pose proof (tzero_tcos _ J1 0%nat) as J10.
      assert (ID : S "s.spsi" i * S "s.B0" i * tcos (modB (with_second_order S i (atoms_of S i)) 2%nat) 0
                   = S "s.B0" i * S "s.B0" i * tavg (tor (atoms_of S i) 3%nat)
                     + S "s.G0" i * tavg (jac (atoms_of S i) 3%nat)
                     + S "s.B0" i * S "s.B0" i * S "s.etabar" i * tcos (tor (with_second_order S i (atoms_of S i)) 2%nat) 1
                     + (2 * S "s.B0" i * S "s.B20" i + S "s.B0" i * S "s.B0" i * S "s.etabar" i * S "s.etabar" i / 2)
                       * tcos (tor (with_first_order S i (atoms_of S i)) 1%nat) 0
                     + (S "s.G2" i + (S "s.iota" i - S "s.iotaN" i) * S "s.I2" i)
                       * tcos (jac (with_first_order S i (atoms_of S i)) 1%nat) 0).
      { unfold with_second_order, with_first_order, atoms_of. compute_coef. field. }
      rewrite M20, T30, T21, T10, J10 in ID.
      assert (HG : S "s.G0" i <> 0).
      { rewrite (ax_G0 S HA). nonzero i.
        destruct (sq1_cases _ (adm_sG S Hadm i)) as [E|E]; rewrite E;
          repeat apply Rmult_integral_contrapositive_currified; try assumption; lra. }
      apply (Rmult_eq_reg_l (S "s.G0" i)); [lra | exact HG].
    Qed.
    Theorem r3_claims : claims_r3 (atoms_of S i).
    Proof. split; [apply tor3_avg | apply jac3_avg]. Qed.
  End Claims3.
End R2.


(* ------------------------------------------------------------------------------------------ *)
(* Closed statements: for every index type, every operator structure whose o_D is a derivation, every object
   state S and all models of the regenerated programs agreeing with S on attributes.  h0 / hN are the two
   helicity variants of the translated functions. *)
Definition r1_hyps {I : Type} (O : ops I) (S : string -> I -> R) (P1 : prog) : Prop :=
  derivation O /\ admissible S
  /\ (exists VA, stage O init_axis S VA) /\ (exists V1, stage O P1 S V1)
  /\ (exists VR, stage O residual S VR /\ sigma_solved O S VR).
Definition r2_hyps {I : Type} (O : ops I) (S : string -> I -> R) (P1 P2 : prog) : Prop :=
  r1_hyps O S P1
  /\ (exists V2, stage O P2 S V2 /\ (forall i, V2 "solve1_eq0" i = 0) /\ (forall i, V2 "solve1_eq1" i = 0)).
Definition r3_hyps {I : Type} (O : ops I) (S : string -> I -> R) (P1 P2 P3 : prog) : Prop :=
  r2_hyps O S P1 P2 /\ (exists V3, stage O P3 S V3).

Section Closed.
  Context {I : Type} (O : ops I) (S : string -> I -> R).

  (* order r1; [b] supplies arbitrary values for every attribute of order >= 2 *)
  Definition C01_r1_statement (P1 : prog) : Prop :=
    r1_hyps O S P1 -> forall i b,
      claims_r1 (with_first_order S i b) /\ claims_r1_avg (with_first_order S i b)
      /\ tavg (pol (with_first_order S i b) 3%nat)
          = S "s.spsi" i * S "s.B0" i * (S "s.curvature" i * S "s.curvature" i) / (2 * (S "s.etabar" i * S "s.etabar" i))
            * sigma_residual O S i.
  Lemma C01_r1_gen P1 : (forall V1, stage O P1 S V1 -> r1_facts O S) -> C01_r1_statement P1.
  Proof.
    intros F (HD & Hadm & [VA HA] & [V1 H1] & [VR [HRs Hsol]]) i b.
    pose proof (axis_facts_of_stage O S VA HA) as FA. pose proof (F V1 H1) as FR.
    first [ pose proof (sigma_residual_zero O S FA Hadm VR HRs Hsol) as Hs
          | pose proof (sigma_residual_zero O S HD FA FR Hadm VR HRs Hsol) as Hs
          | pose proof (sigma_residual_zero O S HD FA Hadm VR HRs Hsol) as Hs ].
    split; [first [exact (r1_claims O S FA FR Hadm i b) | exact (r1_claims O S HD FA FR Hadm i b)]|]. split.
    - exact (r1_avg_claims O S HD FA FR Hadm i b (Hs i)).
    - exact (pol3_avg_identity O S HD FA FR Hadm i b).
  Qed.
  Theorem C01_r1_h0 : C01_r1_statement r1_diagnostics_h0.
  Proof. apply C01_r1_gen. apply r1_facts_of_stage_h0. Qed.
  Theorem C01_r1_hN : C01_r1_statement r1_diagnostics_hN.
  Proof. apply C01_r1_gen. apply r1_facts_of_stage_hN. Qed.

  (* order r2; [b] supplies arbitrary values for every attribute of order 3 *)
  Definition C01_r2_statement (P1 P2 : prog) : Prop :=
    r2_hyps O S P1 P2 -> forall i b, claims_r2 (with_second_order S i b).
  Lemma C01_r2_gen P1 P2 : (forall V1, stage O P1 S V1 -> r1_facts O S) ->
    (forall V2, stage O P2 S V2 -> (forall i, V2 "solve1_eq0" i = 0) -> (forall i, V2 "solve1_eq1" i = 0) -> r2_facts O S) ->
    C01_r2_statement P1 P2.
  Proof.
    intros F F2 ((HD & Hadm & [VA HA] & [V1 H1] & [VR [HRs Hsol]]) & [V2 (H2 & Hz0 & Hz1)]) i b.
    pose proof (axis_facts_of_stage O S VA HA) as FA. pose proof (F V1 H1) as FR.
    first [ pose proof (sigma_residual_zero O S FA Hadm VR HRs Hsol) as Hs
          | pose proof (sigma_residual_zero O S HD FA FR Hadm VR HRs Hsol) as Hs
          | pose proof (sigma_residual_zero O S HD FA Hadm VR HRs Hsol) as Hs ].
    exact (r2_claims O S HD FA FR (F2 V2 H2 Hz0 Hz1) Hadm Hs i b).
  Qed.
  Ltac close_r2 f1 f2 :=
    let H := fresh "H" in let HD := fresh "HD" in
    intros H; pose proof H as ((HD & _) & _); revert H;
    apply C01_r2_gen; [apply f1 | apply (f2 O S (der_lin O HD))].
  Theorem C01_r2_h0 : C01_r2_statement r1_diagnostics_h0 calculate_r2_h0.
  Proof.
    intros H. pose proof H as ((HD & _) & _). revert H.
    apply C01_r2_gen; [apply r1_facts_of_stage_h0 | apply (r2_facts_of_stage_h0 O S (der_lin O HD))].
  Qed.

  (* order r3 *)
  Definition C01_r3_statement (P1 P2 P3 : prog) : Prop :=
    r3_hyps O S P1 P2 P3 -> forall i, claims_r3 (atoms_of S i).
  Lemma C01_r3_gen P1 P2 P3 : (forall V1, stage O P1 S V1 -> r1_facts O S) ->
    (forall V2, stage O P2 S V2 -> (forall i, V2 "solve1_eq0" i = 0) -> (forall i, V2 "solve1_eq1" i = 0) -> r2_facts O S) ->
    (forall V3, stage O P3 S V3 -> r3_facts S) ->
    C01_r3_statement P1 P2 P3.
  Proof.
    intros F F2 F3 (((HD & Hadm & [VA HA] & [V1 H1] & [VR [HRs Hsol]]) & [V2 (H2 & Hz0 & Hz1)]) & [V3 H3]) i.
    pose proof (axis_facts_of_stage O S VA HA) as FA. pose proof (F V1 H1) as FR.
    first [ pose proof (sigma_residual_zero O S FA Hadm VR HRs Hsol) as Hs
          | pose proof (sigma_residual_zero O S HD FA FR Hadm VR HRs Hsol) as Hs
          | pose proof (sigma_residual_zero O S HD FA Hadm VR HRs Hsol) as Hs ].
    exact (r3_claims O S HD FA FR (F2 V2 H2 Hz0 Hz1) Hadm Hs (F3 V3 H3) i).
  Qed.
  Theorem C01_r2_hN : C01_r2_statement r1_diagnostics_hN calculate_r2_hN.
  Proof. close_r2 (@r1_facts_of_stage_hN I O S) (@r2_facts_of_stage_hN I). Qed.

  Ltac close_r3 f1 f2 f3 :=
    let H := fresh "H" in let HD := fresh "HD" in
    intros H; pose proof H as (((HD & _) & _) & _); revert H;
    apply C01_r3_gen; [apply f1 | apply (f2 O S (der_lin O HD)) | apply f3].
  Theorem C01_r3_h0 : C01_r3_statement r1_diagnostics_h0 calculate_r2_h0 calculate_r3_h0.
  Proof. close_r3 (@r1_facts_of_stage_h0 I O S) (@r2_facts_of_stage_h0 I) (@r3_facts_of_stage_h0 I O S). Qed.
  Theorem C01_r3_hN : C01_r3_statement r1_diagnostics_hN calculate_r2_hN calculate_r3_hN.
  Proof. close_r3 (@r1_facts_of_stage_hN I O S) (@r2_facts_of_stage_hN I) (@r3_facts_of_stage_hN I O S). Qed.
End Closed.

Print Assumptions C01_r1_h0.
Print Assumptions C01_r1_hN.
Print Assumptions C01_r2_h0.
Print Assumptions C01_r2_hN.
Print Assumptions C01_r3_h0.
Print Assumptions C01_r3_hN.

