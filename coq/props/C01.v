(* C01: the constructed field satisfies the Boozer-coordinate identities of props/C01_spec.v order by order.

   Structure: facts about the object state S are extracted from the stages (models of the programs regenerated
   from init_axis, r1_diagnostics, _residual, calculate_r2, calculate_r3, all agreeing with S on attributes);
   each claimed coefficient [r^k, harmonic m] of a residual is computed from the formal double series
   (QSC.Series, by [cbv]) as an explicit polynomial in the attribute values at a grid point and shown to vanish
   with [field]/[ring] after substituting the facts. *)
From Coq Require Import Reals String List Lra Lia QArith Qreals FunctionalExtensionality.
From QSC Require Import Expr Shallow Series.
From QSCGen Require Import G_init_axis G_r1_diagnostics G_residual G_calculate_r2 G_calculate_r3.
From QSCProps Require Import C04_spec C01_spec.
Open Scope R_scope.
Open Scope string_scope.

(* rewrite every attribute read S "s.x" into V "s.x" (inverse of Shallow.to_state) *)
Ltac from_state Hst :=
  repeat match goal with
         | |- context [?S0 (String ?a ?b)] =>
             lazymatch type of Hst with
             | stage _ _ S0 ?V =>
                 let x := constr:(String a b) in
                 let t := eval vm_compute in (is_attr x) in
                 lazymatch t with
                 | true => rewrite <- (st_agree _ _ _ _ Hst x (eq_refl true))
                 end
             end
         end.

Lemma Q2R_0 : Q2R (0#1) = 0.
Proof. unfold Q2R; simpl; lra. Qed.

Lemma sq1_cases (x : R) : x * x = 1 -> x = 1 \/ x = -1.
Proof.
  intros H. assert (H0 : (x - 1) * (x + 1) = 0) by (ring_simplify; rewrite <- H; ring).
  apply Rmult_integral in H0. destruct H0; [left|right]; lra.
Qed.


(* ------------------------------------------------------------------------------------------ *)
(* derivations: quotient rule *)
Section Deriv.
  Context {I : Type} (O : ops I) (HD : derivation O).
  Lemma D_inv (f : I -> R) : (forall k, f k <> 0) -> forall i, o_D O (fun k => / f k) i = - o_D O f i / (f i * f i).
  Proof.
    intros Hf i.
    assert (H1 : o_D O (fun k => f k * / f k) i = 0).
    { replace (fun k => f k * / f k) with (fun _ : I => 1).
      - apply (D_const O HD).
      - apply functional_extensionality; intros k. field. apply Hf. }
    rewrite (D_mul O HD f (fun k => / f k) i) in H1.
    assert (H2 : o_D O (fun k => / f k) i = - (o_D O f i * / f i) / f i).
    { apply (Rmult_eq_reg_l (f i)); [|apply Hf].
      transitivity (- (o_D O f i * / f i)); [lra | field; apply Hf]. }
    rewrite H2. field. apply Hf.
  Qed.
End Deriv.

(* ------------------------------------------------------------------------------------------ *)
(* Facts extracted from the stages, as equations on the object state *)
Section Facts.
  Context {I : Type} (O : ops I) (S : string -> I -> R).
  Definition Dv (f : I -> R) (i : I) : R := o_D O f i / S "s.d_varphi_d_phi" i.

  Record axis_facts : Prop := {
    ax_X1c : S "s.X1c" = fun i => S "s.etabar" i / S "s.curvature" i;
    ax_G0 : S "s.G0" = fun i => S "s.sG" i * S "s.abs_G0_over_B0" i * S "s.B0" i;
    ax_E : S "s.etabar_squared_over_curvature_squared"
           = fun i => S "s.etabar" i * S "s.etabar" i / (S "s.curvature" i * S "s.curvature" i)
  }.
  Record r1_facts : Prop := {
    r1_Y1s : S "s.Y1s" = fun i => S "s.sG" i * S "s.spsi" i * S "s.curvature" i / S "s.etabar" i;
    r1_Y1c : S "s.Y1c" = fun i => S "s.sG" i * S "s.spsi" i * S "s.curvature" i * S "s.sigma" i / S "s.etabar" i;
    r1_dX1c : forall i, S "s.d_X1c_d_varphi" i = Dv (S "s.X1c") i;
    r1_dY1s : forall i, S "s.d_Y1s_d_varphi" i = Dv (S "s.Y1s") i;
    r1_dY1c : forall i, S "s.d_Y1c_d_varphi" i = Dv (S "s.Y1c") i
  }.

  Lemma axis_facts_of_stage VA : stage O init_axis S VA -> axis_facts.
  Proof.
    intros HA. pose proof (st_fix _ _ _ _ HA) as HV.
    constructor.
    - from_state HA. unfold_fixes O init_axis HV ("s.X1c" :: "s.curvature" :: nil)%list. reflexivity.
    - from_state HA. unfold_fixes O init_axis HV ("s.G0" :: "G0" :: "s.abs_G0_over_B0" :: nil)%list. reflexivity.
    - from_state HA.
      unfold_fixes O init_axis HV ("s.etabar_squared_over_curvature_squared" :: "s.curvature" :: nil)%list. reflexivity.
  Qed.

  Ltac prove_r1 P H1 :=
    let HV := fresh "HV" in
    pose proof (st_fix _ _ _ _ H1) as HV;
    constructor;
    [ from_state H1; unfold_fix O P HV "s.Y1s"; reflexivity
    | from_state H1; unfold_fix O P HV "s.Y1c"; reflexivity
    | intros i; unfold Dv; from_state H1; unfold_fix O P HV "s.d_X1c_d_varphi"; reflexivity
    | intros i; unfold Dv; from_state H1; unfold_fix O P HV "s.d_Y1s_d_varphi"; reflexivity
    | intros i; unfold Dv; from_state H1; unfold_fix O P HV "s.d_Y1c_d_varphi"; reflexivity ].
  Lemma r1_facts_of_stage_h0 V1 : stage O r1_diagnostics_h0 S V1 -> r1_facts.
  Proof. intros H1. prove_r1 r1_diagnostics_h0 H1. Qed.
  Lemma r1_facts_of_stage_hN V1 : stage O r1_diagnostics_hN S V1 -> r1_facts.
  Proof. intros H1. prove_r1 r1_diagnostics_hN H1. Qed.
End Facts.

(* compute a coefficient of a residual series as an explicit real expression in the atoms *)
Ltac compute_coef := cbv -[Rplus Rmult Ropp Rinv Rminus Rdiv IZR pow o_D Dv sigma_residual].

(* ------------------------------------------------------------------------------------------ *)
(* First order *)
Section R1.
  Context {I : Type} (O : ops I) (S : string -> I -> R).
  Hypothesis HD : derivation O.
  Hypothesis HA : axis_facts S.
  Hypothesis HR : r1_facts O S.
  Hypothesis Hadm : admissible S.
  Let HL : linear O := der_lin O HD.

  Notation kap := (S "s.curvature"). Notation eta := (S "s.etabar"). Notation sig := (S "s.sigma").
  Notation sG := (S "s.sG"). Notation spsi := (S "s.spsi"). Notation lp := (S "s.abs_G0_over_B0").
  Notation B0 := (S "s.B0").

  Ltac sign_cases i :=
    let HsG := fresh "HsG" in let Hsp := fresh "Hsp" in
    destruct (sq1_cases _ (adm_sG S Hadm i)) as [HsG|HsG];
    destruct (sq1_cases _ (adm_spsi S Hadm i)) as [Hsp|Hsp];
    rewrite ?HsG, ?Hsp.
  Ltac nonzero i :=
    pose proof (adm_eta S Hadm i); pose proof (adm_kappa S Hadm i);
    pose proof (Rgt_not_eq _ _ (adm_B0 S Hadm i)); pose proof (Rgt_not_eq _ _ (adm_lp S Hadm i));
    pose proof (adm_dvp S Hadm i).

  (* varphi-derivatives of the first-order shape, by Leibniz, in terms of d kappa and d sigma *)
  Lemma dX1c_formula i : S "s.d_X1c_d_varphi" i = - eta i * Dv O S kap i / (kap i * kap i).
  Proof.
    rewrite (r1_dX1c O S HR). unfold Dv. rewrite (ax_X1c S HA).
    destruct (adm_eta_const S Hadm) as [ce He]. rewrite He. unfold Rdiv at 2.
    rewrite (D_scal O HL ce (fun k => / kap k) i), (D_inv O HD kap (adm_kappa S Hadm) i).
    nonzero i. field. split; assumption.
  Qed.
  Lemma dY1s_formula i : S "s.d_Y1s_d_varphi" i = sG i * spsi i * Dv O S kap i / eta i.
  Proof.
    rewrite (r1_dY1s O S HR). unfold Dv. rewrite (r1_Y1s O S HR).
    destruct (adm_eta_const S Hadm) as [ce He]. destruct (adm_sG_const S Hadm) as [cg Hg].
    destruct (adm_spsi_const S Hadm) as [cp Hp]. pose proof (adm_eta S Hadm i) as Hne. rewrite He, Hg, Hp in *.
    unfold Rdiv at 2.
    rewrite (D_scal_r O HL (/ ce) (fun k => cg * cp * kap k) i), (D_scal O HL (cg * cp) kap i).
    nonzero i. field. split; assumption.
  Qed.
  Lemma dY1c_formula i :
    S "s.d_Y1c_d_varphi" i = sG i * spsi i * (Dv O S kap i * sig i + kap i * Dv O S sig i) / eta i.
  Proof.
    rewrite (r1_dY1c O S HR). unfold Dv. rewrite (r1_Y1c O S HR).
    destruct (adm_eta_const S Hadm) as [ce He]. destruct (adm_sG_const S Hadm) as [cg Hg].
    destruct (adm_spsi_const S Hadm) as [cp Hp]. pose proof (adm_eta S Hadm i) as Hne. rewrite He, Hg, Hp in *.
    unfold Rdiv at 2.
    rewrite (D_scal_r O HL (/ ce) (fun k => cg * cp * kap k * sig k) i).
    rewrite (D_mul O HD (fun k => cg * cp * kap k) sig i), (D_scal O HL (cg * cp) kap i).
    nonzero i. field. split; assumption.
  Qed.

  Section Claims.
    Variable i : I.
    Variable b : atoms.

    Ltac subst_r1 :=
      rewrite ?dX1c_formula, ?dY1s_formula, ?dY1c_formula;
      rewrite ?(ax_G0 S HA), ?(ax_X1c S HA), ?(r1_Y1s O S HR), ?(r1_Y1c O S HR); cbv beta.

    Theorem r1_claims : claims_r1 (with_first_order S i b).
    Proof.
      destruct b. unfold claims_r1, with_first_order. nonzero i.
      repeat split; compute_coef; repeat constructor; cbn [fst snd cv]; try reflexivity;
        subst_r1; sign_cases i; field; repeat split; assumption.
    Qed.

    (* the averaged O(r^2) condition IS the sigma equation (no use of the Newton solve here) *)
    Theorem pol3_avg_identity :
      tavg (pol (with_first_order S i b) 3%nat)
      = spsi i * B0 i * (kap i * kap i) / (2 * (eta i * eta i)) * sigma_residual O S i.
    Proof.
      destruct b. unfold with_first_order, sigma_residual. nonzero i.
      compute_coef. subst_r1. unfold Dv. sign_cases i; field; repeat split; assumption.
    Qed.
    Theorem crl1_identity :
      tcos (crl (with_first_order S i b) 1%nat) 0
      = spsi i * B0 i * (kap i * kap i) / (eta i * eta i) * sigma_residual O S i.
    Proof.
      destruct b. unfold with_first_order, sigma_residual. nonzero i.
      compute_coef. subst_r1. unfold Dv. sign_cases i; field; repeat split; assumption.
    Qed.
    Theorem r1_avg_claims : sigma_residual O S i = 0 -> claims_r1_avg (with_first_order S i b).
    Proof.
      intros Hs. split.
      - rewrite pol3_avg_identity, Hs. ring.
      - pose proof crl1_identity as Hc. rewrite Hs, Rmult_0_r in Hc. revert Hc.
        destruct b. unfold with_first_order. nonzero i.
        compute_coef. intros Hc.
        repeat constructor; cbn [fst snd cv]; try reflexivity; try exact Hc;
          subst_r1; sign_cases i; field; repeat split; assumption.
    Qed.
  End Claims.

  (* the Newton oracle: at the returned solution the residual program vanishes, hence sigma_residual = 0 *)
  Section Sigma.
    Variable VR : string -> I -> R.
    Hypothesis HRs : stage O residual S VR.
    Hypothesis Hsol : sigma_solved O S VR.
    Lemma sigma_residual_zero i : sigma_residual O S i = 0.
    Proof.
      destruct Hsol as (Hxs & Hxi & Hr & Hpin & HiN).
      pose proof (st_fix _ _ _ _ HRs) as HV.
      pose proof (Hr i) as Hri. revert Hri.
      unfold_fixes O residual HV ("r" :: "sigma#2" :: "sigma" :: "iota" :: nil)%list.
      rewrite Hxs, Hxi. to_state HRs.
      replace (o_pin O (S "s.sigma") (S "s.sigma0")) with (S "s.sigma")
        by (apply functional_extensionality; intros k; symmetry; apply Hpin).
      rewrite <- (HiN i). qsimp. rewrite (ax_E S HA). cbv beta. intros Hri.
      unfold sigma_residual. rewrite <- Hri. nonzero i. field. repeat split; assumption.
    Qed.
  End Sigma.
End R1.

(* ------------------------------------------------------------------------------------------ *)
(* Second order: facts extracted from calculate_r2 *)
Section Facts2.
  Context {I : Type} (O : ops I) (S : string -> I -> R).
  Notation kap := (S "s.curvature"). Notation eta := (S "s.etabar"). Notation sig := (S "s.sigma").
  Notation sG := (S "s.sG"). Notation spsi := (S "s.spsi"). Notation tau := (S "s.torsion").
  Notation B0 := (S "s.B0"). Notation iotaN := (S "s.iotaN").
  Notation X1c := (S "s.X1c"). Notation Y1c := (S "s.Y1c"). Notation Y1s := (S "s.Y1s").
  (* the code's local B0_over_abs_G0 and abs_G0_over_B0 *)
  Definition bl (i : I) : R := S "s.B0" i / Rabs (S "s.G0" i).
  Definition ll (i : I) : R := 1 / bl i.
  Definition q_s i := - iotaN i * X1c i - Y1s i * tau i * ll i.
  Definition q_c i := Dv O S X1c i - Y1c i * tau i * ll i.
  Definition r_s i := Dv O S Y1s i - iotaN i * Y1c i.
  Definition r_c i := Dv O S Y1c i + iotaN i * Y1s i + X1c i * tau i * ll i.

  Record r2_facts : Prop := {
    r2_Z20 : forall i, S "s.Z20" i = - bl i / 8 * Dv O S (fun k => X1c k * X1c k + Y1c k * Y1c k + Y1s k * Y1s k) i;
    r2_Z2s : forall i, S "s.Z2s" i = - bl i / 8 * (Dv O S (fun k => 2 * Y1s k * Y1c k) i
                                   - 2 * iotaN i * (X1c i * X1c i + Y1c i * Y1c i - Y1s i * Y1s i));
    r2_Z2c : forall i, S "s.Z2c" i = - bl i / 8 * (Dv O S (fun k => X1c k * X1c k + Y1c k * Y1c k - Y1s k * Y1s k) i
                                   + 2 * iotaN i * (2 * Y1s i * Y1c i));
    r2_X2s : forall i, S "s.X2s" i = bl i * (S "s.d_Z2s_d_varphi" i - 2 * iotaN i * S "s.Z2c" i
                 + bl i * (ll i * ll i * S "s.B2s" i / B0 i + (q_c i * q_s i + r_c i * r_s i) / 2)) / kap i;
    r2_X2c : forall i, S "s.X2c" i = bl i * (S "s.d_Z2c_d_varphi" i + 2 * iotaN i * S "s.Z2s" i
                 - bl i * (- ll i * ll i * S "s.B2c" i / B0 i + ll i * ll i * eta i * eta i / 2
                           - (q_c i * q_c i - q_s i * q_s i + r_c i * r_c i - r_s i * r_s i) / 4)) / kap i;
    r2_Y2s : forall i, S "s.Y2s" i = alg_Y2s S "s.X20" i;
    r2_Y2c : forall i, S "s.Y2c" i = alg_Y2c S "s.X20" "s.Y20" i;
    r2_B20 : forall i, S "s.B20" i = B0 i * (kap i * S "s.X20" i - bl i * S "s.d_Z20_d_varphi" i + eta i * eta i / 2
                 - mu0R * S "s.p2" i / (B0 i * B0 i)
                 - bl i * bl i / 4 * (q_c i * q_c i + q_s i * q_s i + r_c i * r_c i + r_s i * r_s i));
    r2_G2 : forall i, S "s.G2" i = - mu0R * S "s.p2" i * S "s.G0" i / (B0 i * B0 i) - S "s.iota" i * S "s.I2" i;
    r2_dX20 : forall i, S "s.d_X20_d_varphi" i = Dv O S (S "s.X20") i;
    r2_dX2s : forall i, S "s.d_X2s_d_varphi" i = Dv O S (S "s.X2s") i;
    r2_dX2c : forall i, S "s.d_X2c_d_varphi" i = Dv O S (S "s.X2c") i;
    r2_dY20 : forall i, S "s.d_Y20_d_varphi" i = Dv O S (S "s.Y20") i;
    r2_dY2s : forall i, S "s.d_Y2s_d_varphi" i = Dv O S (S "s.Y2s") i;
    r2_dY2c : forall i, S "s.d_Y2c_d_varphi" i = Dv O S (S "s.Y2c") i;
    r2_ode1 : forall i, ode1 O S "s.X20" "s.Y20" i = 0;
    r2_ode2 : forall i, ode2 O S "s.X20" "s.Y20" i = 0
  }.

  Hypothesis HL : linear O.

  Ltac core P HV H2 l :=
    intros i; unfold q_s, q_c, r_s, r_c, ll, bl, alg_Y2s, alg_Y2c; unfold Dv; from_state H2; unfold_fixes O P HV l; qsimp; unfold Rdiv; try reflexivity; ring.
  Ltac prep O P HV :=
    unfold_fixes O P HV
      ("fX0_from_X20" :: "fX0_from_Y20" :: "fX0_inhomogeneous"
       :: "fXs_from_X20" :: "fXs_from_Y20" :: "fXs_inhomogeneous"
       :: "fXc_from_X20" :: "fXc_from_Y20" :: "fXc_inhomogeneous"
       :: "fY0_from_X20" :: "fY0_from_Y20" :: "fY0_inhomogeneous"
       :: "fYs_from_X20" :: "fYs_from_Y20" :: "fYs_inhomogeneous"
       :: "fYc_from_X20" :: "fYc_from_Y20" :: "fYc_inhomogeneous"
       :: "s.X20" :: "X20" :: "s.Y20" :: "Y20" :: "s.Y2s" :: "Y2s" :: "s.Y2c" :: "Y2c" :: "X20" :: "Y20"
       :: "s.X2s" :: "s.X2c" :: "s.Z20" :: "s.Z2s" :: "s.Z2c" :: "s.beta_1s"
       :: "X1c" :: "Y1s" :: "Y1c" :: "torsion" :: "curvature" :: "iota_N" :: "spsi" :: "sG"
       :: "I2_over_B0" :: "abs_G0_over_B0" :: "B0_over_abs_G0" :: nil)%list.
  Ltac prove_ode P HV H2 Hz eqname :=
    intros i; rewrite <- (Hz i);
    unfold ode1, ode2, fX0, fXs, fXc, fY0, fYs, fYc, C04_spec.Dv, C04_spec.lp; from_state H2;
    unfold_fix O P HV eqname; prep O P HV;
    rewrite !(D_add O HL); qsimp; unfold Rdiv; ring.
  Ltac prove_r2 P H2 Hz0 Hz1 :=
    let HV := fresh "HV" in
    pose proof (st_fix _ _ _ _ H2) as HV;
    constructor;
    [ core P HV H2 ("s.Z20" :: "Z20" :: "factor" :: "V1" :: "B0_over_abs_G0" :: "X1c" :: "Y1c" :: "Y1s" :: nil)%list
    | core P HV H2 ("s.Z2s" :: "Z2s" :: "factor" :: "V2" :: "V3" :: "B0_over_abs_G0" :: "iota_N" :: "X1c" :: "Y1c" :: "Y1s" :: nil)%list
    | core P HV H2 ("s.Z2c" :: "Z2c" :: "factor" :: "V2" :: "V3" :: "B0_over_abs_G0" :: "iota_N" :: "X1c" :: "Y1c" :: "Y1s" :: nil)%list
    | core P HV H2 ("s.X2s" :: "X2s" :: "s.d_Z2s_d_varphi" :: "s.Z2c" :: "qc" :: "qs" :: "rc" :: "rs" :: "abs_G0_over_B0" :: "B0_over_abs_G0"
                     :: "iota_N" :: "B2s" :: "B0" :: "curvature" :: "torsion" :: "X1c" :: "Y1c" :: "Y1s" :: nil)%list
    | core P HV H2 ("s.X2c" :: "X2c" :: "s.d_Z2c_d_varphi" :: "s.Z2s" :: "qc" :: "qs" :: "rc" :: "rs" :: "abs_G0_over_B0" :: "B0_over_abs_G0"
                     :: "iota_N" :: "B2c" :: "B0" :: "etabar" :: "curvature" :: "torsion" :: "X1c" :: "Y1c" :: "Y1s" :: nil)%list
    | core P HV H2 ("s.Y2s" :: "Y2s" :: "Y2s_inhomogeneous" :: "Y2s_from_X20" :: "s.X20" :: "X20" :: "s.X2s" :: "s.X2c"
                     :: "sigma" :: "curvature" :: "etabar" :: "spsi" :: "sG" :: nil)%list
    | core P HV H2 ("s.Y2c" :: "Y2c" :: "Y2c_inhomogeneous" :: "Y2c_from_X20" :: "s.X20" :: "X20" :: "s.Y20" :: "Y20" :: "s.X2s" :: "s.X2c"
                     :: "sigma" :: "curvature" :: "etabar" :: "spsi" :: "sG" :: nil)%list
    | core P HV H2 ("s.B20" :: "B20" :: "s.X20" :: "X20" :: "s.d_Z20_d_varphi" :: "qc" :: "qs" :: "rc" :: "rs" :: "abs_G0_over_B0" :: "B0_over_abs_G0"
                     :: "iota_N" :: "p2" :: "B0" :: "etabar" :: "curvature" :: "torsion" :: "X1c" :: "Y1c" :: "Y1s" :: nil)%list
    | core P HV H2 ("s.G2" :: "p2" :: "G0" :: "B0" :: "iota" :: "I2" :: nil)%list
    | core P HV H2 ("s.d_X20_d_varphi" :: "s.X20" :: nil)%list
    | core P HV H2 ("s.d_X2s_d_varphi" :: "s.X2s" :: nil)%list
    | core P HV H2 ("s.d_X2c_d_varphi" :: "s.X2c" :: nil)%list
    | core P HV H2 ("s.d_Y20_d_varphi" :: "s.Y20" :: nil)%list
    | core P HV H2 ("s.d_Y2s_d_varphi" :: "s.Y2s" :: nil)%list
    | core P HV H2 ("s.d_Y2c_d_varphi" :: "s.Y2c" :: nil)%list
    | prove_ode P HV H2 Hz0 "solve1_eq0"
    | prove_ode P HV H2 Hz1 "solve1_eq1" ].

  Lemma r2_facts_of_stage_h0 V2 : stage O calculate_r2_h0 S V2 ->
    (forall i, V2 "solve1_eq0" i = 0) -> (forall i, V2 "solve1_eq1" i = 0) -> r2_facts.
  Proof. intros H2 Hz0 Hz1. prove_r2 calculate_r2_h0 H2 Hz0 Hz1. Qed.
  Lemma r2_facts_of_stage_hN V2 : stage O calculate_r2_hN S V2 ->
    (forall i, V2 "solve1_eq0" i = 0) -> (forall i, V2 "solve1_eq1" i = 0) -> r2_facts.
  Proof. intros H2 Hz0 Hz1. prove_r2 calculate_r2_hN H2 Hz0 Hz1. Qed.
End Facts2.

(* ------------------------------------------------------------------------------------------ *)
(* Second order: claims *)
Section R2.
  Context {I : Type} (O : ops I) (S : string -> I -> R).
  Hypothesis HD : derivation O.
  Hypothesis HA : axis_facts S.
  Hypothesis HR : r1_facts O S.
  Hypothesis H2 : r2_facts O S.
  Hypothesis Hadm : admissible S.
  Hypothesis Hsig : forall i, sigma_residual O S i = 0.
  Let HL : linear O := der_lin O HD.

  Notation kap := (S "s.curvature"). Notation eta := (S "s.etabar"). Notation sig := (S "s.sigma").
  Notation sG := (S "s.sG"). Notation spsi := (S "s.spsi"). Notation lp := (S "s.abs_G0_over_B0").
  Notation B0 := (S "s.B0"). Notation iotaN := (S "s.iotaN"). Notation tau := (S "s.torsion").
  Notation X1c := (S "s.X1c"). Notation Y1c := (S "s.Y1c"). Notation Y1s := (S "s.Y1s").
  Notation dX1c := (S "s.d_X1c_d_varphi"). Notation dY1c := (S "s.d_Y1c_d_varphi"). Notation dY1s := (S "s.d_Y1s_d_varphi").

  Ltac sign_cases i :=
    let HsG := fresh "HsG" in let Hsp := fresh "Hsp" in
    destruct (sq1_cases _ (adm_sG S Hadm i)) as [HsG|HsG];
    destruct (sq1_cases _ (adm_spsi S Hadm i)) as [Hsp|Hsp];
    rewrite ?HsG, ?Hsp.
  Ltac nonzero i :=
    pose proof (adm_eta S Hadm i); pose proof (adm_kappa S Hadm i);
    pose proof (Rgt_not_eq _ _ (adm_B0 S Hadm i)); pose proof (Rgt_not_eq _ _ (adm_lp S Hadm i));
    pose proof (adm_dvp S Hadm i).

  Lemma bl_lp i : bl S i = / lp i.
  Proof.
    unfold bl. rewrite (ax_G0 S HA). cbv beta.
    pose proof (adm_B0 S Hadm i) as Hb. pose proof (adm_lp S Hadm i) as Hl.
    rewrite !Rabs_mult, (Rabs_pos_eq (lp i)), (Rabs_pos_eq (B0 i)) by lra.
    assert (Hs : Rabs (sG i) = 1).
    { destruct (sq1_cases _ (adm_sG S Hadm i)) as [E|E]; rewrite E; unfold Rabs; destruct Rcase_abs; lra. }
    rewrite Hs. field. split; lra.
  Qed.
  Lemma ll_lp i : ll S i = lp i.
  Proof. unfold ll. rewrite bl_lp. pose proof (adm_lp S Hadm i). field. lra. Qed.

  Lemma Z20_formula i : S "s.Z20" i = - / lp i / 8 * (2 * (X1c i * dX1c i + Y1c i * dY1c i + Y1s i * dY1s i)).
  Proof.
    rewrite (r2_Z20 O S H2), bl_lp, (r1_dX1c O S HR), (r1_dY1c O S HR), (r1_dY1s O S HR). unfold Dv.
    rewrite !(D_add O HL), !(D_mul O HD). nonzero i. field. split; assumption.
  Qed.
  Lemma Z2s_formula i : S "s.Z2s" i = - / lp i / 8 * (2 * (dY1s i * Y1c i + Y1s i * dY1c i)
                                     - 2 * iotaN i * (X1c i * X1c i + Y1c i * Y1c i - Y1s i * Y1s i)).
  Proof.
    rewrite (r2_Z2s O S H2), bl_lp, (r1_dY1c O S HR), (r1_dY1s O S HR). unfold Dv.
    rewrite (D_mul O HD (fun k => 2 * Y1s k) Y1c i), (D_scal O HL 2 Y1s i). nonzero i. field. split; assumption.
  Qed.
  Lemma Z2c_formula i : S "s.Z2c" i = - / lp i / 8 * (2 * (X1c i * dX1c i + Y1c i * dY1c i - Y1s i * dY1s i)
                                     + 2 * iotaN i * (2 * Y1s i * Y1c i)).
  Proof.
    rewrite (r2_Z2c O S H2), bl_lp, (r1_dX1c O S HR), (r1_dY1c O S HR), (r1_dY1s O S HR). unfold Dv.
    rewrite (D_sub O HL), !(D_add O HL), !(D_mul O HD). nonzero i. field. split; assumption.
  Qed.

  Section Claims.
    Variable i : I.
    Variable b : atoms.
    Ltac start := destruct b; unfold with_second_order, atoms_of; nonzero i.
    Ltac split_coefs := compute_coef; repeat first [apply Forall_nil | apply Forall_cons | split]; cbn [fst snd cv]; try reflexivity.

    Lemma rad1 : tzero (rad (with_second_order S i b) 1%nat).
    Proof.
      start. split_coefs; rewrite ?Z20_formula, ?Z2s_formula, ?Z2c_formula; field; assumption.
    Qed.
    Ltac subst_r1 :=
      rewrite ?(ax_G0 S HA), ?(ax_X1c S HA), ?(r1_Y1s O S HR), ?(r1_Y1c O S HR); cbv beta.
    Ltac subst_r1d :=
      rewrite ?(dX1c_formula O S HD HA HR Hadm), ?(dY1s_formula O S HD HR Hadm), ?(dY1c_formula O S HD HR Hadm).
    Ltac subst_Z := rewrite ?Z20_formula, ?Z2s_formula, ?Z2c_formula.
    Ltac subst_Y2 := rewrite ?(r2_Y2s O S H2), ?(r2_Y2c O S H2); unfold alg_Y2s, alg_Y2c.

    Lemma Dsig_formula : Dv O S sig i
      = 2 * (eta i * eta i / (kap i * kap i)) * (- spsi i * tau i + S "s.I2" i / B0 i) * S "s.G0" i / B0 i
        - iotaN i * (eta i ^ 4 / kap i ^ 4 + 1 + sig i * sig i).
    Proof. pose proof (Hsig i) as K. unfold sigma_residual in K. unfold Dv. lra. Qed.

    Lemma pol3 : tzero (pol (with_second_order S i b) 3%nat).
    Proof.
      pose proof (pol3_avg_identity O S HD HA HR Hadm i (atoms_of S i)) as K. rewrite Hsig, Rmult_0_r in K.
      start. split_coefs; [exact K | |]; subst_Z; field; assumption.
    Qed.
    Lemma tor2 : tzero (tor (with_second_order S i b) 2%nat).
    Proof.
      start. split_coefs; subst_Y2; subst_r1; sign_cases i; field; repeat split; assumption.
    Qed.
    Lemma jac2 : tzero (jac (with_second_order S i b) 2%nat).
    Proof.
      start. split_coefs; subst_Y2; subst_r1; sign_cases i; field; repeat split; assumption.
    Qed.
    Lemma modB2 : tzero (modB (with_second_order S i b) 2%nat).
    Proof.
      start. split_coefs.
      - rewrite (r2_B20 O S H2), (r2_G2 O S H2). unfold q_c, q_s, r_c, r_s. rewrite ll_lp, bl_lp.
        rewrite <- ?(r1_dX1c O S HR), <- ?(r1_dY1c O S HR), <- ?(r1_dY1s O S HR).
        subst_r1d. rewrite Dsig_formula. subst_r1. sign_cases i; field; repeat split; assumption.
      - rewrite (r2_X2c O S H2). unfold q_c, q_s, r_c, r_s. rewrite ll_lp, bl_lp.
        rewrite <- ?(r1_dX1c O S HR), <- ?(r1_dY1c O S HR), <- ?(r1_dY1s O S HR).
        subst_Z. subst_r1. sign_cases i; field; repeat split; assumption.
      - rewrite (r2_X2s O S H2). unfold q_c, q_s, r_c, r_s. rewrite ll_lp, bl_lp.
        rewrite <- ?(r1_dX1c O S HR), <- ?(r1_dY1c O S HR), <- ?(r1_dY1s O S HR).
        subst_Z. subst_r1. sign_cases i; field; repeat split; assumption.
    Qed.

    Ltac subst_d2 :=
      rewrite ?(r2_dX20 O S H2), ?(r2_dX2s O S H2), ?(r2_dX2c O S H2), ?(r2_dY20 O S H2), ?(r2_dY2s O S H2), ?(r2_dY2c O S H2);
      unfold Dv, C04_spec.Dv.
    Ltac use_ode c E Hode :=
      match goal with |- ?L = 0 => transitivity (c * E); [ | rewrite Hode; ring] end;
      unfold ode1, ode2, fX0, fXs, fXc, fY0, fYs, fYc, C04_spec.lp;
      change (S "s.B0" i / Rabs (S "s.G0" i)) with (bl S i); rewrite bl_lp;
      subst_d2; subst_Y2; subst_Z; subst_r1d; rewrite ?Dsig_formula; subst_r1; unfold Dv.
    Lemma crl2 : tzero (crl (with_second_order S i b) 2%nat).
    Proof.
      start. split_coefs; try ring.
      - use_ode (-2 * spsi i * B0 i) (ode1 O S "s.X20" "s.Y20" i) (r2_ode1 O S H2 i).
        sign_cases i; field; repeat split; assumption.
      - use_ode (2 * spsi i * B0 i) (ode2 O S "s.X20" "s.Y20" i) (r2_ode2 O S H2 i).
        sign_cases i; field; repeat split; assumption.
    Qed.
  End Claims.
End R2.
