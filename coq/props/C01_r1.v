(* C01 (split for parallel compilation): first order: claims, the averaged pol[r^3] <-> sigma-equation identity, closed theorems *)
From Coq Require Import Reals String List Lra Lia QArith Qreals FunctionalExtensionality.
From QSC Require Import Expr Shallow Series.
From QSCGen Require Import G_init_axis G_r1_diagnostics G_residual G_calculate_r2 G_calculate_r3.
From QSCProps Require Import C04_spec C01_spec C01_common.
Open Scope R_scope.
Open Scope string_scope.

(* ------------------------------------------------------------------------------------------ *)
(* First order *)
Section R1.
  Context {I : Type} (O : ops I) (S : string -> I -> R).
  Hypothesis HD : derivation O.
  Hypothesis HA : axis_facts S.
  Hypothesis HR : r1_facts O S.
  Hypothesis Hadm : admissible S.
  Let HL : linear O := der_lin O HD.

  Notation kap := (S "s.curvature"). Notation eta := (S "s.etabar"). Notation sig := (S "s.sigma").
  Notation sG := (S "s.sG"). Notation spsi := (S "s.spsi"). Notation lp := (S "s.abs_G0_over_B0").
  Notation B0 := (S "s.B0").

  Ltac sign_cases i :=
    let HsG := fresh "HsG" in let Hsp := fresh "Hsp" in
    destruct (sq1_cases _ (adm_sG S Hadm i)) as [HsG|HsG];
    destruct (sq1_cases _ (adm_spsi S Hadm i)) as [Hsp|Hsp];
    rewrite ?HsG, ?Hsp.
  Ltac nonzero i :=
    pose proof (adm_eta S Hadm i); pose proof (adm_kappa S Hadm i);
    pose proof (Rgt_not_eq _ _ (adm_B0 S Hadm i)); pose proof (Rgt_not_eq _ _ (adm_lp S Hadm i));
    pose proof (adm_dvp S Hadm i).

  (* varphi-derivatives of the first-order shape, by Leibniz, in terms of d kappa and d sigma *)
  Lemma dX1c_formula i : S "s.d_X1c_d_varphi" i = - eta i * Dv O S kap i / (kap i * kap i).
  Proof.
    rewrite (r1_dX1c O S HR). unfold Dv. rewrite (ax_X1c S HA).
    destruct (adm_eta_const S Hadm) as [ce He]. rewrite He. unfold Rdiv at 2.
    rewrite (D_scal O HL ce (fun k => / kap k) i), (D_inv O HD kap (adm_kappa S Hadm) i).
    nonzero i. field. split; assumption.
  Qed.
  Lemma dY1s_formula i : S "s.d_Y1s_d_varphi" i = sG i * spsi i * Dv O S kap i / eta i.
  Proof.
    rewrite (r1_dY1s O S HR). unfold Dv. rewrite (r1_Y1s O S HR).
    destruct (adm_eta_const S Hadm) as [ce He]. destruct (adm_sG_const S Hadm) as [cg Hg].
    destruct (adm_spsi_const S Hadm) as [cp Hp]. pose proof (adm_eta S Hadm i) as Hne. rewrite He, Hg, Hp in *.
    unfold Rdiv at 2.
    rewrite (D_scal_r O HL (/ ce) (fun k => cg * cp * kap k) i), (D_scal O HL (cg * cp) kap i).
    nonzero i. field. split; assumption.
  Qed.
  Lemma dY1c_formula i :
    S "s.d_Y1c_d_varphi" i = sG i * spsi i * (Dv O S kap i * sig i + kap i * Dv O S sig i) / eta i.
  Proof.
    rewrite (r1_dY1c O S HR). unfold Dv. rewrite (r1_Y1c O S HR).
    destruct (adm_eta_const S Hadm) as [ce He]. destruct (adm_sG_const S Hadm) as [cg Hg].
    destruct (adm_spsi_const S Hadm) as [cp Hp]. pose proof (adm_eta S Hadm i) as Hne. rewrite He, Hg, Hp in *.
    unfold Rdiv at 2.
    rewrite (D_scal_r O HL (/ ce) (fun k => cg * cp * kap k * sig k) i).
    rewrite (D_mul O HD (fun k => cg * cp * kap k) sig i), (D_scal O HL (cg * cp) kap i).
    nonzero i. field. split; assumption.
  Qed.

  Section Claims.
    Variable i : I.
    Variable b : atoms.

    Ltac subst_r1 :=
      rewrite ?dX1c_formula, ?dY1s_formula, ?dY1c_formula;
      rewrite ?(ax_G0 S HA), ?(ax_X1c S HA), ?(r1_Y1s O S HR), ?(r1_Y1c O S HR); cbv beta.

    Theorem r1_claims : claims_r1 (with_first_order S i b).
    Proof.
      destruct b. unfold claims_r1, with_first_order. nonzero i.
      repeat split; compute_coef; repeat constructor; cbn [fst snd cv]; try reflexivity;
        subst_r1; sign_cases i; field; repeat split; assumption.
    Qed.

    (* the averaged O(r^2) condition IS the sigma equation (no use of the Newton solve here) *)
    Theorem pol3_avg_identity :
      tavg (pol (with_first_order S i b) 3%nat)
      = spsi i * B0 i * (kap i * kap i) / (2 * (eta i * eta i)) * sigma_residual O S i.
    Proof.
      destruct b. unfold with_first_order, sigma_residual. nonzero i.
      compute_coef. subst_r1. unfold Dv. sign_cases i; field; repeat split; assumption.
    Qed.
    Theorem crl1_identity :
      tcos (crl (with_first_order S i b) 1%nat) 0
      = spsi i * B0 i * (kap i * kap i) / (eta i * eta i) * sigma_residual O S i.
    Proof.
      destruct b. unfold with_first_order, sigma_residual. nonzero i.
      compute_coef. subst_r1. unfold Dv. sign_cases i; field; repeat split; assumption.
    Qed.
    Theorem r1_avg_claims : sigma_residual O S i = 0 -> claims_r1_avg (with_first_order S i b).
    Proof.
      intros Hs. split.
      - rewrite pol3_avg_identity, Hs. ring.
      - pose proof crl1_identity as Hc. rewrite Hs, Rmult_0_r in Hc. revert Hc.
        destruct b. unfold with_first_order. nonzero i.
        compute_coef. intros Hc.
        repeat constructor; cbn [fst snd cv]; try reflexivity; try exact Hc;
          subst_r1; sign_cases i; field; repeat split; assumption.
    Qed.
  End Claims.

  (* the Newton oracle: at the returned solution the residual program vanishes, hence sigma_residual = 0 *)
  Section Sigma.
    Variable VR : string -> I -> R.
    Hypothesis HRs : stage O residual S VR.
    Hypothesis Hsol : sigma_solved O S VR.
    Lemma sigma_residual_zero i : sigma_residual O S i = 0.
    Proof.
      destruct Hsol as (Hxs & Hxi & Hr & Hpin & HiN).
      pose proof (st_fix _ _ _ _ HRs) as HV.
      pose proof (Hr i) as Hri. revert Hri.
      unfold_fixes O residual HV ("r" :: "sigma#2" :: "sigma" :: "iota" :: nil)%list.
      rewrite Hxs, Hxi. to_state HRs.
      replace (o_pin O (S "s.sigma") (S "s.sigma0")) with (S "s.sigma")
        by (apply functional_extensionality; intros k; symmetry; apply Hpin).
      rewrite <- (HiN i). qsimp. rewrite (ax_E S HA). cbv beta. intros Hri.
      unfold sigma_residual. rewrite <- Hri. nonzero i. field. repeat split; assumption.
    Qed.
  End Sigma.
End R1.

(* Closed statements: for every index type, every operator structure whose o_D is a derivation, every object
   state S and all models of the regenerated programs agreeing with S on attributes.  h0 / hN are the two
   helicity variants of the translated functions. *)
Definition r1_hyps {I : Type} (O : ops I) (S : string -> I -> R) (P1 : prog) : Prop :=
  derivation O /\ admissible S
  /\ (exists VA, stage O init_axis S VA) /\ (exists V1, stage O P1 S V1)
  /\ (exists VR, stage O residual S VR /\ sigma_solved O S VR).
Section Closed1.
  Context {I : Type} (O : ops I) (S : string -> I -> R).

  (* order r1; [b] supplies arbitrary values for every attribute of order >= 2 *)
  Definition C01_r1_statement (P1 : prog) : Prop :=
    r1_hyps O S P1 -> forall i b,
      claims_r1 (with_first_order S i b) /\ claims_r1_avg (with_first_order S i b)
      /\ tavg (pol (with_first_order S i b) 3%nat)
          = S "s.spsi" i * S "s.B0" i * (S "s.curvature" i * S "s.curvature" i) / (2 * (S "s.etabar" i * S "s.etabar" i))
            * sigma_residual O S i.
  Lemma C01_r1_gen P1 : (forall V1, stage O P1 S V1 -> r1_facts O S) -> C01_r1_statement P1.
  Proof.
    intros F (HD & Hadm & [VA HA] & [V1 H1] & [VR [HRs Hsol]]) i b.
    pose proof (axis_facts_of_stage O S VA HA) as FA. pose proof (F V1 H1) as FR.
    first [ pose proof (sigma_residual_zero O S FA Hadm VR HRs Hsol) as Hs
          | pose proof (sigma_residual_zero O S HD FA FR Hadm VR HRs Hsol) as Hs
          | pose proof (sigma_residual_zero O S HD FA Hadm VR HRs Hsol) as Hs ].
    split; [first [exact (r1_claims O S FA FR Hadm i b) | exact (r1_claims O S HD FA FR Hadm i b)]|]. split.
    - exact (r1_avg_claims O S HD FA FR Hadm i b (Hs i)).
    - exact (pol3_avg_identity O S HD FA FR Hadm i b).
  Qed.
  Theorem C01_r1_h0 : C01_r1_statement r1_diagnostics_h0.
  Proof. apply C01_r1_gen. apply r1_facts_of_stage_h0. Qed.
  Theorem C01_r1_hN : C01_r1_statement r1_diagnostics_hN.
  Proof. apply C01_r1_gen. apply r1_facts_of_stage_hN. Qed.

End Closed1.

Print Assumptions C01_r1_h0.
Print Assumptions C01_r1_hN.
