(* C09: the grad B tensor.  Proofs of the statements of props/C09_spec.v on the programs
   regenerated from init_axis, r1_diagnostics (both helicity variants), calculate_grad_B_tensor,
   Bfield_cylindrical (r <> 0), grad_B_tensor_cartesian and _residual.

   Structure: the facts needed from init_axis ([axis_facts]) and from r1_diagnostics ([r1_facts],
   identical for the h0 and hN variants) are extracted once as equations on the object state S;
   the theorems are proved from these records ([*_gen]) and then instantiated for both variants. *)
From Coq Require Import Reals String List Lra Lia QArith Qreals FunctionalExtensionality.
From QSC Require Import Expr Shallow.
From QSCGen Require Import G_init_axis G_r1_diagnostics G_calculate_grad_B_tensor G_Bfield_cylindrical
     G_grad_B_tensor_cartesian G_residual.
From QSCProps Require Import C09_spec.
Open Scope R_scope.
Open Scope string_scope.

(* rewrite every attribute read S "s.x" into V "s.x" (inverse of Shallow.to_state) *)
Ltac from_state Hst :=
  repeat match goal with
         | |- context [?S0 (String ?a ?b)] =>
             lazymatch type of Hst with
             | stage _ _ S0 ?V =>
                 let x := constr:(String a b) in
                 let t := eval vm_compute in (is_attr x) in
                 lazymatch t with
                 | true => rewrite <- (st_agree _ _ _ _ Hst x (eq_refl true))
                 end
             end
         end.

Lemma Q2R_0 : Q2R (0#1) = 0.
Proof. unfold Q2R; simpl; lra. Qed.

Lemma sq1_cases (x : R) : x * x = 1 -> x = 1 \/ x = -1.
Proof.
  intros H. assert (H0 : (x - 1) * (x + 1) = 0) by (ring_simplify; rewrite <- H; ring).
  apply Rmult_integral in H0. destruct H0; [left|right]; lra.
Qed.

(* ------------------------------------------------------------------------------------------ *)
(* Pure real lemma for T5: the Frobenius norm of  M_ij = sum_ab C_ab e_a[j] e_b[i]  is the
   Frobenius norm of C when the rows e_0, e_1, e_2 are orthonormal. *)
Definition sum3 (f : nat -> R) : R := f 0%nat + f 1%nat + f 2%nat.
Definition sel3 {A : Type} (x y z : A) (k : nat) : A :=
  match k with 0%nat => x | 1%nat => y | _ => z end.

Section FrobOrth.
  Variables e C : nat -> nat -> R.
  Definition Mec (i j : nat) : R := sum3 (fun a => sum3 (fun b => C a b * e a j * e b i)).
  Definition Gram (a c : nat) : R := sum3 (fun k => e a k * e c k).

  Lemma frob_quad :
    sum3 (fun i => sum3 (fun j => Mec i j * Mec i j))
    = sum3 (fun a => sum3 (fun b => sum3 (fun c => sum3 (fun d => C a b * C c d * Gram a c * Gram b d)))).
  Proof. cbv [sum3 Mec Gram]. ring. Qed.

  Hypothesis H00 : Gram 0 0 = 1.
  Hypothesis H11 : Gram 1 1 = 1.
  Hypothesis H22 : Gram 2 2 = 1.
  Hypothesis H01 : Gram 0 1 = 0.
  Hypothesis H02 : Gram 0 2 = 0.
  Hypothesis H12 : Gram 1 2 = 0.

  Lemma frob_orth :
    sum3 (fun i => sum3 (fun j => Mec i j * Mec i j)) = sum3 (fun a => sum3 (fun b => C a b * C a b)).
  Proof.
    assert (H10 : Gram 1 0 = 0) by (rewrite <- H01; cbv [Gram sum3]; ring).
    assert (H20 : Gram 2 0 = 0) by (rewrite <- H02; cbv [Gram sum3]; ring).
    assert (H21 : Gram 2 1 = 0) by (rewrite <- H12; cbv [Gram sum3]; ring).
    rewrite frob_quad. cbv [sum3].
    rewrite H00, H11, H22, H01, H02, H12, H10, H20, H21. ring.
  Qed.
End FrobOrth.

(* ------------------------------------------------------------------------------------------ *)
(* Facts extracted from init_axis and r1_diagnostics, as equations on the object state *)
Section Facts.
  Context {I : Type} (O : ops I) (S : string -> I -> R).

  Record axis_facts : Prop := {
    ax_X1c : S "s.X1c" = fun i => S "s.etabar" i / S "s.curvature" i;
    ax_X1s : S "s.X1s" = fun _ => 0;
    ax_lp : S "s.d_l_d_varphi" = S "s.abs_G0_over_B0";
    ax_G0 : S "s.G0" = fun i => S "s.sG" i * S "s.abs_G0_over_B0" i * S "s.B0" i;
    ax_E : S "s.etabar_squared_over_curvature_squared"
           = fun i => S "s.etabar" i * S "s.etabar" i / (S "s.curvature" i * S "s.curvature" i)
  }.

  Record r1_facts : Prop := {
    r1_Y1s : S "s.Y1s" = fun i => S "s.sG" i * S "s.spsi" i * S "s.curvature" i / S "s.etabar" i;
    r1_Y1c : S "s.Y1c" = fun i => S "s.sG" i * S "s.spsi" i * S "s.curvature" i * S "s.sigma" i / S "s.etabar" i;
    r1_dX1c : forall i, S "s.d_X1c_d_varphi" i = o_D O (S "s.X1c") i / S "s.d_varphi_d_phi" i;
    r1_dX1s : forall i, S "s.d_X1s_d_varphi" i = o_D O (S "s.X1s") i / S "s.d_varphi_d_phi" i;
    r1_dY1s : forall i, S "s.d_Y1s_d_varphi" i = o_D O (S "s.Y1s") i / S "s.d_varphi_d_phi" i;
    r1_dY1c : forall i, S "s.d_Y1c_d_varphi" i = o_D O (S "s.Y1c") i / S "s.d_varphi_d_phi" i
  }.

  Lemma axis_facts_of_stage VA : stage O init_axis S VA -> axis_facts.
  Proof.
    intros HA. pose proof (st_fix _ _ _ _ HA) as HV.
    constructor.
    - from_state HA. unfold_fixes O init_axis HV ("s.X1c" :: "s.curvature" :: nil)%list. reflexivity.
    - from_state HA. unfold_fix O init_axis HV "s.X1s". rewrite Q2R_0. reflexivity.
    - from_state HA. unfold_fixes O init_axis HV ("s.d_l_d_varphi" :: "s.abs_G0_over_B0" :: nil)%list. reflexivity.
    - from_state HA. unfold_fixes O init_axis HV ("s.G0" :: "G0" :: "s.abs_G0_over_B0" :: nil)%list. reflexivity.
    - from_state HA.
      unfold_fixes O init_axis HV ("s.etabar_squared_over_curvature_squared" :: "s.curvature" :: nil)%list. reflexivity.
  Qed.

  Ltac prove_r1 P H1 :=
    let HV := fresh "HV" in
    pose proof (st_fix _ _ _ _ H1) as HV;
    constructor;
    [ from_state H1; unfold_fix O P HV "s.Y1s"; reflexivity
    | from_state H1; unfold_fix O P HV "s.Y1c"; reflexivity
    | intros i; from_state H1; unfold_fix O P HV "s.d_X1c_d_varphi"; reflexivity
    | intros i; from_state H1; unfold_fix O P HV "s.d_X1s_d_varphi"; reflexivity
    | intros i; from_state H1; unfold_fix O P HV "s.d_Y1s_d_varphi"; reflexivity
    | intros i; from_state H1; unfold_fix O P HV "s.d_Y1c_d_varphi"; reflexivity ].

  Lemma r1_facts_of_stage_h0 V1 : stage O r1_diagnostics_h0 S V1 -> r1_facts.
  Proof. intros H1. prove_r1 r1_diagnostics_h0 H1. Qed.
  Lemma r1_facts_of_stage_hN V1 : stage O r1_diagnostics_hN S V1 -> r1_facts.
  Proof. intros H1. prove_r1 r1_diagnostics_hN H1. Qed.
End Facts.

(* ------------------------------------------------------------------------------------------ *)
(* T1, T2, T3 from the extracted facts *)
Section Main.
  Context {I : Type} (O : ops I) (S : string -> I -> R).
  Hypothesis HA : axis_facts S.
  Hypothesis HR : r1_facts O S.
  Hypothesis Hadm : admissible S.
  Variable VG : string -> I -> R.
  Hypothesis HG : stage O calculate_grad_B_tensor S VG.

  Lemma X1cY1s i : S "s.X1c" i * S "s.Y1s" i = S "s.sG" i * S "s.spsi" i.
  Proof.
    rewrite (ax_X1c S HA), (r1_Y1s O S HR). cbv beta. field.
    split; [apply (adm_eta S Hadm) | apply (adm_kappa S Hadm)].
  Qed.

  (* T1 *)
  Theorem trace_free_gen : derivation O -> trace_free VG.
  Proof.
    intros HD i.
    pose proof (st_fix _ _ _ _ HG) as HV.
    unfold_fixes O calculate_grad_B_tensor HV ("tensor.nn" :: "tensor.bb" :: nil)%list.
    to_state HG.
    rewrite (r1_dX1c O S HR), (r1_dY1s O S HR).
    assert (HL : o_D O (S "s.X1c") i * S "s.Y1s" i + S "s.X1c" i * o_D O (S "s.Y1s") i = 0).
    { rewrite <- (D_mul O HD (S "s.X1c") (S "s.Y1s") i).
      destruct (adm_sG_const S Hadm) as [a Ha]. destruct (adm_spsi_const S Hadm) as [b Hb].
      replace (fun k => S "s.X1c" k * S "s.Y1s" k) with (fun _ : I => a * b).
      - apply (D_const O HD).
      - apply functional_extensionality; intros k. rewrite X1cY1s, Ha, Hb. reflexivity. }
    transitivity (VG "factor" i * ((o_D O (S "s.X1c") i * S "s.Y1s" i + S "s.X1c" i * o_D O (S "s.Y1s") i)
                                   * / S "s.d_varphi_d_phi" i)).
    - unfold Rdiv; ring.
    - rewrite HL; ring.
  Qed.

  Ltac sign_cases i :=
    let HsG := fresh "HsG" in let Hsp := fresh "Hsp" in
    destruct (sq1_cases _ (adm_sG S Hadm i)) as [HsG|HsG];
    destruct (sq1_cases _ (adm_spsi S Hadm i)) as [Hsp|Hsp];
    rewrite ?HsG, ?Hsp.
  Ltac nonzero i :=
    pose proof (adm_eta S Hadm i); pose proof (adm_kappa S Hadm i); pose proof (adm_B0 S Hadm i);
    pose proof (adm_lp S Hadm i); pose proof (adm_dvp S Hadm i).

  (* T2 *)
  Section Curl.
    Variable VR : string -> I -> R.
    Hypothesis HRs : stage O residual S VR.
    Hypothesis Hsol : sigma_solved O S VR.

    (* the sigma equation, read off the residual program at the solution *)
    Lemma sigma_equation i :
      o_D O (S "s.sigma") i / S "s.d_varphi_d_phi" i
      + (S "s.iota" i + S "s.helicity" i * S "s.nfp" i)
        * (S "s.etabar_squared_over_curvature_squared" i * S "s.etabar_squared_over_curvature_squared" i + 1
           + S "s.sigma" i * S "s.sigma" i)
      - 2 * S "s.etabar_squared_over_curvature_squared" i
          * (- S "s.spsi" i * S "s.torsion" i + S "s.I2" i / S "s.B0" i) * S "s.G0" i / S "s.B0" i = 0.
    Proof.
      destruct Hsol as (Hxs & Hxi & Hr & Hpin & _).
      pose proof (st_fix _ _ _ _ HRs) as HV.
      transitivity (VR "r" i); [| apply Hr].
      unfold_fixes O residual HV ("r" :: "sigma#2" :: "sigma" :: "iota" :: nil)%list.
      rewrite Hxs, Hxi. to_state HRs.
      replace (o_pin O (S "s.sigma") (S "s.sigma0")) with (S "s.sigma")
        by (apply functional_extensionality; intros k; symmetry; apply Hpin).
      qsimp. reflexivity.
    Qed.

    Theorem curl_gen : derivation O -> curl_is_current S VG.
    Proof.
      intros HD i.
      pose proof (st_fix _ _ _ _ HG) as HV.
      pose proof (sigma_equation i) as Hs.
      destruct Hsol as (_ & _ & _ & _ & HiN).
      rewrite <- (HiN i) in Hs.
      unfold_fixes O calculate_grad_B_tensor HV ("tensor.nb" :: "tensor.bn" :: "factor" :: nil)%list.
      to_state HG.
      rewrite (r1_dY1c O S HR), (r1_dY1s O S HR).
      (* Leibniz: Y1c = Y1s sigma *)
      assert (K : o_D O (S "s.Y1c") i * S "s.Y1s" i - o_D O (S "s.Y1s") i * S "s.Y1c" i
                  = S "s.Y1s" i * S "s.Y1s" i * o_D O (S "s.sigma") i).
      { assert (Hc : S "s.Y1c" = fun k => S "s.Y1s" k * S "s.sigma" k).
        { rewrite (r1_Y1c O S HR), (r1_Y1s O S HR). apply functional_extensionality; intros k.
          cbv beta. unfold Rdiv; ring. }
        rewrite Hc. cbv beta. rewrite (D_mul O HD (S "s.Y1s") (S "s.sigma") i). ring. }
      assert (K' : o_D O (S "s.Y1c") i / S "s.d_varphi_d_phi" i * S "s.Y1s" i
                   - o_D O (S "s.Y1s") i / S "s.d_varphi_d_phi" i * S "s.Y1c" i
                   = S "s.Y1s" i * S "s.Y1s" i * (o_D O (S "s.sigma") i / S "s.d_varphi_d_phi" i)).
      { unfold Rdiv.
        transitivity ((o_D O (S "s.Y1c") i * S "s.Y1s" i - o_D O (S "s.Y1s") i * S "s.Y1c" i)
                      * / S "s.d_varphi_d_phi" i); [ring | rewrite K; ring]. }
      rewrite K'.
      assert (Hx : o_D O (S "s.sigma") i / S "s.d_varphi_d_phi" i
                   = 2 * S "s.etabar_squared_over_curvature_squared" i
                       * (- S "s.spsi" i * S "s.torsion" i + S "s.I2" i / S "s.B0" i) * S "s.G0" i / S "s.B0" i
                     - S "s.iotaN" i
                       * (S "s.etabar_squared_over_curvature_squared" i * S "s.etabar_squared_over_curvature_squared" i + 1
                          + S "s.sigma" i * S "s.sigma" i)) by lra.
      rewrite Hx.
      rewrite (ax_lp S HA), (ax_G0 S HA), (ax_E S HA), (ax_X1c S HA), (r1_Y1s O S HR), (r1_Y1c O S HR).
      cbv beta.
      nonzero i. sign_cases i; field; repeat split; assumption.
    Qed.
  End Curl.

  (* T3 *)
  Section Contraction.
    Variable VB : string -> I -> R.
    Hypothesis HB : stage O Bfield_cylindrical_r S VB.

    Ltac unfold_B HVB :=
      unfold_fixes O Bfield_cylindrical_r HVB
        ("B1_vector_n" :: "B1_vector_b" :: "B1_vector_t" :: "factor" :: "B0" :: "sG" :: "G0" :: "X1c" :: "X1s"
         :: "Y1c" :: "Y1s" :: "d_l_d_varphi" :: "curvature" :: "torsion" :: "iotaN" :: "d_X1c_d_varphi"
         :: "d_X1s_d_varphi" :: "d_Y1s_d_varphi" :: "d_Y1c_d_varphi" :: nil)%list.

    Theorem contraction_gen : linear O -> contraction_is_B1 S VG VB.
    Proof.
      intros HL i. unfold Xd, Yd.
      pose proof (st_fix _ _ _ _ HG) as HV. pose proof (st_fix _ _ _ _ HB) as HVB.
      unfold_B HVB.
      unfold_fixes O calculate_grad_B_tensor HV
        ("tensor.nn" :: "tensor.bn" :: "tensor.nb" :: "tensor.bb" :: "tensor.nt" :: "tensor.tn" :: "factor" :: nil)%list.
      to_state HG. to_state HB.
      rewrite (r1_dX1s O S HR), (ax_X1s S HA), (D_zero O HL). cbv beta.
      rewrite (ax_lp S HA), (ax_G0 S HA), (ax_X1c S HA), (r1_Y1s O S HR). cbv beta.
      nonzero i.
      sign_cases i; (split; [|split]); field; repeat split; assumption.
    Qed.

    Theorem magnitude_gen : magnitude_first_order S VB.
    Proof.
      intros i.
      pose proof (st_fix _ _ _ _ HB) as HVB.
      unfold_B HVB. to_state HB.
      rewrite (ax_X1s S HA), (ax_lp S HA), (ax_G0 S HA), (ax_X1c S HA). cbv beta.
      nonzero i.
      sign_cases i; field; repeat split; assumption.
    Qed.
  End Contraction.
End Main.

(* ------------------------------------------------------------------------------------------ *)
(* T4: Cartesian tensor *)
Section Cartesian.
  Context {I : Type} (O : ops I) (S VC : string -> I -> R).
  Hypothesis HC : stage O grad_B_tensor_cartesian S VC.

  Ltac unfold_C HV :=
    unfold_fixes O grad_B_tensor_cartesian HV
      ("s.ret_0_0" :: "s.ret_0_1" :: "s.ret_0_2" :: "s.ret_1_0" :: "s.ret_1_1" :: "s.ret_1_2"
       :: "s.ret_2_0" :: "s.ret_2_1" :: "s.ret_2_2"
       :: "grad_B_vector_cartesian_0_0" :: "grad_B_vector_cartesian_0_1" :: "grad_B_vector_cartesian_0_2"
       :: "grad_B_vector_cartesian_1_0" :: "grad_B_vector_cartesian_1_1" :: "grad_B_vector_cartesian_1_2"
       :: "grad_B_vector_cartesian_2_0" :: "grad_B_vector_cartesian_2_1" :: "grad_B_vector_cartesian_2_2"
       :: "nablaB_0_0" :: "nablaB_0_1" :: "nablaB_0_2" :: "nablaB_1_0" :: "nablaB_1_1" :: "nablaB_1_2"
       :: "nablaB_2_0" :: "nablaB_2_1" :: "nablaB_2_2" :: "cosphi" :: "sinphi" :: nil)%list.

  Theorem C09_cartesian_rotated : cartesian_is_rotated S VC.
  Proof.
    pose proof (st_fix _ _ _ _ HC) as HV.
    intros i a b Ha Hb.
    destruct a as [|[|[|a]]]; [| | |exfalso; lia];
      (destruct b as [|[|[|b]]]; [| | |exfalso; lia]);
      unfold cart, rotated, Qrot, Tcyl; cbn [Nat.eqb String.append];
      unfold_C HV; to_state HC; ring.
  Qed.

  Theorem C09_frobenius_cartesian : frobenius_cartesian_eq_cylindrical S VC.
  Proof.
    intros i. unfold frob.
    rewrite (C09_cartesian_rotated i 0%nat 0%nat), (C09_cartesian_rotated i 0%nat 1%nat), (C09_cartesian_rotated i 0%nat 2%nat),
            (C09_cartesian_rotated i 1%nat 0%nat), (C09_cartesian_rotated i 1%nat 1%nat), (C09_cartesian_rotated i 1%nat 2%nat),
            (C09_cartesian_rotated i 2%nat 0%nat), (C09_cartesian_rotated i 2%nat 1%nat), (C09_cartesian_rotated i 2%nat 2%nat) by lia.
    unfold rotated, Qrot, Tcyl; cbn [Nat.eqb String.append].
    pose proof (sin2_cos2 (S "s.phi" i)) as Hcs. unfold Rsqr in Hcs.
    set (c := cos (S "s.phi" i)) in *. set (s := sin (S "s.phi" i)) in *.
    set (T00 := S "s.grad_B_tensor_cylindrical_0_0" i). set (T01 := S "s.grad_B_tensor_cylindrical_0_1" i).
    set (T02 := S "s.grad_B_tensor_cylindrical_0_2" i). set (T10 := S "s.grad_B_tensor_cylindrical_1_0" i).
    set (T11 := S "s.grad_B_tensor_cylindrical_1_1" i). set (T12 := S "s.grad_B_tensor_cylindrical_1_2" i).
    set (T20 := S "s.grad_B_tensor_cylindrical_2_0" i). set (T21 := S "s.grad_B_tensor_cylindrical_2_1" i).
    set (T22 := S "s.grad_B_tensor_cylindrical_2_2" i).
    transitivity ((s * s + c * c) * (s * s + c * c) * (T00 * T00 + T01 * T01 + T10 * T10 + T11 * T11)
                  + (s * s + c * c) * (T02 * T02 + T12 * T12 + T20 * T20 + T21 * T21) + T22 * T22).
    - ring.
    - rewrite Hcs. ring.
  Qed.
End Cartesian.

(* ------------------------------------------------------------------------------------------ *)
(* T5, T6 *)
Section Frenet.
  Context {I : Type} (O : ops I) (S VG : string -> I -> R).
  Hypothesis HG : stage O calculate_grad_B_tensor S VG.

  Theorem C09_frobenius_frenet : orthonormal_frame S -> frobenius_cylindrical_eq_frenet S.
  Proof.
    intros Hon i.
    pose proof (st_fix _ _ _ _ HG) as HV.
    destruct (Hon i) as (Htt & Hnn & Hbb & Htn & Htb & Hnb).
    unfold dot3 in Htt, Hnn, Hbb, Htn, Htb, Hnb. cbn [String.append] in Htt, Hnn, Hbb, Htn, Htb, Hnb.
    unfold frob, Tcyl; cbn [Nat.eqb String.append].
    from_state HG.
    unfold_fixes O calculate_grad_B_tensor HV
      ("s.grad_B_tensor_cylindrical_0_0" :: "s.grad_B_tensor_cylindrical_0_1" :: "s.grad_B_tensor_cylindrical_0_2"
       :: "s.grad_B_tensor_cylindrical_1_0" :: "s.grad_B_tensor_cylindrical_1_1" :: "s.grad_B_tensor_cylindrical_1_2"
       :: "s.grad_B_tensor_cylindrical_2_0" :: "s.grad_B_tensor_cylindrical_2_1" :: "s.grad_B_tensor_cylindrical_2_2"
       :: "s.grad_B_colon_grad_B"
       :: "t_0" :: "t_1" :: "t_2" :: "n_0" :: "n_1" :: "n_2" :: "b_0" :: "b_1" :: "b_2" :: nil)%list.
    to_state HG. rewrite !Q2R_0.
    pose proof (frob_orth
      (sel3 (sel3 (S "s.tangent_cylindrical_0" i) (S "s.tangent_cylindrical_1" i) (S "s.tangent_cylindrical_2" i))
            (sel3 (S "s.normal_cylindrical_0" i) (S "s.normal_cylindrical_1" i) (S "s.normal_cylindrical_2" i))
            (sel3 (S "s.binormal_cylindrical_0" i) (S "s.binormal_cylindrical_1" i) (S "s.binormal_cylindrical_2" i)))
      (sel3 (sel3 0 (VG "tensor.tn" i) 0)
            (sel3 (VG "tensor.nt" i) (VG "tensor.nn" i) (VG "tensor.nb" i))
            (sel3 0 (VG "tensor.bn" i) (VG "tensor.bb" i)))) as HF.
    cbv [Gram Mec sum3 sel3] in HF.
    specialize (HF Htt Hnn Hbb Htn Htb Hnb).
    match type of HF with ?L = ?R => transitivity L; [ring | rewrite HF; ring] end.
  Qed.

  Theorem C09_scale_length : scale_length S.
  Proof.
    intros i. pose proof (st_fix _ _ _ _ HG) as HV. split.
    - from_state HG. unfold_fix O calculate_grad_B_tensor HV "s.L_grad_B". qsimp. reflexivity.
    - from_state HG. unfold_fix O calculate_grad_B_tensor HV "s.inv_L_grad_B". intros Hne. qsimp. field. exact Hne.
  Qed.
End Frenet.

(* ------------------------------------------------------------------------------------------ *)
(* Closed statements, for every index type, operator structure, object state and models *)

(* T1 *)
Theorem C09_trace_free_h0 : forall (I : Type) (O : ops I) (S VA V1 VG : string -> I -> R),
  derivation O -> admissible S -> stage O init_axis S VA -> stage O r1_diagnostics_h0 S V1 ->
  stage O calculate_grad_B_tensor S VG -> trace_free VG.
Proof.
  intros I O S VA V1 VG HD Hadm HA H1 HG.
  exact (trace_free_gen O S (axis_facts_of_stage O S VA HA) (r1_facts_of_stage_h0 O S V1 H1) Hadm VG HG HD).
Qed.
Theorem C09_trace_free_hN : forall (I : Type) (O : ops I) (S VA V1 VG : string -> I -> R),
  derivation O -> admissible S -> stage O init_axis S VA -> stage O r1_diagnostics_hN S V1 ->
  stage O calculate_grad_B_tensor S VG -> trace_free VG.
Proof.
  intros I O S VA V1 VG HD Hadm HA H1 HG.
  exact (trace_free_gen O S (axis_facts_of_stage O S VA HA) (r1_facts_of_stage_hN O S V1 H1) Hadm VG HG HD).
Qed.

(* T2 *)
Theorem C09_curl_h0 : forall (I : Type) (O : ops I) (S VA V1 VG VR : string -> I -> R),
  derivation O -> admissible S -> stage O init_axis S VA -> stage O r1_diagnostics_h0 S V1 ->
  stage O calculate_grad_B_tensor S VG -> stage O residual S VR -> sigma_solved O S VR ->
  curl_is_current S VG.
Proof.
  intros I O S VA V1 VG VR HD Hadm HA H1 HG HRs Hsol.
  exact (curl_gen O S (axis_facts_of_stage O S VA HA) (r1_facts_of_stage_h0 O S V1 H1) Hadm VG HG VR HRs Hsol HD).
Qed.
Theorem C09_curl_hN : forall (I : Type) (O : ops I) (S VA V1 VG VR : string -> I -> R),
  derivation O -> admissible S -> stage O init_axis S VA -> stage O r1_diagnostics_hN S V1 ->
  stage O calculate_grad_B_tensor S VG -> stage O residual S VR -> sigma_solved O S VR ->
  curl_is_current S VG.
Proof.
  intros I O S VA V1 VG VR HD Hadm HA H1 HG HRs Hsol.
  exact (curl_gen O S (axis_facts_of_stage O S VA HA) (r1_facts_of_stage_hN O S V1 H1) Hadm VG HG VR HRs Hsol HD).
Qed.

(* T3 *)
Theorem C09_contraction_h0 : forall (I : Type) (O : ops I) (S VA V1 VG VB : string -> I -> R),
  linear O -> admissible S -> stage O init_axis S VA -> stage O r1_diagnostics_h0 S V1 ->
  stage O calculate_grad_B_tensor S VG -> stage O Bfield_cylindrical_r S VB ->
  contraction_is_B1 S VG VB.
Proof.
  intros I O S VA V1 VG VB HL Hadm HA H1 HG HB.
  exact (contraction_gen O S (axis_facts_of_stage O S VA HA) (r1_facts_of_stage_h0 O S V1 H1) Hadm VG HG VB HB HL).
Qed.
Theorem C09_contraction_hN : forall (I : Type) (O : ops I) (S VA V1 VG VB : string -> I -> R),
  linear O -> admissible S -> stage O init_axis S VA -> stage O r1_diagnostics_hN S V1 ->
  stage O calculate_grad_B_tensor S VG -> stage O Bfield_cylindrical_r S VB ->
  contraction_is_B1 S VG VB.
Proof.
  intros I O S VA V1 VG VB HL Hadm HA H1 HG HB.
  exact (contraction_gen O S (axis_facts_of_stage O S VA HA) (r1_facts_of_stage_hN O S V1 H1) Hadm VG HG VB HB HL).
Qed.
(* the first-order magnitude statement only involves init_axis and Bfield_cylindrical; it is
   stated for both helicity variants with the same hypotheses as the contraction for uniformity *)
Theorem C09_magnitude : forall (I : Type) (O : ops I) (S VA VB : string -> I -> R),
  admissible S -> stage O init_axis S VA -> stage O Bfield_cylindrical_r S VB -> magnitude_first_order S VB.
Proof.
  intros I O S VA VB Hadm HA HB.
  exact (magnitude_gen O S (axis_facts_of_stage O S VA HA) Hadm VB HB).
Qed.
Theorem C09_magnitude_h0 : forall (I : Type) (O : ops I) (S VA V1 VG VB : string -> I -> R),
  admissible S -> stage O init_axis S VA -> stage O r1_diagnostics_h0 S V1 ->
  stage O calculate_grad_B_tensor S VG -> stage O Bfield_cylindrical_r S VB ->
  magnitude_first_order S VB.
Proof. intros I O S VA V1 VG VB Hadm HA _ _ HB. exact (C09_magnitude I O S VA VB Hadm HA HB). Qed.
Theorem C09_magnitude_hN : forall (I : Type) (O : ops I) (S VA V1 VG VB : string -> I -> R),
  admissible S -> stage O init_axis S VA -> stage O r1_diagnostics_hN S V1 ->
  stage O calculate_grad_B_tensor S VG -> stage O Bfield_cylindrical_r S VB ->
  magnitude_first_order S VB.
Proof. intros I O S VA V1 VG VB Hadm HA _ _ HB. exact (C09_magnitude I O S VA VB Hadm HA HB). Qed.

Print Assumptions C09_trace_free_h0.
Print Assumptions C09_trace_free_hN.
Print Assumptions C09_curl_h0.
Print Assumptions C09_curl_hN.
Print Assumptions C09_contraction_h0.
Print Assumptions C09_contraction_hN.
Print Assumptions C09_magnitude_h0.
Print Assumptions C09_magnitude_hN.
Print Assumptions C09_cartesian_rotated.
Print Assumptions C09_frobenius_cartesian.
Print Assumptions C09_frobenius_frenet.
Print Assumptions C09_scale_length.
