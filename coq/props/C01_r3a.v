(* C01 (split for parallel compilation): third order: avg tor[r^3] = 0, case sG = 1 *)
From Coq Require Import Reals String List Lra Lia QArith Qreals FunctionalExtensionality.
From QSC Require Import Expr Shallow Series.
From QSCGen Require Import G_init_axis G_r1_diagnostics G_residual G_calculate_r2 G_calculate_r3.
From QSCProps Require Import C04_spec C01_spec C01_common C01_r1 C01_r2base.
Open Scope R_scope.
Open Scope string_scope.

Section R3a.
  Context {I : Type} (O : ops I) (S : string -> I -> R).
  Hypothesis HD : derivation O.
  Hypothesis HA : axis_facts S.
  Hypothesis HR : r1_facts O S.
  Hypothesis H2 : r2_facts O S.
  Hypothesis Hadm : admissible S.
  Hypothesis Hsig : forall i, sigma_residual O S i = 0.
  Hypothesis H3 : r3_facts S.
  Variable i : I.
  Let CF : cfacts S i := cfacts_hold O S HD HA HR H2 Hadm Hsig i.
  Notation spsi := (S "s.spsi"). Notation B0 := (S "s.B0").

  (* all the facts needed at third order, as hypotheses *)
  Ltac pose_facts :=
    pose proof (r3_X3c1 S H3 i) as E1; pose proof (r3_Y3c1 S H3 i) as E2; pose proof (r3_Y3s1 S H3 i) as E3;
    pose proof (r3_lam S H3 i) as E4; unfold lam_code in E4; cbv zeta in E4;
    pose proof (r2_B20 O S H2 i) as E5; prep_q O S HR CF E5;
    pose proof (r2_G2 O S H2 i) as E6; pose_common CF.
  Lemma tor3_avg_pos : S "s.sG" i = 1 -> tavg (tor (atoms_of S i) 3%nat) = 0.
  Proof.
    intros HsG. unfold atoms_of. nonzero_at S Hadm i. pose proof (cf_x _ _ CF). compute_coef.
    destruct (sq1_cases _ (adm_spsi S Hadm i)) as [Hsp|Hsp].
    all: pose_facts; abs_atoms S i; subst; field; repeat split; assumption.
  Qed.
End R3a.
