(* C03: the axis geometry computed by init_axis is the Frenet-Serret geometry of the input curve
   (statements in C03_spec.v).  All theorems are stated for every model VA of the program
   regenerated from init_axis (resp. V1 of r1_diagnostics_h0 / _hN). *)
From Coq Require Import Reals String List Lra Lia QArith Qreals Psatz FunctionalExtensionality.
From QSC Require Import Expr Shallow.
From QSCGen Require Import G_init_axis G_r1_diagnostics.
From QSCProps Require Import C03_spec.
Open Scope R_scope.
Open Scope string_scope.

Lemma ssa_init_axis : ssa init_axis = true. Proof. vm_compute. reflexivity. Qed.
Lemma ssa_r1_h0 : ssa r1_diagnostics_h0 = true. Proof. vm_compute. reflexivity. Qed.
Lemma ssa_r1_hN : ssa r1_diagnostics_hN = true. Proof. vm_compute. reflexivity. Qed.

(* ------------------------------------------------------------------------------------------ *)
(* Pure real algebra: the frame built from r' = a, r'' = b                                     *)
(* ------------------------------------------------------------------------------------------ *)
Section RealAlg.
  Variables a0 a1 a2 b0 b1 b2 l lp kap : R.
  Variables T0 T1 T2 t0 t1 t2 n0 n1 n2 : R.
  Hypothesis Hl : 0 < l.
  Hypothesis Hl2 : l * l = a0 * a0 + a1 * a1 + a2 * a2.
  Hypothesis Hlp : lp * l = a0 * b0 + a1 * b1 + a2 * b2.
  Hypothesis HT0 : T0 = (- a0 * lp / l + b0) / (l * l).
  Hypothesis HT1 : T1 = (- a1 * lp / l + b1) / (l * l).
  Hypothesis HT2 : T2 = (- a2 * lp / l + b2) / (l * l).
  Hypothesis Hk2 : kap * kap = T0 * T0 + T1 * T1 + T2 * T2.
  Hypothesis Hk : kap <> 0.
  Hypothesis Ht0 : t0 = a0 / l.
  Hypothesis Ht1 : t1 = a1 / l.
  Hypothesis Ht2 : t2 = a2 / l.
  Hypothesis Hn0 : n0 = T0 / kap.
  Hypothesis Hn1 : n1 = T1 / kap.
  Hypothesis Hn2 : n2 = T2 / kap.

  Lemma alg_tt : t0 * t0 + t1 * t1 + t2 * t2 = 1.
  Proof.
    rewrite Ht0, Ht1, Ht2.
    transitivity ((a0 * a0 + a1 * a1 + a2 * a2) / (l * l)); [field; lra|].
    rewrite <- Hl2. field. lra.
  Qed.

  Lemma alg_tT : t0 * T0 + t1 * T1 + t2 * T2 = 0.
  Proof.
    rewrite Ht0, Ht1, Ht2, HT0, HT1, HT2.
    transitivity ((- (a0 * a0 + a1 * a1 + a2 * a2) * lp + (a0 * b0 + a1 * b1 + a2 * b2) * l) / (l * l * l * l));
      [field; lra|].
    rewrite <- Hl2, <- Hlp. field. lra.
  Qed.

  Lemma alg_nn : n0 * n0 + n1 * n1 + n2 * n2 = 1.
  Proof.
    rewrite Hn0, Hn1, Hn2.
    transitivity ((T0 * T0 + T1 * T1 + T2 * T2) / (kap * kap)); [field; assumption|].
    rewrite <- Hk2. field. assumption.
  Qed.

  Lemma alg_tn : t0 * n0 + t1 * n1 + t2 * n2 = 0.
  Proof.
    rewrite Hn0, Hn1, Hn2.
    transitivity ((t0 * T0 + t1 * T1 + t2 * T2) / kap); [field; assumption|].
    rewrite alg_tT. field. assumption.
  Qed.

  (* Lagrange: kappa^2 l^6 = |a x b|^2 *)
  Lemma alg_den :
    (a1 * b2 - a2 * b1) ^ 2 + (a2 * b0 - a0 * b2) ^ 2 + (a0 * b1 - a1 * b0) ^ 2 = kap * kap * l ^ 6.
  Proof.
    rewrite Hk2, HT0, HT1, HT2.
    transitivity ((a0 * a0 + a1 * a1 + a2 * a2) * (b0 * b0 + b1 * b1 + b2 * b2)
                  - (a0 * b0 + a1 * b1 + a2 * b2) * (a0 * b0 + a1 * b1 + a2 * b2)); [ring|].
    transitivity ((a0 * a0 + a1 * a1 + a2 * a2) * lp * lp - 2 * (a0 * b0 + a1 * b1 + a2 * b2) * lp * l
                  + (b0 * b0 + b1 * b1 + b2 * b2) * (l * l)); [|field; lra].
    rewrite <- Hl2, <- Hlp. ring.
  Qed.
End RealAlg.

(* orthonormal right-handed frames: consequences *)
Section FrameAlg.
  Variables t0 t1 t2 n0 n1 n2 : R.
  Hypothesis Htt : t0 * t0 + t1 * t1 + t2 * t2 = 1.
  Hypothesis Hnn : n0 * n0 + n1 * n1 + n2 * n2 = 1.
  Hypothesis Htn : t0 * n0 + t1 * n1 + t2 * n2 = 0.
  Let B0 := t1 * n2 - t2 * n1.
  Let B1 := t2 * n0 - t0 * n2.
  Let B2 := t0 * n1 - t1 * n0.

  Lemma frame_bb : B0 * B0 + B1 * B1 + B2 * B2 = 1.
  Proof.
    unfold B0, B1, B2.
    transitivity ((t0 * t0 + t1 * t1 + t2 * t2) * (n0 * n0 + n1 * n1 + n2 * n2)
                  - (t0 * n0 + t1 * n1 + t2 * n2) * (t0 * n0 + t1 * n1 + t2 * n2)); [ring|].
    rewrite Htt, Hnn, Htn. ring.
  Qed.
  Lemma frame_tb : t0 * B0 + t1 * B1 + t2 * B2 = 0.
  Proof. unfold B0, B1, B2. ring. Qed.
  Lemma frame_nb : n0 * B0 + n1 * B1 + n2 * B2 = 0.
  Proof. unfold B0, B1, B2. ring. Qed.

  (* completeness: w = (w.t) t + (w.n) n + (w.b) b *)
  Lemma frame_expand w0 w1 w2 :
    let wt := w0 * t0 + w1 * t1 + w2 * t2 in
    let wn := w0 * n0 + w1 * n1 + w2 * n2 in
    let wb := w0 * B0 + w1 * B1 + w2 * B2 in
    w0 = wt * t0 + wn * n0 + wb * B0 /\ w1 = wt * t1 + wn * n1 + wb * B1 /\ w2 = wt * t2 + wn * n2 + wb * B2.
  Proof.
    intros wt wn wb.
    assert (K : forall wi ti ni Bi,
      wb * Bi = wi * ((t0 * t0 + t1 * t1 + t2 * t2) * (n0 * n0 + n1 * n1 + n2 * n2)
                      - (t0 * n0 + t1 * n1 + t2 * n2) * (t0 * n0 + t1 * n1 + t2 * n2))
                - ti * (wt * (n0 * n0 + n1 * n1 + n2 * n2) - wn * (t0 * n0 + t1 * n1 + t2 * n2))
                + ni * (wt * (t0 * n0 + t1 * n1 + t2 * n2) - wn * (t0 * t0 + t1 * t1 + t2 * t2)) ->
      wi = wt * ti + wn * ni + wb * Bi).
    { intros wi ti ni Bi H. rewrite H, Htt, Hnn, Htn. ring. }
    repeat split; apply K; unfold wt, wn, wb, B0, B1, B2; ring.
  Qed.

  (* t x b = - n *)
  Lemma frame_txb :
    t1 * B2 - t2 * B1 = - n0 /\ t2 * B0 - t0 * B2 = - n1 /\ t0 * B1 - t1 * B0 = - n2.
  Proof.
    assert (K : forall ti ni x,
      x = ti * (t0 * n0 + t1 * n1 + t2 * n2) - ni * (t0 * t0 + t1 * t1 + t2 * t2) -> x = - ni).
    { intros ti ni x H. rewrite H, Htt, Htn. ring. }
    repeat split; [apply (K t0)|apply (K t1)|apply (K t2)]; unfold B0, B1, B2; ring.
  Qed.
End FrameAlg.

Ltac vnames := cbv [vec tvec nvec bvec dot ddl Nat.eqb append].

(* ------------------------------------------------------------------------------------------ *)
(* T1: frame, tangent, curvature sign, X1c                                                      *)
(* ------------------------------------------------------------------------------------------ *)
Section T1.
  Context {I : Type} (O : ops I) (VA : string -> I -> R).
  Hypothesis HV : is_fix O init_axis VA.
  Hypothesis Hadm : admissible_axis VA.

  Local Ltac ua l := unfold_fixes O init_axis HV l.

  (* local names of the program *)
  Definition lL := VA "d_l_d_phi".
  Definition kL := VA "curvature".
  Definition tL (k : nat) := VA (match k with 0%nat => "tangent_cylindrical_0#2" | 1%nat => "tangent_cylindrical_1#2" | _ => "tangent_cylindrical_2#2" end).
  Definition nL (k : nat) := VA (match k with 0%nat => "normal_cylindrical_0#2" | 1%nat => "normal_cylindrical_1#2" | _ => "normal_cylindrical_2#2" end).
  Definition bL (k : nat) := VA (match k with 0%nat => "binormal_cylindrical_0#2" | 1%nat => "binormal_cylindrical_1#2" | _ => "binormal_cylindrical_2#2" end).
  Definition TL (k : nat) := VA (match k with 0%nat => "d_tangent_d_l_cylindrical_0#2" | 1%nat => "d_tangent_d_l_cylindrical_1#2" | _ => "d_tangent_d_l_cylindrical_2#2" end).

  Lemma l_sq i : lL i * lL i = VA "R0_sum" i * VA "R0_sum" i + VA "R0p_sum" i * VA "R0p_sum" i + VA "Z0p_sum" i * VA "Z0p_sum" i.
  Proof. unfold lL. ua ("d_l_d_phi" :: nil)%list. apply sqrt_sqrt. left. apply (ax_speed _ Hadm). Qed.
  Lemma l_pos i : 0 < lL i.
  Proof. unfold lL. ua ("d_l_d_phi" :: nil)%list. apply sqrt_lt_R0. apply (ax_speed _ Hadm). Qed.
  Lemma k_sq i : kL i * kL i = TL 0 i * TL 0 i + TL 1 i * TL 1 i + TL 2 i * TL 2 i.
  Proof. unfold kL, TL. ua ("curvature" :: nil)%list. apply sqrt_sqrt. nra. Qed.
  Lemma k_nz i : kL i <> 0.
  Proof. unfold kL. pose proof (ax_kappa _ Hadm i) as H. revert H. ua ("s.curvature" :: nil)%list. auto. Qed.
  Lemma k_nonneg i : 0 <= kL i.
  Proof. unfold kL. ua ("curvature" :: nil)%list. apply sqrt_pos. Qed.

  Notation R0 := (VA "R0_sum"). Notation R0p := (VA "R0p_sum"). Notation R0pp := (VA "R0pp_sum"). Notation R0ppp := (VA "R0ppp_sum").
  Notation Z0p := (VA "Z0p_sum"). Notation Z0pp := (VA "Z0pp_sum"). Notation Z0ppp := (VA "Z0ppp_sum").
  Definition lpL := VA "d2_l_d_phi2".

  Lemma lp_eq i : lpL i * lL i = R0p i * (R0pp i - R0 i) + R0 i * (2 * R0p i) + Z0p i * Z0pp i.
  Proof.
    pose proof (l_pos i) as Hl. unfold lpL. ua ("d2_l_d_phi2" :: nil)%list. fold lL. field. lra.
  Qed.
  Lemma T0_eq i : TL 0 i = (- R0p i * lpL i / lL i + (R0pp i - R0 i)) / (lL i * lL i).
  Proof. unfold TL, lpL, lL. ua ("d_tangent_d_l_cylindrical_0#2" :: "d_r_d_phi_cylindrical_0" :: "d2_r_d_phi2_cylindrical_0" :: nil)%list. reflexivity. Qed.
  Lemma T1_eq i : TL 1 i = (- R0 i * lpL i / lL i + 2 * R0p i) / (lL i * lL i).
  Proof. unfold TL, lpL, lL. ua ("d_tangent_d_l_cylindrical_1#2" :: "d_r_d_phi_cylindrical_1" :: "d2_r_d_phi2_cylindrical_1" :: nil)%list. qsimp. reflexivity. Qed.
  Lemma T2_eq i : TL 2 i = (- Z0p i * lpL i / lL i + Z0pp i) / (lL i * lL i).
  Proof. unfold TL, lpL, lL. ua ("d_tangent_d_l_cylindrical_2#2" :: "d_r_d_phi_cylindrical_2" :: "d2_r_d_phi2_cylindrical_2" :: nil)%list. reflexivity. Qed.
  Lemma t0_eq i : tL 0 i = R0p i / lL i.
  Proof. unfold tL, lL. ua ("tangent_cylindrical_0#2" :: "d_r_d_phi_cylindrical_0" :: nil)%list. reflexivity. Qed.
  Lemma t1_eq i : tL 1 i = R0 i / lL i.
  Proof. unfold tL, lL. ua ("tangent_cylindrical_1#2" :: "d_r_d_phi_cylindrical_1" :: nil)%list. reflexivity. Qed.
  Lemma t2_eq i : tL 2 i = Z0p i / lL i.
  Proof. unfold tL, lL. ua ("tangent_cylindrical_2#2" :: "d_r_d_phi_cylindrical_2" :: nil)%list. reflexivity. Qed.
  Lemma n0_eq i : nL 0 i = TL 0 i / kL i.
  Proof. unfold nL, TL, kL. ua ("normal_cylindrical_0#2" :: nil)%list. reflexivity. Qed.
  Lemma n1_eq i : nL 1 i = TL 1 i / kL i.
  Proof. unfold nL, TL, kL. ua ("normal_cylindrical_1#2" :: nil)%list. reflexivity. Qed.
  Lemma n2_eq i : nL 2 i = TL 2 i / kL i.
  Proof. unfold nL, TL, kL. ua ("normal_cylindrical_2#2" :: nil)%list. reflexivity. Qed.
  Lemma b_eq i : bL 0 i = tL 1 i * nL 2 i - tL 2 i * nL 1 i /\ bL 1 i = tL 2 i * nL 0 i - tL 0 i * nL 2 i
                 /\ bL 2 i = tL 0 i * nL 1 i - tL 1 i * nL 0 i.
  Proof. unfold bL, tL, nL. ua ("binormal_cylindrical_0#2" :: "binormal_cylindrical_1#2" :: "binormal_cylindrical_2#2" :: nil)%list. repeat split; reflexivity. Qed.

  Lemma l_sq' i : lL i * lL i = R0p i * R0p i + R0 i * R0 i + Z0p i * Z0p i.
  Proof. rewrite l_sq. ring. Qed.
  Local Ltac inst L i :=
    eapply L;
    first [ exact (l_pos i) | exact (lp_eq i) | exact (l_sq' i) | exact (T0_eq i) | exact (T1_eq i) | exact (T2_eq i)
          | exact (k_sq i) | exact (k_nz i)
          | exact (t0_eq i) | exact (t1_eq i) | exact (t2_eq i) | exact (n0_eq i) | exact (n1_eq i) | exact (n2_eq i) ].

  Lemma L_tt i : tL 0 i * tL 0 i + tL 1 i * tL 1 i + tL 2 i * tL 2 i = 1.
  Proof. inst alg_tt i. Qed.
  Lemma L_nn i : nL 0 i * nL 0 i + nL 1 i * nL 1 i + nL 2 i * nL 2 i = 1.
  Proof. apply (alg_nn (kL i) (TL 0 i) (TL 1 i) (TL 2 i)); first [ exact (k_sq i) | exact (k_nz i) | exact (n0_eq i) | exact (n1_eq i) | exact (n2_eq i) ]. Qed.
  Lemma L_tn i : tL 0 i * nL 0 i + tL 1 i * nL 1 i + tL 2 i * nL 2 i = 0.
  Proof. inst alg_tn i. Qed.
  Lemma L_den i : (R0 i * Z0pp i - Z0p i * (2 * R0p i)) ^ 2 + (Z0p i * (R0pp i - R0 i) - R0p i * Z0pp i) ^ 2
                  + (R0p i * (2 * R0p i) - R0 i * (R0pp i - R0 i)) ^ 2 = kL i * kL i * lL i ^ 6.
  Proof. inst alg_den i. Qed.

  Local Ltac snames :=
    ua ("s.tangent_cylindrical_0" :: "s.tangent_cylindrical_1" :: "s.tangent_cylindrical_2"
        :: "s.normal_cylindrical_0" :: "s.normal_cylindrical_1" :: "s.normal_cylindrical_2"
        :: "s.binormal_cylindrical_0" :: "s.binormal_cylindrical_1" :: "s.binormal_cylindrical_2"
        :: "s.d_l_d_phi" :: "s.curvature" :: "s.torsion" :: nil)%list.

  Theorem C03_orthonormal : orthonormal VA.
  Proof.
    intros i. vnames. snames.
    pose proof (L_tt i) as Htt. pose proof (L_nn i) as Hnn. pose proof (L_tn i) as Htn.
    destruct (b_eq i) as (Hb0 & Hb1 & Hb2).
    cbv [tL nL bL] in *. rewrite Hb0, Hb1, Hb2.
    split; [exact Htt|]. split; [exact Hnn|].
    split; [apply frame_bb; assumption|]. split; [exact Htn|].
    split; ring.
  Qed.

  Theorem C03_right_handed : right_handed VA.
  Proof. intros i. vnames. snames. exact (b_eq i). Qed.

  Theorem C03_tangent : tangent_is_dr_dl VA.
  Proof.
    intros i. vnames. snames.
    pose proof (l_pos i) as Hl. pose proof (l_sq i) as Hl2.
    pose proof (t0_eq i) as H0. pose proof (t1_eq i) as H1. pose proof (t2_eq i) as H2.
    cbv [tL lL] in *. rewrite H0, H1, H2.
    split; [exact Hl|]. split; [exact Hl2|].
    split; [field; lra|]. split; [field; lra|]. split; [field; lra|].
    apply Rdiv_lt_0_compat; [apply (ax_R0 _ Hadm)|exact Hl].
  Qed.

  Theorem C03_curvature_positive : curvature_positive VA.
  Proof. intros i. snames. exact (k_nonneg i). Qed.

  Theorem C03_X1c : X1c_def VA.
  Proof. intros i. ua ("s.X1c" :: "s.curvature" :: nil)%list. reflexivity. Qed.

  Theorem C03_T1 : orthonormal VA /\ right_handed VA /\ tangent_is_dr_dl VA /\ curvature_positive VA /\ X1c_def VA.
  Proof.
    split; [exact C03_orthonormal|]. split; [exact C03_right_handed|]. split; [exact C03_tangent|].
    split; [exact C03_curvature_positive|exact C03_X1c].
  Qed.
End T1.

(* ------------------------------------------------------------------------------------------ *)
(* Derivations: quotient rule                                                                   *)
(* ------------------------------------------------------------------------------------------ *)
Section Calc.
  Context {I : Type} (O : ops I) (HD : derivation O).
  Let HL := der_lin O HD.

  Lemma D_quot (f g : I -> R) i : (forall k, g k <> 0) ->
    o_D O (fun k => f k / g k) i = (o_D O f i * g i - f i * o_D O g i) / (g i * g i).
  Proof.
    intros Hg.
    assert (E : f = fun k => (f k / g k) * g k).
    { apply functional_extensionality; intro k. field. apply Hg. }
    pose proof (f_equal (fun h => o_D O h i) E) as E2. cbv beta in E2.
    rewrite (D_mul O HD) in E2. rewrite E2. field. apply Hg.
  Qed.

  (* derivative of the code's d_tangent_d_l component *)
  Lemma D_Tform (a b l lp : I -> R) i : (forall k, l k <> 0) ->
    o_D O (fun k => (- a k * lp k / l k + b k) / (l k * l k)) i =
    (((((- o_D O a i) * lp i + (- a i) * o_D O lp i) * l i - (- a i * lp i) * o_D O l i) / (l i * l i) + o_D O b i) * (l i * l i)
     - (- a i * lp i / l i + b i) * (o_D O l i * l i + l i * o_D O l i)) / ((l i * l i) * (l i * l i)).
  Proof.
    intros Hl.
    assert (Hll : forall k, l k * l k <> 0) by (intro k; apply Rmult_integral_contrapositive_currified; apply Hl).
    rewrite (D_quot (fun k => - a k * lp k / l k + b k) (fun k => l k * l k) i Hll).
    rewrite (D_add O HL (fun k => - a k * lp k / l k) b).
    rewrite (D_quot (fun k => - a k * lp k) l i Hl).
    rewrite (D_mul O HD (fun k => - a k) lp), (D_neg O HL a), (D_mul O HD l l).
    reflexivity.
  Qed.
End Calc.

(* ------------------------------------------------------------------------------------------ *)
(* T2: Frenet-Serret                                                                            *)
(* ------------------------------------------------------------------------------------------ *)
Section T2.
  Context {I : Type} (O : ops I) (HD : derivation O) (VA : string -> I -> R).
  Hypothesis HV : is_fix O init_axis VA.
  Hypothesis Hadm : admissible_axis VA.
  Hypothesis Hjets : jets_consistent O VA.
  Let HL := der_lin O HD.

  Local Ltac ua l := unfold_fixes O init_axis HV l.
  Notation R0 := (VA "R0_sum"). Notation R0p := (VA "R0p_sum"). Notation R0pp := (VA "R0pp_sum"). Notation R0ppp := (VA "R0ppp_sum").
  Notation Z0p := (VA "Z0p_sum"). Notation Z0pp := (VA "Z0pp_sum"). Notation Z0ppp := (VA "Z0ppp_sum").
  Notation l := (lL VA). Notation lp := (lpL VA). Notation kap := (kL VA).
  Notation t := (tL VA). Notation n := (nL VA). Notation b := (bL VA). Notation T := (TL VA).

  Lemma jR0 i : o_D O R0 i = R0p i. Proof. apply Hjets. Qed.
  Lemma jR0p i : o_D O R0p i = R0pp i. Proof. apply Hjets. Qed.
  Lemma jR0pp i : o_D O R0pp i = R0ppp i. Proof. apply Hjets. Qed.
  Lemma jZ0p i : o_D O Z0p i = Z0pp i. Proof. apply Hjets. Qed.
  Lemma jZ0pp i : o_D O Z0pp i = Z0ppp i. Proof. apply Hjets. Qed.

  Lemma l_nz k : l k <> 0.
  Proof. pose proof (l_pos O VA HV Hadm k). lra. Qed.

  (* d/dphi of dl/dphi is the code's d2_l_d_phi2 *)
  Lemma Dl i : o_D O (VA "d_l_d_phi") i = lp i.
  Proof.
    assert (E : (fun k => VA "d_l_d_phi" k * VA "d_l_d_phi" k)
                = (fun k => R0 k * R0 k + R0p k * R0p k + Z0p k * Z0p k)).
    { apply functional_extensionality; intro k. apply (l_sq O VA HV Hadm k). }
    pose proof (f_equal (fun h => o_D O h i) E) as E2. cbv beta in E2.
    rewrite !(D_add O HL), !(D_mul O HD), jR0, jR0p, jZ0p in E2.
    pose proof (l_nz i) as Hl. pose proof (lp_eq O VA HV Hadm i) as Hlp. unfold lL in *.
    apply Rmult_eq_reg_r with (VA "d_l_d_phi" i); [|exact Hl].
    rewrite Hlp. lra.
  Qed.

  (* derivatives of the tangent components *)
  Lemma Dt0 i : o_D O (VA "tangent_cylindrical_0#2") i = l i * kap i * n 0 i + t 1 i.
  Proof.
    ua ("tangent_cylindrical_0#2" :: "d_r_d_phi_cylindrical_0" :: nil)%list.
    rewrite (D_quot O HD R0p (VA "d_l_d_phi") i l_nz), Dl, jR0p.
    rewrite (n0_eq O VA HV), (T0_eq O VA HV), (t1_eq O VA HV). unfold lL.
    field. repeat split; first [apply (k_nz O VA HV Hadm)|apply l_nz].
  Qed.
  Lemma Dt1 i : o_D O (VA "tangent_cylindrical_1#2") i = l i * kap i * n 1 i - t 0 i.
  Proof.
    ua ("tangent_cylindrical_1#2" :: "d_r_d_phi_cylindrical_1" :: nil)%list.
    rewrite (D_quot O HD R0 (VA "d_l_d_phi") i l_nz), Dl, jR0.
    rewrite (n1_eq O VA HV), (T1_eq O VA HV), (t0_eq O VA HV). unfold lL.
    field. repeat split; first [apply (k_nz O VA HV Hadm)|apply l_nz].
  Qed.
  Lemma Dt2 i : o_D O (VA "tangent_cylindrical_2#2") i = l i * kap i * n 2 i.
  Proof.
    ua ("tangent_cylindrical_2#2" :: "d_r_d_phi_cylindrical_2" :: nil)%list.
    rewrite (D_quot O HD Z0p (VA "d_l_d_phi") i l_nz), Dl, jZ0p.
    rewrite (n2_eq O VA HV), (T2_eq O VA HV). unfold lL.
    field. repeat split; first [apply (k_nz O VA HV Hadm)|apply l_nz].
  Qed.

  Notation Dn0 := (o_D O (VA "normal_cylindrical_0#2")).
  Notation Dn1 := (o_D O (VA "normal_cylindrical_1#2")).
  Notation Dn2 := (o_D O (VA "normal_cylindrical_2#2")).

  Lemma proj_n i : (Dn0 i - n 1 i) * n 0 i + (Dn1 i + n 0 i) * n 1 i + Dn2 i * n 2 i = 0.
  Proof.
    assert (E : (fun k => VA "normal_cylindrical_0#2" k * VA "normal_cylindrical_0#2" k
                          + VA "normal_cylindrical_1#2" k * VA "normal_cylindrical_1#2" k
                          + VA "normal_cylindrical_2#2" k * VA "normal_cylindrical_2#2" k) = (fun _ => 1)).
    { apply functional_extensionality; intro k. exact (L_nn O VA HV Hadm k). }
    pose proof (f_equal (fun h => o_D O h i) E) as E2. cbv beta in E2.
    rewrite !(D_add O HL), !(D_mul O HD), (D_const O HD) in E2.
    cbv [nL]. lra.
  Qed.

  Lemma proj_t i : (Dn0 i - n 1 i) * t 0 i + (Dn1 i + n 0 i) * t 1 i + Dn2 i * t 2 i = - (l i * kap i).
  Proof.
    assert (E : (fun k => VA "tangent_cylindrical_0#2" k * VA "normal_cylindrical_0#2" k
                          + VA "tangent_cylindrical_1#2" k * VA "normal_cylindrical_1#2" k
                          + VA "tangent_cylindrical_2#2" k * VA "normal_cylindrical_2#2" k) = (fun _ => 0)).
    { apply functional_extensionality; intro k. exact (L_tn O VA HV Hadm k). }
    pose proof (f_equal (fun h => o_D O h i) E) as E2. cbv beta in E2.
    rewrite !(D_add O HL), !(D_mul O HD), (D_const O HD), Dt0, Dt1, Dt2 in E2.
    pose proof (L_nn O VA HV Hadm i) as Hnn.
    cbv [nL tL] in *.
    set (K := lL VA i * kL VA i) in *.
    replace (- K) with (- K * (VA "normal_cylindrical_0#2" i * VA "normal_cylindrical_0#2" i
                          + VA "normal_cylindrical_1#2" i * VA "normal_cylindrical_1#2" i
                          + VA "normal_cylindrical_2#2" i * VA "normal_cylindrical_2#2" i)) by (rewrite Hnn; ring).
    lra.
  Qed.

  Lemma den_eq i : VA "torsion_denominator" i = kap i * kap i * l i ^ 6.
  Proof.
    ua ("torsion_denominator" :: "d_r_d_phi_cylindrical_0" :: "d_r_d_phi_cylindrical_1" :: "d_r_d_phi_cylindrical_2"
        :: "d2_r_d_phi2_cylindrical_0" :: "d2_r_d_phi2_cylindrical_1" :: "d2_r_d_phi2_cylindrical_2" :: nil)%list.
    qsimp. exact (L_den O VA HV Hadm i).
  Qed.

  Lemma proj_b i : (Dn0 i - n 1 i) * b 0 i + (Dn1 i + n 0 i) * b 1 i + Dn2 i * b 2 i = VA "torsion" i * l i.
  Proof.
    assert (Hk : forall k, VA "curvature" k <> 0) by (intro k; apply (k_nz O VA HV Hadm)).
    ua ("normal_cylindrical_0#2" :: "normal_cylindrical_1#2" :: "normal_cylindrical_2#2" :: nil)%list.
    rewrite !(D_quot O HD _ (VA "curvature") i Hk).
    ua ("torsion" :: nil)%list. rewrite den_eq.
    ua ("torsion_numerator" :: "d_tangent_d_l_cylindrical_0#2" :: "d_tangent_d_l_cylindrical_1#2" :: "d_tangent_d_l_cylindrical_2#2"
        :: "d_r_d_phi_cylindrical_0" :: "d_r_d_phi_cylindrical_1" :: "d_r_d_phi_cylindrical_2"
        :: "d2_r_d_phi2_cylindrical_0" :: "d2_r_d_phi2_cylindrical_1" :: "d2_r_d_phi2_cylindrical_2"
        :: "d3_r_d_phi3_cylindrical_0" :: "d3_r_d_phi3_cylindrical_1" :: "d3_r_d_phi3_cylindrical_2" :: nil)%list.
    rewrite (D_Tform O HD R0p (fun k => R0pp k - R0 k) (VA "d_l_d_phi") (VA "d2_l_d_phi2") i l_nz).
    rewrite (D_Tform O HD R0 (fun k => Q2R (2#1) * R0p k) (VA "d_l_d_phi") (VA "d2_l_d_phi2") i l_nz).
    rewrite (D_Tform O HD Z0p Z0pp (VA "d_l_d_phi") (VA "d2_l_d_phi2") i l_nz).
    rewrite (D_sub O HL), (D_scal O HL), Dl, jR0, jR0p, jR0pp, jZ0p, jZ0pp.
    destruct (b_eq O VA HV i) as (Hb0 & Hb1 & Hb2). rewrite Hb0, Hb1, Hb2.
    rewrite !(n0_eq O VA HV), !(n1_eq O VA HV), !(n2_eq O VA HV), !(T0_eq O VA HV), !(T1_eq O VA HV), !(T2_eq O VA HV),
            !(t0_eq O VA HV), !(t1_eq O VA HV), !(t2_eq O VA HV).
    unfold lL, lpL, kL. qsimp.
    set (Dk := o_D O (VA "curvature") i). set (Dlp := o_D O (VA "d2_l_d_phi2") i).
    generalize (Hk i) (l_nz i). unfold lL. clear.
    generalize (VA "curvature" i) (VA "d_l_d_phi" i) (VA "d2_l_d_phi2" i) Dk Dlp
               (R0 i) (R0p i) (R0pp i) (R0ppp i) (Z0p i) (Z0pp i) (Z0ppp i).
    clear. intros k l lp Dk Dlp r rp rpp rppp zp zpp zppp Hk Hl.
    field. split; assumption.
  Qed.

  Lemma Dn_eq i :
    Dn0 i - n 1 i = l i * (- kap i * t 0 i + VA "torsion" i * b 0 i) /\
    Dn1 i + n 0 i = l i * (- kap i * t 1 i + VA "torsion" i * b 1 i) /\
    Dn2 i = l i * (- kap i * t 2 i + VA "torsion" i * b 2 i).
  Proof.
    pose proof (frame_expand (t 0 i) (t 1 i) (t 2 i) (n 0 i) (n 1 i) (n 2 i)
                  (L_tt O VA HV Hadm i) (L_nn O VA HV Hadm i) (L_tn O VA HV Hadm i)
                  (Dn0 i - n 1 i) (Dn1 i + n 0 i) (Dn2 i)) as E.
    cbv zeta in E. destruct (b_eq O VA HV i) as (Hb0 & Hb1 & Hb2).
    rewrite <- Hb0, <- Hb1, <- Hb2 in E. rewrite proj_t, proj_n, proj_b in E.
    destruct E as (E0 & E1 & E2).
    repeat split; (etransitivity; [eassumption|ring]).
  Qed.

  Notation Db0 := (o_D O (VA "binormal_cylindrical_0#2")).
  Notation Db1 := (o_D O (VA "binormal_cylindrical_1#2")).
  Notation Db2 := (o_D O (VA "binormal_cylindrical_2#2")).

  Lemma Db_eq i :
    Db0 i - b 1 i = l i * VA "torsion" i * - n 0 i /\
    Db1 i + b 0 i = l i * VA "torsion" i * - n 1 i /\
    Db2 i = l i * VA "torsion" i * - n 2 i.
  Proof.
    destruct (b_eq O VA HV i) as (Hb0 & Hb1 & Hb2).
    destruct (frame_txb (t 0 i) (t 1 i) (t 2 i) (n 0 i) (n 1 i) (n 2 i)
                (L_tt O VA HV Hadm i) (L_tn O VA HV Hadm i)) as (X0 & X1 & X2).
    cbv zeta in X0, X1, X2.
    rewrite <- X0, <- X1, <- X2.
    destruct (Dn_eq i) as (N0 & N1 & N2).
    assert (N0' : Dn0 i = l i * (- kap i * t 0 i + VA "torsion" i * b 0 i) + n 1 i) by lra.
    assert (N1' : Dn1 i = l i * (- kap i * t 1 i + VA "torsion" i * b 1 i) - n 0 i) by lra.
    ua ("binormal_cylindrical_0#2" :: "binormal_cylindrical_1#2" :: "binormal_cylindrical_2#2" :: nil)%list.
    rewrite !(D_sub O HL), !(D_mul O HD), Dt0, Dt1, Dt2, N0', N1', N2.
    cbv [tL nL bL] in *. rewrite ?Hb0, ?Hb1, ?Hb2. repeat split; ring.
  Qed.

  Theorem C03_frenet_serret : frenet_serret O VA.
  Proof.
    intros i k Hk3.
    destruct (Dn_eq i) as (N0 & N1 & N2). destruct (Db_eq i) as (B0 & B1 & B2).
    pose proof (Dt0 i) as T0. pose proof (Dt1 i) as T1. pose proof (Dt2 i) as T2.
    pose proof (l_nz i) as Hl.
    cbv [tL nL bL lL kL] in *.
    destruct k as [|[|[|k]]]; [| | |lia]; vnames;
      ua ("s.tangent_cylindrical_0" :: "s.tangent_cylindrical_1" :: "s.tangent_cylindrical_2"
          :: "s.normal_cylindrical_0" :: "s.normal_cylindrical_1" :: "s.normal_cylindrical_2"
          :: "s.binormal_cylindrical_0" :: "s.binormal_cylindrical_1" :: "s.binormal_cylindrical_2"
          :: "s.d_l_d_phi" :: "s.curvature" :: "s.torsion" :: nil)%list.
    - rewrite T0, N0, B0. repeat split; field; exact Hl.
    - rewrite T1, N1, B1. repeat split; field; exact Hl.
    - rewrite T2, N2, B2. repeat split; field; exact Hl.
  Qed.
End T2.

(* ------------------------------------------------------------------------------------------ *)
(* T3: G0 = sG B0 L / (2 pi);  dvarphi/dphi proportional to dl/dphi                              *)
(* ------------------------------------------------------------------------------------------ *)
Section T3.
  Context {I : Type} (O : ops I) (VA : string -> I -> R).
  Hypothesis HV : is_fix O init_axis VA.
  Local Ltac ua l := unfold_fixes O init_axis HV l.

  Theorem C03_G0_relation : G0_relation O VA.
  Proof.
    intros i Hnphi Hnfp Hsum.
    ua ("s.G0" :: "G0" :: "s.axis_length" :: "axis_length" :: "abs_G0_over_B0" :: "B0_over_abs_G0" :: "d_phi" :: "nfp" :: nil)%list.
    qsimp. field. repeat split; try assumption. apply PI_neq0.
  Qed.

  Theorem C03_dvarphi_proportional : dvarphi_proportional O VA.
  Proof.
    intros i. ua ("s.d_varphi_d_phi" :: "s.d_l_d_phi" :: "B0_over_abs_G0" :: nil)%list. unfold Rdiv. ring.
  Qed.

  Theorem C03_T3 : G0_relation O VA /\ dvarphi_proportional O VA.
  Proof. split; [exact C03_G0_relation|exact C03_dvarphi_proportional]. Qed.
End T3.

(* ------------------------------------------------------------------------------------------ *)
(* T4: the Boozer angle on the discrete grid                                                     *)
(* ------------------------------------------------------------------------------------------ *)
Lemma lsum_app l1 l2 : lsum (l1 ++ l2) = lsum l1 + lsum l2.
Proof. induction l1 as [|x l1 IH]; simpl; [lra|]. unfold lsum in *. simpl. rewrite IH. lra. Qed.

Lemma gsum_S m f : gsum (S m) f = gsum m f + f m.
Proof.
  unfold gsum, grid. rewrite seq_S, map_app, lsum_app. simpl. lra.
Qed.

Lemma gsum_pos m f : (0 < m)%nat -> (forall j, 0 < f j) -> 0 < gsum m f.
Proof.
  intros Hm Hf. induction m as [|m IH]; [lia|].
  rewrite gsum_S. destruct m as [|m].
  - unfold gsum, grid. simpl. specialize (Hf 0%nat). lra.
  - assert (0 < gsum (S m) f) by (apply IH; lia). specialize (Hf (S m)). lra.
Qed.

Section T4.
  Variable n : nat. Variable Dm : nat -> nat -> R. Variable fmin : (nat -> R) -> R.
  Variable VA : string -> nat -> R.
  Hypothesis HV : is_fix (disc_ops n Dm fmin) init_axis VA.
  Hypothesis Hrec : cumsum_recurrence n VA.
  Local Ltac ua l := unfold_fixes (disc_ops n Dm fmin) init_axis HV l.

  Notation lj := (VA "d_l_d_phi"). Notation cs := (VA "varphi_cumsum").

  Lemma cumsum_closed j : (j < n)%nat -> cs j + lj 0%nat + lj j = 2 * gsum (S j) lj.
  Proof.
    destruct Hrec as (H0 & HS). induction j as [|j IH]; intros Hj.
    - rewrite H0. unfold gsum, grid. simpl. lra.
    - rewrite (HS (S j)) by lia. replace (S j - 1)%nat with j by lia.
      rewrite (gsum_S (S j)). specialize (IH ltac:(lia)). lra.
  Qed.

  Theorem C03_varphi : varphi_props n VA.
  Proof.
    unfold varphi_props. intros Hn Hl Hnfp Hnphi Hnfpc Hnphic. set (vp := VA "s.varphi#2").
    set (G := gsum n lj). assert (HG : 0 < G) by (apply gsum_pos; assumption).
    set (c := PI / (VA "s.nfp" 0%nat * G)).
    assert (Hc : 0 < c).
    { unfold c. apply Rdiv_lt_0_compat; [apply PI_RGT_0|apply Rmult_lt_0_compat; assumption]. }
    assert (Hfac : forall j, 1 / 2 * VA "d_phi" j * 2 * PI / VA "axis_length" j = c).
    { intros j. ua ("axis_length" :: "d_phi" :: "nfp" :: nil)%list. cbn [o_sum disc_ops]. fold G.
      rewrite (Hnfpc j), (Hnphic j). unfold c. qsimp. field.
      repeat split; try lra. apply PI_neq0. }
    assert (Hvp : forall j, vp j = cs j * c).
    { intros j. rewrite <- (Hfac j). unfold vp. ua ("s.varphi#2" :: nil)%list. qsimp. unfold Rdiv. ring. }
    destruct Hrec as (H0 & HS).
    split; [rewrite Hvp, H0; ring|]. split.
    - intros j Hj. rewrite !Hvp. rewrite (HS (j + 1)%nat) by lia. replace (j + 1 - 1)%nat with j by lia.
      pose proof (Hl j). pose proof (Hl (j + 1)%nat). nra.
    - rewrite Hvp, (Hfac 0%nat).
      pose proof (cumsum_closed (n - 1)%nat ltac:(lia)) as Hc2. replace (S (n - 1)) with n in Hc2 by lia. fold G in Hc2.
      replace (cs (n - 1)%nat * c + (lj (n - 1)%nat + lj 0%nat) * c) with (2 * G * c) by (rewrite <- Hc2; ring).
      unfold c. field. split; lra.
  Qed.
End T4.

(* ------------------------------------------------------------------------------------------ *)
(* T5: elongation = ratio of the singular values                                                 *)
(* ------------------------------------------------------------------------------------------ *)
Lemma elong_alg (xs xc ys yc e : R) :
  let p := xs * xs + xc * xc + ys * ys + yc * yc in
  let q := xs * yc - xc * ys in
  let s1 := (p + sqrt (p * p - 4 * q * q)) / 2 in
  let s2 := (p - sqrt (p * p - 4 * q * q)) / 2 in
  q <> 0 -> e = (p + sqrt (p * p - 4 * q * q)) / (2 * Rabs q) ->
  s1 + s2 = p /\ s1 * s2 = q * q /\ 0 < s2 /\ e * e * s2 = s1 /\ 1 <= e.
Proof.
  intros p q s1 s2 Hq He.
  assert (Hm : 0 <= p - 2 * q).
  { replace (p - 2 * q) with ((xs - yc) * (xs - yc) + (xc + ys) * (xc + ys)) by (unfold p, q; ring).
    pose proof (Rle_0_sqr (xs - yc)). pose proof (Rle_0_sqr (xc + ys)). unfold Rsqr in *. lra. }
  assert (Hp : 0 <= p + 2 * q).
  { replace (p + 2 * q) with ((xs + yc) * (xs + yc) + (xc - ys) * (xc - ys)) by (unfold p, q; ring).
    pose proof (Rle_0_sqr (xs + yc)). pose proof (Rle_0_sqr (xc - ys)). unfold Rsqr in *. lra. }
  assert (Hd : 0 <= p * p - 4 * q * q).
  { replace (p * p - 4 * q * q) with ((p - 2 * q) * (p + 2 * q)) by ring. apply Rmult_le_pos; assumption. }
  assert (Hss : sqrt (p * p - 4 * q * q) * sqrt (p * p - 4 * q * q) = p * p - 4 * q * q) by (apply sqrt_sqrt; exact Hd).
  assert (Hs0 : 0 <= sqrt (p * p - 4 * q * q)) by apply sqrt_pos.
  assert (Ha : Rabs q * Rabs q = q * q).
  { unfold Rabs. destruct (Rcase_abs q); ring. }
  assert (Ha0 : 0 < Rabs q) by (apply Rabs_pos_lt; exact Hq).
  assert (Hpa : 2 * Rabs q <= p).
  { unfold Rabs. destruct (Rcase_abs q); lra. }
  assert (Hqq : 0 < q * q) by (rewrite <- Ha; apply Rmult_lt_0_compat; assumption).
  unfold s1, s2. clearbody p q. clear s1 s2.
  set (s := sqrt (p * p - 4 * q * q)) in *. set (a := Rabs q) in *.
  split; [field|]. split.
  { transitivity ((p * p - s * s) / 4); [field|]. rewrite Hss. field. }
  assert (Hsp : s < p) by nra.
  split; [lra|]. split.
  - rewrite He.
    transitivity ((p + s) * (p * p - s * s) / (8 * (a * a))); [field; lra|].
    rewrite Hss, Ha. field. lra.
  - rewrite He. apply Rmult_le_reg_r with (2 * a); [lra|].
    replace ((p + s) / (2 * a) * (2 * a)) with (p + s) by (field; lra). lra.
Qed.

Section T5.
  Context {I : Type} (O : ops I) (V1 : string -> I -> R).

  Local Ltac prove_elong P HV :=
    intros i Hq; unfold s1sq, s2sq, pp, qq in *;
    apply elong_alg; [exact Hq|];
    unfold_fixes O P HV ("s.elongation" :: "p" :: "q" :: nil)%list; qsimp; reflexivity.

  Theorem C03_elongation_h0 : is_fix O r1_diagnostics_h0 V1 -> elongation_is_sv_ratio V1.
  Proof. intros HV. prove_elong r1_diagnostics_h0 HV. Qed.
  Theorem C03_elongation_hN : is_fix O r1_diagnostics_hN V1 -> elongation_is_sv_ratio V1.
  Proof. intros HV. prove_elong r1_diagnostics_hN HV. Qed.
End T5.

(* ------------------------------------------------------------------------------------------ *)
(* Closed statements on the final environment of a run of the regenerated programs               *)
(* ------------------------------------------------------------------------------------------ *)
Theorem C03_frenet_serret_all : forall (I : Type) (O : ops I), derivation O -> forall VA : string -> I -> R,
  is_fix O init_axis VA -> admissible_axis VA -> jets_consistent O VA ->
  orthonormal VA /\ right_handed VA /\ tangent_is_dr_dl VA /\ curvature_positive VA /\ X1c_def VA /\ frenet_serret O VA.
Proof.
  intros I O HD VA HV Hadm Hj.
  destruct (C03_T1 O VA HV Hadm) as (H1 & H2 & H3 & H4 & H5).
  repeat (split; [assumption|]). exact (C03_frenet_serret O HD VA HV Hadm Hj).
Qed.

Theorem C03_T1_run : forall (I : Type) (O : ops I) (rho : @envG I), let VA := runG O init_axis rho in
  admissible_axis VA ->
  orthonormal VA /\ right_handed VA /\ tangent_is_dr_dl VA /\ curvature_positive VA /\ X1c_def VA.
Proof. intros I O rho VA Hadm. exact (C03_T1 O VA (runG_is_fix O _ rho ssa_init_axis) Hadm). Qed.

Theorem C03_T2_run : forall (I : Type) (O : ops I), derivation O -> forall rho : @envG I,
  let VA := runG O init_axis rho in
  admissible_axis VA -> jets_consistent O VA -> frenet_serret O VA.
Proof. intros I O HD rho VA Hadm Hj. exact (C03_frenet_serret O HD VA (runG_is_fix O _ rho ssa_init_axis) Hadm Hj). Qed.

Theorem C03_T3_run : forall (I : Type) (O : ops I) (rho : @envG I), let VA := runG O init_axis rho in
  G0_relation O VA /\ dvarphi_proportional O VA.
Proof. intros I O rho VA. exact (C03_T3 O VA (runG_is_fix O _ rho ssa_init_axis)). Qed.

Theorem C03_T4_run : forall n Dm fmin (rho : @envG nat), let VA := runG (disc_ops n Dm fmin) init_axis rho in
  cumsum_recurrence n VA -> varphi_props n VA.
Proof. intros n Dm fmin rho VA Hrec. exact (C03_varphi n Dm fmin VA (runG_is_fix _ _ rho ssa_init_axis) Hrec). Qed.

Theorem C03_T5_run_h0 : forall (I : Type) (O : ops I) (rho : @envG I),
  elongation_is_sv_ratio (runG O r1_diagnostics_h0 rho).
Proof. intros I O rho. exact (C03_elongation_h0 O _ (runG_is_fix O _ rho ssa_r1_h0)). Qed.
Theorem C03_T5_run_hN : forall (I : Type) (O : ops I) (rho : @envG I),
  elongation_is_sv_ratio (runG O r1_diagnostics_hN rho).
Proof. intros I O rho. exact (C03_elongation_hN O _ (runG_is_fix O _ rho ssa_r1_hN)). Qed.

Print Assumptions C03_T1.
Print Assumptions C03_frenet_serret.
Print Assumptions C03_frenet_serret_all.
Print Assumptions C03_T3.
Print Assumptions C03_varphi.
Print Assumptions C03_elongation_h0.
Print Assumptions C03_elongation_hN.
Print Assumptions C03_T1_run.
Print Assumptions C03_T2_run.
Print Assumptions C03_T3_run.
Print Assumptions C03_T4_run.
Print Assumptions C03_T5_run_h0.
Print Assumptions C03_T5_run_hN.
Check C03_T1. Check C03_frenet_serret. Check C03_T3. Check C03_varphi. Check C03_elongation_h0. Check C03_elongation_hN.
